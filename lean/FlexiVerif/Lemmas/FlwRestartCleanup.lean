/-
  Multi-run histories WITH cleanup (C06 × C07): the invariant of `FlwCleanupInv` carried across
  `.restart c` operations (a new logger on the same directory, with or without `append`; buffer
  capacity, symlink and suffix setting free per run, same rotation configuration), for all four
  namings (no guard for `timestampsDirect` with appending restarts since the `fix:` of finding D22:
  such a run continues the newest file, `appendTarget_direct`).

  The description of the directory (`CDir2`) differs from `FlwC.CDir` in three points:
  * the compression pattern no longer refers to the suffix setting of the current run (which
    may change from run to run): it only says that every compressed file is older than every
    plain one (`Pat2`);
  * the limit is a `Lim = Option Nat` (`limOf r`): `none` = `Cleanup::Never` = every closed file
    stays, so the same invariant also gives C06 at the level of files for every naming, and
    "the same history with cleanup switched off" is an instance of it;
  * for the number namings it records which closed file carries which index (`numNames`).

  The abstract state is the multi-run log of C06 (`FlwA.MAbs`); the main results are
  `multi_run_inv`, `MInv.view`, `RInv.name_content`.
-/
import FlexiVerif.Lemmas.FlwCleanupInv
import FlexiVerif.Lemmas.FlwRestartA
import FlexiVerif.Lemmas.FlwRestartB
namespace FV.FlwRC
open FV.Flw FV.FlwC
open FV.FlwA (ents isRot curN idx0 idx0_gt MAbs reinit Flushed)
open FV.FlwB (nkey keyLt_irrefl keyLt_trans keyLt_asymm openFile_ok openFile_new)

/-! ### the compression pattern, independent of the suffix setting -/

/-- in a list sorted newest first: once a file is compressed, all older ones are -/
def Pat2 (C : List E) : Prop := C.Pairwise (fun a b => a.1.gz = true → b.1.gz = true)

theorem Pat2.nil : Pat2 [] := List.Pairwise.nil

theorem Pat2.cons_plain {x : E} {C : List E} (h : Pat2 C) (hx : x.1.gz = false) : Pat2 (x :: C) := by
  refine List.pairwise_cons.2 ⟨?_, h⟩
  intro b _ hg
  rw [hx] at hg
  cases hg

theorem Pat2.split : ∀ {C : List E}, Pat2 C →
    ∃ A B, C = A ++ B ∧ (∀ e ∈ A, e.1.gz = false) ∧ (∀ e ∈ B, e.1.gz = true)
  | [], _ => ⟨[], [], rfl, by simp, by simp⟩
  | x :: C, h => by
    obtain ⟨h1, h2⟩ := List.pairwise_cons.1 h
    cases hx : x.1.gz with
    | false =>
      obtain ⟨A, B, hAB, hA, hB⟩ := Pat2.split h2
      refine ⟨x :: A, B, by rw [hAB]; rfl, ?_, hB⟩
      intro e he
      rcases List.mem_cons.1 he with rfl | he
      · exact hx
      · exact hA e he
    | true =>
      refine ⟨[], x :: C, rfl, by simp, ?_⟩
      intro e he
      rcases List.mem_cons.1 he with rfl | he
      · exact hx
      · exact h1 e he hx

theorem gzf_gz (hs : Bool) (now : Nat) (e : E) : (gzf hs now e).1.gz = (e.1.gz || hs) := by
  unfold gzf
  cases h1 : e.1.gz <;> cases hs <;> simp [h1]

/-- cleanup keeps the pattern, whatever the suffix setting -/
theorem Pat2.T {N : List E} (h : Pat2 N) (hs : Bool) (now k m : Nat) : Pat2 (T hs now k m N) := by
  have hN : N = N.take k ++ N.drop k := (List.take_append_drop k N).symm
  have h1 : Pat2 (N.take k ++ N.drop k) := by rw [← hN]; exact h
  unfold Pat2 at h1
  rw [List.pairwise_append] at h1
  unfold Pat2 FV.FlwC.T
  rw [List.pairwise_append]
  refine ⟨h1.1, ?_, ?_⟩
  · rw [List.pairwise_map]
    refine (h1.2.1.sublist (List.take_sublist _ _)).imp ?_
    intro a b hab
    rw [gzf_gz, gzf_gz]
    intro hg
    cases hs with
    | true => simp
    | false =>
      simp only [Bool.or_false] at hg ⊢
      exact hab hg
  · intro a ha b hb
    obtain ⟨b0, hb0, rfl⟩ := List.mem_map.1 hb
    rw [gzf_gz]
    intro hg
    have := h1.2.2 a ha b0 (List.mem_of_mem_take hb0) hg
    simp [this]

/-! ### the description of the directory -/

/-- the namings with an index -/
def NumNaming (nm : Naming) : Prop := nm = .numbers ∨ nm = .numbersDirect

/-- the number of CLOSED files cleanup keeps: `none` = `Cleanup::Never` = all of them -/
abbrev Lim := Option Nat

/-- the first `K` elements; everything without a limit -/
def takeL {α : Type} : Lim → List α → List α
  | none, l => l
  | some K, l => l.take K

/-- the limit of a rotation configuration: `kc + m` closed files (plain or compressed) -/
def limOf (r : RotCfg) : Lim :=
  match r.cleanup with
  | none => none
  | some (k, m) => some (kcOf r k + m)

theorem limOf_some {r : RotCfg} {k m : Nat} (hc : r.cleanup = some (k, m)) :
    limOf r = some (kcOf r k + m) := by
  unfold limOf
  rw [hc]

theorem limOf_none {r : RotCfg} (hc : r.cleanup = none) : limOf r = none := by
  unfold limOf
  rw [hc]

theorem takeL_nil {α : Type} (L : Lim) : takeL L ([] : List α) = [] := by
  cases L <;> simp [takeL]

theorem takeL_zero {α : Type} (l : List α) : takeL (some 0) l = [] := by simp [takeL]

theorem takeL_cons_takeL {α : Type} (L : Lim) (x : α) (l : List α) :
    takeL L (x :: takeL L l) = takeL L (x :: l) := by
  cases L with
  | none => rfl
  | some K => exact take_cons_take K x l

theorem takeL_takeL {α : Type} (L : Lim) (l : List α) : takeL L (takeL L l) = takeL L l := by
  cases L with
  | none => rfl
  | some K => simp [takeL, List.take_take]

theorem map_takeL {α β : Type} (g : α → β) (L : Lim) (l : List α) :
    (takeL L l).map g = takeL L (l.map g) := by
  cases L with
  | none => rfl
  | some K => simp [takeL, List.map_take]

/-- the infixes `r{idx-1}, r{idx-2}, …` (newest first), at most `L` of them -/
def numNames (idx : Nat) (L : Lim) : List (Option Infix) :=
  (takeL L (List.range idx).reverse).map (fun n => some (Infix.num n))

theorem numNames_zero (L : Lim) : numNames 0 L = [] := by simp [numNames, takeL_nil]

theorem numNames_none (idx : Nat) : numNames idx (some 0) = [] := by simp [numNames, takeL]

theorem numNames_succ (idx : Nat) (L : Lim) :
    numNames (idx + 1) L = takeL L (some (Infix.num idx) :: numNames idx L) := by
  unfold numNames
  rw [List.range_succ, List.reverse_append, List.reverse_singleton, List.singleton_append,
    map_takeL, map_takeL, List.map_cons, takeL_cons_takeL]

theorem not_numNaming_ts : ¬ NumNaming .timestamps := by
  intro h; rcases h with h | h <;> cases h

theorem not_numNaming_tsd : ¬ NumNaming .timestampsDirect := by
  intro h; rcases h with h | h <;> cases h

theorem T_ifx (hs : Bool) (now k m : Nat) (N : List E) :
    (T hs now k m N).map (·.1.ifx) = (N.map (·.1.ifx)).take (k + m) := by
  have : (fun e : E => e.1.ifx) ∘ gzf hs now = fun e : E => e.1.ifx := by
    funext e
    exact gzf_ifx hs now e
  simp only [T, List.map_append, List.map_map, this, List.map_take, List.map_drop]
  rw [List.take_add]

/-- the directory `d` consists of the current file `(h, f)` and the closed files `C` (newest
    first; compressed ones older than plain ones); their contents are the newest `L`
    abstract closed files -/
structure CDir2 (L : Lim) (nm : Naming) (idx stamp : Nat) (d : Dir) (h : FName)
    (f : File) (C : List E) (closed : List (List Nat)) : Prop where
  perm : List.Perm d ((h, f) :: C)
  sorted : SortedD C
  pat : Pat2 C
  data : C.map (·.2.data) = takeL L closed.reverse
  below : ∀ e ∈ C, ∃ i, e.1.ifx = some i ∧ Below nm idx stamp h i
  handle : HandleOK nm idx stamp h
  names : NumNaming nm → C.map (·.1.ifx) = numNames idx L

namespace CDir2
variable {L : Lim} {nm : Naming} {idx stamp : Nat} {d : Dir} {h : FName}
  {f : File} {C : List E} {closed : List (List Nat)}

theorem len (hd : CDir2 (some 0) nm idx stamp d h f C closed) : C = [] := by
  have := hd.data
  rw [takeL_zero] at this
  exact List.map_eq_nil_iff.1 this

theorem h_notin (hd : CDir2 L nm idx stamp d h f C closed) : ∀ e ∈ C, e.1 ≠ h := by
  intro e he heq
  obtain ⟨i, hi, hb⟩ := hd.below e he
  cases hw : nm.writesDirect with
  | false =>
    have := hd.handle.cur hw
    rw [← heq, ] at this
    rw [this] at hi
    cases hi
    have := hb.rotated
    simp [Infix.rotated] at this
  | true =>
    have := hb.key_lt hw hd.handle
    rw [← heq] at this
    simp only [nkey, hi] at this
    rw [keyLt_irrefl] at this
    cases this

theorem names_nodup (hd : CDir2 L nm idx stamp d h f C closed) :
    (((h, f) :: C).map (·.1)).Nodup := by
  rw [List.map_cons, List.nodup_cons]
  refine ⟨?_, names_nodup_of_ifxs hd.sorted.ifxs_nodup⟩
  intro hmem
  obtain ⟨e, he, heq⟩ := List.mem_map.1 hmem
  exact hd.h_notin e he heq

theorem get_handle (hd : CDir2 L nm idx stamp d h f C closed) : d.get h = some f :=
  get_of_perm hd.perm hd.names_nodup (by simp)

/-- for the direct namings the whole directory is sorted -/
theorem sortedAll (hd : CDir2 L nm idx stamp d h f C closed) (hw : nm.writesDirect = true) :
    SortedD ((h, f) :: C) := by
  constructor
  · rw [List.pairwise_cons]
    refine ⟨?_, hd.sorted.1⟩
    intro e he
    obtain ⟨i, hi, hb⟩ := hd.below e he
    have := hb.key_lt hw hd.handle
    simpa [nkey, hi] using this
  · intro e he
    rcases List.mem_cons.1 he with rfl | he
    · exact hd.handle.rotN hw
    · exact hd.sorted.2 e he

/-- replacing the content of the current file -/
theorem upd (hd : CDir2 L nm idx stamp d h f C closed) {d' : Dir} {f' : File}
    (hp : List.Perm d' ((h, f') :: C)) : CDir2 L nm idx stamp d' h f' C closed :=
  ⟨hp, hd.sorted, hd.pat, hd.data, hd.below, hd.handle, hd.names⟩

theorem parts_eq (hd : CDir2 L nm idx stamp d h f C closed) :
    parts d = C.reverse.map (·.2.data) ++ [f.data] := by
  cases hw : nm.writesDirect with
  | false =>
    have hcur := hd.handle.cur hw
    have hp : List.Perm d ([(h, f)] ++ C) := hd.perm
    have hX : ∀ e ∈ [(h, f)], isRot e = false := by
      intro e he
      simp only [List.mem_singleton] at he
      rw [he, hcur]; rfl
    have hext : ∀ e ∈ [(h, f)], ∀ n, e.1.ifx ≠ some (.ext n) := by
      intro e he n
      simp only [List.mem_singleton] at he
      rw [he, hcur]; simp
    rw [parts_of_perm hp hX hext hd.sorted]
    have h1 : Dir.get d ⟨some .cur, false⟩ = some f := by
      have := hd.get_handle
      rw [hcur] at this
      exact this
    have h2 : Dir.get d ⟨none, false⟩ = none := by
      apply get_none_of_perm hd.perm
      intro e he heq
      rcases List.mem_cons.1 he with rfl | he
      · rw [hcur] at heq; cases heq
      · obtain ⟨i, hi, -⟩ := hd.sorted.2 e he
        rw [heq] at hi; cases hi
    rw [h1, h2]
    simp
  | true =>
    have hs := hd.sortedAll hw
    have hp : List.Perm d ([] ++ (h, f) :: C) := hd.perm
    rw [parts_of_perm hp (by simp) (by simp) hs]
    have h1 : Dir.get d ⟨some .cur, false⟩ = none := by
      apply get_none_of_perm hd.perm
      intro e he heq
      obtain ⟨i, hi, hr⟩ := hs.2 e he
      rw [heq] at hi
      cases hi
      simp [Infix.rotated] at hr
    have h2 : Dir.get d ⟨none, false⟩ = none := by
      apply get_none_of_perm hd.perm
      intro e he heq
      obtain ⟨i, hi, hr⟩ := hs.2 e he
      rw [heq] at hi
      cases hi
    rw [h1, h2]
    simp

end CDir2

/-! ### `cleanup` on a described directory -/

/-- **the cleanup step**: a directory consisting of the current file `(h, f)` and the list `N`
    of closed files (sorted, compressed ones oldest) is cut down to the newest `kc + m` closed
    files (`closed'`: an abstract log whose newest `kc + m` files are the contents of `N`'s;
    `kc`: the number of closed PLAIN files kept, `FlwC.kcOf`) -/
theorem cleanup_cdir2_some (now : Nat) (cfg : Cfg) (r : RotCfg) (k m : Nat)
    (hc : r.cleanup = some (k, m)) (d : Dir) (h : FName) (f : File) (N : List E)
    (idx stamp : Nat) (closed' : List (List Nat))
    (hp : List.Perm d ((h, f) :: N)) (hsN : SortedD N) (hpat : Pat2 N)
    (hH : HandleOK r.naming idx stamp h)
    (hbelow : ∀ e ∈ N, ∃ i, e.1.ifx = some i ∧ Below r.naming idx stamp h i)
    (hdata : (N.map (·.2.data)).take (kcOf r k + m) = closed'.reverse.take (kcOf r k + m))
    (hnames : NumNaming r.naming →
      (N.map (·.1.ifx)).take (kcOf r k + m) = numNames idx (some (kcOf r k + m))) :
    ∃ d' C', cleanup now cfg r noFaults d = (d', false) ∧
      CDir2 (some (kcOf r k + m)) r.naming idx stamp d' h f C' closed' := by
  have hgz := hH.gz
  have hfin : ∀ d' : Dir, List.Perm d' ((h, f) :: T cfg.hasSuffix now (kcOf r k) m N) →
      CDir2 (some (kcOf r k + m)) r.naming idx stamp d' h f
        (T cfg.hasSuffix now (kcOf r k) m N) closed' := by
    intro d' hp'
    refine ⟨hp', T_sorted _ _ _ _ hsN, hpat.T _ _ _ _, ?_, ?_, hH, ?_⟩
    · rw [T_data, hdata]
      rfl
    · intro e he
      obtain ⟨e0, he0, hi0⟩ := mem_T he
      rw [hi0]
      exact hbelow e0 he0
    · intro hn
      rw [T_ifx, hnames hn]
  by_cases hw : r.naming.writesDirect = true
  · -- the current file is the newest entry of the listing
    have hsAll : SortedD ((h, f) :: N) := by
      constructor
      · rw [List.pairwise_cons]
        refine ⟨?_, hsN.1⟩
        intro e he
        obtain ⟨i, hi, hb⟩ := hbelow e he
        have := hb.key_lt hw hH
        simpa [nkey, hi] using this
      · intro e he
        rcases List.mem_cons.1 he with rfl | he
        · exact hH.rotN hw
        · exact hsN.2 e he
    obtain ⟨A, B, hAB, hA, hB⟩ := (hpat.cons_plain (x := (h, f)) hgz).split
    obtain ⟨d', h1, h2⟩ := cleanup_spec' now cfg r k m hc d [] ((h, f) :: N) A B hAB
      (by simpa using hp) (by simp) (by simp [ifxs]) hsAll hA hB
    rw [kkOf_direct hw, T_cons_succ] at h2
    exact ⟨d', _, h1, hfin d' (by simpa using h2)⟩
  · have hw' : r.naming.writesDirect = false := by simpa using hw
    have hcur := hH.cur hw'
    obtain ⟨A, B, hAB, hA, hB⟩ := hpat.split
    obtain ⟨d', h1, h2⟩ := cleanup_spec' now cfg r k m hc d [(h, f)] N A B hAB
      (by simpa using hp)
      (by
        intro e he
        simp only [List.mem_singleton] at he
        rw [he, hcur]; rfl)
      (by simp [ifxs]) hsN hA hB
    rw [kkOf_indirect hw'] at h2
    exact ⟨d', _, h1, hfin d' (by simpa using h2)⟩

/-- … for every cleanup setting (`Cleanup::Never`: nothing happens, every closed file stays) -/
theorem cleanup_cdir2 (now : Nat) (cfg : Cfg) (r : RotCfg) (d : Dir) (h : FName) (f : File)
    (N : List E) (idx stamp : Nat) (closed' : List (List Nat))
    (hp : List.Perm d ((h, f) :: N)) (hsN : SortedD N) (hpat : Pat2 N)
    (hH : HandleOK r.naming idx stamp h)
    (hbelow : ∀ e ∈ N, ∃ i, e.1.ifx = some i ∧ Below r.naming idx stamp h i)
    (hdata : takeL (limOf r) (N.map (·.2.data)) = takeL (limOf r) closed'.reverse)
    (hnames : NumNaming r.naming → takeL (limOf r) (N.map (·.1.ifx)) = numNames idx (limOf r)) :
    ∃ d' C', cleanup now cfg r noFaults d = (d', false) ∧
      CDir2 (limOf r) r.naming idx stamp d' h f C' closed' := by
  cases hc : r.cleanup with
  | none =>
    rw [limOf_none hc] at hdata hnames ⊢
    refine ⟨d, N, by simp [cleanup, hc], hp, hsN, hpat, hdata, hbelow, hH, hnames⟩
  | some km =>
    obtain ⟨k, m⟩ := km
    rw [limOf_some hc] at hdata hnames ⊢
    exact cleanup_cdir2_some now cfg r k m hc d h f N idx stamp closed' hp hsN hpat hH hbelow
      hdata hnames

/-! ### a new current file: open, (flush,) cleanup -/

/-- everything `open + cleanup` needs to know about the directory in which the file that was
    written so far carries its final name `hold` (for the direct namings: the name it always
    had) and the next current file will be `⟨some ti, false⟩` -/
structure Ready (r : RotCfg) (L : Lim) (d1 : Dir) (hold : FName) (f : File) (C : List E)
    (closed : List (List Nat)) (ti : Infix) (idx' stamp' : Nat) : Prop where
  perm : List.Perm d1 ((hold, f) :: C)
  sorted : SortedD ((hold, f) :: C)
  gz : hold.gz = false
  pat : Pat2 C
  data : C.map (·.2.data) = takeL L closed.reverse
  new : if r.naming.writesDirect = true
    then ti.rotated = true ∧ keyLt (nkey hold) ti.key = true else ti = .cur
  below : ∀ e ∈ (hold, f) :: C, ∃ i, e.1.ifx = some i ∧
    Below r.naming idx' stamp' ⟨some ti, false⟩ i
  handle : HandleOK r.naming idx' stamp' ⟨some ti, false⟩
  names : NumNaming r.naming →
    takeL L (((hold, f) :: C).map (·.1.ifx)) = numNames idx' L

theorem file_append_nil (f : File) : ({ f with data := f.data ++ [] } : File) = f := by
  cases f
  simp

/-- opening the next file and cleaning up (with or without the no-op flush of the old writer in
    between) leaves the new current file and the newest closed files -/
theorem open_cleanup (r : RotCfg) (s : St) (now : Nat)
    {hold : FName} {f : File} {C : List E} {closed : List (List Nat)} {ti : Infix}
    {idx' stamp' : Nat} (hR : Ready r (limOf r) s.dir hold f C closed ti idx' stamp') :
    (openFile s ⟨some ti, false⟩ now noFaults 0).1.cfg = s.cfg ∧
    (openFile s ⟨some ti, false⟩ now noFaults 0).1.act = s.act ∧
    ∀ d2, (d2 = (openFile s ⟨some ti, false⟩ now noFaults 0).1.dir ∨
           d2 = (openFile s ⟨some ti, false⟩ now noFaults 0).1.dir.append hold []) →
      createdOr d2 ⟨some ti, false⟩ now = now ∧ fileLen d2 ⟨some ti, false⟩ = 0 ∧
      ∃ d4 C', cleanup now s.cfg r noFaults d2 = (d4, false) ∧
        CDir2 (limOf r) r.naming idx' stamp' d4 ⟨some ti, false⟩ ⟨[], now⟩ C'
          (closed ++ [f.data]) := by
  have hsC := hR.sorted
  have hnew := hR.new
  -- the new name is new
  have hnotin : ∀ e ∈ (hold, f) :: C, e.1 ≠ (⟨some ti, false⟩ : FName) := by
    intro e he heq
    by_cases hw : r.naming.writesDirect = true
    · rw [if_pos hw] at hnew
      have h1 : keyLt (nkey e.1) ti.key = true := by
        rcases List.mem_cons.1 he with rfl | he
        · exact hnew.2
        · have := hsC.1
          rw [List.pairwise_cons] at this
          exact keyLt_trans (this.1 e he) hnew.2
      rw [heq] at h1
      simp only [nkey] at h1
      rw [keyLt_irrefl] at h1
      cases h1
    · rw [if_neg hw] at hnew
      obtain ⟨i, hi, hr⟩ := hsC.2 e he
      rw [heq] at hi
      cases hi
      rw [hnew] at hr
      simp [Infix.rotated] at hr
  have hget : s.dir.get ⟨some ti, false⟩ = none := get_none_of_perm hR.perm hnotin
  obtain ⟨-, hocfg, hoact, hodir⟩ := openFile_new s ⟨some ti, false⟩ now hget
  refine ⟨hocfg, hoact, ?_⟩
  have hnd0 : (((hold, f) :: C).map (·.1)).Nodup := names_nodup_of_ifxs hsC.ifxs_nodup
  have hp1 : List.Perm (s.dir.set ⟨some ti, false⟩ ⟨[], now⟩)
      ((⟨some ti, false⟩, ⟨[], now⟩) :: (hold, f) :: C) := perm_set_new _ hR.perm hnotin
  have hnd1 : (((⟨some ti, false⟩, (⟨[], now⟩ : File)) :: (hold, f) :: C).map (·.1)).Nodup := by
    rw [List.map_cons, List.nodup_cons]
    refine ⟨?_, hnd0⟩
    intro hmem
    obtain ⟨e, he, heq⟩ := List.mem_map.1 hmem
    exact hnotin e he heq
  have hp2 : List.Perm ((s.dir.set ⟨some ti, false⟩ ⟨[], now⟩).append hold [])
      ((⟨some ti, false⟩, ⟨[], now⟩) :: (hold, f) :: C) := by
    have := perm_append_old (M1 := [(⟨some ti, false⟩, ⟨[], now⟩)]) [] hp1 hnd1
    rw [file_append_nil] at this
    exact this
  have hall : ∀ d2 : Dir, List.Perm d2 ((⟨some ti, false⟩, ⟨[], now⟩) :: (hold, f) :: C) →
      createdOr d2 ⟨some ti, false⟩ now = now ∧ fileLen d2 ⟨some ti, false⟩ = 0 ∧
      ∃ d4 C', cleanup now s.cfg r noFaults d2 = (d4, false) ∧
        CDir2 (limOf r) r.naming idx' stamp' d4 ⟨some ti, false⟩ ⟨[], now⟩ C'
          (closed ++ [f.data]) := by
    intro d2 hpd
    have hg : d2.get ⟨some ti, false⟩ = some ⟨[], now⟩ := get_of_perm hpd hnd1 (by simp)
    refine ⟨by simp [createdOr, hg], by simp [fileLen, hg], ?_⟩
    apply cleanup_cdir2 now s.cfg r d2 ⟨some ti, false⟩ ⟨[], now⟩ ((hold, f) :: C)
      idx' stamp' (closed ++ [f.data]) hpd hsC (hR.pat.cons_plain hR.gz) hR.handle hR.below
      ?_ hR.names
    rw [List.map_cons, hR.data, takeL_cons_takeL]
    simp
  intro d2 hd2
  rcases hd2 with rfl | rfl
  · rw [hodir]; exact hall _ hp1
  · rw [hodir]; exact hall _ hp2

/-- `rotTailC` (the tail of `mountNextCore`) when the `BufWriter` is empty -/
theorem rotTailC_spec2 (r : RotCfg) (s : St)
    (act : Active) (ti : Infix) (now : Nat) {f : File} {C : List E} {closed : List (List Nat)}
    {idx' stamp' : Nat} (hpend : act.pending = [])
    (hR : Ready r (limOf r) s.dir act.handle f C closed ti idx' stamp') :
    ∃ d4 C', rotTailC s act ti r now =
        ({ (openFile s ⟨some ti, false⟩ now noFaults 0).1 with dir := d4 },
         { act with pending := [], handle := ⟨some ti, false⟩, path := ⟨some ti, false⟩,
                    unbuffered := false, size := 0, created := now }, false) ∧
      (openFile s ⟨some ti, false⟩ now noFaults 0).1.cfg = s.cfg ∧
      CDir2 (limOf r) r.naming idx' stamp' d4 ⟨some ti, false⟩ ⟨[], now⟩ C'
        (closed ++ [f.data]) := by
  obtain ⟨hocfg, -, hall⟩ := open_cleanup r s now hR
  obtain ⟨hcr, -, d4, C', hcl, hd4⟩ := hall _ (Or.inr rfl)
  refine ⟨d4, C', ?_, hocfg, hd4⟩
  unfold rotTailC
  simp only [hpend, hocfg, hcl, hcr]

/-! ### the four namings: the directory once the file written so far has its final name -/

section ready
variable {r : RotCfg} {L : Lim} {idx stamp : Nat} {d : Dir} {h : FName} {f : File} {C : List E}
  {closed : List (List Nat)}

theorem ready_numbers (hnm : r.naming = .numbers)
    (hd : CDir2 L r.naming idx stamp d h f C closed) (j : Nat)
    (hj : ∀ e ∈ C, ∀ n, e.1.ifx = some (.num n) → n < j) (hjn : L = some 0 ∨ j = idx)
    (stamp' : Nat) :
    h = curN ∧ d.get curN = some f ∧
    Ready r L ((d.erase curN).set ⟨some (.num j), false⟩ f) ⟨some (.num j), false⟩ f C closed
      .cur (j + 1) stamp' := by
  have hw : r.naming.writesDirect = false := by rw [hnm]; rfl
  have hb := hd.below
  have hH := hd.handle
  rw [hnm] at hb hH
  simp only [Below, HandleOK] at hb hH
  have hf : d.get curN = some f := by rw [← hH]; exact hd.get_handle
  refine ⟨hH, hf, ?_⟩
  have hperm0 : List.Perm d ([] ++ (curN, f) :: C) := by rw [← hH]; exact hd.perm
  have hnd0 : (([] ++ (curN, f) :: C).map (fun e : E => e.1)).Nodup := by
    rw [← hH]; exact hd.names_nodup
  have hnotin : ∀ e ∈ C, e.1 ≠ (⟨some (.num j), false⟩ : FName) := by
    intro e he heq
    have := hj e he j (by rw [heq])
    omega
  have hbelowC : ∀ e ∈ C, ∃ n, e.1.ifx = some (.num n) ∧ n < j := by
    intro e he
    obtain ⟨i, hi1, n, rfl, -⟩ := hb e he
    exact ⟨n, hi1, hj e he n hi1⟩
  refine ⟨perm_set_new f (perm_erase_old hperm0 hnd0) hnotin, ?_, rfl, hd.pat, hd.data,
    by rw [if_neg (by simp [hw])], ?_, by rw [hnm]; rfl, ?_⟩
  · constructor
    · rw [List.pairwise_cons]
      refine ⟨?_, hd.sorted.1⟩
      intro e he
      obtain ⟨n, hi1, hn⟩ := hbelowC e he
      simp [nkey, hi1, Infix.key, keyLt, hn]
    · intro e he
      rcases List.mem_cons.1 he with rfl | he
      · exact ⟨_, rfl, rfl⟩
      · exact hd.sorted.2 e he
  · rw [hnm]
    intro e he
    rcases List.mem_cons.1 he with rfl | he
    · exact ⟨_, rfl, j, rfl, Nat.lt_succ_self _⟩
    · obtain ⟨n, hi1, hn⟩ := hbelowC e he
      exact ⟨_, hi1, n, rfl, Nat.lt_succ_of_lt hn⟩
  · intro hn
    rcases hjn with h0 | rfl
    · rw [h0, takeL_zero, numNames_none]
    · rw [List.map_cons, hd.names hn, numNames_succ]

theorem ready_timestamps (hnm : r.naming = .timestamps)
    (hd : CDir2 L r.naming idx stamp d h f C closed) (now : Nat) (hst : stamp ≤ now)
    (idx' : Nat) :
    h = curN ∧ d.get curN = some f ∧
    createdOr ((d.erase curN).set ⟨some (collisionFree d stamp), false⟩ f) curN now = now ∧
    Ready r L ((d.erase curN).set ⟨some (collisionFree d stamp), false⟩ f)
      ⟨some (collisionFree d stamp), false⟩ f C closed .cur idx' now := by
  have hw : r.naming.writesDirect = false := by rw [hnm]; rfl
  have hb := hd.below
  have hH := hd.handle
  rw [hnm] at hb hH
  simp only [Below, HandleOK] at hb hH
  have hf : d.get curN = some f := by rw [← hH]; exact hd.get_handle
  obtain ⟨rr, hrr⟩ := FV.FlwA.collisionFree_ts d stamp
  have hperm0 : List.Perm d ([] ++ (curN, f) :: C) := by rw [← hH]; exact hd.perm
  have hnd0 : (([] ++ (curN, f) :: C).map (fun e : E => e.1)).Nodup := by
    rw [← hH]; exact hd.names_nodup
  have hmemC : ∀ e ∈ C, e ∈ ents d := fun e he => hd.perm.symm.subset (by simp [he])
  have habove : ∀ e ∈ C, keyLt (nkey e.1) (collisionFree d stamp).key = true := by
    intro e he
    obtain ⟨i, hi1, k', r', rfl, hk⟩ := hb e he
    have := collisionFree_above d stamp e (hmemC e he) k' r' hi1 hk
    simpa [nkey, hi1] using this
  have hnotin : ∀ e ∈ C, e.1 ≠ (⟨some (collisionFree d stamp), false⟩ : FName) := by
    intro e he heq
    have := habove e he
    rw [heq] at this
    simp only [nkey] at this
    rw [keyLt_irrefl] at this
    cases this
  have hperm : List.Perm ((d.erase curN).set ⟨some (collisionFree d stamp), false⟩ f)
      ((⟨some (collisionFree d stamp), false⟩, f) :: C) :=
    perm_set_new f (perm_erase_old hperm0 hnd0) hnotin
  have hsC : SortedD ((⟨some (collisionFree d stamp), false⟩, f) :: C) := by
    constructor
    · rw [List.pairwise_cons]
      refine ⟨?_, hd.sorted.1⟩
      intro e he
      exact habove e he
    · intro e he
      rcases List.mem_cons.1 he with rfl | he
      · exact ⟨_, rfl, by rw [hrr]; rfl⟩
      · exact hd.sorted.2 e he
  have hcr : createdOr ((d.erase curN).set ⟨some (collisionFree d stamp), false⟩ f)
      curN now = now := by
    unfold createdOr
    rw [get_none_of_perm hperm]
    intro e he heq
    obtain ⟨i, hi1, hr1⟩ := hsC.2 e he
    rw [heq] at hi1
    cases hi1
    simp [Infix.rotated] at hr1
  refine ⟨hH, hf, hcr, hperm, hsC, rfl, hd.pat, hd.data, by rw [if_neg (by simp [hw])], ?_,
    by rw [hnm]; rfl, fun hn => absurd hn (by rw [hnm]; exact not_numNaming_ts)⟩
  rw [hnm]
  intro e he
  rcases List.mem_cons.1 he with rfl | he
  · exact ⟨_, rfl, stamp, rr, hrr, hst⟩
  · obtain ⟨i, hi1, k', r', rfl, hk⟩ := hb e he
    exact ⟨_, hi1, k', r', rfl, Nat.le_trans hk hst⟩

theorem ready_numbersDirect (hnm : r.naming = .numbersDirect)
    (hd : CDir2 L r.naming idx stamp d h f C closed) (stamp' : Nat) :
    Ready r L d h f C closed (.num (idx + 1)) (idx + 1) stamp' := by
  have hj : idx < idx + 1 := Nat.lt_succ_self _
  have hw : r.naming.writesDirect = true := by rw [hnm]; rfl
  have hsAll := hd.sortedAll hw
  have hb := hd.below
  have hH := hd.handle
  rw [hnm] at hb hH
  simp only [Below, HandleOK] at hb hH
  refine ⟨hd.perm, hsAll, by rw [hH], hd.pat, hd.data, ?_, ?_, by rw [hnm]; rfl, ?_⟩
  · rw [if_pos hw]
    refine ⟨rfl, ?_⟩
    rw [hH]
    simp [nkey, Infix.key, keyLt]
  · rw [hnm]
    intro e he
    rcases List.mem_cons.1 he with rfl | he
    · exact ⟨.num idx, by rw [hH], idx, rfl, hj⟩
    · obtain ⟨i, hi1, n, rfl, hn⟩ := hb e he
      exact ⟨_, hi1, n, rfl, Nat.lt_trans hn hj⟩
  · intro hn
    rw [List.map_cons, hd.names hn, numNames_succ, hH]

theorem ready_timestampsDirect (hnm : r.naming = .timestampsDirect)
    (hd : CDir2 L r.naming idx stamp d h f C closed) (now : Nat) (hst : stamp ≤ now)
    (idx' : Nat) :
    Ready r L d h f C closed (collisionFree d now) idx' now := by
  have hw : r.naming.writesDirect = true := by rw [hnm]; rfl
  have hsAll := hd.sortedAll hw
  have hb := hd.below
  have hH := hd.handle
  rw [hnm] at hb hH
  simp only [Below, HandleOK] at hb hH
  obtain ⟨r0, hH⟩ := hH
  obtain ⟨rr, hrr⟩ := FV.FlwA.collisionFree_ts d now
  have hmemH : (h, f) ∈ ents d := hd.perm.symm.subset (by simp)
  have habove : keyLt (nkey h) (collisionFree d now).key = true := by
    have := collisionFree_above d now (h, f) hmemH stamp r0 (by rw [hH]) hst
    simpa [nkey, hH] using this
  refine ⟨hd.perm, hsAll, by rw [hH], hd.pat, hd.data, ?_, ?_, by rw [hnm]; exact ⟨rr, by rw [hrr]⟩,
    fun hn => absurd hn (by rw [hnm]; exact not_numNaming_tsd)⟩
  · rw [if_pos hw]
    exact ⟨by rw [hrr]; rfl, habove⟩
  · rw [hnm]
    intro e he
    rcases List.mem_cons.1 he with rfl | he
    · refine ⟨.ts stamp r0, by rw [hH], stamp, r0, rfl, hst, ?_⟩
      have := habove
      simpa [nkey, hH] using this
    · obtain ⟨i, hi1, k', r', rfl, hk, hlt⟩ := hb e he
      exact ⟨_, hi1, k', r', rfl, Nat.le_trans hk hst, keyLt_trans hlt habove⟩

end ready

/-! ### the invariant of a running (or just ended) writer -/

/-- the configurations in which the index of the writer counts ALL files ever closed (by any
    run): the direct numbering always (the current file keeps the highest index alive), the
    `rCURRENT` numbering as long as at least one rotated file is kept -/
def IdxExact (r : RotCfg) : Prop :=
  r.naming = .numbersDirect ∨ (r.naming = .numbers ∧ limOf r ≠ some 0)

/-- the writer state `act` and the directory `d` describe the abstract log `a` cut down to its
    newest files -/
structure RInv (r : RotCfg) (d : Dir) (act : Active) (a : Abs) : Prop where
  started : a.started = true
  dir : ∃ f C, CDir2 (limOf r) r.naming act.idx act.stamp d act.handle f C a.closed ∧
    f.data ++ act.pending = a.cur ∧ f.created = act.created
  unbuf : act.unbuffered = false
  size : act.size = a.size
  created : act.created = a.created
  stampc : r.naming = .timestamps → act.stamp = act.created
  idxc : IdxExact r → act.idx = a.closed.length

/-- a mounted writer; `t`: a lower bound of all clock readings still to come -/
def Live (r : RotCfg) (t : Nat) (s : St) (a : Abs) : Prop :=
  ∃ act, s.act = some act ∧ RInv r s.dir act a ∧ (s.cfg.cap = none → act.pending = []) ∧
    act.stamp ≤ t

theorem wrote_live (r : RotCfg) (s2 : St) (act2 : Active) (a2 : Abs) (b : List Nat)
    (t : Nat) (hi : RInv r s2.dir act2 a2) (hdir : s2.cfg.cap = none → act2.pending = [])
    (hst : act2.stamp ≤ t) :
    (wrote s2 act2 b).cfg = s2.cfg ∧
    Live r t (wrote s2 act2 b) { a2 with cur := a2.cur ++ b, size := a2.size + b.length } := by
  obtain ⟨f, C, hd, hcur, hfc⟩ := hi.dir
  obtain ⟨d', p', f', hw, hp', hdat, hdir'⟩ := writeRaw_perm s2 act2 b f C hd.perm hd.names_nodup
    hi.unbuf hdir
  have hsame := FV.FlwA.same_writeRaw s2 act2 b
  rw [hw] at hsame
  obtain ⟨f'', hg'', -, hc''⟩ := hsame act2.handle f hd.get_handle
  have hg' : d'.get act2.handle = some f' := (hd.upd hp').get_handle
  have hff : f'' = f' := by
    simp only at hg''
    rw [hg'] at hg''
    cases hg''
    rfl
  subst hff
  unfold wrote
  rw [hw]
  refine ⟨rfl, _, rfl, ⟨hi.started, ⟨f'', C, hd.upd hp', ?_, hc''.trans hfc⟩, hi.unbuf, ?_,
    hi.created, hi.stampc, hi.idxc⟩, hdir', hst⟩
  · simp only [hdat, hcur]
  · simp [hi.size]

theorem flush_rinv (r : RotCfg) (d : Dir) (act : Active) (a : Abs)
    (hi : RInv r d act a) :
    RInv r (d.append act.handle act.pending) { act with pending := [] } a := by
  obtain ⟨f, C, hd, hcur, hfc⟩ := hi.dir
  have hp' := perm_append_old (M1 := []) act.pending hd.perm hd.names_nodup
  exact ⟨hi.started, ⟨_, C, hd.upd hp', by simpa using hcur, hfc⟩, hi.unbuf, hi.size,
    hi.created, hi.stampc, hi.idxc⟩

/-! ### rotation -/

theorem RInv.of_new {r : RotCfg} {d' : Dir} {act act1 : Active} {a : Abs} {d : Dir}
    (hi : RInv r d act a) {f : File} (hcur : f.data = a.cur) (ti : Infix) (now : Nat)
    {C' : List E}
    (hd' : CDir2 (limOf r) r.naming act1.idx act1.stamp d' ⟨some ti, false⟩
      ⟨[], now⟩ C' (a.closed ++ [f.data]))
    (hst : r.naming = .timestamps → act1.stamp = now)
    (hidx : IdxExact r → act1.idx = a.closed.length + 1) :
    RInv r d'
      { act1 with pending := [], handle := ⟨some ti, false⟩, path := ⟨some ti, false⟩,
                  unbuffered := false, size := 0, created := now } (a.rotate now) := by
  refine ⟨hi.started, ⟨⟨[], now⟩, C', ?_, rfl, rfl⟩, rfl, rfl, rfl, hst, ?_⟩
  · rw [hcur] at hd'
    exact hd'
  · intro h
    rw [hidx h]
    simp [Abs.rotate]

/-- `mountNextCore` with an empty `BufWriter` -/
theorem mountNextCore_rot2 {r : RotCfg} (s : St)
    (act : Active) (a : Abs) (force : Bool) (now : Nat)
    (hi : RInv r s.dir act a) (hpend : act.pending = []) (hst : act.stamp ≤ now)
    (h : (force || rotationNecessary r act now) = true) :
    ∃ s' act', mountNextCore s act r force now noFaults = (s', act', false) ∧ s'.cfg = s.cfg ∧
      RInv r s'.dir act' (a.rotate now) ∧ act'.pending = [] ∧ act'.stamp ≤ now := by
  obtain ⟨f, C, hd, hcur, hfc⟩ := hi.dir
  have hfa : f.data = a.cur := by rw [← hcur, hpend]; simp
  cases hnm : r.naming with
  | numbers =>
    obtain ⟨hH, hf, hR⟩ := ready_numbers hnm hd act.idx
      (by
        intro e he n hn
        obtain ⟨i, hi1, hb⟩ := hd.below e he
        rw [hnm] at hb
        obtain ⟨n', rfl, hn'⟩ := hb
        rw [hn] at hi1
        cases hi1
        exact hn') (Or.inr rfl) act.stamp
    rw [mountNextCore_n s act r force now f hnm hH hf h]
    obtain ⟨d4, C', hrt, hocfg, hd4⟩ := rotTailC_spec2 r
      { s with dir := (s.dir.erase curN).set ⟨some (.num act.idx), false⟩ f }
      { act with handle := ⟨some (.num act.idx), false⟩, idx := act.idx + 1 } .cur now hpend hR
    refine ⟨_, _, hrt, hocfg, ?_, rfl, hst⟩
    exact hi.of_new hfa .cur now hd4 (by rw [hnm]; intro hh; cases hh)
      (fun h => by show act.idx + 1 = _; rw [hi.idxc h])
  | timestamps =>
    obtain ⟨hH, hf, hcr, hR⟩ := ready_timestamps hnm hd now hst act.idx
    rw [mountNextCore_t s act r force now f hnm hH hf h, hcr]
    obtain ⟨d4, C', hrt, hocfg, hd4⟩ := rotTailC_spec2 r
      { s with dir := (s.dir.erase curN).set ⟨some (collisionFree s.dir act.stamp), false⟩ f }
      { act with handle := ⟨some (collisionFree s.dir act.stamp), false⟩, stamp := now } .cur now
      hpend hR
    refine ⟨_, _, hrt, hocfg, ?_, rfl, Nat.le_refl _⟩
    exact hi.of_new hfa .cur now hd4 (fun _ => rfl)
      (fun h => by rcases h with h | ⟨h, -⟩ <;> rw [hnm] at h <;> cases h)
  | numbersDirect =>
    have hR := ready_numbersDirect hnm hd act.stamp
    rw [mountNextCore_nD s act r force now hnm h]
    obtain ⟨d4, C', hrt, hocfg, hd4⟩ := rotTailC_spec2 r s
      { act with idx := act.idx + 1 } (.num (act.idx + 1)) now hpend hR
    refine ⟨_, _, hrt, hocfg, ?_, rfl, hst⟩
    exact hi.of_new hfa _ now hd4 (by rw [hnm]; intro hh; cases hh)
      (fun h => by show act.idx + 1 = _; rw [hi.idxc h])
  | timestampsDirect =>
    have hR := ready_timestampsDirect hnm hd now hst act.idx
    rw [mountNextCore_tD s act r force now hnm h]
    obtain ⟨d4, C', hrt, hocfg, hd4⟩ := rotTailC_spec2 r s
      { act with stamp := now } (collisionFree s.dir now) now hpend hR
    refine ⟨_, _, hrt, hocfg, ?_, rfl, Nat.le_refl _⟩
    exact hi.of_new hfa _ now hd4 (by rw [hnm]; intro hh; cases hh)
      (fun h => by rcases h with h | ⟨h, -⟩ <;> rw [hnm] at h <;> cases h)

/-- `mountNext`: the `BufWriter` is flushed into the file that is rotated out, then the
    rotation proper -/
theorem mountNext_rot2 {r : RotCfg} (s : St)
    (act : Active) (a : Abs) (force : Bool) (now : Nat)
    (hi : RInv r s.dir act a) (hst : act.stamp ≤ now)
    (h : (force || rotationNecessary r act now) = true) :
    ∃ s' act', mountNext s act r force now noFaults = (s', act', false) ∧ s'.cfg = s.cfg ∧
      RInv r s'.dir act' (a.rotate now) ∧ act'.pending = [] ∧ act'.stamp ≤ now := by
  rw [FV.FlwA.mountNext_due s act r force now noFaults h]
  exact mountNextCore_rot2 (flushAct s act).1 (flushAct s act).2 a true now
    (flush_rinv r s.dir act a hi) rfl hst rfl

/-! ### a write by a mounted writer -/

theorem writeBuffer_live {r : RotCfg} (s : St)
    (a : Abs) (b : List Nat) (t now : Nat) (hrot : s.cfg.rot = some r)
    (hl : Live r t s a) (ht : t ≤ now) :
    (writeBuffer s b now noFaults).1.cfg = s.cfg ∧
    Live r now (writeBuffer s b now noFaults).1 (Abs.step (some r) a (.write b) now) := by
  obtain ⟨act, hact, hi, hdir, hst⟩ := hl
  have hst' : act.stamp ≤ now := Nat.le_trans hst ht
  have hne := FV.FlwA.nec_eq r act a now hi.size hi.created
  by_cases hnec : rotationNecessary r act now = true
  · obtain ⟨s2, act2, hm, hc2, hi2, hp2, hst2⟩ :=
      mountNext_rot2 s act a false now hi hst' (by simp [hnec])
    rw [writeBuffer_some_rot s act b now r s2 act2 hact hrot hm]
    have habs : Abs.step (some r) a (.write b) now =
        { a.rotate now with cur := (a.rotate now).cur ++ b,
                            size := (a.rotate now).size + b.length } := by
      simp [Abs.step, hi.started, hne, hnec]
    rw [habs]
    obtain ⟨h1, h2⟩ := wrote_live r s2 act2 _ b now hi2 (fun _ => hp2) hst2
    exact ⟨h1.trans hc2, h2⟩
  · have hm := FV.FlwA.mountNext_skip s act r false now noFaults (by simpa using hnec)
    rw [writeBuffer_some_rot s act b now r s act hact hrot hm]
    have habs : Abs.step (some r) a (.write b) now =
        { a with cur := a.cur ++ b, size := a.size + b.length } := by
      simp [Abs.step, hi.started, hne, hnec]
    rw [habs]
    exact wrote_live r s act a b now hi hdir hst'

/-! ### `initState` without faults, on any directory -/

/-- the naming decision of `initState`: the directory after the rename of a left-over current
    file (if any), the infix of the file to open, index and stamp of the writer -/
def initPre2 (s : St) (r : RotCfg) (now : Nat) : Dir × Infix × Nat × Nat :=
  match r.naming with
  | .timestampsDirect =>
    if s.cfg.append then
      (s.dir, appendTarget s.dir ((latestStamp s.dir).getD now), 0, (latestStamp s.dir).getD now)
    else (s.dir, collisionFree s.dir now, 0, now)
  | .timestamps =>
    if s.cfg.append then (s.dir, .cur, 0, createdOr s.dir curN now)
    else ((s.dir.rename curN
            ⟨some (collisionFree s.dir (createdOr s.dir curN now)), false⟩).1, .cur, 0, now)
  | .numbers =>
    if s.cfg.append then (s.dir, .cur, idx0 s.dir, 0)
    else ((s.dir.rename curN ⟨some (.num (idx0 s.dir)), false⟩).1, .cur,
          (if (s.dir.rename curN ⟨some (.num (idx0 s.dir)), false⟩).2 then idx0 s.dir + 1
           else idx0 s.dir), 0)
  | .numbersDirect =>
    (s.dir,
     .num (match highestIndex s.dir with
           | none => 0
           | some h => if s.cfg.append then h else h + 1),
     (match highestIndex s.dir with
      | none => 0
      | some h => if s.cfg.append then h else h + 1), 0)

theorem initState_eq2 (s : St) (r : RotCfg) (now : Nat) (hrot : s.cfg.rot = some r) :
    initState s now noFaults =
      (let p := initPre2 s r now
       let n : FName := ⟨some p.2.1, false⟩
       let s1 := (openFile { s with dir := p.1 } n now noFaults 0).1
       let c := cleanup now s1.cfg r noFaults s1.dir
       if c.2 then ({ s1 with dir := c.1 }, false)
       else ({ s1 with dir := c.1,
                       act := some ⟨n, n, [], false, p.2.2.1, p.2.2.2,
                         if s.cfg.append then fileLen s1.dir n else 0,
                         createdOr s1.dir n now⟩ }, true)) := by
  have hr0 : hit noFaults.renameF 0 = false := rfl
  unfold initState
  simp only [hrot]
  cases hnm : r.naming with
  | numbers =>
    cases happ : s.cfg.append with
    | true =>
      simp only [initPre2, hnm, happ]
      cases hh : highestIndex s.dir <;>
        simp [FV.FlwC.openFile_snd, FV.FlwC.openFile_cfg, happ, idx0, hh]
    | false =>
      rcases hren : s.dir.rename curN ⟨some (.num (idx0 s.dir)), false⟩ with ⟨d1, rn⟩
      simp only [initPre2, hnm, happ, hren]
      have hren' := hren
      unfold idx0 curN at hren'
      cases hh : highestIndex s.dir <;> rw [hh] at hren' <;>
        simp only [hr0, Bool.not_false, if_true, Bool.false_eq_true, if_false, hren'] <;>
        simp [FV.FlwC.openFile_snd, FV.FlwC.openFile_cfg, happ, idx0, hh]
  | timestamps =>
    cases happ : s.cfg.append with
    | true =>
      simp only [initPre2, hnm, happ]
      simp [FV.FlwC.openFile_snd, FV.FlwC.openFile_cfg, happ]
    | false =>
      rcases hren : s.dir.rename curN
        ⟨some (collisionFree s.dir (createdOr s.dir curN now)), false⟩ with ⟨d1, rn⟩
      simp only [initPre2, hnm, happ, hren]
      have hren' := hren
      unfold curN at hren'
      simp only [hr0, Bool.not_false, if_true, Bool.false_eq_true, if_false]
      simp [FV.FlwC.openFile_snd, FV.FlwC.openFile_cfg, happ]
  | numbersDirect =>
    cases hh : highestIndex s.dir <;> cases happ : s.cfg.append <;>
      simp only [initPre2, hnm, hh, happ] <;>
      simp [FV.FlwC.openFile_snd, FV.FlwC.openFile_cfg, happ]
  | timestampsDirect =>
    cases happ : s.cfg.append with
    | true =>
      simp only [initPre2, hnm, happ]
      simp [FV.FlwC.openFile_snd, FV.FlwC.openFile_cfg, happ]
    | false =>
      simp only [initPre2, hnm, happ]
      simp [FV.FlwC.openFile_snd, FV.FlwC.openFile_cfg, happ]

/-- `initState` once the naming decision, the opened file and the result of cleanup are known -/
theorem initState_of (s : St) (r : RotCfg) (now : Nat) (hrot : s.cfg.rot = some r)
    (d1 : Dir) (ti : Infix) (idx' stamp' : Nat) (hp : initPre2 s r now = (d1, ti, idx', stamp'))
    (d4 : Dir)
    (hcl : cleanup now (openFile { s with dir := d1 } ⟨some ti, false⟩ now noFaults 0).1.cfg r
      noFaults (openFile { s with dir := d1 } ⟨some ti, false⟩ now noFaults 0).1.dir = (d4, false)) :
    initState s now noFaults =
      ({ (openFile { s with dir := d1 } ⟨some ti, false⟩ now noFaults 0).1 with
          dir := d4,
          act := some ⟨⟨some ti, false⟩, ⟨some ti, false⟩, [], false, idx', stamp',
            if s.cfg.append then
              fileLen (openFile { s with dir := d1 } ⟨some ti, false⟩ now noFaults 0).1.dir
                ⟨some ti, false⟩
            else 0,
            createdOr (openFile { s with dir := d1 } ⟨some ti, false⟩ now noFaults 0).1.dir
              ⟨some ti, false⟩ now⟩ }, true) := by
  rw [initState_eq2 s r now hrot, hp]
  simp only [hcl]
  rfl

/-- the first initialisation ever: empty directory, any `append` -/
theorem init_empty {r : RotCfg} (s : St) (now : Nat)
    (hrot : s.cfg.rot = some r) (hdir : s.dir = []) :
    ∃ s', initState s now noFaults = (s', true) ∧ s'.cfg = s.cfg ∧
      Live r now s' ⟨[], [], true, 0, now⟩ := by
  obtain ⟨hok1, hok2, hok3⟩ := firstName_ok r.naming now
  have hcf : collisionFree [] now = .ts now none := by
    simp [collisionFree, Dir.has, Dir.get]
  have hp : initPre2 s r now = ([], (firstName r.naming now).1, (firstName r.naming now).2.1,
      (firstName r.naming now).2.2) := by
    unfold initPre2
    rw [hdir]
    cases hnm : r.naming <;> cases happ : s.cfg.append <;>
      simp [firstName, idx0, highestIndex, latestStamp, FV.FlwA.rename_nil, createdOr,
        FV.FlwA.get_nil, hcf] <;> rfl
  have hget : ({ s with dir := ([] : Dir) } : St).dir.get ⟨some (firstName r.naming now).1, false⟩ =
      none := rfl
  obtain ⟨-, hocfg, -, hodir⟩ :=
    openFile_new { s with dir := ([] : Dir) } ⟨some (firstName r.naming now).1, false⟩ now hget
  replace hodir : (openFile { s with dir := ([] : Dir) } ⟨some (firstName r.naming now).1, false⟩ now
      noFaults 0).1.dir = [(⟨some (firstName r.naming now).1, false⟩, ⟨[], now⟩)] := hodir
  obtain ⟨d4, C', hcl, hd4⟩ := cleanup_cdir2 now s.cfg r
    [(⟨some (firstName r.naming now).1, false⟩, ⟨[], now⟩)]
    ⟨some (firstName r.naming now).1, false⟩ ⟨[], now⟩ []
    (firstName r.naming now).2.1 (firstName r.naming now).2.2 [] (List.Perm.refl _)
    ⟨List.Pairwise.nil, by simp⟩ Pat2.nil hok1 (by simp) (by simp [takeL_nil])
    (by intro hn; rcases hn with hn | hn <;> simp [hn, firstName, numNames_zero, takeL_nil])
  have hcl' : cleanup now (openFile { s with dir := ([] : Dir) }
        ⟨some (firstName r.naming now).1, false⟩ now noFaults 0).1.cfg r noFaults
      (openFile { s with dir := ([] : Dir) } ⟨some (firstName r.naming now).1, false⟩ now
        noFaults 0).1.dir = (d4, false) := by
    rw [hocfg, hodir]
    exact hcl
  rw [initState_of s r now hrot _ _ _ _ hp d4 hcl']
  have hcr : createdOr [((⟨some (firstName r.naming now).1, false⟩ : FName), (⟨[], now⟩ : File))]
      ⟨some (firstName r.naming now).1, false⟩ now = now := by
    simp [createdOr, Dir.get]
  have hfl : fileLen [((⟨some (firstName r.naming now).1, false⟩ : FName), (⟨[], now⟩ : File))]
      ⟨some (firstName r.naming now).1, false⟩ = 0 := by
    simp [fileLen, Dir.get]
  refine ⟨_, rfl, hocfg, _, rfl, ?_, fun _ => rfl, hok2⟩
  simp only [hodir, hcr, hfl, ite_self]
  refine ⟨rfl, ⟨⟨[], now⟩, C', hd4, rfl, rfl⟩, rfl, rfl, rfl, ?_, ?_⟩
  · intro hnm
    simp [hnm, firstName]
  · intro h
    rcases h with h | ⟨h, -⟩ <;> simp [h, firstName]

/-- the highest index of a `numbersDirect` directory is the one of the current file -/
theorem highestIndex_direct {L : Lim} {idx stamp : Nat} {d : Dir} {h : FName} {f : File} {C : List E}
    {closed : List (List Nat)} (hd : CDir2 L .numbersDirect idx stamp d h f C closed) :
    highestIndex d = some idx := by
  have hH := hd.handle
  simp only [HandleOK] at hH
  have hmem : (h, f) ∈ ents d := hd.perm.symm.subset (by simp)
  have hnum : FV.FlwB.numOf (h, f) = some idx := by rw [hH]; rfl
  rw [show highestIndex d = FV.FlwB.foldMax FV.FlwB.numOf d none from FV.FlwB.highestIndex_eq d]
  obtain ⟨s1, s2⟩ := FV.FlwB.foldMax_spec FV.FlwB.numOf d none
  cases hres : FV.FlwB.foldMax FV.FlwB.numOf d none with
  | none =>
    have := (s2 hres).2 _ hmem
    rw [hnum] at this
    cases this
  | some mx =>
    obtain ⟨h1, -, h3⟩ := s1 mx hres
    have hle : idx ≤ mx := h3 _ hmem idx hnum
    rcases h1 with h1 | ⟨e, he, hge⟩
    · cases h1
    · have hifx := FV.FlwB.numOf_eq_some hge
      rcases List.mem_cons.1 (hd.perm.subset he) with rfl | heC
      · rw [hnum] at hge
        exact hge.symm
      · obtain ⟨i, hi1, hb⟩ := hd.below e heC
        simp only [Below] at hb
        obtain ⟨n, rfl, hn⟩ := hb
        rw [hifx] at hi1
        cases hi1
        omega

/-- an appending run re-opens the current file; cleanup then changes nothing but (after a change
    of the suffix setting) the compression of files in the compress range -/
theorem open_append_cleanup {r : RotCfg} (s : St)
    (now : Nat) (happ : s.cfg.append = true) {h : FName} {f : File} {C : List E}
    {closed : List (List Nat)} {idx stamp : Nat}
    (hd : CDir2 (limOf r) r.naming idx stamp s.dir h f C closed) (idx' stamp' : Nat)
    (hH' : HandleOK r.naming idx' stamp' h)
    (hb' : ∀ e ∈ C, ∃ i, e.1.ifx = some i ∧ Below r.naming idx' stamp' h i)
    (hn' : NumNaming r.naming → C.map (·.1.ifx) = numNames idx' (limOf r)) :
    (openFile { s with dir := s.dir } h now noFaults 0).1.cfg = s.cfg ∧
    (openFile { s with dir := s.dir } h now noFaults 0).1.dir = s.dir ∧
    fileLen s.dir h = f.data.length ∧ createdOr s.dir h now = f.created ∧
    ∃ d4 C', cleanup now s.cfg r noFaults s.dir = (d4, false) ∧
      CDir2 (limOf r) r.naming idx' stamp' d4 h f C' closed := by
  have hg := hd.get_handle
  obtain ⟨s1, ho, hc1, hd1, -⟩ := FV.FlwA.openFile_append s h now f hg happ
  have ho' : openFile { s with dir := s.dir } h now noFaults 0 = (s1, true) := ho
  refine ⟨by rw [ho']; exact hc1, by rw [ho']; exact hd1, by simp [fileLen, hg],
    by simp [createdOr, hg], ?_⟩
  apply cleanup_cdir2 now s.cfg r s.dir h f C idx' stamp' closed hd.perm hd.sorted hd.pat
    hH' hb'
  · rw [hd.data, takeL_takeL]
  · intro hn
    rw [hn' hn]
    unfold numNames
    rw [← map_takeL, takeL_takeL]

/-- `get_highest_index + 1` is `j` if every index is below `j` and `j - 1` occurs -/
theorem idx0_eq_of (d : Dir) (j : Nat)
    (hlt : ∀ e ∈ ents d, ∀ n, e.1.ifx = some (.num n) → n < j)
    (hex : j = 0 ∨ ∃ e ∈ ents d, e.1.ifx = some (.num (j - 1))) : idx0 d = j := by
  have hnum : ∀ (e : E) (n : Nat), e.1.ifx = some (.num n) → FV.FlwB.numOf e = some n := by
    intro e n h
    simp [FV.FlwB.numOf, h]
  unfold idx0
  rw [show highestIndex d = FV.FlwB.foldMax FV.FlwB.numOf d none from FV.FlwB.highestIndex_eq d]
  obtain ⟨s1, s2⟩ := FV.FlwB.foldMax_spec FV.FlwB.numOf d none
  cases hres : FV.FlwB.foldMax FV.FlwB.numOf d none with
  | none =>
    rcases hex with h0 | ⟨e, he, hi⟩
    · simp [h0]
    · have := (s2 hres).2 e he
      rw [hnum e _ hi] at this
      cases this
  | some mx =>
    obtain ⟨h1, -, h3⟩ := s1 mx hres
    rcases h1 with h1 | ⟨e, he, hge⟩
    · cases h1
    · have hmx : mx < j := hlt e he mx (FV.FlwB.numOf_eq_some hge)
      rcases hex with h0 | ⟨e', he', hi'⟩
      · omega
      · have := h3 e' he' (j - 1) (hnum e' _ hi')
        simp only
        omega

/-- `numbers`, at least one rotated file kept: a new run finds the index of the previous one -/
theorem idx0_numbers {L : Lim} {idx stamp : Nat} {d : Dir} {h : FName} {f : File} {C : List E}
    {closed : List (List Nat)} (hd : CDir2 L .numbers idx stamp d h f C closed)
    (hK : L ≠ some 0) : idx0 d = idx := by
  have hH := hd.handle
  simp only [HandleOK] at hH
  apply idx0_eq_of
  · intro e he n hn
    rcases List.mem_cons.1 (hd.perm.subset he) with rfl | heC
    · rw [hH] at hn
      cases hn
    · obtain ⟨i, hi1, hb⟩ := hd.below e heC
      simp only [Below] at hb
      obtain ⟨n', rfl, hn'⟩ := hb
      rw [hn] at hi1
      cases hi1
      exact hn'
  · cases idx with
    | zero => exact Or.inl rfl
    | succ n =>
      right
      have hnames := hd.names (Or.inl rfl)
      rw [numNames_succ] at hnames
      have hcons : ∃ tl, takeL L (some (Infix.num n) :: numNames n L) = some (Infix.num n) :: tl := by
        cases L with
        | none => exact ⟨_, rfl⟩
        | some K =>
          cases K with
          | zero => exact absurd rfl hK
          | succ K' => exact ⟨_, List.take_succ_cons⟩
      obtain ⟨tl, htl⟩ := hcons
      rw [htl] at hnames
      obtain ⟨e, C', hC, hi, -⟩ := List.map_eq_cons_iff.1 hnames
      exact ⟨e, hd.perm.symm.subset (by rw [hC]; simp), hi⟩

/-- `timestampsDirect`: the newest stamp among the plain files is the one of the current file -/
theorem latestStamp_direct {L : Lim} {idx stamp : Nat} {d : Dir} {h : FName} {f : File}
    {C : List E} {closed : List (List Nat)}
    (hd : CDir2 L .timestampsDirect idx stamp d h f C closed) : latestStamp d = some stamp := by
  have hH := hd.handle
  simp only [HandleOK] at hH
  obtain ⟨r0, hH⟩ := hH
  have hmem : (h, f) ∈ ents d := hd.perm.symm.subset (by simp)
  have hst : FV.FlwB.stampOf (h, f) = some stamp := by rw [hH]; rfl
  rw [show latestStamp d = FV.FlwB.foldMax FV.FlwB.stampOf d none from FV.FlwB.latestStamp_eq d]
  obtain ⟨s1, s2⟩ := FV.FlwB.foldMax_spec FV.FlwB.stampOf d none
  cases hres : FV.FlwB.foldMax FV.FlwB.stampOf d none with
  | none =>
    have := (s2 hres).2 _ hmem
    rw [hst] at this
    cases this
  | some mx =>
    obtain ⟨h1, -, h3⟩ := s1 mx hres
    have hle : stamp ≤ mx := h3 _ hmem stamp hst
    rcases h1 with h1 | ⟨e, he, hge⟩
    · cases h1
    · obtain ⟨r', hifx⟩ := FV.FlwB.stampOf_eq_some hge
      rcases List.mem_cons.1 (hd.perm.subset he) with rfl | heC
      · rw [hst] at hge
        exact hge.symm
      · obtain ⟨i, hi1, hb⟩ := hd.below e heC
        simp only [Below] at hb
        obtain ⟨k', r'', rfl, hk', -⟩ := hb
        rw [hifx] at hi1
        cases hi1
        congr 1
        omega

/-- … and the file an appending run continues (`appendTarget`, since the `fix:` of finding D22) is
    the current file, whether it carries the base name of its second or a `.restart-N` name:
    it is plain, and every other file with its stamp has a smaller key -/
theorem appendTarget_direct {L : Lim} {idx stamp : Nat} {d : Dir} {h : FName} {f : File}
    {C : List E} {closed : List (List Nat)}
    (hd : CDir2 L .timestampsDirect idx stamp d h f C closed) :
    h = ⟨some (appendTarget d stamp), false⟩ := by
  have hH := hd.handle
  simp only [HandleOK] at hH
  obtain ⟨r0, hH⟩ := hH
  have hmem : (h, f) ∈ ents d := hd.perm.symm.subset (by simp)
  rw [hH] at hmem
  rw [FV.FlwB.appendTarget_eq d stamp r0 f hmem, hH]
  intro e he _ r hifx
  rcases List.mem_cons.1 (hd.perm.subset he) with rfl | heC
  · rw [hH] at hifx
    simp only [Option.some.injEq, Infix.ts.injEq, true_and] at hifx
    exact ⟨r, hifx, Nat.le_refl _⟩
  · obtain ⟨i, hi1, hb⟩ := hd.below e heC
    simp only [Below] at hb
    obtain ⟨k', r'', rfl, -, hlt⟩ := hb
    rw [hifx] at hi1
    cases hi1
    rw [hH] at hlt
    cases r0 with
    | none => simp [nkey, Infix.key, keyLt] at hlt
    | some r1 =>
      refine ⟨r1, rfl, ?_⟩
      simp [nkey, Infix.key, keyLt] at hlt
      omega

/-- **initialisation of a new run on what earlier runs left** (`g`: the flushed writer of the
    previous run, kept as a ghost). Without `append` the current file found is closed under a
    fresh name and cleanup runs: exactly a rotation. With `append` the current file is
    continued (`timestampsDirect`: also if it is a `.restart-N` sibling, `appendTarget_direct`). -/
theorem init_ghost {r : RotCfg} (s : St) (g : Active)
    (a : Abs) (now : Nat) (hrot : s.cfg.rot = some r) (hg : g.pending = [])
    (hi : RInv r s.dir g a) (hst : g.stamp ≤ now) :
    ∃ s', initState s now noFaults = (s', true) ∧ s'.cfg = s.cfg ∧
      Live r now s' (reinit (some r) s.cfg.append a now) := by
  obtain ⟨f, C, hd, hcur, hfc⟩ := hi.dir
  have hfa : f.data = a.cur := by rw [← hcur, hg]; simp
  cases happ : s.cfg.append with
  | false =>
    rw [FV.FlwA.reinit_rotate r a now hi.started]
    -- what all namings have in common
    have tail : ∀ (d1 : Dir) (hold : FName) (ti : Infix) (idx' stamp' : Nat),
        initPre2 s r now = (d1, ti, idx', stamp') →
        Ready r (limOf r) d1 hold f C a.closed ti idx' stamp' →
        (r.naming = .timestamps → stamp' = now) → stamp' ≤ now →
        (IdxExact r → idx' = a.closed.length + 1) →
        ∃ s', initState s now noFaults = (s', true) ∧ s'.cfg = s.cfg ∧
          Live r now s' (a.rotate now) := by
      intro d1 hold ti idx' stamp' hp hR hts hle hidx
      obtain ⟨hocfg, -, hall⟩ := open_cleanup r { s with dir := d1 } now hR
      obtain ⟨hcr, -, d4, C', hcl, hd4⟩ := hall _ (Or.inl rfl)
      have hcl' : cleanup now (openFile { s with dir := d1 } ⟨some ti, false⟩ now noFaults 0).1.cfg r
          noFaults (openFile { s with dir := d1 } ⟨some ti, false⟩ now noFaults 0).1.dir =
          (d4, false) := by
        rw [hocfg]; exact hcl
      rw [initState_of s r now hrot _ _ _ _ hp d4 hcl']
      refine ⟨_, rfl, hocfg, _, rfl, ?_, fun _ => rfl, hle⟩
      simp only [happ, hcr, Bool.false_eq_true, if_false]
      exact hi.of_new (act1 := ⟨⟨some ti, false⟩, ⟨some ti, false⟩, [], false, idx', stamp', 0, now⟩)
        hfa ti now hd4 hts hidx
    cases hnm : r.naming with
    | numbers =>
      have hidx0 : limOf r ≠ some 0 → idx0 s.dir = g.idx := by
        intro hK
        have hd' := hd
        rw [hnm] at hd'
        exact idx0_numbers hd' hK
      obtain ⟨-, hf, hR⟩ := ready_numbers hnm hd (idx0 s.dir)
        (fun e he n hn => idx0_gt s.dir e (hd.perm.symm.subset (by simp [he])) n hn)
        (by
          by_cases hK : limOf r = some 0
          · exact Or.inl hK
          · exact Or.inr (hidx0 hK)) 0
      have hren : s.dir.rename curN ⟨some (.num (idx0 s.dir)), false⟩ =
          ((s.dir.erase curN).set ⟨some (.num (idx0 s.dir)), false⟩ f, true) := by
        simp [Dir.rename, hf]
      exact tail _ _ .cur (idx0 s.dir + 1) 0 (by simp [initPre2, hnm, happ, hren]) hR
        (by rw [hnm]; intro h; cases h) (Nat.zero_le _)
        (fun h => by
          rcases h with h | ⟨-, hK⟩
          · rw [hnm] at h; cases h
          · rw [hidx0 hK, hi.idxc (Or.inr ⟨hnm, hK⟩)])
    | timestamps =>
      obtain ⟨-, hf, -, hR⟩ := ready_timestamps hnm hd now hst 0
      have hco : createdOr s.dir curN now = g.stamp := by
        simp [createdOr, hf, hfc, hi.stampc hnm]
      have hren : s.dir.rename curN ⟨some (collisionFree s.dir g.stamp), false⟩ =
          ((s.dir.erase curN).set ⟨some (collisionFree s.dir g.stamp), false⟩ f, true) := by
        simp [Dir.rename, hf]
      exact tail _ _ .cur 0 now (by simp [initPre2, hnm, happ, hco, hren]) hR
        (fun _ => rfl) (Nat.le_refl _)
        (fun h => by rcases h with h | ⟨h, -⟩ <;> rw [hnm] at h <;> cases h)
    | numbersDirect =>
      have hhi : highestIndex s.dir = some g.idx := by
        have hd' := hd
        rw [hnm] at hd'
        exact highestIndex_direct hd'
      have hR := ready_numbersDirect hnm hd 0
      exact tail _ _ (.num (g.idx + 1)) (g.idx + 1) 0 (by simp [initPre2, hnm, happ, hhi]) hR
        (by rw [hnm]; intro h; cases h) (Nat.zero_le _)
        (fun _ => by rw [hi.idxc (Or.inl hnm)])
    | timestampsDirect =>
      have hR := ready_timestampsDirect hnm hd now hst 0
      exact tail _ _ (collisionFree s.dir now) 0 now (by simp [initPre2, hnm, happ]) hR
        (by rw [hnm]; intro h; cases h) (Nat.le_refl _)
        (fun h => by rcases h with h | ⟨h, -⟩ <;> rw [hnm] at h <;> cases h)
  | true =>
    rw [FV.FlwA.reinit_append (some r) a now hi.started]
    have tail : ∀ (ti : Infix) (idx' stamp' : Nat), g.handle = ⟨some ti, false⟩ →
        initPre2 s r now = (s.dir, ti, idx', stamp') →
        HandleOK r.naming idx' stamp' g.handle →
        (∀ e ∈ C, ∃ i, e.1.ifx = some i ∧ Below r.naming idx' stamp' g.handle i) →
        (r.naming = .timestamps → stamp' = f.created) → stamp' ≤ now →
        (NumNaming r.naming → C.map (·.1.ifx) = numNames idx' (limOf r)) →
        (IdxExact r → idx' = a.closed.length) →
        ∃ s', initState s now noFaults = (s', true) ∧ s'.cfg = s.cfg ∧
          Live r now s' { a with size := a.cur.length } := by
      intro ti idx' stamp' hh hp hH' hb' hts hle hn' hidx
      obtain ⟨hocfg, hodir, hfl, hcr, d4, C', hcl, hd4⟩ :=
        open_append_cleanup s now happ hd idx' stamp' hH' hb' hn'
      rw [hh] at hocfg hodir hfl hcr hd4
      have hcl' : cleanup now
          (openFile { s with dir := s.dir } ⟨some ti, false⟩ now noFaults 0).1.cfg r
          noFaults (openFile { s with dir := s.dir } ⟨some ti, false⟩ now noFaults 0).1.dir =
          (d4, false) := by
        rw [hocfg, hodir]; exact hcl
      rw [initState_of s r now hrot _ _ _ _ hp d4 hcl']
      refine ⟨_, rfl, hocfg, _, rfl, ?_, fun _ => rfl, hle⟩
      simp only [happ, if_true, hodir, hfl, hcr]
      exact ⟨hi.started, ⟨f, C', hd4, by simp [hfa], rfl⟩, rfl, by simp [hfa],
        hfc.trans hi.created, hts, hidx⟩
    have hb := hd.below
    have hH := hd.handle
    cases hnm : r.naming with
    | numbers =>
      rw [hnm] at hb hH
      simp only [Below, HandleOK] at hb hH
      have hidx0 : limOf r ≠ some 0 → idx0 s.dir = g.idx := by
        intro hK
        have hd' := hd
        rw [hnm] at hd'
        exact idx0_numbers hd' hK
      refine tail .cur (idx0 s.dir) 0 hH (by simp [initPre2, hnm, happ]) (by rw [hnm]; exact hH) ?_
        (by rw [hnm]; intro h; cases h) (Nat.zero_le _) ?_ ?_
      · rw [hnm]
        intro e he
        obtain ⟨i, hi1, n, rfl, -⟩ := hb e he
        exact ⟨_, hi1, n, rfl, idx0_gt s.dir e (hd.perm.symm.subset (by simp [he])) n hi1⟩
      · intro _
        by_cases hK : limOf r = some 0
        · rw [hd.names (Or.inl hnm), hK, numNames_none, numNames_none]
        · rw [hidx0 hK]
          exact hd.names (Or.inl hnm)
      · intro h
        rcases h with h | ⟨-, hK⟩
        · rw [hnm] at h; cases h
        · rw [hidx0 hK, hi.idxc (Or.inr ⟨hnm, hK⟩)]
    | timestamps =>
      rw [hnm] at hb hH
      simp only [Below, HandleOK] at hb hH
      have hf : s.dir.get curN = some f := by rw [← hH]; exact hd.get_handle
      have hst' : g.stamp = f.created := by rw [hi.stampc hnm, hfc]
      have hco : createdOr s.dir curN now = g.stamp := by
        simp [createdOr, hf, hst']
      refine tail .cur 0 g.stamp hH (by simp [initPre2, hnm, happ, hco]) (by rw [hnm]; exact hH) ?_
        (fun _ => hst') hst
        (fun hn => absurd hn (by rw [hnm]; exact not_numNaming_ts))
        (fun h => by rcases h with h | ⟨h, -⟩ <;> rw [hnm] at h <;> cases h)
      rw [hnm]
      intro e he
      exact hb e he
    | numbersDirect =>
      have hhi : highestIndex s.dir = some g.idx := by
        have hd' := hd
        rw [hnm] at hd'
        exact highestIndex_direct hd'
      rw [hnm] at hb hH
      simp only [Below, HandleOK] at hb hH
      refine tail (.num g.idx) g.idx 0 hH (by simp [initPre2, hnm, happ, hhi])
        (by rw [hnm]; exact hH) ?_ (by rw [hnm]; intro h; cases h) (Nat.zero_le _)
        (fun _ => hd.names (Or.inr hnm)) (fun _ => hi.idxc (Or.inl hnm))
      rw [hnm]
      intro e he
      exact hb e he
    | timestampsDirect =>
      have hd' := hd
      rw [hnm] at hd'
      have hls : latestStamp s.dir = some g.stamp := latestStamp_direct hd'
      have hbase : g.handle = ⟨some (appendTarget s.dir g.stamp), false⟩ :=
        appendTarget_direct hd'
      rw [hnm] at hb hH
      simp only [Below, HandleOK] at hb hH
      refine tail (appendTarget s.dir g.stamp) 0 g.stamp hbase (by simp [initPre2, hnm, happ, hls])
        (by rw [hnm]; exact hH) ?_ (by rw [hnm]; intro h; cases h) hst
        (fun hn => absurd hn (by rw [hnm]; exact not_numNaming_tsd))
        (fun h => by rcases h with h | ⟨h, -⟩ <;> rw [hnm] at h <;> cases h)
      rw [hnm]
      intro e he
      exact hb e he

/-! ### the multi-run machine -/

/-- between a restart and the next write: nothing on disk yet, or what the (flushed) writer `g`
    of the previous run left -/
def Ghost (r : RotCfg) (t : Nat) (s : St) (a : Abs) : Prop :=
  (s.dir = [] ∧ a = Abs.init) ∨
  ∃ g : Active, g.pending = [] ∧ RInv r s.dir g a ∧ g.stamp ≤ t

/-- the invariant of multi-run histories with cleanup; the abstract state is the one of C06
    (`FlwA.MAbs`: the log WITHOUT cleanup, in which a restart + first write acts as `reinit`) -/
def MInv (r : RotCfg) (t : Nat) (s : St) (ma : MAbs) : Prop :=
  s.cfg.rot = some r ∧ s.cfg.append = ma.append ∧
  ((ma.live = true ∧ Live r t s ma.abs) ∨
   (ma.live = false ∧ s.act = none ∧ Ghost r t s ma.abs))

theorem Ghost.mono {r : RotCfg} {t t' : Nat} {s : St} {a : Abs} (h : Ghost r t s a)
    (ht : t ≤ t') : Ghost r t' s a := by
  rcases h with h | ⟨g, h1, h2, h3⟩
  · exact Or.inl h
  · exact Or.inr ⟨g, h1, h2, Nat.le_trans h3 ht⟩

theorem Live.mono {r : RotCfg} {t t' : Nat} {s : St} {a : Abs} (h : Live r t s a)
    (ht : t ≤ t') : Live r t' s a := by
  obtain ⟨act, h1, h2, h3, h4⟩ := h
  exact ⟨act, h1, h2, h3, Nat.le_trans h4 ht⟩

/-- a write when the writer is not mounted: `initState`, then the ordinary write -/
theorem write_unmounted {r : RotCfg} (s : St) (a : Abs)
    (t : Nat) (b : List Nat) (now : Nat) (hrot : s.cfg.rot = some r) (hnone : s.act = none)
    (hg : Ghost r t s a) (ht : t ≤ now) :
    (writeBuffer s b now noFaults).1.cfg = s.cfg ∧
    Live r now (writeBuffer s b now noFaults).1
      (Abs.step (some r) (reinit (some r) s.cfg.append a now) (.write b) now) := by
  rcases hg with ⟨hd, ha⟩ | ⟨g, hgp, hI, hst⟩
  · subst ha
    obtain ⟨s1, hin, hc1, hl1⟩ := init_empty s now hrot hd
    obtain ⟨act1, ha1, -⟩ := id hl1
    rw [writeBuffer_init s s1 act1 b now hnone hin ha1]
    have hre : reinit (some r) s.cfg.append Abs.init now = ⟨[], [], true, 0, now⟩ := by
      rw [FV.FlwA.reinit_first _ _ _ _ rfl]
      rfl
    rw [hre]
    obtain ⟨h1, h2⟩ := writeBuffer_live s1 _ b now now (by rw [hc1]; exact hrot) hl1
      (Nat.le_refl _)
    exact ⟨h1.trans hc1, h2⟩
  · obtain ⟨s1, hin, hc1, hl1⟩ := init_ghost s g a now hrot hgp hI (Nat.le_trans hst ht)
    obtain ⟨act1, ha1, -⟩ := id hl1
    rw [writeBuffer_init s s1 act1 b now hnone hin ha1]
    obtain ⟨h1, h2⟩ := writeBuffer_live s1 _ b now now (by rw [hc1]; exact hrot) hl1
      (Nat.le_refl _)
    exact ⟨h1.trans hc1, h2⟩

/-- one operation of a multi-run history -/
theorem mstep_inv {r : RotCfg} (s : St) (ma : MAbs)
    (t : Nat) (op : Op) (now : Nat) (hi : MInv r t s ma)
    (hop : FV.FlwA.Allowed (some r) op)
    (hfl : FV.FlwA.isRestart op = true → Flushed s) (ht : op.usesClock = true → t ≤ now) :
    MInv r (if op.usesClock then now else t) (step s op now noFaults).1
      (ma.step (some r) op now) := by
  obtain ⟨hrot, happ, hi⟩ := hi
  cases op with
  | write b =>
    have ht := ht rfl
    simp only [Op.usesClock, if_true, step, MAbs.step]
    rcases hi with ⟨hl, hlive⟩ | ⟨hl, hnone, hg⟩
    · obtain ⟨h1, h2⟩ := writeBuffer_live s ma.abs b t now hrot hlive ht
      refine ⟨by rw [h1]; exact hrot, by rw [h1]; exact happ, Or.inl ⟨rfl, ?_⟩⟩
      simp only [hl, if_true]
      exact h2
    · obtain ⟨h1, h2⟩ := write_unmounted s ma.abs t b now hrot hnone hg ht
      refine ⟨by rw [h1]; exact hrot, by rw [h1]; exact happ, Or.inl ⟨rfl, ?_⟩⟩
      simp only [hl, Bool.false_eq_true, if_false]
      rw [← happ]
      exact h2
  | rotate =>
    have ht := ht rfl
    simp only [Op.usesClock, if_true, MAbs.step]
    rcases hi with ⟨hl, act, hact, hI, hdir, hst⟩ | ⟨hl, hnone, hg⟩
    · simp only [hl, if_true]
      obtain ⟨s2, act2, hm, hc2, hi2, hp2, hst2⟩ :=
        mountNext_rot2 s act ma.abs true now hI (Nat.le_trans hst ht) rfl
      have hs : (step s .rotate now noFaults).1 = { s2 with act := some act2 } := by
        simp [step, hact, hrot, hm]
      have habs : Abs.step (some r) ma.abs .rotate now = ma.abs.rotate now := by
        simp [Abs.step, hI.started]
      rw [hs, habs]
      exact ⟨by simp only [hc2]; exact hrot, by simp only [hc2]; exact happ,
        Or.inl ⟨rfl, act2, rfl, hi2, fun _ => hp2, hst2⟩⟩
    · have hs : step s .rotate now noFaults = (s, .ok) := by simp [step, hnone]
      simp only [hl, Bool.false_eq_true, if_false]
      rw [hs]
      exact ⟨hrot, happ, Or.inr ⟨hl, hnone, hg.mono ht⟩⟩
  | flush | shutdown =>
    simp only [Op.usesClock, Bool.false_eq_true, if_false, MAbs.step]
    rcases hi with ⟨hl, act, hact, hI, hdir, hst⟩ | ⟨hl, hnone, hg⟩
    · have hflush := flush_rinv r s.dir act ma.abs hI
      first
        | (have hs : (step s .flush now noFaults).1 =
              { s with dir := s.dir.append act.handle act.pending,
                       act := some { act with pending := [] } } := by
             simp [step, hact, flushAct]
           rw [hs]
           exact ⟨hrot, happ, Or.inl ⟨hl, _, rfl, hflush, fun _ => rfl, hst⟩⟩)
        | (have hs : (step s .shutdown now noFaults).1 =
              { s with dir := s.dir.append act.handle act.pending,
                       act := some { act with pending := [] } } := by
             simp [step, hact, flushAct]
           rw [hs]
           exact ⟨hrot, happ, Or.inl ⟨hl, _, rfl, hflush, fun _ => rfl, hst⟩⟩)
    · first
        | (have hs : step s .flush now noFaults = (s, .ok) := by simp [step, hnone]
           rw [hs]
           exact ⟨hrot, happ, Or.inr ⟨hl, hnone, hg⟩⟩)
        | (have hs : step s .shutdown now noFaults = (s, .ok) := by simp [step, hnone]
           rw [hs]
           exact ⟨hrot, happ, Or.inr ⟨hl, hnone, hg⟩⟩)
  | restart c =>
    have hcr : c.rot = some r := by
      rcases hop with h | ⟨c', h1, h2⟩
      · cases h
      · cases h1
        exact h2
    simp only [Op.usesClock, Bool.false_eq_true, if_false, MAbs.step, step]
    refine ⟨hcr, rfl, Or.inr ⟨rfl, rfl, ?_⟩⟩
    rcases hi with ⟨hl, act, hact, hI, hdir, hst⟩ | ⟨hl, hnone, hg⟩
    · have hp := hfl rfl act hact
      exact Or.inr ⟨act, hp, hI, hst⟩
    · rcases hg with h | ⟨g, h1, h2, h3⟩
      · exact Or.inl h
      · exact Or.inr ⟨g, h1, h2, h3⟩
  | reset _ =>
    rcases hop with h | ⟨c', h1, -⟩
    · cases h
    · cases h1
  | extRename =>
    rcases hop with h | ⟨c', h1, -⟩
    · cases h
    · cases h1
  | extRemove =>
    rcases hop with h | ⟨c', h1, -⟩
    · cases h
    · cases h1
  | reopen =>
    rcases hop with h | ⟨c', h1, -⟩
    · cases h
    · cases h1

theorem mrun_inv {r : RotCfg}
    (ops : List (Op × Nat × Faults)) :
    ∀ (s : St) (ma : MAbs) (t : Nat), MInv r t s ma →
      (∀ o ∈ ops, FV.FlwA.Allowed (some r) o.1 ∧ o.2.2 = noFaults) → Monotone ops →
      FV.FlwA.FlushedBeforeRestart ops →
      (∀ o, ops.head? = some o → FV.FlwA.isRestart o.1 = true → Flushed s) →
      (∀ o ∈ ops, o.1.usesClock = true → t ≤ o.2.1) →
      ∃ t', MInv r t' (runOps s ops) (MAbs.run (some r) ma ops) := by
  induction ops with
  | nil => intro s ma t hi _ _ _ _ _; exact ⟨t, hi⟩
  | cons o os ih =>
    intro s ma t hi hpl hmono hfbr hhead hlb
    obtain ⟨op, now, fl⟩ := o
    obtain ⟨hp, hfl⟩ := hpl (op, now, fl) (List.mem_cons_self)
    simp only at hp hfl
    subst hfl
    have hstep := mstep_inv s ma t op now hi hp (hhead _ rfl)
      (hlb (op, now, noFaults) (List.mem_cons_self))
    have hrun : runOps s ((op, now, noFaults) :: os) =
        runOps (step s op now noFaults).1 os := rfl
    have habs : MAbs.run (some r) ma ((op, now, noFaults) :: os) =
        MAbs.run (some r) (ma.step (some r) op now) os := rfl
    rw [hrun, habs]
    have hmono' : Monotone os := by
      unfold Monotone at hmono ⊢
      by_cases hu : op.usesClock = true
      · rw [List.filter_cons_of_pos (by simpa using hu), List.map_cons, List.pairwise_cons] at hmono
        exact hmono.2
      · rw [List.filter_cons_of_neg (by simpa using hu)] at hmono
        exact hmono
    have hfbr' : FV.FlwA.FlushedBeforeRestart os := by
      cases os with
      | nil => trivial
      | cons o2 rest => exact hfbr.2
    have hhead' : ∀ o, os.head? = some o → FV.FlwA.isRestart o.1 = true →
        Flushed (step s op now noFaults).1 := by
      intro o2 ho2 hr2
      cases os with
      | nil => cases ho2
      | cons o2' rest =>
        simp only [List.head?_cons, Option.some.injEq] at ho2
        subst ho2
        exact FV.FlwA.flushed_after s op now noFaults (hfbr.1 hr2)
    have hlb' : ∀ o ∈ os, o.1.usesClock = true →
        (if op.usesClock then now else t) ≤ o.2.1 := by
      intro o ho hou
      by_cases hu : op.usesClock = true
      · rw [if_pos hu]
        unfold Monotone at hmono
        rw [List.filter_cons_of_pos (by simpa using hu), List.map_cons, List.pairwise_cons] at hmono
        apply hmono.1
        exact List.mem_map_of_mem (List.mem_filter.2 ⟨ho, by simpa using hou⟩)
      · rw [if_neg hu]
        exact hlb o (List.mem_cons_of_mem _ ho) hou
    exact ih _ _ _ hstep (fun o ho => hpl o (List.mem_cons_of_mem _ ho)) hmono' hfbr'
      hhead' hlb'

theorem minv_init (cfg : Cfg) (r : RotCfg) (hr : cfg.rot = some r) :
    MInv r 0 (init cfg []) ⟨Abs.init, false, cfg.append⟩ :=
  ⟨hr, rfl, Or.inr ⟨rfl, rfl, Or.inl ⟨rfl, rfl⟩⟩⟩

/-- **the invariant holds after every multi-run history** -/
theorem multi_run_inv (cfg : Cfg) (r : RotCfg) (hr : cfg.rot = some r)
    (ops : List (Op × Nat × Faults))
    (hm : FV.FlwA.MultiRun cfg.rot ops) :
    ∃ t, MInv r t (runOps (init cfg []) ops)
      (MAbs.run cfg.rot ⟨Abs.init, false, cfg.append⟩ ops) := by
  obtain ⟨h1, h2, h3⟩ := hm
  rw [hr] at h1 ⊢
  exact mrun_inv ops (init cfg []) _ 0 (minv_init cfg r hr) h1 h2 h3
    (fun _ _ _ act h => by cases h) (fun _ _ _ => Nat.zero_le _)

/-! ### what a reader sees -/

/-- the last `K` elements; everything without a limit -/
def lastL {α : Type} : Lim → List α → List α
  | none, l => l
  | some K, l => l.drop (l.length - K)

/-- one more (the current file) -/
def succL (L : Lim) : Lim := L.map (· + 1)

theorem takeL_reverse {α : Type} (L : Lim) (l : List α) :
    (takeL L l.reverse).reverse = lastL L l := by
  cases L with
  | none => simp [takeL, lastL]
  | some K => simp only [takeL, lastL]; rw [List.take_reverse, List.reverse_reverse]

theorem lastL_append_singleton {α : Type} (L : Lim) (l : List α) (x : α) :
    lastL (succL L) (l ++ [x]) = lastL L l ++ [x] := by
  cases L with
  | none => rfl
  | some K =>
    simp only [succL, Option.map, lastL]
    have : (l ++ [x]).length - (K + 1) = l.length - K := by simp
    rw [this, List.drop_append_of_le_length (by omega)]

theorem lastL_zero {α : Type} (l : List α) : lastL (some 0) l = [] := by
  simp [lastL]

theorem RInv.parts {r : RotCfg} {d : Dir} {act : Active} {a : Abs}
    (hi : RInv r d act a) :
    ∃ f : File, f.data ++ act.pending = a.cur ∧
      parts d = lastL (limOf r) a.closed ++ [f.data] := by
  obtain ⟨f, C, hd, hcur, -⟩ := hi.dir
  refine ⟨f, hcur, ?_⟩
  rw [hd.parts_eq, List.map_reverse, hd.data, takeL_reverse]

/-- **the view**: the files on disk, read oldest to newest (pending buffer included), are the
    newest `limit + 1` files of the abstract multi-run log (all of them without cleanup) -/
theorem MInv.view {r : RotCfg} {t : Nat} {s : St} {ma : MAbs} (h : MInv r t s ma) :
    viewFiles s = lastL (succL (limOf r)) ma.abs.files := by
  obtain ⟨-, -, h⟩ := h
  rcases h with ⟨-, act, hact, hI, -, -⟩ | ⟨-, hnone, hg⟩
  · obtain ⟨f, hcur, hp⟩ := hI.parts
    unfold viewFiles
    rw [hact]
    simp only [hp, List.reverse_append, List.reverse_cons, List.reverse_nil, List.nil_append,
      List.singleton_append, List.reverse_reverse]
    rw [Abs.files, if_pos hI.started, lastL_append_singleton, hcur]
  · have hv : viewFiles s = parts s.dir := by simp [viewFiles, hnone]
    rw [hv]
    rcases hg with ⟨hd, ha⟩ | ⟨g, hgp, hI, -⟩
    · rw [hd, ha]
      have : Abs.init.files = [] := rfl
      rw [this]
      cases limOf r <;> simp [succL, lastL, parts, extAsc, rotatedAsc, Dir.get]
    · obtain ⟨f, hcur, hp⟩ := hI.parts
      rw [hgp] at hcur
      simp only [List.append_nil] at hcur
      rw [hp, Abs.files, if_pos hI.started, lastL_append_singleton, hcur]

/-- the files of the abstract log make up its stream -/
theorem MInv.files_flat {r : RotCfg} {t : Nat} {s : St} {ma : MAbs} (h : MInv r t s ma) :
    ma.abs.files.flatten = FV.FlwA.flat ma.abs := by
  obtain ⟨-, -, h⟩ := h
  have hs : ma.abs.started = true → ma.abs.files.flatten = FV.FlwA.flat ma.abs := by
    intro hs
    simp [Abs.files, hs, FV.FlwA.flat]
  rcases h with ⟨-, act, -, hI, -, -⟩ | ⟨-, -, hg⟩
  · exact hs hI.started
  · rcases hg with ⟨-, ha⟩ | ⟨g, -, hI, -⟩
    · rw [ha]; rfl
    · exact hs hI.started

/-! ### names: which file carries which name -/

theorem takeL_get {α : Type} (L : Lim) (l : List α) (j : Nat) (x : α)
    (h : (takeL L l)[j]? = some x) : l[j]? = some x ∧ ∀ K, L = some K → j < K := by
  cases L with
  | none => exact ⟨h, fun K hK => by cases hK⟩
  | some K =>
    simp only [takeL, List.getElem?_take] at h
    split at h
    · rename_i hjK
      exact ⟨h, fun K' hK' => by cases hK'; exact hjK⟩
    · cases h

theorem numNames_get (idx : Nat) (L : Lim) (j : Nat) (x : Option Infix)
    (h : (numNames idx L)[j]? = some x) :
    x = some (.num (idx - 1 - j)) ∧ j < idx ∧ ∀ K, L = some K → j < K := by
  unfold numNames at h
  rw [List.getElem?_map] at h
  cases hy : (takeL L (List.range idx).reverse)[j]? with
  | none => rw [hy] at h; cases h
  | some y =>
    rw [hy] at h
    obtain ⟨h1, h2⟩ := takeL_get L _ j y hy
    by_cases hj : j < idx
    · rw [List.getElem?_reverse (by simpa using hj), List.length_range,
        List.getElem?_range (by omega)] at h1
      simp only [Option.some.injEq] at h1
      simp only [Option.map_some, Option.some.injEq] at h
      rw [← h, ← h1]
      exact ⟨rfl, hj, h2⟩
    · rw [List.getElem?_eq_none (by simp; omega)] at h1
      cases h1

theorem numNames_succ_succ (idx : Nat) (L : Lim) :
    numNames (idx + 1) (succL L) = some (Infix.num idx) :: numNames idx L := by
  unfold numNames
  rw [List.range_succ, List.reverse_append, List.reverse_singleton, List.singleton_append]
  cases L with
  | none => rfl
  | some K => simp [succL, takeL, List.take_succ_cons]

/-- `r{idx-K} … r{idx-1}`, oldest first -/
theorem numNames_reverse (idx : Nat) (L : Lim) :
    (numNames idx L).reverse = (lastL L (List.range idx)).map (fun n => some (Infix.num n)) := by
  unfold numNames
  rw [← List.map_reverse, takeL_reverse]

namespace CDir2
variable {L : Lim} {nm : Naming} {idx stamp : Nat} {d : Dir} {h : FName}
  {f : File} {C : List E} {closed : List (List Nat)}

/-- no infix occurs twice: a plain file and its compressed twin never coexist -/
theorem ifxDistinct (hd : CDir2 L nm idx stamp d h f C closed) : FV.FlwL.IfxDistinct d := by
  unfold FV.FlwL.IfxDistinct
  rw [List.Perm.pairwise_iff (fun hxy => Ne.symm hxy) hd.perm, List.pairwise_cons]
  constructor
  · intro e he heq
    obtain ⟨i, hi, hb⟩ := hd.below e he
    cases hw : nm.writesDirect with
    | false =>
      have := hd.handle.cur hw
      subst this
      rw [hi] at heq
      cases heq
      have := hb.rotated
      simp [Infix.rotated] at this
    | true =>
      have := hb.key_lt hw hd.handle
      simp only [nkey] at this
      simp only at heq
      rw [heq, hi, keyLt_irrefl] at this
      cases this
  · have := hd.sorted.ifxs_nodup
    unfold ifxs at this
    rw [List.nodup_iff_pairwise_ne, List.pairwise_map] at this
    exact this

/-- **name ↔ content** for the number namings: the closed file named `r{i}` is file `i` of the
    log without cleanup -/
theorem closed_content (hd : CDir2 L nm idx stamp d h f C closed) (hn : NumNaming nm)
    (hidx : idx = closed.length) :
    ∀ e ∈ C, ∀ i, e.1.ifx = some (.num i) → closed[i]? = some e.2.data := by
  intro e he i hi
  obtain ⟨j, hj⟩ := List.mem_iff_getElem?.1 he
  have h1 : (C.map (·.1.ifx))[j]? = some (some (.num i)) := by
    rw [List.getElem?_map, hj]
    simp [hi]
  rw [hd.names hn] at h1
  obtain ⟨hx, hjidx, -⟩ := numNames_get idx L j _ h1
  have hii : i = idx - 1 - j := by
    simp only [Option.some.injEq, Infix.num.injEq] at hx
    exact hx
  have h2 : (C.map (·.2.data))[j]? = some e.2.data := by
    rw [List.getElem?_map, hj]
    rfl
  rw [hd.data] at h2
  obtain ⟨h3, -⟩ := takeL_get L _ j _ h2
  rw [List.getElem?_reverse (by omega)] at h3
  rw [hii, hidx]
  exact h3

end CDir2

/-- the directory-level content of the invariant, for a mounted writer and for the state between
    a restart and the next write alike -/
theorem MInv.rinv {r : RotCfg} {t : Nat} {s : St} {ma : MAbs} (h : MInv r t s ma) :
    (s.dir = [] ∧ ma.abs = Abs.init) ∨
    ∃ act : Active, RInv r s.dir act ma.abs ∧ (∀ a', s.act = some a' → a' = act) ∧
      (s.act = none → act.pending = []) := by
  obtain ⟨-, -, h⟩ := h
  rcases h with ⟨-, act, hact, hI, -, -⟩ | ⟨-, hnone, hg⟩
  · exact Or.inr ⟨act, hI, fun a' ha' => (by rw [hact] at ha'; cases ha'; rfl),
      fun hn => (by rw [hact] at hn; cases hn)⟩
  · rcases hg with hg | ⟨g, hgp, hI, -⟩
    · exact Or.inl hg
    · exact Or.inr ⟨g, hI, fun a' ha' => (by rw [hnone] at ha'; cases ha'), fun _ => hgp⟩

/-- `numbers`: every index on disk is below the index the writer will use next -/
theorem RInv.index_above {r : RotCfg} {d : Dir} {act : Active} {a : Abs}
    (hi : RInv r d act a) (hnm : r.naming = .numbers) :
    ∀ e ∈ ents d, ∀ n, e.1.ifx = some (.num n) → n < act.idx := by
  obtain ⟨f, C, hd, -, -⟩ := hi.dir
  have hH := hd.handle
  rw [hnm] at hH
  simp only [HandleOK] at hH
  intro e he n hn
  rcases List.mem_cons.1 (hd.perm.subset he) with rfl | heC
  · rw [hH] at hn
    cases hn
  · obtain ⟨i, hi1, hb⟩ := hd.below e heC
    rw [hnm] at hb
    simp only [Below] at hb
    obtain ⟨n', rfl, hn'⟩ := hb
    rw [hn] at hi1
    cases hi1
    exact hn'

/-- `numbersDirect`: the current file carries the highest index -/
theorem RInv.index_above_direct {r : RotCfg} {d : Dir} {act : Active} {a : Abs}
    (hi : RInv r d act a) (hnm : r.naming = .numbersDirect) :
    act.handle = ⟨some (.num act.idx), false⟩ ∧
    ∀ e ∈ ents d, ∀ n, e.1.ifx = some (.num n) → n < act.idx ∨ e.1 = act.handle := by
  obtain ⟨f, C, hd, -, -⟩ := hi.dir
  have hH := hd.handle
  rw [hnm] at hH
  simp only [HandleOK] at hH
  refine ⟨hH, ?_⟩
  intro e he n hn
  rcases List.mem_cons.1 (hd.perm.subset he) with rfl | heC
  · exact Or.inr rfl
  · obtain ⟨i, hi1, hb⟩ := hd.below e heC
    rw [hnm] at hb
    simp only [Below] at hb
    obtain ⟨n', rfl, hn'⟩ := hb
    rw [hn] at hi1
    cases hi1
    exact Or.inl hn'

/-- `numbers`: the rotated files on disk carry exactly the names `r{n-K} … r{n-1}`, `n` the
    number of files ever closed by any run, `K` the limit (for `K = 0` there are none) -/
theorem RInv.rotated_names {r : RotCfg} {d : Dir} {act : Active} {a : Abs}
    (hi : RInv r d act a) (hnm : r.naming = .numbers) :
    (rotatedAsc d).map (·.1.ifx) =
      (lastL (limOf r) (List.range a.closed.length)).map (fun n => some (Infix.num n)) := by
  obtain ⟨f, C, hd, -, -⟩ := hi.dir
  have hH := hd.handle
  rw [hnm] at hH
  simp only [HandleOK] at hH
  have hp : List.Perm d ([(act.handle, f)] ++ C) := hd.perm
  have hX : ∀ e ∈ [(act.handle, f)], isRot e = false := by
    intro e he
    simp only [List.mem_singleton] at he
    rw [he, hH]; rfl
  rw [rotatedAsc_of_perm hp hX hd.sorted, List.map_reverse, hd.names (Or.inl hnm),
    numNames_reverse]
  by_cases hK : limOf r = some 0
  · rw [hK, lastL_zero, lastL_zero]
  · rw [hi.idxc (Or.inr ⟨hnm, hK⟩)]

/-- `numbersDirect`: the files on disk (current one included) carry exactly the names
    `r{n-K} … r{n}`, `n` the number of files ever closed by any run -/
theorem RInv.rotated_names_direct {r : RotCfg} {d : Dir} {act : Active} {a : Abs}
    (hi : RInv r d act a) (hnm : r.naming = .numbersDirect) :
    (rotatedAsc d).map (·.1.ifx) =
      (lastL (succL (limOf r)) (List.range (a.closed.length + 1))).map
        (fun n => some (Infix.num n)) := by
  obtain ⟨f, C, hd, -, -⟩ := hi.dir
  have hw : r.naming.writesDirect = true := by rw [hnm]; rfl
  have hH := hd.handle
  rw [hnm] at hH
  simp only [HandleOK] at hH
  have hp : List.Perm d ([] ++ (act.handle, f) :: C) := hd.perm
  have hidx := hi.idxc (Or.inl hnm)
  have hifx : (act.handle, f).1.ifx = some (Infix.num a.closed.length) := by rw [hH, hidx]
  rw [rotatedAsc_of_perm hp (by simp) (hd.sortedAll hw), ← numNames_reverse, numNames_succ_succ,
    List.map_reverse, List.map_cons, hd.names (Or.inr hnm), hidx, hifx]

/-- number namings: the rotated file named `r{i}` holds file `i` of the log without cleanup
    (the current file of `numbersDirect`: a prefix — the rest is buffered) -/
theorem RInv.name_content {r : RotCfg} {d : Dir} {act : Active} {a : Abs}
    (hi : RInv r d act a) (hn : NumNaming r.naming) :
    ∀ e ∈ ents d, ∀ i, e.1.ifx = some (.num i) →
      ∃ x, a.files[i]? = some x ∧ e.2.data <+: x ∧
        (e.1 ≠ act.handle ∨ act.pending = [] → e.2.data = x) := by
  obtain ⟨f, C, hd, hcur, -⟩ := hi.dir
  have hfiles : a.files = a.closed ++ [a.cur] := by rw [Abs.files, if_pos hi.started]
  intro e he i hei
  rcases List.mem_cons.1 (hd.perm.subset he) with rfl | heC
  · -- the current file: only for the direct numbering
    have hH := hd.handle
    rcases hn with hnm | hnm
    · rw [hnm] at hH
      simp only [HandleOK] at hH
      rw [hH] at hei
      cases hei
    · rw [hnm] at hH
      simp only [HandleOK] at hH
      simp only [hH] at hei
      cases hei
      refine ⟨a.cur, ?_, ?_, ?_⟩
      · rw [hfiles, hi.idxc (Or.inl hnm)]
        simp
      · rw [← hcur]
        exact List.prefix_append _ _
      · intro hor
        rcases hor with hne | hp
        · exact absurd rfl hne
        · rw [← hcur, hp]
          simp
  · -- a closed file
    have hne : e.1 ≠ act.handle := hd.h_notin e heC
    by_cases hex : IdxExact r
    · have := hd.closed_content hn (hi.idxc hex) e heC i hei
      refine ⟨e.2.data, ?_, List.prefix_refl _, fun _ => rfl⟩
      rw [hfiles, List.getElem?_append_left]
      · exact this
      · rcases Nat.lt_or_ge i a.closed.length with hlt | hge
        · exact hlt
        · rw [List.getElem?_eq_none hge] at this
          cases this
    · -- `numbers` with limit 0: there are no closed files on disk
      exfalso
      have h0 : limOf r = some 0 := by
        rcases hn with hnm | hnm
        · by_cases hK : limOf r = some 0
          · exact hK
          · exact absurd (Or.inr ⟨hnm, hK⟩) hex
        · exact absurd (Or.inl hnm) hex
      have hd' := hd
      rw [h0] at hd'
      rw [hd'.len] at heC
      cases heC

/-! ### the same history with cleanup switched off -/

def offRot (r : RotCfg) : RotCfg := { r with cleanup := none }

def offCfg (c : Cfg) : Cfg := { c with rot := c.rot.map offRot }

def offOp : Op → Op
  | .restart c => .restart (offCfg c)
  | o => o

/-- the history in which every run (the first one and every restarted one) has
    `Cleanup::Never` -/
def offOps (ops : List (Op × Nat × Faults)) : List (Op × Nat × Faults) :=
  ops.map (fun o => (offOp o.1, o.2))

theorem offOp_usesClock (op : Op) : (offOp op).usesClock = op.usesClock := by cases op <;> rfl

theorem offOp_isRestart (op : Op) : FV.FlwA.isRestart (offOp op) = FV.FlwA.isRestart op := by
  cases op <;> rfl

theorem offOp_endsRun (op : Op) : FV.FlwA.endsRun (offOp op) = FV.FlwA.endsRun op := by
  cases op <;> rfl

theorem offOp_plain (op : Op) (h : op.plain = true) : offOp op = op := by
  cases op <;> first | rfl | cases h

theorem offOps_flushed : ∀ (ops : List (Op × Nat × Faults)),
    FV.FlwA.FlushedBeforeRestart ops → FV.FlwA.FlushedBeforeRestart (offOps ops)
  | [], _ => trivial
  | [_], _ => trivial
  | o1 :: o2 :: rest, h => by
    obtain ⟨h1, h2⟩ := h
    refine ⟨?_, offOps_flushed (o2 :: rest) h2⟩
    show FV.FlwA.isRestart (offOp o2.1) = true → FV.FlwA.endsRun (offOp o1.1) = true
    rw [offOp_isRestart, offOp_endsRun]
    exact h1

theorem offOps_multiRun (rot : Option RotCfg) (ops : List (Op × Nat × Faults))
    (hm : FV.FlwA.MultiRun rot ops) : FV.FlwA.MultiRun (rot.map offRot) (offOps ops) := by
  obtain ⟨h1, h2, h3⟩ := hm
  refine ⟨?_, ?_, offOps_flushed ops h3⟩
  · intro o' ho'
    obtain ⟨o, ho, rfl⟩ := List.mem_map.1 ho'
    obtain ⟨hp, hf⟩ := h1 o ho
    refine ⟨?_, hf⟩
    rcases hp with hp | ⟨c, hc, hcr⟩
    · left
      show (offOp o.1).plain = true
      rw [offOp_plain _ hp]
      exact hp
    · right
      refine ⟨offCfg c, ?_, ?_⟩
      · show offOp o.1 = _
        rw [hc]
        rfl
      · show c.rot.map offRot = _
        rw [hcr]
  · unfold Monotone offOps at *
    rw [List.filter_map, List.map_map]
    have : (fun o : Op × Nat × Faults => (offOp o.1, o.2).1.usesClock) =
        (fun o : Op × Nat × Faults => o.1.usesClock) := by
      funext o
      exact offOp_usesClock o.1
    simp only [Function.comp_def, this]
    exact h2

theorem absStep_off (rot : Option RotCfg) (a : Abs) (op : Op) (now : Nat) :
    Abs.step (rot.map offRot) a op now = Abs.step rot a op now := by
  cases rot with
  | none => rfl
  | some r => rfl

theorem reinit_off (rot : Option RotCfg) (app : Bool) (a : Abs) (now : Nat) :
    reinit (rot.map offRot) app a now = reinit rot app a now := by
  cases rot with
  | none => rfl
  | some r => rfl

/-- the abstract multi-run log does not depend on the cleanup setting -/
theorem mabs_run_off (rot : Option RotCfg) (ops : List (Op × Nat × Faults)) :
    ∀ ma : MAbs, MAbs.run (rot.map offRot) ma (offOps ops) = MAbs.run rot ma ops := by
  induction ops with
  | nil => intro ma; rfl
  | cons o os ih =>
    intro ma
    have h1 : MAbs.run (rot.map offRot) ma (offOps (o :: os)) =
        MAbs.run (rot.map offRot) (ma.step (rot.map offRot) (offOp o.1) o.2.1) (offOps os) := rfl
    have h2 : MAbs.run rot ma (o :: os) = MAbs.run rot (ma.step rot o.1 o.2.1) os := rfl
    rw [h1, h2, ← ih]
    congr 1
    obtain ⟨op, now, fl⟩ := o
    cases op <;> simp only [offOp, MAbs.step, absStep_off, reinit_off]
    rfl

/-- C06 at the level of files: without cleanup (`numbers`/`timestamps`) the view IS the abstract
    multi-run log -/
theorem viewFiles_of_minvA {rot : Option RotCfg} {t : Nat} {s : St} {ma : MAbs}
    (h : FV.FlwA.MInv rot t s ma) : viewFiles s = ma.abs.files := by
  obtain ⟨-, -, h⟩ := h
  rcases h with ⟨-, act, hact, hI, -, -⟩ | ⟨-, hnone, hg⟩
  · exact FV.FlwA.view_of_inv hact hI
  · have hv : viewFiles s = parts s.dir := by simp [viewFiles, hnone]
    rw [hv]
    rcases hg with ⟨hd, ha⟩ | ⟨g, hgp, hI, -⟩
    · rw [hd, ha]
      simp [Abs.files, Abs.init, parts, extAsc, rotatedAsc, Dir.get]
    · obtain ⟨f, -, hdata, hp⟩ := FV.FlwA.parts_of_inv hI
      rw [hgp] at hdata
      simp only [List.append_nil] at hdata
      rw [hp, Abs.files, if_pos hI.started, hdata]

/-! ### the files of the abstract multi-run log are groups of whole records -/

theorem reinit_matches (r : RotCfg) (app : Bool) (a : Abs) (g : Groups) (now : Nat)
    (h : a.Matches g) :
    ∃ g', (reinit (some r) app a now).Matches g' ∧
      g'.closed.flatten ++ g'.cur = g.closed.flatten ++ g.cur := by
  unfold reinit
  by_cases hs : a.started = true
  · simp only [hs, if_true]
    cases app with
    | true => exact ⟨g, ⟨h.1, h.2⟩, rfl⟩
    | false =>
      exact ⟨_, Abs.rotate_matches a g now h, by simp⟩
  · simp only [hs]
    exact ⟨g, ⟨h.1, h.2⟩, rfl⟩

theorem mstep_matches (r : RotCfg) (ma : MAbs) (g : Groups) (op : Op) (now : Nat) (fl : Faults)
    (h : ma.abs.Matches g) (h0 : ma.abs.started = false → g.closed = [] ∧ g.cur = []) :
    ∃ g', (ma.step (some r) op now).abs.Matches g' ∧
      g'.closed.flatten ++ g'.cur = g.closed.flatten ++ g.cur ++ records [(op, now, fl)] ∧
      ((ma.step (some r) op now).abs.started = false → g'.closed = [] ∧ g'.cur = []) := by
  have same : ∀ ma' : MAbs, ma'.abs = ma.abs → records [(op, now, fl)] = [] →
      ∃ g', ma'.abs.Matches g' ∧
        g'.closed.flatten ++ g'.cur = g.closed.flatten ++ g.cur ++ records [(op, now, fl)] ∧
        (ma'.abs.started = false → g'.closed = [] ∧ g'.cur = []) := by
    intro ma' he hr
    rw [he, hr]
    exact ⟨g, h, by simp, h0⟩
  cases op with
  | write b =>
    simp only [MAbs.step]
    have hx : ∃ g1, (if ma.live then ma.abs else reinit (some r) ma.append ma.abs now).Matches g1 ∧
        g1.closed.flatten ++ g1.cur = g.closed.flatten ++ g.cur := by
      by_cases hl : ma.live = true
      · rw [if_pos hl]; exact ⟨g, h, rfl⟩
      · rw [if_neg hl]; exact reinit_matches r ma.append ma.abs g now h
    obtain ⟨g1, hm1, he1⟩ := hx
    obtain ⟨g2, hm2, he2⟩ := Abs.step_matches (some r) _ g1 (Op.write b, now, fl) hm1
    refine ⟨g2, hm2, by rw [he2, he1], ?_⟩
    intro hst
    rw [Abs.write_started] at hst
    cases hst
  | rotate =>
    by_cases hl : ma.live = true
    · have e : ma.step (some r) .rotate now =
          { ma with abs := Abs.step (some r) ma.abs .rotate now } := by
        simp [MAbs.step, hl]
      rw [e]
      by_cases hs : ma.abs.started = true
      · have e2 : Abs.step (some r) ma.abs .rotate now = ma.abs.rotate now := by
          simp [Abs.step, hs]
        simp only [e2]
        refine ⟨_, Abs.rotate_matches ma.abs g now h, by simp [records], ?_⟩
        intro hst
        simp [Abs.rotate, hs] at hst
      · have e2 : Abs.step (some r) ma.abs .rotate now = ma.abs := by
          simp [Abs.step, hs]
        simp only [e2]
        exact ⟨g, h, by simp [records], h0⟩
    · have e : ma.step (some r) .rotate now = ma := by simp [MAbs.step, hl]
      rw [e]
      exact ⟨g, h, by simp [records], h0⟩
  | flush => exact same _ rfl rfl
  | shutdown => exact same _ rfl rfl
  | restart c => exact same _ rfl rfl
  | reset c => exact same _ rfl rfl
  | extRename => exact same _ rfl rfl
  | extRemove => exact same _ rfl rfl
  | reopen => exact same _ rfl rfl

theorem mrun_matches (r : RotCfg) (ops : List (Op × Nat × Faults)) :
    ∀ (ma : MAbs) (g : Groups), ma.abs.Matches g →
      (ma.abs.started = false → g.closed = [] ∧ g.cur = []) →
      ∃ g', (MAbs.run (some r) ma ops).abs.Matches g' ∧
        g'.closed.flatten ++ g'.cur = g.closed.flatten ++ g.cur ++ records ops ∧
        ((MAbs.run (some r) ma ops).abs.started = false → g'.closed = [] ∧ g'.cur = []) := by
  induction ops with
  | nil => intro ma g h h0; exact ⟨g, h, by simp [records], h0⟩
  | cons o os ih =>
    intro ma g h h0
    obtain ⟨op, now, fl⟩ := o
    obtain ⟨g1, hm1, he1, h01⟩ := mstep_matches r ma g op now fl h h0
    obtain ⟨g2, hm2, he2, h02⟩ := ih _ g1 hm1 h01
    refine ⟨g2, hm2, ?_, h02⟩
    rw [he2, he1]
    have : records ((op, now, fl) :: os) = records [(op, now, fl)] ++ records os := by
      simpa using records_append [(op, now, fl)] os
    rw [this]
    simp

/-- **the abstract multi-run log groups the records**: its files are the records of all runs,
    each exactly once, in order, never split -/
theorem mabs_files_groups (r : RotCfg) (app : Bool) (ops : List (Op × Nat × Faults)) :
    ∃ groups : List (List (List Nat)), groups.flatten = records ops ∧
      (MAbs.run (some r) ⟨Abs.init, false, app⟩ ops).abs.files = groups.map List.flatten := by
  obtain ⟨g, hm, he, h0⟩ := mrun_matches r ops ⟨Abs.init, false, app⟩ ⟨[], []⟩
    (by simp [Abs.Matches, Abs.init]) (fun _ => ⟨rfl, rfl⟩)
  simp only [List.flatten_nil, List.nil_append] at he
  by_cases hs : (MAbs.run (some r) ⟨Abs.init, false, app⟩ ops).abs.started = true
  · refine ⟨g.closed ++ [g.cur], by simpa using he, ?_⟩
    simp [Abs.files, hs, hm.1, hm.2]
  · have hs' : (MAbs.run (some r) ⟨Abs.init, false, app⟩ ops).abs.started = false := by
      simpa using hs
    obtain ⟨h1, h2⟩ := h0 hs'
    rw [h1, h2] at he
    exact ⟨[], by simpa using he, by simp [Abs.files, hs']⟩

end FV.FlwRC
