import FlexiVerif.Lemmas.FlwAbs
import FlexiVerif.Lemmas.FlwRefine
/-
  Lemmas for C18 (`reopen_output`, `reset_flw`, files moved away or deleted by somebody else).
  * `archived` is only touched by `reset` (`step_archived`, `runOps_archived`);
  * `reset_flw`: the refinement of `Lemmas/FlwRefine*.lean` per family (`family_run`,
    `reset_run`, `last_family`, `family_flush`);
  * the order of the moved files (`extAsc`) of a directory described up to permutation;
    `Dir.append` / `Dir.rename` / `Dir.set` / `Dir.erase` on such a directory;
  * the `BufWriter` rule for an arbitrary descriptor (`writeRaw_gen`);
  * the chronological invariant `ChronAct` / `Chron`: the directory is a permutation of "the
    files the writer has left behind, in the order in which it left them, then the file behind
    the descriptor", each holding a contiguous group of records. It is kept by `write`,
    `rotate`, `flush`, `shutdown`, `extRename`, `reopen` for the non-rotating writer and for
    `numbers` / `timestamps` (`step_chron`, `run_chron`);
  * for the non-rotating writer the chronological order is the reading order (`parts_norot`);
  * the descriptor refers to a deleted file (`Detached` / `Lost`), the descriptor stays at the
    path (`Stay`).
-/
namespace FV.Reopen
open FV.Flw FV.FlwA

/-! ### `archived` is only touched by `reset` -/

theorem openFile_archived (s : St) (n : FName) (now : Nat) (fl : Faults) (c : Nat) :
    (openFile s n now fl c).1.archived = s.archived := by
  unfold openFile
  by_cases h1 : s.cfg.symlink = true <;> by_cases h2 : hit fl.openF c = true <;> simp [h1, h2]

theorem initState_archived (s : St) (now : Nat) (fl : Faults) :
    (initState s now fl).1.archived = s.archived := by
  unfold initState
  split
  · simp only []
    split <;> simp [openFile_archived]
  · rename_i r hr
    simp only []
    split
    · rfl
    · rename_i pre s' ifx idx stamp hpre
      have hs' : s'.archived = s.archived := by
        split at hpre
        · simp at hpre; rw [← hpre.1]
        · split at hpre
          · split at hpre
            · simp at hpre
            · simp at hpre; rw [← hpre.1]
          · simp at hpre; rw [← hpre.1]
        · split at hpre
          · split at hpre
            · simp at hpre
            · simp at hpre; rw [← hpre.1]
          · simp at hpre; rw [← hpre.1]
        · simp at hpre; rw [← hpre.1]
      split <;> (try split) <;> simp [openFile_archived, hs']

theorem writeRaw_archived (s : St) (a : Active) (b : List Nat) :
    (writeRaw s a b).1.archived = s.archived := by
  unfold writeRaw
  split
  · rfl
  · simp only []
    split <;> split <;> simp [flushAct]

theorem mountNextCore_archived (s : St) (a : Active) (r : RotCfg) (force : Bool) (now : Nat)
    (fl : Faults) : (mountNextCore s a r force now fl).1.archived = s.archived := by
  unfold mountNextCore
  split
  · rfl
  · simp only []
    split
    · rfl
    · rename_i pre s' a' ifx hpre
      have hs' : s'.archived = s.archived := by
        split at hpre
        · split at hpre
          · simp at hpre
          · simp at hpre; rw [← hpre.1]
        · simp at hpre; rw [← hpre.1]
        · split at hpre
          · simp at hpre
          · simp at hpre; rw [← hpre.1]
        · simp at hpre; rw [← hpre.1]
      split <;> simp [openFile_archived, hs', flushAct]

theorem mountNext_archived (s : St) (a : Active) (r : RotCfg) (force : Bool) (now : Nat)
    (fl : Faults) : (mountNext s a r force now fl).1.archived = s.archived := by
  unfold mountNext
  split
  · rfl
  · exact mountNextCore_archived (flushAct s a).1 (flushAct s a).2 r true now fl

theorem writeBuffer_some_archived (s : St) (a : Active) (b : List Nat) (now : Nat) (fl : Faults)
    (hact : s.act = some a) : (writeBuffer s b now fl).1.archived = s.archived := by
  cases hrot : s.cfg.rot with
  | none =>
    by_cases hw : hit fl.writeF 0 = true
    · simp [writeBuffer, hact, hrot, hw]
    · simp [writeBuffer, hact, hrot, hw, writeRaw_archived]
  | some r =>
    have h1 := mountNext_archived s a r false now fl
    cases hm : mountNext s a r false now fl with
    | mk s2 q =>
      obtain ⟨a2, rerr⟩ := q
      rw [hm] at h1
      simp only at h1
      by_cases hw : hit fl.writeF 0 = true <;> cases rerr <;>
        simp [writeBuffer, hact, hrot, hw, hm, writeRaw_archived, h1]

theorem writeBuffer_archived (s : St) (b : List Nat) (now : Nat) (fl : Faults) :
    (writeBuffer s b now fl).1.archived = s.archived := by
  cases hact : s.act with
  | some a => exact writeBuffer_some_archived s a b now fl hact
  | none =>
    have h0 := initState_archived s now fl
    cases hi : initState s now fl with
    | mk s1 ok =>
      rw [hi] at h0
      simp only at h0
      cases ok with
      | false => simp [writeBuffer, hact, hi, h0]
      | true =>
        cases h1 : s1.act with
        | none => simp [writeBuffer, hact, hi, h0, h1]
        | some a1 =>
          have : writeBuffer s b now fl = writeBuffer s1 b now fl := by
            simp [writeBuffer, hact, hi, h1]
          rw [this, writeBuffer_some_archived s1 a1 b now fl h1, h0]

/-- every operation except `reset` leaves the archived families alone -/
theorem step_archived (s : St) (op : Op) (now : Nat) (fl : Faults) (h : ∀ c, op ≠ .reset c) :
    (step s op now fl).1.archived = s.archived := by
  cases op with
  | write b => exact writeBuffer_archived s b now fl
  | rotate =>
    simp only [step]
    split
    · simp [mountNext_archived]
    · rfl
  | flush => simp only [step]; split <;> rfl
  | shutdown => simp only [step]; split <;> rfl
  | restart c => rfl
  | reset c => exact absurd rfl (h c)
  | extRename => simp only [step]; split <;> (try split) <;> rfl
  | extRemove => simp only [step]; split <;> (try split) <;> rfl
  | reopen => simp only [step]; split <;> (try split) <;> rfl

theorem runOps_archived (ops : List (Op × Nat × Faults)) (s : St)
    (h : ∀ o ∈ ops, ∀ c, o.1 ≠ .reset c) : (runOps s ops).archived = s.archived := by
  induction ops generalizing s with
  | nil => rfl
  | cons o os ih =>
    have : runOps s (o :: os) = runOps (step s o.1 o.2.1 o.2.2).1 os := rfl
    rw [this, ih _ (fun o' ho' => h o' (List.mem_cons_of_mem _ ho')),
      step_archived _ _ _ _ (h o List.mem_cons_self)]

/-! ### one family: the refinement from any `Initial` state on an empty directory -/

/-- configurations of the reset theorem: no append, no cleanup (every naming, criterion, buffer) -/
def GoodCfg (c : Cfg) : Prop := c.append = false ∧ NoCleanup c

theorem runOps_append (s : St) (a b : List (Op × Nat × Faults)) :
    runOps s (a ++ b) = runOps (runOps s a) b := by
  simp [runOps, List.foldl_append]


/-- `refines_all` from an arbitrary `Initial` state (any `archived`, `extCtr`, `link`, `errs`) -/
theorem family_run (cfg : Cfg) (hg : GoodCfg cfg) (s : St) (hcfg : s.cfg = cfg)
    (hact : s.act = none) (hdir : s.dir = []) (ops : List (Op × Nat × Faults))
    (hp : PlainHistory ops) :
    (runOps s ops).cfg = cfg ∧ viewFiles (runOps s ops) = (Abs.run cfg.rot Abs.init ops).files := by
  obtain ⟨happ, hcl⟩ := hg
  have hA : CfgA cfg → (runOps s ops).cfg = cfg ∧
      viewFiles (runOps s ops) = (Abs.run cfg.rot Abs.init ops).files := by
    intro hc
    have h0 : FlwA.Inv cfg 0 s Abs.init := by
      refine ⟨hcfg, ?_⟩
      rw [hact]
      exact ⟨hdir, rfl⟩
    obtain ⟨t', hcfg', hi⟩ := FlwA.run_inv cfg hc ops s Abs.init 0 h0 hp.1 hp.2
      (fun _ _ _ => Nat.zero_le _)
    refine ⟨hcfg', ?_⟩
    generalize runOps s ops = s' at hi
    generalize Abs.run cfg.rot Abs.init ops = a at hi
    cases hact' : s'.act with
    | none =>
      rw [hact'] at hi
      obtain ⟨hd, ha⟩ := hi
      subst ha
      unfold viewFiles
      rw [hact', hd]
      rfl
    | some act =>
      rw [hact'] at hi
      exact view_of_inv hact' hi.1
  have hB : FlwB.CfgB cfg → (runOps s ops).cfg = cfg ∧
      viewFiles (runOps s ops) = (Abs.run cfg.rot Abs.init ops).files := by
    intro hc
    obtain ⟨r, hr⟩ := hc.cfgR
    have h0 : FlwB.Inv cfg r 0 s Abs.init := by
      refine ⟨hcfg, ?_⟩
      rw [hact]
      exact ⟨hdir, rfl⟩
    obtain ⟨lo, hI⟩ := FlwB.run_inv hr ops 0 s Abs.init h0 hp.1 (fun _ _ _ => Nat.zero_le _) hp.2
    rw [hr.rot]
    exact ⟨hI.1, hI.view.1⟩
  cases hr : cfg.rot with
  | none => rw [← hr]; exact hA ⟨happ, hcl, by intro r h; simp [hr] at h⟩
  | some r =>
    rw [← hr]
    cases hnm : r.naming with
    | numbers => exact hA ⟨happ, hcl, by intro r' h; rw [hr] at h; cases h; exact Or.inl hnm⟩
    | timestamps => exact hA ⟨happ, hcl, by intro r' h; rw [hr] at h; cases h; exact Or.inr hnm⟩
    | numbersDirect => exact hB ⟨happ, hcl, r, hr, Or.inl hnm⟩
    | timestampsDirect => exact hB ⟨happ, hcl, r, hr, Or.inr hnm⟩

/-! ### `reset_flw` -/

theorem monotone_append_left {a b : List (Op × Nat × Faults)} (h : Monotone (a ++ b)) :
    Monotone a := by
  unfold Monotone at *
  rw [List.filter_append, List.map_append, List.pairwise_append] at h
  exact h.1

theorem monotone_append_right {a b : List (Op × Nat × Faults)} (h : Monotone (a ++ b)) :
    Monotone b := by
  unfold Monotone at *
  rw [List.filter_append, List.map_append, List.pairwise_append] at h
  exact h.2.1

theorem monotone_snoc_noclock {a : List (Op × Nat × Faults)} {o : Op × Nat × Faults}
    (h : Monotone a) (ho : o.1.usesClock = false) : Monotone (a ++ [o]) := by
  unfold Monotone at *
  rw [List.filter_append, List.filter_cons_of_neg (by simp [ho])]
  simpa using h

/-- `reset_flw` = flush the old writer, archive the family, start from `Initial` -/
theorem step_reset_eq (s : St) (c : Cfg) (now : Nat) (fl : Faults) :
    (step s (.reset c) now fl).1 =
      { (step s .flush now fl).1 with
        cfg := c, act := none, archived := s.archived ++ [(step s .flush now fl).1.dir],
        dir := [] } := by
  cases hact : s.act <;> simp [step, hact, flushAct]

theorem step_flush_pending (s : St) (now : Nat) (fl : Faults) :
    ∀ a, (step s .flush now fl).1.act = some a → a.pending = [] := by
  intro a
  cases hact : s.act with
  | none => simp [step, hact]
  | some a0 =>
    simp only [step, hact, flushAct]
    intro h
    cases h
    rfl

theorem written_append (a b : List (Op × Nat × Faults)) : written (a ++ b) = written a ++ written b := by
  simp [written, records_append]

def ResetOp (o : Op) : Prop := o.plain = true ∨ ∃ c, o = .reset c ∧ GoodCfg c

theorem reset_run (ops : List (Op × Nat × Faults)) :
    ∀ (s0 : St) (seg : List (Op × Nat × Faults)), GoodCfg s0.cfg → s0.act = none → s0.dir = [] →
      (∀ o ∈ seg, o.1.plain = true ∧ o.2.2 = noFaults) →
      (∀ o ∈ ops, ResetOp o.1 ∧ o.2.2 = noFaults) → Monotone (seg ++ ops) →
      (((runOps s0 (seg ++ ops)).archived.map parts).flatten ++
          viewFiles (runOps s0 (seg ++ ops))).flatten =
        (s0.archived.map parts).flatten.flatten ++ written (seg ++ ops) := by
  induction ops with
  | nil =>
    intro s0 seg hg hact hdir hseg _ hmono
    rw [List.append_nil] at *
    obtain ⟨-, hv⟩ := family_run s0.cfg hg s0 rfl hact hdir seg ⟨hseg, hmono⟩
    rw [runOps_archived seg s0 (by
      intro o ho c hc
      have := (hseg o ho).1
      rw [hc] at this
      cases this)]
    rw [List.flatten_append, hv, Abs.files_flatten]
  | cons o os ih =>
    intro s0 seg hg hact hdir hseg hops hmono
    obtain ⟨ho, hfl⟩ := hops o List.mem_cons_self
    have hos : ∀ o' ∈ os, ResetOp o'.1 ∧ o'.2.2 = noFaults :=
      fun o' h' => hops o' (List.mem_cons_of_mem _ h')
    rcases ho with hpl | ⟨c, hc, hgc⟩
    · -- the family continues
      have e : seg ++ o :: os = (seg ++ [o]) ++ os := by simp
      rw [e] at hmono ⊢
      apply ih s0 (seg ++ [o]) hg hact hdir _ hos hmono
      intro o' h'
      rcases List.mem_append.1 h' with h' | h'
      · exact hseg o' h'
      · simp only [List.mem_singleton] at h'
        subst h'
        exact ⟨hpl, hfl⟩
    · -- reset: the family `seg` is closed
      obtain ⟨op, now, fl⟩ := o
      simp only at hc hfl
      subst hc hfl
      have hseg' : PlainHistory (seg ++ [(Op.flush, now, noFaults)]) := by
        refine ⟨?_, monotone_snoc_noclock (monotone_append_left hmono) rfl⟩
        intro o' h'
        rcases List.mem_append.1 h' with h' | h'
        · exact hseg o' h'
        · simp only [List.mem_singleton] at h'
          subst h'
          exact ⟨rfl, rfl⟩
      obtain ⟨-, hv⟩ := family_run s0.cfg hg s0 rfl hact hdir _ hseg'
      have hnp := step_flush_pending (runOps s0 seg) now noFaults
      have harch : (runOps s0 (seg ++ [(Op.flush, now, noFaults)])).archived = s0.archived := by
        apply runOps_archived
        intro o' h' c' hc'
        have := (hseg'.1 o' h').1
        rw [hc'] at this
        cases this
      have e1 : runOps s0 (seg ++ [(Op.flush, now, noFaults)]) =
          (step (runOps s0 seg) .flush now noFaults).1 := by
        rw [runOps_append]; rfl
      rw [e1] at hv harch
      have hparts := viewFiles_no_pending _ hnp
      rw [hv] at hparts
      -- the state after the reset
      have e2 : runOps s0 (seg ++ (Op.reset c, now, noFaults) :: os) =
          runOps (step (runOps s0 seg) (.reset c) now noFaults).1 ([] ++ os) := by
        rw [runOps_append]; rfl
      rw [e2, step_reset_eq]
      have hmono' : Monotone ([] ++ os) := by
        have := monotone_append_right hmono
        have e : (Op.reset c, now, noFaults) :: os = [(Op.reset c, now, noFaults)] ++ os := rfl
        rw [e] at this
        exact monotone_append_right this
      rw [ih _ [] hgc rfl rfl (by simp) hos hmono']
      have harch0 : (runOps s0 seg).archived = s0.archived := by
        rw [← harch]
        exact (step_archived _ _ _ _ (by intro c' h'; cases h')).symm
      simp only [harch0, List.map_append, List.map_cons, List.map_nil, List.flatten_append,
        List.flatten_cons, List.flatten_nil, List.append_nil, List.nil_append, ← hparts,
        Abs.files_flatten, written_append, List.append_assoc]
      simp [written, records]

/-! ### directories described up to permutation -/

abbrev extN (n : Nat) : FName := ⟨some (.ext n), false⟩

/-- the selection of `extAsc` -/
def extOf (e : FName × File) : Option (Nat × File) :=
  match e.1.ifx with
  | some (.ext n) => some (n, e.2)
  | _ => none

theorem extAsc_eq (d : Dir) : extAsc d = (List.filterMap extOf d).foldr insExt [] := rfl

theorem insExt_middle (x : Nat × File) :
    ∀ (L1 L2 : List (Nat × File)), (∀ y ∈ L1, y.1 < x.1) → (∀ y ∈ L2, x.1 < y.1) →
      insExt x (L1 ++ L2) = L1 ++ x :: L2 := by
  intro L1
  induction L1 with
  | nil =>
    intro L2 _ h2
    cases L2 with
    | nil => rfl
    | cons y ys => simp [insExt, h2 y (by simp)]
  | cons y L1 ih =>
    intro L2 h1 h2
    have hy := h1 y (by simp)
    have : ¬ x.1 < y.1 := by omega
    simp [insExt, this, ih L2 (fun z hz => h1 z (by simp [hz])) h2]

/-- insertion sort of a permutation of a strictly ascending list -/
theorem foldr_insExt_eq_of_perm :
    ∀ (l L : List (Nat × File)), List.Perm l L → L.Pairwise (fun a b => a.1 < b.1) →
      l.foldr insExt [] = L := by
  intro l
  induction l with
  | nil => intro L hp _; simpa using hp.symm.eq_nil
  | cons x l ih =>
    intro L hp hs
    have hx : x ∈ L := hp.subset (by simp)
    obtain ⟨L1, L2, rfl⟩ := List.append_of_mem hx
    have hp' : List.Perm l (L1 ++ L2) := (hp.trans List.perm_middle).cons_inv
    rw [List.pairwise_append, List.pairwise_cons] at hs
    obtain ⟨hs1, ⟨hs2, hs3⟩, hs4⟩ := hs
    have hs' : (L1 ++ L2).Pairwise (fun a b => a.1 < b.1) := by
      rw [List.pairwise_append]
      exact ⟨hs1, hs3, fun a ha b hb => hs4 a ha b (List.mem_cons_of_mem _ hb)⟩
    rw [List.foldr_cons, ih _ hp' hs']
    exact insExt_middle x L1 L2 (fun y hy => hs4 y hy x List.mem_cons_self) hs2

theorem extAsc_of_perm (d L : List (FName × File)) (hp : List.Perm d L)
    (hs : (L.filterMap extOf).Pairwise (fun a b => a.1 < b.1)) :
    extAsc d = L.filterMap extOf := by
  show (List.filterMap extOf d).foldr insExt [] = _
  exact foldr_insExt_eq_of_perm _ _ (hp.filterMap extOf) hs

theorem l_rot_none (l : List (FName × File)) (h : ∀ e ∈ l, isRot e = false) :
    (l.filter isRot).foldr insAsc [] = [] := by
  rw [List.filter_eq_nil_iff.2]
  · rfl
  · intro e he
    simp [h e he]

theorem rotatedAsc_of_none (d : Dir) (h : ∀ e ∈ ents d, isRot e = false) : rotatedAsc d = [] :=
  l_rot_none d h

theorem get_of_perm (d L : List (FName × File)) (hp : List.Perm d L)
    (hn : (L.map (·.1)).Nodup) (n : FName) (f : File) (h : (n, f) ∈ L) : Dir.get d n = some f :=
  FlwB.get_eq_some_of_mem d n f ((hp.map _).nodup_iff.2 hn) (hp.mem_iff.2 h)

theorem get_none_of_perm (d L : List (FName × File)) (hp : List.Perm d L)
    (n : FName) (h : ∀ e ∈ L, e.1 ≠ n) : Dir.get d n = none :=
  FlwB.get_eq_none_of_not_mem d n (fun e he => h e (hp.mem_iff.1 he))

/-! ### the file operations on a directory described up to permutation -/

theorem filter_ne_fresh (L : List (FName × File)) (t : FName) (ht : ∀ e ∈ L, e.1 ≠ t) :
    L.filter (fun e => e.1 ≠ t) = L := by
  rw [List.filter_eq_self]
  intro e he
  simp [ht e he]

theorem filter_ne_middle (L1 L2 : List (FName × File)) (h : FName) (f : File)
    (hn : ((L1 ++ (h, f) :: L2).map (·.1)).Nodup) :
    (L1 ++ (h, f) :: L2).filter (fun e => e.1 ≠ h) = L1 ++ L2 := by
  simp only [List.map_append, List.map_cons, List.nodup_append, List.nodup_cons, List.mem_map,
    List.mem_cons, not_exists, not_and] at hn
  obtain ⟨-, ⟨h2, -⟩, h3⟩ := hn
  rw [List.filter_append, List.filter_cons_of_neg (by simp), filter_ne_fresh L1, filter_ne_fresh L2]
  · intro e he heq
    exact h2 e he heq
  · intro e he heq
    exact h3 e.1 ⟨e, he, rfl⟩ h (Or.inl rfl) heq

theorem perm_set (d L : List (FName × File)) (hp : List.Perm d L) (n : FName) (v : File) :
    List.Perm (Dir.set d n v) ((n, v) :: L.filter (fun e => e.1 ≠ n)) :=
  (hp.filter _).cons _

theorem perm_erase (d L : List (FName × File)) (hp : List.Perm d L) (n : FName) :
    List.Perm (Dir.erase d n) (L.filter (fun e => e.1 ≠ n)) := hp.filter _

theorem get_middle (d L1 L2 : List (FName × File)) (h : FName) (f : File)
    (hp : List.Perm d (L1 ++ (h, f) :: L2)) (hn : ((L1 ++ (h, f) :: L2).map (·.1)).Nodup) :
    Dir.get d h = some f :=
  get_of_perm d _ hp hn h f (by simp)

/-- appending through a descriptor changes the data of that file only -/
theorem append_middle (d L1 L2 : List (FName × File)) (h : FName) (f : File) (x : List Nat)
    (hp : List.Perm d (L1 ++ (h, f) :: L2)) (hn : ((L1 ++ (h, f) :: L2).map (·.1)).Nodup) :
    List.Perm (Dir.append d h x) (L1 ++ (h, ⟨f.data ++ x, f.created⟩) :: L2) := by
  have hg := get_middle d L1 L2 h f hp hn
  have : Dir.append d h x = Dir.set d h ⟨f.data ++ x, f.created⟩ := by simp [Dir.append, hg]
  rw [this]
  refine (perm_set d _ hp h _).trans ?_
  rw [filter_ne_middle L1 L2 h f hn]
  exact List.perm_middle.symm

theorem append_missing (d : List (FName × File)) (h : FName) (x : List Nat)
    (hg : Dir.get d h = none) : Dir.append d h x = d := by
  unfold Dir.append
  rw [hg]

/-- renaming to a fresh name changes the name of that file only -/
theorem rename_middle (d L1 L2 : List (FName × File)) (h t : FName) (f : File)
    (hp : List.Perm d (L1 ++ (h, f) :: L2)) (hn : ((L1 ++ (h, f) :: L2).map (·.1)).Nodup)
    (ht : ∀ e ∈ L1 ++ L2, e.1 ≠ t) :
    ∃ d', Dir.rename d h t = (d', true) ∧ List.Perm d' (L1 ++ (t, f) :: L2) := by
  have hg := get_middle d L1 L2 h f hp hn
  refine ⟨Dir.set (Dir.erase d h) t f, by simp [Dir.rename, hg], ?_⟩
  refine (perm_set _ _ (perm_erase d _ hp h) t f).trans ?_
  rw [filter_ne_middle L1 L2 h f hn, filter_ne_fresh _ t ht]
  exact List.perm_middle.symm

theorem erase_middle (d L1 L2 : List (FName × File)) (h : FName) (f : File)
    (hp : List.Perm d (L1 ++ (h, f) :: L2)) (hn : ((L1 ++ (h, f) :: L2).map (·.1)).Nodup) :
    List.Perm (Dir.erase d h) (L1 ++ L2) := by
  have := perm_erase d _ hp h
  rwa [filter_ne_middle L1 L2 h f hn] at this

/-- creating a file under a fresh name -/
theorem set_fresh (d L : List (FName × File)) (n : FName) (v : File) (hp : List.Perm d L)
    (hn : ∀ e ∈ L, e.1 ≠ n) : List.Perm (Dir.set d n v) (L ++ [(n, v)]) := by
  refine (perm_set d L hp n v).trans ?_
  rw [filter_ne_fresh L n hn]
  exact (List.perm_append_singleton _ _).symm

theorem append_append (d : Dir) (h : FName) (x y : List Nat) :
    (d.append h x).append h y = d.append h (x ++ y) := by
  cases hg : Dir.get d h with
  | none => rw [append_missing d h x hg, append_missing d h y hg, append_missing d h _ hg]
  | some f =>
    have h1 : Dir.append d h x = Dir.set d h ⟨f.data ++ x, f.created⟩ := by simp [Dir.append, hg]
    have h2 : Dir.append d h (x ++ y) = Dir.set d h ⟨f.data ++ (x ++ y), f.created⟩ := by
      simp [Dir.append, hg]
    have h3 : Dir.append (Dir.set d h ⟨f.data ++ x, f.created⟩) h y =
        Dir.set (Dir.set d h ⟨f.data ++ x, f.created⟩) h ⟨f.data ++ x ++ y, f.created⟩ := by
      have hg' := get_set_self d h ⟨f.data ++ x, f.created⟩
      unfold Dir.append
      rw [hg']
    rw [h1, h2, h3]
    unfold Dir.set
    rw [show Dir.erase ((h, _) :: Dir.erase d h) h = Dir.erase d h from erase_set_self d h _,
      List.append_assoc]

/-! ### the `BufWriter` rule for an arbitrary descriptor -/

/-- either the bytes are only buffered (the directory is untouched), or `x` goes to the file
    behind the descriptor and `p'` stays in the buffer, with `x ++ p' = pending ++ b` -/
theorem writeRaw_gen (s : St) (a : Active) (b : List Nat)
    (hb : (a.unbuffered = true ∨ s.cfg.cap = none) → a.pending = []) :
    (writeRaw s a b = (s, { a with pending := a.pending ++ b }) ∧
      ¬ (a.unbuffered = true ∨ s.cfg.cap = none)) ∨
    ∃ x p', writeRaw s a b = ({ s with dir := s.dir.append a.handle x }, { a with pending := p' }) ∧
      x ++ p' = a.pending ++ b ∧ ((a.unbuffered = true ∨ s.cfg.cap = none) → p' = []) := by
  obtain ⟨handle, path, pending, unb, idx, stamp, size, created⟩ := a
  simp only at hb ⊢
  unfold writeRaw
  cases unb with
  | true =>
    right
    have hp := hb (Or.inl rfl)
    subst hp
    exact ⟨b, [], by simp, by simp, fun _ => rfl⟩
  | false =>
    cases hc : s.cfg.cap with
    | none =>
      right
      have hp := hb (Or.inr hc)
      subst hp
      exact ⟨b, [], by simp, by simp, fun _ => rfl⟩
    | some c =>
      simp only [Bool.false_eq_true, if_false]
      by_cases hfl : pending.length + b.length > c
      · by_cases hbl : b.length ≥ c
        · right
          refine ⟨pending ++ b, [], ?_, by simp, fun _ => rfl⟩
          simp only [if_pos hfl, if_pos hbl, flushAct]
          rw [append_append]
        · right
          refine ⟨pending, b, ?_, rfl, fun h => by simp at h⟩
          simp only [if_pos hfl, if_neg hbl, flushAct, List.nil_append]
      · by_cases hbl : b.length ≥ c
        · have hp : pending = [] := by
            apply List.eq_nil_of_length_eq_zero
            omega
          subst hp
          right
          refine ⟨b, [], ?_, by simp, fun _ => rfl⟩
          simp only [if_neg hfl, if_pos hbl]
        · left
          refine ⟨?_, by simp⟩
          simp only [if_neg hfl, if_neg hbl]

/-! ### the chronological invariant -/

def extNum (n : FName) : Option Nat :=
  match n.ifx with
  | some (.ext k) => some k
  | _ => none

theorem extOf_names (L : List (FName × File)) :
    (L.filterMap extOf).map (·.1) = (L.map (·.1)).filterMap extNum := by
  induction L with
  | nil => rfl
  | cons e L ih =>
    rw [List.map_cons, List.filterMap_cons, List.filterMap_cons]
    have : extNum e.1 = (extOf e).map (·.1) := by
      obtain ⟨⟨ifx, gz⟩, f⟩ := e
      cases ifx with
      | none => rfl
      | some i => cases i <;> rfl
    rw [this]
    cases extOf e <;> simp [ih]

/-- the names a file of a family can have: the path the writer writes to, a name given by
    somebody else, a name given by a rotation -/
def NameOK (cfg : Cfg) (ctr idx : Nat) (n : FName) : Prop :=
  n = cnOf cfg ∨ (∃ k, n = extN k ∧ k < ctr) ∨
  (∃ i, n = ⟨some i, false⟩ ∧ i.rotated = true ∧ cfg.rot.isSome = true ∧ ∀ m, i = .num m → m < idx)

theorem NameOK.mono {cfg : Cfg} {ctr idx ctr' idx' : Nat} {n : FName} (h : NameOK cfg ctr idx n)
    (h1 : ctr ≤ ctr') (h2 : idx ≤ idx') : NameOK cfg ctr' idx' n := by
  rcases h with h | ⟨k, hk, hlt⟩ | ⟨i, hi, hr, hc, hm⟩
  · exact Or.inl h
  · exact Or.inr (Or.inl ⟨k, hk, by omega⟩)
  · exact Or.inr (Or.inr ⟨i, hi, hr, hc, fun m hm' => by have := hm m hm'; omega⟩)

theorem extNum_cnOf (cfg : Cfg) : extNum (cnOf cfg) = none := by
  rcases cnOf_cases cfg with h | h <;> rw [h] <;> rfl

theorem cnOf_ne_ext (cfg : Cfg) (k : Nat) : cnOf cfg ≠ extN k := by
  rcases cnOf_cases cfg with h | h <;> rw [h] <;> simp [extN]

/-- a name of the family with an `ext` number below `ctr` is not `extN ctr` -/
theorem NameOK.ne_ext {cfg : Cfg} {ctr idx : Nat} {n : FName} (h : NameOK cfg ctr idx n) :
    n ≠ extN ctr := by
  rcases h with h | ⟨k, hk, hlt⟩ | ⟨i, hi, hr, -, -⟩
  · rw [h]; exact cnOf_ne_ext cfg ctr
  · rw [hk]; simp [extN]; omega
  · rw [hi]
    intro h
    cases h
    simp [Infix.rotated] at hr

theorem NameOK.extNum_lt {cfg : Cfg} {ctr idx : Nat} {n : FName} (h : NameOK cfg ctr idx n)
    (k : Nat) (hk : extNum n = some k) : k < ctr := by
  rcases h with h | ⟨k', hk', hlt⟩ | ⟨i, hi, hr, -, -⟩
  · rw [h, extNum_cnOf] at hk; cases hk
  · rw [hk'] at hk
    simp [extNum] at hk
    omega
  · rw [hi] at hk
    cases i <;> simp [extNum, Infix.rotated] at hk hr

/-- `L0`: the files the writer has left behind, in the order in which it left them; `f`: the file
    behind the descriptor; `G0`, `g`: the records they hold (`g` includes the buffered ones) -/
structure ChronAct (cfg : Cfg) (d : List (FName × File)) (ctr : Nat) (a : Active)
    (L0 : List (FName × File)) (f : File) (G0 : List (List (List Nat))) (g : List (List Nat)) :
    Prop where
  perm : List.Perm d (L0 ++ [(a.handle, f)])
  nodup : (L0.map (·.1) ++ [a.handle]).Nodup
  path : a.path = cnOf cfg
  old : ∀ n ∈ L0.map (·.1), n ≠ cnOf cfg
  names : ∀ n ∈ L0.map (·.1) ++ [a.handle], NameOK cfg ctr a.idx n
  exts : ((L0.map (·.1) ++ [a.handle]).filterMap extNum).Pairwise (· < ·)
  buf : (a.unbuffered = true ∨ cfg.cap = none) → a.pending = []
  closed : L0.map (·.2.data) = G0.map List.flatten
  cur : f.data ++ a.pending = g.flatten

theorem ChronAct.nodup' {cfg d ctr a L0 f G0 g} (h : ChronAct cfg d ctr a L0 f G0 g) :
    ((L0 ++ (a.handle, f) :: []).map (·.1)).Nodup := by
  simpa using h.nodup

theorem ChronAct.get {cfg d ctr a L0 f G0 g} (h : ChronAct cfg d ctr a L0 f G0 g) :
    Dir.get d a.handle = some f :=
  get_middle d L0 [] a.handle f h.perm h.nodup'

/-- bytes reach the file behind the descriptor and/or the buffer -/
theorem ChronAct.data {cfg d ctr a L0 f G0 g} (h : ChronAct cfg d ctr a L0 f G0 g)
    (x p' y : List Nat) (g' : List (List Nat)) (a' : Active)
    (hx : x ++ p' = a.pending ++ y) (hg : g'.flatten = g.flatten ++ y)
    (hb : (a'.unbuffered = true ∨ cfg.cap = none) → p' = [])
    (h1 : a'.handle = a.handle) (h2 : a'.path = a.path) (h3 : a'.idx = a.idx)
    (h5 : a'.pending = p') :
    ChronAct cfg (Dir.append d a.handle x) ctr a' L0 ⟨f.data ++ x, f.created⟩ G0 g' where
  perm := by rw [h1]; exact append_middle d L0 [] a.handle f x h.perm h.nodup'
  nodup := by rw [h1]; exact h.nodup
  path := by rw [h2]; exact h.path
  old := h.old
  names := by rw [h1, h3]; exact h.names
  exts := by rw [h1]; exact h.exts
  buf := by rw [h5]; exact hb
  closed := h.closed
  cur := by
    rw [h5, hg, ← h.cur]
    simp only [List.append_assoc]
    rw [hx]

/-- only the buffer changes -/
theorem ChronAct.buffer {cfg d ctr a L0 f G0 g} (h : ChronAct cfg d ctr a L0 f G0 g)
    (p' y : List Nat) (g' : List (List Nat)) (a' : Active)
    (hx : p' = a.pending ++ y) (hg : g'.flatten = g.flatten ++ y)
    (hb : (a'.unbuffered = true ∨ cfg.cap = none) → p' = [])
    (h1 : a'.handle = a.handle) (h2 : a'.path = a.path) (h3 : a'.idx = a.idx)
    (h5 : a'.pending = p') :
    ChronAct cfg d ctr a' L0 f G0 g' where
  perm := by rw [h1]; exact h.perm
  nodup := by rw [h1]; exact h.nodup
  path := by rw [h2]; exact h.path
  old := h.old
  names := by rw [h1, h3]; exact h.names
  exts := by rw [h1]; exact h.exts
  buf := by rw [h5]; exact hb
  closed := h.closed
  cur := by rw [h5, hg, ← h.cur, hx, List.append_assoc]

/-- the file behind the descriptor gets a fresh name (by somebody else or by a rotation) -/
theorem ChronAct.renameHandle {cfg d ctr a L0 f G0 g} (h : ChronAct cfg d ctr a L0 f G0 g)
    (t : FName) (ctr' : Nat) (a' : Active)
    (hfresh : ∀ n ∈ L0.map (·.1), n ≠ t) (hok : NameOK cfg ctr' a'.idx t)
    (hctr : ctr ≤ ctr') (hidx : a.idx ≤ a'.idx)
    (hext : ∀ k, extNum t = some k → ∀ n ∈ L0.map (·.1), ∀ m, extNum n = some m → m < k)
    (h1 : a'.handle = t) (h2 : a'.path = a.path)
    (h4 : a'.unbuffered = a.unbuffered) (h5 : a'.pending = a.pending) :
    ∃ d', Dir.rename d a.handle t = (d', true) ∧ ChronAct cfg d' ctr' a' L0 f G0 g := by
  obtain ⟨d', hren, hp⟩ := rename_middle d L0 [] a.handle t f h.perm h.nodup'
    (by
      intro e he
      rw [List.append_nil] at he
      exact hfresh e.1 (List.mem_map_of_mem he))
  refine ⟨d', hren, ?_⟩
  have hnd := h.nodup
  rw [List.nodup_append] at hnd
  have hex := h.exts
  rw [List.filterMap_append, List.pairwise_append] at hex
  exact {
    perm := by rw [h1]; exact hp
    nodup := by
      rw [h1, List.nodup_append]
      refine ⟨hnd.1, by simp, ?_⟩
      intro x hx y hy
      simp only [List.mem_singleton] at hy
      rw [hy]
      exact hfresh x hx
    path := by rw [h2]; exact h.path
    old := h.old
    names := by
      intro n hn
      rcases List.mem_append.1 hn with hn | hn
      · exact (h.names n (List.mem_append_left _ hn)).mono hctr hidx
      · simp only [List.mem_singleton] at hn
        rw [hn, h1]
        exact hok
    exts := by
      rw [h1, List.filterMap_append, List.pairwise_append]
      refine ⟨hex.1, ?_, ?_⟩
      · cases ht : extNum t <;> simp [ht]
      · intro m hm k hk
        obtain ⟨n, hn, hnm⟩ := List.mem_filterMap.1 hm
        have hk' : extNum t = some k := by
          cases ht : extNum t with
          | none => simp [ht] at hk
          | some k' => simp [ht] at hk; rw [hk]
        exact hext k hk' n hn m hnm
    buf := by rw [h4, h5]; exact h.buf
    closed := h.closed
    cur := by rw [h5]; exact h.cur }

/-- a new file is created at the path; the old descriptor's buffer goes to the old file -/
theorem ChronAct.switch {cfg d ctr a L0 f G0 g} (h : ChronAct cfg d ctr a L0 f G0 g)
    (d' : List (FName × File)) (new : File) (a' : Active) (hne : a.handle ≠ cnOf cfg)
    (hp : List.Perm d' (L0 ++ [(a.handle, ⟨f.data ++ a.pending, f.created⟩)] ++ [(cnOf cfg, new)]))
    (hnew : new.data = []) (hidx : a.idx ≤ a'.idx)
    (h1 : a'.handle = cnOf cfg) (h2 : a'.path = cnOf cfg) (h5 : a'.pending = []) :
    ChronAct cfg d' ctr a' (L0 ++ [(a.handle, ⟨f.data ++ a.pending, f.created⟩)]) new
      (G0 ++ [g]) [] where
  perm := by rw [h1]; exact hp
  nodup := by
    rw [h1]
    simp only [List.map_append, List.map_cons, List.map_nil]
    rw [List.nodup_append]
    refine ⟨h.nodup, by simp, ?_⟩
    intro x hx y hy
    simp only [List.mem_singleton] at hy
    rw [hy]
    rcases List.mem_append.1 hx with hx | hx
    · exact h.old x hx
    · simp only [List.mem_singleton] at hx
      rw [hx]
      exact hne
  path := h2
  old := by
    intro n hn
    simp only [List.map_append, List.map_cons, List.map_nil] at hn
    rcases List.mem_append.1 hn with hn | hn
    · exact h.old n hn
    · simp only [List.mem_singleton] at hn
      rw [hn]
      exact hne
  names := by
    intro n hn
    simp only [List.map_append, List.map_cons, List.map_nil] at hn
    rcases List.mem_append.1 hn with hn | hn
    · exact (h.names n hn).mono (Nat.le_refl _) hidx
    · simp only [List.mem_singleton] at hn
      rw [hn, h1]
      exact Or.inl rfl
  exts := by
    rw [h1]
    simp only [List.map_append, List.map_cons, List.map_nil]
    rw [List.filterMap_append]
    simp only [List.filterMap_cons, extNum_cnOf, List.filterMap_nil, List.append_nil]
    exact h.exts
  buf := fun _ => h5
  closed := by
    simp only [List.map_append, List.map_cons, List.map_nil]
    rw [h.closed, h.cur]
  cur := by rw [h5, hnew]; rfl

/-! ### the invariant on states -/

/-- `R`: the records logged so far -/
def Chron (cfg : Cfg) (s : St) (R : List (List Nat)) : Prop :=
  s.cfg = cfg ∧
  match s.act with
  | none => s.dir = [] ∧ R = []
  | some a => ∃ L0 f G0 g, ChronAct cfg s.dir s.extCtr a L0 f G0 g ∧ G0.flatten ++ g = R

theorem chron_init (cfg : Cfg) : Chron cfg (init cfg []) [] := ⟨rfl, rfl, rfl⟩

theorem Chron.of_act {cfg : Cfg} {s : St} {a : Active} {L0 f G0 g} {R : List (List Nat)}
    (hcfg : s.cfg = cfg) (hact : s.act = some a) (h : ChronAct cfg s.dir s.extCtr a L0 f G0 g)
    (hR : G0.flatten ++ g = R) : Chron cfg s R := by
  refine ⟨hcfg, ?_⟩
  rw [hact]
  exact ⟨L0, f, G0, g, h, hR⟩

/-- `flush` / `shutdown` / the flush of a dropped writer -/
theorem flush_chron {cfg : Cfg} {s : St} {a : Active} {L0 f G0 g}
    (h : ChronAct cfg s.dir s.extCtr a L0 f G0 g) :
    ChronAct cfg (flushAct s a).1.dir s.extCtr (flushAct s a).2 L0
      ⟨f.data ++ a.pending, f.created⟩ G0 g :=
  h.data a.pending [] [] g _ (by simp) (by simp) (fun _ => rfl) rfl rfl rfl rfl

/-- `write_buffer` once the writer is mounted -/
theorem wrote_chron {cfg : Cfg} {s : St} {a : Active} {L0 f G0 g} (b : List Nat)
    (hcfg : s.cfg = cfg) (h : ChronAct cfg s.dir s.extCtr a L0 f G0 g) :
    Chron cfg (wrote s a b) (G0.flatten ++ g ++ [b]) := by
  have hb : (a.unbuffered = true ∨ s.cfg.cap = none) → a.pending = [] := by
    rw [hcfg]; exact h.buf
  rcases writeRaw_gen s a b hb with ⟨hw, hnb⟩ | ⟨x, p', hw, hx, hp'⟩
  · unfold wrote
    rw [hw]
    refine Chron.of_act (L0 := L0) (f := f) (G0 := G0) (g := g ++ [b]) hcfg rfl ?_
      (by simp)
    exact h.buffer (a.pending ++ b) b _ _ rfl (by simp) (by rw [← hcfg]; exact fun h' => absurd h' hnb)
      rfl rfl rfl rfl
  · unfold wrote
    rw [hw]
    refine Chron.of_act (L0 := L0) (f := ⟨f.data ++ x, f.created⟩) (G0 := G0) (g := g ++ [b])
      hcfg rfl ?_ (by simp)
    exact h.data x p' b _ _ hx (by simp) (by rw [← hcfg]; exact hp') rfl rfl rfl rfl

/-- the first file of a non-rotating writer -/
theorem initState_none (s : St) (now : Nat) (hr : s.cfg.rot = none) (hd : s.dir = []) :
    ∃ s1, initState s now noFaults = (s1, true) ∧ s1.cfg = s.cfg ∧
      s1.dir = [(plainN, ⟨[], now⟩)] ∧
      s1.act = some ⟨plainN, plainN, [], false, 0, 0, 0, 0⟩ := by
  obtain ⟨s1, ho, hc1, hd1, -⟩ := openFile_new s plainN now (by rw [hd]; rfl)
  refine ⟨{ s1 with act := some ⟨plainN, plainN, [], false, 0, 0, 0, 0⟩ }, ?_, hc1, ?_, rfl⟩
  · simp [initState, hr, ho]
  · simp only [hd1, hd]
    rfl

/-- the state right after the first file has been opened -/
theorem chron_first {cfg : Cfg} {s1 : St} {a : Active} (now : Nat)
    (hd : s1.dir = [(cnOf cfg, ⟨[], now⟩)]) (hh : a.handle = cnOf cfg) (hp : a.path = cnOf cfg)
    (hpe : a.pending = []) :
    ChronAct cfg s1.dir s1.extCtr a [] ⟨[], now⟩ [] [] where
  perm := by rw [hd, hh]; exact List.Perm.refl _
  nodup := by simp
  path := hp
  old := by simp
  names := by
    intro n hn
    simp only [List.map_nil, List.nil_append, List.mem_singleton] at hn
    rw [hn, hh]
    exact Or.inl rfl
  exts := by
    rw [hh]
    simp [extNum_cnOf]
  buf := fun _ => hpe
  closed := rfl
  cur := by rw [hpe]; rfl

theorem records_single (op : Op) (now : Nat) (fl : Faults) :
    records [(op, now, fl)] = match op with | .write b => [b] | _ => [] := by
  cases op <;> rfl

/-- somebody renames the file behind the descriptor -/
theorem extRename_chron {cfg : Cfg} {s : St} {R : List (List Nat)} (now : Nat) (fl : Faults)
    (h : Chron cfg s R) : Chron cfg (step s .extRename now fl).1 R := by
  obtain ⟨hcfg, h⟩ := h
  cases hact : s.act with
  | none =>
    have : (step s .extRename now fl).1 = s := by simp [step, hact]
    rw [this]
    refine ⟨hcfg, ?_⟩
    rw [hact] at h ⊢
    exact h
  | some a =>
    rw [hact] at h
    obtain ⟨L0, f, G0, g, hc, hR⟩ := h
    obtain ⟨d', hren, hc'⟩ := hc.renameHandle (extN s.extCtr) (s.extCtr + 1)
      { a with handle := extN s.extCtr }
      (fun n hn => (hc.names n (List.mem_append_left _ hn)).ne_ext)
      (Or.inr (Or.inl ⟨s.extCtr, rfl, Nat.lt_succ_self _⟩)) (Nat.le_succ _) (Nat.le_refl _)
      (by
        intro k hk n hn m hm
        have : k = s.extCtr := by simp [extNum] at hk; omega
        rw [this]
        exact (hc.names n (List.mem_append_left _ hn)).extNum_lt m hm)
      rfl rfl rfl rfl
    have : (step s .extRename now fl).1 =
        { s with dir := d', act := some { a with handle := extN s.extCtr },
                 extCtr := s.extCtr + 1 } := by
      simp only [step, hact]
      rw [show s.dir.rename a.handle ⟨some (.ext s.extCtr), false⟩ = (d', true) from hren]
      rfl
    rw [this]
    exact Chron.of_act hcfg rfl hc' hR

/-- `reopen_output` -/
theorem reopen_chron {cfg : Cfg} {s : St} {R : List (List Nat)} (now : Nat)
    (h : Chron cfg s R) : Chron cfg (step s .reopen now noFaults).1 R := by
  obtain ⟨hcfg, h⟩ := h
  cases hact : s.act with
  | none =>
    have : (step s .reopen now noFaults).1 = s := by simp [step, hact]
    rw [this]
    refine ⟨hcfg, ?_⟩
    rw [hact] at h ⊢
    exact h
  | some a =>
    rw [hact] at h
    obtain ⟨L0, f, G0, g, hc, hR⟩ := h
    have hfl := flush_chron hc
    have ho : hit noFaults.openF 0 = false := rfl
    by_cases hh : a.handle = cnOf cfg
    · -- the file is still at its path: nothing happens to the directory
      have hg : (s.dir.append a.handle a.pending).get a.path = some ⟨f.data ++ a.pending, f.created⟩ := by
        rw [hc.path, ← hh]
        exact hfl.get
      have : (step s .reopen now noFaults).1 =
          { s with dir := s.dir.append a.handle a.pending,
                   act := some { a with pending := [], handle := a.path, unbuffered := true } } := by
        simp only [step, hact, ho, flushAct]
        simp [hg]
      rw [this]
      refine Chron.of_act (L0 := L0) (f := ⟨f.data ++ a.pending, f.created⟩) hcfg rfl ?_ hR
      exact hfl.buffer [] [] g _ (by simp [flushAct]) (by simp) (fun _ => rfl)
        (by simp [flushAct, hc.path, hh]) rfl rfl rfl
    · -- the file has been moved away: a new one is created at the path
      have hg : (s.dir.append a.handle a.pending).get a.path = none := by
        rw [hc.path]
        apply get_none_of_perm _ _ hfl.perm
        intro e he
        rcases List.mem_append.1 he with he | he
        · exact hc.old e.1 (List.mem_map_of_mem he)
        · simp only [List.mem_singleton] at he
          rw [he]
          exact hh
      have : (step s .reopen now noFaults).1 =
          { s with dir := (s.dir.append a.handle a.pending).set (cnOf cfg) ⟨[], now⟩,
                   act := some { a with pending := [], handle := a.path, unbuffered := true } } := by
        rw [hc.path] at hg
        simp only [step, hact, ho, flushAct]
        simp [hg, hc.path]
      rw [this]
      refine Chron.of_act (L0 := L0 ++ [(a.handle, ⟨f.data ++ a.pending, f.created⟩)])
        (f := ⟨[], now⟩) (G0 := G0 ++ [g]) (g := []) hcfg rfl ?_ (by simpa using hR)
      have hp : List.Perm ((s.dir.append a.handle a.pending).set (cnOf cfg) ⟨[], now⟩)
          (L0 ++ [(a.handle, ⟨f.data ++ a.pending, f.created⟩)] ++ [(cnOf cfg, ⟨[], now⟩)]) := by
        apply set_fresh _ _ _ _ hfl.perm
        intro e he
        rcases List.mem_append.1 he with he | he
        · exact hc.old e.1 (List.mem_map_of_mem he)
        · simp only [List.mem_singleton] at he
          rw [he]
          exact hh
      exact hc.switch _ ⟨[], now⟩ { a with pending := [], handle := a.path, unbuffered := true } hh hp
        rfl (Nat.le_refl _) hc.path hc.path rfl

/-! ### the non-rotating writer: one operation -/

theorem cnOf_none {cfg : Cfg} (h : cfg.rot = none) : cnOf cfg = plainN := by simp [cnOf, h]

/-- `write` keeps the files left behind and adds the record to the current group -/
theorem write_chron_none {cfg : Cfg} (hrot : cfg.rot = none) {s : St} {R : List (List Nat)}
    (b : List Nat) (now : Nat) (h : Chron cfg s R) :
    Chron cfg (step s (.write b) now noFaults).1 (R ++ [b]) := by
  obtain ⟨hcfg, h⟩ := h
  have hrot' : s.cfg.rot = none := by rw [hcfg]; exact hrot
  simp only [step]
  cases hact : s.act with
  | none =>
    rw [hact] at h
    obtain ⟨hd, hR⟩ := h
    obtain ⟨s1, hi, hc1, hd1, ha1⟩ := initState_none s now hrot' hd
    rw [writeBuffer_init s s1 _ b now hact hi ha1,
      writeBuffer_none_rot s1 _ b now ha1 (by rw [hc1]; exact hrot')]
    have hc : ChronAct cfg s1.dir s1.extCtr ⟨plainN, plainN, [], false, 0, 0, 0, 0⟩ [] ⟨[], now⟩
        [] [] := by
      apply chron_first now
      · rw [hd1, cnOf_none hrot]
      · exact (cnOf_none hrot).symm
      · exact (cnOf_none hrot).symm
      · rfl
    have := wrote_chron b (hc1.trans hcfg) hc
    rw [hR]
    simpa using this
  | some a =>
    rw [hact] at h
    obtain ⟨L0, f, G0, g, hc, hR⟩ := h
    rw [writeBuffer_none_rot s a b now hact hrot', ← hR]
    exact wrote_chron b hcfg hc

theorem flush_step_chron {cfg : Cfg} {s : St} {R : List (List Nat)} (now : Nat) (fl : Faults)
    (h : Chron cfg s R) : Chron cfg (step s .flush now fl).1 R := by
  obtain ⟨hcfg, h⟩ := h
  cases hact : s.act with
  | none =>
    have : (step s .flush now fl).1 = s := by simp [step, hact]
    rw [this]
    refine ⟨hcfg, ?_⟩
    rw [hact] at h ⊢
    exact h
  | some a =>
    rw [hact] at h
    obtain ⟨L0, f, G0, g, hc, hR⟩ := h
    have : (step s .flush now fl).1 =
        { (flushAct s a).1 with act := some (flushAct s a).2 } := by simp [step, hact]
    rw [this]
    exact Chron.of_act hcfg rfl (flush_chron hc) hR

theorem step_shutdown_eq (s : St) (now : Nat) (fl : Faults) :
    step s .shutdown now fl = step s .flush now fl := rfl

/-- the operations of part A.1 -/
def opA1 : Op → Bool
  | .write _ | .rotate | .flush | .shutdown | .extRename | .reopen => true
  | _ => false

theorem step_chron_none {cfg : Cfg} (hrot : cfg.rot = none) {s : St} {R : List (List Nat)}
    (op : Op) (now : Nat) (hop : opA1 op = true) (h : Chron cfg s R) :
    Chron cfg (step s op now noFaults).1 (R ++ records [(op, now, noFaults)]) := by
  cases op with
  | write b => exact write_chron_none hrot b now h
  | rotate =>
    have : (step s .rotate now noFaults).1 = s := by
      have hr : s.cfg.rot = none := by rw [h.1]; exact hrot
      simp only [step]
      split
      · rename_i a r ha hr'
        rw [hr] at hr'
        cases hr'
      · rfl
    rw [this]
    simpa [records] using h
  | flush => simpa [records] using flush_step_chron now noFaults h
  | shutdown =>
    rw [step_shutdown_eq]
    simpa [records] using flush_step_chron now noFaults h
  | extRename => simpa [records] using extRename_chron now noFaults h
  | reopen => simpa [records] using reopen_chron now h
  | restart c => cases hop
  | reset c => cases hop
  | extRemove => cases hop

theorem run_chron_none {cfg : Cfg} (hrot : cfg.rot = none) (ops : List (Op × Nat × Faults)) :
    ∀ (s : St) (R : List (List Nat)), Chron cfg s R →
      (∀ o ∈ ops, opA1 o.1 = true ∧ o.2.2 = noFaults) →
      Chron cfg (runOps s ops) (R ++ records ops) := by
  induction ops with
  | nil => intro s R h _; simpa [records, runOps] using h
  | cons o os ih =>
    intro s R h hops
    obtain ⟨op, now, fl⟩ := o
    obtain ⟨hop, hfl⟩ := hops _ List.mem_cons_self
    simp only at hop hfl
    subst hfl
    have e : records ((op, now, noFaults) :: os) = records [(op, now, noFaults)] ++ records os :=
      records_append [(op, now, noFaults)] os
    rw [e, ← List.append_assoc]
    exact ih _ _ (step_chron_none hrot op now hop h)
      (fun o' ho' => hops o' (List.mem_cons_of_mem _ ho'))

/-! ### the non-rotating writer: what a reader sees -/

theorem filterMap_extOf_all (L : List (FName × File)) (h : ∀ e ∈ L, ∃ k, e.1 = extN k) :
    (L.filterMap extOf).map (·.2.data) = L.map (·.2.data) := by
  induction L with
  | nil => rfl
  | cons e L ih =>
    obtain ⟨k, hk⟩ := h e List.mem_cons_self
    have : extOf e = some (k, e.2) := by
      obtain ⟨n, f⟩ := e
      simp only at hk
      subst hk
      rfl
    rw [List.filterMap_cons, this]
    simp [ih (fun e' he' => h e' (List.mem_cons_of_mem _ he'))]

/-- names of a non-rotating family -/
theorem NameOK.norot {cfg : Cfg} (hrot : cfg.rot = none) {ctr idx : Nat} {n : FName}
    (h : NameOK cfg ctr idx n) : n = plainN ∨ ∃ k, n = extN k := by
  rcases h with h | ⟨k, hk, -⟩ | ⟨i, -, -, hc, -⟩
  · left; rw [h, cnOf_none hrot]
  · exact Or.inr ⟨k, hk⟩
  · simp [hrot] at hc

theorem exts_pairwise (L : List (FName × File))
    (h : ((L.map (·.1)).filterMap extNum).Pairwise (· < ·)) :
    (L.filterMap extOf).Pairwise (fun a b => a.1 < b.1) := by
  rw [← extOf_names, List.pairwise_map] at h
  exact h

/-- the files of a non-rotating writer in reading order are the files in the order in which
    the writer left them, the one behind the descriptor last -/
theorem parts_norot {cfg : Cfg} (hrot : cfg.rot = none) {d ctr a L0 f G0 g}
    (h : ChronAct cfg d ctr a L0 f G0 g) : parts d = L0.map (·.2.data) ++ [f.data] := by
  have hcn := cnOf_none hrot
  have hL0 : ∀ e ∈ L0, ∃ k, e.1 = extN k := by
    intro e he
    have hm : e.1 ∈ L0.map (·.1) := List.mem_map_of_mem he
    rcases (h.names e.1 (List.mem_append_left _ hm)).norot hrot with h1 | h1
    · exact absurd (h1.trans hcn.symm) (h.old e.1 hm)
    · exact h1
  have hh : a.handle = plainN ∨ ∃ k, a.handle = extN k :=
    (h.names a.handle (by simp)).norot hrot
  have hL : ∀ e ∈ L0 ++ [(a.handle, f)], e.1 = plainN ∨ ∃ k, e.1 = extN k := by
    intro e he
    rcases List.mem_append.1 he with he | he
    · exact Or.inr (hL0 e he)
    · simp only [List.mem_singleton] at he
      rw [he]
      exact hh
  have hext : extAsc d = (L0 ++ [(a.handle, f)]).filterMap extOf := by
    apply extAsc_of_perm d _ h.perm
    apply exts_pairwise
    simpa using h.exts
  have hrotated : rotatedAsc d = [] := by
    apply rotatedAsc_of_none
    intro e he
    rcases hL e (h.perm.mem_iff.1 he) with h1 | ⟨k, h1⟩ <;> simp [isRot, h1, Infix.rotated]
  have hcur : Dir.get d ⟨some .cur, false⟩ = none := by
    apply get_none_of_perm d _ h.perm
    intro e he
    rcases hL e he with h1 | ⟨k, h1⟩ <;> rw [h1] <;> simp
  unfold parts
  rw [hext, hrotated, hcur, List.filterMap_append, List.map_append, filterMap_extOf_all L0 hL0]
  rcases hh with h1 | ⟨k, h1⟩
  · have hg : Dir.get d ⟨none, false⟩ = some f := by
      have := h.get
      rwa [h1] at this
    rw [hg, h1]
    simp [extOf]
  · have hg : Dir.get d ⟨none, false⟩ = none := by
      apply get_none_of_perm d _ h.perm
      intro e he
      rcases List.mem_append.1 he with he | he
      · obtain ⟨k', hk'⟩ := hL0 e he
        rw [hk']; simp
      · simp only [List.mem_singleton] at he
        rw [he, h1]; simp
    rw [hg, h1]
    simp [extOf]

/-- the directory once the buffer has reached the file behind the descriptor -/
def withPending (s : St) : Dir :=
  match s.act with
  | none => s.dir
  | some a => s.dir.append a.handle a.pending

/-- every file holds a contiguous run of whole records, in reading order -/
theorem chron_parts_norot {cfg : Cfg} (hrot : cfg.rot = none) {s : St} {R : List (List Nat)}
    (h : Chron cfg s R) :
    ∃ groups : List (List (List Nat)), groups.flatten = R ∧
      parts (withPending s) = groups.map List.flatten ∧ viewFiles s = groups.map List.flatten ∧
      ((∀ a, s.act = some a → a.pending = []) → parts s.dir = groups.map List.flatten) := by
  obtain ⟨hcfg, h⟩ := h
  unfold withPending viewFiles
  cases hact : s.act with
  | none =>
    rw [hact] at h
    obtain ⟨hd, hR⟩ := h
    refine ⟨[], by simp [hR], ?_, ?_, fun _ => ?_⟩ <;> simp only [hd] <;> rfl
  | some a =>
    rw [hact] at h
    obtain ⟨L0, f, G0, g, hc, hR⟩ := h
    have h1 := parts_norot hrot hc
    have h2 := parts_norot hrot (flush_chron hc)
    refine ⟨G0 ++ [g], by simpa using hR, ?_, ?_, ?_⟩
    · simp only
      rw [show s.dir.append a.handle a.pending = (flushAct s a).1.dir from rfl, h2]
      simp [hc.closed, hc.cur]
    · simp only [h1]
      simp [hc.closed, hc.cur]
    · intro hp
      have hp := hp a rfl
      rw [h1]
      simp [hc.closed, ← hc.cur, hp]

/-! ### the file behind the descriptor has been deleted -/

/-- `L0`, `G0`: the files that are left and the records they hold; the descriptor refers to a
    file that no longer has a name -/
structure Detached (cfg : Cfg) (d : List (FName × File)) (ctr : Nat) (a : Active)
    (L0 : List (FName × File)) (G0 : List (List (List Nat))) : Prop where
  perm : List.Perm d L0
  nodup : (L0.map (·.1)).Nodup
  path : a.path = cnOf cfg
  old : ∀ n ∈ L0.map (·.1), n ≠ cnOf cfg
  gone : ∀ n ∈ L0.map (·.1), n ≠ a.handle
  hne : a.handle ≠ cnOf cfg
  names : ∀ n ∈ L0.map (·.1), NameOK cfg ctr a.idx n
  exts : ((L0.map (·.1)).filterMap extNum).Pairwise (· < ·)
  closed : L0.map (·.2.data) = G0.map List.flatten
  buf : (a.unbuffered = true ∨ cfg.cap = none) → a.pending = []

def Lost (cfg : Cfg) (s : St) (L0 : List (FName × File)) (G0 : List (List (List Nat))) : Prop :=
  s.cfg = cfg ∧ ∃ a, s.act = some a ∧ Detached cfg s.dir s.extCtr a L0 G0

theorem Detached.congr {cfg d ctr a a' L0 G0} (h : Detached cfg d ctr a L0 G0)
    (h1 : a'.handle = a.handle) (h2 : a'.path = a.path) (h3 : a'.idx = a.idx)
    (hb : (a'.unbuffered = true ∨ cfg.cap = none) → a'.pending = []) :
    Detached cfg d ctr a' L0 G0 where
  perm := h.perm
  nodup := h.nodup
  path := by rw [h2]; exact h.path
  old := h.old
  gone := by rw [h1]; exact h.gone
  hne := by rw [h1]; exact h.hne
  names := by rw [h3]; exact h.names
  exts := h.exts
  closed := h.closed
  buf := hb

theorem Detached.get_handle {cfg d ctr a L0 G0} (h : Detached cfg d ctr a L0 G0) :
    Dir.get d a.handle = none :=
  get_none_of_perm d _ h.perm a.handle (fun e he => h.gone e.1 (List.mem_map_of_mem he))

theorem Detached.get_path {cfg d ctr a L0 G0} (h : Detached cfg d ctr a L0 G0) :
    Dir.get d (cnOf cfg) = none :=
  get_none_of_perm d _ h.perm _ (fun e he => h.old e.1 (List.mem_map_of_mem he))

/-- somebody deletes the file behind the descriptor: that file (and the buffer, which can only
    be flushed into it) is gone, every other file is untouched -/
theorem remove_chron {cfg : Cfg} {s : St} {a : Active} {L0 f G0 g} (now : Nat) (fl : Faults)
    (hcfg : s.cfg = cfg) (hact : s.act = some a) (h : ChronAct cfg s.dir s.extCtr a L0 f G0 g) :
    (step s .extRemove now fl).1.dir = s.dir.erase a.handle ∧
    Lost cfg (step s .extRemove now fl).1 L0 G0 := by
  have hhas : s.dir.has a.handle = true := by
    unfold Dir.has
    rw [show s.dir.get a.handle = some f from h.get]
    rfl
  have : (step s .extRemove now fl).1 =
      { s with dir := s.dir.erase a.handle, act := some { a with handle := extN s.extCtr },
               extCtr := s.extCtr + 1 } := by
    simp only [step, hact, hhas]
    rfl
  rw [this]
  refine ⟨rfl, hcfg, _, rfl, ?_⟩
  have hnd := h.nodup
  rw [List.nodup_append] at hnd
  have hex := h.exts
  rw [List.filterMap_append, List.pairwise_append] at hex
  exact {
    perm := by
      have := erase_middle s.dir L0 [] a.handle f h.perm h.nodup'
      simpa using this
    nodup := hnd.1
    path := h.path
    old := h.old
    gone := fun n hn => (h.names n (List.mem_append_left _ hn)).ne_ext
    hne := (cnOf_ne_ext cfg _).symm
    names := fun n hn => (h.names n (List.mem_append_left _ hn)).mono (Nat.le_succ _) (Nat.le_refl _)
    exts := hex.1
    closed := h.closed
    buf := h.buf }

/-- the operations of part A.2 -/
def opA2 : Op → Bool
  | .write _ | .rotate | .flush | .shutdown | .extRename | .reopen | .extRemove => true
  | _ => false

/-- until `reopen_output` is called nothing reaches the directory -/
theorem lost_step {cfg : Cfg} (hrot : cfg.rot = none) {s : St} {L0 G0} (op : Op) (now : Nat)
    (hop : opA2 op = true) (hne : op ≠ .reopen) (h : Lost cfg s L0 G0) :
    Lost cfg (step s op now noFaults).1 L0 G0 := by
  obtain ⟨hcfg, a, hact, hd⟩ := h
  have hrot' : s.cfg.rot = none := by rw [hcfg]; exact hrot
  have hga := hd.get_handle
  cases op with
  | write b =>
    simp only [step]
    rw [writeBuffer_none_rot s a b now hact hrot']
    unfold wrote
    have happ : ∀ x, s.dir.append a.handle x = s.dir := fun x => append_missing s.dir a.handle x hga
    rcases writeRaw_gen s a b (by rw [hcfg]; exact hd.buf) with ⟨hw, hnb⟩ | ⟨x, p', hw, -, hp'⟩
    · rw [hw]
      exact ⟨hcfg, _, rfl, hd.congr rfl rfl rfl (by rw [← hcfg]; exact fun h' => absurd h' hnb)⟩
    · rw [hw, happ]
      exact ⟨hcfg, _, rfl, hd.congr rfl rfl rfl (by rw [← hcfg]; exact hp')⟩
  | rotate =>
    have : (step s .rotate now noFaults).1 = s := by
      simp only [step]
      split
      · rename_i a' r ha hr'
        rw [hrot'] at hr'
        cases hr'
      · rfl
    rw [this]
    exact ⟨hcfg, a, hact, hd⟩
  | flush =>
    have : (step s .flush now noFaults).1 =
        { s with dir := s.dir.append a.handle a.pending, act := some { a with pending := [] } } := by
      simp [step, hact, flushAct]
    rw [this, append_missing s.dir a.handle _ hga]
    exact ⟨hcfg, _, rfl, hd.congr rfl rfl rfl (fun _ => rfl)⟩
  | shutdown =>
    have : (step s .shutdown now noFaults).1 =
        { s with dir := s.dir.append a.handle a.pending, act := some { a with pending := [] } } := by
      simp [step, hact, flushAct]
    rw [this, append_missing s.dir a.handle _ hga]
    exact ⟨hcfg, _, rfl, hd.congr rfl rfl rfl (fun _ => rfl)⟩
  | extRename =>
    have : (step s .extRename now noFaults).1 = s := by
      simp [step, hact, Dir.rename, hga]
    rw [this]
    exact ⟨hcfg, a, hact, hd⟩
  | extRemove =>
    have : (step s .extRemove now noFaults).1 = s := by
      simp [step, hact, Dir.has, hga]
    rw [this]
    exact ⟨hcfg, a, hact, hd⟩
  | reopen => exact absurd rfl hne
  | restart c => cases hop
  | reset c => cases hop

/-- `reopen_output` after the file has been deleted: a new, empty file at the path -/
theorem lost_reopen {cfg : Cfg} {s : St} {L0 G0} (now : Nat) (h : Lost cfg s L0 G0) :
    (step s .reopen now noFaults).1.cfg = cfg ∧
    ∃ a', (step s .reopen now noFaults).1.act = some a' ∧ a'.handle = cnOf cfg ∧
      a'.unbuffered = true ∧
      ChronAct cfg (step s .reopen now noFaults).1.dir (step s .reopen now noFaults).1.extCtr a'
        L0 ⟨[], now⟩ G0 [] := by
  obtain ⟨hcfg, a, hact, hd⟩ := h
  have ho : hit noFaults.openF 0 = false := rfl
  have hga := hd.get_handle
  have hgp := hd.get_path
  have : (step s .reopen now noFaults).1 =
      { s with dir := s.dir.set (cnOf cfg) ⟨[], now⟩,
               act := some { a with pending := [], handle := a.path, unbuffered := true } } := by
    simp only [step, hact, ho, flushAct]
    rw [append_missing s.dir a.handle _ hga]
    simp [hd.path, hgp]
  rw [this]
  refine ⟨hcfg, _, rfl, hd.path, rfl, ?_⟩
  exact {
    perm := by
      simp only [hd.path]
      exact set_fresh s.dir L0 _ _ hd.perm (fun e he => hd.old e.1 (List.mem_map_of_mem he))
    nodup := by
      simp only [hd.path]
      rw [List.nodup_append]
      refine ⟨hd.nodup, by simp, ?_⟩
      intro x hx y hy
      simp only [List.mem_singleton] at hy
      rw [hy]
      exact hd.old x hx
    path := hd.path
    old := hd.old
    names := by
      intro n hn
      rcases List.mem_append.1 hn with hn | hn
      · exact hd.names n hn
      · simp only [List.mem_singleton] at hn
        rw [hn, hd.path]
        exact Or.inl rfl
    exts := by
      simp only [hd.path]
      rw [List.filterMap_append]
      simp only [List.filterMap_cons, extNum_cnOf, List.filterMap_nil, List.append_nil]
      exact hd.exts
    buf := fun _ => rfl
    closed := hd.closed
    cur := rfl }

/-- what is left after the deletion, in reading order -/
theorem parts_detached {cfg : Cfg} (hrot : cfg.rot = none) {d ctr a L0 G0}
    (h : Detached cfg d ctr a L0 G0) : parts d = L0.map (·.2.data) := by
  have hcn := cnOf_none hrot
  have hL0 : ∀ e ∈ L0, ∃ k, e.1 = extN k := by
    intro e he
    have hm : e.1 ∈ L0.map (·.1) := List.mem_map_of_mem he
    rcases (h.names e.1 hm).norot hrot with h1 | h1
    · exact absurd (h1.trans hcn.symm) (h.old e.1 hm)
    · exact h1
  have hext : extAsc d = L0.filterMap extOf :=
    extAsc_of_perm d _ h.perm (exts_pairwise _ h.exts)
  have hrotated : rotatedAsc d = [] := by
    apply rotatedAsc_of_none
    intro e he
    obtain ⟨k, h1⟩ := hL0 e (h.perm.mem_iff.1 he)
    simp [isRot, h1, Infix.rotated]
  have hcur : Dir.get d ⟨some .cur, false⟩ = none := by
    apply get_none_of_perm d _ h.perm
    intro e he
    obtain ⟨k, h1⟩ := hL0 e he
    rw [h1]; simp
  have hpl : Dir.get d ⟨none, false⟩ = none := by
    apply get_none_of_perm d _ h.perm
    intro e he
    obtain ⟨k, h1⟩ := hL0 e he
    rw [h1]; simp
  unfold parts
  rw [hext, hrotated, hcur, hpl, filterMap_extOf_all L0 hL0]
  simp

/-! ### the descriptor stays at the path -/

theorem wrote_chronact {cfg : Cfg} {s : St} {a : Active} {L0 f G0 g} (b : List Nat)
    (hcfg : s.cfg = cfg) (h : ChronAct cfg s.dir s.extCtr a L0 f G0 g) :
    (wrote s a b).cfg = cfg ∧ ∃ a' f', (wrote s a b).act = some a' ∧ a'.handle = a.handle ∧
      a'.unbuffered = a.unbuffered ∧
      ChronAct cfg (wrote s a b).dir (wrote s a b).extCtr a' L0 f' G0 (g ++ [b]) := by
  have hb : (a.unbuffered = true ∨ s.cfg.cap = none) → a.pending = [] := by
    rw [hcfg]; exact h.buf
  rcases writeRaw_gen s a b hb with ⟨hw, hnb⟩ | ⟨x, p', hw, hx, hp'⟩
  · unfold wrote
    rw [hw]
    refine ⟨hcfg, _, f, rfl, rfl, rfl, ?_⟩
    exact h.buffer (a.pending ++ b) b _ _ rfl (by simp) (by rw [← hcfg]; exact fun h' => absurd h' hnb)
      rfl rfl rfl rfl
  · unfold wrote
    rw [hw]
    refine ⟨hcfg, _, ⟨f.data ++ x, f.created⟩, rfl, rfl, rfl, ?_⟩
    exact h.data x p' b _ _ hx (by simp) (by rw [← hcfg]; exact hp') rfl rfl rfl rfl

/-- `L0`, `G0`: the files left behind; the descriptor refers to the file at the path, which
    holds the records `g`; the writer is the unbuffered one installed by `reopen_output` -/
def Stay (cfg : Cfg) (s : St) (L0 : List (FName × File)) (G0 : List (List (List Nat)))
    (g : List (List Nat)) : Prop :=
  s.cfg = cfg ∧ ∃ a f, s.act = some a ∧ a.handle = cnOf cfg ∧ a.unbuffered = true ∧
    ChronAct cfg s.dir s.extCtr a L0 f G0 g

def opStay : Op → Bool
  | .write _ | .rotate | .flush | .shutdown | .reopen => true
  | _ => false

theorem stay_step {cfg : Cfg} (hrot : cfg.rot = none) {s : St} {L0 G0 g} (op : Op) (now : Nat)
    (hop : opStay op = true) (h : Stay cfg s L0 G0 g) :
    Stay cfg (step s op now noFaults).1 L0 G0 (g ++ records [(op, now, noFaults)]) := by
  obtain ⟨hcfg, a, f, hact, hh, hu, hc⟩ := h
  have hrot' : s.cfg.rot = none := by rw [hcfg]; exact hrot
  have hflush : ∀ op', (step s op' now noFaults).1 =
      { s with dir := s.dir.append a.handle a.pending, act := some { a with pending := [] } } →
      Stay cfg (step s op' now noFaults).1 L0 G0 g := by
    intro op' this
    rw [this]
    exact ⟨hcfg, _, _, rfl, hh, hu, flush_chron hc⟩
  cases op with
  | write b =>
    simp only [step]
    rw [writeBuffer_none_rot s a b now hact hrot']
    obtain ⟨h1, a', f', h2, h3, h4, h5⟩ := wrote_chronact b hcfg hc
    exact ⟨h1, a', f', h2, h3.trans hh, h4.trans hu, by simpa [records] using h5⟩
  | rotate =>
    have : (step s .rotate now noFaults).1 = s := by
      simp only [step]
      split
      · rename_i a' r ha hr'
        rw [hrot'] at hr'
        cases hr'
      · rfl
    rw [this]
    exact ⟨hcfg, a, f, hact, hh, hu, by simpa [records] using hc⟩
  | flush =>
    simpa [records] using hflush .flush (by simp [step, hact, flushAct])
  | shutdown =>
    simpa [records] using hflush .shutdown (by simp [step, hact, flushAct])
  | reopen =>
    have hfl := flush_chron hc
    have ho : hit noFaults.openF 0 = false := rfl
    have hg : (s.dir.append a.handle a.pending).get a.path = some ⟨f.data ++ a.pending, f.created⟩ := by
      rw [hc.path, ← hh]
      exact hfl.get
    have : (step s .reopen now noFaults).1 =
        { s with dir := s.dir.append a.handle a.pending,
                 act := some { a with pending := [], handle := a.path, unbuffered := true } } := by
      simp only [step, hact, ho, flushAct]
      simp [hg]
    rw [this]
    refine ⟨hcfg, _, ⟨f.data ++ a.pending, f.created⟩, rfl, hc.path, rfl, ?_⟩
    simp only [records, List.append_nil]
    exact hfl.buffer [] [] g _ (by simp [flushAct]) (by simp) (fun _ => rfl)
      (by simp [flushAct, hc.path, hh]) rfl rfl rfl
  | restart c => cases hop
  | reset c => cases hop
  | extRename => cases hop
  | extRemove => cases hop

theorem stay_run {cfg : Cfg} (hrot : cfg.rot = none) (ops : List (Op × Nat × Faults)) :
    ∀ (s : St) (g : List (List Nat)) {L0 G0}, Stay cfg s L0 G0 g →
      (∀ o ∈ ops, opStay o.1 = true ∧ o.2.2 = noFaults) →
      Stay cfg (runOps s ops) L0 G0 (g ++ records ops) := by
  induction ops with
  | nil => intro s g L0 G0 h _; simpa [records, runOps] using h
  | cons o os ih =>
    intro s g L0 G0 h hops
    obtain ⟨op, now, fl⟩ := o
    obtain ⟨hop, hfl⟩ := hops _ List.mem_cons_self
    simp only at hop hfl
    subst hfl
    have e : records ((op, now, noFaults) :: os) = records [(op, now, noFaults)] ++ records os :=
      records_append [(op, now, noFaults)] os
    rw [e, ← List.append_assoc]
    exact ih _ _ (stay_step hrot op now hop h)
      (fun o' ho' => hops o' (List.mem_cons_of_mem _ ho'))

theorem lost_run {cfg : Cfg} (hrot : cfg.rot = none) (ops : List (Op × Nat × Faults)) :
    ∀ (s : St) {L0 G0}, Lost cfg s L0 G0 →
      (∀ o ∈ ops, opA2 o.1 = true ∧ o.1 ≠ .reopen ∧ o.2.2 = noFaults) →
      Lost cfg (runOps s ops) L0 G0 := by
  induction ops with
  | nil => intro s L0 G0 h _; exact h
  | cons o os ih =>
    intro s L0 G0 h hops
    obtain ⟨op, now, fl⟩ := o
    obtain ⟨hop, hne, hfl⟩ := hops _ List.mem_cons_self
    simp only at hop hne hfl
    subst hfl
    exact ih _ (lost_step hrot op now hop hne h)
      (fun o' ho' => hops o' (List.mem_cons_of_mem _ ho'))

/-! ### the family a history with resets ends in -/

theorem withPending_eq_flush (s : St) (now : Nat) (fl : Faults) :
    withPending s = (step s .flush now fl).1.dir := by
  unfold withPending
  cases hact : s.act <;> simp [step, hact, flushAct]

/-- the state reached by a history with resets is reached by a plain history from the `Initial`
    state the last reset (or the start) left -/
theorem last_family (ops : List (Op × Nat × Faults)) :
    ∀ (s0 : St) (seg : List (Op × Nat × Faults)), GoodCfg s0.cfg → s0.act = none → s0.dir = [] →
      (∀ o ∈ seg, o.1.plain = true ∧ o.2.2 = noFaults) →
      (∀ o ∈ ops, ResetOp o.1 ∧ o.2.2 = noFaults) → Monotone (seg ++ ops) →
      ∃ (s0' : St) (seg' : List (Op × Nat × Faults)), GoodCfg s0'.cfg ∧ s0'.act = none ∧
        s0'.dir = [] ∧ PlainHistory seg' ∧ runOps s0 (seg ++ ops) = runOps s0' seg' := by
  induction ops with
  | nil =>
    intro s0 seg hg hact hdir hseg _ hmono
    rw [List.append_nil] at *
    exact ⟨s0, seg, hg, hact, hdir, ⟨hseg, hmono⟩, rfl⟩
  | cons o os ih =>
    intro s0 seg hg hact hdir hseg hops hmono
    obtain ⟨ho, hfl⟩ := hops o List.mem_cons_self
    have hos : ∀ o' ∈ os, ResetOp o'.1 ∧ o'.2.2 = noFaults :=
      fun o' h' => hops o' (List.mem_cons_of_mem _ h')
    rcases ho with hpl | ⟨c, hc, hgc⟩
    · have e : seg ++ o :: os = (seg ++ [o]) ++ os := by simp
      rw [e] at hmono ⊢
      apply ih s0 (seg ++ [o]) hg hact hdir _ hos hmono
      intro o' h'
      rcases List.mem_append.1 h' with h' | h'
      · exact hseg o' h'
      · simp only [List.mem_singleton] at h'
        subst h'
        exact ⟨hpl, hfl⟩
    · obtain ⟨op, now, fl⟩ := o
      simp only at hc hfl
      subst hc hfl
      have e2 : runOps s0 (seg ++ (Op.reset c, now, noFaults) :: os) =
          runOps (step (runOps s0 seg) (.reset c) now noFaults).1 ([] ++ os) := by
        rw [runOps_append]; rfl
      rw [e2, step_reset_eq]
      have hmono' : Monotone ([] ++ os) := by
        have := monotone_append_right hmono
        have e : (Op.reset c, now, noFaults) :: os = [(Op.reset c, now, noFaults)] ++ os := rfl
        rw [e] at this
        exact monotone_append_right this
      exact ih _ [] hgc rfl rfl (by simp) hos hmono'

/-- within a family, flushing puts the buffer at the end of the last file in reading order -/
theorem family_flush (s0 : St) (hg : GoodCfg s0.cfg) (hact : s0.act = none) (hdir : s0.dir = [])
    (seg : List (Op × Nat × Faults)) (hp : PlainHistory seg) :
    parts (withPending (runOps s0 seg)) = viewFiles (runOps s0 seg) := by
  have hseg' : PlainHistory (seg ++ [(Op.flush, 0, noFaults)]) := by
    refine ⟨?_, monotone_snoc_noclock hp.2 rfl⟩
    intro o' h'
    rcases List.mem_append.1 h' with h' | h'
    · exact hp.1 o' h'
    · simp only [List.mem_singleton] at h'
      subst h'
      exact ⟨rfl, rfl⟩
  obtain ⟨-, hv⟩ := family_run s0.cfg hg s0 rfl hact hdir _ hseg'
  obtain ⟨-, hv0⟩ := family_run s0.cfg hg s0 rfl hact hdir _ hp
  have e1 : runOps s0 (seg ++ [(Op.flush, 0, noFaults)]) =
      (step (runOps s0 seg) .flush 0 noFaults).1 := by
    rw [runOps_append]; rfl
  rw [e1] at hv
  have hparts := viewFiles_no_pending _ (step_flush_pending (runOps s0 seg) 0 noFaults)
  rw [withPending_eq_flush _ 0 noFaults, ← hparts, hv, hv0]
  -- the abstract files do not change with a flush
  show (Abs.run s0.cfg.rot Abs.init (seg ++ [(Op.flush, 0, noFaults)])).files = _
  unfold Abs.run
  rw [List.foldl_append]
  rfl

/-! ### rotation while files are moved away (`numbers` / `timestamps`) -/

theorem openFile_new' (s : St) (n : FName) (now : Nat) (h : s.dir.get n = none) :
    ∃ s', openFile s n now noFaults 0 = (s', true) ∧ s'.cfg = s.cfg ∧
      s'.dir = s.dir.set n ⟨[], now⟩ ∧ s'.act = s.act ∧ s'.extCtr = s.extCtr := by
  unfold openFile
  by_cases hs : s.cfg.symlink = true <;> simp [hs, hit, noFaults, h]

/-- the descriptor after the rename of `rCURRENT` (it follows the file) -/
def movedHandle (a : Active) (renamed : Bool) (t : FName) : FName :=
  if renamed && a.handle = curN then t else a.handle

theorem mountNextCore_numbers_gen (s : St) (a : Active) (r : RotCfg) (force : Bool) (now : Nat)
    (hn : r.naming = .numbers) (hcl : r.cleanup = none)
    (h : (force || rotationNecessary r a now) = true) (d1 : Dir) (renamed : Bool)
    (hren : s.dir.rename curN ⟨some (.num a.idx), false⟩ = (d1, renamed))
    (hget : d1.get curN = none) :
    ∃ s', mountNextCore s a r force now noFaults =
        (s', ⟨curN, curN, [], false, if renamed then a.idx + 1 else a.idx, a.stamp, 0,
          createdOr s'.dir curN now⟩, false) ∧ s'.cfg = s.cfg ∧ s'.extCtr = s.extCtr ∧
      s'.dir = (d1.set curN ⟨[], now⟩).append (movedHandle a renamed ⟨some (.num a.idx), false⟩)
        a.pending := by
  obtain ⟨s2, ho, hc2, hd2, -, he2⟩ := openFile_new' { s with dir := d1 } curN now hget
  have hr0 : hit noFaults.renameF 0 = false := rfl
  let h' := movedHandle a renamed ⟨some (.num a.idx), false⟩
  refine ⟨{ s2 with dir := s2.dir.append h' a.pending }, ?_, hc2, he2, by simp [hd2, h']⟩
  cases renamed <;> by_cases hh : a.handle = curN <;>
    simp [mountNextCore, h, hn, hr0, hren, hh, ho, flushAct, cleanup, hcl, movedHandle, h']

theorem mountNextCore_timestamps_gen (s : St) (a : Active) (r : RotCfg) (force : Bool) (now : Nat)
    (hn : r.naming = .timestamps) (hcl : r.cleanup = none)
    (h : (force || rotationNecessary r a now) = true) (d1 : Dir) (renamed : Bool)
    (hren : s.dir.rename curN ⟨some (collisionFree s.dir a.stamp), false⟩ = (d1, renamed))
    (hget : d1.get curN = none) :
    ∃ s', mountNextCore s a r force now noFaults =
        (s', ⟨curN, curN, [], false, a.idx, now, 0, createdOr s'.dir curN now⟩, false) ∧
      s'.cfg = s.cfg ∧ s'.extCtr = s.extCtr ∧
      s'.dir = (d1.set curN ⟨[], now⟩).append
        (movedHandle a renamed ⟨some (collisionFree s.dir a.stamp), false⟩) a.pending := by
  obtain ⟨s2, ho, hc2, hd2, -, he2⟩ := openFile_new' { s with dir := d1 } curN now hget
  have hr0 : hit noFaults.renameF 0 = false := rfl
  have hcr : createdOr d1 curN now = now := by simp [createdOr, hget]
  let h' := movedHandle a renamed ⟨some (collisionFree s.dir a.stamp), false⟩
  refine ⟨{ s2 with dir := s2.dir.append h' a.pending }, ?_, hc2, he2, by simp [hd2, h']⟩
  cases renamed <;> by_cases hh : a.handle = curN <;>
    simp [mountNextCore, h, hn, hr0, hren, hh, ho, flushAct, cleanup, hcl, movedHandle, h', hcr]

theorem ChronAct.nodup_snoc {cfg d ctr a L0 f G0 g} (h : ChronAct cfg d ctr a L0 f G0 g)
    (hne : a.handle ≠ cnOf cfg) (f' new : File) :
    ((L0 ++ (a.handle, f') :: [(cnOf cfg, new)]).map (·.1)).Nodup := by
  have : (L0 ++ (a.handle, f') :: [(cnOf cfg, new)]).map (·.1) =
      (L0.map (·.1) ++ [a.handle]) ++ [cnOf cfg] := by simp
  rw [this, List.nodup_append]
  refine ⟨h.nodup, by simp, ?_⟩
  intro x hx y hy
  simp only [List.mem_singleton] at hy
  rw [hy]
  rcases List.mem_append.1 hx with hx | hx
  · exact h.old x hx
  · simp only [List.mem_singleton] at hx
    rw [hx]
    exact hne

/-- a rotation while the descriptor is not at the path: new file first, then the flush -/
theorem ChronAct.switch_perm {cfg d ctr a L0 f G0 g} (h : ChronAct cfg d ctr a L0 f G0 g)
    (hne : a.handle ≠ cnOf cfg) (new : File) :
    List.Perm (Dir.append (Dir.set d (cnOf cfg) new) a.handle a.pending)
      (L0 ++ [(a.handle, ⟨f.data ++ a.pending, f.created⟩)] ++ [(cnOf cfg, new)]) := by
  have h1 : List.Perm (Dir.set d (cnOf cfg) new) (L0 ++ (a.handle, f) :: [(cnOf cfg, new)]) := by
    have := set_fresh d _ (cnOf cfg) new h.perm (by
      intro e he
      rcases List.mem_append.1 he with he | he
      · exact h.old e.1 (List.mem_map_of_mem he)
      · simp only [List.mem_singleton] at he
        rw [he]
        exact hne)
    simpa using this
  have := append_middle _ L0 [(cnOf cfg, new)] a.handle f a.pending h1 (h.nodup_snoc hne f new)
  simpa using this

theorem rotate_chron {cfg d ctr a L0 f G0 g} (hc : ChronAct cfg d ctr a L0 f G0 g)
    (hcur : cnOf cfg = curN) (hsome : cfg.rot.isSome = true)
    (ti : Infix) (idxR : Nat) (new : File) (hnew : new.data = [])
    (hrot : ti.rotated = true) (hfresh : ∀ n ∈ L0.map (·.1), n ≠ ⟨some ti, false⟩)
    (hidx : a.idx ≤ idxR) (hnum : ∀ m, ti = .num m → m < idxR) :
    ∃ d1 renamed, Dir.rename d curN ⟨some ti, false⟩ = (d1, renamed) ∧ Dir.get d1 curN = none ∧
      ∀ a' : Active, a'.handle = curN → a'.path = curN → a'.pending = [] →
        a'.idx = (if renamed then idxR else a.idx) →
        ∃ L0', ChronAct cfg
          (Dir.append (Dir.set d1 curN new) (movedHandle a renamed ⟨some ti, false⟩) a.pending)
          ctr a' L0' new (G0 ++ [g]) [] := by
  have htne : (⟨some ti, false⟩ : FName) ≠ cnOf cfg := by
    rw [hcur]
    intro h
    cases h
    simp [Infix.rotated] at hrot
  by_cases hh : a.handle = curN
  · -- `rCURRENT` is the file behind the descriptor: it is renamed, the descriptor follows
    obtain ⟨d1, hren, hc1⟩ := hc.renameHandle ⟨some ti, false⟩ ctr
      { a with handle := ⟨some ti, false⟩, idx := idxR } hfresh
      (Or.inr (Or.inr ⟨ti, rfl, hrot, hsome, hnum⟩)) (Nat.le_refl _) hidx
      (by intro k hk; cases ti <;> simp [extNum, Infix.rotated] at hk hrot) rfl rfl rfl rfl
    rw [hh] at hren
    refine ⟨d1, true, hren, ?_, ?_⟩
    · apply get_none_of_perm d1 _ hc1.perm
      intro e he
      rcases List.mem_append.1 he with he | he
      · rw [← hcur]; exact hc.old e.1 (List.mem_map_of_mem he)
      · simp only [List.mem_singleton] at he
        rw [he, ← hcur]
        exact htne
    · intro a' h1 h2 h3 h4
      have hm : movedHandle a true ⟨some ti, false⟩ = ⟨some ti, false⟩ := by
        simp [movedHandle, hh]
      rw [hm]
      refine ⟨_, hc1.switch _ new a' htne ?_ hnew (by simp [h4]) (h1.trans hcur.symm)
        (h2.trans hcur.symm) h3⟩
      have := hc1.switch_perm htne new
      rw [hcur] at this ⊢
      exact this
  · -- the file behind the descriptor has been moved away: there is no `rCURRENT`
    have hne : a.handle ≠ cnOf cfg := by rw [hcur]; exact hh
    have hget : Dir.get d curN = none := by
      apply get_none_of_perm d _ hc.perm
      intro e he
      rcases List.mem_append.1 he with he | he
      · rw [← hcur]; exact hc.old e.1 (List.mem_map_of_mem he)
      · simp only [List.mem_singleton] at he
        rw [he]
        exact hh
    refine ⟨d, false, by simp [Dir.rename, hget], hget, ?_⟩
    intro a' h1 h2 h3 h4
    have hm : movedHandle a false ⟨some ti, false⟩ = a.handle := by simp [movedHandle]
    rw [hm]
    refine ⟨_, hc.switch _ new a' hne ?_ hnew (by simp [h4]) (h1.trans hcur.symm)
      (h2.trans hcur.symm) h3⟩
    have := hc.switch_perm hne new
    rw [hcur] at this ⊢
    exact this

theorem initState_rot {cfg : Cfg} (hc : CfgA cfg) (s : St) (now : Nat) (r : RotCfg)
    (hcfg : s.cfg = cfg) (hd : s.dir = []) (hr : cfg.rot = some r) :
    ∃ s1 a1, initState s now noFaults = (s1, true) ∧ s1.cfg = cfg ∧ s1.act = some a1 ∧
      s1.dir = [(curN, ⟨[], now⟩)] ∧ a1.handle = curN ∧ a1.path = curN ∧ a1.pending = [] := by
  obtain ⟨happ, hcl, hnm⟩ := hc
  obtain ⟨dir, scfg, sact, link, linkGen, errs, extCtr, archived⟩ := s
  simp only at hcfg hd
  subst hcfg hd
  have hr0 : hit noFaults.renameF 0 = false := rfl
  have hcl := hcl r hr
  obtain ⟨s1, ho, hc1, hd1, -⟩ := openFile_new
    ⟨[], scfg, sact, link, linkGen, errs, extCtr, archived⟩ curN now rfl
  have hcr : createdOr (Dir.set [] curN ⟨[], now⟩) curN now = now := by
    have := get_set_self ([] : Dir) curN ⟨[], now⟩
    simp [createdOr, this]
  simp only at hd1 hc1
  have happ1 : s1.cfg.append = false := by rw [hc1]; exact happ
  rcases hnm r hr with hn | hn
  · refine ⟨{ s1 with act := some ⟨curN, curN, [], false, 0, 0, 0, now⟩ }, _, ?_, hc1, rfl, ?_,
      rfl, rfl, rfl⟩
    · simp [initState, hr, hn, happ, happ1, hr0, highestIndex, rename_nil, ho, cleanup, hcl, hd1, hcr]
    · simp only [hd1]; rfl
  · refine ⟨{ s1 with act := some ⟨curN, curN, [], false, 0, now, 0, now⟩ }, _, ?_, hc1, rfl, ?_,
      rfl, rfl, rfl⟩
    · simp [initState, hr, hn, happ, happ1, hr0, rename_nil, ho, cleanup, hcl, hd1, hcr]
    · simp only [hd1]; rfl

/-- the rotation proper closes the group of the file behind the descriptor — wherever
    that file is — and opens a new file at the path -/
theorem mountNextCore_chron {cfg : Cfg} (hc : CfgA cfg) {s : St} {a : Active} {L0 f G0 g}
    (r : RotCfg) (force : Bool) (now : Nat) (hcfg : s.cfg = cfg) (hr : cfg.rot = some r)
    (hca : ChronAct cfg s.dir s.extCtr a L0 f G0 g)
    (h : (force || rotationNecessary r a now) = true) :
    ∃ s' a' L0' f' G0' g', mountNextCore s a r force now noFaults = (s', a', false) ∧ s'.cfg = cfg ∧
      ChronAct cfg s'.dir s'.extCtr a' L0' f' G0' g' ∧ G0'.flatten ++ g' = G0.flatten ++ g := by
  obtain ⟨-, hcl, hnm⟩ := hc
  have hcl := hcl r hr
  have hcur : cnOf cfg = curN := cnOf_some hr
  have hsome : cfg.rot.isSome = true := by simp [hr]
  rcases hnm r hr with hn | hn
  · obtain ⟨d1, renamed, hren, hget, hall⟩ := rotate_chron hca hcur hsome (.num a.idx) (a.idx + 1)
      ⟨[], now⟩ rfl rfl
      (by
        intro n hn'
        rcases hca.names n (List.mem_append_left _ hn') with h1 | ⟨k, h1, -⟩ | ⟨i, h1, -, -, h2⟩
        · rw [h1, hcur]; simp
        · rw [h1]; simp [extN]
        · rw [h1]
          intro heq
          cases heq
          exact absurd (h2 a.idx rfl) (Nat.lt_irrefl _))
      (Nat.le_succ _) (by intro m hm; cases hm; exact Nat.lt_succ_self _)
    obtain ⟨s', he, hc', hx', hd'⟩ := mountNextCore_numbers_gen s a r force now hn hcl h d1 renamed hren hget
    obtain ⟨L0', hca'⟩ := hall ⟨curN, curN, [], false, if renamed then a.idx + 1 else a.idx,
      a.stamp, 0, createdOr s'.dir curN now⟩ rfl rfl rfl rfl
    refine ⟨s', _, L0', ⟨[], now⟩, G0 ++ [g], [], he, hc'.trans hcfg, ?_, by simp⟩
    rw [← hd', ← hx'] at hca'
    exact hca'
  · obtain ⟨rr, hti⟩ := collisionFree_ts s.dir a.stamp
    obtain ⟨d1, renamed, hren, hget, hall⟩ := rotate_chron hca hcur hsome
      (collisionFree s.dir a.stamp) a.idx ⟨[], now⟩ rfl (by rw [hti]; rfl)
      (by
        intro n hn'
        obtain ⟨e, he, rfl⟩ := List.mem_map.1 hn'
        have hmem : e ∈ ents s.dir := hca.perm.mem_iff.2 (List.mem_append_left _ he)
        have := collisionFree_fresh s.dir a.stamp e hmem
        intro heq
        apply this
        rw [heq])
      (Nat.le_refl _) (by rw [hti]; intro m hm; cases hm)
    obtain ⟨s', he, hc', hx', hd'⟩ :=
      mountNextCore_timestamps_gen s a r force now hn hcl h d1 renamed hren hget
    obtain ⟨L0', hca'⟩ := hall ⟨curN, curN, [], false, a.idx, now, 0, createdOr s'.dir curN now⟩
      rfl rfl rfl (by cases renamed <;> rfl)
    refine ⟨s', _, L0', ⟨[], now⟩, G0 ++ [g], [], he, hc'.trans hcfg, ?_, by simp⟩
    rw [← hd', ← hx'] at hca'
    exact hca'

/-- a rotation (forced or due) flushes the buffer into the file behind the descriptor, closes
    the group of that file — wherever it is — and opens a new file at the path -/
theorem mountNext_chron {cfg : Cfg} (hc : CfgA cfg) {s : St} {a : Active} {L0 f G0 g}
    (r : RotCfg) (force : Bool) (now : Nat) (hcfg : s.cfg = cfg) (hr : cfg.rot = some r)
    (hca : ChronAct cfg s.dir s.extCtr a L0 f G0 g)
    (h : (force || rotationNecessary r a now) = true) :
    ∃ s' a' L0' f' G0' g', mountNext s a r force now noFaults = (s', a', false) ∧ s'.cfg = cfg ∧
      ChronAct cfg s'.dir s'.extCtr a' L0' f' G0' g' ∧ G0'.flatten ++ g' = G0.flatten ++ g := by
  rw [mountNext_due s a r force now noFaults h]
  exact mountNextCore_chron hc (s := (flushAct s a).1) (a := (flushAct s a).2) r true now hcfg hr
    (flush_chron hca) rfl

/-- `write_buffer` on a mounted rotating writer -/
theorem write_some_chron {cfg : Cfg} (hc : CfgA cfg) {s : St} {a : Active} {L0 f G0 g}
    (r : RotCfg) (b : List Nat) (now : Nat) (hcfg : s.cfg = cfg) (hr : cfg.rot = some r)
    (hact : s.act = some a) (hca : ChronAct cfg s.dir s.extCtr a L0 f G0 g) :
    Chron cfg (writeBuffer s b now noFaults).1 (G0.flatten ++ g ++ [b]) := by
  have hr' : s.cfg.rot = some r := by rw [hcfg]; exact hr
  by_cases hnec : rotationNecessary r a now = true
  · obtain ⟨s2, a2, L0', f', G0', g', hm, hc2, hca2, hR⟩ :=
      mountNext_chron hc r false now hcfg hr hca (by simp [hnec])
    rw [writeBuffer_some_rot s a b now r s2 a2 hact hr' hm, ← hR]
    exact wrote_chron b hc2 hca2
  · have hm := mountNext_skip s a r false now noFaults (by simpa using hnec)
    rw [writeBuffer_some_rot s a b now r s a hact hr' hm]
    exact wrote_chron b hcfg hca

theorem write_chron_rot {cfg : Cfg} (hc : CfgA cfg) (r : RotCfg) (hr : cfg.rot = some r) {s : St}
    {R : List (List Nat)} (b : List Nat) (now : Nat) (h : Chron cfg s R) :
    Chron cfg (step s (.write b) now noFaults).1 (R ++ [b]) := by
  obtain ⟨hcfg, h⟩ := h
  simp only [step]
  cases hact : s.act with
  | none =>
    rw [hact] at h
    obtain ⟨hd, hR⟩ := h
    obtain ⟨s1, a1, hi, hc1, ha1, hd1, hh1, hp1, hpe1⟩ := initState_rot hc s now r hcfg hd hr
    rw [writeBuffer_init s s1 a1 b now hact hi ha1]
    have hcn : cnOf cfg = curN := cnOf_some hr
    have hca : ChronAct cfg s1.dir s1.extCtr a1 [] ⟨[], now⟩ [] [] :=
      chron_first now (by rw [hd1, hcn]) (hh1.trans hcn.symm) (hp1.trans hcn.symm) hpe1
    have := write_some_chron hc r b now hc1 hr ha1 hca
    rw [hR]
    simpa using this
  | some a =>
    rw [hact] at h
    obtain ⟨L0, f, G0, g, hca, hR⟩ := h
    rw [← hR]
    exact write_some_chron hc r b now hcfg hr hact hca

theorem rotate_step_chron {cfg : Cfg} (hc : CfgA cfg) (r : RotCfg) (hr : cfg.rot = some r)
    {s : St} {R : List (List Nat)} (now : Nat) (h : Chron cfg s R) :
    Chron cfg (step s .rotate now noFaults).1 R := by
  obtain ⟨hcfg, h⟩ := h
  cases hact : s.act with
  | none =>
    have : (step s .rotate now noFaults).1 = s := by simp [step, hact]
    rw [this]
    refine ⟨hcfg, ?_⟩
    rw [hact] at h ⊢
    exact h
  | some a =>
    rw [hact] at h
    obtain ⟨L0, f, G0, g, hca, hR⟩ := h
    obtain ⟨s2, a2, L0', f', G0', g', hm, hc2, hca2, hR2⟩ :=
      mountNext_chron hc r true now hcfg hr hca rfl
    have : (step s .rotate now noFaults).1 = { s2 with act := some a2 } := by
      simp [step, hact, hcfg, hr, hm]
    rw [this]
    exact Chron.of_act hc2 rfl hca2 (hR2.trans hR)

/-- every operation of part C keeps the chronological invariant, for every configuration of
    `CfgA` (no rotation, `numbers`, `timestamps`) -/
theorem step_chron {cfg : Cfg} (hc : CfgA cfg) {s : St} {R : List (List Nat)}
    (op : Op) (now : Nat) (hop : opA1 op = true) (h : Chron cfg s R) :
    Chron cfg (step s op now noFaults).1 (R ++ records [(op, now, noFaults)]) := by
  cases hr : cfg.rot with
  | none => exact step_chron_none hr op now hop h
  | some r =>
    cases op with
    | write b => exact write_chron_rot hc r hr b now h
    | rotate => simpa [records] using rotate_step_chron hc r hr now h
    | flush => simpa [records] using flush_step_chron now noFaults h
    | shutdown =>
      rw [step_shutdown_eq]
      simpa [records] using flush_step_chron now noFaults h
    | extRename => simpa [records] using extRename_chron now noFaults h
    | reopen => simpa [records] using reopen_chron now h
    | restart c => cases hop
    | reset c => cases hop
    | extRemove => cases hop

theorem run_chron {cfg : Cfg} (hc : CfgA cfg) (ops : List (Op × Nat × Faults)) :
    ∀ (s : St) (R : List (List Nat)), Chron cfg s R →
      (∀ o ∈ ops, opA1 o.1 = true ∧ o.2.2 = noFaults) →
      Chron cfg (runOps s ops) (R ++ records ops) := by
  induction ops with
  | nil => intro s R h _; simpa [records, runOps] using h
  | cons o os ih =>
    intro s R h hops
    obtain ⟨op, now, fl⟩ := o
    obtain ⟨hop, hfl⟩ := hops _ List.mem_cons_self
    simp only at hop hfl
    subst hfl
    have e : records ((op, now, noFaults) :: os) = records [(op, now, noFaults)] ++ records os :=
      records_append [(op, now, noFaults)] os
    rw [e, ← List.append_assoc]
    exact ih _ _ (step_chron hc op now hop h)
      (fun o' ho' => hops o' (List.mem_cons_of_mem _ ho'))

/-- the data of every file of the directory, the buffer appended to the file the descriptor
    refers to -/
def allFilesWithPending (s : St) : List (List Nat) :=
  match s.act with
  | none => List.map (fun e => e.2.data) s.dir
  | some a => List.map (fun e => if e.1 = a.handle then e.2.data ++ a.pending else e.2.data) s.dir

theorem chron_files {cfg : Cfg} {s : St} {R : List (List Nat)} (h : Chron cfg s R) :
    ∃ groups : List (List (List Nat)), groups.flatten = R ∧
      (groups.map List.flatten).Perm (allFilesWithPending s) := by
  obtain ⟨hcfg, h⟩ := h
  unfold allFilesWithPending
  cases hact : s.act with
  | none =>
    rw [hact] at h
    obtain ⟨hd, hR⟩ := h
    refine ⟨[], by simp [hR], ?_⟩
    simp only [hd]
    exact List.Perm.refl _
  | some a =>
    rw [hact] at h
    obtain ⟨L0, f, G0, g, hc, hR⟩ := h
    refine ⟨G0 ++ [g], by simpa using hR, ?_⟩
    simp only
    refine List.Perm.trans ?_ (hc.perm.map _).symm
    have hL0 : L0.map (fun e => if e.1 = a.handle then e.2.data ++ a.pending else e.2.data) =
        L0.map (·.2.data) := by
      apply List.map_congr_left
      intro e he
      have hnd := hc.nodup
      rw [List.nodup_append] at hnd
      have : e.1 ≠ a.handle := hnd.2.2 e.1 (List.mem_map_of_mem he) a.handle (by simp)
      simp [this]
    rw [List.map_append, List.map_append, hL0, hc.closed]
    simp [hc.cur]

/-! ### `withPending` by names -/

/-- `Dir.append` changes the data of the named file only (and nothing if there is no such file) -/
theorem get_append (d : Dir) (h n : FName) (p : List Nat) :
    (d.append h p).get n =
      if n = h then (d.get h).map (fun f => ⟨f.data ++ p, f.created⟩) else d.get n := by
  cases hg : d.get h with
  | none =>
    rw [append_missing d h p hg]
    by_cases hn : n = h
    · simp [hn, hg]
    · simp [hn]
  | some f =>
    rw [append_of_get d h f p hg]
    by_cases hn : n = h
    · simp [hn]
    · simp [hn, get_set_ne _ _ _ _ hn]

/-- `withPending s` has the files of `s.dir` under the same names; the file the descriptor refers
    to has the content of the buffer appended to its data -/
theorem withPending_get (s : St) (n : FName) :
    (withPending s).get n =
      match s.act with
      | none => s.dir.get n
      | some a =>
        if n = a.handle then (s.dir.get n).map (fun f => ⟨f.data ++ a.pending, f.created⟩)
        else s.dir.get n := by
  unfold withPending
  cases hact : s.act with
  | none => rfl
  | some a =>
    simp only
    rw [get_append]
    by_cases hn : n = a.handle
    · simp [hn]
    · simp [hn]

theorem withPending_of_empty (s : St) (hn : ∀ a, s.act = some a → a.pending = []) (n : FName) :
    (withPending s).get n = s.dir.get n := by
  rw [withPending_get]
  cases hact : s.act with
  | none => rfl
  | some a =>
    simp only [hn a hact, List.append_nil]
    split
    · cases s.dir.get n <;> rfl
    · rfl

end FV.Reopen
