import FlexiVerif.Model.Spec
/-
  Helper lemmas about the `Spec` model (sorting, prefixes, first-match search).
-/
namespace FV.Spec
open FV

theorem utf8Len_pos (c : Char) : 0 < utf8Len c := by
  unfold utf8Len; simp only []; split <;> (try split) <;> (try split) <;> omega

theorem blen_nil : blen [] = 0 := rfl
theorem blen_cons (c : Char) (s : List Char) : blen (c :: s) = utf8Len c + blen s := by
  simp [blen]
theorem blen_append (a b : List Char) : blen (a ++ b) = blen a + blen b := by
  induction a with
  | nil => simp [blen]
  | cons c cs ih => simp [blen_cons, ih]; omega

theorem blen_eq_zero {s : List Char} (h : blen s = 0) : s = [] := by
  cases s with
  | nil => rfl
  | cons c cs => have := utf8Len_pos c; rw [blen_cons] at h; omega

/-- two prefixes of the same text with the same byte length are equal -/
theorem prefix_same_blen {a b t : List Char} (ha : a <+: t) (hb : b <+: t)
    (h : blen a = blen b) : a = b := by
  rcases Nat.le_total a.length b.length with hl | hl
  · obtain ⟨c, rfl⟩ := List.prefix_of_prefix_length_le ha hb hl
    rw [blen_append] at h
    have : c = [] := blen_eq_zero (by omega)
    simp [this]
  · obtain ⟨c, rfl⟩ := List.prefix_of_prefix_length_le hb ha hl
    rw [blen_append] at h
    have : c = [] := blen_eq_zero (by omega)
    simp [this]

theorem enabled_first (l : List MF) (lv : Nat) (t : List Char) :
    enabled l lv t = match l.find? (matchesT · t) with
      | none => false
      | some m => decide (lv ≤ m.lvl) := by
  induction l with
  | nil => rfl
  | cons m ms ih => simp only [enabled, List.find?]; split <;> simp_all

theorem ins_perm (m : MF) (l : List MF) : (ins m l).Perm (m :: l) := by
  induction l with
  | nil => simp [ins]
  | cons x xs ih =>
    simp only [ins]; split
    · exact List.Perm.refl _
    · exact (List.Perm.cons x ih).trans (List.Perm.swap m x xs)

theorem levelSort_perm (l : List MF) : (levelSort l).Perm l := by
  induction l with
  | nil => exact List.Perm.refl _
  | cons m ms ih => exact (ins_perm m _).trans (List.Perm.cons m ih)

def Sorted (l : List MF) : Prop := l.Pairwise (fun a b => nlen b ≤ nlen a)

theorem ins_sorted (m : MF) (l : List MF) (hs : Sorted l) : Sorted (ins m l) := by
  unfold Sorted at *
  induction l with
  | nil => simp [ins]
  | cons x xs ih =>
    rw [List.pairwise_cons] at hs
    simp only [ins]; split
    · rename_i hle
      refine List.pairwise_cons.mpr ⟨?_, List.pairwise_cons.mpr hs⟩
      intro b hb
      rcases List.mem_cons.mp hb with rfl | hb
      · exact hle
      · have := hs.1 b hb; omega
    · rename_i hgt
      refine List.pairwise_cons.mpr ⟨?_, ih hs.2⟩
      intro b hb
      have := (ins_perm m xs).mem_iff.mp hb
      rcases List.mem_cons.mp this with rfl | hb
      · omega
      · exact hs.1 b hb

theorem levelSort_sorted (l : List MF) : Sorted (levelSort l) := by
  induction l with
  | nil => simp [levelSort, Sorted]
  | cons m ms ih => exact ins_sorted m _ ih

/-- inserting in front of an already sorted list whose elements are all not longer: no move -/
theorem ins_of_le (m : MF) (l : List MF) (h : ∀ x ∈ l, nlen x ≤ nlen m) : ins m l = m :: l := by
  cases l with
  | nil => rfl
  | cons x xs => simp [ins, h x (by simp)]

/-- `levelSort` is the identity on lists that are already sorted -/
theorem levelSort_of_sorted (l : List MF) (hs : Sorted l) : levelSort l = l := by
  induction l with
  | nil => rfl
  | cons m ms ih =>
    unfold Sorted at hs
    rw [List.pairwise_cons] at hs
    simp only [levelSort, ih hs.2]
    exact ins_of_le m ms hs.1

theorem maxLevel_foldl_ge (fs : List MF) (a : Nat) : a ≤ fs.foldl (fun a m => max a m.lvl) a := by
  induction fs generalizing a with
  | nil => simp
  | cons m ms ih => simp only [List.foldl]; exact Nat.le_trans (Nat.le_max_left _ _) (ih _)

theorem maxLevel_foldl_mem (fs : List MF) (a : Nat) (m : MF) (hm : m ∈ fs) :
    m.lvl ≤ fs.foldl (fun a m => max a m.lvl) a := by
  induction fs generalizing a with
  | nil => simp at hm
  | cons x xs ih =>
    simp only [List.foldl]
    rcases List.mem_cons.mp hm with rfl | h
    · exact Nat.le_trans (Nat.le_max_right _ _) (maxLevel_foldl_ge xs _)
    · exact ih _ h

theorem le_maxLevel (fs : List MF) (m : MF) (hm : m ∈ fs) : m.lvl ≤ maxLevel fs :=
  maxLevel_foldl_mem fs 0 m hm

theorem foldl_max_ge (l : List Nat) (a : Nat) : a ≤ l.foldl max a := by
  induction l generalizing a with
  | nil => simp
  | cons x xs ih => simp only [List.foldl]; exact Nat.le_trans (Nat.le_max_left _ _) (ih _)

theorem foldl_max_mem (l : List Nat) (a x : Nat) (hx : x ∈ l) : x ≤ l.foldl max a := by
  induction l generalizing a with
  | nil => simp at hx
  | cons y ys ih =>
    simp only [List.foldl]
    rcases List.mem_cons.mp hx with rfl | h
    · exact Nat.le_trans (Nat.le_max_right _ _) (foldl_max_ge ys _)
    · exact ih _ h

end FV.Spec
