/-
  Crash points (C11): an instrumented copy of the effectful functions of `Model/Flw.lean` that
  additionally records, in execution order, every named point of the code between two
  file-system effects together with the directory as it is on disk at that point
  (`src/verif_hooks.rs::point`, the call sites in `state.rs`, `numbers.rs`, `timestamps.rs`,
  `list_and_cleanup.rs`). A process killed at the k-th hit of a point leaves exactly the recorded
  directory behind (direct write mode: no user-space buffer).

  No faults here (`noFaults`); the un-instrumented functions are the first projection
  (`Lemmas/FlwCrash.lean`).
-/
import FlexiVerif.Model.Flw
namespace FV.Flw

/-- one recorded point: hook name and the directory on disk at that moment -/
structure Pt where
  name : String
  dir : Dir
  link : Option FName

def pt (name : String) (s : St) : Pt := ⟨name, s.dir, s.link⟩

/-- `open_log_file` with its points; the symlink is replaced (removed, re-created) before the open -/
def openFileT (s : St) (n : FName) (now : Nat) : St × List Pt :=
  -- unix_create_symlink: remove the old link (point in between), create the new one
  let (s, pl) := if s.cfg.symlink then
      let sRemoved := { s with link := none }
      let s' := { s with link := some n, linkGen := s.linkGen + 1 }
      (s', [pt "symlink.removed" sRemoved])
    else (s, [])
  let p0 := pt "open.before" s
  let d := match s.dir.get n with
    | some f => if s.cfg.append then s.dir else s.dir.set n { f with data := [] }
    | none => s.dir.set n ⟨[], now⟩
  let s := { s with dir := d }
  (s, pl ++ [p0] ++ [pt "open.after" s])

/-- the cleanup pass with its points (no faults) -/
def cleanupLoopT (now : Nat) (hasSuffix : Bool) (k m : Nat) (link : Option FName) :
    List (FName × File) → Nat → Dir → List Pt → Dir × List Pt
  | [], _, d, acc => (d, acc)
  | (n, f) :: rest, i, d, acc =>
    if i ≥ k + m then
      let d' := d.erase n
      cleanupLoopT now hasSuffix k m link rest (i + 1) d'
        (acc ++ [⟨"cleanup.remove.before", d, link⟩, ⟨"cleanup.remove.after", d', link⟩])
    else if i ≥ k then
      if n.gz || !hasSuffix then cleanupLoopT now hasSuffix k m link rest (i + 1) d acc
      else
        let gzName : FName := { n with gz := true }
        let dCreated := d.set gzName ⟨[], now⟩              -- created, nothing readable in it yet
        let dFinished := d.set gzName ⟨f.data, now⟩
        let dRemoved := dFinished.erase n
        cleanupLoopT now hasSuffix k m link rest (i + 1) dRemoved
          (acc ++ [⟨"compress.create.before", d, link⟩, ⟨"compress.created", dCreated, link⟩,
                   ⟨"compress.copied", dCreated, link⟩, ⟨"compress.finished", dFinished, link⟩,
                   ⟨"compress.removed", dRemoved, link⟩])
    else cleanupLoopT now hasSuffix k m link rest (i + 1) d acc

def cleanupT (now : Nat) (cfg : Cfg) (r : RotCfg) (link : Option FName) (d : Dir) : Dir × List Pt :=
  match r.cleanup with
  | none => (d, [])
  | some (k, m) =>
    let k := if r.naming.writesDirect && k = 0 then 1 else k
    cleanupLoopT now cfg.hasSuffix k m link (listing d) 0 d []

/-- `State::initialize` (no faults) with its points -/
def initStateT (s : St) (now : Nat) : St × List Pt :=
  match s.cfg.rot with
  | none =>
    let n : FName := ⟨none, false⟩
    let (s, tr) := openFileT s n now
    ({ s with act := some ⟨n, n, [], false, 0, 0, 0, 0⟩ }, tr)
  | some r =>
    let (s, ifx, idx, stamp, tr0) : St × Infix × Nat × Nat × List Pt :=
      match r.naming with
      | .timestampsDirect =>
        let t := if !s.cfg.append then now else (latestStamp s.dir).getD now
        (s, if !s.cfg.append then collisionFree s.dir t else appendTarget s.dir t, 0, t, [])
      | .timestamps =>
        let curN : FName := ⟨some .cur, false⟩
        if !s.cfg.append then
          let date := createdOr s.dir curN now
          let target : FName := ⟨some (collisionFree s.dir date), false⟩
          let (d, _) := s.dir.rename curN target
          let s' := { s with dir := d }
          (s', .cur, 0, now, [pt "rename.before" s, pt "rename.after" s'])
        else (s, .cur, 0, createdOr s.dir curN now, [])
      | .numbers =>
        let idx := match highestIndex s.dir with | none => 0 | some h => h + 1
        if !s.cfg.append then
          let (d, renamed) := s.dir.rename ⟨some .cur, false⟩ ⟨some (.num idx), false⟩
          let s' := { s with dir := d }
          (s', .cur, if renamed then idx + 1 else idx, 0,
            [pt "rename.before" s] ++ (if renamed then [pt "rename.after" s'] else []))
        else (s, .cur, idx, 0, [])
      | .numbersDirect =>
        let idx := match highestIndex s.dir with
          | none => 0
          | some h => if s.cfg.append then h else h + 1
        (s, .num idx, idx, 0, [])
    let n : FName := ⟨some ifx, false⟩
    let (s, tr1) := openFileT s n now
    let size := if s.cfg.append then fileLen s.dir n else 0
    let created := createdOr s.dir n now
    let (d, tr2) := cleanupT now s.cfg r s.link s.dir
    ({ s with dir := d, act := some ⟨n, n, [], false, idx, stamp, size, created⟩ }, tr0 ++ tr1 ++ tr2)

/-- `mount_next_linewriter_if_necessary` after the initial flush (no faults) with its points -/
def mountNextCoreT (s : St) (a : Active) (r : RotCfg) (force : Bool) (now : Nat) : St × Active × List Pt :=
  if !(force || rotationNecessary r a now) then (s, a, [])
  else
    let (s, a, ifx, tr0) : St × Active × Infix × List Pt :=
      match r.naming with
      | .timestamps =>
        let target : FName := ⟨some (collisionFree s.dir a.stamp), false⟩
        let curN : FName := ⟨some .cur, false⟩
        let (d, renamed) := s.dir.rename curN target
        let a' := if renamed && a.handle = curN then { a with handle := target } else a
        let s' := { s with dir := d }
        (s', { a' with stamp := createdOr d curN now }, .cur, [pt "rename.before" s, pt "rename.after" s'])
      | .timestampsDirect =>
        (s, { a with stamp := now }, collisionFree s.dir now, [])
      | .numbers =>
        let target : FName := ⟨some (.num a.idx), false⟩
        let curN : FName := ⟨some .cur, false⟩
        let (d, renamed) := s.dir.rename curN target
        let a' := if renamed && a.handle = curN then { a with handle := target } else a
        let s' := { s with dir := d }
        (s', { a' with idx := if renamed then a.idx + 1 else a.idx }, .cur,
          [pt "rename.before" s] ++ (if renamed then [pt "rename.after" s'] else []))
      | .numbersDirect =>
        (s, { a with idx := a.idx + 1 }, .num (a.idx + 1), [])
    let n : FName := ⟨some ifx, false⟩
    let p1 := pt "rot.infix_chosen" s
    let (s, tr1) := openFileT s n now
    let p2 := pt "rot.opened" s
    let (s, a) := flushAct s a
    let a := { a with handle := n, path := n, unbuffered := false, size := 0,
                      created := createdOr s.dir n now }
    let p3 := pt "rot.mounted" s
    let (d, tr2) := cleanupT now s.cfg r s.link s.dir
    ({ s with dir := d }, a, tr0 ++ [p1] ++ tr1 ++ [p2, p3] ++ tr2)

/-- `mount_next_linewriter_if_necessary` (no faults) with its points: the initial
    `current_write.flush()` (no named point), then the rotation proper -/
def mountNextT (s : St) (a : Active) (r : RotCfg) (force : Bool) (now : Nat) : St × Active × List Pt :=
  if !(force || rotationNecessary r a now) then (s, a, [])
  else
    let (s, a) := flushAct s a
    mountNextCoreT s a r true now

/-- `State::write_buffer` (no faults) with its points -/
def writeBufferT (s : St) (b : List Nat) (now : Nat) : St × List Pt :=
  let (s, tr0) := match s.act with
    | some _ => (s, [])
    | none => initStateT s now
  match s.act with
  | none => (s, tr0)
  | some a =>
    let (s, a, tr1) := match s.cfg.rot with
      | none => (s, a, [])
      | some r => mountNextT s a r false now
    let p1 := pt "write.before" s
    let (s, a) := writeRaw s a b
    let a := { a with size := a.size + b.length }
    let s := { s with act := some a }
    (s, tr0 ++ tr1 ++ [p1, pt "write.after" s])

/-- the points of one operation -/
def stepT (s : St) (op : Op) (now : Nat) : St × List Pt :=
  match op with
  | .write b => writeBufferT s b now
  | .rotate =>
    match s.act, s.cfg.rot with
    | some a, some r =>
      let (s, a, tr) := mountNextT s a r true now
      ({ s with act := some a }, tr)
    | _, _ => (s, [])
  | _ => ((step s op now noFaults).1, [])

/-- the directory a process leaves behind when it is killed at the `occ`-th hit (0-based) of
    point `name` during the operation -/
def crashDir (s : St) (op : Op) (now : Nat) (name : String) (occ : Nat) : Option Pt :=
  ((stepT s op now).2.filter (·.name = name))[occ]?

end FV.Flw
