/-
  The syslog writer's line (src/writers/syslog/{line,severity,facility,writer}.rs): the PRI value
  (facility code, already shifted by three bits, OR severity), the default mapping of log levels
  to severities, the level ceiling, and the two header layouts with the variable fields
  (time stamp, host name, process, pid, message id) as parameters. Levels are 1 (error) .. 5
  (trace); ceilings 0 (off) .. 5. Import-free, executable.
-/
namespace FV.Syslog

/-- `default_mapping`: Error, Warning, Info, Debug, Debug -/
def severity (lvl : Nat) : Nat :=
  if lvl ≤ 1 then 3 else if lvl = 2 then 4 else if lvl = 3 then 6 else 7

/-- `SyslogFacility as u8`: the facility number (0..23) shifted by three bits -/
def facilityCode (fac : Nat) : Nat := fac * 8

/-- `self.facility as u8 | severity as u8` -/
def pri (fac lvl : Nat) : Nat := facilityCode fac ||| severity lvl

/-- `SyslogWriter::write`: a record above the writer's `max_log_level` is not emitted -/
def emits (ceiling lvl : Nat) : Bool := decide (lvl ≤ ceiling)

/-- what a ceiling test on SEVERITIES would admit (the seeded change C13f) -/
def emitsBySeverity (ceiling lvl : Nat) : Bool :=
  decide (1 ≤ ceiling) && decide (severity lvl ≤ severity ceiling)

def natToText (n : Nat) : List Char := (toString n).toList

/-- RFC 5424: `<pri>1 timestamp hostname appname procid msgid ` then `- ` (no key-values) and the message -/
def line5424 (fac lvl : Nat) (ts host app pid msgid msg : List Char) : List Char :=
  ['<'] ++ natToText (pri fac lvl) ++ ['>', '1', ' '] ++ ts ++ [' '] ++ host ++ [' '] ++ app ++ [' '] ++
    pid ++ [' '] ++ msgid ++ [' ', '-', ' '] ++ msg

/-- RFC 3164: `<pri>timestamp tag[procid]: ` and the message -/
def line3164 (fac lvl : Nat) (ts tag pid msg : List Char) : List Char :=
  ['<'] ++ natToText (pri fac lvl) ++ ['>'] ++ ts ++ [' '] ++ tag ++ ['['] ++ pid ++ [']', ':', ' '] ++ msg

end FV.Syslog
