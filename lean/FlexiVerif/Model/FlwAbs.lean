/-
  The abstract specification of a rotating log writer: "the log is a list of closed files plus
  the current one". No names, no directory, no buffer. The theorems of C01/C08/C09/C15 are
  corollaries of the refinement `Flw ⊑ FlwAbs` (see `Lemmas/FlwRefine*.lean`).
-/
import FlexiVerif.Model.Flw
namespace FV.Flw

structure Abs where
  closed : List (List Nat)      -- contents of the closed (rotated) files, oldest first
  cur : List Nat                -- content of the file being written, incl. what is still buffered
  started : Bool                -- a file has been opened (the writer is past `Initial`)
  size : Nat                    -- bytes accounted for the current file
  created : Nat                 -- stamp at which the current file was created
deriving DecidableEq, Repr

def Abs.init : Abs := ⟨[], [], false, 0, 0⟩

def absNecessary (r : RotCfg) (a : Abs) (now : Nat) : Bool :=
  (match r.maxSize with | some mx => decide (a.size > mx) | none => false) ||
  (match r.age with | some ag => decide (ag.trunc a.created ≠ ag.trunc now) | none => false)

def Abs.rotate (a : Abs) (now : Nat) : Abs :=
  { a with closed := a.closed ++ [a.cur], cur := [], size := 0, created := now }

/-- one operation of a history of writes, forced rotations, flushes (no faults) -/
def Abs.step (rot : Option RotCfg) (a : Abs) (op : Op) (now : Nat) : Abs :=
  match op with
  | .write b =>
    let a := if a.started then a else { a with started := true, created := now }
    let a := match rot with
      | some r => if absNecessary r a now then a.rotate now else a
      | none => a
    { a with cur := a.cur ++ b, size := a.size + b.length }
  | .rotate =>
    match rot with
    | some _ => if a.started then a.rotate now else a
    | none => a
  | _ => a

def Abs.run (rot : Option RotCfg) (a : Abs) (ops : List (Op × Nat × Faults)) : Abs :=
  ops.foldl (fun a o => a.step rot o.1 o.2.1) a

/-- what a reader sees: the closed files then the current one (once a file exists) -/
def Abs.files (a : Abs) : List (List Nat) := if a.started then a.closed ++ [a.cur] else []

/-- the concrete state seen the same way: the files in reading order, with the content of the
    `BufWriter` counted to the file it will be flushed into (always the last one) -/
def viewFiles (s : St) : List (List Nat) :=
  match s.act with
  | none => parts s.dir
  | some a =>
    match (parts s.dir).reverse with
    | [] => []
    | last :: rest => (rest.reverse) ++ [last ++ a.pending]

/-- the operations C01/C08/C09/C15 quantify over -/
def Op.plain : Op → Bool
  | .write _ | .rotate | .flush | .shutdown => true
  | _ => false

def Op.usesClock : Op → Bool
  | .write _ | .rotate => true
  | _ => false

/-- the clock readings of a history (of the operations that read the clock) never go backwards -/
def Monotone (ops : List (Op × Nat × Faults)) : Prop :=
  ((ops.filter (·.1.usesClock)).map (·.2.1)).Pairwise (· ≤ ·)

def PlainHistory (ops : List (Op × Nat × Faults)) : Prop :=
  (∀ o ∈ ops, o.1.plain = true ∧ o.2.2 = noFaults) ∧ Monotone ops

def NoCleanup (cfg : Cfg) : Prop := ∀ r, cfg.rot = some r → r.cleanup = none

/-- **The refinement statement.** From an empty directory, without append, for every naming
    scheme, criterion, buffer capacity and plain history: the files on disk (in reading order,
    pending buffer included) are exactly the abstract closed files and current file, and the
    rotation bookkeeping agrees. -/
def Refines (cfg : Cfg) (ops : List (Op × Nat × Faults)) : Prop :=
  let s := runOps (init cfg []) ops
  let a := Abs.run cfg.rot Abs.init ops
  viewFiles s = a.files ∧
  (∀ act, s.act = some act → a.started = true ∧
      (cfg.rot.isSome → act.size = a.size ∧ act.created = a.created)) ∧
  (s.act = none → a.started = false)

end FV.Flw
