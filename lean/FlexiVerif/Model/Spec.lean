/-
  Model of `src/log_specification.rs`, of the filtering/routing part of `src/flexi_logger.rs`
  and of the specification part of `src/logger_handle.rs`.

  Levels: `LevelFilter` = 0 (off) .. 5 (trace); `Level` = 1 (error) .. 5 (trace);
  `level <= filter` is `≤` on these numbers, exactly as in the `log` crate.
-/
import FlexiVerif.Model.Text
namespace FV.Spec
open FV

/-- `ModuleFilter` -/
structure MF where
  name : Option (List Char)
  lvl  : Nat
deriving DecidableEq, Repr

/-- `module_name.as_ref().map_or(0, String::len)` (bytes) -/
def nlen (m : MF) : Nat := match m.name with | none => 0 | some n => blen n

def matchesT (m : MF) (t : List Char) : Bool :=
  match m.name with | none => true | some n => n.isPrefixOf t

/-- `LogSpecification::enabled`: first match wins -/
def enabled : List MF → Nat → List Char → Bool
  | [], _, _ => false
  | m :: ms, lv, t => if matchesT m t then decide (lv ≤ m.lvl) else enabled ms lv t

/-- stable insertion (descending `nlen`): `m` goes in front of the first element that is not longer -/
def ins (m : MF) : List MF → List MF
  | [] => [m]
  | x :: xs => if nlen x ≤ nlen m then m :: x :: xs else x :: ins m xs

/-- `level_sort`: stable sort by descending name length -/
def levelSort : List MF → List MF
  | [] => []
  | m :: ms => ins m (levelSort ms)

/-- `max_level` -/
def maxLevel (fs : List MF) : Nat := fs.foldl (fun a m => max a m.lvl) 0

/-- `parse_level_filter` -/
def parseLevel (s : List Char) : Option Nat :=
  let l := lower s
  if l = "off".toList then some 0
  else if l = "error".toList then some 1
  else if l = "warn".toList then some 2
  else if l = "info".toList then some 3
  else if l = "debug".toList then some 4
  else if l = "trace".toList then some 5
  else none

def levelWord : Nat → List Char
  | 0 => "off".toList
  | 1 => "error".toList
  | 2 => "warn".toList
  | 3 => "info".toList
  | 4 => "debug".toList
  | _ => "trace".toList

inductive Item where
  | filter (m : MF)
  | err
  | skip
deriving DecidableEq, Repr

/-- one comma-separated part of the module section of `LogSpecification::parse` -/
def parsePart (s0 : List Char) : Item :=
  let s := trim s0
  if s.isEmpty then .skip else
  match splitOn '=' s with
  | [p0] =>
    let p0 := trim p0
    if hasWs p0 then .err
    else match parseLevel (trim p0) with
      | some l => .filter ⟨none, l⟩
      | none => .filter ⟨some p0, 5⟩
  | [p0, p1] =>
    let p0 := trim p0
    let p1 := trim p1
    if p1.isEmpty then
      if hasWs p0 then .err else .filter ⟨some p0, 5⟩
    else if hasWs p0 then .err
    else match parseLevel (trim p1) with
      | some l => .filter ⟨some (trim p0), l⟩
      | none => .err
  | _ => .err

def Item.filter? : Item → Option MF
  | .filter m => some m
  | _ => none

def Item.isErr : Item → Bool
  | .err => true
  | _ => false

/-- result of `LogSpecification::parse`: `ok = false` means `Err(Parse(_, spec))` with the
    attached specification `filters`/`regex`. -/
structure PR where
  ok : Bool
  filters : List MF
  regex : Option (List Char)
deriving DecidableEq, Repr

/-- `LogSpecification::parse`. `regexOk` is the verdict of `Regex::new` on the regex part
    (the `regex` crate is outside the model; the harness supplies the bit). -/
def parse (s : List Char) (regexOk : Bool) : PR :=
  match splitOn '/' s with
  | [] => ⟨true, [], none⟩            -- unreachable: `splitOn` is never empty
  | mods :: rest =>
    if rest.length ≥ 2 then ⟨false, [], none⟩
    else
      let items := (splitOn ',' mods).map parsePart
      let filters := levelSort (items.filterMap Item.filter?)
      let partErr := items.any Item.isErr
      match rest with
      | [] => ⟨!partErr, filters, none⟩
      | r :: _ =>
        if regexOk then ⟨!partErr, filters, some r⟩
        else ⟨false, filters, none⟩

/-- `LogSpecification::env()`: the value of `RUST_LOG` is parsed; unset (or not unicode: `env::var`
    fails) gives `off()`, which is `Default::default()` — NO filter at all. The environment is a
    parameter: `none` = unset. -/
def envParse (env : Option (List Char)) (rxE : Bool) : PR :=
  match env with
  | none => ⟨true, [], none⟩
  | some e => parse e rxE

/-- `LogSpecification::env_or_parse(given)`: `RUST_LOG` if it is set AND well-formed, else the given
    string (whose verdict and salvage are then the result's). -/
def envOrParse (env : Option (List Char)) (given : List Char) (rxE rxG : Bool) : PR :=
  match env with
  | none => parse given rxG
  | some e => if (parse e rxE).ok then parse e rxE else parse given rxG

/-- `impl Display for LogSpecification` -/
def displayNamed : Bool → List MF → List Char
  | _, [] => []
  | comma, m :: ms =>
    match m.name with
    | none => displayNamed comma ms
    | some n =>
      (if comma then ", ".toList else []) ++ n ++ " = ".toList ++ levelWord m.lvl ++ displayNamed true ms

def display (fs : List MF) : List Char :=
  match fs.getLast? with
  | some ⟨none, l⟩ => levelWord l ++ displayNamed true fs
  | _ => displayNamed false fs

/-! ### TOML form (structured document: the lexical layer of the `toml` crate is outside the model) -/

structure TomlDoc where
  globalLevel : Option (List Char)
  modules : List (List Char × List Char)     -- key-sorted (BTreeMap)
deriving DecidableEq, Repr

/-- what `to_toml_impl` writes, as a document -/
def toToml (fs : List MF) : TomlDoc :=
  { globalLevel := match fs.getLast? with
      | some ⟨none, l⟩ => some (levelWord l)
      | _ => none
    modules := fs.filterMap (fun m => m.name.map (fun n => (n, levelWord m.lvl))) }

def insKey (x : List Char × List Char) : List (List Char × List Char) → List (List Char × List Char)
  | [] => [x]
  | y :: ys => if ltText y.1 x.1 then y :: insKey x ys else x :: y :: ys

/-- `from_toml` on a document whose `modules` table has been read into a `BTreeMap`
    (iteration in key order; duplicate keys cannot occur in a TOML table) -/
def fromToml (d : TomlDoc) : Option (List MF) :=
  let g : Option (Option MF) := match d.globalLevel with
    | none => some none
    | some s => (parseLevel s).map (fun l => some ⟨none, l⟩)
  let ms : Option (List MF) := (d.modules.foldr insKey []).foldr
    (fun kv acc => match acc, parseLevel kv.2 with
      | some l, some lv => some (⟨some kv.1, lv⟩ :: l)
      | _, _ => none) (some [])
  match g, ms with
  | some g, some ms => some (levelSort (g.toList ++ ms))
  | _, _ => none

/-! ### Handle: `LoggerHandle` / `WritersHandle` -/

structure LogSpec where
  filters : List MF
  regex : Option (List Char)
deriving DecidableEq, Repr

structure Handle where
  active : LogSpec
  stack : List LogSpec          -- head = most recently pushed
  gate : Nat                    -- `log::max_level()`
  ceilings : List Nat           -- `max_log_level()` of the additional writers
deriving DecidableEq, Repr

def gateFor (ceilings : List Nat) (s : LogSpec) : Nat :=
  ceilings.foldl max (maxLevel s.filters)

/-- `WritersHandle::set_new_spec` executed without interference -/
def Handle.setNew (h : Handle) (s : LogSpec) : Handle :=
  { h with active := s, gate := gateFor h.ceilings s }

inductive HOp where
  | set (s : LogSpec)
  | parseNew (r : PR)             -- result of parsing the given string
  | push (s : LogSpec)
  | parsePush (r : PR)
  | pop
deriving DecidableEq, Repr

def PR.spec (r : PR) : LogSpec := ⟨r.filters, r.regex⟩

/-- behaviour of the five reconfiguration methods. `parse_and_push_temp_spec` parses first and
    pushes only on success (since the `fix:` commit; the earlier behaviour is `stepPushFirst`).
    Returns the new handle and `Ok/Err`. -/
def Handle.step (h : Handle) : HOp → Handle × Bool
  | .set s => (h.setNew s, true)
  | .parseNew r => if r.ok then (h.setNew r.spec, true) else (h, false)
  | .push s => ({ h with stack := h.active :: h.stack }.setNew s, true)
  | .parsePush r =>
    if r.ok then ({ h with stack := h.active :: h.stack }.setNew r.spec, true) else (h, false)
  | .pop =>
    match h.stack with
    | [] => (h, true)
    | p :: rest => ({ h with stack := rest }.setNew p, true)

/-- the behaviour before the fix: `parse_and_push_temp_spec` pushed before it parsed -/
def Handle.stepPushFirst (h : Handle) : HOp → Handle × Bool
  | .parsePush r =>
    let h' := { h with stack := h.active :: h.stack }
    if r.ok then (h'.setNew r.spec, true) else (h', false)
  | op => h.step op

/-! ### Concurrent specification changes (C12)

  `WritersHandle::set_new_spec` = compute the max level of the new spec; take the write lock;
  replace the spec; `log::set_max_level(..)`; release the lock (since the `fix:` commit the max
  level is set while the lock is still held; before, the lock was released first). -/

structure CState where
  handle : Handle
  lock : Option Nat                     -- thread between "lock taken" and "lock released"
  waiting : List (Nat × LogSpec)        -- calls blocked on the lock, in arrival order
  gateOf : List (Nat × Nat)             -- (thread, max level computed before taking the lock)
deriving DecidableEq, Repr

inductive CAct where
  | start (t : Nat) (s : LogSpec)       -- the call of thread `t` reaches the lock
  | finish (t : Nat)                    -- thread `t` sets the max level and releases the lock
deriving DecidableEq, Repr

def CState.acquire (c : CState) (t : Nat) (s : LogSpec) : CState :=
  { c with lock := some t, handle := { c.handle with active := s },
           gateOf := (t, gateFor c.handle.ceilings s) :: c.gateOf }

/-- one step; the Boolean says whether the action could proceed (`false` = blocked / not enabled) -/
def CState.step (c : CState) : CAct → CState × Bool
  | .start t s =>
    match c.lock with
    | none => (c.acquire t s, true)
    | some _ => ({ c with waiting := c.waiting ++ [(t, s)] }, false)
  | .finish t =>
    if c.lock = some t then
      let g := match c.gateOf.find? (·.1 = t) with | some p => p.2 | none => c.handle.gate
      let c := { c with lock := none, handle := { c.handle with gate := g },
                        gateOf := c.gateOf.filter (·.1 ≠ t) }
      match c.waiting with
      | [] => (c, true)
      | (t', s') :: rest => (({ c with waiting := rest }).acquire t' s', true)
    else (c, false)

/-- the behaviour before the fix: the lock covers only the replacement of the spec.
    `A t s` = lock, replace, unlock; `B t` = set the max level computed before `A`. -/
def CState.stepUnlocked (c : CState) : CAct → CState
  | .start t s =>
    { c with handle := { c.handle with active := s },
             gateOf := (t, gateFor c.handle.ceilings s) :: c.gateOf }
  | .finish t =>
    match c.gateOf.find? (·.1 = t) with
    | some p => { c with handle := { c.handle with gate := p.2 }, gateOf := c.gateOf.filter (·.1 ≠ t) }
    | none => c

/-! ### `push_temp_spec` / `pop_temp_spec` of handle clones on top of the lock protocol

  Every clone of the `LoggerHandle` has its own stack. `push_temp_spec` READS the active
  specification under the read lock (so it waits while a change holds the write lock), saves it on
  the clone's stack, and then is an ordinary change (`set_new_spec`); `pop_temp_spec` is an ordinary
  change to the specification saved last (and nothing if the clone has saved none). -/

structure PState where
  c : CState
  stacks : List (Nat × LogSpec)          -- saved specifications, newest first, tagged with the clone
  readers : List (Nat × LogSpec)         -- pushes waiting for the read lock: (clone, specification to set afterwards)
deriving DecidableEq, Repr

inductive PAct where
  | set (t : Nat) (s : LogSpec)          -- the `set_new_spec` call of clone `t` reaches the lock
  | push (t : Nat) (s : LogSpec)         -- the `push_temp_spec` call of clone `t` reaches the read lock
  | pop (t : Nat)                        -- the `pop_temp_spec` call of clone `t` reaches the lock
  | finish (t : Nat)                     -- the call of clone `t` sets the max level and releases the lock
deriving DecidableEq, Repr

/-- the newest saved specification of clone `t`, and the stacks without it -/
def popStack (t : Nat) : List (Nat × LogSpec) → Option (LogSpec × List (Nat × LogSpec))
  | [] => none
  | (t', s) :: rest =>
    if t' = t then some (s, rest)
    else match popStack t rest with
      | some (s', r) => some (s', (t', s) :: r)
      | none => none

/-- once no change holds the lock, the push that has waited longest reads (and saves) the active
    specification and goes on as an ordinary change -/
def PState.admitReader (p : PState) : PState × List CAct :=
  match p.c.lock, p.readers with
  | none, (t, s) :: rest =>
    ({ c := (p.c.step (.start t s)).1, stacks := (t, p.c.handle.active) :: p.stacks, readers := rest },
      [.start t s])
  | _, _ => (p, [])

/-- one step: the new state, whether the call could proceed, and the steps of the lock protocol
    that were taken -/
def PState.step (p : PState) : PAct → PState × Bool × List CAct
  | .set t s =>
    let r := p.c.step (.start t s)
    ({ p with c := r.1 }, r.2, [.start t s])
  | .push t s =>
    match p.c.lock with
    | none =>
      let r := p.c.step (.start t s)
      ({ p with c := r.1, stacks := (t, p.c.handle.active) :: p.stacks }, r.2, [.start t s])
    | some _ => ({ p with readers := p.readers ++ [(t, s)] }, false, [])
  | .pop t =>
    match popStack t p.stacks with
    | none => (p, true, [])
    | some (s, rest) =>
      let r := p.c.step (.start t s)
      ({ p with c := r.1, stacks := rest }, r.2, [.start t s])
  | .finish t =>
    let r := p.c.step (.finish t)
    let q := ({ p with c := r.1 } : PState).admitReader
    (q.1, r.2, .finish t :: q.2)

/-! ### Routing: `FlexiLogger::log` / `FlexiLogger::enabled` -/

/-- `target.get(1..target.len()-1)` on a target that starts with `{`: `none` when `len < 2`
    (range start > end) or when `len-1` is not a char boundary (last char is multi-byte). -/
def braceSlice (t : List Char) : Option (List Char) :=
  match t with
  | [] => none
  | _ :: rest =>
    match rest.getLast? with
    | none => none                       -- target = "{" : 1 .. 0
    | some l => if utf8Len l = 1 then some rest.dropLast else none

/-- `.unwrap_or_default()` (since the `fix:` commit; before, the unchecked slice panicked
    exactly where `braceSlice` is `none`) -/
def braceInner (t : List Char) : List Char := (braceSlice t).getD []

structure Writer where
  name : List Char
  ceiling : Nat                    -- `max_log_level()`
  honoursCeiling : Bool := true    -- `FileLogWriter`/`SyslogWriter` check it in `write`; a custom
                                   -- `LogWriter` decides itself (`false`: it emits what it receives)
deriving DecidableEq, Repr

/-- what an addressed writer does with a record it receives -/
def Writer.emits (w : Writer) (lvl : Nat) : Bool := !w.honoursCeiling || decide (lvl ≤ w.ceiling)

def lookup (ws : List Writer) (n : List Char) : Option Writer := ws.find? (·.name = n)

inductive Deliver where
  | writer (n : List Char)
  | unknown (n : List Char)
deriving DecidableEq, Repr

structure RouteOut where
  panic : Bool
  deliveries : List Deliver       -- in list order
  default : Bool                  -- record handed on to the default channel (before the line filter)
deriving DecidableEq, Repr

def defaultName : List Char := "_Default".toList

/-- one name of a brace list: `_Default` is not a writer; a registered name gets the record;
    any other name is reported as a bad writer spec -/
def deliverOf (ws : List Writer) (n : List Char) : Option Deliver :=
  if n = defaultName then none
  else match lookup ws n with
    | some _ => some (Deliver.writer n)
    | none => some (Deliver.unknown n)

/-- `FlexiLogger::log` up to the hand-over to the primary writer / line filter.
    `msgMatches` = `regex.is_match(args)`, supplied by the caller. -/
def route (spec : LogSpec) (ws : List Writer) (lvl : Nat) (target : List Char)
    (modulePath : Option (List Char)) (msgMatches : Bool) : RouteOut :=
  let passes (eff : List Char) : Bool :=
    enabled spec.filters lvl eff && (spec.regex.isNone || msgMatches)
  if target.head? = some '{' then
    let names := splitOn ',' (braceInner target)
    let dels := names.filterMap (deliverOf ws)
    if names.contains defaultName then
      ⟨false, dels, passes (modulePath.getD [])⟩
    else ⟨false, dels, false⟩
  else ⟨false, [], passes target⟩

/-- `FlexiLogger::enabled` (`some`: never panics since the checked slice) -/
def enabledQuery (spec : LogSpec) (ws : List Writer) (lvl : Nat) (target : List Char) : Option Bool :=
  if !ws.isEmpty && target.head? = some '{' then
    let names := splitOn ',' (braceInner target)
    if names.any (fun n => n ≠ defaultName &&
        match lookup ws n with | some w => decide (lvl ≤ w.ceiling) | none => false)
    then some true
    else some (enabled spec.filters lvl target)
  else some (enabled spec.filters lvl target)

/-- names of the writers that actually emit the record -/
def emitted (ws : List Writer) (r : RouteOut) (lvl : Nat) : List (List Char) :=
  r.deliveries.filterMap (fun d => match d with
    | .writer n => (lookup ws n).bind (fun w => if w.emits lvl then some n else none)
    | .unknown _ => none)

/-- `MultiWriter::write` duplication decision: `Duplicate` = 0 (None) .. 5 (Trace), 6 (All) -/
def dupDecision (d : Nat) (lvl : Nat) : Bool :=
  match d with
  | 0 => false
  | 1 => lvl = 1
  | 2 => lvl ≤ 2
  | 3 => lvl ≤ 3
  | 4 => lvl ≤ 4
  | _ => true

end FV.Spec
