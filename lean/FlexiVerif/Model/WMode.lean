/-
  `WriteMode` (src/write_mode.rs): the public variants, the normalisation to the effective mode,
  the split `Logger::write_mode` makes (the file writer gets the mode WITHOUT flushing, the
  logger's own flusher thread gets the interval), the buffer size the file writer's `BufWriter`
  is created with, and the flush interval that decides whether a flusher thread is started.
  Durations are milliseconds. Import-free, executable (used by the driver: the `MODE` line of a
  case names a PUBLIC variant, the model derives the capacity the `Flw` model runs with).
-/
namespace FV.WMode

def defaultBufferCapacity : Nat := 8 * 1024
def defaultFlushIntervalMs : Nat := 1000
def defaultPoolCapa : Nat := 50
def defaultMessageCapa : Nat := 200

inductive WMode where
  | direct
  | supportCapture
  | bufferDontFlush
  | bufferDontFlushWith (cap : Nat)
  | bufferAndFlush
  | bufferAndFlushWith (cap : Nat) (intervalMs : Nat)
  | async
  | asyncWith (pool : Nat) (msg : Nat) (intervalMs : Nat)
deriving DecidableEq, Repr

inductive Eff where
  | direct
  | bufferAndFlushWith (cap : Nat)
  | asyncWith (pool : Nat) (msg : Nat) (intervalMs : Nat)
  | bufferDontFlushWith (cap : Nat)
deriving DecidableEq, Repr

/-- `WriteMode::effective_write_mode` -/
def WMode.effective : WMode → Eff
  | .direct | .supportCapture => .direct
  | .bufferDontFlush => .bufferDontFlushWith defaultBufferCapacity
  | .bufferDontFlushWith c => .bufferDontFlushWith c
  | .bufferAndFlush => .bufferAndFlushWith defaultBufferCapacity
  | .bufferAndFlushWith c _ => .bufferAndFlushWith c
  | .async => .asyncWith defaultPoolCapa defaultMessageCapa defaultFlushIntervalMs
  | .asyncWith p m i => .asyncWith p m i

/-- `WriteMode::without_flushing` (what `Logger::write_mode` hands to the file writer) -/
def WMode.withoutFlushing : WMode → WMode
  | .direct => .direct
  | .supportCapture => .supportCapture
  | .bufferDontFlush => .bufferDontFlush
  | .bufferDontFlushWith c => .bufferDontFlushWith c
  | .bufferAndFlush => .bufferDontFlush
  | .bufferAndFlushWith c _ => .bufferDontFlushWith c
  | .async => .asyncWith defaultPoolCapa defaultMessageCapa 0
  | .asyncWith p m _ => .asyncWith p m 0

/-- `WriteMode::buffersize`: the capacity of the file writer's `BufWriter` (`none`: unbuffered;
    the asynchronous writer thread writes unbuffered, too) -/
def WMode.buffersize (m : WMode) : Option Nat :=
  match m.effective with
  | .direct => none
  | .bufferAndFlushWith c | .bufferDontFlushWith c => some c
  | .asyncWith _ _ _ => none

/-- `WriteMode::get_flush_interval` (0 = no flusher thread) -/
def WMode.flushInterval : WMode → Nat
  | .direct | .supportCapture | .bufferDontFlush | .bufferDontFlushWith _ => 0
  | .bufferAndFlush | .async => defaultFlushIntervalMs
  | .bufferAndFlushWith _ i => i
  | .asyncWith _ _ i => i

def WMode.isAsync (m : WMode) : Bool :=
  match m.effective with
  | .asyncWith _ _ _ => true
  | _ => false

/-- the split of `Logger::write_mode`: (mode of the file writer, interval of the logger's flusher) -/
def WMode.loggerSplit (m : WMode) : WMode × Nat := (m.withoutFlushing, m.flushInterval)

/-- does a writer built with this mode start a flusher of its own? (`SyncHandle::new` /
    `AsyncHandle::new`: `flush_interval != ZERO_DURATION`) -/
def WMode.startsFlusher (m : WMode) : Bool := m.flushInterval != 0

end FV.WMode
