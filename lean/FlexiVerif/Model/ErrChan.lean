/-
  The error channel (src/util.rs `try_writing_to_error_channel`, `Logger::error_channel`):
  where flexi_logger's own error reports go. Events are the error codes (as text); a sink is the
  list of lines it received. Import-free, executable.
-/
namespace FV.ErrChan

inductive Channel where
  | stdErr
  | stdOut
  | file (openable : Bool)     -- `ErrorChannel::File(path)`; `openable = false`: the file cannot be opened for appending
  | devNull
deriving DecidableEq, Repr

structure Sinks where
  err : List String := []
  out : List String := []
  file : List String := []
deriving DecidableEq, Repr

/-- the extra line on stderr when the error file cannot be opened -/
def cantOpen : String := "cantopen"

/-- one report -/
def report (ch : Channel) (s : Sinks) (ev : String) : Sinks :=
  match ch with
  | .stdErr => { s with err := s.err ++ [ev] }
  | .stdOut => { s with out := s.out ++ [ev] }
  | .file true => { s with file := s.file ++ [ev] }
  | .file false => { s with err := s.err ++ [ev, cantOpen] }
  | .devNull => s

def run (ch : Channel) (evs : List String) : Sinks := evs.foldl (report ch) {}

end FV.ErrChan
