/-
  Concurrency model of the line-emitting paths (C03).

  Modelled code (flexi_logger):
  * `writers/file_log_writer/state_handle.rs`
      - sync `StateHandle::write`: format into the thread-local buffer, append the line ending,
        then lock the state mutex and `write_buffer` the whole buffer in ONE critical section,
        then `buffer.clear()`;
      - `AsyncHandle::write`: `pop_buffer` (pool or fresh `Vec`), format, append the line ending,
        `sender.send(buffer)`;
      - `flush` / `shutdown`: control messages `b"F"` / `b"S"` through the same channel.
  * `writers/file_log_writer/state.rs::start_async_fs_writer` and `threads.rs::start_async_stdwriter`:
      single consumer loop `recv`; `b"F"` -> flush, `b"S"` -> shutdown + `break` (no recycling),
      anything else -> `write_buffer`; afterwards
      `if message.capacity() <= message_capa { message.clear(); pool.push(message).ok() }`
      (`ArrayQueue::push` fails when the pool is full and the buffer is dropped).

  Granularity: one action = one atomic step of the code (formatting is thread-private, the
  emission is one critical section / one channel operation).  An action that is not enabled is a
  stutter step, hence every `List Act` is a schedule.

  Abstractions (documented, not proved about the Rust code):
  * a line is the already formatted byte string including the line ending; since the line ending
    is `\n` or `\r\n`, a data message can never be equal to `b"F"` / `b"S"`, so the dispatch on the
    message content is modelled as a dispatch on the constructor of `Msg`;
  * `message.capacity() <= message_capa` is modelled as `bytes.length ≤ msgCapa`
    (a fresh buffer has capacity `message_capa` and grows exactly when the content is longer);
  * the channel is unbounded FIFO (crossbeam `unbounded`), the pool is a bounded FIFO (`ArrayQueue`);
  * `recv` = dequeue + write + recycle as ONE step: only the writer thread touches `out` and the
    head of the channel, and `pool.push` / `pool.pop` are linearizable, so a `pop_buffer` of another
    thread between the write and the push commutes to before the `recv`;
  * `fmt` = `pop_buffer` + formatting as one step (formatting is thread-private);
  * the control message of the flusher THREAD is a fresh `ASYNC_FLUSH.to_vec()` (state.rs); the
    control messages of `flush()` / `shutdown()` calls take their buffer with `pop_buffer` — the
    model does not remove a buffer from the pool for them (no effect on `out`; under the pool
    invariant the popped buffer is empty, so the message content is exactly `b"F"` / `b"S"`);
  * `StdWriter` in its non-async modes takes the stream lock BEFORE formatting; the model (format
    first, then one critical section) has a superset of these interleavings;
  * not modelled: the recursive-logging fallback of the sync path (separate temporary buffer, also
    written in one critical section), I/O errors, a poisoned mutex, logging after `shutdown()`
    beyond "the message stays in the channel".

  Core Lean only, import-free, total, executable.
-/
namespace FV.Conc

/- A program is `prog : List (List (List Nat))`: `prog[t]` = the lines thread `t` logs, in order;
   a line = formatted bytes incl. line ending. -/

inductive Mode where
  | sync
  | async
deriving DecidableEq, Repr

structure Cfg where
  poolCapa : Nat
  msgCapa : Nat
  /-- the code clears a buffer before it is reused (`buffer.clear()` in the sync path,
      `message.clear()` before `pool.push` in the async path); `false` = hypothetical variant -/
  clear : Bool := true
deriving DecidableEq, Repr

inductive Msg where
  /-- a formatted line of thread `tid`, its `seq`-th one (both ghost), with the buffer content -/
  | data (tid seq : Nat) (bytes : List Nat)
  | flush
  | shutdown
deriving DecidableEq, Repr

def Msg.isData : Msg → Bool
  | .data _ _ _ => true
  | _ => false

/-- a logging thread -/
structure Th where
  /-- number of lines handed over so far (emitted under the lock / sent into the channel) -/
  sent : Nat := 0
  /-- the thread holds a formatted line (its `sent`-th one) that is not yet handed over -/
  pend : Bool := false
  /-- sync: the thread-local buffer; async: the buffer the thread owns while `pend` -/
  buf : List Nat := []
deriving DecidableEq, Repr

/-- program counter: number of lines taken (formatted) so far -/
def Th.pc (th : Th) : Nat := th.sent + (if th.pend then 1 else 0)

/-- the private buffer of the task description: the formatted, not yet emitted line -/
def Th.priv (th : Th) : Option (List Nat) := if th.pend then some th.buf else none

structure St where
  ths : List Th
  /-- the file / stream -/
  out : List Nat := []
  /-- ghost: (thread, sequence number, bytes) of every atomic write, in order -/
  outLines : List (Nat × Nat × List Nat) := []
  chan : List Msg := []
  pool : List (List Nat) := []
  writerAlive : Bool := true
deriving DecidableEq, Repr

inductive Act where
  | fmt (t : Nat)
  | emit (t : Nat)
  | send (t : Nat)
  | recv
  | flushTick
  | cleanupTick
  /-- `shutdown()` of the handle: enqueue the `b"S"` control message -/
  | shutdownTick
deriving DecidableEq, Repr

def lineAt (prog : List (List (List Nat))) (t k : Nat) : Option (List Nat) :=
  match prog[t]? with
  | none => none
  | some ls => ls[k]?

/-- `pop_buffer`: head of the pool, or a fresh empty buffer -/
def popBuf (pool : List (List Nat)) : List Nat × List (List Nat) :=
  match pool with
  | [] => ([], [])
  | b :: p => (b, p)

/-- the tail of the writer loop: `if capacity <= msgCapa { clear(); pool.push(..).ok() }` -/
def recycle (clear : Bool) (poolCapa msgCapa : Nat) (pool : List (List Nat)) (buf : List Nat) :
    List (List Nat) :=
  if buf.length ≤ msgCapa ∧ pool.length < poolCapa then
    pool ++ [if clear then [] else buf]
  else pool

/-- content of the flusher thread's control message (`ASYNC_FLUSH.to_vec()`) -/
def flushBytes : List Nat := [70]

def init (prog : List (List (List Nat))) : St := { ths := prog.map (fun _ => {}) }

def step (m : Mode) (cfg : Cfg) (prog : List (List (List Nat))) (s : St) : Act → St
  | .fmt t =>
    match s.ths[t]? with
    | none => s
    | some th =>
      if th.pend then s else
      match lineAt prog t th.sent with
      | none => s
      | some l =>
        match m with
        | .sync => { s with ths := s.ths.set t { th with pend := true, buf := th.buf ++ l } }
        | .async =>
          { s with ths := s.ths.set t { th with pend := true, buf := (popBuf s.pool).1 ++ l },
                   pool := (popBuf s.pool).2 }
  | .emit t =>
    match m with
    | .async => s
    | .sync =>
      match s.ths[t]? with
      | none => s
      | some th =>
        if th.pend then
          { s with out := s.out ++ th.buf,
                   outLines := s.outLines ++ [(t, th.sent, th.buf)],
                   ths := s.ths.set t { sent := th.sent + 1, pend := false,
                                        buf := if cfg.clear then [] else th.buf } }
        else s
  | .send t =>
    match m with
    | .sync => s
    | .async =>
      match s.ths[t]? with
      | none => s
      | some th =>
        if th.pend then
          { s with chan := s.chan ++ [.data t th.sent th.buf],
                   ths := s.ths.set t { sent := th.sent + 1, pend := false, buf := [] } }
        else s
  | .recv =>
    match m with
    | .sync => s
    | .async =>
      if s.writerAlive then
        match s.chan with
        | [] => s
        | .data t k b :: c =>
          { s with chan := c, out := s.out ++ b, outLines := s.outLines ++ [(t, k, b)],
                   pool := recycle cfg.clear cfg.poolCapa cfg.msgCapa s.pool b }
        | .flush :: c =>
          { s with chan := c, pool := recycle cfg.clear cfg.poolCapa cfg.msgCapa s.pool flushBytes }
        | .shutdown :: c => { s with chan := c, writerAlive := false }
      else s
  | .flushTick =>
    match m with
    | .sync => s
    | .async => { s with chan := s.chan ++ [.flush] }
  | .cleanupTick => s
  | .shutdownTick =>
    match m with
    | .sync => s
    | .async => { s with chan := s.chan ++ [.shutdown] }

def runFrom (m : Mode) (cfg : Cfg) (prog : List (List (List Nat))) (s : St) (sched : List Act) : St :=
  sched.foldl (step m cfg prog) s

def run (m : Mode) (cfg : Cfg) (prog : List (List (List Nat))) (sched : List Act) : St :=
  runFrom m cfg prog (init prog) sched

/-- ghost projections -/
def bytesOf (ol : List (Nat × Nat × List Nat)) : List (List Nat) := ol.map (·.2.2)

/-- sequence numbers of thread `t` in the emission log, in order -/
def outSeqs (t : Nat) (ol : List (Nat × Nat × List Nat)) : List Nat :=
  (ol.filter (fun e => e.1 == t)).map (·.2.1)

/-- sequence numbers of the data messages of thread `t` in the channel, in order -/
def chanSeqs (t : Nat) : List Msg → List Nat
  | [] => []
  | .data t' k _ :: c => if t' = t then k :: chanSeqs t c else chanSeqs t c
  | _ :: c => chanSeqs t c

/-- the log entries the data messages of a channel (prefix) stand for -/
def chanEntries : List Msg → List (Nat × Nat × List Nat)
  | [] => []
  | .data t k b :: c => (t, k, b) :: chanEntries c
  | _ :: c => chanEntries c

/-- A state is complete: every thread has handed over all its lines, nothing is pending and
    no data message is in flight (left-over control messages are irrelevant). -/
def Complete (prog : List (List (List Nat))) (s : St) : Prop :=
  (∀ t (h : t < s.ths.length), s.ths[t].pend = false ∧ s.ths[t].sent = (prog.getD t []).length)
  ∧ (∀ m ∈ s.chan, m.isData = false)

instance (prog : List (List (List Nat))) (s : St) : Decidable (Complete prog s) :=
  inferInstanceAs (Decidable (_ ∧ _))

/-- the canonical sequential schedule: thread after thread, line after line -/
def lineActs (m : Mode) (t : Nat) : List Act :=
  match m with
  | .sync => [.fmt t, .emit t]
  | .async => [.fmt t, .send t, .recv]

def threadActs (m : Mode) (t n : Nat) : List Act :=
  (List.replicate n (lineActs m t)).flatten

def seqSched (m : Mode) (prog : List (List (List Nat))) : List Act :=
  ((List.range prog.length).map (fun t => threadActs m t (prog.getD t []).length)).flatten

/-- `drain`: canonical completion from ANY state of a run: every thread hands over its pending
    line and all remaining lines, then the writer empties the channel. -/
def handover (m : Mode) (t : Nat) : Act :=
  match m with
  | .sync => .emit t
  | .async => .send t

def drainThread (m : Mode) (prog : List (List (List Nat))) (t : Nat) : List Act :=
  handover m t :: threadActs m t (prog.getD t []).length

def drainThreads (m : Mode) (prog : List (List (List Nat))) : List Act :=
  ((List.range prog.length).map (drainThread m prog)).flatten

/-- phase 1: all threads finish; phase 2: the writer empties the channel (every action of
    phase 1 enqueues at most one message, hence the bound) -/
def drainSched (m : Mode) (prog : List (List (List Nat))) (s : St) : List Act :=
  drainThreads m prog
    ++ List.replicate (s.chan.length + (drainThreads m prog).length) Act.recv

def drain (m : Mode) (cfg : Cfg) (prog : List (List (List Nat))) (s : St) : St :=
  runFrom m cfg prog s (drainSched m prog s)

/-! ### Observed orders (for the cross-check against real runs) -/

/-- Check an observed global order of emitted lines `(tid, seq)`: every thread's sequence numbers
    must be `0,1,2,…` in order, every thread must be known and, at the end, complete.
    `cnt[t]` = number of lines of `t` seen so far. -/
def checkObsAux (prog : List (List (List Nat))) : List Nat → List (Nat × Nat) → Option String
  | cnt, [] =>
    match (List.range prog.length).find? (fun t => cnt.getD t 0 != (prog.getD t []).length) with
    | some t => some ("incomplete thread=" ++ toString t ++ " seen=" ++ toString (cnt.getD t 0)
        ++ " expected=" ++ toString (prog.getD t []).length)
    | none => none
  | cnt, (t, k) :: r =>
    if t < prog.length then
      if k = cnt.getD t 0 then
        if k < (prog.getD t []).length then checkObsAux prog (cnt.set t (k + 1)) r
        else some ("surplus thread=" ++ toString t ++ " seq=" ++ toString k)
      else some ("order thread=" ++ toString t ++ " expected=" ++ toString (cnt.getD t 0)
        ++ " got=" ++ toString k)
    else some ("unknown-thread " ++ toString t)

/-- `none` = accepted, `some reason` = rejected -/
def checkObs (prog : List (List (List Nat))) (obs : List (Nat × Nat)) : Option String :=
  checkObsAux prog (prog.map (fun _ => 0)) obs

/-- the specification of acceptance: no foreign thread, and per thread exactly `0 … n_t-1` in
    order (hence complete, no duplicate, no loss) -/
def ObsOk (prog : List (List (List Nat))) (obs : List (Nat × Nat)) : Prop :=
  (∀ e ∈ obs, e.1 < prog.length) ∧
  ∀ t, t < prog.length →
    (obs.filter (fun e => e.1 == t)).map (·.2) = List.range (prog.getD t []).length

instance (prog : List (List (List Nat))) (obs : List (Nat × Nat)) : Decidable (ObsOk prog obs) :=
  inferInstanceAs (Decidable (_ ∧ _))

/-- the schedule that realises an observed order -/
def obsSched (m : Mode) (obs : List (Nat × Nat)) : List Act :=
  (obs.map (fun e => lineActs m e.1)).flatten

end FV.Conc
