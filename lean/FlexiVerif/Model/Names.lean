/-
  String level of the file names (`src/parameters/file_spec.rs`, `infix_filter.rs`,
  `state/numbers.rs`, name part of `state/timestamps.rs`).
-/
import FlexiVerif.Model.Text
import FlexiVerif.Model.Flw
namespace FV.Names
open FV FV.Flw

/-- the name-relevant part of a `FileSpec` (start-time part suppressed/pinned: it is a constant
    of the run and modelled as part of the discriminant when used) -/
structure Spec where
  basename : List Char
  discr : Option (List Char)
  suffix : Option (List Char)
  curToken : List Char := "rCURRENT".toList       -- `rCURRENT` or the custom current ifx
  fmt : Nat := 0                                   -- timestamp ifx format (see `renderStamp`)
deriving DecidableEq, Repr

def appendUnderscore (s : List Char) : List Char := if s.isEmpty then s else s ++ ['_']

/-- `fixed_name_part` -/
def fixedPart (sp : Spec) : List Char :=
  match sp.discr with
  | none => sp.basename
  | some d => appendUnderscore sp.basename ++ d

def pad (w : Nat) (n : Nat) : List Char := padLeft w '0' (natToText n)

/-- timestamp ifx from a packed stamp `YYYYMMDDhhmmss`.
    fmt 0: `r%Y-%m-%d_%H-%M-%S` (the standard format); fmt 1: `r%Y%m%d-%H%M%S`;
    fmt 2: `r%Y-%m-%d_%H-%M-%S_x` (longer than 20); the year is printed with at least 4 digits. -/
def renderStamp (fmt : Nat) (k : Nat) : List Char :=
  let y := k / 10000000000
  let mo := k / 100000000 % 100
  let d := k / 1000000 % 100
  let h := k / 10000 % 100
  let mi := k / 100 % 100
  let s := k % 100
  match fmt with
  | 1 => ['r'] ++ pad 4 y ++ pad 2 mo ++ pad 2 d ++ ['-'] ++ pad 2 h ++ pad 2 mi ++ pad 2 s
  | 2 => ['r'] ++ pad 4 y ++ ['-'] ++ pad 2 mo ++ ['-'] ++ pad 2 d ++ ['_'] ++ pad 2 h ++ ['-'] ++
         pad 2 mi ++ ['-'] ++ pad 2 s ++ "_x".toList
  | _ => ['r'] ++ pad 4 y ++ ['-'] ++ pad 2 mo ++ ['-'] ++ pad 2 d ++ ['_'] ++ pad 2 h ++ ['-'] ++
         pad 2 mi ++ ['-'] ++ pad 2 s

/-- `number_infix`: `r{idx:0>5}` -/
def numberInfix (n : Nat) : List Char := 'r' :: pad 5 n

def renderInfix (sp : Spec) : Infix → List Char
  | .cur => sp.curToken
  | .num n => numberInfix n
  | .ts k none => renderStamp sp.fmt k
  | .ts k (some r) => renderStamp sp.fmt k ++ ".restart-".toList ++ pad 4 r
  | .ext n => "moved".toList ++ natToText n

/-- `as_pathbuf(o_infix)` (file name only) plus `.gz` for compressed files -/
def render (sp : Spec) (n : FName) : List Char :=
  match n.ifx with
  | some (.ext k) => "moved-".toList ++ pad 4 k ++ ".bak".toList
  | _ =>
    let base := fixedPart sp
    let withInfix := match n.ifx with
      | none => base
      | some i => let r := renderInfix sp i; if r.isEmpty then base else appendUnderscore base ++ r
    let withSuffix := match sp.suffix with
      | none => withInfix
      | some s => withInfix ++ ['.'] ++ s
    if n.gz then withSuffix ++ ".gz".toList else withSuffix

end FV.Names
