/-
  String level of the file names (`src/parameters/file_spec.rs`, `infix_filter.rs`,
  `state/numbers.rs`, name part of `state/timestamps.rs`).
-/
import FlexiVerif.Model.Text
import FlexiVerif.Model.Flw
namespace FV.Names
open FV FV.Flw

/-- the name-relevant part of a `FileSpec` (start-time part suppressed/pinned: it is a constant
    of the run and modelled as part of the discriminant when used) -/
structure Spec where
  basename : List Char
  discr : Option (List Char)
  suffix : Option (List Char)
  curToken : List Char := "rCURRENT".toList       -- `rCURRENT` or the custom current ifx
  fmt : Nat := 0                                   -- timestamp ifx format (see `renderStamp`)
deriving DecidableEq, Repr

def appendUnderscore (s : List Char) : List Char := if s.isEmpty then s else s ++ ['_']

/-- `fixed_name_part` -/
def fixedPart (sp : Spec) : List Char :=
  match sp.discr with
  | none => sp.basename
  | some d => appendUnderscore sp.basename ++ d

def pad (w : Nat) (n : Nat) : List Char := padLeft w '0' (natToText n)

/-- timestamp ifx from a packed stamp `YYYYMMDDhhmmss`.
    fmt 0: `r%Y-%m-%d_%H-%M-%S` (the standard format); fmt 1: `r%Y%m%d-%H%M%S`;
    fmt 2: `r%Y-%m-%d_%H-%M-%S_x` (longer than 20); fmt 3: `r%d-%m-%Y_%H-%M-%S` (day first: a
    legal format whose TEXT order is not the TIME order); fmt 4: `r%Y-%m-%d` (coarser than a
    second: the stamps handed to the model are truncated to the day by the driver, so that equal
    names are equal stamps); the year is printed with at least 4 digits. -/
def renderStamp (fmt : Nat) (k : Nat) : List Char :=
  let y := k / 10000000000
  let mo := k / 100000000 % 100
  let d := k / 1000000 % 100
  let h := k / 10000 % 100
  let mi := k / 100 % 100
  let s := k % 100
  match fmt with
  | 1 => ['r'] ++ pad 4 y ++ pad 2 mo ++ pad 2 d ++ ['-'] ++ pad 2 h ++ pad 2 mi ++ pad 2 s
  | 2 => ['r'] ++ pad 4 y ++ ['-'] ++ pad 2 mo ++ ['-'] ++ pad 2 d ++ ['_'] ++ pad 2 h ++ ['-'] ++
         pad 2 mi ++ ['-'] ++ pad 2 s ++ "_x".toList
  | 3 => ['r'] ++ pad 2 d ++ ['-'] ++ pad 2 mo ++ ['-'] ++ pad 4 y ++ ['_'] ++ pad 2 h ++ ['-'] ++
         pad 2 mi ++ ['-'] ++ pad 2 s
  | 4 => ['r'] ++ pad 4 y ++ ['-'] ++ pad 2 mo ++ ['-'] ++ pad 2 d
  | _ => ['r'] ++ pad 4 y ++ ['-'] ++ pad 2 mo ++ ['-'] ++ pad 2 d ++ ['_'] ++ pad 2 h ++ ['-'] ++
         pad 2 mi ++ ['-'] ++ pad 2 s

/-- `number_infix`: `r{idx:0>5}` -/
def numberInfix (n : Nat) : List Char := 'r' :: pad 5 n

def renderInfix (sp : Spec) : Infix → List Char
  | .cur => sp.curToken
  | .num n => numberInfix n
  | .ts k none => renderStamp sp.fmt k
  | .ts k (some r) => renderStamp sp.fmt k ++ ".restart-".toList ++ pad 4 r
  | .ext n => "moved".toList ++ natToText n

/-- `as_pathbuf(o_infix)` (file name only) plus `.gz` for compressed files -/
def render (sp : Spec) (n : FName) : List Char :=
  match n.ifx with
  | some (.ext k) => "moved-".toList ++ pad 4 k ++ ".bak".toList
  | _ =>
    let base := fixedPart sp
    let withInfix := match n.ifx with
      | none => base
      | some i => let r := renderInfix sp i; if r.isEmpty then base else appendUnderscore base ++ r
    let withSuffix := match sp.suffix with
      | none => withInfix
      | some s => withInfix ++ ['.'] ++ s
    if n.gz then withSuffix ++ ".gz".toList else withSuffix

/-! ### listing filters (`filter_files`, `InfixFilter`) -/

/-- Rust `Path::file_stem` / `Path::extension` of a file name: split at the LAST dot, unless
    there is none or the only one is the first character (`..` has no extension either) -/
def splitExt (name : List Char) : List Char × Option (List Char) :=
  if name = ['.', '.'] then (name, none) else
  match findLastDot name 0 none with
  | none => (name, none)
  | some 0 => (name, none)
  | some i => (name.take i, some (name.drop (i + 1)))
where
  findLastDot : List Char → Nat → Option Nat → Option Nat
    | [], _, acc => acc
    | c :: cs, i, acc => findLastDot cs (i + 1) (if c = '.' then some i else acc)

/-- `s.get(n..)` with a BYTE offset: `none` beyond the end or inside a character -/
def byteDrop : Nat → List Char → Option (List Char)
  | 0, s => some s
  | _ + 1, [] => none
  | n + 1, c :: cs => if utf8Len c ≤ n + 1 then byteDrop (n + 1 - utf8Len c) cs else none

/-- `s.as_bytes()[n] == b'_'` (a byte inside a multi-byte character is never `_`) -/
def byteIsUnderscore : Nat → List Char → Bool
  | _, [] => false
  | 0, c :: _ => c = '_'
  | n + 1, c :: cs => if utf8Len c ≤ n + 1 then byteIsUnderscore (n + 1 - utf8Len c) cs else false

inductive IFilter where
  | numbrs
  | timstmps
  | equls (s : List Char)
  | none
deriving DecidableEq, Repr

/-- `InfixFilter::filter_infix`; `tsOk` = "chrono parses this text with the timestamp format" -/
def filterInfix (tsOk : List Char → Bool) : IFilter → List Char → Bool
  | .numbrs, i => match i with
    | 'r' :: ds => decide (ds.length ≥ 5) && ds.all isDigit
    | _ => false
  | .timstmps, i => tsOk i
  | .equls s, i => i == s
  | .none, _ => false

/-- one element of `filter_files` (the caller has already checked that the name starts with the
    fixed name part) -/
def acceptFile (sp : Spec) (tsOk : List Char → Bool) (f : IFilter) (oSuffix : Option (List Char))
    (name : List Char) : Bool :=
  let se := splitExt name
  (match oSuffix with | some sfx => se.2 == some sfx | none => true) &&
  (let fixed := fixedPart sp
   let start := if fixed.isEmpty then 0 else blen fixed + 1
   if blen se.1 ≤ start then false
   else if start > 0 && !byteIsUnderscore (start - 1) se.1 then false
   else match byteDrop start se.1 with
     | none => false
     | some mi => filterInfix tsOk f (mi.takeWhile (· ≠ '.')))

/-- descending insertion sort of names (`sort_unstable` + `reverse`) -/
def insNameDesc (x : List Char) : List (List Char) → List (List Char)
  | [] => [x]
  | y :: ys => if ltText y x then x :: y :: ys else y :: insNameDesc x ys

/-- `read_dir_related_files`: the regular files whose name starts with the fixed part, newest name first -/
def relatedFiles (sp : Spec) (names : List (List Char)) : List (List Char) :=
  (names.filter (fun n => (fixedPart sp).isPrefixOf n)).foldr insNameDesc []

def filterFiles (sp : Spec) (tsOk : List Char → Bool) (f : IFilter) (oSuffix : Option (List Char))
    (files : List (List Char)) : List (List Char) :=
  files.filter (acceptFile sp tsOk f oSuffix)

structure Selector where
  plain : Bool
  rCurrent : Bool
  compressed : Bool
  custom : Option (List Char)
deriving DecidableEq, Repr

/-- `existing_log_files` (the result is sorted ascending by `LoggerHandle::existing_log_files`) -/
def existingLogFiles (sp : Spec) (tsOk : List Char → Bool) (useRotation : Bool) (f : IFilter)
    (sel : Selector) (names : List (List Char)) : List (List Char) :=
  if useRotation then
    let rel := relatedFiles sp names
    (if sel.plain then filterFiles sp tsOk f sp.suffix rel else []) ++
    (if sel.compressed then filterFiles sp tsOk f (some "gz".toList) rel else []) ++
    (if sel.rCurrent then filterFiles sp tsOk (.equls "rCURRENT".toList) sp.suffix rel else []) ++
    (match sel.custom with
      | some c => filterFiles sp tsOk (.equls c) sp.suffix rel
      | none => [])
  else [render sp ⟨none, false⟩]

/-! ### `FileSpec::try_from` -/

/-- `FileSpec::try_from(dir ++ "/" ++ file)`: (directory, basename, suffix); the directory of a
    bare file name is `.` (since the `fix:` commit) -/
def tryFrom (dir : Option (List Char)) (file : List Char) : List Char × List Char × Option (List Char) :=
  let se := splitExt file
  (match dir with | some d => if d.isEmpty then ".".toList else d | none => ".".toList, se.1, se.2)

/-- the file name `as_pathbuf(None)` gives for a spec derived by `try_from` -/
def tryFromName (file : List Char) : List Char :=
  let se := splitExt file
  render ⟨se.1, none, se.2, "rCURRENT".toList, 0⟩ ⟨none, false⟩

/-! ### the declarative family grammar (independent of the filter code) -/

/-- infixes a scheme produces for ROTATED files -/
def IsRotatedInfix (tsOk : List Char → Bool) (numbers : Bool) (i : List Char) : Prop :=
  if numbers then ∃ ds : List Char, i = 'r' :: ds ∧ ds.length ≥ 5 ∧ ∀ c ∈ ds, isDigit c = true
  else tsOk i = true

/-- `[basename][_discriminant]_<infix>[.restart-NNNN][.suffix][.gz]` -/
def IsFamilyName (sp : Spec) (tsOk : List Char → Bool) (numbers : Bool) (name : List Char) : Prop :=
  ∃ (i : List Char) (restart : List Char) (gz : Bool),
    IsRotatedInfix tsOk numbers i ∧ '.' ∉ i ∧
    (restart = [] ∨ (¬ numbers ∧ ∃ n : Nat, n < 10000 ∧ restart = ".restart-".toList ++ pad 4 n)) ∧
    name = (if (fixedPart sp).isEmpty then [] else fixedPart sp ++ ['_']) ++ i ++ restart ++
      (match sp.suffix with | some s => '.' :: s | none => []) ++ (if gz then ".gz".toList else [])

end FV.Names
