/-
  The in-memory log target behind `Logger::log_to_buffer` (`src/writers/buffer_writer.rs`,
  `BufferWriter::write`): a queue of formatted lines with a byte budget `max`. A line is
  represented by (index of the record, length of the formatted line).

    if !logline.is_empty() {
        if logline.len() > max { buffer.clear(); size = 0 }
        else { while size + logline.len() > max { if let Some(l) = buffer.pop_front() { size -= l.len() } } }
        buffer.push_back(logline); size += logline.len()
    }

  The `while` loop has no exit of its own when the queue is empty: it relies on `size` being the
  sum of the queued lengths. The model makes that visible: `evict` answers `none` where the
  loop of the code would spin forever (with the buffer's mutex held).
-/
namespace FV.Buf

structure St where
  max : Nat
  lines : List (Nat × Nat)       -- (record index, length), oldest first
  size : Nat
deriving DecidableEq, Repr

/-- the eviction loop; `none` = queue empty and still no room: the code would not leave the loop -/
def evict (max len : Nat) : List (Nat × Nat) → Nat → Option (List (Nat × Nat) × Nat)
  | [], size => if size + len ≤ max then some ([], size) else none
  | l :: rest, size =>
    if size + len ≤ max then some (l :: rest, size) else evict max len rest (size - l.2)

/-- `BufferWriter::write` for a formatted line of `len` bytes; `none` = the call does not return -/
def write (s : St) (i len : Nat) : Option St :=
  if len = 0 then some s
  else if len > s.max then some { s with lines := [(i, len)], size := len }
  else match evict s.max len s.lines s.size with
    | none => none
    | some (ls, size) => some { s with lines := ls ++ [(i, len)], size := size + len }

/-- a sequence of records (index = position); `none` = some call does not return -/
def run (s : St) : List Nat → Nat → Option St
  | [], _ => some s
  | len :: rest, i =>
    match write s i len with
    | none => none
    | some s' => run s' rest (i + 1)

def init (max : Nat) : St := ⟨max, [], 0⟩

end FV.Buf
