/-
  Model of the file log writer (`src/writers/file_log_writer/state.rs`, `state/numbers.rs`,
  `state/timestamps.rs`, `state/list_and_cleanup.rs`, the parts of `file_spec.rs` that decide
  names) over an abstract file system.

  * File names are structural (`Infix`); the rendering to strings and the string-level listing
    filters are in `Model/Names.lean`; the listing order used here (`Infix.key`) is the order
    of the rendered names under the guards proved there.
  * Time is a *stamp*: the local civil time packed as the decimal number `YYYYMMDDhhmmss`
    (order-isomorphic to the lexicographic order of the civil fields, which is what the code
    compares and what the timestamp ifx renders).
  * Every file-system call that can fail takes its outcome from an explicit fault argument, so
    "for all fault sequences" is an ordinary ∀.
  Import-free (core only).
-/
namespace FV.Flw

/-! ### abstract file system -/

inductive Infix where
  | cur                                   -- `rCURRENT` (or the configured current ifx)
  | num (n : Nat)                         -- `r00012`
  | ts (k : Nat) (r : Option Nat)         -- `r2024-01-31_10-00-00[.restart-0003]`
  | ext (n : Nat)                         -- a file moved away / unlinked by somebody else
deriving DecidableEq, Repr

structure FName where
  ifx : Option Infix                    -- `none`: the single file of a non-rotating writer
  gz : Bool
deriving DecidableEq, Repr

structure File where
  data : List Nat
  created : Nat                           -- stamp of creation (birth time)
deriving DecidableEq, Repr

def Dir := List (FName × File)

def Dir.get : Dir → FName → Option File
  | [], _ => none
  | (k, v) :: t, n => if k = n then some v else Dir.get t n

def Dir.erase (d : Dir) (n : FName) : Dir := List.filter (fun e => e.1 ≠ n) d
def Dir.set (d : Dir) (n : FName) (v : File) : Dir := (n, v) :: Dir.erase d n
def Dir.has (d : Dir) (n : FName) : Bool := (d.get n).isSome

/-- `std::fs::rename`: `false` = NotFound; an existing target is replaced -/
def Dir.rename (d : Dir) (a b : FName) : Dir × Bool :=
  match d.get a with
  | none => (d, false)
  | some v => ((d.erase a).set b v, true)

def Dir.append (d : Dir) (n : FName) (b : List Nat) : Dir :=
  match d.get n with
  | none => d                                   -- handle to a vanished file: bytes are lost
  | some f => d.set n { f with data := f.data ++ b }

/-! ### configuration -/

inductive Age where
  | day | hour | minute | second
deriving DecidableEq, Repr

/-- truncation of a packed civil stamp `YYYYMMDDhhmmss` to the period -/
def Age.trunc : Age → Nat → Nat
  | .second, k => k
  | .minute, k => k / 100
  | .hour, k => k / 10000
  | .day, k => k / 1000000

inductive Naming where
  | numbers | numbersDirect | timestamps | timestampsDirect
deriving DecidableEq, Repr

def Naming.writesDirect : Naming → Bool
  | .numbersDirect | .timestampsDirect => true
  | _ => false

structure RotCfg where
  maxSize : Option Nat                  -- `Criterion::Size n` / size part of `AgeOrSize`
  age : Option Age                      -- `Criterion::Age a` / age part of `AgeOrSize`
  naming : Naming
  cleanup : Option (Nat × Nat)          -- `none` = `Cleanup::Never`; `(k, m)` = keep k plain, m compressed
deriving DecidableEq, Repr

structure Cfg where
  rot : Option RotCfg
  append : Bool
  cap : Option Nat                      -- `BufWriter` capacity (`none`: direct)
  symlink : Bool
  hasSuffix : Bool := true              -- files without suffix are never compressed by the code
deriving DecidableEq, Repr

/-! ### writer state -/

structure Active where
  handle : FName            -- the file the open descriptor refers to (follows external renames)
  path : FName              -- `current_path`
  pending : List Nat        -- content of the `BufWriter`
  unbuffered : Bool         -- after `reopen_outputfile` the writer is a bare `File`
  idx : Nat                 -- numbers: index to rotate to (rCURRENT) / index of the current file (direct)
  stamp : Nat               -- timestamps: `current_timestamp`
  size : Nat                -- `current_size`
  created : Nat             -- `created_at`
deriving DecidableEq, Repr

inductive ErrKind where
  | write | logfile | flush
deriving DecidableEq, Repr

structure St where
  dir : Dir
  cfg : Cfg
  act : Option Active       -- `none` = `Inner::Initial`
  link : Option FName       -- target of the symlink
  linkGen : Nat := 0        -- number of times the symlink was (re)created
  errs : List ErrKind       -- error-channel events, oldest first
  extCtr : Nat := 0         -- fresh numbers for `Infix.ext`
  archived : List Dir := [] -- families left behind by `reset_flw` (never touched again)

/-- which fallible call of the current operation fails (0-based occurrence per kind) -/
structure Faults where
  openF : Option Nat := none
  renameF : Option Nat := none
  writeF : Option Nat := none
  removeF : Option Nat := none
  gzF : Option Nat := none
  /-- the copy into the encoder fails: the `.gz` has been created and is left behind — empty but
      well-formed, the dropped encoder finishes it —, the original stays -/
  gzCopyF : Option Nat := none
  /-- the final `finish()` of the encoder fails after the copy: a complete `.gz` next to the original -/
  gzFinishF : Option Nat := none
deriving DecidableEq, Repr

def noFaults : Faults := {}

/-! ### listing order and selection -/

/-- order of the rendered names (see `Names`): numbers by index; timestamps by stamp, the base
    name before its `.restart-NNNN` siblings -/
def Infix.key : Infix → Nat × Nat
  | .cur => (0, 0)
  | .num n => (n, 0)
  | .ts k none => (k, 0)
  | .ts k (some r) => (k, r + 1)
  | .ext _ => (0, 0)

def keyLt (a b : Nat × Nat) : Bool := a.1 < b.1 || (a.1 = b.1 && a.2 < b.2)

/-- rotated-file infixes the scheme's `InfixFilter` selects (never the current ifx) -/
def Infix.rotated : Infix → Bool
  | .num _ => true
  | .ts _ _ => true
  | _ => false

/-- insertion into a list sorted by descending key -/
def insDesc (x : FName × File) : List (FName × File) → List (FName × File)
  | [] => [x]
  | y :: ys =>
    match x.1.ifx, y.1.ifx with
    | some a, some b => if keyLt b.key a.key then x :: y :: ys else y :: insDesc x ys
    | _, _ => y :: insDesc x ys

def sortDesc (l : List (FName × File)) : List (FName × File) := l.foldr insDesc []

/-- `list_of_log_and_compressed_files`: plain files (newest name first) then compressed ones -/
def listing (d : Dir) : List (FName × File) :=
  let sel (gz : Bool) := d.filter (fun e => e.1.gz = gz && match e.1.ifx with
    | some i => i.rotated | none => false)
  sortDesc (sel false) ++ sortDesc (sel true)

/-! ### naming helpers -/

/-- `get_highest_index` (after the `fix:` that reads the index of compressed files correctly) -/
def highestIndex (d : Dir) : Option Nat :=
  d.foldl (fun acc e => match e.1.ifx with
    | some (.num n) => some (match acc with | none => n | some a => max a n)
    | _ => acc) none

/-- `collision_free_infix_for_rotated_file` for a timestamp ifx -/
def collisionFree (d : Dir) (k : Nat) : Infix :=
  let siblings : List Nat := d.filterMap (fun e => match e.1.ifx with
    | some (.ts k' (some r)) => if k' = k then some r else none
    | _ => none)
  let baseExists := d.has ⟨some (.ts k none), false⟩ || d.has ⟨some (.ts k none), true⟩
  if baseExists || !siblings.isEmpty then
    match siblings with
    | [] => .ts k (some 0)
    | s :: ss => .ts k (some (ss.foldl max s + 1))
  else .ts k none

/-- `infix_of_file_to_append_to` (direct timestamp naming with append, since the `fix:`): the file
    to continue is the newest one with this stamp — the plain file with the highest
    `.restart-NNNN` number if such siblings exist, else the plain base file; if there is no plain
    file to append to, a name that collides with nothing -/
def appendTarget (d : Dir) (k : Nat) : Infix :=
  let plainSiblings : List Nat := d.filterMap (fun e => match e.1.ifx, e.1.gz with
    | some (.ts k' (some r)), false => if k' = k then some r else none
    | _, _ => none)
  match plainSiblings with
  | s :: ss => .ts k (some (ss.foldl max s))
  | [] => if d.has ⟨some (.ts k none), false⟩ then .ts k none else collisionFree d k

/-- `latest_timestamp_file` when appending: newest stamp among the plain timestamp files -/
def latestStamp (d : Dir) : Option Nat :=
  d.foldl (fun acc e => match e.1.ifx, e.1.gz with
    | some (.ts k _), false => some (match acc with | none => k | some a => max a k)
    | _, _ => acc) none

/-- `get_creation_timestamp(path)`: birth time of the file, else the current time -/
def createdOr (d : Dir) (n : FName) (now : Nat) : Nat :=
  match d.get n with
  | some f => f.created
  | none => now

def hit (f : Option Nat) (n : Nat) : Bool := f = some n

/-! ### cleanup -/

/-- one pass of `remove_or_compress_too_old_logfiles_impl`. `rmCtr`/`gzCtr` count the calls so
    far (for fault injection). Returns the directory and whether an error aborted the pass. -/
def cleanupLoop (now : Nat) (hasSuffix : Bool) (k m : Nat) (fl : Faults) :
    List (FName × File) → Nat → Dir → Nat → Nat → Dir × Bool
  | [], _, d, _, _ => (d, false)
  | (n, f) :: rest, i, d, rmCtr, gzCtr =>
    if i ≥ k + m then
      if hit fl.removeF rmCtr then (d, true)
      else cleanupLoop now hasSuffix k m fl rest (i + 1) (d.erase n) (rmCtr + 1) gzCtr
    else if i ≥ k then
      if n.gz || !hasSuffix then cleanupLoop now hasSuffix k m fl rest (i + 1) d rmCtr gzCtr
      else if hit fl.gzF gzCtr then (d, true)
      else if hit fl.gzCopyF gzCtr then (d.set { n with gz := true } ⟨[], now⟩, true)
      else if hit fl.gzFinishF gzCtr then (d.set { n with gz := true } ⟨f.data, now⟩, true)
      else
        let gzName : FName := { n with gz := true }
        if hit fl.removeF rmCtr then ((d.set gzName ⟨f.data, now⟩), true)
        else cleanupLoop now hasSuffix k m fl rest (i + 1)
               ((d.set gzName ⟨f.data, now⟩).erase n) (rmCtr + 1) (gzCtr + 1)
    else cleanupLoop now hasSuffix k m fl rest (i + 1) d rmCtr gzCtr

def cleanup (now : Nat) (cfg : Cfg) (r : RotCfg) (fl : Faults) (d : Dir) : Dir × Bool :=
  match r.cleanup with
  | none => (d, false)
  | some (k, m) =>
    let k := if r.naming.writesDirect && k = 0 then 1 else k
    cleanupLoop now cfg.hasSuffix k m fl (listing d) 0 d 0 0

/-! ### opening, initialisation -/

/-- `open_log_file`: symlink, then open (create, append | truncate).
    Returns `none` if the (injected) open fails; the symlink has been moved by then. -/
def openFile (s : St) (n : FName) (now : Nat) (fl : Faults) (openCtr : Nat) : St × Bool :=
  let s := if s.cfg.symlink then { s with link := some n, linkGen := s.linkGen + 1 } else s
  if hit fl.openF openCtr then (s, false)
  else
    let d := match s.dir.get n with
      | some f => if s.cfg.append then s.dir else s.dir.set n { f with data := [] }
      | none => s.dir.set n ⟨[], now⟩
    ({ s with dir := d }, true)

def fileLen (d : Dir) (n : FName) : Nat :=
  match d.get n with
  | some f => f.data.length
  | none => 0

/-- `State::initState`. `false`: an error is returned to the caller (state stays `Initial`). -/
def initState (s : St) (now : Nat) (fl : Faults) : St × Bool :=
  match s.cfg.rot with
  | none =>
    let n : FName := ⟨none, false⟩
    let (s, ok) := openFile s n now fl 0
    if !ok then (s, false)
    else ({ s with act := some ⟨n, n, [], false, 0, 0, 0, 0⟩ }, true)
  | some r =>
    -- naming state and ifx; may rename a left-over current file
    let pre : Option (St × Infix × Nat × Nat) :=     -- state, ifx, idx, stamp
      match r.naming with
      | .timestampsDirect =>
        let t := if !s.cfg.append then now else (latestStamp s.dir).getD now
        -- without append the name is made collision-free (since the `fix:` commit)
        some (s, if !s.cfg.append then collisionFree s.dir t else appendTarget s.dir t, 0, t)
      | .timestamps =>
        let curN : FName := ⟨some .cur, false⟩
        if !s.cfg.append then
          let date := createdOr s.dir curN now
          let target : FName := ⟨some (collisionFree s.dir date), false⟩
          if hit fl.renameF 0 then none
          else
            let (d, _) := s.dir.rename curN target
            some ({ s with dir := d }, .cur, 0, now)          -- current file is gone: creation time = now
        else some (s, .cur, 0, createdOr s.dir curN now)
      | .numbers =>
        let idx := match highestIndex s.dir with | none => 0 | some h => h + 1
        if !s.cfg.append then
          if hit fl.renameF 0 then none
          else
            let (d, renamed) := s.dir.rename ⟨some .cur, false⟩ ⟨some (.num idx), false⟩
            some ({ s with dir := d }, .cur, if renamed then idx + 1 else idx, 0)
        else some (s, .cur, idx, 0)
      | .numbersDirect =>
        let idx := match highestIndex s.dir with
          | none => 0
          | some h => if s.cfg.append then h else h + 1
        some (s, .num idx, idx, 0)
    match pre with
    | none => (s, false)
    | some (s, ifx, idx, stamp) =>
      let n : FName := ⟨some ifx, false⟩
      let (s, ok) := openFile s n now fl 0
      if !ok then (s, false)
      else
        let size := if s.cfg.append then fileLen s.dir n else 0
        let created := createdOr s.dir n now
        let (d, cerr) := cleanup now s.cfg r fl s.dir
        if cerr then ({ s with dir := d }, false)
        else ({ s with dir := d, act := some ⟨n, n, [], false, idx, stamp, size, created⟩ }, true)

/-! ### buffered writing -/

/-- flush of the `BufWriter` (into the file the descriptor refers to) -/
def flushAct (s : St) (a : Active) : St × Active :=
  ({ s with dir := s.dir.append a.handle a.pending }, { a with pending := [] })

/-- `BufWriter::write_all` / `File::write_all` -/
def writeRaw (s : St) (a : Active) (b : List Nat) : St × Active :=
  match (if a.unbuffered then none else s.cfg.cap) with
  | none => ({ s with dir := s.dir.append a.handle b }, a)
  | some c =>
    let (s, a) := if a.pending.length + b.length > c then flushAct s a else (s, a)
    if b.length ≥ c then ({ s with dir := s.dir.append a.handle b }, a)
    else (s, { a with pending := a.pending ++ b })

/-! ### rotation -/

def rotationNecessary (r : RotCfg) (a : Active) (now : Nat) : Bool :=
  (match r.maxSize with | some mx => decide (a.size > mx) | none => false) ||
  (match r.age with | some ag => decide (ag.trunc a.created ≠ ag.trunc now) | none => false)

/-- `mount_next_linewriter_if_necessary` after the initial flush. Returns the state, the writer
    and whether an error was returned (`Err`). -/
def mountNextCore (s : St) (a : Active) (r : RotCfg) (force : Bool) (now : Nat) (fl : Faults) :
    St × Active × Bool :=
  if !(force || rotationNecessary r a now) then (s, a, false)
  else
    -- 1. choose the ifx (may rename the current file)
    let pre : Option (St × Active × Infix) :=
      match r.naming with
      | .timestamps =>
        if hit fl.renameF 0 then none
        else
          let target : FName := ⟨some (collisionFree s.dir a.stamp), false⟩
          let curN : FName := ⟨some .cur, false⟩
          let (d, renamed) := s.dir.rename curN target
          -- the open descriptor follows the renamed file
          let a := if renamed && a.handle = curN then { a with handle := target } else a
          some ({ s with dir := d }, { a with stamp := createdOr d curN now }, .cur)
      | .timestampsDirect =>
        some (s, { a with stamp := now }, collisionFree s.dir now)
      | .numbers =>
        if hit fl.renameF 0 then none
        else
          let target : FName := ⟨some (.num a.idx), false⟩
          let curN : FName := ⟨some .cur, false⟩
          let (d, renamed) := s.dir.rename curN target
          let a := if renamed && a.handle = curN then { a with handle := target } else a
          some ({ s with dir := d }, { a with idx := if renamed then a.idx + 1 else a.idx }, .cur)
      | .numbersDirect =>
        some (s, { a with idx := a.idx + 1 }, .num (a.idx + 1))
    match pre with
    | none => (s, a, true)
    | some (s, a, ifx) =>
      let n : FName := ⟨some ifx, false⟩
      let (s, ok) := openFile s n now fl 0
      if !ok then (s, a, true)
      else
        -- 2. replace the writer: the old `BufWriter` flushes into the old file when dropped
        let (s, a) := flushAct s a
        let a := { a with handle := n, path := n, unbuffered := false, size := 0,
                          created := createdOr s.dir n now }
        -- 3. cleanup
        let (d, cerr) := cleanup now s.cfg r fl s.dir
        ({ s with dir := d }, a, cerr)

/-- `mount_next_linewriter_if_necessary`: what is still buffered is written to the file that is
    rotated out BEFORE that file gets its final name (`current_write.flush()`), then the rotation
    proper (`mountNextCore`; the drop of the old `BufWriter` flushes again, now a no-op). -/
def mountNext (s : St) (a : Active) (r : RotCfg) (force : Bool) (now : Nat) (fl : Faults) :
    St × Active × Bool :=
  if !(force || rotationNecessary r a now) then (s, a, false)
  else
    let (s, a) := flushAct s a
    mountNextCore s a r true now fl

/-! ### operations -/

inductive Op where
  | write (b : List Nat)
  | rotate                      -- `trigger_rotation` / `FileLogWriter::rotate`
  | flush
  | shutdown
  | restart (cfg : Cfg)         -- new logger (new process) on the same directory
  | reset (cfg : Cfg)           -- `reset_flw`
  | extRename                   -- somebody renames the current output file away
  | extRemove                   -- somebody deletes the current output file
  | reopen                      -- `reopen_output`
deriving DecidableEq, Repr

inductive Res where
  | ok
  | err                         -- the call reported an error (to the caller or the error channel)
deriving DecidableEq, Repr

/-- `State::write_buffer` -/
def writeBuffer (s : St) (b : List Nat) (now : Nat) (fl : Faults) : St × Res :=
  -- 1. initialise lazily
  let (s, initOk) := match s.act with
    | some _ => (s, true)
    | none => initState s now fl
  if !initOk then ({ s with errs := s.errs ++ [.write] }, .err)
  else
    match s.act with
    | none => (s, .ok)      -- unreachable
    | some a =>
      -- 2. rotate if necessary; errors are reported, writing continues
      let (s, a, rerr) := match s.cfg.rot with
        | none => (s, a, false)
        | some r => mountNext s a r false now fl
      let s := if rerr then { s with errs := s.errs ++ [.logfile] } else s
      -- 3. write
      if hit fl.writeF 0 then
        ({ s with act := some a, errs := s.errs ++ [.write] }, .err)
      else
        let (s, a) := writeRaw s a b
        let a := { a with size := a.size + b.length }
        ({ s with act := some a }, if rerr then .err else .ok)

def step (s : St) (op : Op) (now : Nat) (fl : Faults) : St × Res :=
  match op with
  | .write b => writeBuffer s b now fl
  | .rotate =>
    match s.act, s.cfg.rot with
    | some a, some r =>
      let (s, a, rerr) := mountNext s a r true now fl
      ({ s with act := some a }, if rerr then .err else .ok)
    | _, _ => (s, .ok)
  | .flush | .shutdown =>
    match s.act with
    | some a => let (s, a) := flushAct s a; ({ s with act := some a }, .ok)
    | none => (s, .ok)
  | .restart cfg =>
    -- the old process is gone: what was still buffered is lost unless flushed before
    ({ s with cfg := cfg, act := none }, .ok)
  | .reset cfg =>
    -- the old state is dropped (its writer flushes), a fresh `Initial` state takes over
    let s := match s.act with
      | some a => (flushAct s a).1
      | none => s
    ({ s with cfg := cfg, act := none, archived := s.archived ++ [s.dir], dir := [] }, .ok)
  | .extRename =>
    match s.act with
    | some a =>
      let target : FName := ⟨some (.ext s.extCtr), false⟩
      let (d, renamed) := s.dir.rename a.handle target
      if renamed then ({ s with dir := d, act := some { a with handle := target }, extCtr := s.extCtr + 1 }, .ok)
      else (s, .ok)
    | none => (s, .ok)
  | .extRemove =>
    match s.act with
    | some a =>
      -- the descriptor stays open on the unlinked file: what is written to it is never seen again
      if s.dir.has a.handle then
        ({ s with dir := s.dir.erase a.handle, act := some { a with handle := ⟨some (.ext s.extCtr), false⟩ },
                  extCtr := s.extCtr + 1 }, .ok)
      else (s, .ok)
    | none => (s, .ok)
  | .reopen =>
    match s.act with
    | some a =>
      if hit fl.openF 0 then (s, .err)
      else
        -- open(create, append) at `path`; the old writer is dropped and flushes into its file
        let (s, a) := flushAct s a
        let d := match s.dir.get a.path with
          | some _ => s.dir
          | none => s.dir.set a.path ⟨[], now⟩
        ({ s with dir := d, act := some { a with handle := a.path, unbuffered := true } }, .ok)
    | none => (s, .ok)

def init (cfg : Cfg) (d : Dir) : St := { dir := d, cfg := cfg, act := none, link := none, errs := [] }

/-- a history: operations with the clock reading and the faults of each -/
def runOps (s : St) (ops : List (Op × Nat × Faults)) : St :=
  ops.foldl (fun s o => (step s o.1 o.2.1 o.2.2).1) s

/-! ### reading the directory the way the property does -/

/-- rotated files oldest → newest (ascending key), gz and plain alike -/
def insAsc (x : FName × File) : List (FName × File) → List (FName × File)
  | [] => [x]
  | y :: ys =>
    match x.1.ifx, y.1.ifx with
    | some a, some b => if keyLt a.key b.key then x :: y :: ys else y :: insAsc x ys
    | _, _ => y :: insAsc x ys

def rotatedAsc (d : Dir) : List (FName × File) :=
  (d.filter (fun e => match e.1.ifx with | some i => i.rotated | none => false)).foldr insAsc []

def insExt (x : Nat × File) : List (Nat × File) → List (Nat × File)
  | [] => [x]
  | y :: ys => if x.1 < y.1 then x :: y :: ys else y :: insExt x ys

/-- files moved away by somebody else, in the order in which they were moved -/
def extAsc (d : Dir) : List (Nat × File) :=
  (d.filterMap (fun e => match e.1.ifx with | some (.ext n) => some (n, e.2) | _ => none)).foldr insExt []

/-- everything on disk in reading order: files moved away (oldest first), rotated files oldest
    to newest (for the direct namings this includes the current file, which has the newest
    name), then `rCURRENT` / the plain file -/
def readAll (d : Dir) : List Nat :=
  ((extAsc d).map (·.2.data)).flatten ++
  ((rotatedAsc d).map (·.2.data)).flatten ++
  (match d.get ⟨some .cur, false⟩ with | some f => f.data | none => []) ++
  (match d.get ⟨none, false⟩ with | some f => f.data | none => [])

/-- the partition of the stream into files, in reading order -/
def parts (d : Dir) : List (List Nat) :=
  (extAsc d).map (·.2.data) ++ (rotatedAsc d).map (·.2.data) ++
  (match d.get ⟨some .cur, false⟩ with | some f => [f.data] | none => []) ++
  (match d.get ⟨none, false⟩ with | some f => [f.data] | none => [])

end FV.Flw
