import FlexiVerif.Model.Text
/-
  C20 — format functions, JSON escaping, line framing, deferred timestamp.

  Models `src/formats.rs` (the eight text formats and `json_format`), serde_json's string
  escaping, nu_ansi_term's `Style::paint` for the default palette, `DeferredNow::now`
  (`Option::get_or_insert_with`), the "format into a buffer, then append the line ending" step of
  `StateHandle::write` / `util::write_buffered`, `MultiWriter::write` (one `DeferredNow` handed to
  every output) and the recursive-logging path (inner calls are written first).

  Text = `List Char`; core Lean only; every function total and executable.
-/
namespace FV.Fmt
open FV

/-- values of key-value pairs: strings and unsigned numbers -/
inductive KV where
  | str (s : List Char)
  | num (n : Nat)
  deriving Repr, DecidableEq

/-- what a format function can see of a `log::Record` (plus the current thread's name) -/
structure Rec where
  level : Nat                      -- 1 = ERROR .. 5 = TRACE
  modulePath : Option (List Char)
  file : Option (List Char)
  line : Option Nat
  msg : List Char
  thread : Option (List Char)      -- thread name, if any
  kvs : List (List Char × KV)      -- key-value pairs in visiting order
  deriving Repr, DecidableEq

/-- `Display` of `log::Level` -/
def levelName : Nat → List Char
  | 1 => "ERROR".toList
  | 2 => "WARN".toList
  | 3 => "INFO".toList
  | 4 => "DEBUG".toList
  | _ => "TRACE".toList

/-- `"<unnamed>"` -/
def unnamed : List Char := "<unnamed>".toList

/-- `List.intercalate` on texts, defined here so that the model does not depend on the shape of
    the library definition -/
def joinWith (sep : List Char) : List (List Char) → List Char
  | [] => []
  | [x] => x
  | x :: y :: r => x ++ sep ++ joinWith sep (y :: r)

/-- one `key=value` of `KvStream::visit_pair` (`{key}={value:?}`) -/
def kvPair (dbg : KV → List Char) (p : List Char × KV) : List Char :=
  p.1 ++ '=' :: dbg p.2

/-- `write_key_value_pairs`: nothing without pairs, else `{k1=v1, k2=v2} ` -/
def kvPart (dbg : KV → List Char) (r : Rec) : List Char :=
  if r.kvs.isEmpty then []
  else '{' :: joinWith ", ".toList (r.kvs.map (kvPair dbg)) ++ "} ".toList

/-! ### colours: nu_ansi_term `Style::paint` with the default palette -/

/-- U+001B -/
def escC : Char := Char.ofNat 27

/-- foreground colour of the default palette: `none` = plain style -/
def paletteColor : Nat → Option Nat
  | 1 => some 196
  | 2 => some 208
  | 3 => none
  | 4 => some 27
  | _ => some 8

def paintPrefix (level : Nat) : List Char :=
  match paletteColor level with
  | none => []
  | some n => escC :: "[38;5;".toList ++ natToText n ++ ['m']

def paintSuffix (level : Nat) : List Char :=
  match paletteColor level with
  | none => []
  | some _ => escC :: "[0m".toList

/-- `style(level).paint(x)` rendered -/
def paint (level : Nat) (x : List Char) : List Char :=
  paintPrefix level ++ x ++ paintSuffix level

/-! ### the eight text formats -/

def fileOf (r : Rec) : List Char := r.file.getD unnamed
def lineOf (r : Rec) : List Char := natToText (r.line.getD 0)
def moduleOf (r : Rec) : List Char := r.modulePath.getD unnamed
def threadOf (r : Rec) : List Char := r.thread.getD unnamed

/-- `"{} [{}] "`, kv, args -/
def defaultFormat (dbg : KV → List Char) (r : Rec) : List Char :=
  levelName r.level ++ " [".toList ++ moduleOf r ++ "] ".toList ++ kvPart dbg r ++ r.msg

def coloredDefaultFormat (dbg : KV → List Char) (r : Rec) : List Char :=
  paint r.level (levelName r.level) ++ " [".toList ++ moduleOf r ++ "] ".toList ++ kvPart dbg r ++
    paint r.level r.msg

/-- `"[{}] {} [{}:{}] "`, kv, args -/
def optFormat (dbg : KV → List Char) (ts : List Char) (r : Rec) : List Char :=
  '[' :: ts ++ "] ".toList ++ levelName r.level ++ " [".toList ++ fileOf r ++ ':' :: lineOf r ++
    "] ".toList ++ kvPart dbg r ++ r.msg

def coloredOptFormat (dbg : KV → List Char) (ts : List Char) (r : Rec) : List Char :=
  '[' :: paint r.level ts ++ "] ".toList ++ paint r.level (levelName r.level) ++ " [".toList ++
    fileOf r ++ ':' :: lineOf r ++ "] ".toList ++ kvPart dbg r ++ paint r.level r.msg

/-- `"[{}] {} [{}] {}:{}: "`, kv, args -/
def detailedFormat (dbg : KV → List Char) (ts : List Char) (r : Rec) : List Char :=
  '[' :: ts ++ "] ".toList ++ levelName r.level ++ " [".toList ++ moduleOf r ++ "] ".toList ++
    fileOf r ++ ':' :: lineOf r ++ ": ".toList ++ kvPart dbg r ++ r.msg

def coloredDetailedFormat (dbg : KV → List Char) (ts : List Char) (r : Rec) : List Char :=
  '[' :: paint r.level ts ++ "] ".toList ++ paint r.level (levelName r.level) ++ " [".toList ++
    moduleOf r ++ "] ".toList ++ fileOf r ++ ':' :: lineOf r ++ ": ".toList ++ kvPart dbg r ++
    paint r.level r.msg

/-- `"[{}] T[{}] {} [{}:{}] "`, kv, args -/
def withThread (dbg : KV → List Char) (ts : List Char) (r : Rec) : List Char :=
  '[' :: ts ++ "] T[".toList ++ threadOf r ++ "] ".toList ++ levelName r.level ++ " [".toList ++
    fileOf r ++ ':' :: lineOf r ++ "] ".toList ++ kvPart dbg r ++ r.msg

def coloredWithThread (dbg : KV → List Char) (ts : List Char) (r : Rec) : List Char :=
  '[' :: paint r.level ts ++ "] T[".toList ++ paint r.level (threadOf r) ++ "] ".toList ++
    paint r.level (levelName r.level) ++ " [".toList ++ fileOf r ++ ':' :: lineOf r ++
    "] ".toList ++ kvPart dbg r ++ paint r.level r.msg

/-! ### JSON string escaping (serde_json `format_escaped_str`) and its decoder -/

/-- lower-case hex digit of `n < 16` -/
def hexDigit (n : Nat) : Char := if n < 10 then Char.ofNat (48 + n) else Char.ofNat (87 + n)

def hexVal (c : Char) : Option Nat :=
  if '0' ≤ c ∧ c ≤ '9' then some (c.toNat - 48)
  else if 'a' ≤ c ∧ c ≤ 'f' then some (c.toNat - 87)
  else if 'A' ≤ c ∧ c ≤ 'F' then some (c.toNat - 55) else none

def jsonEscapeChar (c : Char) : List Char :=
  if c = '"' then ['\\', '"']
  else if c = '\\' then ['\\', '\\']
  else if c = '\x08' then ['\\', 'b']
  else if c = '\x0c' then ['\\', 'f']
  else if c = '\n' then ['\\', 'n']
  else if c = '\r' then ['\\', 'r']
  else if c = '\t' then ['\\', 't']
  else if c.toNat < 32 then
    ['\\', 'u', '0', '0', hexDigit (c.toNat / 16), hexDigit (c.toNat % 16)]
  else [c]

def jsonEscape : List Char → List Char
  | [] => []
  | c :: r => jsonEscapeChar c ++ jsonEscape r

/-- the character denoted by the one-letter escape `\e` -/
def simpleEscape (e : Char) : Option Char :=
  if e = '"' then some '"'
  else if e = '\\' then some '\\'
  else if e = '/' then some '/'
  else if e = 'b' then some '\x08'
  else if e = 'f' then some '\x0c'
  else if e = 'n' then some '\n'
  else if e = 'r' then some '\r'
  else if e = 't' then some '\t'
  else none

/-- `\uXXXX` → character, if the four hex digits denote a valid scalar value -/
def unicodeEscape (a b c d : Char) : Option Char :=
  match hexVal a, hexVal b, hexVal c, hexVal d with
  | some a, some b, some c, some d =>
    let n := ((a * 16 + b) * 16 + c) * 16 + d
    if n.isValidChar then some (Char.ofNat n) else none
  | _, _, _, _ => none

/-- Decoder of the JSON string-content language: accepts the one-letter escapes, `\/`, `\uXXXX`
    (either case) for valid scalar values; rejects a raw `"`, raw control characters and
    malformed escapes. Structural recursion. -/
def jsonUnescape : List Char → Option (List Char)
  | [] => some []
  | c :: r =>
    if c = '\\' then
      match r with
      | [] => none
      | e :: r1 =>
        if e = 'u' then
          match r1 with
          | a :: b :: c :: d :: r2 =>
            match unicodeEscape a b c d with
            | some x => (jsonUnescape r2).map (x :: ·)
            | none => none
          | _ => none
        else
          match simpleEscape e with
          | some x => (jsonUnescape r1).map (x :: ·)
          | none => none
    else if c = '"' ∨ c.toNat < 32 then none
    else (jsonUnescape r).map (c :: ·)

/-! ### `json_format` -/

/-- `"<escaped>"` -/
def jsonStr (s : List Char) : List Char := '"' :: jsonEscape s ++ ['"']

/-- `BTreeMap::insert` on the sorted association list: ascending by `ltText`; an equal key has
    its value replaced. -/
def kvInsert (k : List Char) (v : KV) : List (List Char × KV) → List (List Char × KV)
  | [] => [(k, v)]
  | (k', v') :: rest =>
    if ltText k' k then (k', v') :: kvInsert k v rest
    else if ltText k k' then (k, v) :: (k', v') :: rest
    else (k, v) :: rest

/-- `Collect`: all pairs inserted in visiting order -/
def kvMap (kvs : List (List Char × KV)) : List (List Char × KV) :=
  kvs.foldl (fun m p => kvInsert p.1 p.2 m) []

def jsonValue : KV → List Char
  | .str s => jsonStr s
  | .num n => natToText n

/-- `"key":` -/
def jsonKey (k : List Char) : List Char := jsonStr k ++ [':']

def jsonMember (p : List Char × KV) : List Char := jsonKey p.1 ++ jsonValue p.2

/-- the serialized map `{"k":"v","n":3}` -/
def jsonKvObject (kvs : List (List Char × KV)) : List Char :=
  '{' :: joinWith [','] ((kvMap kvs).map jsonMember) ++ ['}']

def optField (key : String) (v : Option (List Char)) : List (List Char) :=
  match v with
  | none => []
  | some s => [jsonKey key.toList ++ jsonStr s]

/-- the members of `LogLine` in declaration order, skipped ones omitted -/
def jsonFields (ts : List Char) (r : Rec) : List (List Char) :=
  [jsonKey "level".toList ++ jsonStr (levelName r.level),
   jsonKey "timestamp".toList ++ jsonStr ts] ++
  optField "thread" r.thread ++
  optField "module_path" r.modulePath ++
  optField "file" r.file ++
  (match r.line with
   | none => []
   | some n => [jsonKey "line".toList ++ natToText n]) ++
  (if r.kvs.isEmpty then [] else [jsonKey "kv".toList ++ jsonKvObject r.kvs]) ++
  [jsonKey "text".toList ++ jsonStr r.msg]

/-- `serde_json::to_string(&logline)` -/
def jsonFormat (ts : List Char) (r : Rec) : List Char :=
  '{' :: joinWith [','] (jsonFields ts r) ++ ['}']

/-! ### framing -/

/-- format into the buffer, then `write_all(line_ending)` -/
def frame (le : List Char) (out : List Char) : List Char := out ++ le

/-! ### `DeferredNow` -/

/-- `Option::get_or_insert_with(clock)`: the value handed out and the new state -/
def now {T : Type} (clock : T) (d : Option T) : T × Option T :=
  match d with
  | some t => (t, some t)
  | none => (clock, some clock)

/-- A format function either ignores its `DeferredNow` argument (`default_format`,
    `colored_default_format`) or asks it for the timestamp. -/
inductive FmtFn where
  | noTs (f : Rec → List Char)
  | withTs (f : List Char → Rec → List Char)

def FmtFn.run (f : FmtFn) (ts : List Char) (r : Rec) : List Char :=
  match f with
  | .noTs g => g r
  | .withTs g => g ts r

/-- one output of `MultiWriter::write`: its format function and its line ending -/
structure Output where
  fmt : FmtFn
  le : List Char

/-- One log call with several outputs (duplicate to stderr, duplicate to stdout, file writer,
    additional writer — in this order in `MultiWriter::write`). Every output is paired with the
    reading the clock WOULD give at the moment this output is formatted; the same `DeferredNow`
    `d` is threaded through. Result: the framed line of every output, in order. -/
def renderOutputsFrom {T : Type} (render : T → List Char) (r : Rec) :
    Option T → List (Output × T) → List (List Char)
  | _, [] => []
  | d, (o, c) :: rest =>
    match o.fmt with
    | .noTs g => frame o.le (g r) :: renderOutputsFrom render r d rest
    | .withTs g =>
      let (t, d') := now c d
      frame o.le (g (render t) r) :: renderOutputsFrom render r d' rest

/-- `DeferredNow::new()` at the start of the log call -/
def renderOutputs {T : Type} (render : T → List Char) (r : Rec) (outs : List (Output × T)) :
    List (List Char) :=
  renderOutputsFrom render r none outs

/-- the reading that the first timestamp-using output observes -/
def firstReading {T : Type} : List (Output × T) → Option T
  | [] => none
  | (o, c) :: rest =>
    match o.fmt with
    | .noTs _ => firstReading rest
    | .withTs _ => some c

/-! ### recursive logging -/

/-- a record whose message, while being formatted, triggers the inner log calls -/
inductive RTree where
  | node (r : Rec) (inner : List RTree)

mutual
  /-- the lines in the order in which they reach the writer: the inner calls' lines (written
      while the outer message is still being formatted), then the outer line -/
  def emit (fmt : Rec → List Char) (le : List Char) : RTree → List (List Char)
    | .node r inner => emitList fmt le inner ++ [frame le (fmt r)]
  def emitList (fmt : Rec → List Char) (le : List Char) : List RTree → List (List Char)
    | [] => []
    | t :: ts => emit fmt le t ++ emitList fmt le ts
end

mutual
  /-- the records in post-order -/
  def postorder : RTree → List Rec
    | .node r inner => postorderList inner ++ [r]
  def postorderList : List RTree → List Rec
    | [] => []
    | t :: ts => postorder t ++ postorderList ts
end

mutual
  /-- number of records -/
  def RTree.size : RTree → Nat
    | .node _ inner => sizeList inner + 1
  def sizeList : List RTree → Nat
    | [] => 0
    | t :: ts => t.size + sizeList ts
end

/-- what the file contains afterwards -/
def emitBytes (fmt : Rec → List Char) (le : List Char) (t : RTree) : List Char :=
  (emit fmt le t).flatten

/-! ### a reader of the produced JSON line (specification side: how a consumer finds the members
    and the end of a string; not a model of flexi_logger code) -/

/-- Reads string content up to the first quote that is not part of an escape: the (still escaped)
    content and the rest after the closing quote. -/
def readString : List Char → Option (List Char × List Char)
  | [] => none
  | c :: r =>
    if c = '"' then some ([], r)
    else if c = '\\' then
      match r with
      | [] => none
      | e :: r1 => (readString r1).map (fun p => (c :: e :: p.1, p.2))
    else (readString r).map (fun p => (c :: p.1, p.2))

/-- position of the closing quote of a string whose content starts at the head of the input -/
def closingQuoteIndex (l : List Char) : Option Nat := (readString l).map (·.1.length)

/-- lexical mode of the member splitter -/
inductive Mode where
  | top   -- outside strings
  | str   -- inside a string
  | esc   -- inside a string, right after a backslash
  deriving DecidableEq

/-- Splits the text that follows the opening brace of an object into its members: cuts at commas
    that are outside strings and not nested in an inner object/array; stops at the closing brace
    of the object. `cur` = the current member, reversed. -/
def splitTopAux : Nat → Mode → List Char → List Char → List (List Char)
  | _, _, cur, [] => [cur.reverse]
  | d, .esc, cur, c :: r => splitTopAux d .str (c :: cur) r
  | d, .str, cur, c :: r =>
    if c = '\\' then splitTopAux d .esc (c :: cur) r
    else if c = '"' then splitTopAux d .top (c :: cur) r
    else splitTopAux d .str (c :: cur) r
  | d, .top, cur, c :: r =>
    if c = '"' then splitTopAux d .str (c :: cur) r
    else if c = '{' ∨ c = '[' then splitTopAux (d + 1) .top (c :: cur) r
    else if c = '}' ∨ c = ']' then
      match d with
      | 0 => [cur.reverse]
      | d' + 1 => splitTopAux d' .top (c :: cur) r
    else if c = ',' ∧ d = 0 then cur.reverse :: splitTopAux 0 .top [] r
    else splitTopAux d .top (c :: cur) r

/-- the members `"key":value` of a one-line JSON object -/
def splitTop : List Char → Option (List (List Char))
  | '{' :: r => some (splitTopAux 0 .top [] r)
  | _ => none

/-- `some rest` if `l = pre ++ rest` -/
def dropPrefix? : List Char → List Char → Option (List Char)
  | [], l => some l
  | _ :: _, [] => none
  | p :: ps, c :: cs => if p = c then dropPrefix? ps cs else none

/-- the escaped content of a member `"key":"…"`, if the member has this key and a string value -/
def memberString? (key : List Char) (m : List Char) : Option (List Char) :=
  match dropPrefix? ('"' :: key ++ "\":\"".toList) m with
  | none => none
  | some rest =>
    match readString rest with
    | some (content, []) => some content
    | _ => none

/-- the escaped content of the first top-level member `"key":"…"` of the object -/
def fieldString? (key : List Char) (obj : List Char) : Option (List Char) :=
  match splitTop obj with
  | none => none
  | some ms => ms.findSome? (memberString? key)

/-- the raw text of the value of the first top-level member with this key (any kind of value) -/
def fieldRaw? (key : List Char) (obj : List Char) : Option (List Char) :=
  match splitTop obj with
  | none => none
  | some ms => ms.findSome? (dropPrefix? ('"' :: key ++ "\":".toList))

/-- the value stored under a key in an association list (first hit) -/
def kvGet (k : List Char) : List (List Char × KV) → Option KV
  | [] => none
  | (k', v) :: rest => if k' = k then some v else kvGet k rest

end FV.Fmt
