/-
  Text layer shared by the models: the handful of `str` functions of Rust's std that
  flexi_logger's parsing and naming code relies on, over `List Char`.
  Import-free (core only) so that the driver links as a `lean_exe`.
-/
namespace FV

/-- Rust `str::split(char)`: always at least one piece. -/
def splitOn (sep : Char) : List Char → List (List Char)
  | [] => [[]]
  | c :: cs =>
    if c = sep then [] :: splitOn sep cs
    else match splitOn sep cs with
      | [] => [[c]]
      | h :: t => (c :: h) :: t

/-- Rust `char::is_whitespace` (Unicode `White_Space`). -/
def isWs (c : Char) : Bool :=
  let n := c.toNat
  n = 0x20 || (0x09 ≤ n && n ≤ 0x0D) || n = 0x85 || n = 0xA0 || n = 0x1680 ||
  (0x2000 ≤ n && n ≤ 0x200A) || n = 0x2028 || n = 0x2029 || n = 0x202F || n = 0x205F || n = 0x3000

def trimStart (s : List Char) : List Char := s.dropWhile isWs
def trimEnd (s : List Char) : List Char := (s.reverse.dropWhile isWs).reverse
/-- Rust `str::trim`. -/
def trim (s : List Char) : List Char := trimEnd (trimStart s)

def hasWs (s : List Char) : Bool := s.any isWs

/-- number of bytes of the UTF-8 encoding of a character (Rust `char::len_utf8`) -/
def utf8Len (c : Char) : Nat :=
  let n := c.toNat
  if n < 0x80 then 1 else if n < 0x800 then 2 else if n < 0x10000 then 3 else 4

/-- Rust `str::len` (bytes) -/
def blen (s : List Char) : Nat := (s.map utf8Len).sum

/-- ASCII lower-casing. Rust's `to_lowercase` is the Unicode mapping; the only non-ASCII
    character that lower-cases to an ASCII letter is U+212A (KELVIN SIGN → `k`), which is
    mapped here as well, so that equality with an all-ASCII word is decided exactly as by
    `s.to_lowercase() == word`. -/
def lowerChar (c : Char) : Char :=
  if 'A' ≤ c ∧ c ≤ 'Z' then Char.ofNat (c.toNat + 32)
  else if c.toNat = 0x212A then 'k' else c

def lower (s : List Char) : List Char := s.map lowerChar

/-- `a.starts_with(b)` -/
def startsWith (a b : List Char) : Bool := b.isPrefixOf a

/-- Rust `str::find(pat)` for a pattern, as *character* index of the first match -/
def findSub (pat : List Char) : List Char → Option Nat
  | [] => if pat.isEmpty then some 0 else none
  | c :: cs =>
    if pat.isPrefixOf (c :: cs) then some 0
    else (findSub pat cs).map (· + 1)

def containsSub (pat s : List Char) : Bool := (findSub pat s).isSome

/-- lexicographic comparison of strings by code point (= byte order of UTF-8) -/
def ltText : List Char → List Char → Bool
  | [], [] => false
  | [], _ :: _ => true
  | _ :: _, [] => false
  | a :: as, b :: bs => if a.toNat < b.toNat then true else if b.toNat < a.toNat then false else ltText as bs

/-- insertion sort, ascending by `ltText` -/
def insText (x : List Char) : List (List Char) → List (List Char)
  | [] => [x]
  | y :: ys => if ltText y x then y :: insText x ys else x :: y :: ys

def sortText (l : List (List Char)) : List (List Char) := l.foldr insText []

/-- decimal rendering, at least `w` digits (Rust `{:0>w}`) -/
def digitChar (n : Nat) : Char := Char.ofNat (48 + n % 10)

def natDigits : Nat → Nat → List Char
  | 0, _ => []
  | fuel + 1, n => if n < 10 then [digitChar n] else natDigits fuel (n / 10) ++ [digitChar n]

def natToText (n : Nat) : List Char := natDigits (n + 1) n

def padLeft (w : Nat) (c : Char) (s : List Char) : List Char :=
  List.replicate (w - s.length) c ++ s

def isDigit (c : Char) : Bool := '0' ≤ c && c ≤ '9'

/-- Rust `str::parse::<u32/usize>()` on plain ASCII digits (an optional leading `+` is accepted
    by Rust; modelled). `none` on empty input or any other character. No overflow modelled:
    the caller states the bound. -/
def parseNatDigits : List Char → Nat → Option Nat
  | [], acc => some acc
  | c :: cs, acc => if isDigit c then parseNatDigits cs (acc * 10 + (c.toNat - 48)) else none

def parseNat (s : List Char) : Option Nat :=
  match s with
  | [] => none
  | '+' :: rest => if rest.isEmpty then none else parseNatDigits rest 0
  | _ => parseNatDigits s 0

end FV
