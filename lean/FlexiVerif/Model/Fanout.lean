/-
  The fan-out of one call over all configured writers (src/logger_handle.rs `reopen_output`,
  `trigger_rotation`, `flush`, `shutdown`; src/primary_writer/multi_writer.rs `flush`,
  `reopen_output`, `trigger_rotation`): the primary writer's parts first, then every additional
  writer; EVERY writer is called whatever the earlier ones returned, and the first error is what
  the caller gets. A writer is represented by the outcome of its call (`true` = Ok).
  Import-free, executable.
-/
namespace FV.Fanout

structure Result where
  called : List Nat        -- which writers were called (positions), in order
  ok : Bool                -- `Ok(())` for the caller
  firstErr : Option Nat    -- the writer whose error is reported
deriving DecidableEq, Repr

/-- the loop of the handle: call every writer, remember the first error -/
def callAllFrom : List Bool → Nat → Result → Result
  | [], _, r => r
  | o :: rest, i, r =>
    callAllFrom rest (i + 1)
      { called := r.called ++ [i], ok := r.ok && o,
        firstErr := if r.firstErr.isNone && !o then some i else r.firstErr }

def callAll (ws : List Bool) : Result := callAllFrom ws 0 ⟨[], true, none⟩

/-- a chain that stops at the first error (`collect::<Result<_, _>>()`, `?` in a loop) — the seeded
    change C18f -/
def callUntilErrorFrom : List Bool → Nat → Result → Result
  | [], _, r => r
  | o :: rest, i, r =>
    if o then callUntilErrorFrom rest (i + 1) { r with called := r.called ++ [i] }
    else { called := r.called ++ [i], ok := false, firstErr := some i }

def callUntilError (ws : List Bool) : Result := callUntilErrorFrom ws 0 ⟨[], true, none⟩

/-- a `match` whose first arm wins when the file writer is there — the seeded change C04g
    (`MultiWriter::flush`): position 0 = file writer, 1 = the other writer -/
def flushFirstArm (file other : Option Bool) : Result :=
  match file, other with
  | none, none => ⟨[], true, none⟩
  | some f, _ => ⟨[0], f, if f then none else some 0⟩
  | none, some o => ⟨[1], o, if o then none else some 1⟩

end FV.Fanout
