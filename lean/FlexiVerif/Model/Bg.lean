/-
  The background cleanup thread (C07, "all interleavings of cleanup steps with further
  rotations"), abstractly: the logging thread rotates (a new newest rotated file appears) and
  hands an `Act` message to the thread; the thread takes a message, lists the directory, and
  works through the plan it derived from THAT listing, one file operation at a time, while the
  logging thread goes on rotating.

  `src/writers/file_log_writer/state/list_and_cleanup.rs`: `start_cleanup_thread` (message loop),
  `remove_or_compress_too_old_logfiles_impl` (`plan`), `list_of_log_and_compressed_files`
  (`listing`: plain files newest first, THEN compressed files newest first).

  Rotated files are immutable once they have their final name (since the `fix:` that flushes
  before the rename), so a file operation of the thread and a rotation commute; what is modelled
  is their order.
-/
namespace FV.Bg

/-- a rotated file: its rank of creation (strictly increasing in the order of rotation) and
    whether it has been compressed -/
structure RF where
  id : Nat
  gz : Bool
deriving DecidableEq, Repr

/-- the rotated files of the directory, oldest first -/
abbrev Dir := List RF

/-- `list_of_log_and_compressed_files`: the plain files newest first, then the compressed files
    newest first -/
def listing (d : Dir) : List RF := (d.filter (fun f => !f.gz)).reverse ++ (d.filter (fun f => f.gz)).reverse

inductive Act where
  | remove (id : Nat)
  | compress (id : Nat)
deriving DecidableEq, Repr

/-- the plan of one pass: index ≥ k+m ⇒ remove, index ≥ k ⇒ compress unless compressed already -/
def plan (k m : Nat) : List RF → Nat → List Act
  | [], _ => []
  | f :: rest, i =>
    if i ≥ k + m then .remove f.id :: plan k m rest (i + 1)
    else if i ≥ k then (if f.gz then plan k m rest (i + 1) else .compress f.id :: plan k m rest (i + 1))
    else plan k m rest (i + 1)

def apply (d : Dir) : Act → Dir
  | .remove id => d.filter (fun f => f.id ≠ id)
  | .compress id => d.map (fun f => if f.id = id then { f with gz := true } else f)

/-- the synchronous cleanup: one whole pass, nothing in between -/
def pass (k m : Nat) (d : Dir) : Dir := (plan k m (listing d) 0).foldl apply d

structure Sys where
  d : Dir := []
  next : Nat := 0          -- rank of the next rotated file
  queue : Nat := 0         -- `Act` messages sent and not yet taken by the thread
  cur : List Act := []     -- what is left of the pass the thread is working on
deriving Repr

inductive Step where
  | kick        -- logging thread: `Act` without a new file (the cleanup at start-up)
  | rotate      -- logging thread: a file is rotated out, `Act` is sent
  | take        -- cleanup thread: takes the next message and lists the directory
  | exec        -- cleanup thread: the next file operation of its plan
deriving DecidableEq, Repr

def step (k m : Nat) (s : Sys) : Step → Sys
  | .kick => { s with queue := s.queue + 1 }
  | .rotate => { s with d := s.d ++ [⟨s.next, false⟩], next := s.next + 1, queue := s.queue + 1 }
  | .take => if s.cur = [] ∧ s.queue > 0 then { s with queue := s.queue - 1, cur := plan k m (listing s.d) 0 } else s
  | .exec => match s.cur with
    | [] => s
    | a :: rest => { s with d := apply s.d a, cur := rest }

def run (k m : Nat) (s : Sys) (sched : List Step) : Sys := sched.foldl (step k m) s

/-- `shutdown()`: `Die` is queued behind every `Act`; the thread works everything off -/
def drain (k m : Nat) : Nat → Sys → Sys
  | 0, s => s
  | fuel + 1, s =>
    match s.cur with
    | _ :: _ => drain k m fuel (step k m s .exec)
    | [] => if s.queue > 0 then drain k m fuel (step k m s .take) else s

/-- enough fuel: every queued message costs one `take` and at most one operation per file -/
def drainAll (k m : Nat) (s : Sys) : Sys := drain k m (s.cur.length + s.queue * (s.d.length + 2) + 1) s

/-- the cleanup in the logging thread: every rotation is followed by a whole pass -/
def syncDir (k m : Nat) : Nat → Dir
  | 0 => []
  | n + 1 => pass k m (syncDir k m n ++ [⟨n, false⟩])

def rotations (sched : List Step) : Nat := (sched.filter (· = .rotate)).length

end FV.Bg
