/-
  The start-time part of the file names as the builder decides it
  (src/writers/file_log_writer/builder.rs `rotate`, `o_rotate`, `file_spec`;
  src/parameters/file_spec.rs `TimestampCfg`, `if_default_use_timestamp`, `get_timestamp`):
  "without rotation a timestamp is by default included into the name, with rotation it is by
  default suppressed" — whatever the order of the builder calls. Import-free, executable.
-/
namespace FV.Builder

/-- `TimestampCfg` -/
inductive Ts where
  | dflt | yes | no
deriving DecidableEq, Repr

structure B where
  ts : Ts := .dflt          -- of the FileSpec the builder holds
  rot : Bool := false       -- `o_rotation_config.is_some()`
deriving DecidableEq, Repr

/-- `FileSpec::if_default_use_timestamp` -/
def ifDefault (ts : Ts) (use : Bool) : Ts :=
  match ts with
  | .dflt => if use then .yes else .no
  | t => t

inductive Call where
  | rotate                  -- `rotate(criterion, naming, cleanup)`
  | oRotate (on : Bool)     -- `o_rotate(Some(..))` / `o_rotate(None)`
  | fileSpec (ts : Ts)      -- `Logger::log_to_file(spec)` → `FileLogWriterBuilder::file_spec(spec)`
deriving DecidableEq, Repr

def call (b : B) : Call → B
  | .rotate => { rot := true, ts := ifDefault b.ts false }
  | .oRotate true => { rot := true, ts := ifDefault b.ts false }
  | .oRotate false => { rot := false, ts := ifDefault b.ts true }
  | .fileSpec ts => { b with ts := if b.rot then ifDefault ts false else ts }

def build (calls : List Call) : B := calls.foldl call {}

/-- `TimestampCfg::get_timestamp().is_some()`: do the file names carry the start time? -/
def hasStartTime (b : B) : Bool :=
  match b.ts with
  | .no => false
  | _ => true

end FV.Builder
