import FlexiVerif.Props.C02
/-
  C05 — Run-time specification changes take full effect; push/pop is an exact stack.
-/
namespace FV.C05
open FV FV.Spec

/-- The abstract specification: a non-empty stack of specifications, head = active. -/
def abs (h : Handle) : List LogSpec := h.active :: h.stack

def astep : List LogSpec → HOp → List LogSpec
  | [], _ => []
  | _ :: st, .set s => s :: st
  | a :: st, .parseNew r => if r.ok then r.spec :: st else a :: st
  | a :: st, .push s => s :: a :: st
  | a :: st, .parsePush r => if r.ok then r.spec :: a :: st else a :: st
  | a :: st, .pop => match st with
    | [] => [a]
    | p :: rest => p :: rest

def run (h : Handle) (ops : List HOp) : Handle := ops.foldl (fun h op => (h.step op).1) h

/-- every single operation of the handle is the abstract stack operation -/
theorem step_refines (h : Handle) (op : HOp) : abs (h.step op).1 = astep (abs h) op := by
  cases op with
  | set s => simp [abs, Handle.step, Handle.setNew, astep]
  | parseNew r =>
    by_cases hr : r.ok = true <;> simp [abs, Handle.step, Handle.setNew, astep, hr]
  | push s => simp [abs, Handle.step, Handle.setNew, astep]
  | parsePush r =>
    by_cases hr : r.ok = true <;> simp [abs, Handle.step, Handle.setNew, astep, hr]
  | pop =>
    cases hs : h.stack with
    | nil => simp [abs, Handle.step, astep, hs]
    | cons p rest => simp [abs, Handle.step, Handle.setNew, astep, hs]

/-- **C05 core (refinement).** For every finite sequence of the five reconfiguration operations
    the handle behaves exactly like the abstract stack of specifications. -/
theorem run_refines (h : Handle) (ops : List HOp) : abs (run h ops) = ops.foldl astep (abs h) := by
  induction ops generalizing h with
  | nil => rfl
  | cons op ops ih =>
    simp only [run, List.foldl] at *
    rw [ih, step_refines]

/-- the answer (`Ok`/`Err`) is `Err` exactly for a rejected string -/
theorem step_result (h : Handle) (op : HOp) :
    (h.step op).2 = match op with
      | .parseNew r => r.ok
      | .parsePush r => r.ok
      | _ => true := by
  cases op with
  | set s => rfl
  | parseNew r => by_cases hr : r.ok = true <;> simp [Handle.step, hr]
  | push s => rfl
  | parsePush r => by_cases hr : r.ok = true <;> simp [Handle.step, hr]
  | pop => cases hs : h.stack <;> simp [Handle.step, hs]

/-- A specification string that is rejected leaves the active specification, the stack of
    saved specifications and the global max level unchanged. -/
theorem malformed_leaves_state (h : Handle) (r : PR) (hr : r.ok = false) :
    h.step (.parseNew r) = (h, false) ∧ h.step (.parsePush r) = (h, false) := by
  simp [Handle.step, hr]

/-- pop re-activates precisely the specification that was active before the matching push -/
theorem push_pop (l : List LogSpec) (s : LogSpec) (hl : l ≠ []) : astep (astep l (.push s)) .pop = l := by
  cases l with
  | nil => exact absurd rfl hl
  | cons a st => simp [astep]

theorem parsePush_pop (l : List LogSpec) (r : PR) (hl : l ≠ []) (hr : r.ok = true) :
    astep (astep l (.parsePush r)) .pop = l := by
  cases l with
  | nil => exact absurd rfl hl
  | cons a st => simp [astep, hr]

/-- pop on an empty stack changes nothing at all -/
theorem pop_empty (h : Handle) (hs : h.stack = []) : h.step .pop = (h, true) := by
  simp [Handle.step, hs]

/-- The max-level gate always belongs to the active specification. -/
def GateInv (h : Handle) : Prop := h.gate = gateFor h.ceilings h.active

theorem step_gate (h : Handle) (op : HOp) (hi : GateInv h) : GateInv (h.step op).1 := by
  cases op with
  | set s => simp [GateInv, Handle.step, Handle.setNew]
  | parseNew r => by_cases hr : r.ok = true <;> simp [GateInv, Handle.step, Handle.setNew, hr]; exact hi
  | push s => simp [GateInv, Handle.step, Handle.setNew]
  | parsePush r => by_cases hr : r.ok = true <;> simp [GateInv, Handle.step, Handle.setNew, hr]; exact hi
  | pop =>
    cases hs : h.stack with
    | nil => simp [Handle.step, hs]; exact hi
    | cons p rest => simp [GateInv, Handle.step, Handle.setNew, hs]

theorem run_gate (h : Handle) (ops : List HOp) (hi : GateInv h) : GateInv (run h ops) := by
  induction ops generalizing h with
  | nil => exact hi
  | cons op ops ih => exact ih _ (step_gate h op hi)

/-- After every sequence of operations the global max level admits every record that the then
    active specification enables (C02's gate property keeps holding across reconfiguration). -/
theorem gate_admits_after_run (h : Handle) (ops : List HOp) (hi : GateInv h)
    (lvl : Nat) (t : List Char) (he : enabled (run h ops).active.filters lvl t = true) :
    lvl ≤ (run h ops).gate := by
  have hg := run_gate h ops hi
  have := C02.gate_admits_spec (run h ops) (run h ops).active lvl t he
  simp only [Handle.setNew] at this
  rw [hg]; exact this

/-- Regression statement for the repaired defect: the former behaviour (push before parse) did
    change the stack on a rejected string. -/
theorem pushFirst_violation_witness :
    ∃ (h : Handle) (r : PR), r.ok = false ∧ (h.stepPushFirst (.parsePush r)).1.stack ≠ h.stack :=
  ⟨⟨⟨[], none⟩, [], 0, []⟩, ⟨false, [], none⟩, rfl, by simp [Handle.stepPushFirst]⟩

/-! ### non-vacuity: a nested history with a failing parse in the middle -/
example :
    let s1 : LogSpec := ⟨[⟨none, 3⟩], none⟩
    let s2 : LogSpec := ⟨[⟨none, 5⟩], none⟩
    let h0 : Handle := (⟨s1, [], 0, [2]⟩ : Handle).setNew s1
    let h := run h0 [.push s2, .parsePush ⟨false, [], none⟩, .pop]
    h.active = s1 ∧ h.stack = [] ∧ h.gate = 3 := by decide

end FV.C05
