import FlexiVerif.Lemmas.FlwReopen
import FlexiVerif.Lemmas.FlwReopenDirect
/-
  C18 — `reopen_output` and `reset_flw` switch files without losing or reordering records.

  Setting: synchronous modes (every `cfg.cap`), no faults, start `init cfg []`.
  A.1 non-rotating writer; histories over `write`, `flush`, `shutdown`, `extRename`, `reopen`
      (and `rotate`, a no-op there), any order and number, any clock, any `cfg.append`:
      `reopen_files`, `reopen_stream`, `reopen_stream_flushed`, `reopen_stream_synced`,
      `reopen_flushes_into_old_file`.
  A.2 … and `extRemove`: `removed_writes_lost`, `remove_then_reopen` (the history before the
      deletion is one of A.1).
  B.  `reset_flw`, arbitrary configurations before and after (all four naming schemes and the
      non-rotating writer; no append, no cleanup), monotone clock: `reset_stream`,
      `reset_flushes_old_writer`, `reset_separates`.
  C.  rotation (`numbers` / `timestamps`, or none) together with `extRename` / `reopen`, any
      clock: the order-free statement `rotation_rename_files`. (`extRemove` and the direct
      namings are not part of C.)
  D.  the same for every naming scheme, i.e. also `numbersDirect` / `timestampsDirect`:
      `rotation_rename_files_all` (as stated, with a monotone clock),
      `rotation_rename_files_any_clock` (the clock hypothesis is not needed),
      `direct_path_free` (a direct-scheme rotation / `reopen` never re-opens an existing file).
  All statements are proved in full; nothing is `_partial`.
-/
namespace FV.C18
open FV.Flw FV.FlwA FV.Reopen

/-! ## A.1 — external rename and `reopen_output`, non-rotating writer -/

/-- histories over `write`, `flush`, `shutdown`, `extRename`, `reopen` (and `rotate`, which a
    non-rotating writer ignores), without faults; no condition on the clock -/
def HistA1 (ops : List (Op × Nat × Faults)) : Prop :=
  ∀ o ∈ ops, opA1 o.1 = true ∧ o.2.2 = noFaults

/-- what `withPending` is: the same files under the same names, the content of the buffer
    appended to the data of the file the open descriptor refers to (restated from
    `Reopen.withPending_get` for reference) -/
theorem withPending_spec (s : St) (n : FName) :
    (withPending s).get n =
      match s.act with
      | none => s.dir.get n
      | some a =>
        if n = a.handle then (s.dir.get n).map (fun f => ⟨f.data ++ a.pending, f.created⟩)
        else s.dir.get n := withPending_get s n

/-- **The files.** At every point of such a history every file on disk — the files moved away,
    in the order in which they were moved, then the file at the original path — holds a
    contiguous run of whole records, the runs in reading order are the history; the content of
    the buffer belongs to the file the open descriptor refers to (`withPending`: `Dir.append`
    appends to the data of exactly that file, wherever it is in reading order).
    In this model that file is always the last one in reading order (a new file at the
    original path only appears in `reopen`, which flushes first), so `viewFiles` — which counts
    the buffer to the last file — gives the same partition. -/
theorem reopen_files (cfg : Cfg) (hrot : cfg.rot = none) (ops : List (Op × Nat × Faults))
    (h : HistA1 ops) :
    ∃ groups : List (List (List Nat)), groups.flatten = records ops ∧
      parts (withPending (runOps (init cfg []) ops)) = groups.map List.flatten ∧
      viewFiles (runOps (init cfg []) ops) = groups.map List.flatten ∧
      ((∀ a, (runOps (init cfg []) ops).act = some a → a.pending = []) →
        parts (runOps (init cfg []) ops).dir = groups.map List.flatten) := by
  have := run_chron_none hrot ops (init cfg []) [] (chron_init cfg) h
  rw [List.nil_append] at this
  exact chron_parts_norot hrot this

/-- **`reopen_stream`.** `readAll` of the directory with the buffer inserted directly after the
    data of the file the descriptor refers to is the stream of everything logged: nothing lost,
    duplicated or reordered, whatever was renamed away and reopened in between. -/
theorem reopen_stream (cfg : Cfg) (hrot : cfg.rot = none) (ops : List (Op × Nat × Faults))
    (h : HistA1 ops) :
    readAll (withPending (runOps (init cfg []) ops)) = written ops ∧
    (viewFiles (runOps (init cfg []) ops)).flatten = written ops := by
  obtain ⟨groups, h1, h2, h3, -⟩ := reopen_files cfg hrot ops h
  rw [← parts_flatten, h2, h3, written, ← h1, flatten_map_flatten]
  exact ⟨rfl, rfl⟩

/-- … hence whenever the buffer is empty the files themselves are the stream -/
theorem reopen_stream_flushed (cfg : Cfg) (hrot : cfg.rot = none) (ops : List (Op × Nat × Faults))
    (h : HistA1 ops)
    (hp : ∀ a, (runOps (init cfg []) ops).act = some a → a.pending = []) :
    readAll (runOps (init cfg []) ops).dir = written ops := by
  obtain ⟨groups, h1, -, -, h4⟩ := reopen_files cfg hrot ops h
  rw [← parts_flatten, h4 hp, written, ← h1, flatten_map_flatten]

/-- `flush`, `shutdown` and `reopen` empty the buffer -/
theorem sync_empties (s : St) (op : Op) (now : Nat)
    (hop : op = .flush ∨ op = .shutdown ∨ op = .reopen) :
    ∀ a, (step s op now noFaults).1.act = some a → a.pending = [] := by
  intro a
  have ho : hit noFaults.openF 0 = false := rfl
  cases hact : s.act with
  | none =>
    rcases hop with rfl | rfl | rfl <;> simp [step, hact]
  | some a0 =>
    rcases hop with rfl | rfl | rfl <;> simp only [step, hact, flushAct, ho] <;>
      (intro h; cases h; rfl)

/-- **After any `flush` / `shutdown` / `reopen`** the files on disk, read in the order "moved
    files (oldest first), then the file at the original path", are exactly the stream: all
    records logged before a rename are in the renamed file — including the tail that was still
    buffered at the moment of the rename —, all later ones in the new file. -/
theorem reopen_stream_synced (cfg : Cfg) (hrot : cfg.rot = none) (ops : List (Op × Nat × Faults))
    (h : HistA1 ops) (op : Op) (now : Nat)
    (hop : op = .flush ∨ op = .shutdown ∨ op = .reopen) :
    readAll (runOps (init cfg []) (ops ++ [(op, now, noFaults)])).dir = written ops := by
  have hw : written (ops ++ [(op, now, noFaults)]) = written ops := by
    rw [written_append]
    rcases hop with rfl | rfl | rfl <;> simp [written, records]
  rw [← hw]
  apply reopen_stream_flushed cfg hrot
  · intro o ho
    rcases List.mem_append.1 ho with ho | ho
    · exact h o ho
    · simp only [List.mem_singleton] at ho
      subst ho
      rcases hop with rfl | rfl | rfl <;> exact ⟨rfl, rfl⟩
  · rw [runOps_append]
    exact sync_empties _ op now hop

/-- **`reopen_flushes_into_old_file`** (one `reopen` step, any state): if the file behind the
    descriptor has been moved away from `path`, `reopen` puts the content of the buffer at the
    end of that (old, moved) file, creates an empty file at the path and continues there with an
    unbuffered writer; no other file is touched. -/
theorem reopen_flushes_into_old_file (s : St) (a : Active) (f : File) (now : Nat)
    (hact : s.act = some a) (hf : s.dir.get a.handle = some f) (hne : a.handle ≠ a.path)
    (hp : s.dir.get a.path = none) :
    (step s .reopen now noFaults).1.dir.get a.handle = some ⟨f.data ++ a.pending, f.created⟩ ∧
    (step s .reopen now noFaults).1.dir.get a.path = some ⟨[], now⟩ ∧
    (step s .reopen now noFaults).1.act =
      some { a with pending := [], handle := a.path, unbuffered := true } ∧
    (∀ n, n ≠ a.handle → n ≠ a.path → (step s .reopen now noFaults).1.dir.get n = s.dir.get n) := by
  have ho : hit noFaults.openF 0 = false := rfl
  have happ := append_of_get s.dir a.handle f a.pending hf
  have hg : (s.dir.append a.handle a.pending).get a.path = none := by
    rw [happ, get_set_ne _ _ _ _ (Ne.symm hne)]
    exact hp
  have : (step s .reopen now noFaults).1 =
      { s with dir := (s.dir.append a.handle a.pending).set a.path ⟨[], now⟩,
               act := some { a with pending := [], handle := a.path, unbuffered := true } } := by
    simp only [step, hact, ho, flushAct]
    simp [hg]
  rw [this]
  refine ⟨?_, get_set_self _ _ _, rfl, ?_⟩
  · simp only
    rw [get_set_ne _ _ _ _ hne, happ, get_set_self]
  · intro n h1 h2
    simp only
    rw [get_set_ne _ _ _ _ h2, happ, get_set_ne _ _ _ _ h1]

/-- non-vacuity: `BufWriter` of 8 bytes; 5 bytes are buffered (below the capacity) when the file
    is renamed away, one more record is logged before `reopen`; the second file is renamed while
    the writer is the unbuffered one; then a third file -/
def exA : List (Op × Nat × Faults) :=
  [(.write [1, 2, 3], 0, noFaults), (.write [4, 5], 0, noFaults), (.extRename, 0, noFaults),
   (.write [6], 0, noFaults), (.reopen, 7, noFaults), (.write [7, 8, 9], 0, noFaults),
   (.extRename, 0, noFaults), (.reopen, 9, noFaults), (.write [10], 0, noFaults),
   (.flush, 0, noFaults)]

def exCfg : Cfg := ⟨none, false, some 8, false, true⟩

example : HistA1 exA := by unfold HistA1; decide

/-- the tail `[4, 5]` and the record `[6]` logged after the rename are in the renamed file -/
example : parts (runOps (init exCfg []) exA).dir = [[1, 2, 3, 4, 5, 6], [7, 8, 9], [10]] := by
  decide

/-- in the window between the rename and the `reopen` the buffer belongs to the moved file -/
example : (runOps (init exCfg []) (exA.take 4)).dir.get (extN 0) = some ⟨[], 0⟩ ∧
    parts (runOps (init exCfg []) (exA.take 4)).dir = [[]] ∧
    (runOps (init exCfg []) (exA.take 4)).act =
      some ⟨extN 0, plainN, [1, 2, 3, 4, 5, 6], false, 0, 0, 6, 0⟩ := by decide

/-! ## A.2 — the output file is deleted by somebody else -/

/-- histories over the operations of A.1 and `extRemove`, but without `reopen` -/
def HistNoReopen (ops : List (Op × Nat × Faults)) : Prop :=
  ∀ o ∈ ops, opA2 o.1 = true ∧ o.1 ≠ .reopen ∧ o.2.2 = noFaults

/-- histories over `write`, `flush`, `shutdown`, `reopen` (and `rotate`) -/
def HistStay (ops : List (Op × Nat × Faults)) : Prop :=
  ∀ o ∈ ops, opStay o.1 = true ∧ o.2.2 = noFaults

/-- the state in which the deletion happens, and what the deletion does -/
theorem remove_core (cfg : Cfg) (hrot : cfg.rot = none) (pre : List (Op × Nat × Faults))
    (hpre : HistA1 pre) (hw : records pre ≠ []) (t1 : Nat) :
    ∃ (a0 : Active) (f0 : File) (L0 : List (FName × File)) (G0 : List (List (List Nat)))
      (gone : List (List Nat)),
      (runOps (init cfg []) pre).act = some a0 ∧
      (runOps (init cfg []) pre).dir.get a0.handle = some f0 ∧
      records pre = G0.flatten ++ gone ∧ f0.data ++ a0.pending = gone.flatten ∧
      readAll ((runOps (init cfg []) pre).dir.erase a0.handle) = G0.flatten.flatten ∧
      Lost cfg (runOps (init cfg []) (pre ++ [(.extRemove, t1, noFaults)])) L0 G0 := by
  have hch := run_chron_none hrot pre (init cfg []) [] (chron_init cfg) hpre
  rw [List.nil_append] at hch
  obtain ⟨hcfg, hch⟩ := hch
  cases hact : (runOps (init cfg []) pre).act with
  | none =>
    rw [hact] at hch
    exact absurd hch.2 hw
  | some a0 =>
    rw [hact] at hch
    obtain ⟨L0, f, G0, g, hc, hR⟩ := hch
    obtain ⟨hdir, hlost⟩ := remove_chron t1 noFaults hcfg hact hc
    have e : runOps (init cfg []) (pre ++ [(.extRemove, t1, noFaults)]) =
        (step (runOps (init cfg []) pre) .extRemove t1 noFaults).1 := by
      rw [runOps_append]; rfl
    refine ⟨a0, f, L0, G0, g, rfl, hc.get, hR.symm, hc.cur, ?_, by rw [e]; exact hlost⟩
    obtain ⟨-, a1, -, hd⟩ := hlost
    rw [← hdir, ← parts_flatten, parts_detached hrot hd, hd.closed, flatten_map_flatten]

/-- **Records logged between the deletion and `reopen_output` are lost** (this is why
    `reopen_output` has to be called): the deleted file — with what was still buffered for it,
    `gone` — disappears, every other file keeps its content (`kept`), and whatever is logged
    or flushed afterwards (`mid`, any operations except `reopen`) never reaches the directory. -/
theorem removed_writes_lost (cfg : Cfg) (hrot : cfg.rot = none)
    (pre mid : List (Op × Nat × Faults)) (t1 : Nat)
    (hpre : HistA1 pre) (hw : records pre ≠ []) (hmid : HistNoReopen mid) :
    ∃ (a0 : Active) (f0 : File) (kept gone : List (List Nat)),
      (runOps (init cfg []) pre).act = some a0 ∧
      (runOps (init cfg []) pre).dir.get a0.handle = some f0 ∧
      records pre = kept ++ gone ∧ f0.data ++ a0.pending = gone.flatten ∧
      readAll ((runOps (init cfg []) pre).dir.erase a0.handle) = kept.flatten ∧
      readAll (runOps (init cfg []) (pre ++ [(.extRemove, t1, noFaults)] ++ mid)).dir =
        kept.flatten := by
  obtain ⟨a0, f0, L0, G0, gone, h1, h2, h3, h4, h5, h6⟩ := remove_core cfg hrot pre hpre hw t1
  refine ⟨a0, f0, G0.flatten, gone, h1, h2, h3, h4, h5, ?_⟩
  rw [runOps_append]
  obtain ⟨-, a1, -, hd⟩ := lost_run hrot mid _ h6 hmid
  rw [← parts_flatten, parts_detached hrot hd, hd.closed, flatten_map_flatten]

/-- **`remove_then_reopen`.** After `extRemove; mid; reopen; post` the new file at the original
    path holds exactly the records logged after the `reopen`, in order; the directory read in
    reading order is `kept` (what the other files held when the file was deleted) followed by
    those records. Of `written (pre ++ … ++ post) = kept ++ gone ++ written mid ++ written post`
    exactly `gone` (the deleted file) and `written mid` are missing, nothing is reordered. -/
theorem remove_then_reopen (cfg : Cfg) (hrot : cfg.rot = none)
    (pre mid post : List (Op × Nat × Faults)) (t1 t2 : Nat)
    (hpre : HistA1 pre) (hw : records pre ≠ []) (hmid : HistNoReopen mid) (hpost : HistStay post) :
    ∃ (a0 : Active) (f0 : File) (kept gone : List (List Nat)) (a : Active) (f : File),
      (runOps (init cfg []) pre).act = some a0 ∧
      (runOps (init cfg []) pre).dir.get a0.handle = some f0 ∧
      records pre = kept ++ gone ∧ f0.data ++ a0.pending = gone.flatten ∧
      readAll ((runOps (init cfg []) pre).dir.erase a0.handle) = kept.flatten ∧
      (runOps (init cfg []) (pre ++ [(.extRemove, t1, noFaults)] ++ mid ++
        [(.reopen, t2, noFaults)] ++ post)).act = some a ∧
      a.handle = plainN ∧ a.pending = [] ∧
      (runOps (init cfg []) (pre ++ [(.extRemove, t1, noFaults)] ++ mid ++
        [(.reopen, t2, noFaults)] ++ post)).dir.get plainN = some f ∧
      f.data = written post ∧
      readAll (runOps (init cfg []) (pre ++ [(.extRemove, t1, noFaults)] ++ mid ++
        [(.reopen, t2, noFaults)] ++ post)).dir = kept.flatten ++ written post := by
  obtain ⟨a0, f0, L0, G0, gone, h1, h2, h3, h4, h5, h6⟩ := remove_core cfg hrot pre hpre hw t1
  have hl := lost_run hrot mid _ h6 hmid
  rw [← runOps_append] at hl
  obtain ⟨r1, a', r2, r3, r4, r5⟩ := lost_reopen t2 hl
  have hst : Stay cfg (runOps (init cfg []) (pre ++ [(.extRemove, t1, noFaults)] ++ mid ++
      [(.reopen, t2, noFaults)])) L0 G0 [] := by
    rw [runOps_append]
    exact ⟨r1, a', _, r2, r3, r4, r5⟩
  have hfin := stay_run hrot post _ [] hst hpost
  rw [← runOps_append, List.nil_append] at hfin
  obtain ⟨-, a, f, q1, q2, q3, q4⟩ := hfin
  have hp : a.pending = [] := q4.buf (Or.inl q3)
  have hcn := cnOf_none hrot
  have hdata : f.data = written post := by
    have := q4.cur
    rw [hp, List.append_nil] at this
    exact this
  refine ⟨a0, f0, G0.flatten, gone, a, f, h1, h2, h3, h4, h5, q1, q2.trans hcn, hp, ?_, hdata, ?_⟩
  · have := q4.get
    rwa [q2, hcn] at this
  · rw [← parts_flatten, parts_norot hrot q4, q4.closed, List.flatten_append, flatten_map_flatten,
      hdata]
    simp

/-- non-vacuity: two records in the file when it is deleted (one of them still buffered), one
    record logged into the void, `reopen`, two more records -/
def exPre : List (Op × Nat × Faults) :=
  [(.write [1, 2], 0, noFaults), (.extRename, 0, noFaults), (.reopen, 3, noFaults),
   (.write [3], 0, noFaults)]
def exMid : List (Op × Nat × Faults) := [(.write [4], 0, noFaults), (.flush, 0, noFaults)]
def exPost : List (Op × Nat × Faults) := [(.write [5], 0, noFaults), (.write [6], 0, noFaults)]

example : HistA1 exPre ∧ records exPre ≠ [] ∧ HistNoReopen exMid ∧ HistStay exPost := by
  unfold HistA1 HistNoReopen HistStay; decide

example : parts (runOps (init exCfg []) (exPre ++ [(.extRemove, 0, noFaults)] ++ exMid ++
    [(.reopen, 9, noFaults)] ++ exPost)).dir = [[1, 2], [5, 6]] := by decide

/-! ## B — `reset_flw` -/

/-- histories of plain operations and resets to configurations without append and cleanup
    (every naming scheme, criterion, buffer capacity), without faults, monotone clock -/
def ResetHistory (ops : List (Op × Nat × Faults)) : Prop :=
  (∀ o ∈ ops, ResetOp o.1 ∧ o.2.2 = noFaults) ∧ Monotone ops

/-- **`reset_stream`.** The archived families, each read in its reading order, followed by the
    files of the current family (buffer counted to the last file) are the stream of everything
    logged: nothing is lost, duplicated or reordered by any number of resets, whatever the
    configurations before and after are. -/
theorem reset_stream (cfg : Cfg) (hg : GoodCfg cfg) (ops : List (Op × Nat × Faults))
    (h : ResetHistory ops) :
    (((runOps (init cfg []) ops).archived.map parts).flatten ++
        viewFiles (runOps (init cfg []) ops)).flatten = written ops := by
  have := reset_run ops (init cfg []) [] hg rfl rfl (by simp) h.1 (by simpa using h.2)
  simpa [init] using this

/-- **`reset_flushes_old_writer`.** A reset archives the directory *after* the old writer has
    flushed its buffer into the file it has open, and starts an `Initial` state with the new
    configuration on an empty family; read in reading order the archived family is what
    `viewFiles` showed before the reset, i.e. the tail that was still buffered is at the end of
    the last file of the old family. -/
theorem reset_flushes_old_writer (cfg : Cfg) (hg : GoodCfg cfg) (ops : List (Op × Nat × Faults))
    (h : ResetHistory ops) (c : Cfg) (now : Nat) (fl : Faults) :
    (step (runOps (init cfg []) ops) (.reset c) now fl).1.archived =
      (runOps (init cfg []) ops).archived ++ [withPending (runOps (init cfg []) ops)] ∧
    (step (runOps (init cfg []) ops) (.reset c) now fl).1.dir = [] ∧
    (step (runOps (init cfg []) ops) (.reset c) now fl).1.act = none ∧
    (step (runOps (init cfg []) ops) (.reset c) now fl).1.cfg = c ∧
    parts (withPending (runOps (init cfg []) ops)) = viewFiles (runOps (init cfg []) ops) := by
  refine ⟨?_, ?_, ?_, ?_, ?_⟩
  · rw [step_reset_eq, withPending_eq_flush _ now fl]
  · rw [step_reset_eq]
  · rw [step_reset_eq]
  · rw [step_reset_eq]
  · obtain ⟨s0, seg, h1, h2, h3, h4, h5⟩ :=
      last_family ops (init cfg []) [] hg rfl rfl (by simp) h.1 (by simpa using h.2)
    rw [List.nil_append] at h5
    rw [h5]
    exact family_flush s0 h1 h2 h3 seg h4

/-- **Old family / new family.** Everything logged before a reset is in the archived families,
    everything logged afterwards in the new one. -/
theorem reset_separates (cfg : Cfg) (hg : GoodCfg cfg) (ops1 ops2 : List (Op × Nat × Faults))
    (c : Cfg) (hgc : GoodCfg c) (now : Nat) (h1 : ResetHistory ops1) (h2 : PlainHistory ops2) :
    ((runOps (init cfg []) (ops1 ++ [(.reset c, now, noFaults)] ++ ops2)).archived.map
      parts).flatten.flatten = written ops1 ∧
    (viewFiles (runOps (init cfg []) (ops1 ++ [(.reset c, now, noFaults)] ++
      ops2))).flatten = written ops2 := by
  obtain ⟨r1, r2, r3, r4, r5⟩ := reset_flushes_old_writer cfg hg ops1 h1 c now noFaults
  have e : runOps (init cfg []) (ops1 ++ [(.reset c, now, noFaults)] ++ ops2) =
      runOps (step (runOps (init cfg []) ops1) (.reset c) now noFaults).1 ops2 := by
    rw [runOps_append, runOps_append]; rfl
  rw [e]
  constructor
  · rw [runOps_archived ops2 _ (by
      intro o ho c' hc'
      have := (h2.1 o ho).1
      rw [hc'] at this
      cases this), r1]
    have := reset_stream cfg hg ops1 h1
    simp only [List.map_append, List.map_cons, List.map_nil, List.flatten_append,
      List.flatten_cons, List.flatten_nil, List.append_nil, r5] at this ⊢
    exact this
  · obtain ⟨-, hv⟩ := family_run c hgc _ r4 r3 r2 ops2 h2
    rw [hv, Abs.files_flatten]

/-- non-vacuity: a buffered non-rotating writer, reset to a rotating one (`timestamps`, the tail
    `[3]` is still buffered at that moment), reset to `numbersDirect` -/
def exCfgT : Cfg := ⟨some ⟨some 2, none, .timestamps, none⟩, false, some 4, false, true⟩
def exCfgN : Cfg := ⟨some ⟨some 2, none, .numbersDirect, none⟩, false, none, false, true⟩

def exB : List (Op × Nat × Faults) :=
  [(.write [1, 2], 5, noFaults), (.write [3], 5, noFaults), (.reset exCfgT, 0, noFaults),
   (.write [4, 5, 6], 6, noFaults), (.write [7], 7, noFaults), (.reset exCfgN, 0, noFaults),
   (.write [8], 8, noFaults)]

example : GoodCfg exCfg ∧ ResetHistory exB := by
  refine ⟨⟨rfl, by intro r h; cases h⟩, ?_, by unfold Monotone; decide⟩
  intro o ho
  simp only [exB, List.mem_cons, List.not_mem_nil, or_false] at ho
  rcases ho with rfl | rfl | rfl | rfl | rfl | rfl | rfl
  · exact ⟨Or.inl rfl, rfl⟩
  · exact ⟨Or.inl rfl, rfl⟩
  · exact ⟨Or.inr ⟨_, rfl, rfl, by intro r h; cases h; rfl⟩, rfl⟩
  · exact ⟨Or.inl rfl, rfl⟩
  · exact ⟨Or.inl rfl, rfl⟩
  · exact ⟨Or.inr ⟨_, rfl, rfl, by intro r h; cases h; rfl⟩, rfl⟩
  · exact ⟨Or.inl rfl, rfl⟩

example : (runOps (init exCfg []) exB).archived.map parts = [[[1, 2, 3]], [[4, 5, 6], [7]]] ∧
    viewFiles (runOps (init exCfg []) exB) = [[8]] := by decide

/-! ## C — rotation together with external renames (order-free) -/

/-- **Rotation + external rename + `reopen`.** For the non-rotating writer and for rotation with
    `numbers` / `timestamps` (every criterion, buffer capacity; no cleanup, no append), for every
    history over `write`, `rotate`, `flush`, `shutdown`, `extRename`, `reopen` (any clock): the
    records of the history can be cut into consecutive groups such that the files of the
    directory (the buffer counted to the file the descriptor refers to) are — in some order —
    exactly the concatenations of the groups: every file holds a contiguous run of whole records
    in order, every record is in exactly one file. (With rotation the reading order of `readAll`
    — moved files first — is not chronological, see the example below, hence the permutation.) -/
theorem rotation_rename_files (cfg : Cfg) (hc : CfgA cfg) (ops : List (Op × Nat × Faults))
    (h : HistA1 ops) :
    ∃ groups : List (List (List Nat)), groups.flatten = records ops ∧
      (groups.map List.flatten).Perm (allFilesWithPending (runOps (init cfg []) ops)) := by
  have := run_chron hc ops (init cfg []) [] (chron_init cfg) h
  rw [List.nil_append] at this
  exact chron_files this

/-- non-vacuity: `numbers`, `BufWriter` of 8 bytes; a forced rotation with 5 buffered bytes, the
    new `rCURRENT` is renamed away with one record in the buffer, one more record before
    `reopen`, one after it -/
def exCfgC : Cfg := ⟨some ⟨some 100, none, .numbers, none⟩, false, some 8, false, true⟩

def exC : List (Op × Nat × Faults) :=
  [(.write [1, 2, 3], 1, noFaults), (.write [4, 5], 1, noFaults), (.rotate, 2, noFaults),
   (.write [6], 3, noFaults), (.extRename, 0, noFaults), (.write [7], 4, noFaults),
   (.reopen, 5, noFaults), (.write [8], 6, noFaults), (.flush, 0, noFaults)]

example : CfgA exCfgC ∧ HistA1 exC := by
  refine ⟨⟨rfl, ?_, ?_⟩, by unfold HistA1; decide⟩
  · intro r h; cases h; rfl
  · intro r h; cases h; exact Or.inl rfl

/-- the moved file (`[6, 7]`) is read before the rotated one (`[1 … 5]`): not chronological -/
example : parts (runOps (init exCfgC []) exC).dir = [[6, 7], [1, 2, 3, 4, 5], [8]] ∧
    allFilesWithPending (runOps (init exCfgC []) exC) = [[8], [6, 7], [1, 2, 3, 4, 5]] ∧
    allFilesWithPending (runOps (init exCfgC []) (exC.take 6)) = [[6, 7], [1, 2, 3, 4, 5]] ∧
    parts (runOps (init exCfgC []) (exC.take 6)).dir = [[], [1, 2, 3, 4, 5]] := by decide

/-! ## D — the direct namings -/

/-- the configurations of part C plus the direct namings -/
def CfgAll (cfg : Cfg) : Prop :=
  cfg.append = false ∧ (∀ r, cfg.rot = some r → r.cleanup = none)

/-- `CfgAll` = the configurations of part C, or rotation with a direct naming -/
theorem cfgAll_cases {cfg : Cfg} (hc : CfgAll cfg) : CfgA cfg ∨ ∃ r, FlwB.CfgR cfg r := by
  obtain ⟨happ, hcl⟩ := hc
  cases hr : cfg.rot with
  | none => exact Or.inl ⟨happ, hcl, by intro r h; rw [hr] at h; cases h⟩
  | some r =>
    cases hnm : r.naming with
    | numbers => exact Or.inl ⟨happ, hcl, by intro r' h; rw [hr] at h; cases h; exact Or.inl hnm⟩
    | timestamps => exact Or.inl ⟨happ, hcl, by intro r' h; rw [hr] at h; cases h; exact Or.inr hnm⟩
    | numbersDirect => exact Or.inr ⟨r, hr, happ, hcl r hr, Or.inl hnm⟩
    | timestampsDirect => exact Or.inr ⟨r, hr, happ, hcl r hr, Or.inr hnm⟩

/-- **The direct namings never re-open a file.** At every point of a history of part C with
    `numbersDirect` / `timestampsDirect`: if the file behind the descriptor is not at the path
    (somebody has moved it away) then there is no file at the path, so `reopen` creates a new
    one; and the next name a rotation chooses (`numbersDirect`: the index is advanced by the
    rotation itself, whether or not the file is still there; `timestampsDirect`: `collisionFree`
    of the directory at that moment — possibly the very stamp name the moved file had) is the
    name of no file (`ReopenD.mountNextCore_chronD`). Hence `openFile` never truncates. -/
theorem direct_path_free (cfg : Cfg) (r : RotCfg) (hc : FlwB.CfgR cfg r)
    (ops : List (Op × Nat × Faults)) (h : HistA1 ops) (a : Active)
    (hact : (runOps (init cfg []) ops).act = some a) (hne : a.handle ≠ a.path) :
    (runOps (init cfg []) ops).dir.get a.path = none :=
  ReopenD.path_free (ReopenD.run_chronD hc ops (init cfg []) [] (ReopenD.chronS_init cfg) h)
    a hact hne

/-- **Rotation + external rename + `reopen`, every naming scheme, any clock.** The statement of
    `rotation_rename_files` for `numbers`, `timestamps`, `numbersDirect`, `timestampsDirect` and
    the non-rotating writer (every criterion, buffer capacity; no cleanup, no append). No
    hypothesis on the clock: the direct namings too always open a name that no file of the
    directory has (see `direct_path_free`), whatever the clock shows. -/
theorem rotation_rename_files_any_clock (cfg : Cfg) (hc : CfgAll cfg)
    (ops : List (Op × Nat × Faults)) (h : HistA1 ops) :
    ∃ groups : List (List (List Nat)), groups.flatten = records ops ∧
      (groups.map List.flatten).Perm (allFilesWithPending (runOps (init cfg []) ops)) := by
  rcases cfgAll_cases hc with hA | ⟨r, hB⟩
  · exact rotation_rename_files cfg hA ops h
  · exact ReopenD.direct_files hB ops h

/-- **Rotation + external rename + `reopen`, every naming scheme.** (statement as
    `rotation_rename_files`; the hypothesis `Monotone ops` is not used, see
    `rotation_rename_files_any_clock`) -/
theorem rotation_rename_files_all (cfg : Cfg) (hc : CfgAll cfg) (ops : List (Op × Nat × Faults))
    (h : HistA1 ops) (hm : Monotone ops) :
    ∃ groups : List (List (List Nat)), groups.flatten = records ops ∧
      (groups.map List.flatten).Perm (allFilesWithPending (runOps (init cfg []) ops)) :=
  have _ := hm
  rotation_rename_files_any_clock cfg hc ops h

/-- non-vacuity, `numbersDirect`: `BufWriter` of 8 bytes; a forced rotation with 5 buffered bytes
    (`r00000` → `r00001`), `r00001` is renamed away with one record in the buffer, one more
    record before `reopen` (which creates a new `r00001`), one after it -/
def exCfgDN : Cfg := ⟨some ⟨some 100, none, .numbersDirect, none⟩, false, some 8, false, true⟩

def exDN : List (Op × Nat × Faults) :=
  [(.write [1, 2, 3], 1, noFaults), (.write [4, 5], 1, noFaults), (.rotate, 2, noFaults),
   (.write [6], 3, noFaults), (.extRename, 0, noFaults), (.write [7], 4, noFaults),
   (.reopen, 5, noFaults), (.write [8], 6, noFaults), (.flush, 0, noFaults)]

example : CfgAll exCfgDN ∧ HistA1 exDN ∧ Monotone exDN := by
  refine ⟨⟨rfl, ?_⟩, by unfold HistA1; decide, by unfold Monotone; decide⟩
  intro r h; cases h; rfl

example : allFilesWithPending (runOps (init exCfgDN []) exDN) = [[8], [6, 7], [1, 2, 3, 4, 5]] ∧
    ents (runOps (init exCfgDN []) exDN).dir =
      [(⟨some (.num 1), false⟩, ⟨[8], 5⟩), (extN 0, ⟨[6, 7], 2⟩),
       (⟨some (.num 0), false⟩, ⟨[1, 2, 3, 4, 5], 1⟩)] ∧
    allFilesWithPending (runOps (init exCfgDN []) (exDN.take 6)) = [[6, 7], [1, 2, 3, 4, 5]] ∧
    parts (runOps (init exCfgDN []) exDN).dir = [[6, 7], [1, 2, 3, 4, 5], [8]] := by decide

/-- `numbersDirect`, a rotation while the file is moved away: the index is advanced all the same
    (`r00000` is gone, the writer continues in `r00001`), the buffered record `[2]` goes to the
    moved file -/
def exDN2 : List (Op × Nat × Faults) :=
  [(.write [1], 1, noFaults), (.extRename, 0, noFaults), (.write [2], 2, noFaults),
   (.rotate, 3, noFaults), (.write [3], 4, noFaults), (.flush, 0, noFaults)]

example : HistA1 exDN2 ∧ Monotone exDN2 ∧
    ents (runOps (init exCfgDN []) exDN2).dir =
      [(⟨some (.num 1), false⟩, ⟨[3], 3⟩), (extN 0, ⟨[1, 2], 1⟩)] := by
  refine ⟨by unfold HistA1; decide, by unfold Monotone; decide, by decide⟩

/-- non-vacuity, `timestampsDirect`, everything in the same second: the forced rotation goes to
    `.restart-0000`, that file is renamed away with one record in the buffer, one more record
    before `reopen` (which creates a new `.restart-0000`), one after it; the next rotation goes
    to `.restart-0001` -/
def exCfgDT : Cfg := ⟨some ⟨some 100, none, .timestampsDirect, none⟩, false, some 8, false, true⟩

def exDT : List (Op × Nat × Faults) :=
  [(.write [1, 2, 3], 5, noFaults), (.write [4, 5], 5, noFaults), (.rotate, 5, noFaults),
   (.write [6], 5, noFaults), (.extRename, 0, noFaults), (.write [7], 5, noFaults),
   (.reopen, 0, noFaults), (.write [8], 5, noFaults), (.rotate, 5, noFaults),
   (.write [9], 5, noFaults), (.flush, 0, noFaults)]

example : CfgAll exCfgDT ∧ HistA1 exDT ∧ Monotone exDT := by
  refine ⟨⟨rfl, ?_⟩, by unfold HistA1; decide, by unfold Monotone; decide⟩
  intro r h; cases h; rfl

example : allFilesWithPending (runOps (init exCfgDT []) exDT) =
      [[9], [8], [6, 7], [1, 2, 3, 4, 5]] ∧
    ents (runOps (init exCfgDT []) exDT).dir =
      [(⟨some (.ts 5 (some 1)), false⟩, ⟨[9], 5⟩), (⟨some (.ts 5 (some 0)), false⟩, ⟨[8], 0⟩),
       (extN 0, ⟨[6, 7], 5⟩), (⟨some (.ts 5 none), false⟩, ⟨[1, 2, 3, 4, 5], 5⟩)] ∧
    allFilesWithPending (runOps (init exCfgDT []) (exDT.take 6)) = [[6, 7], [1, 2, 3, 4, 5]] ∧
    parts (runOps (init exCfgDT []) exDT).dir = [[6, 7], [1, 2, 3, 4, 5], [8], [9]] := by decide

/-- `timestampsDirect`, a rotation in the same second while the file is moved away: the moved
    file no longer has the stamp name, `collisionFree` chooses that very name again — for a new
    file, nothing is truncated; the buffered record `[2]` goes to the moved file -/
def exDT2 : List (Op × Nat × Faults) :=
  [(.write [1], 5, noFaults), (.extRename, 0, noFaults), (.write [2], 5, noFaults),
   (.rotate, 5, noFaults), (.write [3], 5, noFaults), (.flush, 0, noFaults)]

example : HistA1 exDT2 ∧ Monotone exDT2 ∧
    ents (runOps (init exCfgDT []) exDT2).dir =
      [(⟨some (.ts 5 none), false⟩, ⟨[3], 5⟩), (extN 0, ⟨[1, 2], 5⟩)] := by
  refine ⟨by unfold HistA1; decide, by unfold Monotone; decide, by decide⟩

/-- `timestampsDirect`, a clock that runs backwards (7, then 5, then 7 again): the names are
    still fresh (`.restart-0000` for the second file of second 7 would only be needed if the
    first one were still there — it has been moved away) -/
def exDT3 : List (Op × Nat × Faults) :=
  [(.write [1], 5, noFaults), (.rotate, 7, noFaults), (.write [2], 7, noFaults),
   (.extRename, 0, noFaults), (.rotate, 5, noFaults), (.write [3], 5, noFaults),
   (.rotate, 7, noFaults), (.write [4], 4, noFaults), (.flush, 0, noFaults)]

example : HistA1 exDT3 ∧ ¬ Monotone exDT3 ∧
    ents (runOps (init exCfgDT []) exDT3).dir =
      [(⟨some (.ts 7 none), false⟩, ⟨[4], 7⟩), (⟨some (.ts 5 (some 0)), false⟩, ⟨[3], 5⟩),
       (extN 0, ⟨[2], 7⟩), (⟨some (.ts 5 none), false⟩, ⟨[1], 5⟩)] := by
  refine ⟨by unfold HistA1; decide, by unfold Monotone; decide, by decide⟩

end FV.C18
