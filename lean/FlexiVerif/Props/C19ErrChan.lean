import FlexiVerif.Model.ErrChan
/-
  C19 — "every failure … is reported on the configured error channel": the routing of the reports
  (`ErrorChannel::{StdErr, StdOut, File, DevNull}`). For every sequence of reports: the configured
  sink receives exactly the reports, in order, and no other sink receives anything; `DevNull` is
  the only channel that drops reports (it is the user's explicit choice); an error file that cannot
  be opened loses nothing — every report goes to stderr instead, each followed by one line that
  says why. Which reports the writer produces is the business of `Flw` (`Props/C19.failures_reported`);
  the tie to `try_writing_to_error_channel` is the `ERRCHAN` runs of the harness (child processes
  with captured stdout/stderr and an error file; reference = the same run with an openable file).
-/
namespace FV.C19ErrChan
open FV.ErrChan

theorem run_append (ch : Channel) (a b : List String) (s : Sinks) :
    (a ++ b).foldl (report ch) s = b.foldl (report ch) (a.foldl (report ch) s) := by
  simp [List.foldl_append]

theorem fold_stdErr (evs : List String) (s : Sinks) :
    evs.foldl (report .stdErr) s = { s with err := s.err ++ evs } := by
  induction evs generalizing s with
  | nil => simp
  | cons e es ih => simp [List.foldl_cons, report, ih, List.append_assoc]

theorem fold_stdOut (evs : List String) (s : Sinks) :
    evs.foldl (report .stdOut) s = { s with out := s.out ++ evs } := by
  induction evs generalizing s with
  | nil => simp
  | cons e es ih => simp [List.foldl_cons, report, ih, List.append_assoc]

theorem fold_file (evs : List String) (s : Sinks) :
    evs.foldl (report (.file true)) s = { s with file := s.file ++ evs } := by
  induction evs generalizing s with
  | nil => simp
  | cons e es ih => simp [List.foldl_cons, report, ih, List.append_assoc]

theorem fold_devNull (evs : List String) (s : Sinks) :
    evs.foldl (report .devNull) s = s := by
  induction evs generalizing s with
  | nil => rfl
  | cons e es ih => simp [List.foldl_cons, report, ih]

theorem fold_badFile (evs : List String) (s : Sinks) :
    evs.foldl (report (.file false)) s =
      { s with err := s.err ++ evs.flatMap (fun e => [e, cantOpen]) } := by
  induction evs generalizing s with
  | nil => simp
  | cons e es ih => simp [List.foldl_cons, report, ih, List.append_assoc]

/-- **Reported on the configured channel, and only there.** -/
theorem reported_on_configured_channel (evs : List String) :
    run .stdErr evs = { err := evs } ∧
    run .stdOut evs = { out := evs } ∧
    run (.file true) evs = { file := evs } := by
  refine ⟨?_, ?_, ?_⟩
  · simp [run, fold_stdErr]
  · simp [run, fold_stdOut]
  · simp [run, fold_file]

/-- `DevNull` drops every report — and it is the only channel that drops any: on every other
    channel every report is in some sink. -/
theorem devNull_drops (evs : List String) : run .devNull evs = {} := by
  simp [run, fold_devNull]

theorem only_devNull_drops (ch : Channel) (hch : ch ≠ .devNull) (evs : List String) (e : String)
    (he : e ∈ evs) :
    e ∈ (run ch evs).err ∨ e ∈ (run ch evs).out ∨ e ∈ (run ch evs).file := by
  cases ch with
  | stdErr => left; simp [run, fold_stdErr, he]
  | stdOut => right; left; simp [run, fold_stdOut, he]
  | devNull => exact absurd rfl hch
  | file ok =>
    cases ok with
    | true => right; right; simp [run, fold_file, he]
    | false =>
      left
      simp only [run, fold_badFile, List.nil_append, List.mem_flatMap]
      exact ⟨e, he, by simp⟩

/-- **A broken error file loses nothing**: stderr holds every report, in order, each followed by
    the line that says that the file could not be opened. -/
theorem fallback_keeps_reports (evs : List String) (hc : ∀ e ∈ evs, e ≠ cantOpen) :
    ((run (.file false) evs).err.filter (· ≠ cantOpen)) = evs ∧
    (run (.file false) evs).out = [] ∧ (run (.file false) evs).file = [] := by
  refine ⟨?_, by simp [run, fold_badFile], by simp [run, fold_badFile]⟩
  simp only [run, fold_badFile, List.nil_append]
  induction evs with
  | nil => rfl
  | cons e es ih =>
    have h1 : e ≠ cantOpen := hc e (by simp)
    have h2 := ih (fun x hx => hc x (by simp [hx]))
    simp only [List.flatMap_cons, List.cons_append, List.nil_append, List.filter_cons]
    simp only [ne_eq, decide_not] at h2 ⊢
    simp [h1, h2]

/-- reports of two phases of a run arrive as the concatenation of what each phase reports: the
    channel has no memory beyond its sinks (so a report is never held back or re-ordered) -/
theorem run_append_sinks (ch : Channel) (a b : List String) :
    (run ch (a ++ b)).err = (run ch a).err ++ (run ch b).err ∧
    (run ch (a ++ b)).out = (run ch a).out ++ (run ch b).out ∧
    (run ch (a ++ b)).file = (run ch a).file ++ (run ch b).file := by
  cases ch with
  | stdErr => simp [run, fold_stdErr]
  | stdOut => simp [run, fold_stdOut]
  | devNull => simp [run, fold_devNull]
  | file ok => cases ok <;> simp [run, fold_file, fold_badFile]

example : run (.file false) ["Write", "LogFile"] = { err := ["Write", cantOpen, "LogFile", cantOpen] } := by decide
example : run .stdOut ["Write", "LogFile"] = { out := ["Write", "LogFile"] } := by decide

end FV.C19ErrChan
