import FlexiVerif.Props.C17
/-
  C17 — the specification taken from the environment: `LogSpecification::env()` and
  `LogSpecification::env_or_parse(given)`, the routes behind `Logger::try_with_env()` and
  `Logger::try_with_env_or_str(given)`. The environment is a parameter of the model
  (`none` = `RUST_LOG` unset or not unicode).

  * `env_unset_is_off`: unset ⇒ Ok and nothing is enabled (no filter at all);
  * `env_set_is_parse`: set ⇒ exactly `parse` of the value — verdict, salvage and all the theorems
    of `Props/C17` apply to it;
  * `envOrParse_env_wins` / `envOrParse_fallback` / `envOrParse_unset`: the variable is used iff it
    is set and WELL-FORMED; otherwise the result is the `parse` of the given string as a whole —
    in particular an error carries the salvage of the GIVEN string, never of the variable
    (`envOrParse_err_is_given`), and nothing is ever mixed (`envOrParse_one_of_two`);
  * `envOrParse_ok_iff`: the verdict;
  * `env_display_roundtrip`: a variable set to the `Display` text of a specification restores it,
    whatever the fallback string is.
  Tie to the code: the `ENVPARSE` op of the C17 histories sets / removes `RUST_LOG` for one call of
  the real functions (and of the two `Logger::try_with_env*` constructors, which must agree on
  Ok/Err) and compares verdict, filter list, text filter and a grid of decisions with the model.
-/
namespace FV.C17Env
open FV FV.Spec

/-- **Unset ⇒ off**: Ok, and no level of no target is enabled. -/
theorem env_unset_is_off (rx : Bool) (lvl : Nat) (t : List Char) :
    (envParse none rx).ok = true ∧ enabled (envParse none rx).filters lvl t = false ∧
      (envParse none rx).regex = none := by
  simp [envParse, enabled]

/-- **Set ⇒ `parse` of the value.** -/
theorem env_set_is_parse (e : List Char) (rx : Bool) : envParse (some e) rx = parse e rx := rfl

theorem envOrParse_unset (g : List Char) (rxE rxG : Bool) :
    envOrParse none g rxE rxG = parse g rxG := rfl

/-- **A well-formed variable wins**, whatever the given string is. -/
theorem envOrParse_env_wins (e g : List Char) (rxE rxG : Bool) (h : (parse e rxE).ok = true) :
    envOrParse (some e) g rxE rxG = parse e rxE := by
  simp [envOrParse, h]

/-- **A malformed variable is ignored as a whole**: the result is the given string's. -/
theorem envOrParse_fallback (e g : List Char) (rxE rxG : Bool) (h : (parse e rxE).ok = false) :
    envOrParse (some e) g rxE rxG = parse g rxG := by
  simp [envOrParse, h]

/-- nothing is mixed: the result is one of the two parses, the variable's only if well-formed -/
theorem envOrParse_one_of_two (env : Option (List Char)) (g : List Char) (rxE rxG : Bool) :
    (∃ e, env = some e ∧ (parse e rxE).ok = true ∧ envOrParse env g rxE rxG = parse e rxE) ∨
      envOrParse env g rxE rxG = parse g rxG := by
  cases env with
  | none => right; rfl
  | some e =>
    by_cases h : (parse e rxE).ok = true
    · left; exact ⟨e, rfl, h, envOrParse_env_wins e g rxE rxG h⟩
    · right; exact envOrParse_fallback e g rxE rxG (by simpa using h)

/-- **The verdict.** -/
theorem envOrParse_ok_iff (env : Option (List Char)) (g : List Char) (rxE rxG : Bool) :
    (envOrParse env g rxE rxG).ok = true ↔
      (∃ e, env = some e ∧ (parse e rxE).ok = true) ∨ (parse g rxG).ok = true := by
  cases env with
  | none => simp [envOrParse]
  | some e =>
    by_cases h : (parse e rxE).ok = true
    · simp [envOrParse, h]
    · simp [envOrParse, h]

/-- **An error carries the salvage of the given string** (and then the given string is malformed). -/
theorem envOrParse_err_is_given (env : Option (List Char)) (g : List Char) (rxE rxG : Bool)
    (h : (envOrParse env g rxE rxG).ok = false) :
    envOrParse env g rxE rxG = parse g rxG ∧ (parse g rxG).ok = false := by
  rcases envOrParse_one_of_two env g rxE rxG with ⟨e, _, hok, heq⟩ | heq
  · rw [heq, hok] at h; cases h
  · exact ⟨heq, by rw [heq] at h; exact h⟩

/-- **`RUST_LOG` = Display text restores the specification**, whatever the fallback. -/
theorem env_display_roundtrip (fs : List MF) (h : C17.WFSpec fs) (g : List Char) (rxE rxG : Bool) :
    envParse (some (display fs)) rxE = ⟨true, fs, none⟩ ∧
      envOrParse (some (display fs)) g rxE rxG = ⟨true, fs, none⟩ := by
  have hp := C17.display_roundtrip fs h rxE
  refine ⟨hp, ?_⟩
  rw [envOrParse_env_wins _ _ _ _ (by rw [hp]), hp]

/-- non-vacuity: a malformed variable (`a=b=c`) with the fallback `warn`, and a well-formed one -/
example :
    (envOrParse (some "a=b=c".toList) "warn".toList true true) = ⟨true, [⟨none, 2⟩], none⟩ ∧
    (envOrParse (some "m=debug".toList) "warn".toList true true) =
      ⟨true, [⟨some "m".toList, 4⟩], none⟩ ∧
    (envOrParse (some "a=b=c".toList) "x y".toList true true).ok = false := by
  decide

end FV.C17Env
