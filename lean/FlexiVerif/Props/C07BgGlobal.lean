/-
  C07 (bridge, global) — The cleanup THREAD, under every schedule, ends where the concrete
  synchronous cleanup ends.

  `Props/C07BgBridge.lean` shows that ONE rotation of a reachable state of the concrete model
  (`Model/Flw.lean`) is the abstract `rotate` followed by one abstract pass
  (`rotation_is_bg_rotate_pass`), ranks replaced by positions. Here the steps are composed:

  * (A) `Bg.pass_flags_congr` (`Lemmas/BgGlobal.lean`): the flags a pass leaves depend only on
    the flags it finds, not on the ranks — this passes from the positions of `absDir` to the
    absolute ranks of `Bg.syncDir`;
  * (B) `history_flags_eq_syncDir_all`: after every plain history from the empty directory
    (files with a suffix) the flags (compressed?/plain, oldest first) of the rotated files of the
    concrete directory are those of `Bg.syncDir` after as many rotations as the history
    performed (`rotCount`) — plus one for the direct namings once the first file is open,
    because there the current file carries a rotated-style name and is part of the listing
    (`opened`). `history_flags_eq_syncDir_partial` is the statement without the correction, for
    the `rCURRENT` namings; it is FALSE for the direct namings (`direct_counterexample`);
  * (C) `thread_final_eq_concrete_sync_all`/`…_partial`, `…_length_…`: the directory the cleanup
    thread of `Model/Bg.lean` ends with after ANY schedule with that many rotations has the
    same flags, and the same number of files, as the concrete directory.
-/
import FlexiVerif.Props.C07BgBridge
import FlexiVerif.Props.C07Bg
import FlexiVerif.Lemmas.BgGlobal
namespace FV.C07BgBridge
open FV FV.Flw
open FV.FlwC (CInv Inv)
open FV.FlwBr (tag ofFlags)
open FV.C07 (kk Setting)
open FV.Bg (flags Asc)

/-! ### counting the rotations of a history -/

/-- does the operation rotate in the state it meets? The same case analysis as `step` /
    `writeBuffer`: `.rotate` rotates iff the writer is active (and rotating at all); `.write`
    rotates iff — after the lazy initialisation — `rotationNecessary` holds. (Restricted to the
    operations of plain histories; the others do not count.) -/
def rotates (s : St) (op : Op) (now : Nat) (fl : Faults) : Bool :=
  match op with
  | .write _ =>
    let s1 := match s.act with
      | some _ => s
      | none => (initState s now fl).1
    match s1.act, s1.cfg.rot with
    | some a, some r => rotationNecessary r a now
    | _, _ => false
  | .rotate =>
    match s.act, s.cfg.rot with
    | some _, some _ => true
    | _, _ => false
  | _ => false

/-- the number of rotations a history performs from the state `s` on -/
def rotCountFrom (s : St) : List (Op × Nat × Faults) → Nat
  | [] => 0
  | o :: ops =>
    (if rotates s o.1 o.2.1 o.2.2 then 1 else 0) + rotCountFrom (step s o.1 o.2.1 o.2.2).1 ops

/-- the number of rotations a history performs (from the empty directory) -/
def rotCount (cfg : Cfg) (ops : List (Op × Nat × Faults)) : Nat := rotCountFrom (init cfg []) ops

/-- the correction for the direct namings: once the first file is open, the current file carries
    a rotated-style name and is part of the listing -/
def opened (r : RotCfg) (s : St) : Nat :=
  if r.naming.writesDirect = true ∧ s.act.isSome = true then 1 else 0

theorem opened_active (r : RotCfg) {s : St} {act : Active} (h : s.act = some act) :
    opened r s = if r.naming.writesDirect = true then 1 else 0 := by
  unfold opened
  rw [h]
  simp

theorem opened_initial (r : RotCfg) {s : St} (h : s.act = none) : opened r s = 0 := by
  unfold opened
  rw [h]
  simp

theorem opened_indirect {r : RotCfg} (hw : r.naming.writesDirect = false) (s : St) :
    opened r s = 0 := by
  unfold opened
  simp [hw]

/-! ### the abstraction only looks at the names of the rotated files -/

theorem absDir_congr {d d' : Dir} (h : (rotatedAsc d').map tag = (rotatedAsc d).map tag) :
    absDir d' = absDir d := by
  rw [absDir_eq, absDir_eq, rotList_eq, rotList_eq, h]

theorem absDir_nil : absDir ([] : Dir) = [] := rfl

theorem flags_renumber (D : Bg.Dir) : flags (renumber D) = flags D := by
  rw [renumber_eq]
  exact FV.FlwBr.ofFlags_flags _

theorem absDir_asc (d : Dir) : Asc (absDir d) := by
  rw [absDir_eq]
  exact FV.FlwBr.ofFlags_sorted _

theorem absDir_lt (d : Dir) : ∀ f ∈ absDir d, f.id < (absDir d).length := by
  intro f hf
  rw [absDir_eq] at hf ⊢
  rw [FV.FlwBr.ofFlags_length]
  exact FV.FlwBr.ofFlags_lt hf

/-! ### a rotation in a state of the invariant -/

/-- `rotation_is_bg_rotate_pass` for every state of the C07 invariant (not only for the states
    written as `runOps (init cfg []) ops`) -/
theorem rotation_abs {cfg : Cfg} {r : RotCfg} {k m : Nat} (hS : Setting cfg r k m)
    (hs : cfg.hasSuffix = true) (s : St) (act : Active) (a : Abs) (hcfg : s.cfg = cfg)
    (hi : CInv cfg r k m s.dir act a) (force : Bool) (now : Nat) (hst : act.stamp ≤ now)
    (h : (force || rotationNecessary r act now) = true) :
    absDir (mountNext s act r force now noFaults).1.dir =
      renumber (Bg.pass (kk r k) m (absDir s.dir ++ [⟨(absDir s.dir).length, false⟩])) := by
  obtain ⟨s0, act0, ti, hm, hc0, h1, h2, h3, i, h4⟩ :=
    FV.FlwBr.mountNext_preCleanup s act a force now hcfg hi hst h
  have hdir : (mountNext s act r force now noFaults).1.dir =
      (cleanup now (openFile s0 ⟨some ti, false⟩ now noFaults 0).1.cfg r noFaults
        (FV.FlwC.preCleanupDir s0 act0 ti now)).1 := by
    rw [hm]
    exact FV.FlwC.rotTailC_cleanup s0 act0 ti r now
  have h4' : absDir (FV.FlwC.preCleanupDir s0 act0 ti now) =
      absDir s.dir ++ [⟨(absDir s.dir).length, false⟩] := by
    rw [absDir_eq, absDir_eq, rotList_eq, rotList_eq, h4, List.map_append]
    exact FV.FlwBr.ofFlags_append _ false
  rw [hdir, cleanup_abs_renumber now _ r k m hS.cleanup
    (by rw [FV.FlwC.openFile_cfg, hc0]; exact hs) _ h1 h2 h3, h4']

/-- … on the flags: from `syncDir N` to `syncDir (N + 1)`; this is where (A) is used -/
theorem rotation_flags {cfg : Cfg} {r : RotCfg} {k m : Nat} (hS : Setting cfg r k m)
    (hs : cfg.hasSuffix = true) (s : St) (act : Active) (a : Abs) (hcfg : s.cfg = cfg)
    (hi : CInv cfg r k m s.dir act a) (force : Bool) (now : Nat) (hst : act.stamp ≤ now)
    (h : (force || rotationNecessary r act now) = true) (N : Nat)
    (hN : flags (absDir s.dir) = flags (Bg.syncDir (kk r k) m N)) :
    flags (absDir (mountNext s act r force now noFaults).1.dir) =
      flags (Bg.syncDir (kk r k) m (N + 1)) := by
  rw [rotation_abs hS hs s act a hcfg hi force now hst h, flags_renumber]
  exact FV.Bg.syncDir_succ_flags (kk r k) m N (absDir s.dir) _ (absDir_asc _) (absDir_lt _) hN

/-! ### the single operations -/

/-- a write to an active writer: one abstract rotation + pass iff `rotationNecessary` -/
theorem write_active_flags {cfg : Cfg} {r : RotCfg} {k m : Nat} (hS : Setting cfg r k m)
    (hs : cfg.hasSuffix = true) (s : St) (act : Active) (a : Abs) (b : List Nat) (now : Nat)
    (hcfg : s.cfg = cfg) (hact : s.act = some act) (hi : CInv cfg r k m s.dir act a)
    (hst : act.stamp ≤ now) (N : Nat)
    (hN : flags (absDir s.dir) = flags (Bg.syncDir (kk r k) m N)) :
    flags (absDir (writeBuffer s b now noFaults).1.dir) =
      flags (Bg.syncDir (kk r k) m (N + (if rotationNecessary r act now = true then 1 else 0))) ∧
    ∃ act', (writeBuffer s b now noFaults).1.act = some act' := by
  have hrot : s.cfg.rot = some r := by rw [hcfg]; exact hS.rot
  by_cases hnec : rotationNecessary r act now = true
  · obtain ⟨⟨s2, act2, hm, hc2, hi2, -⟩, -⟩ :=
      FV.FlwC.mountNext_rot hS.cfgC s act a false now hcfg hi hst (by simp [hnec])
    rw [FV.FlwC.writeBuffer_some_rot s act b now r s2 act2 hact hrot hm, if_pos hnec]
    refine ⟨?_, _, rfl⟩
    rw [absDir_congr (FV.FlwBr.wrote_tags s2 act2 _ b hc2 hi2)]
    have := rotation_flags hS hs s act a hcfg hi false now hst (by simp [hnec]) N hN
    rw [hm] at this
    exact this
  · have hm := FV.FlwA.mountNext_skip s act r false now noFaults (by simpa using hnec)
    rw [FV.FlwC.writeBuffer_some_rot s act b now r s act hact hrot hm, if_neg hnec]
    refine ⟨?_, _, rfl⟩
    rw [absDir_congr (FV.FlwBr.wrote_tags s act a b hcfg hi)]
    exact hN

/-- the first file: nothing for the `rCURRENT` namings; for the direct namings the abstract
    `rotate` + pass (the current file is the first file of the listing) -/
theorem init_flags {cfg : Cfg} {r : RotCfg} {k m : Nat} {d : Dir} {act : Active} {now : Nat}
    (hi : CInv cfg r k m d act ⟨[], [], true, 0, now⟩) (F : Nat)
    (hF : flags (Bg.syncDir (kk r k) m F) = []) :
    flags (absDir d) =
      flags (Bg.syncDir (kk r k) m (F + if r.naming.writesDirect = true then 1 else 0)) := by
  have h1 : flags (absDir d) = if r.naming.writesDirect = true then [false] else [] := by
    show (absDir d).map (·.gz) = _
    rw [absDir_flags, rotList_eq]
    exact FV.FlwBr.init_tags hi
  rw [h1]
  by_cases hw : r.naming.writesDirect = true
  · rw [if_pos hw, if_pos hw]
    have hk : 1 ≤ kk r k := by
      unfold kk
      rw [hw]
      by_cases h0 : k = 0 <;> simp [h0]
      omega
    have := FV.Bg.syncDir_succ_flags (kk r k) m F [] 0 List.Pairwise.nil
      (fun f hf => by cases hf) (by rw [hF]; rfl)
    rw [← this, List.nil_append, FV.Bg.pass_singleton _ _ _ hk]
    rfl
  · rw [if_neg hw, if_neg hw, Nat.add_zero, hF]

/-- **One operation of a plain history**: the flags move from `syncDir F'` to
    `syncDir (F' + 1)` iff the operation rotates. -/
theorem step_flags {cfg : Cfg} {r : RotCfg} {k m : Nat} (hS : Setting cfg r k m)
    (hs : cfg.hasSuffix = true) (s : St) (a : Abs) (t : Nat) (op : Op) (now : Nat)
    (hi : Inv cfg r k m t s a) (hp : op.plain = true) (ht : op.usesClock = true → t ≤ now)
    (F : Nat) (h : flags (absDir s.dir) = flags (Bg.syncDir (kk r k) m (F + opened r s))) :
    flags (absDir (step s op now noFaults).1.dir) =
      flags (Bg.syncDir (kk r k) m (F + (if rotates s op now noFaults = true then 1 else 0) +
        opened r (step s op now noFaults).1)) := by
  obtain ⟨hcfg, hi⟩ := hi
  have hrot : s.cfg.rot = some r := by rw [hcfg]; exact hS.rot
  cases op with
  | write b =>
    have ht := ht rfl
    have hstep : step s (.write b) now noFaults = writeBuffer s b now noFaults := rfl
    rw [hstep]
    cases hact : s.act with
    | none =>
      rw [hact] at hi
      obtain ⟨hd, -⟩ := hi
      obtain ⟨s1, act1, hin, hc1, ha1, hi1, hst1⟩ :=
        FV.FlwC.initState_inv hS.cfgC s now hcfg hd
      have hrot1 : s1.cfg.rot = some r := by rw [hc1]; exact hS.rot
      have hr : rotates s (.write b) now noFaults = rotationNecessary r act1 now := by
        simp [rotates, hact, hin, ha1, hrot1]
      rw [hr, FV.FlwC.writeBuffer_init s s1 act1 b now hact hin ha1]
      rw [opened_initial r hact, hd, absDir_nil, Nat.add_zero] at h
      obtain ⟨h1, act', h2⟩ := write_active_flags hS hs s1 act1 _ b now hc1 ha1 hi1 hst1 _
        (init_flags hi1 F h.symm)
      rw [h1, opened_active r h2]
      congr 2
      omega
    | some act =>
      rw [hact] at hi
      have hr : rotates s (.write b) now noFaults = rotationNecessary r act now := by
        simp [rotates, hact, hrot]
      rw [hr]
      obtain ⟨h1, act', h2⟩ := write_active_flags hS hs s act a b now hcfg hact hi.1
        (Nat.le_trans hi.2 ht) _ h
      rw [h1, opened_active r h2, opened_active r hact]
      congr 2
      omega
  | rotate =>
    have ht := ht rfl
    cases hact : s.act with
    | none =>
      have hst : step s .rotate now noFaults = (s, .ok) := by simp [step, hact]
      have hr : rotates s .rotate now noFaults = false := by simp [rotates, hact]
      rw [hst, hr]
      simpa using h
    | some act =>
      rw [hact] at hi
      obtain ⟨hi, hst⟩ := hi
      obtain ⟨⟨s2, act2, hm, -, -, -⟩, -⟩ :=
        FV.FlwC.mountNext_rot hS.cfgC s act a true now hcfg hi (Nat.le_trans hst ht) rfl
      have hst' : (step s .rotate now noFaults).1 = { s2 with act := some act2 } := by
        simp [step, hact, hcfg, hS.rot, hm]
      have hr : rotates s .rotate now noFaults = true := by simp [rotates, hact, hrot]
      have := rotation_flags hS hs s act a hcfg hi true now (Nat.le_trans hst ht) rfl _ h
      rw [hm] at this
      rw [hst', hr, opened_active r (s := { s2 with act := some act2 }) rfl, this,
        opened_active r hact]
      congr 2
      simp only [if_true]
      omega
  | flush =>
    have hr : rotates s .flush now noFaults = false := rfl
    rw [hr]
    cases hact : s.act with
    | none =>
      have hst : step s .flush now noFaults = (s, .ok) := by simp [step, hact]
      rw [hst]
      simpa using h
    | some act =>
      rw [hact] at hi
      have hst : (step s .flush now noFaults).1 =
          { s with dir := s.dir.append act.handle act.pending,
                   act := some { act with pending := [] } } := by
        simp [step, hact, flushAct]
      obtain ⟨f, C, hd, -⟩ := hi.1.dir
      rw [hst, opened_active r (s := { s with dir := _, act := some _ }) rfl,
        ← opened_active r hact]
      show flags (absDir (s.dir.append act.handle act.pending)) = _
      rw [absDir_congr (FV.FlwBr.rotatedAsc_flush_tag hd act.pending)]
      simpa using h
  | shutdown =>
    have hr : rotates s .shutdown now noFaults = false := rfl
    rw [hr]
    cases hact : s.act with
    | none =>
      have hst : step s .shutdown now noFaults = (s, .ok) := by simp [step, hact]
      rw [hst]
      simpa using h
    | some act =>
      rw [hact] at hi
      have hst : (step s .shutdown now noFaults).1 =
          { s with dir := s.dir.append act.handle act.pending,
                   act := some { act with pending := [] } } := by
        simp [step, hact, flushAct]
      obtain ⟨f, C, hd, -⟩ := hi.1.dir
      rw [hst, opened_active r (s := { s with dir := _, act := some _ }) rfl,
        ← opened_active r hact]
      show flags (absDir (s.dir.append act.handle act.pending)) = _
      rw [absDir_congr (FV.FlwBr.rotatedAsc_flush_tag hd act.pending)]
      simpa using h
  | restart _ => cases hp
  | reset _ => cases hp
  | extRename => cases hp
  | extRemove => cases hp
  | reopen => cases hp

/-! ### (B) the global induction -/

/-- the induction over the history, from every state of the invariant -/
theorem run_flags {cfg : Cfg} {r : RotCfg} {k m : Nat} (hS : Setting cfg r k m)
    (hs : cfg.hasSuffix = true) :
    ∀ (ops : List (Op × Nat × Faults)) (t : Nat) (s : St) (a : Abs) (F : Nat),
      Inv cfg r k m t s a → (∀ o ∈ ops, o.1.plain = true ∧ o.2.2 = noFaults) →
      (∀ o ∈ ops, o.1.usesClock = true → t ≤ o.2.1) → Monotone ops →
      flags (absDir s.dir) = flags (Bg.syncDir (kk r k) m (F + opened r s)) →
      flags (absDir (runOps s ops).dir) =
        flags (Bg.syncDir (kk r k) m (F + rotCountFrom s ops + opened r (runOps s ops))) := by
  intro ops
  induction ops with
  | nil => intro t s a F _ _ _ _ h; exact h
  | cons o ops ih =>
    intro t s a F hI hp hlo hm h
    obtain ⟨hm1, hm2⟩ := FV.FlwB.monotone_tail hm
    obtain ⟨hp1, hp2⟩ := hp o (by simp)
    obtain ⟨op, now, fl⟩ := o
    simp only at hp1 hp2 hm2
    subst hp2
    have hinv := FV.FlwC.step_inv hS.cfgC s a t op now hI hp1 (hlo (op, now, noFaults) (by simp))
    have hfl := step_flags hS hs s a t op now hI hp1 (hlo (op, now, noFaults) (by simp)) F h
    have e1 : runOps s ((op, now, noFaults) :: ops) = runOps (step s op now noFaults).1 ops := rfl
    have e2 : rotCountFrom s ((op, now, noFaults) :: ops) =
        (if rotates s op now noFaults = true then 1 else 0) +
          rotCountFrom (step s op now noFaults).1 ops := rfl
    rw [e1, e2, ← Nat.add_assoc]
    refine ih _ _ _ _ hinv (fun o' ho' => hp o' (by simp [ho'])) ?_ hm1 hfl
    intro o' ho' hu'
    by_cases hu : op.usesClock = true
    · rw [if_pos hu]; exact hm2 hu o' ho' hu'
    · rw [if_neg hu]; exact hlo o' (by simp [ho']) hu'

/-- **(B), all four namings.** After every plain history from the empty directory (files with a
    suffix; `PlainHistory` includes: no faults, monotone clock) the flags of the rotated files of
    the concrete directory, oldest first, are those of `Bg.syncDir` after as many rotations as the
    history performed — plus one for the direct namings once the first file is open (`opened`):
    there the current file has a rotated-style name, is part of the listing (and of `absDir`),
    and opening the first file is, abstractly, the first `rotate`. -/
theorem history_flags_eq_syncDir_all (cfg : Cfg) (r : RotCfg) (k m : Nat) (hS : Setting cfg r k m)
    (hs : cfg.hasSuffix = true) (ops : List (Op × Nat × Faults)) (hp : PlainHistory ops) :
    (absDir (runOps (init cfg []) ops).dir).map (·.gz) =
      (Bg.syncDir (kk r k) m
        (rotCount cfg ops + opened r (runOps (init cfg []) ops))).map (·.gz) := by
  have := run_flags hS hs ops 0 (init cfg []) Abs.init 0 (FV.FlwC.inv_init cfg r k m) hp.1
    (fun _ _ _ => Nat.zero_le _) hp.2 (by rw [opened_initial r rfl]; rfl)
  rw [Nat.zero_add] at this
  exact this

/-- **(B) as asked for, for the `rCURRENT` namings** (`Naming.numbers`, `Naming.timestamps`): the
    flags of the concrete directory are those of `Bg.syncDir` after as many rotations as the
    history performed. EXCLUDED: the direct namings, for which the statement is false
    (`direct_counterexample`) and `history_flags_eq_syncDir_all` is the true form. -/
theorem history_flags_eq_syncDir_partial (cfg : Cfg) (r : RotCfg) (k m : Nat)
    (hS : Setting cfg r k m) (hs : cfg.hasSuffix = true) (hw : r.naming.writesDirect = false)
    (ops : List (Op × Nat × Faults)) (hp : PlainHistory ops) :
    (absDir (runOps (init cfg []) ops).dir).map (·.gz) =
      (Bg.syncDir (kk r k) m (rotCount cfg ops)).map (·.gz) := by
  have := history_flags_eq_syncDir_all cfg r k m hS hs ops hp
  rw [opened_indirect hw, Nat.add_zero] at this
  exact this

/-- … and the number of files -/
theorem history_length_eq_syncDir_all (cfg : Cfg) (r : RotCfg) (k m : Nat) (hS : Setting cfg r k m)
    (hs : cfg.hasSuffix = true) (ops : List (Op × Nat × Faults)) (hp : PlainHistory ops) :
    (absDir (runOps (init cfg []) ops).dir).length =
      (Bg.syncDir (kk r k) m (rotCount cfg ops + opened r (runOps (init cfg []) ops))).length := by
  have := congrArg List.length (history_flags_eq_syncDir_all cfg r k m hS hs ops hp)
  rw [List.length_map, List.length_map] at this
  exact this

/-! ### (C) the thread, under every schedule, ends where the concrete cleanup ends -/

/-- **(C), all four namings.** Whatever the schedule of the cleanup thread (`Model/Bg.lean`) was:
    if it contains as many rotations as the concrete history performed (for the direct namings:
    counting the opening of the first file), then after shutdown the thread's directory has the
    flags of the concrete directory, whose cleanup ran synchronously inside every rotation. -/
theorem thread_final_eq_concrete_sync_all (cfg : Cfg) (r : RotCfg) (k m : Nat)
    (hS : Setting cfg r k m) (hs : cfg.hasSuffix = true) (ops : List (Op × Nat × Faults))
    (hp : PlainHistory ops) (sched : List Bg.Step)
    (hn : Bg.rotations sched = rotCount cfg ops + opened r (runOps (init cfg []) ops)) :
    ((Bg.drainAll (kk r k) m (Bg.run (kk r k) m {} sched)).d).map (·.gz) =
      (absDir (runOps (init cfg []) ops).dir).map (·.gz) := by
  rw [FV.C07Bg.bg_final_eq_sync, hn, history_flags_eq_syncDir_all cfg r k m hS hs ops hp]

/-- **(C) as asked for, for the `rCURRENT` namings.** -/
theorem thread_final_eq_concrete_sync_partial (cfg : Cfg) (r : RotCfg) (k m : Nat)
    (hS : Setting cfg r k m) (hs : cfg.hasSuffix = true) (hw : r.naming.writesDirect = false)
    (ops : List (Op × Nat × Faults)) (hp : PlainHistory ops) (sched : List Bg.Step)
    (hn : Bg.rotations sched = rotCount cfg ops) :
    ((Bg.drainAll (kk r k) m (Bg.run (kk r k) m {} sched)).d).map (·.gz) =
      (absDir (runOps (init cfg []) ops).dir).map (·.gz) := by
  rw [FV.C07Bg.bg_final_eq_sync, hn, history_flags_eq_syncDir_partial cfg r k m hS hs hw ops hp]

/-- … the same NUMBER of files (all four namings) -/
theorem thread_final_length_eq_concrete_sync_all (cfg : Cfg) (r : RotCfg) (k m : Nat)
    (hS : Setting cfg r k m) (hs : cfg.hasSuffix = true) (ops : List (Op × Nat × Faults))
    (hp : PlainHistory ops) (sched : List Bg.Step)
    (hn : Bg.rotations sched = rotCount cfg ops + opened r (runOps (init cfg []) ops)) :
    (Bg.drainAll (kk r k) m (Bg.run (kk r k) m {} sched)).d.length =
      (absDir (runOps (init cfg []) ops).dir).length := by
  have := congrArg List.length
    (thread_final_eq_concrete_sync_all cfg r k m hS hs ops hp sched hn)
  rw [List.length_map, List.length_map] at this
  exact this

/-- … the same NUMBER of files (`rCURRENT` namings) -/
theorem thread_final_length_eq_concrete_sync_partial (cfg : Cfg) (r : RotCfg) (k m : Nat)
    (hS : Setting cfg r k m) (hs : cfg.hasSuffix = true) (hw : r.naming.writesDirect = false)
    (ops : List (Op × Nat × Faults)) (hp : PlainHistory ops) (sched : List Bg.Step)
    (hn : Bg.rotations sched = rotCount cfg ops) :
    (Bg.drainAll (kk r k) m (Bg.run (kk r k) m {} sched)).d.length =
      (absDir (runOps (init cfg []) ops).dir).length := by
  have := congrArg List.length
    (thread_final_eq_concrete_sync_partial cfg r k m hS hs hw ops hp sched hn)
  rw [List.length_map, List.length_map] at this
  exact this

/-- the length of `absDir` is the number of rotated files of the directory -/
theorem absDir_length (d : Dir) : (absDir d).length = (rotatedAsc d).length := by
  unfold absDir
  rw [List.length_map, List.length_zipIdx]

/-! ### `rotCount` is the number of closed files of the specification -/

theorem absNecessary_fresh (r : RotCfg) (now : Nat) :
    absNecessary r ⟨[], [], true, 0, now⟩ now = false := by
  unfold absNecessary
  cases r.maxSize <;> cases r.age <;> simp

/-- one operation: the specification (`Abs.step`) closes a file iff `rotates` says so -/
theorem step_closed {cfg : Cfg} {r : RotCfg} {k m : Nat} (hS : Setting cfg r k m) (s : St)
    (a : Abs) (t : Nat) (op : Op) (now : Nat) (hi : Inv cfg r k m t s a) (hp : op.plain = true) :
    (Abs.step (some r) a op now).closed.length =
      a.closed.length + (if rotates s op now noFaults = true then 1 else 0) := by
  obtain ⟨hcfg, hi⟩ := hi
  have hrot : s.cfg.rot = some r := by rw [hcfg]; exact hS.rot
  cases op with
  | write b =>
    cases hact : s.act with
    | none =>
      rw [hact] at hi
      obtain ⟨hd, ha⟩ := hi
      subst ha
      obtain ⟨s1, act1, hin, hc1, ha1, hi1, -⟩ := FV.FlwC.initState_inv hS.cfgC s now hcfg hd
      have hrot1 : s1.cfg.rot = some r := by rw [hc1]; exact hS.rot
      have hr : rotates s (.write b) now noFaults = false := by
        have hne := FV.FlwA.nec_eq r act1 _ now hi1.size hi1.created
        rw [absNecessary_fresh] at hne
        simp [rotates, hact, hin, ha1, hrot1, ← hne]
      rw [hr]
      simp [Abs.step, Abs.init, absNecessary_fresh]
    | some act =>
      rw [hact] at hi
      have hne := FV.FlwA.nec_eq r act a now hi.1.size hi.1.created
      have hr : rotates s (.write b) now noFaults = rotationNecessary r act now := by
        simp [rotates, hact, hrot]
      rw [hr, ← hne]
      by_cases hnec : absNecessary r a now = true
      · simp [Abs.step, hi.1.started, hnec, Abs.rotate]
      · simp [Abs.step, hi.1.started, hnec]
  | rotate =>
    cases hact : s.act with
    | none =>
      rw [hact] at hi
      obtain ⟨-, ha⟩ := hi
      subst ha
      have hr : rotates s .rotate now noFaults = false := by simp [rotates, hact]
      rw [hr]
      rfl
    | some act =>
      rw [hact] at hi
      have hr : rotates s .rotate now noFaults = true := by simp [rotates, hact, hrot]
      rw [hr]
      simp [Abs.step, hi.1.started, Abs.rotate]
  | flush => rfl
  | shutdown => rfl
  | restart _ => cases hp
  | reset _ => cases hp
  | extRename => cases hp
  | extRemove => cases hp
  | reopen => cases hp

theorem run_closed {cfg : Cfg} {r : RotCfg} {k m : Nat} (hS : Setting cfg r k m) :
    ∀ (ops : List (Op × Nat × Faults)) (t : Nat) (s : St) (a : Abs),
      Inv cfg r k m t s a → (∀ o ∈ ops, o.1.plain = true ∧ o.2.2 = noFaults) →
      (∀ o ∈ ops, o.1.usesClock = true → t ≤ o.2.1) → Monotone ops →
      (Abs.run (some r) a ops).closed.length = a.closed.length + rotCountFrom s ops := by
  intro ops
  induction ops with
  | nil => intro t s a _ _ _ _; rfl
  | cons o ops ih =>
    intro t s a hI hp hlo hm
    obtain ⟨hm1, hm2⟩ := FV.FlwB.monotone_tail hm
    obtain ⟨hp1, hp2⟩ := hp o (by simp)
    obtain ⟨op, now, fl⟩ := o
    simp only at hp1 hp2 hm2
    subst hp2
    have hinv := FV.FlwC.step_inv hS.cfgC s a t op now hI hp1 (hlo (op, now, noFaults) (by simp))
    have hcl := step_closed hS s a t op now hI hp1
    have e1 : Abs.run (some r) a ((op, now, noFaults) :: ops) =
        Abs.run (some r) (Abs.step (some r) a op now) ops := rfl
    have e2 : rotCountFrom s ((op, now, noFaults) :: ops) =
        (if rotates s op now noFaults = true then 1 else 0) +
          rotCountFrom (step s op now noFaults).1 ops := rfl
    rw [e1, e2, ← Nat.add_assoc, ← hcl]
    refine ih _ _ _ hinv (fun o' ho' => hp o' (by simp [ho'])) ?_ hm1
    intro o' ho' hu'
    by_cases hu : op.usesClock = true
    · rw [if_pos hu]; exact hm2 hu o' ho' hu'
    · rw [if_neg hu]; exact hlo o' (by simp [ho']) hu'

/-- **`rotCount` counts what it should**: for every plain history it is the number of closed
    files of the log without cleanup (the specification `Abs.run` of the refinement
    `Flw ⊑ FlwAbs`). (The flags alone would not pin the count down: from `kk + m` rotations on
    they no longer change.) -/
theorem rotCount_eq_closed (cfg : Cfg) (r : RotCfg) (k m : Nat) (hS : Setting cfg r k m)
    (ops : List (Op × Nat × Faults)) (hp : PlainHistory ops) :
    rotCount cfg ops = (Abs.run cfg.rot Abs.init ops).closed.length := by
  have := run_closed hS ops 0 (init cfg []) Abs.init (FV.FlwC.inv_init cfg r k m) hp.1
    (fun _ _ _ => Nat.zero_le _) hp.2
  rw [hS.rot, this]
  show rotCount cfg ops = 0 + rotCountFrom (init cfg []) ops
  rw [Nat.zero_add]
  rfl

/-! ### (D) non-vacuity -/

/-- rotation by size (more than 2 bytes), cleanup: keep 1 plain and 2 compressed files, files
    with a suffix, buffer of 2 bytes -/
def gRot (nm : Naming) : RotCfg := ⟨some 2, none, nm, some (1, 2)⟩
def gCfg (nm : Naming) : Cfg :=
  { rot := some (gRot nm), append := false, cap := some 2, symlink := false, hasSuffix := true }

/-- eight writes, four of which rotate (the 2nd, 5th, 6th and 8th: the file has more than two
    bytes by then), a flush, two forced rotations -/
def gOps : List (Op × Nat × Faults) :=
  [(.write [1, 1, 1], 10, noFaults), (.write [2], 11, noFaults), (.write [3], 11, noFaults),
   (.write [4], 12, noFaults), (.write [5, 5, 5], 13, noFaults), (.flush, 0, noFaults),
   (.write [6, 6, 6], 14, noFaults), (.rotate, 14, noFaults), (.write [7, 7, 7], 15, noFaults),
   (.write [8], 16, noFaults), (.rotate, 17, noFaults)]

theorem gSetting (nm : Naming) : Setting (gCfg nm) (gRot nm) 1 2 := ⟨rfl, rfl, rfl⟩

theorem gPlain : PlainHistory gOps := by
  unfold PlainHistory Monotone; decide

/-- which operations rotate -/
example : rotCount (gCfg .numbers) gOps = 6 ∧
    (List.range 12).map (fun n => rotCount (gCfg .numbers) (gOps.take n)) =
      [0, 0, 1, 1, 1, 2, 2, 3, 4, 4, 5, 6] := by decide

/-- … the seven files of the log without cleanup, six of them closed -/
example : (Abs.run (gCfg .numbers).rot Abs.init gOps).closed =
    [[1, 1, 1], [2, 3, 4], [5, 5, 5], [6, 6, 6], [7, 7, 7], [8]] := by decide

/-- the concrete directory: `r00003.gz r00004.gz r00005` (and `rCURRENT`); both sides of (B) -/
example : rotList (runOps (init (gCfg .numbers) []) gOps).dir =
      [(some (.num 3), true), (some (.num 4), true), (some (.num 5), false)] ∧
    (absDir (runOps (init (gCfg .numbers) []) gOps).dir).map (·.gz) = [true, true, false] ∧
    Bg.syncDir 1 2 6 = [⟨3, true⟩, ⟨4, true⟩, ⟨5, false⟩] ∧
    (Bg.syncDir (kk (gRot .numbers) 1) 2 (rotCount (gCfg .numbers) gOps)).map (·.gz) =
      [true, true, false] := by decide

/-- … as (B) says -/
example : (absDir (runOps (init (gCfg .numbers) []) gOps).dir).map (·.gz) =
    (Bg.syncDir (kk (gRot .numbers) 1) 2 (rotCount (gCfg .numbers) gOps)).map (·.gz) :=
  history_flags_eq_syncDir_partial _ _ 1 2 (gSetting .numbers) rfl rfl gOps gPlain

/-- … after every prefix of the history (the directory fills up, then stays at three files) -/
example : (List.range 12).map (fun n =>
      (absDir (runOps (init (gCfg .numbers) []) (gOps.take n)).dir).map (·.gz)) =
    [[], [], [false], [false], [false], [true, false], [true, false], [true, true, false],
     [true, true, false], [true, true, false], [true, true, false], [true, true, false]] ∧
    (List.range 12).map (fun n =>
      (Bg.syncDir 1 2 (rotCount (gCfg .numbers) (gOps.take n))).map (·.gz)) =
    [[], [], [false], [false], [false], [true, false], [true, false], [true, true, false],
     [true, true, false], [true, true, false], [true, true, false], [true, true, false]] := by
  decide

/-- (C): the lagging schedule of `Props/C07Bg.lean` has six rotations as well; in the middle the
    thread is behind (six files, two of them compressed), after shutdown its directory has the
    flags and the size of the concrete one -/
example : Bg.rotations FV.C07Bg.lagging = rotCount (gCfg .numbers) gOps := by decide
example : ((Bg.run 1 2 {} FV.C07Bg.lagging).d).map (·.gz) =
    [true, true, false, false, false, false] := by decide
example : ((Bg.drainAll 1 2 (Bg.run 1 2 {} FV.C07Bg.lagging)).d).map (·.gz) =
      (absDir (runOps (init (gCfg .numbers) []) gOps).dir).map (·.gz) ∧
    (Bg.drainAll 1 2 (Bg.run 1 2 {} FV.C07Bg.lagging)).d.length =
      (absDir (runOps (init (gCfg .numbers) []) gOps).dir).length :=
  ⟨thread_final_eq_concrete_sync_partial _ _ 1 2 (gSetting .numbers) rfl rfl gOps gPlain
      FV.C07Bg.lagging (by decide),
   thread_final_length_eq_concrete_sync_partial _ _ 1 2 (gSetting .numbers) rfl rfl gOps gPlain
      FV.C07Bg.lagging (by decide)⟩
example : ((Bg.drainAll 1 2 (Bg.run 1 2 {} FV.C07Bg.lagging)).d).map (·.gz) =
    [true, true, false] := by decide

/-- the same with `timestamps` (two rotations within second 14: a `.restart-0000` sibling) -/
example : rotCount (gCfg .timestamps) gOps = 6 ∧
    rotList (runOps (init (gCfg .timestamps) []) gOps).dir =
      [(some (.ts 14 none), true), (some (.ts 14 (some 0)), true), (some (.ts 16 none), false)] ∧
    (absDir (runOps (init (gCfg .timestamps) []) gOps).dir).map (·.gz) =
      (Bg.syncDir 1 2 (rotCount (gCfg .timestamps) gOps)).map (·.gz) := by decide

/-- **The statement without the correction `opened` is FALSE for the direct namings**: there the
    current file has a rotated-style name and is part of `absDir`. After the first write
    (`r00000` is open, no rotation yet) the directory holds one plain rotated-style file,
    `syncDir … 0` none; after the second write (one rotation) it holds `r00000.gz r00001`,
    `syncDir … 1` one file. With the correction both agree. -/
theorem direct_counterexample :
    PlainHistory (gOps.take 1) ∧ rotCount (gCfg .numbersDirect) (gOps.take 1) = 0 ∧
    (absDir (runOps (init (gCfg .numbersDirect) []) (gOps.take 1)).dir).map (·.gz) = [false] ∧
    (Bg.syncDir (kk (gRot .numbersDirect) 1) 2
      (rotCount (gCfg .numbersDirect) (gOps.take 1))).map (·.gz) = [] ∧
    rotCount (gCfg .numbersDirect) (gOps.take 2) = 1 ∧
    (absDir (runOps (init (gCfg .numbersDirect) []) (gOps.take 2)).dir).map (·.gz) =
      [true, false] ∧
    (Bg.syncDir (kk (gRot .numbersDirect) 1) 2
      (rotCount (gCfg .numbersDirect) (gOps.take 2))).map (·.gz) = [false] ∧
    (Bg.syncDir (kk (gRot .numbersDirect) 1) 2
      (rotCount (gCfg .numbersDirect) (gOps.take 2) +
        opened (gRot .numbersDirect)
          (runOps (init (gCfg .numbersDirect) []) (gOps.take 2)))).map (·.gz) = [true, false] := by
  refine ⟨?_, ?_⟩
  · unfold PlainHistory Monotone; decide
  · decide

/-- the direct namings with the correction, on the whole history (`numbersDirect`, and
    `timestampsDirect` with `k = 0`, which the code treats as `k = 1`) -/
example : (absDir (runOps (init (gCfg .numbersDirect) []) gOps).dir).map (·.gz) =
    (Bg.syncDir (kk (gRot .numbersDirect) 1) 2 (rotCount (gCfg .numbersDirect) gOps +
      opened (gRot .numbersDirect) (runOps (init (gCfg .numbersDirect) []) gOps))).map (·.gz) :=
  history_flags_eq_syncDir_all _ _ 1 2 (gSetting .numbersDirect) rfl gOps gPlain

example :
    let r : RotCfg := ⟨some 2, none, .timestampsDirect, some (0, 2)⟩
    let cfg : Cfg := ⟨some r, false, some 2, false, true⟩
    kk r 0 = 1 ∧ rotCount cfg gOps = 6 ∧ opened r (runOps (init cfg []) gOps) = 1 ∧
    (absDir (runOps (init cfg []) gOps).dir).map (·.gz) = [true, true, false] ∧
    (Bg.syncDir (kk r 0) 2 7).map (·.gz) = [true, true, false] ∧
    (List.range 4).map (fun n => (absDir (runOps (init cfg []) (gOps.take n)).dir).map (·.gz)) =
      [[], [false], [true, false], [true, false]] ∧
    (List.range 4).map (fun n => (Bg.syncDir (kk r 0) 2
      (rotCount cfg (gOps.take n) + opened r (runOps (init cfg []) (gOps.take n)))).map (·.gz)) =
      [[], [false], [true, false], [true, false]] := by decide

/-- (A) on an example: the same flags under different (increasing) ranks; and why "increasing"
    (at least: distinct) is needed — with a repeated rank one operation hits two files -/
example : (Bg.pass 1 1 [⟨3, true⟩, ⟨7, false⟩, ⟨8, false⟩, ⟨20, false⟩]).map (·.gz) =
      (Bg.pass 1 1 [⟨0, true⟩, ⟨1, false⟩, ⟨2, false⟩, ⟨3, false⟩]).map (·.gz) ∧
    Bg.pass 1 1 [⟨3, true⟩, ⟨7, false⟩, ⟨8, false⟩, ⟨20, false⟩] = [⟨8, true⟩, ⟨20, false⟩] ∧
    Bg.pass 1 1 [⟨3, true⟩, ⟨8, false⟩, ⟨8, false⟩, ⟨20, false⟩] = [⟨20, false⟩] := by decide

/-- (A) needs no "compressed files first": a compressed file that is newer than a plain one is
    listed after it (treated as older) under every numbering alike -/
example : (Bg.pass 1 0 [⟨4, false⟩, ⟨9, true⟩]).map (·.gz) =
    (Bg.pass 1 0 [⟨0, false⟩, ⟨1, true⟩]).map (·.gz) :=
  (FV.Bg.pass_flags_congr 1 0 _ _ (by unfold Asc; decide) (by unfold Asc; decide) rfl).1

end FV.C07BgBridge
