import FlexiVerif.Lemmas.FlwRules
import FlexiVerif.Lemmas.FlwRefine
/-
  C01 — The rotated log stream is complete, duplicate-free and in order.

  `s := runOps (init cfg []) ops` is the concrete writer state after the history `ops`,
  `records ops` are the byte lists handed to `write`, in order, `written ops` their concatenation.
  Everything that speaks about the concrete model takes the refinement `Refines cfg ops`
  (proved per naming scheme in `Lemmas/FlwRefine*.lean`) as a hypothesis.
-/
namespace FV.C01
open FV FV.Flw

/-- **Completeness.** Reading the files in reading order (the content of the `BufWriter` counted
    to the last file) gives exactly the bytes written: nothing lost, duplicated, reordered. -/
theorem stream_complete (cfg : Cfg) (ops : List (Op × Nat × Faults)) (href : Refines cfg ops) :
    (viewFiles (runOps (init cfg []) ops)).flatten = written ops := by
  rw [href.1]; exact Abs.files_flatten cfg.rot ops

/-- **Record boundaries.** The files are a contiguous grouping of the records: no record is split
    over two files, none is lost, duplicated or reordered. -/
theorem files_on_record_boundaries (cfg : Cfg) (ops : List (Op × Nat × Faults))
    (href : Refines cfg ops) :
    ∃ groups : List (List (List Nat)),
      groups.flatten = records ops ∧
      viewFiles (runOps (init cfg []) ops) = groups.map List.flatten := by
  obtain ⟨groups, h1, h2⟩ := Abs.files_groups cfg.rot ops
  exact ⟨groups, h1, by rw [href.1, h2]⟩

/-- **Flush.** After `flush` (or `shutdown`) the `BufWriter` is empty, in every state, for every
    clock reading and fault pattern. -/
theorem flush_empties_buffer (s : St) (op : Op) (now : Nat) (fl : Faults)
    (h : op = .flush ∨ op = .shutdown) :
    ∀ a', (step s op now fl).1.act = some a' → a'.pending = [] :=
  step_flush_pending s op now fl h

/-- **Read after flush.** Whenever the buffer is empty, the directory itself (what any reader
    sees) holds exactly the written bytes, partitioned on record boundaries. -/
theorem read_after_flush (cfg : Cfg) (ops : List (Op × Nat × Faults)) (href : Refines cfg ops)
    (hflushed : ∀ a', (runOps (init cfg []) ops).act = some a' → a'.pending = []) :
    readAll (runOps (init cfg []) ops).dir = written ops ∧
    ∃ groups : List (List (List Nat)),
      groups.flatten = records ops ∧
      parts (runOps (init cfg []) ops).dir = groups.map List.flatten := by
  have hv := viewFiles_no_pending _ hflushed
  refine ⟨?_, ?_⟩
  · rw [← parts_flatten, ← hv]; exact stream_complete cfg ops href
  · obtain ⟨groups, h1, h2⟩ := files_on_record_boundaries cfg ops href
    exact ⟨groups, h1, by rw [← hv, h2]⟩

/-- the buffer is empty after a history that ends with `flush` or `shutdown` -/
theorem flushed_after_final_flush (s0 : St) (ops ops' : List (Op × Nat × Faults)) (op : Op)
    (now : Nat) (fl : Faults) (hops : ops = ops' ++ [(op, now, fl)])
    (h : op = .flush ∨ op = .shutdown) :
    ∀ a', (runOps s0 ops).act = some a' → a'.pending = [] := by
  subst hops
  rw [runOps_concat]
  exact step_flush_pending _ op now fl h

/-- **Corollary.** After a history that ends with `flush` or `shutdown`, reading the directory
    gives exactly the written bytes. -/
theorem read_after_final_flush (cfg : Cfg) (ops ops' : List (Op × Nat × Faults)) (op : Op)
    (now : Nat) (fl : Faults) (hops : ops = ops' ++ [(op, now, fl)])
    (h : op = .flush ∨ op = .shutdown) (href : Refines cfg ops) :
    readAll (runOps (init cfg []) ops).dir = written ops :=
  (read_after_flush cfg ops href
    (flushed_after_final_flush (init cfg []) ops ops' op now fl hops h)).1

/-- … and the files on disk are a grouping of the records. -/
theorem parts_after_final_flush (cfg : Cfg) (ops ops' : List (Op × Nat × Faults)) (op : Op)
    (now : Nat) (fl : Faults) (hops : ops = ops' ++ [(op, now, fl)])
    (h : op = .flush ∨ op = .shutdown) (href : Refines cfg ops) :
    ∃ groups : List (List (List Nat)),
      groups.flatten = records ops ∧
      parts (runOps (init cfg []) ops).dir = groups.map List.flatten :=
  (read_after_flush cfg ops href
    (flushed_after_final_flush (init cfg []) ops ops' op now fl hops h)).2

/-! ### non-vacuity: a buffered, size-rotating writer; three records, a flush at the end -/

def exCfg : Cfg := { rot := some ⟨some 3, none, .numbers, none⟩, append := false, cap := some 4,
                     symlink := false }
def exOps : List (Op × Nat × Faults) :=
  [(.write [1, 2], 10, noFaults), (.write [3, 4], 11, noFaults), (.write [5], 12, noFaults),
   (.flush, 13, noFaults)]

/-- the hypotheses are satisfiable: this history refines, ends with a flush … -/
example : Refines exCfg exOps := Refines.of_check _ _ (by decide)
example : PlainHistory exOps := PlainHistory.of_check _ (by decide) (by decide)
/-- … and the conclusions are what one expects: two files, split on a record boundary -/
example : parts (runOps (init exCfg []) exOps).dir = [[1, 2, 3, 4], [5]] := by decide
example : readAll (runOps (init exCfg []) exOps).dir = written exOps := by decide
/-- before the flush part of the stream is still in the buffer (so `viewFiles` is the right view) -/
example : parts (runOps (init exCfg []) (exOps.take 3)).dir = [[1, 2, 3, 4], []] ∧
    viewFiles (runOps (init exCfg []) (exOps.take 3)) = [[1, 2, 3, 4], [5]] := by decide


/-! ### The property, unconditionally (refinement proved for every naming scheme: `refines_all`) -/

/-- **C01.** For every configuration without append and cleanup — every naming scheme
    (`numbers`, `numbersDirect`, `timestamps`, `timestampsDirect`, with the `.restart-NNNN`
    collision handling), every criterion (size, age, both, none), every buffer capacity incl.
    direct mode — and every history of writes (records of any length), forced rotations, flushes
    and shutdowns under a monotone clock: reading the rotated files oldest to newest, then the
    current file (with what is still buffered), yields exactly the written bytes. -/
theorem rotated_stream_complete (cfg : Cfg) (ha : cfg.append = false) (hn : NoCleanup cfg)
    (ops : List (Op × Nat × Faults)) (hp : PlainHistory ops) :
    (viewFiles (runOps (init cfg []) ops)).flatten = written ops :=
  stream_complete cfg ops (refines_all cfg ha hn ops hp)

/-- … the file boundaries are record boundaries: no record is split, lost, duplicated, reordered -/
theorem rotated_files_on_record_boundaries (cfg : Cfg) (ha : cfg.append = false) (hn : NoCleanup cfg)
    (ops : List (Op × Nat × Faults)) (hp : PlainHistory ops) :
    ∃ groups : List (List (List Nat)),
      groups.flatten = records ops ∧
      viewFiles (runOps (init cfg []) ops) = groups.map List.flatten :=
  files_on_record_boundaries cfg ops (refines_all cfg ha hn ops hp)

/-- … and after `flush` or `shutdown` all of it is physically in the files. -/
theorem rotated_read_after_flush (cfg : Cfg) (ha : cfg.append = false) (hn : NoCleanup cfg)
    (ops ops' : List (Op × Nat × Faults)) (op : Op) (now : Nat) (fl : Faults)
    (hops : ops = ops' ++ [(op, now, fl)]) (h : op = .flush ∨ op = .shutdown)
    (hp : PlainHistory ops) :
    readAll (runOps (init cfg []) ops).dir = written ops ∧
    ∃ groups : List (List (List Nat)),
      groups.flatten = records ops ∧
      parts (runOps (init cfg []) ops).dir = groups.map List.flatten :=
  ⟨read_after_final_flush cfg ops ops' op now fl hops h (refines_all cfg ha hn ops hp),
   parts_after_final_flush cfg ops ops' op now fl hops h (refines_all cfg ha hn ops hp)⟩

end FV.C01
