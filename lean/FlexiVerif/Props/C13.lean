import FlexiVerif.Props.C02
/-
  C13 — Brace targets, writer level ceilings and duplication route each record correctly.
-/
namespace FV.C13
open FV FV.Spec

/-- the writer names addressed by a brace target -/
def addressed (t : List Char) : List (List Char) := splitOn ',' (braceInner t)

def isBrace (t : List Char) : Prop := t.head? = some '{'

/-- what `FlexiLogger::log` hands to additional writers for a brace target: one entry per name
    in the list, in list order — independent of the specification, level, module, message -/
theorem brace_deliveries (spec : LogSpec) (ws : List Writer) (lvl : Nat) (t : List Char)
    (m : Option (List Char)) (mm : Bool) (hb : isBrace t) :
    (route spec ws lvl t m mm).deliveries =
      (addressed t).filterMap (deliverOf ws) ∧
    (route spec ws lvl t m mm).panic = false := by
  unfold isBrace at hb
  simp only [route, hb, addressed, ite_true]
  split <;> simp

/-- … regardless of the log specification -/
theorem deliveries_independent_of_spec (s1 s2 : LogSpec) (ws : List Writer) (l1 l2 : Nat)
    (t : List Char) (m1 m2 : Option (List Char)) (b1 b2 : Bool) (hb : isBrace t) :
    (route s1 ws l1 t m1 b1).deliveries = (route s2 ws l2 t m2 b2).deliveries := by
  rw [(brace_deliveries s1 ws l1 t m1 b1 hb).1, (brace_deliveries s2 ws l2 t m2 b2 hb).1]

theorem count_filterMap_nodup {α β : Type} [DecidableEq α] [DecidableEq β] (f : α → Option β)
    (l : List α) (x : α) (y : β) (hn : l.Nodup) (hx : x ∈ l) (hf : f x = some y)
    (hinj : ∀ z ∈ l, f z = some y → z = x) : (l.filterMap f).count y = 1 := by
  induction l with
  | nil => simp at hx
  | cons a as ih =>
    rw [List.nodup_cons] at hn
    by_cases hax : a = x
    · subst hax
      have hrest : (as.filterMap f).count y = 0 := by
        rw [List.count_eq_zero]
        intro hmem
        obtain ⟨z, hz, hfz⟩ := List.mem_filterMap.mp hmem
        have := hinj z (List.mem_cons_of_mem _ hz) hfz
        exact hn.1 (this ▸ hz)
      simp [List.filterMap_cons, hf, hrest]
    · have hx' : x ∈ as := by
        rcases List.mem_cons.mp hx with h | h
        · exact absurd h.symm hax
        · exact h
      have hfa : f a ≠ some y := fun h => hax (hinj a (by simp) h)
      have := ih hn.2 hx' (fun z hz => hinj z (List.mem_cons_of_mem _ hz))
      cases hfa' : f a with
      | none => simpa [List.filterMap_cons, hfa'] using this
      | some b =>
        have hb : b ≠ y := fun h => hfa (by rw [hfa', h])
        simp [List.filterMap_cons, hfa', List.count_cons, hb, this]

/-- **Exactly once.** For a brace list of distinct names, a registered writer named in the list
    receives the record exactly once … -/
theorem named_writer_exactly_once (spec : LogSpec) (ws : List Writer) (lvl : Nat) (t : List Char)
    (m : Option (List Char)) (mm : Bool) (hb : isBrace t) (hnd : (addressed t).Nodup)
    (n : List Char) (w : Writer) (hn : n ∈ addressed t) (hd : n ≠ defaultName) (hl : lookup ws n = some w) :
    (route spec ws lvl t m mm).deliveries.count (Deliver.writer n) = 1 := by
  rw [(brace_deliveries spec ws lvl t m mm hb).1]
  apply count_filterMap_nodup _ _ n _ hnd hn
  · simp [deliverOf, hd, hl]
  · intro z _ hz
    unfold deliverOf at hz
    by_cases hzd : z = defaultName
    · simp [hzd] at hz
    · simp only [hzd, ite_false] at hz
      split at hz <;> simp at hz
      exact hz

/-- … and a writer that is not named in the list receives nothing -/
theorem unnamed_writer_nothing (spec : LogSpec) (ws : List Writer) (lvl : Nat) (t : List Char)
    (m : Option (List Char)) (mm : Bool) (n : List Char) (hn : n ∉ addressed t ∨ ¬ isBrace t) :
    Deliver.writer n ∉ (route spec ws lvl t m mm).deliveries := by
  by_cases hb : isBrace t
  · rw [(brace_deliveries spec ws lvl t m mm hb).1]
    intro hmem
    obtain ⟨z, hz, hfz⟩ := List.mem_filterMap.mp hmem
    unfold deliverOf at hfz
    by_cases hzd : z = defaultName
    · simp [hzd] at hfz
    · simp only [hzd, ite_false] at hfz
      split at hfz <;> simp at hfz
      subst hfz
      rcases hn with h | h
      · exact h hz
      · exact h hb
  · have : t.head? ≠ some '{' := hb
    rw [C02.log_iff spec ws lvl t m mm this]
    simp

/-- the default channel: only if the list contains `_Default` and the specification enables the
    record's *module* (and the text filter matches) -/
theorem brace_default_iff (spec : LogSpec) (ws : List Writer) (lvl : Nat) (t : List Char)
    (m : Option (List Char)) (mm : Bool) (hb : isBrace t) :
    (route spec ws lvl t m mm).default =
      (decide (defaultName ∈ addressed t) &&
        (enabled spec.filters lvl (m.getD []) && (spec.regex.isNone || mm))) := by
  unfold isBrace at hb
  simp only [route, hb, addressed, ite_true]
  by_cases hd : defaultName ∈ splitOn ',' (braceInner t)
  · simp [hd]
  · simp [hd]

/-- unknown names are reported, once per occurrence, and do not disturb the others: the
    deliveries to registered writers are those of the list with the unknown names removed -/
theorem unknown_reported (spec : LogSpec) (ws : List Writer) (lvl : Nat) (t : List Char)
    (m : Option (List Char)) (mm : Bool) (hb : isBrace t) (n : List Char)
    (hn : n ∈ addressed t) (hd : n ≠ defaultName) (hl : lookup ws n = none) :
    Deliver.unknown n ∈ (route spec ws lvl t m mm).deliveries := by
  rw [(brace_deliveries spec ws lvl t m mm hb).1]
  exact List.mem_filterMap.mpr ⟨n, hn, by simp [deliverOf, hd, hl]⟩

theorem unknown_do_not_disturb (spec : LogSpec) (ws : List Writer) (lvl : Nat) (t : List Char)
    (m : Option (List Char)) (mm : Bool) (hb : isBrace t) :
    (route spec ws lvl t m mm).deliveries.filterMap
        (fun d => match d with | .writer n => some n | .unknown _ => none) =
      (addressed t).filter (fun n => n ≠ defaultName && (lookup ws n).isSome) := by
  rw [(brace_deliveries spec ws lvl t m mm hb).1]
  induction addressed t with
  | nil => rfl
  | cons a as ih =>
    by_cases had : a = defaultName
    · simp [List.filterMap_cons, deliverOf, had, ih]
    · cases hl : lookup ws a with
      | none => simp [List.filterMap_cons, List.filter_cons, deliverOf, had, hl, ih]
      | some w => simp [List.filterMap_cons, List.filter_cons, deliverOf, had, hl, ih]

/-- no provided writer emits a record above its configured maximum level -/
theorem ceiling_rule (w : Writer) (lvl : Nat) (h : w.honoursCeiling = true) :
    w.emits lvl = true ↔ lvl ≤ w.ceiling := by
  simp [Writer.emits, h]

theorem emitted_below_ceiling (ws : List Writer) (r : RouteOut) (lvl : Nat) (n : List Char)
    (hn : n ∈ emitted ws r lvl) : ∃ w, lookup ws n = some w ∧ w.emits lvl = true := by
  unfold emitted at hn
  obtain ⟨d, _, hd⟩ := List.mem_filterMap.mp hn
  cases d with
  | unknown x => simp at hd
  | writer x =>
    simp only [] at hd
    cases hl : lookup ws x with
    | none => simp [hl] at hd
    | some w =>
      simp only [hl, Option.bind] at hd
      split at hd
      · rename_i he; simp at hd; subst hd; exact ⟨w, hl, he⟩
      · simp at hd

/-- duplication: exactly when the level is at or above (numerically: ≤) the duplication level;
    the whole table, `Duplicate` = None(0) .. Trace(5), All(6), levels Error(1) .. Trace(5) -/
theorem dup_rule : ∀ d : Fin 7, ∀ l : Fin 6, 1 ≤ l.val →
    dupDecision d.val l.val = (decide (d.val = 6) || decide (l.val ≤ d.val)) := by
  decide

/-! ### non-vacuity -/
example :
    let ws : List Writer := [⟨"A".toList, 2, true⟩, ⟨"B".toList, 5, false⟩]
    let r := route ⟨[⟨none, 0⟩], none⟩ ws 3 "{B,zz,A,_Default}".toList (some "m".toList) true
    r.deliveries = [.writer "B".toList, .unknown "zz".toList, .writer "A".toList] ∧ r.default = false ∧
      emitted ws r 3 = ["B".toList] := by decide

end FV.C13
