import FlexiVerif.Lemmas.FlwCrashCleanup
/-
  C11, cleanup part — A process killed at ANY point of a cleanup pass (remove / compress the
  rotated files beyond the keep limits) loses nothing it should keep.

  `Model/FlwTrace.lean::cleanupLoopT` records every named point of
  `remove_or_compress_too_old_logfiles_impl` between two file-system effects with the directory
  on disk at that point; a process killed there leaves exactly that directory. The compressed
  twin of a file is created EMPTY, then filled, and only then the original is erased; an
  unfinished twin holds nothing readable. Proofs: `Lemmas/FlwCrashCleanup.lean`. The premise
  `IfxDistinct` (no infix twice in the directory) holds in every reachable state
  (`Props/C07.lean::reachable_ifxDistinct`).
-/
namespace FV.C11Cleanup
open FV FV.Flw

/-- the bytes `data` of the rotated file with infix `i` are completely on disk in `d`: as the
    plain file or as its compressed twin -/
def Held (d : Dir) (i : Infix) (data : List Nat) : Prop :=
  (∃ f, d.get ⟨some i, false⟩ = some f ∧ f.data = data) ∨
  (∃ f, d.get ⟨some i, true⟩ = some f ∧ f.data = data)

/-- **A kill at ANY point of a cleanup pass loses nothing it should keep.** Let the pass start on a
    directory `d0` in which no infix occurs twice. At every recorded point of the pass (and in the
    directory the completed pass returns), every rotated file of `d0` that is within the keep
    limits of the listing (listing index `< k + m`) is still completely on disk, plain or
    compressed — the original is erased only after the finished copy exists, an unfinished copy
    never replaces anything; and every file that is NOT in the listing (the current file, foreign
    files, …) is untouched. -/
theorem cleanup_pass_crash_safe (now : Nat) (hasSuffix : Bool) (k m : Nat) (link : Option FName)
    (d0 : Dir) (hd : FV.FlwL.IfxDistinct d0) :
    let res := cleanupLoopT now hasSuffix k m link (listing d0) 0 d0 []
    (∀ d, (d = res.1 ∨ ∃ p ∈ res.2, p.dir = d) →
      (∀ (j : Nat) (n : FName) (f : File) (i : Infix), (listing d0)[j]? = some (n, f) → n.ifx = some i →
          j < k + m → Held d i f.data) ∧
      (∀ n : FName, (∀ e ∈ listing d0, e.1 ≠ n) → (∀ e ∈ listing d0, ({ e.1 with gz := true } : FName) ≠ n) →
          d.get n = d0.get n)) := by
  intro res d h
  obtain ⟨hA, hB⟩ := FV.FlwCC.pass_inv now hasSuffix k m link d0 hd d h
  exact ⟨fun j n f i hj hi hlt => hA j n f i hj hi (by omega), hB⟩

/-- the un-instrumented pass is the first projection (so the theorem above speaks about the pass
    the writer really runs) -/
theorem cleanupLoopT_fst (now : Nat) (hasSuffix : Bool) (k m : Nat) (link : Option FName)
    (l : List (FName × File)) (i : Nat) (d : Dir) (acc : List Pt) :
    (cleanupLoopT now hasSuffix k m link l i d acc).1 =
      (cleanupLoop now hasSuffix k m noFaults l i d 0 0).1 :=
  FV.FlwCC.loopT_fst now hasSuffix k m link l i d acc 0 0

/-- … lifted to `cleanupT` for a rotation configuration (`k` bumped to 1 for the direct namings). -/
theorem cleanupT_crash_safe (now : Nat) (cfg : Cfg) (r : RotCfg) (link : Option FName) (k m : Nat)
    (hc : r.cleanup = some (k, m)) (d0 : Dir) (hd : FV.FlwL.IfxDistinct d0) :
    let kk := if r.naming.writesDirect && k = 0 then 1 else k
    ∀ p ∈ (cleanupT now cfg r link d0).2,
      ∀ (j : Nat) (n : FName) (f : File) (i : Infix), (listing d0)[j]? = some (n, f) → n.ifx = some i →
        j < kk + m → Held p.dir i f.data := by
  intro kk p hp j n f i hj hi hlt
  have heq : cleanupT now cfg r link d0 =
      cleanupLoopT now cfg.hasSuffix kk m link (listing d0) 0 d0 [] := by
    unfold cleanupT
    rw [hc]
  rw [heq] at hp
  exact (cleanup_pass_crash_safe now cfg.hasSuffix kk m link d0 hd p.dir
    (Or.inr ⟨p, hp, rfl⟩)).1 j n f i hj hi hlt

/-! ### non-vacuity: a pass with two compressions and one removal -/

/-- the current file, the rotated files `r00000 … r00003` (plain) and a foreign file -/
def exDir : Dir :=
  [(⟨some .cur, false⟩, ⟨[9], 5⟩), (⟨some (.num 0), false⟩, ⟨[10], 0⟩),
   (⟨some (.num 1), false⟩, ⟨[11, 11], 1⟩), (⟨some (.num 2), false⟩, ⟨[12, 12, 12], 2⟩),
   (⟨some (.num 3), false⟩, ⟨[13], 3⟩), (⟨none, false⟩, ⟨[99], 0⟩)]

/-- the pass at time 7: keep 1 plain and 2 compressed files -/
def exPass : Dir × List Pt := cleanupLoopT 7 true 1 2 none (listing exDir) 0 exDir []

/-- the premise holds; the listing is `[3, 2, 1, 0]` -/
example : FV.FlwL.IfxDistinct exDir ∧
    (listing exDir).map (·.1) = [⟨some (.num 3), false⟩, ⟨some (.num 2), false⟩,
      ⟨some (.num 1), false⟩, ⟨some (.num 0), false⟩] := by decide

/-- the points of the pass in execution order: `r00002` and `r00001` (indexes 1, 2) are
    compressed, `r00000` (index 3 = k + m) is removed -/
example : exPass.2.map (·.name) =
    ["compress.create.before", "compress.created", "compress.copied", "compress.finished",
     "compress.removed",
     "compress.create.before", "compress.created", "compress.copied", "compress.finished",
     "compress.removed",
     "cleanup.remove.before", "cleanup.remove.after"] := by decide

/-- the theorem on this pass -/
example := cleanup_pass_crash_safe 7 true 1 2 none exDir (by decide)

/-- At the point `compress.created` of the SECOND compression (point 6): the first file
    (`r00002`) is held only in compressed form, the second (`r00001`) only in plain form — its
    compressed twin exists but is empty; `r00003`, the current file and the foreign file are
    untouched. -/
example :
    (exPass.2.map (·.name))[6]? = some "compress.created" ∧
    (exPass.2.filter (·.name = "compress.created")).length = 2 ∧
    (∀ p, exPass.2[6]? = some p →
      Held p.dir (.num 2) [12, 12, 12] ∧
      p.dir.get ⟨some (.num 2), false⟩ = none ∧
      p.dir.get ⟨some (.num 2), true⟩ = some ⟨[12, 12, 12], 7⟩ ∧
      Held p.dir (.num 1) [11, 11] ∧
      p.dir.get ⟨some (.num 1), false⟩ = some ⟨[11, 11], 1⟩ ∧
      p.dir.get ⟨some (.num 1), true⟩ = some ⟨[], 7⟩ ∧
      p.dir.get ⟨some (.num 3), false⟩ = some ⟨[13], 3⟩ ∧
      p.dir.get ⟨some (.num 0), false⟩ = some ⟨[10], 0⟩ ∧
      p.dir.get ⟨some .cur, false⟩ = some ⟨[9], 5⟩ ∧
      p.dir.get ⟨none, false⟩ = some ⟨[99], 0⟩) := by
  refine ⟨by decide, by decide, ?_⟩
  intro p hp
  have hdir : exPass.2[6]?.map (·.dir) = some p.dir := by rw [hp]; rfl
  have h2g : p.dir.get ⟨some (.num 2), true⟩ = some ⟨[12, 12, 12], 7⟩ := by
    have : (exPass.2[6]?.map (·.dir)).bind (·.get ⟨some (.num 2), true⟩) =
        some ⟨[12, 12, 12], 7⟩ := by decide
    rw [hdir] at this
    exact this
  have h1p : p.dir.get ⟨some (.num 1), false⟩ = some ⟨[11, 11], 1⟩ := by
    have : (exPass.2[6]?.map (·.dir)).bind (·.get ⟨some (.num 1), false⟩) =
        some ⟨[11, 11], 1⟩ := by decide
    rw [hdir] at this
    exact this
  have hrest : ∀ (x : FName) (v : Option File),
      (exPass.2[6]?.map (·.dir)).bind (·.get x) = v → p.dir.get x = v := by
    intro x v h
    rw [hdir] at h
    exact h
  exact ⟨Or.inr ⟨_, h2g, rfl⟩, hrest _ _ (by decide), h2g, Or.inl ⟨_, h1p, rfl⟩, h1p,
    hrest _ _ (by decide), hrest _ _ (by decide), hrest _ _ (by decide), hrest _ _ (by decide),
    hrest _ _ (by decide)⟩

/-- The bound `k + m` is sharp: `r00000` (index 3) is gone, plain and compressed, in the
    directory the pass returns — everything else is there: `r00003` plain, `r00002` and
    `r00001` compressed with their data, the current and the foreign file as they were. -/
example :
    exPass.1.get ⟨some (.num 0), false⟩ = none ∧ exPass.1.get ⟨some (.num 0), true⟩ = none ∧
    exPass.1.get ⟨some (.num 3), false⟩ = some ⟨[13], 3⟩ ∧
    exPass.1.get ⟨some (.num 2), true⟩ = some ⟨[12, 12, 12], 7⟩ ∧
    exPass.1.get ⟨some (.num 1), true⟩ = some ⟨[11, 11], 7⟩ ∧
    exPass.1.get ⟨some (.num 2), false⟩ = none ∧ exPass.1.get ⟨some (.num 1), false⟩ = none ∧
    exPass.1.get ⟨some .cur, false⟩ = some ⟨[9], 5⟩ ∧
    exPass.1.get ⟨none, false⟩ = some ⟨[99], 0⟩ := by decide

/-- `r00000` both plain and compressed: an infix occurs twice -/
def exDup : Dir :=
  [(⟨some (.num 0), false⟩, ⟨[10], 0⟩), (⟨some (.num 1), false⟩, ⟨[11], 1⟩),
   (⟨some (.num 2), false⟩, ⟨[12], 2⟩), (⟨some (.num 3), false⟩, ⟨[13], 3⟩),
   (⟨some (.num 4), false⟩, ⟨[14], 4⟩), (⟨some (.num 0), true⟩, ⟨[10], 0⟩)]

/-- The premise is needed: on `exDup` with `k + m = 5` the plain `r00000` (index 4 ≥ k) is
    compressed OVER the old twin, then that twin (index 5 ≥ k + m) is removed: `r00000`, within
    the keep limits, is gone. -/
example :
    ¬ FV.FlwL.IfxDistinct exDup ∧
    (listing exDup)[4]? = some (⟨some (.num 0), false⟩, ⟨[10], 0⟩) ∧
    (cleanupLoopT 7 true 1 4 none (listing exDup) 0 exDup []).1.get ⟨some (.num 0), false⟩ = none ∧
    (cleanupLoopT 7 true 1 4 none (listing exDup) 0 exDup []).1.get ⟨some (.num 0), true⟩ = none := by
  decide

end FV.C11Cleanup
