import FlexiVerif.Lemmas.Fmt
/-
  C20 — Every record is rendered exactly: the message and the record's fields appear verbatim in
  the text formats, the JSON format produces one line whose string members decode to exactly the
  record's values, every line is followed by exactly one line ending, and all outputs of one log
  call carry one and the same timestamp.

  Property theorems only; helper lemmas live in `Lemmas/Fmt.lean`.
-/
namespace FV.C20
open FV FV.Fmt

/-! ### 1. JSON string escaping round-trips -/

/-- Decoding the escaped text gives back the text, for every string (arbitrary Unicode). -/
theorem json_roundtrip (s : List Char) : jsonUnescape (jsonEscape s) = some s := by
  have := jsonUnescape_escape_append s []
  simpa [jsonUnescape] using this

/-- Escaping is injective: two texts with the same escaped form are equal. -/
theorem json_escape_injective (a b : List Char) (h : jsonEscape a = jsonEscape b) : a = b := by
  have ha := json_roundtrip a
  rw [h, json_roundtrip b] at ha
  exact (Option.some.inj ha).symm

/-! ### 2. the escaped text stays on one line and inside its quotes -/

/-- No raw control character (in particular no raw line break) in escaped text. -/
theorem json_escape_single_line (s : List Char) (c : Char) (h : c ∈ jsonEscape s) :
    32 ≤ c.toNat :=
  printable_escape s c h

/-- A reader that looks for the closing quote of `"<escaped s>"…` stops exactly behind the
    escaped text: `jsonEscape s` contains no unescaped quote, and does not end in a dangling
    backslash that would swallow the closing quote. -/
theorem json_escape_read (s rest : List Char) :
    readString (jsonEscape s ++ '"' :: rest) = some (jsonEscape s, rest) :=
  readString_escape s rest

theorem json_escape_no_bare_quote (s rest : List Char) :
    closingQuoteIndex (jsonEscape s ++ '"' :: rest) = some (jsonEscape s).length := by
  simp [closingQuoteIndex, readString_escape]

/-! ### 3. the members of the JSON line -/

/-- Layout: the object is `{` members joined by `,` `}` with the members of `LogLine` in
    declaration order, absent ones omitted; every string value is `"` escaped text `"`. -/
theorem json_layout (ts : List Char) (r : Rec) :
    jsonFormat ts r = '{' :: joinWith [','] (
      [jsonKey "level".toList ++ ('"' :: jsonEscape (levelName r.level) ++ ['"']),
       jsonKey "timestamp".toList ++ ('"' :: jsonEscape ts ++ ['"'])] ++
      (match r.thread with
       | none => [] | some s => [jsonKey "thread".toList ++ ('"' :: jsonEscape s ++ ['"'])]) ++
      (match r.modulePath with
       | none => [] | some s => [jsonKey "module_path".toList ++ ('"' :: jsonEscape s ++ ['"'])]) ++
      (match r.file with
       | none => [] | some s => [jsonKey "file".toList ++ ('"' :: jsonEscape s ++ ['"'])]) ++
      (match r.line with
       | none => [] | some n => [jsonKey "line".toList ++ natToText n]) ++
      (if r.kvs.isEmpty then [] else [jsonKey "kv".toList ++ jsonKvObject r.kvs]) ++
      [jsonKey "text".toList ++ ('"' :: jsonEscape r.msg ++ ['"'])]) ++ ['}'] := by
  cases r with
  | mk level modulePath file line msg thread kvs =>
    cases thread <;> cases modulePath <;> cases file <;> rfl

/-- the keys are the literal texts -/
theorem json_keys :
    jsonKey "level".toList = "\"level\":".toList ∧
    jsonKey "timestamp".toList = "\"timestamp\":".toList ∧
    jsonKey "thread".toList = "\"thread\":".toList ∧
    jsonKey "module_path".toList = "\"module_path\":".toList ∧
    jsonKey "file".toList = "\"file\":".toList ∧
    jsonKey "line".toList = "\"line\":".toList ∧
    jsonKey "kv".toList = "\"kv\":".toList ∧
    jsonKey "text".toList = "\"text\":".toList := by decide

/-- A reader that splits the object at its top-level commas (outside strings, outside the nested
    `kv` object) finds exactly the members — whatever the message, the timestamp text, the names
    and the key-value pairs contain. -/
theorem json_members (ts : List Char) (r : Rec) :
    splitTop (jsonFormat ts r) = some (jsonFields ts r) :=
  splitTop_jsonFormat ts r

/-- The string members found by key, still escaped. Absent optional members are not found. -/
theorem json_fields_escaped (ts : List Char) (r : Rec) :
    fieldString? "level".toList (jsonFormat ts r) = some (jsonEscape (levelName r.level)) ∧
    fieldString? "timestamp".toList (jsonFormat ts r) = some (jsonEscape ts) ∧
    fieldString? "thread".toList (jsonFormat ts r) = r.thread.map jsonEscape ∧
    fieldString? "module_path".toList (jsonFormat ts r) = r.modulePath.map jsonEscape ∧
    fieldString? "file".toList (jsonFormat ts r) = r.file.map jsonEscape ∧
    fieldString? "text".toList (jsonFormat ts r) = some (jsonEscape r.msg) := by
  simp only [fieldString?, splitTop_jsonFormat]
  refine ⟨?_, ?_, ?_, ?_, ?_, ?_⟩ <;>
    (rw [find_jsonFields _ (by decide) ts r (by decide) (by decide)]; simp)

/-- **Decoding.** Every string member of the line produced by `json_format`, located by its key
    and un-escaped, is exactly the record's value; an absent optional yields no member. -/
theorem json_fields_decode (ts : List Char) (r : Rec) :
    (fieldString? "level".toList (jsonFormat ts r)).bind jsonUnescape = some (levelName r.level) ∧
    (fieldString? "timestamp".toList (jsonFormat ts r)).bind jsonUnescape = some ts ∧
    (fieldString? "thread".toList (jsonFormat ts r)).bind jsonUnescape = r.thread ∧
    (fieldString? "module_path".toList (jsonFormat ts r)).bind jsonUnescape = r.modulePath ∧
    (fieldString? "file".toList (jsonFormat ts r)).bind jsonUnescape = r.file ∧
    (fieldString? "text".toList (jsonFormat ts r)).bind jsonUnescape = some r.msg := by
  obtain ⟨h1, h2, h3, h4, h5, h6⟩ := json_fields_escaped ts r
  rw [h1, h2, h3, h4, h5, h6]
  refine ⟨?_, ?_, ?_, ?_, ?_, ?_⟩
  · simp [json_roundtrip]
  · simp [json_roundtrip]
  · cases r.thread <;> simp [json_roundtrip]
  · cases r.modulePath <;> simp [json_roundtrip]
  · cases r.file <;> simp [json_roundtrip]
  · simp [json_roundtrip]

/-- The two members that are not strings: the line number in decimal, and the key-value map. -/
theorem json_fields_raw (ts : List Char) (r : Rec) :
    fieldRaw? "line".toList (jsonFormat ts r) = r.line.map natToText ∧
    fieldRaw? "kv".toList (jsonFormat ts r) =
      if r.kvs.isEmpty then none else some (jsonKvObject r.kvs) := by
  simp only [fieldRaw?, splitTop_jsonFormat]
  exact findRaw_jsonFields ts r

/-- The `kv` member is the `BTreeMap`: `{` `"key":value` joined by `,` `}` … -/
theorem json_kv_layout (kvs : List (List Char × KV)) :
    jsonKvObject kvs =
      '{' :: joinWith [','] ((kvMap kvs).map (fun p => jsonKey p.1 ++ jsonValue p.2)) ++ ['}'] :=
  rfl

/-- … with strictly ascending keys (code-point order = byte order of UTF-8) … -/
theorem json_kv_sorted (kvs : List (List Char × KV)) :
    (kvMap kvs).Pairwise (fun a b => ltText a.1 b.1 = true) :=
  sortedKeys_pairwise _ (kvMap_sorted kvs)

/-- … where every key carries the value of the LAST pair with this key in visiting order, and
    keys that were not visited do not occur. -/
theorem json_kv_last_wins (kvs : List (List Char × KV)) (k : List Char) :
    kvGet k (kvMap kvs) = kvGet k kvs.reverse :=
  kvMap_get k kvs

/-! ### 4. one line -/

/-- The JSON line contains no control character — hence no line break — whatever the message,
    the names, the key-value pairs and even the timestamp text contain (all are escaped). -/
theorem json_single_line_strong (ts : List Char) (r : Rec) :
    ∀ c ∈ jsonFormat ts r, 32 ≤ c.toNat := by
  have : Printable (jsonFormat ts r) := by
    unfold jsonFormat
    refine printable_cons.mpr ⟨by decide, printable_append.mpr ⟨?_, by decide⟩⟩
    exact printable_joinWith (by decide) (printable_jsonFields ts r)
  exact this

/-- the statement with the (unneeded) premise that the timestamp text is printable -/
theorem json_single_line (ts : List Char) (r : Rec) (_hts : ∀ c ∈ ts, 32 ≤ c.toNat) :
    ∀ c ∈ jsonFormat ts r, 32 ≤ c.toNat :=
  json_single_line_strong ts r

/-- the framed JSON line contains exactly one line feed: the one of the line ending -/
theorem json_line_one_lf (ts : List Char) (r : Rec) :
    (frame ['\n'] (jsonFormat ts r)).count '\n' = 1 := by
  have h : '\n' ∉ jsonFormat ts r := by
    intro hc
    have := json_single_line_strong ts r '\n' hc
    revert this; decide
  simp [frame, List.count_append, List.count_eq_zero.mpr h]

/-! ### 5. framing -/

theorem frame_exact (le : List Char) (f : Rec → List Char) (r : Rec) :
    frame le (f r) = f r ++ le := rfl

theorem frame_ends (le out : List Char) : (frame le out).drop out.length = le := by
  simp [frame]

theorem frame_starts (le out : List Char) : (frame le out).take out.length = out := by
  simp [frame]

theorem frame_length (le out : List Char) : (frame le out).length = out.length + le.length := by
  simp [frame]

/-- Recursive logging: the lines reach the writer in post-order (inner calls first), every
    record exactly once, each followed by exactly one line ending. -/
theorem emit_lines (fmt : Rec → List Char) (le : List Char) (t : RTree) :
    emit fmt le t = (postorder t).map (fun r => fmt r ++ le) :=
  emit_eq_map fmt le t

theorem emit_bytes (fmt : Rec → List Char) (le : List Char) (t : RTree) :
    emitBytes fmt le t = ((postorder t).map (fun r => fmt r ++ le)).flatten := by
  rw [emitBytes, emit_lines]

theorem emit_count (fmt : Rec → List Char) (le : List Char) (t : RTree) :
    (emit fmt le t).length = t.size := by
  rw [emit_lines, List.length_map, postorder_length]

/-- the outermost record's line is the last one -/
theorem emit_outer_last (fmt : Rec → List Char) (le : List Char) (r : Rec) (inner : List RTree) :
    (emit fmt le (.node r inner)).getLast? = some (fmt r ++ le) := by
  simp [emit, frame]

/-! ### 6. verbatim rendering -/

theorem default_layout (dbg : KV → List Char) (r : Rec) :
    defaultFormat dbg r =
      levelName r.level ++ " [".toList ++ r.modulePath.getD "<unnamed>".toList ++ "] ".toList ++
        kvPart dbg r ++ r.msg := rfl

theorem opt_layout (dbg : KV → List Char) (ts : List Char) (r : Rec) :
    optFormat dbg ts r =
      "[".toList ++ ts ++ "] ".toList ++ levelName r.level ++ " [".toList ++
        r.file.getD "<unnamed>".toList ++ ":".toList ++ natToText (r.line.getD 0) ++ "] ".toList ++
        kvPart dbg r ++ r.msg := by
  unfold optFormat fileOf lineOf unnamed
  simp only [String.reduceToList, List.cons_append, List.nil_append, List.append_assoc]

theorem detailed_layout (dbg : KV → List Char) (ts : List Char) (r : Rec) :
    detailedFormat dbg ts r =
      "[".toList ++ ts ++ "] ".toList ++ levelName r.level ++ " [".toList ++
        r.modulePath.getD "<unnamed>".toList ++ "] ".toList ++
        r.file.getD "<unnamed>".toList ++ ":".toList ++ natToText (r.line.getD 0) ++ ": ".toList ++
        kvPart dbg r ++ r.msg := by
  unfold detailedFormat fileOf lineOf moduleOf unnamed
  simp only [String.reduceToList, List.cons_append, List.nil_append, List.append_assoc]

theorem with_thread_layout (dbg : KV → List Char) (ts : List Char) (r : Rec) :
    withThread dbg ts r =
      "[".toList ++ ts ++ "] T[".toList ++ r.thread.getD "<unnamed>".toList ++ "] ".toList ++
        levelName r.level ++ " [".toList ++
        r.file.getD "<unnamed>".toList ++ ":".toList ++ natToText (r.line.getD 0) ++ "] ".toList ++
        kvPart dbg r ++ r.msg := by
  unfold withThread fileOf lineOf threadOf unnamed
  simp only [String.reduceToList, List.cons_append, List.nil_append, List.append_assoc]

theorem colored_default_layout (dbg : KV → List Char) (r : Rec) :
    coloredDefaultFormat dbg r =
      paint r.level (levelName r.level) ++ " [".toList ++ r.modulePath.getD "<unnamed>".toList ++
        "] ".toList ++ kvPart dbg r ++ paint r.level r.msg := rfl

theorem colored_opt_layout (dbg : KV → List Char) (ts : List Char) (r : Rec) :
    coloredOptFormat dbg ts r =
      "[".toList ++ paint r.level ts ++ "] ".toList ++ paint r.level (levelName r.level) ++
        " [".toList ++ r.file.getD "<unnamed>".toList ++ ":".toList ++
        natToText (r.line.getD 0) ++ "] ".toList ++ kvPart dbg r ++ paint r.level r.msg := by
  unfold coloredOptFormat fileOf lineOf unnamed
  simp only [String.reduceToList, List.cons_append, List.nil_append, List.append_assoc]

theorem colored_detailed_layout (dbg : KV → List Char) (ts : List Char) (r : Rec) :
    coloredDetailedFormat dbg ts r =
      "[".toList ++ paint r.level ts ++ "] ".toList ++ paint r.level (levelName r.level) ++
        " [".toList ++ r.modulePath.getD "<unnamed>".toList ++ "] ".toList ++
        r.file.getD "<unnamed>".toList ++ ":".toList ++ natToText (r.line.getD 0) ++ ": ".toList ++
        kvPart dbg r ++ paint r.level r.msg := by
  unfold coloredDetailedFormat fileOf lineOf moduleOf unnamed
  simp only [String.reduceToList, List.cons_append, List.nil_append, List.append_assoc]

theorem colored_with_thread_layout (dbg : KV → List Char) (ts : List Char) (r : Rec) :
    coloredWithThread dbg ts r =
      "[".toList ++ paint r.level ts ++ "] T[".toList ++
        paint r.level (r.thread.getD "<unnamed>".toList) ++ "] ".toList ++
        paint r.level (levelName r.level) ++ " [".toList ++
        r.file.getD "<unnamed>".toList ++ ":".toList ++ natToText (r.line.getD 0) ++ "] ".toList ++
        kvPart dbg r ++ paint r.level r.msg := by
  unfold coloredWithThread fileOf lineOf threadOf unnamed
  simp only [String.reduceToList, List.cons_append, List.nil_append, List.append_assoc]

/-- the message is the verbatim tail of every uncoloured line -/
theorem msg_verbatim (dbg : KV → List Char) (ts : List Char) (r : Rec) :
    (∃ pre, defaultFormat dbg r = pre ++ r.msg) ∧
    (∃ pre, optFormat dbg ts r = pre ++ r.msg) ∧
    (∃ pre, detailedFormat dbg ts r = pre ++ r.msg) ∧
    (∃ pre, withThread dbg ts r = pre ++ r.msg) :=
  ⟨⟨_, default_layout dbg r⟩, ⟨_, opt_layout dbg ts r⟩, ⟨_, detailed_layout dbg ts r⟩,
   ⟨_, with_thread_layout dbg ts r⟩⟩

/-- the painted message is the verbatim tail of every coloured line -/
theorem msg_verbatim_colored (dbg : KV → List Char) (ts : List Char) (r : Rec) :
    (∃ pre, coloredDefaultFormat dbg r = pre ++ paint r.level r.msg) ∧
    (∃ pre, coloredOptFormat dbg ts r = pre ++ paint r.level r.msg) ∧
    (∃ pre, coloredDetailedFormat dbg ts r = pre ++ paint r.level r.msg) ∧
    (∃ pre, coloredWithThread dbg ts r = pre ++ paint r.level r.msg) :=
  ⟨⟨_, colored_default_layout dbg r⟩, ⟨_, colored_opt_layout dbg ts r⟩,
   ⟨_, colored_detailed_layout dbg ts r⟩, ⟨_, colored_with_thread_layout dbg ts r⟩⟩

/-- painting wraps the text, unchanged, between a prefix and a suffix that depend on the level
    only -/
theorem paint_verbatim (l : Nat) : ∃ a b, ∀ x, paint l x = a ++ x ++ b :=
  ⟨paintPrefix l, paintSuffix l, fun _ => rfl⟩

/-- info is plain in the default palette -/
theorem paint_info (x : List Char) : paint 3 x = x := by
  simp [paint, paintPrefix, paintSuffix, paletteColor]

/-- the escape sequences of the default palette -/
theorem paint_palette (x : List Char) :
    paint 1 x = "\x1b[38;5;196m".toList ++ x ++ "\x1b[0m".toList ∧
    paint 2 x = "\x1b[38;5;208m".toList ++ x ++ "\x1b[0m".toList ∧
    paint 4 x = "\x1b[38;5;27m".toList ++ x ++ "\x1b[0m".toList ∧
    paint 5 x = "\x1b[38;5;8m".toList ++ x ++ "\x1b[0m".toList := by
  refine ⟨?_, ?_, ?_, ?_⟩ <;> rfl

/-- the key-value part: nothing without pairs, else `{k=v, …} ` in visiting order -/
theorem kvPart_layout (dbg : KV → List Char) (r : Rec) :
    kvPart dbg r =
      if r.kvs = [] then []
      else "{".toList ++ joinWith ", ".toList (r.kvs.map (fun p => p.1 ++ "=".toList ++ dbg p.2)) ++
        "} ".toList := by
  unfold kvPart
  cases h : r.kvs with
  | nil => simp
  | cons p ps =>
    have e : kvPair dbg = fun p => p.1 ++ "=".toList ++ dbg p.2 := by
      funext p; simp [kvPair]
    simp [e]

/-! ### 7. one timestamp per log call -/

theorem now_idempotent {T : Type} (c1 c2 : T) (d : Option T) :
    (now c2 (now c1 d).2).1 = (now c1 d).1 := by
  cases d <;> rfl

/-- once set, the timestamp never changes -/
theorem now_stable {T : Type} (c1 c2 : T) (d : Option T) :
    (now c2 (now c1 d).2).2 = (now c1 d).2 := by
  cases d <;> rfl

/-- **One timestamp.** Whatever the clock would read when the individual outputs are formatted,
    every output of one log call carries the reading taken by the FIRST output that asks for
    the time. -/
theorem one_timestamp {T : Type} (render : T → List Char) (r : Rec) (outs : List (Output × T))
    (t0 : T) (h : firstReading outs = some t0) :
    renderOutputs render r outs =
      outs.map (fun p => frame p.1.le (p.1.fmt.run (render t0) r)) := by
  rw [renderOutputs, renderOutputsFrom_none, h]

/-- index form of `one_timestamp` -/
theorem one_timestamp_at {T : Type} (render : T → List Char) (r : Rec) (outs : List (Output × T))
    (t0 : T) (h : firstReading outs = some t0) (k : Nat) (hk : k < outs.length) :
    (renderOutputs render r outs)[k]? =
      some (frame outs[k].1.le (outs[k].1.fmt.run (render t0) r)) := by
  rw [one_timestamp render r outs t0 h, List.getElem?_map, List.getElem?_eq_getElem hk]
  rfl

/-- special case: the first output uses the time — its reading is the one all outputs carry -/
theorem one_timestamp_first {T : Type} (render : T → List Char) (r : Rec) (o : Output) (c : T)
    (g : List Char → Rec → List Char) (ho : o.fmt = .withTs g) (rest : List (Output × T)) :
    renderOutputs render r ((o, c) :: rest) =
      ((o, c) :: rest).map (fun p => frame p.1.le (p.1.fmt.run (render c) r)) := by
  apply one_timestamp
  simp [firstReading, ho]

/-- if no output asks for the time, none is rendered -/
theorem no_timestamp {T : Type} (render : T → List Char) (r : Rec) (outs : List (Output × T))
    (h : firstReading outs = none) (ts : List Char) :
    renderOutputs render r outs = outs.map (fun p => frame p.1.le (p.1.fmt.run ts r)) := by
  rw [renderOutputs, renderOutputsFrom_none, h]
  exact run_irrelevant r outs h [] ts

theorem renderOutputs_length {T : Type} (render : T → List Char) (r : Rec)
    (outs : List (Output × T)) : (renderOutputs render r outs).length = outs.length := by
  rw [renderOutputs, renderOutputsFrom_none]
  cases firstReading outs <;> simp

/-! ### non-vacuity: a concrete record -/

/-- multi-line message with quotes, a backslash, U+0001 and non-ASCII characters; a duplicate
    key among the key-value pairs -/
def exRec : Rec :=
  { level := 1, modulePath := some "a::b".toList, file := some "src/m.rs".toList, line := some 12,
    msg := "l1\nsay \"hi\" \\ \x01 é€".toList, thread := none,
    kvs := [("b".toList, .str "x\"\ny".toList), ("a".toList, .num 3), ("b".toList, .num 7)] }

def exDbg : KV → List Char
  | .str s => '"' :: s ++ ['"']
  | .num n => natToText n

example : jsonFormat "TS".toList exRec =
    "{\"level\":\"ERROR\",\"timestamp\":\"TS\",\"module_path\":\"a::b\",\"file\":\"src/m.rs\",\"line\":12,\"kv\":{\"a\":3,\"b\":7},\"text\":\"l1\\nsay \\\"hi\\\" \\\\ \\u0001 é€\"}".toList := by
  decide +kernel

example : jsonUnescape (jsonEscape exRec.msg) = some exRec.msg := by decide +kernel

example : jsonEscape "a\"b\\c\n\x01\x1f\x7fé".toList = "a\\\"b\\\\c\\n\\u0001\\u001f\x7fé".toList := by
  decide +kernel

-- the decoder accepts what other JSON writers may produce, and rejects malformed content
example : jsonUnescape "\\u00E9\\/\\u001F".toList = some "é/\x1f".toList := by decide +kernel
example : jsonUnescape "a\"b".toList = none := by decide +kernel
example : jsonUnescape "a\nb".toList = none := by decide +kernel
example : jsonUnescape "a\\".toList = none := by decide +kernel
example : jsonUnescape "\\x".toList = none := by decide +kernel
example : jsonUnescape "\\u12".toList = none := by decide +kernel
example : jsonUnescape "\\ud800".toList = none := by decide +kernel

example : (fieldString? "text".toList (jsonFormat "TS".toList exRec)).bind jsonUnescape
    = some exRec.msg := by decide +kernel
example : fieldString? "thread".toList (jsonFormat "TS".toList exRec) = none := by decide +kernel
example : fieldRaw? "kv".toList (jsonFormat "TS".toList exRec) = some "{\"a\":3,\"b\":7}".toList := by
  decide +kernel

example : defaultFormat exDbg exRec =
    "ERROR [a::b] {b=\"x\"\ny\", a=3, b=7} l1\nsay \"hi\" \\ \x01 é€".toList := by decide +kernel
example : optFormat exDbg "TS".toList exRec =
    "[TS] ERROR [src/m.rs:12] {b=\"x\"\ny\", a=3, b=7} l1\nsay \"hi\" \\ \x01 é€".toList := by decide +kernel
example : detailedFormat exDbg "TS".toList { exRec with kvs := [] } =
    "[TS] ERROR [a::b] src/m.rs:12: l1\nsay \"hi\" \\ \x01 é€".toList := by decide +kernel
example : withThread exDbg "TS".toList { exRec with kvs := [], file := none, line := none } =
    "[TS] T[<unnamed>] ERROR [<unnamed>:0] l1\nsay \"hi\" \\ \x01 é€".toList := by decide +kernel
example : coloredWithThread exDbg "TS".toList
    { exRec with kvs := [], msg := "m".toList, thread := some "w1".toList, level := 2 } =
    "[\x1b[38;5;208mTS\x1b[0m] T[\x1b[38;5;208mw1\x1b[0m] \x1b[38;5;208mWARN\x1b[0m [src/m.rs:12] \x1b[38;5;208mm\x1b[0m".toList := by
  decide +kernel
example : coloredDefaultFormat exDbg { exRec with kvs := [], msg := "m".toList, level := 3 } =
    "INFO [a::b] m".toList := by decide +kernel

-- framing and the recursive path
example : frame "\r\n".toList (defaultFormat exDbg { exRec with kvs := [], msg := "m".toList }) =
    "ERROR [a::b] m\r\n".toList := by decide +kernel

def exTree : RTree :=
  .node { exRec with msg := "outer".toList, kvs := [] }
    [.node { exRec with msg := "in1".toList, kvs := [] }
       [.node { exRec with msg := "in1a".toList, kvs := [] } []],
     .node { exRec with msg := "in2".toList, kvs := [] } []]

example : emitBytes (fun r => r.msg) "\n".toList exTree = "in1a\nin1\nin2\nouter\n".toList := by
  decide +kernel
example : exTree.size = 4 := by decide +kernel

-- one timestamp: three outputs, three different clock readings, the first reading everywhere
example : renderOutputs natToText { exRec with kvs := [], msg := "m".toList }
    [(⟨.noTs (defaultFormat exDbg), "\n".toList⟩, 100),
     (⟨.withTs (optFormat exDbg), "\n".toList⟩, 101),
     (⟨.withTs jsonFormat, "\r\n".toList⟩, 102),
     (⟨.withTs (detailedFormat exDbg), "\n".toList⟩, 103)] =
    ["ERROR [a::b] m\n".toList,
     "[101] ERROR [src/m.rs:12] m\n".toList,
     "{\"level\":\"ERROR\",\"timestamp\":\"101\",\"module_path\":\"a::b\",\"file\":\"src/m.rs\",\"line\":12,\"text\":\"m\"}\r\n".toList,
     "[101] ERROR [a::b] src/m.rs:12: m\n".toList] := by
  decide +kernel


end FV.C20
