import FlexiVerif.Lemmas.FlwRules
import FlexiVerif.Lemmas.FlwRefine
/-
  C09 — Age criterion: the writer rotates exactly at the first write in a later period.

  `a := Abs.run cfg.rot Abs.init ops` is the abstract machine after the history,
  `s := runOps (init cfg []) ops` the concrete writer. Statements about `Abs` and about the
  independent specification `byPeriod` are proved outright; statements about the concrete
  writer take the refinement `Refines cfg ops` as a hypothesis.
-/
namespace FV.C09
open FV FV.Flw

/-- pure age criterion `Criterion::Age ag` -/
def AgeOnly (cfg : Cfg) (ag : Age) : Prop :=
  ∃ r, cfg.rot = some r ∧ r.maxSize = none ∧ r.age = some ag

/-! ### 1. the rule of a single step -/

/-- **Age rule.** With a pure age criterion a write closes the current file iff the clock reading
    lies in another period than the creation of the current file; then the record starts the new
    file, which is created "now". Otherwise nothing is closed, the record is appended and the
    creation stamp stays. -/
theorem age_rule (r : RotCfg) (ag : Age) (hr : r.maxSize = none ∧ r.age = some ag) (a : Abs)
    (hst : a.started = true) (b : List Nat) (now : Nat) :
    ((a.step (some r) (.write b) now).closed = a.closed ++ [a.cur] ↔
      ag.trunc a.created ≠ ag.trunc now) ∧
    (ag.trunc a.created ≠ ag.trunc now →
      (a.step (some r) (.write b) now).closed = a.closed ++ [a.cur] ∧
      (a.step (some r) (.write b) now).cur = b ∧
      (a.step (some r) (.write b) now).created = now) ∧
    (ag.trunc a.created = ag.trunc now →
      (a.step (some r) (.write b) now).closed = a.closed ∧
      (a.step (some r) (.write b) now).cur = a.cur ++ b ∧
      (a.step (some r) (.write b) now).created = a.created) := by
  rw [Abs.step_write_some, absNecessary_age r ag hr, Abs.start_of_started a now hst]
  by_cases hp : ag.trunc a.created = ag.trunc now
  · rw [if_neg (by simpa using hp)]
    refine ⟨⟨fun h => ?_, fun h => absurd hp h⟩, fun h => absurd hp h, fun _ => ⟨rfl, rfl, rfl⟩⟩
    have := congrArg List.length h
    simp at this
  · rw [if_pos (by simpa using hp)]
    exact ⟨⟨fun _ => hp, fun _ => rfl⟩, fun _ => ⟨rfl, rfl, rfl⟩, fun h => absurd h hp⟩

/-- **Age-or-size rule.** With `Criterion::AgeOrSize` a write closes the current file iff the
    accounted size exceeds the limit or the clock reading lies in another period. -/
theorem age_or_size_rule (r : RotCfg) (N : Nat) (ag : Age)
    (hr : r.maxSize = some N ∧ r.age = some ag) (a : Abs)
    (hst : a.started = true) (b : List Nat) (now : Nat) :
    ((a.step (some r) (.write b) now).closed = a.closed ++ [a.cur] ↔
      (a.size > N ∨ ag.trunc a.created ≠ ag.trunc now)) ∧
    ((a.size > N ∨ ag.trunc a.created ≠ ag.trunc now) →
      (a.step (some r) (.write b) now).closed = a.closed ++ [a.cur] ∧
      (a.step (some r) (.write b) now).cur = b ∧
      (a.step (some r) (.write b) now).created = now) ∧
    (¬ (a.size > N ∨ ag.trunc a.created ≠ ag.trunc now) →
      (a.step (some r) (.write b) now).closed = a.closed ∧
      (a.step (some r) (.write b) now).cur = a.cur ++ b ∧
      (a.step (some r) (.write b) now).created = a.created) := by
  rw [Abs.step_write_some, absNecessary_age_or_size r N ag hr, Abs.start_of_started a now hst]
  by_cases hp : (a.size > N ∨ ag.trunc a.created ≠ ag.trunc now)
  · rw [if_pos (decide_eq_true hp)]
    exact ⟨⟨fun _ => hp, fun _ => rfl⟩, fun _ => ⟨rfl, rfl, rfl⟩, fun h => absurd hp h⟩
  · rw [if_neg (by simpa using hp)]
    refine ⟨⟨fun h => ?_, fun h => absurd h hp⟩, fun h => absurd h hp, fun _ => ⟨rfl, rfl, rfl⟩⟩
    have := congrArg List.length h
    simp at this

/-! ### 2. `Age.trunc` is the comparison of the civil fields -/

/-- the civil fields (year, month, day, hour, minute, second) of a packed stamp `YYYYMMDDhhmmss` -/
def civil (k : Nat) : Nat × Nat × Nat × Nat × Nat × Nat :=
  (k / 10000000000, k / 100000000 % 100, k / 1000000 % 100, k / 10000 % 100, k / 100 % 100,
   k % 100)

def year (k : Nat) : Nat := (civil k).1
def month (k : Nat) : Nat := (civil k).2.1
def day (k : Nat) : Nat := (civil k).2.2.1
def hour (k : Nat) : Nat := (civil k).2.2.2.1
def minute (k : Nat) : Nat := (civil k).2.2.2.2.1
def second (k : Nat) : Nat := (civil k).2.2.2.2.2

example : civil 20240131100559 = (2024, 1, 31, 10, 5, 59) := by decide

theorem trunc_day_iff_fields (c n : Nat) :
    Age.day.trunc c ≠ Age.day.trunc n ↔ year c ≠ year n ∨ month c ≠ month n ∨ day c ≠ day n := by
  simp only [Age.trunc, year, month, day, civil]; omega

theorem trunc_hour_iff_fields (c n : Nat) :
    Age.hour.trunc c ≠ Age.hour.trunc n ↔
      year c ≠ year n ∨ month c ≠ month n ∨ day c ≠ day n ∨ hour c ≠ hour n := by
  simp only [Age.trunc, year, month, day, hour, civil]; omega

theorem trunc_minute_iff_fields (c n : Nat) :
    Age.minute.trunc c ≠ Age.minute.trunc n ↔
      year c ≠ year n ∨ month c ≠ month n ∨ day c ≠ day n ∨ hour c ≠ hour n ∨
      minute c ≠ minute n := by
  simp only [Age.trunc, year, month, day, hour, minute, civil]; omega

theorem trunc_second_iff_fields (c n : Nat) :
    Age.second.trunc c ≠ Age.second.trunc n ↔
      year c ≠ year n ∨ month c ≠ month n ∨ day c ≠ day n ∨ hour c ≠ hour n ∨
      minute c ≠ minute n ∨ second c ≠ second n := by
  simp only [Age.trunc, year, month, day, hour, minute, second, civil]; omega

/-- the civil fields the code compares for an age (`Age::Day`: year, month, day; …) -/
def fieldsUpTo : Age → Nat → List Nat
  | .day, k => [year k, month k, day k]
  | .hour, k => [year k, month k, day k, hour k]
  | .minute, k => [year k, month k, day k, hour k, minute k]
  | .second, k => [year k, month k, day k, hour k, minute k, second k]

/-- **`Age.trunc` is the field comparison of the code**, for every age. -/
theorem trunc_iff_fields (ag : Age) (c n : Nat) :
    ag.trunc c ≠ ag.trunc n ↔ fieldsUpTo ag c ≠ fieldsUpTo ag n := by
  cases ag
  · rw [trunc_day_iff_fields]; simp only [fieldsUpTo, ne_eq, List.cons.injEq, and_true]; omega
  · rw [trunc_hour_iff_fields]; simp only [fieldsUpTo, ne_eq, List.cons.injEq, and_true]; omega
  · rw [trunc_minute_iff_fields]; simp only [fieldsUpTo, ne_eq, List.cons.injEq, and_true]; omega
  · rw [trunc_second_iff_fields]; simp only [fieldsUpTo, ne_eq, List.cons.injEq, and_true]; omega

/-! ### 3. monotone clock: "different period" is "later period" -/

theorem trunc_mono (ag : Age) (c n : Nat) (h : c ≤ n) : ag.trunc c ≤ ag.trunc n := by
  cases ag <;> simp only [Age.trunc] <;> omega

theorem later_period (ag : Age) (c n : Nat) (h : c ≤ n) :
    ag.trunc c ≠ ag.trunc n ↔ ag.trunc c < ag.trunc n := by
  have := trunc_mono ag c n h
  omega

/-! ### 4. histories: the partition by periods as an independent specification

  `srecords ops` are the records with the clock reading of their write; `bytes g` the content of
  a file holding the group `g` of stamped records. -/

/-- partition by periods: a record starts a new file iff its stamp lies in another period than
    the first record of the current file -/
def byPeriod (ag : Age) :
    List (List Nat × Nat) → List (List (List Nat × Nat)) × List (List Nat × Nat) :=
  List.foldl (fun (acc : List (List (List Nat × Nat)) × List (List Nat × Nat)) x =>
    match acc.2.head? with
    | none => (acc.1, [x])
    | some h =>
      if ag.trunc h.2 ≠ ag.trunc x.2 then (acc.1 ++ [acc.2], [x]) else (acc.1, acc.2 ++ [x]))
    ([], [])

theorem byPeriod_eq (ag : Age) (recs : List (List Nat × Nat)) :
    byPeriod ag recs = List.foldl (periodStep ag) ([], []) recs := rfl

/-- the groups of stamped records behind the files of a history: closed files then the current -/
def periodGroups (ag : Age) (ops : List (Op × Nat × Faults)) : List (List (List Nat × Nat)) :=
  if srecords ops = [] then []
  else (byPeriod ag (srecords ops)).1 ++ [(byPeriod ag (srecords ops)).2]

theorem srecords_eq_nil_iff (ops : List (Op × Nat × Faults)) :
    srecords ops = [] ↔ records ops = [] := by
  rw [← srecords_bytes]; simp

/-- the groups are contiguous, complete, in order -/
theorem periodGroups_flatten (ag : Age) (ops : List (Op × Nat × Faults)) :
    (periodGroups ag ops).flatten = srecords ops := by
  unfold periodGroups
  split
  · rename_i h; simp [h]
  · rw [byPeriod_eq]
    simpa using period_foldl_flatten ag (srecords ops) ([], [])

/-- every group holds at least one record -/
theorem periodGroups_nonempty (ag : Age) (ops : List (Op × Nat × Faults)) :
    ∀ g ∈ periodGroups ag ops, g ≠ [] := by
  unfold periodGroups
  split
  · simp
  · rename_i hne
    intro g hg
    rcases List.mem_append.mp hg with hg | hg
    · exact (PeriodOK.foldl ag (srecords ops) _ (PeriodOK.init ag)).2.1 g hg
    · have : g = (byPeriod ag (srecords ops)).2 := by simpa using hg
      rw [this]
      exact period_foldl_cur_ne ag (srecords ops) ([], []) (Or.inl hne)

/-- **Age partition.** For a history of writes (and flushes) under a pure age criterion the
    abstract files are exactly the partition of the records by periods. -/
theorem age_partition (cfg : Cfg) (ag : Age) (hs : AgeOnly cfg ag)
    (ops : List (Op × Nat × Faults)) (hw : WritesOnly ops) :
    (Abs.run cfg.rot Abs.init ops).files = (periodGroups ag ops).map bytes := by
  obtain ⟨r, hrot, hr⟩ := hs
  unfold periodGroups
  split
  · rename_i h
    have hrec := (srecords_eq_nil_iff ops).mp h
    cases hst : (Abs.run cfg.rot Abs.init ops).started with
    | false => simp [Abs.files, hst]
    | true =>
      exfalso
      -- a started machine has seen a write
      have h2 := (AgeInv.run r ag hr ops hw Abs.init ([], [])
        ⟨rfl, rfl, by simp [Abs.init], fun _ => rfl⟩).2.2.1
      rw [hrot] at hst
      obtain ⟨hd, hhd, _⟩ := h2 hst
      rw [h] at hhd
      simp at hhd
  · rename_i hne
    have hrec : records ops ≠ [] := fun h => hne ((srecords_eq_nil_iff ops).mpr h)
    rw [Abs.files_of_records_ne cfg.rot ops hrec, hrot, byPeriod_eq]
    obtain ⟨h1, h2, _⟩ := AgeInv.run r ag hr ops hw Abs.init ([], [])
      ⟨rfl, rfl, by simp [Abs.init], fun _ => rfl⟩
    rw [h1, h2]; simp

/-- **One period per file.** Within each file all records were written in the same period. -/
theorem one_period_per_file (ag : Age) (ops : List (Op × Nat × Faults)) :
    ∀ g ∈ periodGroups ag ops, ∀ x ∈ g, ∀ y ∈ g, ag.trunc x.2 = ag.trunc y.2 := by
  intro g hg x hx y hy
  have hne := periodGroups_nonempty ag ops g hg
  unfold periodGroups at hg
  split at hg
  · simp at hg
  · have hok := (PeriodOK.foldl ag (srecords ops) _ (PeriodOK.init ag)).2.2.1 g hg
    cases hgl : g with
    | nil => exact absurd hgl hne
    | cons hd tl =>
      have hh : g.head? = some hd := by rw [hgl]; rfl
      rw [hok hd hh x hx, hok hd hh y hy]

/-- **No rotation within a period.** The last record of a file and the first record of the next
    file were written in different periods. -/
theorem no_rotation_within_period (ag : Age) (ops : List (Op × Nat × Faults)) :
    ∀ i (hi : i + 1 < (periodGroups ag ops).length) x y,
      ((periodGroups ag ops)[i]'(by omega)).getLast? = some x →
      ((periodGroups ag ops)[i + 1]).head? = some y →
      ag.trunc x.2 ≠ ag.trunc y.2 := by
  have hl : Linked (PeriodBreak ag) (periodGroups ag ops) := by
    unfold periodGroups
    split
    · simp [Linked]
    · exact (PeriodOK.foldl ag (srecords ops) _ (PeriodOK.init ag)).2.2.2
  intro i hi x y hx hy
  exact linked_getElem _ _ hl i hi x y hx hy

/-- … and under a monotone clock the next file begins in a *later* period. -/
theorem rotation_into_later_period (ag : Age) (ops : List (Op × Nat × Faults))
    (hm : Monotone ops) :
    ∀ i (hi : i + 1 < (periodGroups ag ops).length) x y,
      ((periodGroups ag ops)[i]'(by omega)).getLast? = some x →
      ((periodGroups ag ops)[i + 1]).head? = some y →
      ag.trunc x.2 < ag.trunc y.2 := by
  intro i hi x y hx hy
  have hne := no_rotation_within_period ag ops i hi x y hx hy
  have hle := groups_sorted (periodGroups ag ops) ops hm (periodGroups_flatten ag ops)
    i (i + 1) (by omega) hi (by omega) x (List.mem_of_getLast? hx) y (List.mem_of_head? hy)
  exact (later_period ag x.2 y.2 hle).mp hne

/-- **A file is created at its first record.** The creation stamp of the current file is the
    clock reading of the first write into it. -/
theorem file_started_at_first_record (cfg : Cfg) (ag : Age) (hs : AgeOnly cfg ag)
    (ops : List (Op × Nat × Faults)) (hw : WritesOnly ops) (hne : records ops ≠ []) :
    ∃ g x, (periodGroups ag ops).getLast? = some g ∧ g.head? = some x ∧
      (Abs.run cfg.rot Abs.init ops).created = x.2 := by
  obtain ⟨r, hrot, hr⟩ := hs
  have hsne : srecords ops ≠ [] := fun h => hne ((srecords_eq_nil_iff ops).mp h)
  have hst : (Abs.run cfg.rot Abs.init ops).started = true := by
    cases h : (Abs.run cfg.rot Abs.init ops).started with
    | true => rfl
    | false => exact absurd (Abs.run_not_started cfg.rot Abs.init ops h rfl) hne
  obtain ⟨_, _, h3, _⟩ := AgeInv.run r ag hr ops hw Abs.init ([], [])
    ⟨rfl, rfl, by simp [Abs.init], fun _ => rfl⟩
  rw [hrot] at hst ⊢
  obtain ⟨hd, hhd, hcr⟩ := h3 hst
  refine ⟨(byPeriod ag (srecords ops)).2, hd, ?_, hhd, hcr⟩
  unfold periodGroups
  rw [if_neg hsne]
  simp

/-- **C09 at history level, abstract machine**: there are groups of stamped records —
    contiguous, in order, flattening to the records of the history — whose contents are exactly
    the files, each written within one period, consecutive ones separated by a change of period,
    the current file created at its first record. -/
theorem age_history (cfg : Cfg) (ag : Age) (hs : AgeOnly cfg ag)
    (ops : List (Op × Nat × Faults)) (hw : WritesOnly ops) :
    ∃ gs : List (List (List Nat × Nat)),
      gs.flatten = srecords ops ∧
      (Abs.run cfg.rot Abs.init ops).files = gs.map bytes ∧
      (∀ g ∈ gs, g ≠ []) ∧
      (∀ g ∈ gs, ∀ x ∈ g, ∀ y ∈ g, ag.trunc x.2 = ag.trunc y.2) ∧
      (∀ i (hi : i + 1 < gs.length) x y, (gs[i]'(by omega)).getLast? = some x →
        gs[i + 1].head? = some y → ag.trunc x.2 ≠ ag.trunc y.2) ∧
      (Monotone ops → ∀ i (hi : i + 1 < gs.length) x y, (gs[i]'(by omega)).getLast? = some x →
        gs[i + 1].head? = some y → ag.trunc x.2 < ag.trunc y.2) ∧
      (records ops ≠ [] → ∃ g x, gs.getLast? = some g ∧ g.head? = some x ∧
        (Abs.run cfg.rot Abs.init ops).created = x.2) :=
  ⟨periodGroups ag ops, periodGroups_flatten ag ops, age_partition cfg ag hs ops hw,
    periodGroups_nonempty ag ops, one_period_per_file ag ops, no_rotation_within_period ag ops,
    rotation_into_later_period ag ops, file_started_at_first_record cfg ag hs ops hw⟩

/-- **C09 at history level, concrete writer** (every naming scheme and write mode): the same,
    for the files on disk and the `created_at` of the writer. -/
theorem age_history_concrete (cfg : Cfg) (ag : Age) (hs : AgeOnly cfg ag)
    (ops : List (Op × Nat × Faults)) (hw : WritesOnly ops) (href : Refines cfg ops) :
    ∃ gs : List (List (List Nat × Nat)),
      gs.flatten = srecords ops ∧
      viewFiles (runOps (init cfg []) ops) = gs.map bytes ∧
      (∀ g ∈ gs, g ≠ []) ∧
      (∀ g ∈ gs, ∀ x ∈ g, ∀ y ∈ g, ag.trunc x.2 = ag.trunc y.2) ∧
      (∀ i (hi : i + 1 < gs.length) x y, (gs[i]'(by omega)).getLast? = some x →
        gs[i + 1].head? = some y → ag.trunc x.2 ≠ ag.trunc y.2) ∧
      (Monotone ops → ∀ i (hi : i + 1 < gs.length) x y, (gs[i]'(by omega)).getLast? = some x →
        gs[i + 1].head? = some y → ag.trunc x.2 < ag.trunc y.2) ∧
      (∀ act, (runOps (init cfg []) ops).act = some act → records ops ≠ [] →
        ∃ g x, gs.getLast? = some g ∧ g.head? = some x ∧ act.created = x.2) := by
  refine ⟨periodGroups ag ops, periodGroups_flatten ag ops, ?_,
    periodGroups_nonempty ag ops, one_period_per_file ag ops, no_rotation_within_period ag ops,
    rotation_into_later_period ag ops, ?_⟩
  · rw [href.1]; exact age_partition cfg ag hs ops hw
  · intro act hact hne
    obtain ⟨g, x, h1, h2, h3⟩ := file_started_at_first_record cfg ag hs ops hw hne
    have hsome : cfg.rot.isSome := by obtain ⟨r, hr, _⟩ := hs; simp [hr]
    exact ⟨g, x, h1, h2, by rw [((href.2.1 act hact).2 hsome).2]; exact h3⟩

/-! ### non-vacuity -/

def exCfg : Cfg := { rot := some ⟨none, some .minute, .timestamps, none⟩, append := false,
                     cap := some 4, symlink := false }
/-- two writes in minute 10:00, one in 10:01, a flush, one in 10:03 -/
def exOps : List (Op × Nat × Faults) :=
  [(.write [1, 2], 20240131100005, noFaults), (.write [3], 20240131100059, noFaults),
   (.write [4, 5], 20240131100100, noFaults), (.flush, 20240131100101, noFaults),
   (.write [6], 20240131100330, noFaults)]

example : AgeOnly exCfg .minute := ⟨_, rfl, rfl, rfl⟩
example : WritesOnly exOps := WritesOnly.of_check _ (by decide)
example : PlainHistory exOps := PlainHistory.of_check _ (by decide) (by decide)
example : Refines exCfg exOps := Refines.of_check _ _ (by decide)
example : periodGroups .minute exOps =
    [[([1, 2], 20240131100005), ([3], 20240131100059)], [([4, 5], 20240131100100)],
     [([6], 20240131100330)]] := by decide
example : viewFiles (runOps (init exCfg []) exOps) = [[1, 2, 3], [4, 5], [6]] := by decide
/-- `age_rule` is not vacuous: a started state, a clock reading in a later minute -/
example : (Abs.run exCfg.rot Abs.init (exOps.take 2)).started = true ∧
    Age.minute.trunc (Abs.run exCfg.rot Abs.init (exOps.take 2)).created ≠
      Age.minute.trunc 20240131100100 := by decide


/-! ### The property, unconditionally (refinement proved for every naming scheme: `refines_all`) -/

/-- **C09.** With an age criterion, for every naming scheme and buffer capacity: the files on
    disk are the records grouped by period — every file holds records of ONE period, consecutive
    files belong to different (under a monotone clock: strictly later) periods, i.e. there is no
    rotation inside a period, and the writer's `created_at` is the instant of the first record
    of the current file. -/
theorem age_rule_history (cfg : Cfg) (ag : Age) (hs : AgeOnly cfg ag) (ha : cfg.append = false)
    (hn : NoCleanup cfg) (ops : List (Op × Nat × Faults)) (hw : WritesOnly ops)
    (hp : PlainHistory ops) :
    ∃ gs : List (List (List Nat × Nat)),
      gs.flatten = srecords ops ∧
      viewFiles (runOps (init cfg []) ops) = gs.map bytes ∧
      (∀ g ∈ gs, g ≠ []) ∧
      (∀ g ∈ gs, ∀ x ∈ g, ∀ y ∈ g, ag.trunc x.2 = ag.trunc y.2) ∧
      (∀ i (hi : i + 1 < gs.length) x y, (gs[i]'(by omega)).getLast? = some x →
        gs[i + 1].head? = some y → ag.trunc x.2 < ag.trunc y.2) ∧
      (∀ act, (runOps (init cfg []) ops).act = some act → records ops ≠ [] →
        ∃ g x, gs.getLast? = some g ∧ g.head? = some x ∧ act.created = x.2) := by
  obtain ⟨gs, h1, h2, h3, h4, _, h6, h7⟩ :=
    age_history_concrete cfg ag hs ops hw (refines_all cfg ha hn ops hp)
  exact ⟨gs, h1, h2, h3, h4, h6 hp.2, h7⟩

end FV.C09
