import FlexiVerif.Lemmas.FlwRestartAcct
import FlexiVerif.Props.C09
/-
  C09 across restarts — the start time of the current file and the age rule for MULTI-RUN
  histories.

  `C09` proves the age rule for single runs (no `append`). Here a history may contain
  `.restart c` operations (a new logger on the same directory; `append`, buffer capacity, symlink
  chosen per run, same rotation configuration `r`). Histories: `FV.Acct.Hist r ops` (see
  `C08Restart`; implied by `FV.FlwA.MultiRun` for the rCURRENT namings and by `FV.FlwB.MultiRun`
  for the direct namings, no `AppendGuard`). Throughout: a rotation configuration, no cleanup,
  no faults; no external removal/rename of the current file (not part of these histories), so
  the file the writer's descriptor refers to always exists.

  * `created_is_birth_time`        `created_at` = the birth time recorded for the file written to
  * `age_rule_multi_run`           the rule of a write step (decision and effect)
  * `appending_restart_age`        a run that appends rotates at its first write iff the file it
                                   continues was born in another (monotone clock: earlier) period
  * `nonappending_restart_created` a run that does not append starts a file born at the time of
                                   its first write, and does not rotate at that write
-/
namespace FV.C09Restart
open FV FV.Flw FV.Acct

/-! ### 1. `created_at` is the recorded birth time of the current file -/

/-- **Start time = recorded creation time of the file.** After every multi-run history (all four
    namings, any criterion, `append` on or off per run, any buffer capacity), whenever the writer
    is mounted: the file its descriptor refers to exists in the directory (buffered or not — in
    these histories nobody removes it), and the writer's `created_at` is the `created` field of
    that file. -/
theorem created_is_birth_time (cfg : Cfg) (r : RotCfg) (hrot : cfg.rot = some r)
    (hcl : r.cleanup = none) (ops : List (Op × Nat × Faults)) (hh : Hist r ops) :
    ∀ a, (runOps (init cfg []) ops).act = some a →
      ∃ f, (runOps (init cfg []) ops).dir.get a.handle = some f ∧ a.created = f.created := by
  intro a ha
  obtain ⟨f, hok⟩ := (good_of_hist cfg r hrot hcl ops hh).2 a ha
  exact ⟨f, hok.file, hok.created⟩

/-- … for the multi-run histories of FlwRestartA (`numbers`, `timestamps`): the file is
    `rCURRENT` -/
theorem created_is_birth_time_rcurrent (cfg : Cfg) (r : RotCfg) (hrot : cfg.rot = some r)
    (hcl : r.cleanup = none) (hnm : r.naming = .numbers ∨ r.naming = .timestamps)
    (ops : List (Op × Nat × Faults)) (hm : FV.FlwA.MultiRun cfg.rot ops) :
    ∀ a, (runOps (init cfg []) ops).act = some a →
      ∃ f, (runOps (init cfg []) ops).dir.get FV.FlwA.curN = some f ∧ a.created = f.created := by
  intro a ha
  rw [hrot] at hm
  obtain ⟨f, hok⟩ := (good_of_hist cfg r hrot hcl ops (Hist.of_multiRunA hm hnm)).2 a ha
  exact ⟨f, by rw [← hok.cur hnm]; exact hok.file, hok.created⟩

/-- … for the multi-run histories of FlwRestartB (`numbersDirect`, `timestampsDirect` — the
    latter without `AppendGuard`) -/
theorem created_is_birth_time_direct (cfg : Cfg) (hc : FV.FlwB.CfgMB cfg)
    (ops : List (Op × Nat × Faults)) (hm : FV.FlwB.MultiRun cfg.rot ops) :
    ∀ a, (runOps (init cfg []) ops).act = some a →
      ∃ f, (runOps (init cfg []) ops).dir.get a.handle = some f ∧ a.created = f.created := by
  obtain ⟨hcl, r, hrot, -⟩ := hc
  rw [hrot] at hm
  exact created_is_birth_time cfg r hrot (hcl r hrot) ops (Hist.of_multiRunB hm)

/-! ### 2. the age rule of a write step -/

theorem nec_age (r : RotCfg) (ag : Age) (hA : r.maxSize = none ∧ r.age = some ag) (a : Active)
    (now : Nat) : rotationNecessary r a now = true ↔ ag.trunc a.created ≠ ag.trunc now := by
  simp [rotationNecessary, hA.1, hA.2]

/-- **Age rule across runs** (all namings; pure age criterion `ag`). Consider a `write` at the
    end of a multi-run history; `mounted s now` is the state in which the write finds the writer
    (`s`, or `s` after the lazy `initState` at the first write of a run), `a` that writer and `f`
    the file it writes to.
    * `writeBuffer` first calls `mountNext … false`, which rotates iff
      `rotationNecessary r a now`: this is the case **iff the clock reading lies in another
      period than the recorded birth time of the current file** — whichever run created it.
    * Effect: if so, the file that was current is complete under another name `n'`, and the new
      current file is born `now` and holds exactly the record; if not, the record is appended
      and the birth time stays. Afterwards `created_at` is again the birth time of the file. -/
theorem age_rule_multi_run (cfg : Cfg) (r : RotCfg) (ag : Age) (hrot : cfg.rot = some r)
    (hA : r.maxSize = none ∧ r.age = some ag) (hcl : r.cleanup = none)
    (pre : List (Op × Nat × Faults)) (b : List Nat) (now : Nat)
    (hh : Hist r (pre ++ [(.write b, now, noFaults)])) :
    ∃ a f, (mounted (runOps (init cfg []) pre) now).act = some a ∧
      (mounted (runOps (init cfg []) pre) now).dir.get a.handle = some f ∧
      a.created = f.created ∧
      runOps (init cfg []) (pre ++ [(.write b, now, noFaults)]) =
        (writeBuffer (mounted (runOps (init cfg []) pre) now) b now noFaults).1 ∧
      (rotationNecessary r a now = true ↔ ag.trunc f.created ≠ ag.trunc now) ∧
      ∃ a' f', (runOps (init cfg []) (pre ++ [(.write b, now, noFaults)])).act = some a' ∧
        (runOps (init cfg []) (pre ++ [(.write b, now, noFaults)])).dir.get a'.handle = some f' ∧
        a'.created = f'.created ∧
        (ag.trunc f.created ≠ ag.trunc now →
          f'.created = now ∧ f'.data ++ a'.pending = b ∧
          ∃ n', n' ≠ a'.handle ∧
            (runOps (init cfg []) (pre ++ [(.write b, now, noFaults)])).dir.get n' =
              some ⟨f.data ++ a.pending, f.created⟩) ∧
        (ag.trunc f.created = ag.trunc now →
          a'.handle = a.handle ∧ f'.created = f.created ∧
          f'.data ++ a'.pending = f.data ++ a.pending ++ b) := by
  obtain ⟨a, f, h1, hok, hrun, -, a', f', e1, e2, e3, e4⟩ := write_step cfg r hrot hcl pre b now hh
  have hnec := nec_age r ag hA a now
  rw [hok.created] at hnec
  refine ⟨a, f, h1, hok.file, hok.created, hrun, hnec, a', f', e1, e2.file, e2.created, ?_, ?_⟩
  · intro hne
    obtain ⟨g1, g2, g3⟩ := e3 (hnec.2 hne)
    exact ⟨g2, g1, g3⟩
  · intro heq
    have : rotationNecessary r a now = false := by
      cases h : rotationNecessary r a now with
      | false => rfl
      | true => exact absurd heq (hnec.1 h)
    obtain ⟨g1, g2, g3⟩ := e4 this
    exact ⟨g1, g3, g2⟩

/-! ### 3. the first write of a run -/

/-- **An appending restart continues the file with its old birth time** (pure age criterion).
    First write of a run with `append` (`act = none`): the writer is mounted on the name
    `a.handle` it opens (`rCURRENT` for `numbers`/`timestamps`). If a file `f0` exists under that
    name — the current file left by the earlier runs — then it is continued unchanged and
    `created_at` is ITS recorded birth time, not the time of the restart. Hence this first write
    rotates **iff `f0` was started in another period than `now`** — under a clock that has not
    gone backwards since (`f0.created ≤ now`): iff it was started in an EARLIER period, i.e. the
    restart happens in a LATER period; a restart in the SAME period does not rotate.
    * later period: `f0` is closed as it was (it stays in the directory, complete, under another
      name `n'`), and the record starts a new file born `now`;
    * same period: the record is appended to `f0`, whose birth time stays. -/
theorem appending_restart_age (cfg : Cfg) (r : RotCfg) (ag : Age) (hrot : cfg.rot = some r)
    (hA : r.maxSize = none ∧ r.age = some ag) (hcl : r.cleanup = none)
    (pre : List (Op × Nat × Faults)) (b : List Nat) (now : Nat)
    (hh : Hist r (pre ++ [(.write b, now, noFaults)]))
    (hnone : (runOps (init cfg []) pre).act = none)
    (happ : (runOps (init cfg []) pre).cfg.append = true) :
    ∃ a, (mounted (runOps (init cfg []) pre) now).act = some a ∧
      (r.naming = .numbers ∨ r.naming = .timestamps → a.handle = FV.FlwA.curN) ∧
      ∀ f0, (runOps (init cfg []) pre).dir.get a.handle = some f0 →
        (mounted (runOps (init cfg []) pre) now).dir.get a.handle = some f0 ∧
        a.created = f0.created ∧
        (rotationNecessary r a now = true ↔ ag.trunc f0.created ≠ ag.trunc now) ∧
        (f0.created ≤ now →
          (rotationNecessary r a now = true ↔ ag.trunc f0.created < ag.trunc now)) ∧
        ∃ a' f', (runOps (init cfg []) (pre ++ [(.write b, now, noFaults)])).act = some a' ∧
          (runOps (init cfg []) (pre ++ [(.write b, now, noFaults)])).dir.get a'.handle =
            some f' ∧
          a'.created = f'.created ∧
          (ag.trunc f0.created ≠ ag.trunc now →
            f'.created = now ∧ f'.data ++ a'.pending = b ∧
            ∃ n', n' ≠ a'.handle ∧
              (runOps (init cfg []) (pre ++ [(.write b, now, noFaults)])).dir.get n' = some f0) ∧
          (ag.trunc f0.created = ag.trunc now →
            a'.handle = a.handle ∧ f'.created = f0.created ∧
            f'.data ++ a'.pending = f0.data ++ b) := by
  obtain ⟨a, f, h1, hok, -, h6, a', f', e1, e2, e3, e4⟩ := write_step cfg r hrot hcl pre b now hh
  obtain ⟨hp, happ', -⟩ := h6 hnone
  obtain ⟨-, hfound, -⟩ := happ' happ
  refine ⟨a, h1, hok.cur, ?_⟩
  intro f0 hf0
  have hf : f = f0 := hfound f0 hf0
  subst hf
  have hnec := nec_age r ag hA a now
  rw [hok.created] at hnec
  refine ⟨hok.file, hok.created, hnec, ?_, a', f', e1, e2.file, e2.created, ?_, ?_⟩
  · intro hle
    rw [hnec]
    exact FV.C09.later_period ag f.created now hle
  · intro hne
    obtain ⟨g1, g2, n', g3, g4⟩ := e3 (hnec.2 hne)
    refine ⟨g2, g1, n', g3, ?_⟩
    rw [g4, hp]
    simp
  · intro heq
    have : rotationNecessary r a now = false := by
      cases h : rotationNecessary r a now with
      | false => rfl
      | true => exact absurd heq (hnec.1 h)
    obtain ⟨g1, g2, g3⟩ := e4 this
    refine ⟨g1, g3, ?_⟩
    rw [g2, hp]
    simp

/-- … if the appending run finds no file under the name it opens (nothing was logged yet, or —
    `timestampsDirect` — the newest stamp has only `.restart-N` files), it creates one, born at
    the time of this first write -/
theorem appending_restart_new_file (cfg : Cfg) (r : RotCfg) (hrot : cfg.rot = some r)
    (hcl : r.cleanup = none) (pre : List (Op × Nat × Faults)) (b : List Nat) (now : Nat)
    (hh : Hist r (pre ++ [(.write b, now, noFaults)]))
    (hnone : (runOps (init cfg []) pre).act = none)
    (happ : (runOps (init cfg []) pre).cfg.append = true) :
    ∃ a, (mounted (runOps (init cfg []) pre) now).act = some a ∧
      ((runOps (init cfg []) pre).dir.get a.handle = none →
        (mounted (runOps (init cfg []) pre) now).dir.get a.handle = some ⟨[], now⟩ ∧
        a.created = now) := by
  obtain ⟨a, f, h1, hok, -, h6, -⟩ := write_step cfg r hrot hcl pre b now hh
  obtain ⟨-, happ', -⟩ := h6 hnone
  obtain ⟨-, -, hnew⟩ := happ' happ
  refine ⟨a, h1, fun hn => ?_⟩
  have hf := hnew hn
  subst hf
  exact ⟨hok.file, hok.created⟩

/-- **A non-appending restart starts a file born at its first write.** First write of a run
    without `append` (`act = none`; pure age criterion): the writer is mounted on a NEW empty
    file whose recorded birth time is the time `now` of this write (the file found, if any, was
    rotated out — rCURRENT namings — or is left alone — direct namings), `created_at = now`, so
    this write does not rotate, and afterwards the current file holds exactly the record and
    still has birth time `now`. -/
theorem nonappending_restart_created (cfg : Cfg) (r : RotCfg) (ag : Age) (hrot : cfg.rot = some r)
    (hA : r.maxSize = none ∧ r.age = some ag) (hcl : r.cleanup = none)
    (pre : List (Op × Nat × Faults)) (b : List Nat) (now : Nat)
    (hh : Hist r (pre ++ [(.write b, now, noFaults)]))
    (hnone : (runOps (init cfg []) pre).act = none)
    (happ : (runOps (init cfg []) pre).cfg.append = false) :
    ∃ a, (mounted (runOps (init cfg []) pre) now).act = some a ∧
      (mounted (runOps (init cfg []) pre) now).dir.get a.handle = some ⟨[], now⟩ ∧
      a.created = now ∧ rotationNecessary r a now = false ∧
      ∃ a' f', (runOps (init cfg []) (pre ++ [(.write b, now, noFaults)])).act = some a' ∧
        (runOps (init cfg []) (pre ++ [(.write b, now, noFaults)])).dir.get a'.handle = some f' ∧
        a'.handle = a.handle ∧ a'.created = now ∧ f'.created = now ∧
        f'.data ++ a'.pending = b := by
  obtain ⟨a, f, h1, hok, -, h6, a', f', e1, e2, -, e4⟩ := write_step cfg r hrot hcl pre b now hh
  obtain ⟨hp, -, hnapp⟩ := h6 hnone
  obtain ⟨-, hf⟩ := hnapp happ
  subst hf
  have hcr : a.created = now := hok.created
  have hnec : rotationNecessary r a now = false := by
    cases h : rotationNecessary r a now with
    | false => rfl
    | true =>
      have := (nec_age r ag hA a now).1 h
      rw [hcr] at this
      exact absurd rfl this
  obtain ⟨g1, g2, g3⟩ := e4 hnec
  refine ⟨a, h1, hok.file, hcr, hnec, a', f', e1, e2.file, g1, e2.created.trans g3, g3, ?_⟩
  rw [g2, hp]
  simp

/-! ### non-vacuity -/

/-- age criterion "minute" -/
def exRot (nm : Naming) : RotCfg := ⟨none, some .minute, nm, none⟩
def exCfg (nm : Naming) (app : Bool) (cap : Option Nat) : Cfg :=
  { rot := some (exRot nm), append := app, cap := cap, symlink := false }

/-- run 1 starts the current file at 10:00:05;
    run 2 APPENDS and writes at 10:00:40 — same minute: no rotation, birth time stays 10:00:05;
    run 3 APPENDS and writes at 10:02:10 — a later minute: its first write rotates;
    run 4 does NOT append and writes at 10:02:30: a new file born 10:02:30 (although the file
    found was born in the same minute). -/
def exOps (nm : Naming) : List (Op × Nat × Faults) :=
  [(.write [1, 2], 20240131100005, noFaults), (.flush, 0, noFaults),
   (.restart (exCfg nm true (some 4)), 0, noFaults), (.write [3], 20240131100040, noFaults),
   (.shutdown, 0, noFaults),
   (.restart (exCfg nm true none), 0, noFaults), (.write [4], 20240131100210, noFaults),
   (.flush, 0, noFaults),
   (.restart (exCfg nm false (some 4)), 0, noFaults), (.write [5], 20240131100230, noFaults)]

theorem exOps_runs (nm : Naming) : Runs (some (exRot nm)) (exOps nm) := by
  intro o ho
  simp only [exOps, List.mem_cons, List.not_mem_nil, or_false] at ho
  rcases ho with rfl | rfl | rfl | rfl | rfl | rfl | rfl | rfl | rfl | rfl
  all_goals first
    | exact ⟨Or.inl rfl, rfl⟩
    | exact ⟨Or.inr ⟨_, rfl, rfl⟩, rfl⟩

theorem exOps_multiRunA (nm : Naming) : FV.FlwA.MultiRun (some (exRot nm)) (exOps nm) :=
  ⟨exOps_runs nm, by unfold Monotone exOps; simp [Op.usesClock],
    by simp [exOps, FV.FlwA.FlushedBeforeRestart, FV.FlwA.isRestart, FV.FlwA.endsRun]⟩

theorem exOps_multiRunB (nm : Naming) : FV.FlwB.MultiRun (some (exRot nm)) (exOps nm) :=
  ⟨exOps_runs nm, by unfold Monotone exOps; simp [Op.usesClock],
    by unfold FV.FlwB.FlushedBeforeRestart; rfl⟩

theorem exOps_hist (nm : Naming) : Hist (exRot nm) (exOps nm) :=
  Hist.of_multiRunB (exOps_multiRunB nm)

/-- the hypotheses hold for this history and all its prefixes, for every naming -/
theorem exOps_hist_take (nm : Naming) (n : Nat) : Hist (exRot nm) ((exOps nm).take n) := by
  have h := exOps_hist nm
  rw [← List.take_append_drop n (exOps nm)] at h
  exact h.prefix

/-- the theorems instantiated: the appending runs 2 (`take 3` ends with its restart; same minute)
    and 3 (`take 6`; later minute), the non-appending run 4 (`take 9`), and the variants for
    `FV.FlwA.MultiRun` / `FV.FlwB.MultiRun` -/
example := appending_restart_age (exCfg .timestamps false none) (exRot .timestamps) .minute rfl
  ⟨rfl, rfl⟩ rfl ((exOps .timestamps).take 3) [3] 20240131100040 (exOps_hist_take .timestamps 4)
  (by decide) (by decide)
example := appending_restart_age (exCfg .numbersDirect false none) (exRot .numbersDirect) .minute
  rfl ⟨rfl, rfl⟩ rfl ((exOps .numbersDirect).take 6) [4] 20240131100210
  (exOps_hist_take .numbersDirect 7) (by decide) (by decide)
example := appending_restart_new_file (exCfg .timestamps true none) (exRot .timestamps) rfl rfl
  [] [1, 2] 20240131100005 (exOps_hist_take .timestamps 1) rfl rfl
example := nonappending_restart_created (exCfg .timestampsDirect false none)
  (exRot .timestampsDirect) .minute rfl ⟨rfl, rfl⟩ rfl ((exOps .timestampsDirect).take 9) [5]
  20240131100230 (exOps_hist_take .timestampsDirect 10) (by decide) (by decide)
example := age_rule_multi_run (exCfg .numbers false none) (exRot .numbers) .minute rfl ⟨rfl, rfl⟩
  rfl ((exOps .numbers).take 6) [4] 20240131100210 (exOps_hist_take .numbers 7)
example := created_is_birth_time (exCfg .numbers false none) (exRot .numbers) rfl rfl _
  (exOps_hist .numbers)
example := created_is_birth_time_rcurrent (exCfg .timestamps false none) (exRot .timestamps) rfl
  rfl (Or.inr rfl) _ (exOps_multiRunA .timestamps)
example := created_is_birth_time_direct (exCfg .timestampsDirect false none)
  ⟨fun r h => by cases h; rfl, _, rfl, Or.inr rfl⟩ _ (exOps_multiRunB .timestampsDirect)

/-- `created_is_birth_time` on the example: after the appending run 2 wrote (same minute) the
    writer's `created_at` is still the birth time 10:00:05 of the file; at the end it is
    10:02:30 -/
example : (runOps (init (exCfg .timestamps false none) []) ((exOps .timestamps).take 4)).act.map
      (fun a => (a.created, createdOr (runOps (init (exCfg .timestamps false none) [])
        ((exOps .timestamps).take 4)).dir a.handle 0)) =
      some (20240131100005, 20240131100005) ∧
    (runOps (init (exCfg .timestamps false none) []) (exOps .timestamps)).act.map
      (fun a => (a.created, createdOr (runOps (init (exCfg .timestamps false none) [])
        (exOps .timestamps)).dir a.handle 0)) =
      some (20240131100230, 20240131100230) := by decide

/-- `appending_restart_age` / `nonappending_restart_created` on the example: the mounted writer
    of run 2 (same minute: no rotation), run 3 (later minute: rotation), run 4 (no append: born
    now) -/
example : (mounted (runOps (init (exCfg .timestamps false none) []) ((exOps .timestamps).take 3))
      20240131100040).act.map
        (fun a => (a.created, rotationNecessary (exRot .timestamps) a 20240131100040)) =
      some (20240131100005, false) ∧
    (mounted (runOps (init (exCfg .timestamps false none) []) ((exOps .timestamps).take 6))
      20240131100210).act.map
        (fun a => (a.created, rotationNecessary (exRot .timestamps) a 20240131100210)) =
      some (20240131100005, true) ∧
    (mounted (runOps (init (exCfg .timestamps false none) []) ((exOps .timestamps).take 9))
      20240131100230).act.map
        (fun a => (a.created, rotationNecessary (exRot .timestamps) a 20240131100230)) =
      some (20240131100230, false) := by decide

/-- the files a reader sees at the end: `[1,2,3]` (run 1 + run 2, one minute), `[4]` (run 3,
    rotated at its first write), `[5]` (run 4) — for an rCURRENT and both direct namings -/
example : viewFiles (runOps (init (exCfg .timestamps false none) []) (exOps .timestamps)) =
      [[1, 2, 3], [4], [5]] ∧
    viewFiles (runOps (init (exCfg .numbersDirect false none) []) (exOps .numbersDirect)) =
      [[1, 2, 3], [4], [5]] ∧
    viewFiles (runOps (init (exCfg .timestampsDirect false none) [])
      (exOps .timestampsDirect)) = [[1, 2, 3], [4], [5]] := by decide

/-- the theorems applied to the example: run 3 (appending, `take 6` + its first write) -/
example : (exOps .timestamps).take 6 ++ [(.write [4], 20240131100210, noFaults)] =
    (exOps .timestamps).take 7 := by decide

example : (runOps (init (exCfg .timestamps false none) []) ((exOps .timestamps).take 6)).act =
      none ∧
    (runOps (init (exCfg .timestamps false none) []) ((exOps .timestamps).take 6)).cfg.append =
      true ∧
    (runOps (init (exCfg .timestamps false none) []) ((exOps .timestamps).take 6)).dir.get
      FV.FlwA.curN = some ⟨[1, 2, 3], 20240131100005⟩ ∧
    Age.minute.trunc 20240131100005 < Age.minute.trunc 20240131100210 := by decide

end FV.C09Restart
