import FlexiVerif.Lemmas.FlwRefine
/-
  C09 with forced rotations (`LoggerHandle::trigger_rotation`, `FileLogWriter::rotate`): the rule the
  harness' oracle `age-rule` evaluates on the real files — "a forced rotation starts a file at ITS
  time; a record closes the current file exactly when it arrives in a later period than the one in
  which that file was started" — is the abstract rotating log: for a pure age criterion the number
  of closed files and the start time of the current one are those of `Abs.run`, hence (by
  `refines_all`) those of the concrete writer under every naming scheme and buffer capacity.
-/
namespace FV.C09Forced
open FV FV.Flw

/-- the oracle's state: files closed so far, and the time the current file was started (if any) -/
structure RS where
  closed : Nat
  started : Option Nat
deriving DecidableEq, Repr

/-- one event of the oracle's rule -/
def ruleStep (ag : Age) (s : RS) (op : Op) (now : Nat) : RS :=
  match op with
  | .write _ =>
    match s.started with
    | none => ⟨s.closed, some now⟩
    | some c => if ag.trunc c ≠ ag.trunc now then ⟨s.closed + 1, some now⟩ else s
  | .rotate =>
    match s.started with
    | some _ => ⟨s.closed + 1, some now⟩
    | none => s
  | _ => s

def ruleRun (ag : Age) (s : RS) (ops : List (Op × Nat × Faults)) : RS :=
  ops.foldl (fun s o => ruleStep ag s o.1 o.2.1) s

/-- the abstract log and the oracle's state describe the same thing -/
def Rel (a : Abs) (s : RS) : Prop :=
  a.closed.length = s.closed ∧
  (a.started = true → s.started = some a.created) ∧
  (a.started = false → s.started = none)

theorem rel_step (r : RotCfg) (ag : Age) (hsz : r.maxSize = none) (hag : r.age = some ag)
    (a : Abs) (s : RS) (h : Rel a s) (op : Op) (now : Nat) :
    Rel (a.step (some r) op now) (ruleStep ag s op now) := by
  obtain ⟨h1, h2, h3⟩ := h
  cases op with
  | write b =>
    cases hst : a.started with
    | false =>
      have hs := h3 hst
      simp [Rel, Abs.step, hst, ruleStep, hs, absNecessary, hsz, hag, h1]
    | true =>
      have hs := h2 hst
      by_cases hp : ag.trunc a.created = ag.trunc now
      · simp [Rel, Abs.step, hst, ruleStep, hs, absNecessary, hsz, hag, h1, hp]
      · simp [Rel, Abs.step, hst, ruleStep, hs, absNecessary, hsz, hag, h1, hp, Abs.rotate]
  | rotate =>
    cases hst : a.started with
    | false =>
      have hs := h3 hst
      simp [Rel, Abs.step, hst, ruleStep, hs, h1]
    | true =>
      have hs := h2 hst
      simp [Rel, Abs.step, hst, ruleStep, hs, h1, Abs.rotate]
  | flush => exact ⟨h1, h2, h3⟩
  | shutdown => exact ⟨h1, h2, h3⟩
  | restart c => exact ⟨h1, h2, h3⟩
  | reset c => exact ⟨h1, h2, h3⟩
  | extRename => exact ⟨h1, h2, h3⟩
  | extRemove => exact ⟨h1, h2, h3⟩
  | reopen => exact ⟨h1, h2, h3⟩

theorem rel_run (r : RotCfg) (ag : Age) (hsz : r.maxSize = none) (hag : r.age = some ag)
    (ops : List (Op × Nat × Faults)) (a : Abs) (s : RS) (h : Rel a s) :
    Rel (Abs.run (some r) a ops) (ruleRun ag s ops) := by
  induction ops generalizing a s with
  | nil => exact h
  | cons o os ih =>
    exact ih _ _ (rel_step r ag hsz hag a s h o.1 o.2.1)

/-- **The oracle's rule is the abstract log**: number of closed files and start of the current one. -/
theorem rule_is_abs (r : RotCfg) (ag : Age) (hsz : r.maxSize = none) (hag : r.age = some ag)
    (ops : List (Op × Nat × Faults)) :
    (Abs.run (some r) Abs.init ops).closed.length = (ruleRun ag ⟨0, none⟩ ops).closed := by
  exact (rel_run r ag hsz hag ops Abs.init ⟨0, none⟩ (And.intro rfl (And.intro (by intro h; cases h) (fun _ => rfl)))).1

/-- **… and therefore the concrete writer's**: for every naming scheme and buffer capacity, a plain
    history under a monotone clock leaves `ruleRun`'s number of closed files plus the current one. -/
theorem files_on_disk_follow_rule (cfg : Cfg) (r : RotCfg) (ag : Age) (hr : cfg.rot = some r)
    (hsz : r.maxSize = none) (hag : r.age = some ag) (ha : cfg.append = false) (hn : NoCleanup cfg)
    (ops : List (Op × Nat × Faults)) (hp : PlainHistory ops)
    (hst : (Abs.run cfg.rot Abs.init ops).started = true) :
    (viewFiles (runOps (init cfg []) ops)).length = (ruleRun ag ⟨0, none⟩ ops).closed + 1 := by
  have href := (refines_all cfg ha hn ops hp).1
  rw [href, Abs.files, hst]
  simp only [if_true, List.length_append, List.length_singleton]
  rw [hr, rule_is_abs r ag hsz hag ops]

/-! ### the history of the seeded change C09f: a period boundary passes without a write, a forced
    rotation, then a write in the same later period — two files, not three -/

def exOps : List (Op × Nat × Faults) :=
  [(.write [1], 20250101235958, noFaults), (.rotate, 20250102000001, noFaults), (.write [2], 20250102000003, noFaults)]

example : (ruleRun .hour ⟨0, none⟩ exOps).closed + 1 = 2 := by decide

end FV.C09Forced
