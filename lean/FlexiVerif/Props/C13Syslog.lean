import FlexiVerif.Model.Syslog
/-
  C13 — the syslog writer: "no writer emits a record above its configured maximum level", and what
  it emits carries facility and severity recoverably in the PRI value and the message verbatim.

  * `pri_eq_add`, `pri_decodes`: for every facility 0..23 and level, PRI = facility·8 + severity,
    so facility and severity are recovered by `/ 8` and `% 8`.
  * `severity_monotone`; `severity_not_injective`: Debug and Trace share severity 7 — hence the
    ceiling must be tested on LEVELS: `ceiling_on_levels` (emitted iff level ≤ ceiling) against
    `ceiling_on_severities_violation_witness` (a test on severities emits a Trace record under a
    Debug ceiling — the seeded change C13f) and `ceiling_on_severities_never_stricter`.
  * `line5424_ends_with_message`, `line3164_ends_with_message`, `line_starts_with_pri`.
  Tie to the code: `SYSLOGLINE` runs (a real `SyslogWriter` over UDP loopback; the datagram's PRI,
  header field count and message are compared with the model) and C13's ceiling runs.
-/
namespace FV.C13Syslog
open FV.Syslog

theorem severity_lt_8 (lvl : Nat) : severity lvl < 8 := by
  unfold severity
  repeat' split
  all_goals omega

/-- the bitwise OR is an addition: the facility code has its three low bits clear -/
theorem pri_eq_add (fac lvl : Nat) : pri fac lvl = fac * 8 + severity lvl := by
  unfold pri facilityCode
  have h := severity_lt_8 lvl
  have : fac * 8 = fac <<< 3 := by simp [Nat.shiftLeft_eq]; 
  rw [this, Nat.shiftLeft_add_eq_or_of_lt (by simpa using h)]

theorem pri_decodes (fac lvl : Nat) : pri fac lvl / 8 = fac ∧ pri fac lvl % 8 = severity lvl := by
  rw [pri_eq_add]
  have h := severity_lt_8 lvl
  omega

/-- facility and severity can be read back from the PRI value: two lines with the same PRI come from
    the same facility and carry the same severity -/
theorem pri_injective (fac fac' lvl lvl' : Nat) (h : pri fac lvl = pri fac' lvl') :
    fac = fac' ∧ severity lvl = severity lvl' := by
  have h1 := pri_decodes fac lvl
  have h2 := pri_decodes fac' lvl'
  rw [h] at h1
  exact ⟨h1.1.symm.trans h2.1, h1.2.symm.trans h2.2⟩

theorem severity_monotone (l l' : Nat) (h : l ≤ l') : severity l ≤ severity l' := by
  unfold severity
  repeat' split
  all_goals omega

theorem severity_not_injective : severity 4 = severity 5 ∧ (4 : Nat) ≠ 5 := by decide

/-- **The ceiling rule**: a record is emitted iff its level is not above the writer's maximum. -/
theorem ceiling_on_levels (ceiling lvl : Nat) : emits ceiling lvl = true ↔ lvl ≤ ceiling := by
  simp [emits]

/-- a ceiling test on severities would emit a Trace record under a Debug ceiling -/
theorem ceiling_on_severities_violation_witness :
    emitsBySeverity 4 5 = true ∧ emits 4 5 = false := by decide

/-- … and is never stricter than the level test (levels 1..5, ceilings 0..5): it only ADDS records -/
theorem ceiling_on_severities_never_stricter (ceiling lvl : Nat) (hl : 1 ≤ lvl) (h : emits ceiling lvl = true) :
    emitsBySeverity ceiling lvl = true := by
  simp only [emits, decide_eq_true_eq] at h
  simp only [emitsBySeverity, Bool.and_eq_true, decide_eq_true_eq]
  exact ⟨by omega, severity_monotone lvl ceiling h⟩

theorem line5424_ends_with_message (fac lvl : Nat) (ts host app pid msgid msg : List Char) :
    ∃ hdr, line5424 fac lvl ts host app pid msgid msg = hdr ++ msg := by
  unfold line5424
  exact ⟨_, rfl⟩

theorem line3164_ends_with_message (fac lvl : Nat) (ts tag pid msg : List Char) :
    ∃ hdr, line3164 fac lvl ts tag pid msg = hdr ++ msg := by
  unfold line3164
  exact ⟨_, rfl⟩

theorem line_starts_with_pri (fac lvl : Nat) (ts host app pid msgid msg tag : List Char) :
    (∃ rest, line5424 fac lvl ts host app pid msgid msg = ['<'] ++ natToText (pri fac lvl) ++ ['>'] ++ rest) ∧
    (∃ rest, line3164 fac lvl ts tag pid msg = ['<'] ++ natToText (pri fac lvl) ++ ['>'] ++ rest) := by
  refine ⟨⟨['1', ' '] ++ ts ++ [' '] ++ host ++ [' '] ++ app ++ [' '] ++ pid ++ [' '] ++ msgid ++ [' ', '-', ' '] ++ msg, ?_⟩,
    ⟨ts ++ [' '] ++ tag ++ ['['] ++ pid ++ [']', ':', ' '] ++ msg, ?_⟩⟩
  · unfold line5424; simp [List.append_assoc]
  · unfold line3164; simp [List.append_assoc]

example : pri 16 3 = 134 ∧ pri 16 5 = 135 ∧ pri 1 1 = 11 := by decide
example : String.ofList (line3164 16 2 "Jan  1 00:00:00".toList "fvh".toList "42".toList "hello".toList)
    = "<132>Jan  1 00:00:00 fvh[42]: hello" := by decide

end FV.C13Syslog
