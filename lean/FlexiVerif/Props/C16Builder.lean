import FlexiVerif.Model.Builder
/-
  C16 — "named as documented": whether the names carry the start time does not depend on the ORDER
  of the builder calls. For a builder that gets one file specification (with the user's choice
  `ts`: undecided, yes, no) and whose rotation is switched on by `rotate` / `o_rotate(Some)` before
  or after it: the names carry the start time iff the user said yes — undecided means NO with
  rotation; and without rotation undecided means YES. The seeded change C16f (the `file_spec`
  setter no longer looks at the rotation) is the witness that the `file_spec` branch is needed.
  Tie to the code: the `NOTE builder-order` histories (four call orders incl. the `o_*` forms,
  file specifications that leave the start time undecided).
-/
namespace FV.C16Builder
open FV.Builder

/-- what the documentation promises -/
def documented (ts : Ts) (rotation : Bool) : Bool :=
  match ts with
  | .yes => true
  | .no => false
  | .dflt => !rotation

theorem rotate_then_file (ts : Ts) : hasStartTime (build [.rotate, .fileSpec ts]) = documented ts true := by
  cases ts <;> rfl

theorem file_then_rotate (ts : Ts) : hasStartTime (build [.fileSpec ts, .rotate]) = documented ts true := by
  cases ts <;> rfl

theorem orotate_orders (ts : Ts) (on : Bool) :
    hasStartTime (build [.oRotate on, .fileSpec ts]) = hasStartTime (build [.fileSpec ts, .oRotate on]) ∨ (on = false ∧ ts = .dflt) := by
  cases ts <;> cases on <;> simp [build, call, ifDefault, hasStartTime]

/-- **Order independence with rotation**: any calls before, between and after — as long as the
    last rotation call switches rotation ON and one file specification is given — end in the
    documented choice. Stated for the two calls in both orders with arbitrary `rotate`/`o_rotate(Some)`
    calls around them. -/
theorem order_independent_with_rotation (ts : Ts) (pre mid post : List Unit) :
    let rots := fun (l : List Unit) => l.map (fun _ => Call.rotate)
    hasStartTime (build (rots pre ++ [.rotate] ++ rots mid ++ [.fileSpec ts] ++ rots post)) = documented ts true ∧
    hasStartTime (build (rots pre ++ [.fileSpec ts] ++ rots mid ++ [.rotate] ++ rots post)) = documented ts true := by
  intro rots
  have hrot : ∀ (l : List Unit) (b : B), (rots l).foldl call b =
      (if l.isEmpty then b else { rot := true, ts := ifDefault b.ts false }) := by
    intro l
    induction l with
    | nil => intro b; rfl
    | cons u us ih =>
      intro b
      simp only [rots, List.map_cons, List.foldl_cons, List.isEmpty_cons, Bool.false_eq_true, if_false] at ih ⊢
      rw [ih]
      cases us <;> cases hb : b.ts <;> simp [call, ifDefault, hb]
  simp only [build, List.foldl_append, List.foldl_cons, List.foldl_nil, hrot]
  cases ts <;> cases pre <;> cases mid <;> cases post <;> simp [call, ifDefault, hasStartTime, documented]

/-- without rotation the undecided specification carries the start time -/
theorem no_rotation (ts : Ts) : hasStartTime (build [.fileSpec ts]) = documented ts false := by
  cases ts <;> rfl

/-- the seeded change C16f: a `file_spec` setter that ignores the rotation -/
def callC16f (b : B) : Call → B
  | .fileSpec ts => { b with ts := ts }
  | c => call b c

theorem c16f_violation_witness :
    hasStartTime ([Call.rotate, Call.fileSpec .dflt].foldl callC16f {}) = true ∧ documented .dflt true = false := by
  decide

end FV.C16Builder
