import FlexiVerif.Lemmas.FlwRestartAcct
import FlexiVerif.Props.C08
/-
  C08 across restarts — the size bookkeeping and the size rule for MULTI-RUN histories.

  `C08` proves the size rule for single runs (no `append`). Here a history may contain
  `.restart c` operations (a new logger — a new process — on the same directory; `append`,
  buffer capacity, symlink chosen per run, same rotation configuration `r`).

  Histories: `FV.Acct.Hist r ops` — plain operations and restarts keeping `r`, no faults; for
  `numbersDirect` additionally `FV.FlwB.MultiRun` (FlwRestartB's invariant supplies the freshness
  of the next index). `FV.FlwA.MultiRun` (rCURRENT namings) and `FV.FlwB.MultiRun` (direct
  namings) imply it (`Hist.of_multiRunA`, `Hist.of_multiRunB`); for `timestampsDirect` NO
  `AppendGuard` is needed. Throughout: a rotation configuration, no cleanup.

  * `size_is_file_length`      the counter is the length of the file written to (buffer included)
  * `size_accounting_multi_run` … as a statement about the files a reader sees (rCURRENT namings)
  * `restart_counter`          an appending run starts at the size of the file found, else at 0
  * `size_rule_multi_run`      the rule of a write step, all namings (decision and effect)
  * `size_rule_files`          the rule of a write step as a statement about `viewFiles`
                               (rCURRENT namings, via FlwRestartA's multi-run refinement)
  * the non-rotating writer: the counter is NOT the file length after an appending restart
    (`plain_counter_is_not_file_length`); it is never used there.
-/
namespace FV.C08Restart
open FV FV.Flw FV.Acct

/-! ### 1. the counter is what is in the file -/

/-- **Size bookkeeping = what is in the file.** After every multi-run history (all four
    namings, any criterion, any sequence of runs with `append` on or off, any buffer capacity),
    whenever the writer is mounted: the file its descriptor refers to exists, and `current_size`
    is the length of that file plus the bytes still in the `BufWriter` — regardless of which run
    wrote them. -/
theorem size_is_file_length (cfg : Cfg) (r : RotCfg) (hrot : cfg.rot = some r)
    (hcl : r.cleanup = none) (ops : List (Op × Nat × Faults)) (hh : Hist r ops) :
    ∀ a, (runOps (init cfg []) ops).act = some a →
      ∃ f, (runOps (init cfg []) ops).dir.get a.handle = some f ∧
        a.size = f.data.length + a.pending.length := by
  intro a ha
  obtain ⟨f, hok⟩ := (good_of_hist cfg r hrot hcl ops hh).2 a ha
  exact ⟨f, hok.file, hok.size⟩

/-- … for the multi-run histories of FlwRestartA (`numbers`, `timestamps`): the file is
    `rCURRENT` -/
theorem size_is_file_length_rcurrent (cfg : Cfg) (r : RotCfg) (hrot : cfg.rot = some r)
    (hcl : r.cleanup = none) (hnm : r.naming = .numbers ∨ r.naming = .timestamps)
    (ops : List (Op × Nat × Faults)) (hm : FV.FlwA.MultiRun cfg.rot ops) :
    ∀ a, (runOps (init cfg []) ops).act = some a →
      ∃ f, (runOps (init cfg []) ops).dir.get FV.FlwA.curN = some f ∧
        a.size = f.data.length + a.pending.length := by
  intro a ha
  rw [hrot] at hm
  obtain ⟨f, hok⟩ := (good_of_hist cfg r hrot hcl ops (Hist.of_multiRunA hm hnm)).2 a ha
  exact ⟨f, by rw [← hok.cur hnm]; exact hok.file, hok.size⟩

/-- … for the multi-run histories of FlwRestartB (`numbersDirect`, `timestampsDirect` — the
    latter without `AppendGuard`) -/
theorem size_is_file_length_direct (cfg : Cfg) (hc : FV.FlwB.CfgMB cfg)
    (ops : List (Op × Nat × Faults)) (hm : FV.FlwB.MultiRun cfg.rot ops) :
    ∀ a, (runOps (init cfg []) ops).act = some a →
      ∃ f, (runOps (init cfg []) ops).dir.get a.handle = some f ∧
        a.size = f.data.length + a.pending.length := by
  obtain ⟨hcl, r, hrot, -⟩ := hc
  rw [hrot] at hm
  exact size_is_file_length cfg r hrot (hcl r hrot) ops (Hist.of_multiRunB hm)

/-- **… as a statement about the files a reader sees** (the form of `C08.size_accounting`, now
    for multi-run histories of the rCURRENT namings): `current_size` is the length of the last
    file of `viewFiles` (content of the `BufWriter` included). -/
theorem size_accounting_multi_run (cfg : Cfg) (r : RotCfg) (hrot : cfg.rot = some r)
    (hcl : r.cleanup = none) (hnm : r.naming = .numbers ∨ r.naming = .timestamps)
    (ops : List (Op × Nat × Faults)) (hm : FV.FlwA.MultiRun cfg.rot ops) :
    ∀ act, (runOps (init cfg []) ops).act = some act →
      ∃ front last, viewFiles (runOps (init cfg []) ops) = front ++ [last] ∧
        act.size = last.length := by
  intro act hact
  have hra : FV.FlwA.RotA cfg.rot := by
    intro r' h
    rw [hrot] at h
    cases h
    exact ⟨hcl, hnm⟩
  obtain ⟨⟨t, hi⟩, -⟩ := FV.FlwA.multi_run_refines cfg hra ops hm
  have hv := MInv_files hi
  have hsz : (FV.FlwA.MAbs.run cfg.rot ⟨Abs.init, false, cfg.append⟩ ops).abs.size =
      (FV.FlwA.MAbs.run cfg.rot ⟨Abs.init, false, cfg.append⟩ ops).abs.cur.length := by
    rw [hrot]
    exact MAbs_run_size r ops _ rfl
  obtain ⟨hrs, -, hcase⟩ := hi
  rcases hcase with ⟨-, act', hact', hI, -, -⟩ | ⟨-, hnone, -⟩
  · rw [hact] at hact'
    cases hact'
    refine ⟨(FV.FlwA.MAbs.run cfg.rot ⟨Abs.init, false, cfg.append⟩ ops).abs.closed,
      (FV.FlwA.MAbs.run cfg.rot ⟨Abs.init, false, cfg.append⟩ ops).abs.cur, ?_, ?_⟩
    · rw [hv]
      simp only [Abs.files, hI.started, if_true]
    · rw [(hI.size (by rw [hrs, hrot]; rfl)).1, hsz]
  · rw [hact] at hnone
    cases hnone

/-! ### 2. where the counter starts -/

/-- **Where the counter starts.** At the first write of a run (the writer is not mounted:
    `act = none` — after a restart, or at the very beginning) the writer is initialised from the
    directory: with `append` the counter starts at the size of the file found under the name it
    opens (`fileLen`: 0 if there is none), without `append` at 0; the buffer is empty. -/
theorem restart_counter (cfg : Cfg) (r : RotCfg) (hrot : cfg.rot = some r)
    (hcl : r.cleanup = none) (pre : List (Op × Nat × Faults)) (b : List Nat) (now : Nat)
    (hh : Hist r (pre ++ [(.write b, now, noFaults)]))
    (hnone : (runOps (init cfg []) pre).act = none) :
    ∃ a, (mounted (runOps (init cfg []) pre) now).act = some a ∧ a.pending = [] ∧
      ((runOps (init cfg []) pre).cfg.append = true →
        a.size = fileLen (runOps (init cfg []) pre).dir a.handle) ∧
      ((runOps (init cfg []) pre).cfg.append = false → a.size = 0) := by
  obtain ⟨a, f, h1, -, -, -, -, h6⟩ := mounted_spec cfg r hrot hcl pre _ hh
  obtain ⟨hp, happ, hnapp⟩ := h6 hnone
  exact ⟨a, h1, hp, fun h => (happ h).1, fun h => (hnapp h).1⟩

/-! ### 3. the size rule of a write step -/

/-- **Size rule across runs** (all namings; pure size criterion `N`). Consider a `write` at the
    end of a multi-run history. `mounted s now` is the state in which the write finds the writer
    (`s` itself, or — first write of a run — `s` after the lazy `initState`); `a` is that writer
    and `f` the file it writes to, so `f.data.length + a.pending.length` is the number of bytes
    the current file holds, buffer included — whichever runs wrote them.
    * The step is the write of that mounted writer.
    * `writeBuffer` first calls `mountNext … false`, which rotates iff
      `rotationNecessary r a now`: this is the case **iff the current file already holds more
      than `N` bytes**.
    * Effect: if so, the file that was current is complete (buffer flushed into it) under a name
      `n'` other than the new current file, and the new current file holds exactly the record
      `b`; if not, the writer stays on its file, which now holds the old content followed by `b`.
    In particular an appending restart onto a file that already exceeds `N` rotates at its first
    write; a non-appending restart (counter 0, new empty file) never does. -/
theorem size_rule_multi_run (cfg : Cfg) (r : RotCfg) (N : Nat) (hrot : cfg.rot = some r)
    (hN : r.maxSize = some N ∧ r.age = none) (hcl : r.cleanup = none)
    (pre : List (Op × Nat × Faults)) (b : List Nat) (now : Nat)
    (hh : Hist r (pre ++ [(.write b, now, noFaults)])) :
    ∃ a f, (mounted (runOps (init cfg []) pre) now).act = some a ∧
      (mounted (runOps (init cfg []) pre) now).dir.get a.handle = some f ∧
      runOps (init cfg []) (pre ++ [(.write b, now, noFaults)]) =
        (writeBuffer (mounted (runOps (init cfg []) pre) now) b now noFaults).1 ∧
      (rotationNecessary r a now = true ↔ f.data.length + a.pending.length > N) ∧
      ∃ a' f', (runOps (init cfg []) (pre ++ [(.write b, now, noFaults)])).act = some a' ∧
        (runOps (init cfg []) (pre ++ [(.write b, now, noFaults)])).dir.get a'.handle = some f' ∧
        (f.data.length + a.pending.length > N →
          f'.data ++ a'.pending = b ∧
          ∃ n', n' ≠ a'.handle ∧
            (runOps (init cfg []) (pre ++ [(.write b, now, noFaults)])).dir.get n' =
              some ⟨f.data ++ a.pending, f.created⟩) ∧
        (¬ f.data.length + a.pending.length > N →
          a'.handle = a.handle ∧ f'.data ++ a'.pending = f.data ++ a.pending ++ b) := by
  obtain ⟨a, f, h1, h2, h3, hok, hw, -⟩ := mounted_spec cfg r hrot hcl pre _ hh
  have hrun : runOps (init cfg []) (pre ++ [(.write b, now, noFaults)]) =
      (writeBuffer (mounted (runOps (init cfg []) pre) now) b now noFaults).1 := by
    rw [runOps_snoc]
    show (writeBuffer (runOps (init cfg []) pre) b now noFaults).1 = _
    rw [writeBuffer_mounted _ b now h3 hcl]
  have hnec : rotationNecessary r a now = true ↔ f.data.length + a.pending.length > N := by
    simp [rotationNecessary, hN.1, hN.2, hok.size]
  obtain ⟨a', f', e1, -, e3, e4, e5⟩ :=
    write_mounted (mounted (runOps (init cfg []) pre) now) a f b now (by rw [h2]; exact h3) hcl h1
      hok hw
  refine ⟨a, f, h1, hok.file, hrun, hnec, a', f', by rw [hrun]; exact e1,
    by rw [hrun]; exact e3.file, ?_, ?_⟩
  · intro hgt
    obtain ⟨g1, -, g3⟩ := e4 (hnec.2 hgt)
    rw [hrun]
    exact ⟨g1, g3⟩
  · intro hle
    have : rotationNecessary r a now = false := by
      cases h : rotationNecessary r a now with
      | false => rfl
      | true => exact absurd (hnec.1 h) hle
    obtain ⟨g1, g2, -⟩ := e5 this
    exact ⟨g1, g2⟩

/-- **Size rule across runs, as seen by a reader** (`numbers`, `timestamps`; pure size criterion
    `N`; via FlwRestartA's multi-run refinement). Let `front ++ [last]` be the files on disk
    before a `write b` (reading order, content of the `BufWriter` counted to the last file).
    * If the writer is mounted, or the new run appends: the write closes `last` and starts a new
      file with `b` **iff `last` already holds more than `N` bytes** — no matter which run wrote
      them —, otherwise `b` is appended to `last`.
    * First write of a run without `append`: the file found is closed in any case (it becomes the
      newest rotated file) and `b` starts a new file.
    * Nothing on disk yet: `b` starts the first file. -/
theorem size_rule_files (cfg : Cfg) (r : RotCfg) (N : Nat) (hrot : cfg.rot = some r)
    (hN : r.maxSize = some N ∧ r.age = none) (hcl : r.cleanup = none)
    (hnm : r.naming = .numbers ∨ r.naming = .timestamps)
    (pre : List (Op × Nat × Faults)) (b : List Nat) (now : Nat)
    (hm : FV.FlwA.MultiRun cfg.rot (pre ++ [(.write b, now, noFaults)])) :
    (viewFiles (runOps (init cfg []) pre) = [] →
      viewFiles (runOps (init cfg []) (pre ++ [(.write b, now, noFaults)])) = [b]) ∧
    ∀ front last, viewFiles (runOps (init cfg []) pre) = front ++ [last] →
      (((runOps (init cfg []) pre).act.isSome = true ∨
          (runOps (init cfg []) pre).cfg.append = true) →
        (last.length > N →
          viewFiles (runOps (init cfg []) (pre ++ [(.write b, now, noFaults)])) =
            front ++ [last, b]) ∧
        (¬ last.length > N →
          viewFiles (runOps (init cfg []) (pre ++ [(.write b, now, noFaults)])) =
            front ++ [last ++ b])) ∧
      ((runOps (init cfg []) pre).act = none → (runOps (init cfg []) pre).cfg.append = false →
        viewFiles (runOps (init cfg []) (pre ++ [(.write b, now, noFaults)])) =
          front ++ [last, b]) := by
  have hra : FV.FlwA.RotA cfg.rot := by
    intro r' h
    rw [hrot] at h
    cases h
    exact ⟨hcl, hnm⟩
  obtain ⟨⟨t, hi⟩, -⟩ := FV.FlwA.multi_run_refines cfg hra pre (multiRunA_prefix hm)
  obtain ⟨⟨t', hi'⟩, -⟩ := FV.FlwA.multi_run_refines cfg hra _ hm
  have hv := MInv_files hi
  have hv' := MInv_files hi'
  rw [MAbs_run_snoc] at hv'
  have hsz : (FV.FlwA.MAbs.run cfg.rot ⟨Abs.init, false, cfg.append⟩ pre).abs.size =
      (FV.FlwA.MAbs.run cfg.rot ⟨Abs.init, false, cfg.append⟩ pre).abs.cur.length := by
    rw [hrot]
    exact MAbs_run_size r pre _ rfl
  rw [hv, hv']
  generalize FV.FlwA.MAbs.run cfg.rot ⟨Abs.init, false, cfg.append⟩ pre = m at hi hsz hv hv' ⊢
  obtain ⟨-, happ, hcase⟩ := hi
  rw [hrot]
  simp only [FV.FlwA.MAbs.step]
  constructor
  · intro hnil
    have hst : m.abs.started = false := by
      cases h : m.abs.started with
      | false => rfl
      | true => simp [Abs.files, h] at hnil
    rcases hcase with ⟨-, act, -, hI, -, -⟩ | ⟨hl, -, hg⟩
    · rw [hI.started] at hst
      cases hst
    · rcases hg with ⟨-, ha⟩ | ⟨g, -, hI, -, -⟩
      · rw [hl, ha]
        simp only [Bool.false_eq_true, if_false]
        rw [FV.FlwA.reinit_first _ _ _ _ rfl, Abs.step_write_some, absNecessary_size r N hN]
        simp [Abs.files, Abs.start, Abs.init]
      · rw [hI.started] at hst
        cases hst
  · intro front last hfl
    have hst : m.abs.started = true := by
      cases h : m.abs.started with
      | true => rfl
      | false =>
        simp only [Abs.files, h, Bool.false_eq_true, if_false] at hfl
        have := congrArg List.length hfl
        simp at this
    simp only [Abs.files, hst, if_true] at hfl
    obtain ⟨hfront, hlast⟩ := List.append_inj' hfl rfl
    simp only [List.cons.injEq, and_true] at hlast
    subst hfront hlast
    constructor
    · intro hor
      have hfiles : (Abs.step (some r)
          (if m.live = true then m.abs else FV.FlwA.reinit (some r) m.append m.abs now)
          (.write b) now).files =
          if m.abs.cur.length > N then m.abs.closed ++ [m.abs.cur, b]
          else m.abs.closed ++ [m.abs.cur ++ b] := by
        rcases hcase with ⟨hl, -⟩ | ⟨hl, hnone, -⟩
        · rw [hl]
          simp only [if_true]
          exact abs_write_files r N hN m.abs hst hsz b now
        · have ha : m.append = true := by
            rcases hor with h | h
            · rw [hnone] at h
              cases h
            · rw [← happ]
              exact h
          rw [hl, ha]
          simp only [Bool.false_eq_true, if_false]
          rw [FV.FlwA.reinit_append _ _ _ hst]
          exact abs_write_files r N hN { m.abs with size := m.abs.cur.length } hst rfl b now
      rw [hfiles]
      exact ⟨fun h => by rw [if_pos h], fun h => by rw [if_neg h]⟩
    · intro hnone ha
      rcases hcase with ⟨-, act, hact, -⟩ | ⟨hl, -, -⟩
      · rw [hnone] at hact
        cases hact
      · have ha' : m.append = false := by
          rw [← happ]
          exact ha
        rw [hl, ha']
        simp only [Bool.false_eq_true, if_false]
        rw [FV.FlwA.restart_noappend_shape r m.abs b now hst]
        simp [Abs.files]

/-! ### non-vacuity, and the scenario "append onto a file that already exceeds the limit" -/

/-- size criterion of 5 bytes -/
def exRot (nm : Naming) : RotCfg := ⟨some 5, none, nm, none⟩
def exCfg (nm : Naming) (app : Bool) (cap : Option Nat) : Cfg :=
  { rot := some (exRot nm), append := app, cap := cap, symlink := false }

/-- run 1 leaves a current file of 7 bytes (3 ≤ 5, so the second record was appended);
    run 2 APPENDS (buffer of 4): its first write finds 7 > 5 bytes and rotates first;
    run 3 does NOT append: counter 0, the file found is closed, `[9]` starts a new file;
    run 4 appends again: 1 ≤ 5, so `[10, 11]` is appended to the file of run 3. -/
def exOps (nm : Naming) : List (Op × Nat × Faults) :=
  [(.write [1, 2, 3], 10, noFaults), (.write [4, 5, 6, 7], 11, noFaults), (.flush, 0, noFaults),
   (.restart (exCfg nm true (some 4)), 0, noFaults), (.write [8], 12, noFaults),
   (.shutdown, 0, noFaults),
   (.restart (exCfg nm false none), 0, noFaults), (.write [9], 13, noFaults),
   (.flush, 0, noFaults),
   (.restart (exCfg nm true (some 4)), 0, noFaults), (.write [10, 11], 14, noFaults)]

theorem exOps_runs (nm : Naming) : Runs (some (exRot nm)) (exOps nm) := by
  intro o ho
  simp only [exOps, List.mem_cons, List.not_mem_nil, or_false] at ho
  rcases ho with rfl | rfl | rfl | rfl | rfl | rfl | rfl | rfl | rfl | rfl | rfl
  all_goals first
    | exact ⟨Or.inl rfl, rfl⟩
    | exact ⟨Or.inr ⟨_, rfl, rfl⟩, rfl⟩

theorem exOps_multiRunA (nm : Naming) : FV.FlwA.MultiRun (some (exRot nm)) (exOps nm) :=
  ⟨exOps_runs nm, by unfold Monotone exOps; simp [Op.usesClock],
    by simp [exOps, FV.FlwA.FlushedBeforeRestart, FV.FlwA.isRestart, FV.FlwA.endsRun]⟩

theorem exOps_multiRunB (nm : Naming) : FV.FlwB.MultiRun (some (exRot nm)) (exOps nm) :=
  ⟨exOps_runs nm, by unfold Monotone exOps; simp [Op.usesClock],
    by unfold FV.FlwB.FlushedBeforeRestart; rfl⟩

theorem exOps_hist (nm : Naming) : Hist (exRot nm) (exOps nm) :=
  Hist.of_multiRunB (exOps_multiRunB nm)

/-- the hypotheses of the theorems hold for this history, for every naming; every prefix is a
    history as well -/
theorem exOps_hist_take (nm : Naming) (n : Nat) : Hist (exRot nm) ((exOps nm).take n) := by
  have h := exOps_hist nm
  rw [← List.take_append_drop n (exOps nm)] at h
  exact h.prefix

/-- the theorems instantiated: `size_rule_multi_run` / `restart_counter` at the first write of
    the appending run 2 (`take 4` is the history up to and including the restart), of the
    non-appending run 3 and of the appending run 4; `size_rule_files` and the variants for
    `FV.FlwA.MultiRun` / `FV.FlwB.MultiRun` -/
example := size_rule_multi_run (exCfg .numbers false (some 4)) (exRot .numbers) 5 rfl ⟨rfl, rfl⟩ rfl
  ((exOps .numbers).take 4) [8] 12 (exOps_hist_take .numbers 5)
example := size_rule_multi_run (exCfg .timestampsDirect false (some 4)) (exRot .timestampsDirect) 5
  rfl ⟨rfl, rfl⟩ rfl ((exOps .timestampsDirect).take 7) [9] 13 (exOps_hist_take .timestampsDirect 8)
example := restart_counter (exCfg .numbersDirect false (some 4)) (exRot .numbersDirect) rfl rfl
  ((exOps .numbersDirect).take 10) [10, 11] 14 (exOps_hist_take .numbersDirect 11) (by decide)
example := size_rule_files (exCfg .timestamps false (some 4)) (exRot .timestamps) 5 rfl ⟨rfl, rfl⟩
  rfl (Or.inr rfl) ((exOps .timestamps).take 4) [8] 12
  (multiRunA_prefix (b := (exOps .timestamps).drop 5) (exOps_multiRunA .timestamps))
example := size_is_file_length_rcurrent (exCfg .numbers false (some 4)) (exRot .numbers) rfl rfl
  (Or.inl rfl) _ (exOps_multiRunA .numbers)
example := size_accounting_multi_run (exCfg .timestamps false (some 4)) (exRot .timestamps) rfl rfl
  (Or.inr rfl) _ (exOps_multiRunA .timestamps)
example := size_is_file_length_direct (exCfg .timestampsDirect false (some 4))
  ⟨fun r h => by cases h; rfl, _, rfl, Or.inr rfl⟩ _ (exOps_multiRunB .timestampsDirect)

example : FV.FlwB.CfgMB (exCfg .timestampsDirect false (some 4)) :=
  ⟨fun r h => by cases h; rfl, _, rfl, Or.inr rfl⟩

/-- `size_is_file_length` on the example, after the first write of the appending run 2 (which
    rotated: the counter is 1 = 0 bytes in the file + 1 byte in the buffer) and at the end
    (3 = 1 byte in the file + 2 in the buffer), for an rCURRENT and a direct naming -/
example : (runOps (init (exCfg .numbers false (some 4)) []) ((exOps .numbers).take 5)).act.map
      (fun a => (a.size, fileLen (runOps (init (exCfg .numbers false (some 4)) [])
        ((exOps .numbers).take 5)).dir a.handle, a.pending)) = some (1, 0, [8]) ∧
    (runOps (init (exCfg .numbers false (some 4)) []) (exOps .numbers)).act.map
      (fun a => (a.size, fileLen (runOps (init (exCfg .numbers false (some 4)) [])
        (exOps .numbers)).dir a.handle, a.pending)) = some (3, 1, [10, 11]) := by decide

example : (runOps (init (exCfg .timestampsDirect false (some 4)) [])
      (exOps .timestampsDirect)).act.map
      (fun a => (a.size, fileLen (runOps (init (exCfg .timestampsDirect false (some 4)) [])
        (exOps .timestampsDirect)).dir a.handle, a.pending)) = some (3, 1, [10, 11]) := by decide

/-- `restart_counter` / `size_rule_multi_run` on the example: the appending run 2 is mounted on
    the file of 7 bytes with counter 7 > 5, so its first write rotates; the non-appending run 3
    starts at 0; the appending run 4 starts at 1 ≤ 5 and does not rotate -/
example : (mounted (runOps (init (exCfg .numbers false (some 4)) []) ((exOps .numbers).take 4))
      12).act.map (fun a => (a.size, a.pending, rotationNecessary (exRot .numbers) a 12)) =
      some (7, [], true) ∧
    (mounted (runOps (init (exCfg .numbers false (some 4)) []) ((exOps .numbers).take 7))
      13).act.map (fun a => (a.size, a.pending, rotationNecessary (exRot .numbers) a 13)) =
      some (0, [], false) ∧
    (mounted (runOps (init (exCfg .numbers false (some 4)) []) ((exOps .numbers).take 10))
      14).act.map (fun a => (a.size, a.pending, rotationNecessary (exRot .numbers) a 14)) =
      some (1, [], false) := by decide

/-- `size_rule_files` / `size_accounting_multi_run` on the example: the files a reader sees
    before and after the first write of each run -/
example :
    viewFiles (runOps (init (exCfg .numbers false (some 4)) []) ((exOps .numbers).take 4)) =
      [[1, 2, 3, 4, 5, 6, 7]] ∧
    viewFiles (runOps (init (exCfg .numbers false (some 4)) []) ((exOps .numbers).take 5)) =
      [[1, 2, 3, 4, 5, 6, 7], [8]] ∧
    viewFiles (runOps (init (exCfg .numbers false (some 4)) []) ((exOps .numbers).take 8)) =
      [[1, 2, 3, 4, 5, 6, 7], [8], [9]] ∧
    viewFiles (runOps (init (exCfg .numbers false (some 4)) []) (exOps .numbers)) =
      [[1, 2, 3, 4, 5, 6, 7], [8], [9, 10, 11]] := by decide

example : viewFiles (runOps (init (exCfg .timestamps false (some 4)) []) (exOps .timestamps)) =
    [[1, 2, 3, 4, 5, 6, 7], [8], [9, 10, 11]] ∧
    viewFiles (runOps (init (exCfg .numbersDirect false (some 4)) []) (exOps .numbersDirect)) =
    [[1, 2, 3, 4, 5, 6, 7], [8], [9, 10, 11]] := by decide

/-- the theorems applied to the example -/
example : ∀ a, (runOps (init (exCfg .numbersDirect false (some 4)) [])
      (exOps .numbersDirect)).act = some a →
    ∃ f, (runOps (init (exCfg .numbersDirect false (some 4)) [])
      (exOps .numbersDirect)).dir.get a.handle = some f ∧
      a.size = f.data.length + a.pending.length :=
  size_is_file_length _ _ rfl rfl _ (exOps_hist _)

/-! ### the non-rotating writer -/

/-- **The non-rotating writer is not covered, and the statement is false for it**: without a
    rotation configuration `initState` sets `current_size := 0` even when it appends to an
    existing file, so after an appending restart the counter is the number of bytes written by
    this run, not the length of the file. (The counter is never read then: there is no
    rotation.) -/
theorem plain_counter_is_not_file_length :
    ∃ (cfg : Cfg) (ops : List (Op × Nat × Faults)), cfg.rot = none ∧
      FV.FlwA.MultiRun cfg.rot ops ∧
      ∃ a f, (runOps (init cfg []) ops).act = some a ∧
        (runOps (init cfg []) ops).dir.get a.handle = some f ∧
        a.size ≠ f.data.length + a.pending.length := by
  refine ⟨⟨none, false, none, false, true⟩,
    [(.write [1, 2], 5, noFaults), (.shutdown, 0, noFaults),
     (.restart ⟨none, true, none, false, true⟩, 0, noFaults), (.write [3], 6, noFaults)],
    rfl, ⟨?_, by unfold Monotone; decide, by simp [FV.FlwA.FlushedBeforeRestart,
      FV.FlwA.isRestart, FV.FlwA.endsRun]⟩,
    ⟨⟨none, false⟩, ⟨none, false⟩, [], false, 0, 0, 1, 0⟩, ⟨[1, 2, 3], 5⟩, by decide, by decide,
    by decide⟩
  intro o ho
  simp only [List.mem_cons, List.not_mem_nil, or_false] at ho
  rcases ho with rfl | rfl | rfl | rfl
  all_goals first
    | exact ⟨Or.inl rfl, rfl⟩
    | exact ⟨Or.inr ⟨_, rfl, rfl⟩, rfl⟩

end FV.C08Restart
