import FlexiVerif.Lemmas.Conc
/-
  C03 — Concurrent logging: whole lines, no loss, no duplicate, per-thread order; the buffer pool
  never leaks old bytes; shutdown drains the channel.

  All statements are about the model `FV.Conc` (see the header of `Model/Conc.lean` for the modelled
  code and the abstractions).  They hold for every number of threads, every number of lines, every
  schedule (`List Act`, disabled actions stutter), both modes, every pool / message capacity
  including 0.  The only hypothesis on the configuration is `cfg.clear = true` (the code does clear
  its buffers); `unclear_pool_violation_witness` shows that this hypothesis is necessary.
-/
namespace FV.C03
open FV FV.Conc

/-- sequence number of the formatted, not yet handed over line of a thread (if any) -/
def pendSeqs (th : Th) : List Nat := if th.pend then [th.sent] else []

/-! ## 1. Invariant of all reachable states -/

/-- **Invariant.** For every program, every schedule, both modes, every capacity:
  (a) the stream is the concatenation of whole logged lines;
  (b) every emitted entry `(t, k, bytes)` carries exactly the `k`-th line of thread `t`;
  (c) per thread: the sequence numbers in the emission log, then in the channel, then of the
      private buffer are exactly `0, 1, …, pc_t - 1` — no loss, no duplicate, per-thread order;
  (d) every pooled buffer is empty (and the pool respects its capacity);
  (e) sync mode: a thread that holds no formatted line has an empty thread-local buffer;
  (f) additionally: payloads in the channel and in private buffers are the right lines. -/
theorem invariant (m : Mode) (cfg : Cfg) (prog : List (List (List Nat))) (hc : cfg.clear = true)
    (sched : List Act) :
    -- (a)
    (run m cfg prog sched).out = ((run m cfg prog sched).outLines.map (·.2.2)).flatten ∧
    -- (b)
    (∀ e ∈ (run m cfg prog sched).outLines, lineAt prog e.1 e.2.1 = some e.2.2) ∧
    -- (c)
    (∀ (t : Nat) (th : Th), (run m cfg prog sched).ths[t]? = some th →
      outSeqs t (run m cfg prog sched).outLines ++ chanSeqs t (run m cfg prog sched).chan
        ++ pendSeqs th = List.range th.pc ∧ th.pc ≤ (prog.getD t []).length) ∧
    -- (d)
    ((∀ b ∈ (run m cfg prog sched).pool, b = []) ∧
      (run m cfg prog sched).pool.length ≤ cfg.poolCapa) ∧
    -- (e)
    (m = .sync → ∀ (t : Nat) (th : Th), (run m cfg prog sched).ths[t]? = some th →
      th.pend = false → th.buf = []) ∧
    -- (f)
    ((∀ t k b, Msg.data t k b ∈ (run m cfg prog sched).chan → lineAt prog t k = some b) ∧
     (∀ (t : Nat) (th : Th), (run m cfg prog sched).ths[t]? = some th → th.priv.isSome →
        lineAt prog t th.sent = th.priv) ∧
     (run m cfg prog sched).ths.length = prog.length) := by
  have h := inv_run (m := m) prog hc sched
  refine ⟨h.out_eq, h.lines_ok, ?_, ⟨h.pool_empty, h.pool_bound⟩, h.tl_empty,
    h.chan_ok, ?_, h.len⟩
  · intro t th hth
    have := h.seqs t th hth
    rw [this]
    have hle := h.sent_le t th hth
    unfold pendSeqs Th.pc
    cases hp : th.pend
    · exact ⟨by simp, by simpa using hle⟩
    · have := lineAt_bound (h.pend_ok t th hth hp)
      exact ⟨by simp [List.range_succ], by simp only [if_true]; omega⟩
  · intro t th hth hp
    unfold Th.priv at hp ⊢
    cases hpe : th.pend
    · simp [hpe] at hp
    · simpa [hpe] using h.pend_ok t th hth hpe

/-- (b) spelled out with list indexing: the payload is literally `prog[t][k]` -/
theorem invariant_payload (m : Mode) (cfg : Cfg) (prog : List (List (List Nat)))
    (hc : cfg.clear = true) (sched : List Act) :
    ∀ e ∈ (run m cfg prog sched).outLines,
      ∃ (h1 : e.1 < prog.length) (h2 : e.2.1 < prog[e.1].length), prog[e.1][e.2.1] = e.2.2 :=
  fun e he => lineAt_eq_some_iff.mp ((invariant m cfg prog hc sched).2.1 e he)

/-! ## 2. All complete schedules -/

/-- what every complete schedule of mode `m` guarantees -/
def AllSchedules (m : Mode) : Prop :=
  ∀ (cfg : Cfg) (prog : List (List (List Nat))) (sched : List Act),
    cfg.clear = true → Complete prog (run m cfg prog sched) →
    -- per thread: its lines, exactly once, in its order
    (∀ t : Nat, ((run m cfg prog sched).outLines.filter (·.1 = t)).map (·.2.2) = prog.getD t []) ∧
    -- no line lost, none duplicated, none invented
    (run m cfg prog sched).outLines.length = (prog.map List.length).sum ∧
    ((run m cfg prog sched).outLines.map (·.2.2)).Perm prog.flatten ∧
    -- the bytes of the stream are the concatenation of these whole lines
    (run m cfg prog sched).out = ((run m cfg prog sched).outLines.map (·.2.2)).flatten

theorem all_schedules (m : Mode) : AllSchedules m := by
  intro cfg prog sched hc hcmp
  have h := inv_run (m := m) prog hc sched
  have hs := outSeqs_complete h hcmp
  have hp := bytes_perm h.lines_ok hs
  refine ⟨?_, ?_, hp, h.out_eq⟩
  · intro t
    have := bytes_of_thread h.lines_ok t (hs t)
    have e : (run m cfg prog sched).outLines.filter (·.1 = t)
        = (run m cfg prog sched).outLines.filter (fun e => e.1 == t) :=
      List.filter_congr (fun x _ => by by_cases hx : x.1 = t <;> simp [hx])
    rw [e]; exact this
  · have := hp.length_eq
    simpa [bytesOf, List.length_flatten] using this

/-- **C03 (sync mode).** -/
theorem all_schedules_sync : AllSchedules .sync := all_schedules .sync

/-- **C03 (async mode).** -/
theorem all_schedules_async : AllSchedules .async := all_schedules .async

/-- Completeness is reachable for every program, both modes, every configuration: the theorems
    above are not vacuous. -/
theorem complete_reachable (m : Mode) (cfg : Cfg) (prog : List (List (List Nat))) :
    ∃ sched, Complete prog (run m cfg prog sched) :=
  ⟨seqSched m prog, seqSched_complete m cfg prog⟩

/-- **Every run can be completed** (`drain` = all threads finish, then the writer empties the
    channel): after any schedule — in async mode provided the writer thread is alive and no
    `shutdown` is in the channel — the canonical completion reaches a complete state.  Hence
    `all_schedules_*` applies to the extension of every such run: nothing that was accepted at any
    point can get lost, be duplicated or be torn later. -/
theorem drain_completes (m : Mode) (cfg : Cfg) (prog : List (List (List Nat))) (hc : cfg.clear = true)
    (sched : List Act)
    (hw : m = .async → (run m cfg prog sched).writerAlive = true ∧
      Msg.shutdown ∉ (run m cfg prog sched).chan) :
    Complete prog (run m cfg prog (sched ++ drainSched m prog (run m cfg prog sched))) := by
  have := drain_complete hc (inv_run (m := m) prog hc sched) hw
  unfold drain at this
  unfold run at *
  rw [runFrom_append]
  exact this

/-- the order `(tid, seq)` in which a complete schedule emitted the lines is an accepted
    observation (this is what the driver's `OBS` checks on real runs) -/
theorem complete_obs_ok (m : Mode) (cfg : Cfg) (prog : List (List (List Nat))) (sched : List Act)
    (hc : cfg.clear = true) (hcmp : Complete prog (run m cfg prog sched)) :
    ObsOk prog ((run m cfg prog sched).outLines.map (fun e => (e.1, e.2.1))) := by
  have h := inv_run (m := m) prog hc sched
  have hs := outSeqs_complete h hcmp
  refine ⟨?_, ?_⟩
  · intro e he
    obtain ⟨x, hx, rfl⟩ := List.mem_map.mp he
    exact (lineAt_lt (h.lines_ok x hx)).1
  · intro t _
    have := hs t
    unfold outSeqs at this
    rw [← this, List.filter_map, List.map_map]
    rfl

/-- **The accepted observations are exactly the emission orders of complete schedules** (both
    modes, every capacity): `OBS` of the driver answers `ok` iff the model can produce that order. -/
theorem obs_accept_iff (m : Mode) (cfg : Cfg) (prog : List (List (List Nat))) (hc : cfg.clear = true)
    (obs : List (Nat × Nat)) :
    ObsOk prog obs ↔ ∃ sched, Complete prog (run m cfg prog sched) ∧
      (run m cfg prog sched).outLines.map (fun e => (e.1, e.2.1)) = obs := by
  constructor
  · intro h
    exact ⟨obsSched m obs, obs_realizable m cfg prog obs h⟩
  · rintro ⟨sched, hcmp, rfl⟩
    exact complete_obs_ok m cfg prog sched hc hcmp

/-- the driver's `OBS` command (`checkObs`, which also produces the reject reason) answers `ok`
    exactly for the emission orders of complete schedules of the model -/
theorem obs_checker_correct (m : Mode) (cfg : Cfg) (prog : List (List (List Nat)))
    (hc : cfg.clear = true) (obs : List (Nat × Nat)) :
    checkObs prog obs = none ↔ ∃ sched, Complete prog (run m cfg prog sched) ∧
      (run m cfg prog sched).outLines.map (fun e => (e.1, e.2.1)) = obs :=
  (checkObs_none_iff prog obs).trans (obs_accept_iff m cfg prog hc obs)

/-! ## 3. The clear is what the pool invariant rests on -/

def wCfg : Cfg := { poolCapa := 1, msgCapa := 16, clear := false }
def wProg : List (List (List Nat)) := [[[65, 10], [66, 10]]]
def wSched : List Act := [.fmt 0, .send 0, .recv, .fmt 0, .send 0, .recv]

/-- Without `message.clear()` before `pool.push` (hypothetical variant `clear := false`): one
    thread, two lines `A\n`, `B\n`, pool capacity 1.  The schedule is complete, but the stream is
    `A\nA\nB\n`: the recycled buffer leaked the first line into the second message. -/
theorem unclear_pool_violation_witness :
    Complete wProg (run .async wCfg wProg wSched) ∧
    (run .async wCfg wProg wSched).out = [65, 10, 65, 10, 66, 10] ∧
    (run .async wCfg wProg wSched).out ≠ wProg.flatten.flatten ∧
    ¬ (∀ e ∈ (run .async wCfg wProg wSched).outLines, lineAt wProg e.1 e.2.1 = some e.2.2) ∧
    (run .async { wCfg with clear := true } wProg wSched).out = wProg.flatten.flatten := by
  decide

/-- the same for the sync path: without `buffer.clear()` the thread-local buffer leaks -/
theorem unclear_tl_violation_witness :
    Complete wProg (run .sync wCfg wProg [.fmt 0, .emit 0, .fmt 0, .emit 0]) ∧
    (run .sync wCfg wProg [.fmt 0, .emit 0, .fmt 0, .emit 0]).out ≠ wProg.flatten.flatten := by
  decide

/-- with pool capacity 0 (nothing is ever recycled) even the unclear variant is harmless:
    the leak needs the pool -/
example : (run .async { wCfg with poolCapa := 0 } wProg wSched).out = wProg.flatten.flatten := by
  decide

/-! ## 4. Shutdown drains the channel -/

/-- **Shutdown drains.**  Async mode, any state in which the writer thread is alive and the
    channel is `pre ++ shutdown :: post` (`pre` = everything enqueued before the first `shutdown`).
    For EVERY continuation (the writer's `recv`s interleaved with arbitrary other actions) after
    which the writer thread has terminated (`join` returned): exactly the data messages of `pre`
    have been appended, in FIFO order, to the emission log and to the stream — nothing accepted
    before the `shutdown` is left behind (and nothing enqueued after it is written). -/
theorem shutdown_drains (cfg : Cfg) (prog : List (List (List Nat))) (s : St)
    (pre post : List Msg) (sched : List Act)
    (hal : s.writerAlive = true) (hch : s.chan = pre ++ Msg.shutdown :: post)
    (hpre : Msg.shutdown ∉ pre)
    (hfin : (runFrom .async cfg prog s sched).writerAlive = false) :
    (runFrom .async cfg prog s sched).outLines = s.outLines ++ chanEntries pre ∧
    (runFrom .async cfg prog s sched).out = s.out ++ (bytesOf (chanEntries pre)).flatten :=
  shutdown_drains_aux cfg prog sched s pre post hal hch hpre hfin

/-- the hypothesis `hfin` is satisfiable: `pre.length + 1` steps of the writer thread suffice -/
theorem shutdown_recv_terminates (cfg : Cfg) (prog : List (List (List Nat))) (s : St)
    (pre post : List Msg)
    (hal : s.writerAlive = true) (hch : s.chan = pre ++ Msg.shutdown :: post)
    (hpre : Msg.shutdown ∉ pre) :
    (runFrom .async cfg prog s (List.replicate (pre.length + 1) Act.recv)).writerAlive = false ∧
    (runFrom .async cfg prog s (List.replicate (pre.length + 1) Act.recv)).chan = post :=
  recv_until_dead cfg prog pre s post hal hch hpre

/-- **Nothing is left behind at join.**  Async mode: after any schedule `sched₁` after which all
    threads have handed over all their lines (the channel may still be full), `shutdown()` is
    called, and then anything happens (`sched₂`) until the writer thread has terminated: the
    stream contains every line of every thread exactly once, per-thread order preserved. -/
theorem shutdown_join_complete (cfg : Cfg) (prog : List (List (List Nat))) (hc : cfg.clear = true)
    (sched₁ sched₂ : List Act)
    (hal : (run .async cfg prog sched₁).writerAlive = true)
    (hns : Msg.shutdown ∉ (run .async cfg prog sched₁).chan)
    (hdone : ∀ t (h : t < (run .async cfg prog sched₁).ths.length),
      (run .async cfg prog sched₁).ths[t].pend = false ∧
      (run .async cfg prog sched₁).ths[t].sent = (prog.getD t []).length)
    (hfin : (run .async cfg prog (sched₁ ++ Act.shutdownTick :: sched₂)).writerAlive = false) :
    (∀ t : Nat, ((run .async cfg prog (sched₁ ++ Act.shutdownTick :: sched₂)).outLines.filter
        (·.1 = t)).map (·.2.2) = prog.getD t []) ∧
    ((run .async cfg prog (sched₁ ++ Act.shutdownTick :: sched₂)).outLines.map (·.2.2)).Perm
        prog.flatten ∧
    (run .async cfg prog (sched₁ ++ Act.shutdownTick :: sched₂)).out =
      ((run .async cfg prog (sched₁ ++ Act.shutdownTick :: sched₂)).outLines.map (·.2.2)).flatten := by
  have hI := inv_run (m := .async) prog hc sched₁
  have hF := inv_run (m := .async) prog hc (sched₁ ++ Act.shutdownTick :: sched₂)
  have hrun : run .async cfg prog (sched₁ ++ Act.shutdownTick :: sched₂)
      = runFrom .async cfg prog (step .async cfg prog (run .async cfg prog sched₁) .shutdownTick)
          sched₂ := by
    unfold run; rw [runFrom_append]; rfl
  rw [hrun] at hfin hF ⊢
  generalize run .async cfg prog sched₁ = s at *
  obtain ⟨d1, _⟩ := shutdown_drains cfg prog (step .async cfg prog s .shutdownTick) s.chan []
    sched₂ hal rfl hns hfin
  have hs : ∀ t, outSeqs t (runFrom .async cfg prog (step .async cfg prog s .shutdownTick)
      sched₂).outLines = List.range (prog.getD t []).length := by
    intro t
    by_cases ht : t < prog.length
    · have ht' : t < s.ths.length := by rw [hI.len]; exact ht
      have h1 := hI.seqs t s.ths[t] (by simp [ht'])
      rw [(hdone t ht').2] at h1
      rw [d1, outSeqs_append, outSeqs_chanEntries]
      exact h1
    · exact outSeqs_foreign hF.lines_ok ht
  refine ⟨?_, bytes_perm hF.lines_ok hs, hF.out_eq⟩
  intro t
  have := bytes_of_thread hF.lines_ok t (hs t)
  rw [← this]
  congr 1

/-! ## Non-vacuity: three threads, an interleaved complete schedule -/

def exProg : List (List (List Nat)) := [[[97, 10], [98, 10]], [[99, 10]], [[100, 10], [101, 10], [102, 10]]]

def exSync : List Act :=
  [.fmt 0, .fmt 2, .fmt 1, .emit 2, .flushTick, .emit 0, .fmt 2, .cleanupTick, .fmt 0, .emit 1,
   .emit 1, .emit 2, .fmt 2, .emit 0, .emit 2, .recv]

def exAsync : List Act :=
  [.fmt 0, .fmt 2, .fmt 1, .send 2, .flushTick, .send 0, .recv, .fmt 2, .cleanupTick, .fmt 0,
   .send 1, .recv, .recv, .send 2, .fmt 2, .send 0, .recv, .recv, .send 2, .recv, .recv, .recv]

example : Complete exProg (run .sync ⟨2, 8, true⟩ exProg exSync) ∧
    (run .sync ⟨2, 8, true⟩ exProg exSync).out = [100, 10, 97, 10, 99, 10, 101, 10, 98, 10, 102, 10] ∧
    (run .sync ⟨2, 8, true⟩ exProg exSync).outLines.map (fun e => (e.1, e.2.1))
      = [(2, 0), (0, 0), (1, 0), (2, 1), (0, 1), (2, 2)] := by decide

example : Complete exProg (run .async ⟨2, 8, true⟩ exProg exAsync) ∧
    (run .async ⟨2, 8, true⟩ exProg exAsync).out = [100, 10, 97, 10, 99, 10, 101, 10, 98, 10, 102, 10] ∧
    (run .async ⟨2, 8, true⟩ exProg exAsync).pool = [[], []] := by decide

/-- capacities 0: nothing is pooled, everything still arrives -/
example : Complete exProg (run .async ⟨0, 0, true⟩ exProg exAsync) ∧
    (run .async ⟨0, 0, true⟩ exProg exAsync).out = [100, 10, 97, 10, 99, 10, 101, 10, 98, 10, 102, 10] ∧
    (run .async ⟨0, 0, true⟩ exProg exAsync).pool = [] := by decide

/-- an incomplete schedule (a message is still in the channel) is not complete -/
example : ¬ Complete exProg (run .async ⟨2, 8, true⟩ exProg (exAsync.take 18)) := by decide

/-- shutdown: the lines sent before `shutdown()` arrive, the line sent after it does not -/
example :
    (run .async ⟨2, 8, true⟩ exProg
      [.fmt 0, .send 0, .fmt 1, .send 1, .shutdownTick, .fmt 2, .send 2, .recv, .recv, .recv, .recv, .recv]).out
      = [97, 10, 99, 10] ∧
    (run .async ⟨2, 8, true⟩ exProg
      [.fmt 0, .send 0, .fmt 1, .send 1, .shutdownTick, .fmt 2, .send 2, .recv, .recv, .recv, .recv, .recv]).writerAlive
      = false := by decide

/-- `drain` completes an interrupted run (messages in the channel, private buffers pending) -/
example : ¬ Complete exProg (run .async ⟨2, 8, true⟩ exProg (exAsync.take 11)) ∧
    Complete exProg (drain .async ⟨2, 8, true⟩ exProg (run .async ⟨2, 8, true⟩ exProg (exAsync.take 11))) ∧
    Complete exProg (drain .sync ⟨2, 8, true⟩ exProg (run .sync ⟨2, 8, true⟩ exProg (exSync.take 7))) := by
  decide

example : ObsOk exProg [(2, 0), (0, 0), (1, 0), (2, 1), (0, 1), (2, 2)] := by decide
example : checkObs exProg [(2, 0), (0, 0), (1, 0), (2, 1), (0, 1), (2, 2)] = none := by decide
example : checkObs exProg [(2, 0), (0, 1), (1, 0), (2, 1), (0, 0), (2, 2)]
    = some "order thread=0 expected=0 got=1" := by decide
example : ¬ ObsOk exProg [(2, 0), (0, 1), (1, 0), (2, 1), (0, 0), (2, 2)] := by decide

end FV.C03
