import FlexiVerif.Lemmas.FlwRules
import FlexiVerif.Lemmas.FlwRefine
import FlexiVerif.Model.WMode
import FlexiVerif.Props.C15
/-
  C15 / C04 — the write modes WITH a flusher (`BufferAndFlush`, `BufferAndFlushWith(cap, interval)`,
  `Async`, `AsyncWith{.., flush_interval}`) and the public variants with default capacities.

  (1) `WriteMode` normalisation (src/write_mode.rs, `Model/WMode`): what `Logger::write_mode`
      hands to the file writer (`without_flushing`) has the same buffer size and the same
      synchronous/asynchronous character as the mode the user chose, and never starts a second
      flusher; a flusher exists iff the chosen mode has a non-zero interval.
  (2) A flusher thread is, for the file writer, a `flush` at an arbitrary instant between two
      operations (it takes the state mutex, so never inside one). `flusher_ticks_irrelevant`:
      two plain histories that differ ONLY in where (and how many) flushes fall produce the same
      files — so the schedule of the flusher thread does not influence the contents, for every
      capacity, naming scheme and criterion; together with `C15.mode_independent` the files of a
      buffered-and-periodically-flushed run are those of the direct run.
-/
namespace FV.C15Flusher
open FV FV.Flw FV.WMode

/-! ### (1) the normalisation of `WriteMode` -/

theorem withoutFlushing_buffersize (m : WMode) : m.withoutFlushing.buffersize = m.buffersize := by
  cases m <;> rfl

theorem withoutFlushing_isAsync (m : WMode) : m.withoutFlushing.isAsync = m.isAsync := by
  cases m <;> rfl

/-- the file writer of a `Logger` never starts a flusher of its own … -/
theorem withoutFlushing_no_flusher (m : WMode) : m.withoutFlushing.startsFlusher = false := by
  cases m <;> rfl

/-- … the logger's flusher thread runs iff the chosen mode has an interval: exactly one flusher
    with an interval, none without — whether the mode is given to a `FileLogWriter` directly
    (first component) or to a `Logger` (second: writer's own flusher, third: the logger's) -/
theorem one_flusher (m : WMode) :
    (m.startsFlusher = decide (m.flushInterval ≠ 0)) ∧
    (m.loggerSplit.1.startsFlusher = false) ∧
    (decide (m.loggerSplit.2 ≠ 0) = decide (m.flushInterval ≠ 0)) := by
  refine ⟨?_, withoutFlushing_no_flusher m, rfl⟩
  unfold WMode.startsFlusher
  cases h : m.flushInterval <;> simp

theorem withoutFlushing_idem (m : WMode) : m.withoutFlushing.withoutFlushing = m.withoutFlushing := by
  cases m <;> rfl

/-- the effective mode of what the file writer gets differs from the chosen one at most in the
    flushing: same capacity, same pool and message sizes -/
theorem effective_withoutFlushing (m : WMode) :
    m.withoutFlushing.effective =
      (match m.effective with
       | .direct => .direct
       | .bufferAndFlushWith c => .bufferDontFlushWith c
       | .bufferDontFlushWith c => .bufferDontFlushWith c
       | .asyncWith p g _ => .asyncWith p g 0) := by
  cases m <;> rfl

/-- unbuffered file output exactly for the direct, the capture and the asynchronous modes -/
theorem buffersize_none_iff (m : WMode) :
    m.buffersize = none ↔ (m = .direct ∨ m = .supportCapture ∨ m.isAsync = true) := by
  cases m <;> simp [WMode.buffersize, WMode.effective, WMode.isAsync]

example : WMode.bufferAndFlush.buffersize = some 8192 ∧ WMode.bufferAndFlush.flushInterval = 1000 ∧
    WMode.bufferAndFlush.loggerSplit = (.bufferDontFlush, 1000) ∧
    WMode.async.loggerSplit = (.asyncWith 50 200 0, 1000) := by decide

/-! ### (2) the schedule of the flusher does not influence the files -/

def isFlush (o : Op × Nat × Faults) : Bool := decide (o.1 = .flush)

/-- the history without its flushes — explicit `flush()` calls and flusher ticks alike -/
def dropFlush (ops : List (Op × Nat × Faults)) : List (Op × Nat × Faults) :=
  ops.filter (fun o => !isFlush o)

theorem abs_run_dropFlush (rot : Option RotCfg) (a : Abs) (ops : List (Op × Nat × Faults)) :
    Abs.run rot a (dropFlush ops) = Abs.run rot a ops := by
  induction ops generalizing a with
  | nil => rfl
  | cons o os ih =>
    unfold dropFlush
    rw [List.filter_cons]
    by_cases h : isFlush o = true
    · have ho : o.1 = .flush := by simpa [isFlush] using h
      simp only [h, Bool.not_true, Bool.false_eq_true, if_false]
      have : Abs.step rot a o.1 o.2.1 = a := by rw [ho]; rfl
      show Abs.run rot a (dropFlush os) = Abs.run rot a (o :: os)
      rw [ih a]
      show _ = Abs.run rot (Abs.step rot a o.1 o.2.1) os
      rw [this]
    · simp only [h, Bool.not_false, if_true]
      show Abs.run rot (Abs.step rot a o.1 o.2.1) (dropFlush os) = Abs.run rot (Abs.step rot a o.1 o.2.1) os
      exact ih _

theorem usesClock_dropFlush (ops : List (Op × Nat × Faults)) :
    (dropFlush ops).filter (·.1.usesClock) = ops.filter (·.1.usesClock) := by
  unfold dropFlush
  rw [List.filter_filter]
  apply List.filter_congr
  intro o _
  by_cases h : isFlush o = true
  · have ho : o.1 = .flush := by simpa [isFlush] using h
    simp [h, ho, Op.usesClock]
  · simp [h]

/-- removing the flushes from a plain history leaves a plain history (the clock readings of
    writes and rotations are untouched) -/
theorem plain_dropFlush (ops : List (Op × Nat × Faults)) (hp : PlainHistory ops) :
    PlainHistory (dropFlush ops) := by
  refine ⟨fun o ho => hp.1 o (List.mem_filter.mp ho).1, ?_⟩
  unfold Monotone
  rw [usesClock_dropFlush]
  exact hp.2

/-- **The flusher's schedule is irrelevant.** Two plain histories with the same writes, forced
    rotations and shutdowns — flushes anywhere, any number of them — leave the same files
    (what is still buffered counted to the last file). -/
theorem flusher_ticks_irrelevant (cfg : Cfg) (ha : cfg.append = false) (hn : NoCleanup cfg)
    (ops ops' : List (Op × Nat × Faults)) (hp : PlainHistory ops) (hp' : PlainHistory ops')
    (h : dropFlush ops = dropFlush ops') :
    viewFiles (runOps (init cfg []) ops) = viewFiles (runOps (init cfg []) ops') := by
  have r1 := (refines_all cfg ha hn ops hp).1
  have r2 := (refines_all cfg ha hn ops' hp').1
  rw [r1, r2, ← abs_run_dropFlush cfg.rot Abs.init ops, ← abs_run_dropFlush cfg.rot Abs.init ops', h]

/-- … and across modes: a buffered run with flushes anywhere against ANY other capacity (e.g. the
    direct mode) without them -/
theorem flusher_ticks_irrelevant_across_modes (cfg cfg' : Cfg) (hrot : cfg'.rot = cfg.rot)
    (ha : cfg.append = false) (hn : NoCleanup cfg) (ha' : cfg'.append = false) (hn' : NoCleanup cfg')
    (ops ops' : List (Op × Nat × Faults)) (hp : PlainHistory ops) (hp' : PlainHistory ops')
    (h : dropFlush ops = dropFlush ops') :
    viewFiles (runOps (init cfg' []) ops') = viewFiles (runOps (init cfg []) ops) := by
  rw [flusher_ticks_irrelevant cfg ha hn ops ops' hp hp' h]
  exact C15.mode_independent cfg cfg' hrot ops' (refines_all cfg ha hn ops' hp') (refines_all cfg' ha' hn' ops' hp')

/-- **On disk after shutdown**: both histories end with a shutdown (or flush); then the
    directories hold the same partition and the same bytes. -/
theorem flusher_ticks_irrelevant_on_disk (cfg cfg' : Cfg) (hrot : cfg'.rot = cfg.rot)
    (ha : cfg.append = false) (hn : NoCleanup cfg) (ha' : cfg'.append = false) (hn' : NoCleanup cfg')
    (pre pre' : List (Op × Nat × Faults)) (op op' : Op) (now now' : Nat)
    (hop : op = .flush ∨ op = .shutdown) (hop' : op' = .flush ∨ op' = .shutdown)
    (hp : PlainHistory (pre ++ [(op, now, noFaults)])) (hp' : PlainHistory (pre' ++ [(op', now', noFaults)]))
    (h : dropFlush (pre ++ [(op, now, noFaults)]) = dropFlush (pre' ++ [(op', now', noFaults)])) :
    parts (runOps (init cfg' []) (pre' ++ [(op', now', noFaults)])).dir =
      parts (runOps (init cfg []) (pre ++ [(op, now, noFaults)])).dir ∧
    readAll (runOps (init cfg' []) (pre' ++ [(op', now', noFaults)])).dir =
      readAll (runOps (init cfg []) (pre ++ [(op, now, noFaults)])).dir := by
  have hpend : ∀ (c : Cfg) (p : List (Op × Nat × Faults)) (o : Op) (n : Nat),
      (o = .flush ∨ o = .shutdown) →
      ∀ a', (runOps (init c []) (p ++ [(o, n, noFaults)])).act = some a' → a'.pending = [] := by
    intro c p o n ho
    rw [runOps_concat]
    exact step_flush_pending _ o n noFaults ho
  have hv := flusher_ticks_irrelevant_across_modes cfg cfg' hrot ha hn ha' hn' _ _ hp hp' h
  rw [viewFiles_no_pending _ (hpend cfg' pre' op' now' hop'),
      viewFiles_no_pending _ (hpend cfg pre op now hop)] at hv
  refine ⟨hv, ?_⟩
  rw [← parts_flatten, ← parts_flatten, hv]

/-- the configuration a case runs with once its `MODE` line named the public mode `m`
    (the driver's `St.patch`) -/
def withMode (cfg : Cfg) (m : WMode) : Cfg := { cfg with cap := m.buffersize }

/-- **Every public write mode leaves the same files.** For any two public `WriteMode` variants —
    defaults or explicit capacities, with or without a flusher whose ticks fall anywhere — the files
    after the same writes, forced rotations and shutdowns are the same. (For the asynchronous
    modes this is the statement about the writer thread, which works the channel off in order;
    `Conc.shutdown_drains` supplies the order.) -/
theorem public_modes_same_files (cfg : Cfg) (m m' : WMode) (ha : cfg.append = false) (hn : NoCleanup cfg)
    (ops ops' : List (Op × Nat × Faults)) (hp : PlainHistory ops) (hp' : PlainHistory ops')
    (h : dropFlush ops = dropFlush ops') :
    viewFiles (runOps (init (withMode cfg m') []) ops') = viewFiles (runOps (init (withMode cfg m) []) ops) :=
  flusher_ticks_irrelevant_across_modes (withMode cfg m) (withMode cfg m') rfl ha
    (fun r hr => hn r hr) ha (fun r hr => hn r hr) ops ops' hp hp' h

/-- the logger's split does not change the files either: what the `Logger` hands to its file
    writer (`without_flushing`) has the capacity of the mode the user chose -/
theorem logger_split_same_cfg (cfg : Cfg) (m : WMode) :
    withMode cfg m.loggerSplit.1 = withMode cfg m := by
  unfold withMode WMode.loggerSplit
  rw [withoutFlushing_buffersize]

/-! ### non-vacuity: a buffered run with two ticks against the direct run without them -/

def rot : RotCfg := ⟨some 3, none, .numbers, none⟩
def cfgDirect : Cfg := { rot := some rot, append := false, cap := none, symlink := false }
def cfgBuf : Cfg := { rot := some rot, append := false, cap := some 100, symlink := false }
def quiet : List (Op × Nat × Faults) :=
  [(.write [1, 2, 3, 4], 10, noFaults), (.write [5], 11, noFaults), (.write [6, 7], 12, noFaults), (.shutdown, 0, noFaults)]
def ticking : List (Op × Nat × Faults) :=
  [(.write [1, 2, 3, 4], 10, noFaults), (.flush, 0, noFaults), (.write [5], 11, noFaults), (.flush, 0, noFaults),
   (.flush, 0, noFaults), (.write [6, 7], 12, noFaults), (.shutdown, 0, noFaults)]

example : dropFlush ticking = dropFlush quiet := by decide
example : parts (runOps (init cfgBuf []) ticking).dir = [[1, 2, 3, 4], [5, 6, 7]] ∧
    parts (runOps (init cfgDirect []) quiet).dir = [[1, 2, 3, 4], [5, 6, 7]] := by decide

end FV.C15Flusher
