/-
  C07 — Cleanup keeps exactly the newest files, compresses losslessly, spares the current file.

  Setting: no append, rotation `r` with `r.cleanup = some (k, m)` (keep `k` plain and `m`
  compressed rotated files), start on an empty directory, plain histories (writes, forced
  rotations, flushes, shutdowns; no faults; monotone clock); every naming scheme, criterion,
  buffer capacity, suffix setting.
-/
import FlexiVerif.Lemmas.FlwAbs
import FlexiVerif.Lemmas.FlwCleanupInv
import FlexiVerif.Lemmas.FlwCleanupLossless
namespace FV.C07
open FV.Flw FV.FlwC
open FV.FlwA (ents isRot)
open FV.FlwB (nkey)

/-- the last `n` elements -/
def lastN {α : Type} (n : Nat) (l : List α) : List α := l.drop (l.length - n)

/-- the number of plain files of the listing that are kept (the code bumps `0` to `1` for the
    direct namings, where the current file is part of the listing) -/
def kk (r : RotCfg) (k : Nat) : Nat := if r.naming.writesDirect && k = 0 then 1 else k

/-- the number of files that survive, the current one included -/
def keep (r : RotCfg) (k m : Nat) : Nat := kk r k + m + (if r.naming.writesDirect then 0 else 1)

/-- the setting of C07 -/
structure Setting (cfg : Cfg) (r : RotCfg) (k m : Nat) : Prop where
  rot : cfg.rot = some r
  append : cfg.append = false
  cleanup : r.cleanup = some (k, m)

theorem Setting.cfgC {cfg : Cfg} {r : RotCfg} {k m : Nat} (h : Setting cfg r k m) :
    CfgC cfg r k m := ⟨h.rot, h.append, h.cleanup⟩

theorem kk_eq (r : RotCfg) (k : Nat) : kk r k = kkOf r k := rfl

/-! ### list facts -/

theorem lastN_nil {α : Type} (n : Nat) : lastN n ([] : List α) = [] := by simp [lastN]

theorem lastN_append_singleton {α : Type} (n : Nat) (l : List α) (x : α) :
    lastN (n + 1) (l ++ [x]) = lastN n l ++ [x] := by
  unfold lastN
  have : (l ++ [x]).length - (n + 1) = l.length - n := by simp
  rw [this, List.drop_append_of_le_length (by omega)]

theorem reverse_take_reverse {α : Type} (n : Nat) (l : List α) :
    (l.reverse.take n).reverse = lastN n l := by
  rw [List.take_reverse, List.reverse_reverse]
  rfl

theorem lastN_map {α β : Type} (g : α → β) (n : Nat) (l : List α) :
    lastN n (l.map g) = (lastN n l).map g := by
  simp [lastN, List.map_drop]

theorem take_append_lastN {α : Type} (n : Nat) (l : List α) :
    l.take (l.length - n) ++ lastN n l = l := List.take_append_drop _ _

theorem keep_eq {r : RotCfg} {k m : Nat} : keep r k m = kcOf r k + m + 1 := by
  unfold keep
  cases hw : r.naming.writesDirect with
  | true => rw [kk_eq, kkOf_direct hw]; simp; omega
  | false => rw [kk_eq, kkOf_indirect hw]; simp

/-! ### 1. exactly the newest survive -/

/-- what the invariant says about the view -/
theorem view_of_cinv {cfg : Cfg} {r : RotCfg} {k m : Nat} {s : St} {act : Active} {a : Abs}
    (hact : s.act = some act) (hi : CInv cfg r k m s.dir act a) :
    viewFiles s = lastN (keep r k m) a.files := by
  obtain ⟨f, C, hd, hcur⟩ := hi.dir
  have hparts := hd.parts_eq
  unfold viewFiles
  rw [hact]
  simp only [hparts, List.reverse_append, List.reverse_cons, List.reverse_nil, List.nil_append,
    List.singleton_append, List.reverse_reverse]
  rw [Abs.files, if_pos hi.started, keep_eq, lastN_append_singleton, hcur, List.map_reverse,
    hd.data, reverse_take_reverse]

/-- **C07.1 — exactly the newest survive.** After every plain history the files on disk, read
    oldest to newest (compressed ones decompressed, pending buffer included), are exactly the
    newest `kk + m (+ 1)` files of the log without cleanup. -/
theorem cleanup_keeps_newest (cfg : Cfg) (r : RotCfg) (k m : Nat) (hS : Setting cfg r k m)
    (ops : List (Op × Nat × Faults)) (hp : PlainHistory ops) :
    viewFiles (runOps (init cfg []) ops) =
      lastN (kk r k + m + (if r.naming.writesDirect then 0 else 1))
        (Abs.run cfg.rot Abs.init ops).files := by
  obtain ⟨t, hcfg, hi⟩ := inv_run hS.cfgC ops hp
  generalize runOps (init cfg []) ops = s at hcfg hi
  generalize Abs.run cfg.rot Abs.init ops = a at hi
  cases hact : s.act with
  | none =>
    rw [hact] at hi
    obtain ⟨hd, ha⟩ := hi
    subst ha
    unfold viewFiles
    rw [hact, hd]
    simp [Abs.files, Abs.init, lastN_nil]
    rfl
  | some act =>
    rw [hact] at hi
    exact view_of_cinv hact hi.1

/-! ### 2. the survivors are a contiguous tail of the stream, on record boundaries -/

/-- **C07.2 — record boundaries.** The surviving files are the last groups of a grouping of the
    records written (each record exactly once, in order, never split). -/
theorem cleanup_tail_groups (cfg : Cfg) (r : RotCfg) (k m : Nat) (hS : Setting cfg r k m)
    (ops : List (Op × Nat × Faults)) (hp : PlainHistory ops) :
    ∃ groups : List (List (List Nat)), groups.flatten = records ops ∧
      viewFiles (runOps (init cfg []) ops) =
        (lastN (kk r k + m + (if r.naming.writesDirect then 0 else 1)) groups).map List.flatten := by
  obtain ⟨groups, h1, h2⟩ := Abs.files_groups cfg.rot ops
  refine ⟨groups, h1, ?_⟩
  rw [cleanup_keeps_newest cfg r k m hS ops hp, h2, lastN_map]

/-- **C07.2 — contiguous tail.** What is on disk is a suffix of the stream of bytes written. -/
theorem cleanup_tail (cfg : Cfg) (r : RotCfg) (k m : Nat) (hS : Setting cfg r k m)
    (ops : List (Op × Nat × Faults)) (hp : PlainHistory ops) :
    ∃ pre, written ops = pre ++ (viewFiles (runOps (init cfg []) ops)).flatten := by
  rw [cleanup_keeps_newest cfg r k m hS ops hp, ← Abs.files_flatten cfg.rot ops]
  generalize (Abs.run cfg.rot Abs.init ops).files = fs
  refine ⟨(fs.take (fs.length - (kk r k + m + (if r.naming.writesDirect then 0 else 1)))).flatten, ?_⟩
  rw [← List.flatten_append, take_append_lastN]

/-! ### 5. the current file is spared -/

/-- **C07.5 — the current file is spared.** Whenever the writer is active, the file it writes
    to exists under its plain name: it is never removed or compressed by cleanup. (The theorem
    holds for every plain history, hence after every step of one.) -/
theorem current_spared (cfg : Cfg) (r : RotCfg) (k m : Nat) (hS : Setting cfg r k m)
    (ops : List (Op × Nat × Faults)) (hp : PlainHistory ops) (act : Active)
    (hact : (runOps (init cfg []) ops).act = some act) :
    (∃ f, (runOps (init cfg []) ops).dir.get act.handle = some f) ∧ act.handle.gz = false := by
  obtain ⟨t, hcfg, hi⟩ := inv_run hS.cfgC ops hp
  rw [hact] at hi
  obtain ⟨f, C, hd, -⟩ := hi.1.dir
  exact ⟨⟨f, hd.get_handle⟩, hd.handle.gz⟩

/-- prefixes of plain histories are plain histories -/
theorem plainHistory_take {ops : List (Op × Nat × Faults)} (hp : PlainHistory ops) (n : Nat) :
    PlainHistory (ops.take n) := by
  refine ⟨fun o ho => hp.1 o (List.mem_of_mem_take ho), ?_⟩
  have := hp.2
  unfold Monotone at this ⊢
  exact this.sublist (((List.take_sublist n ops).filter _).map _)

/-- … explicitly: after every step of a plain history -/
theorem current_spared_every_step (cfg : Cfg) (r : RotCfg) (k m : Nat) (hS : Setting cfg r k m)
    (ops : List (Op × Nat × Faults)) (hp : PlainHistory ops) (n : Nat) (act : Active)
    (hact : (runOps (init cfg []) (ops.take n)).act = some act) :
    (∃ f, (runOps (init cfg []) (ops.take n)).dir.get act.handle = some f) ∧
      act.handle.gz = false :=
  current_spared cfg r k m hS (ops.take n) (plainHistory_take hp n) act hact

/-! ### 3. bounds; the compressed files are the oldest survivors -/

/-- number of plain rotated-style names (for the direct namings this includes the current file) -/
def plainRotCount (d : Dir) : Nat :=
  List.countP (fun e : FName × File => !e.1.gz && isRot e) d

/-- number of compressed names -/
def gzCount (d : Dir) : Nat := List.countP (fun e : FName × File => e.1.gz) d

theorem bounds_of_cdir {hs : Bool} {kc m : Nat} {nm : Naming} {idx stamp : Nat} {d : Dir}
    {h : FName} {f : File} {C : List E} {closed : List (List Nat)}
    (hd : CDir hs kc m nm idx stamp d h f C closed) :
    plainRotCount d ≤ (if nm.writesDirect then 1 else 0) + (if hs then kc else kc + m) ∧
    gzCount d ≤ (if hs then m else 0) := by
  have hsplit : C = C.take kc ++ C.drop kc := (List.take_append_drop kc C).symm
  have hlt : (C.take kc).length ≤ kc := by rw [List.length_take]; omega
  have hld : (C.drop kc).length ≤ m := by rw [List.length_drop]; have := hd.len; omega
  constructor
  · unfold plainRotCount
    rw [List.Perm.countP_eq _ hd.perm, List.countP_cons]
    have h1 : (if ((!(h, f).1.gz && isRot (h, f)) = true) then 1 else 0) ≤
        (if nm.writesDirect then 1 else 0) := by
      cases hw : nm.writesDirect with
      | true => split <;> simp
      | false =>
        have := hd.handle.cur hw
        subst this
        simp [isRot, Infix.rotated]
    have h2 : List.countP (fun e : FName × File => !e.1.gz && isRot e) C ≤
        (if hs then kc else kc + m) := by
      cases hs with
      | true =>
        rw [hsplit, List.countP_append]
        have : List.countP (fun e : FName × File => !e.1.gz && isRot e) (C.drop kc) = 0 := by
          rw [List.countP_eq_zero]
          intro e he
          simp [hd.pat.2 e he]
        rw [this]
        have := List.countP_le_length (p := fun e : FName × File => !e.1.gz && isRot e)
          (l := C.take kc)
        simp only [if_true]
        omega
      | false =>
        have := List.countP_le_length (p := fun e : FName × File => !e.1.gz && isRot e) (l := C)
        have := hd.len
        simp only [Bool.false_eq_true, if_false]
        omega
    omega
  · unfold gzCount
    rw [List.Perm.countP_eq _ hd.perm, List.countP_cons]
    have h1 : (if ((h, f).1.gz = true) then 1 else 0) = 0 := by
      simp [hd.handle.gz]
    rw [h1]
    cases hs with
    | true =>
      rw [hsplit, List.countP_append]
      have : List.countP (fun e : FName × File => e.1.gz) (C.take kc) = 0 := by
        rw [List.countP_eq_zero]
        intro e he
        simp [hd.pat.1 e he]
      rw [this]
      have := List.countP_le_length (p := fun e : FName × File => e.1.gz) (l := C.drop kc)
      simp only [if_true]
      omega
    | false =>
      have : List.countP (fun e : FName × File => e.1.gz) C = 0 := by
        rw [List.countP_eq_zero]
        intro e he
        simp [hd.pat.all_plain e he]
      rw [this]
      simp

/-- **C07.3 — bounds.** At most `kk` plain rotated-style files (`kk + m` if files have no suffix
    and are therefore never compressed) and at most `m` compressed ones (none without suffix). -/
theorem cleanup_bounds (cfg : Cfg) (r : RotCfg) (k m : Nat) (hS : Setting cfg r k m)
    (ops : List (Op × Nat × Faults)) (hp : PlainHistory ops) :
    plainRotCount (runOps (init cfg []) ops).dir ≤
      (if cfg.hasSuffix then kk r k else kk r k + m) ∧
    gzCount (runOps (init cfg []) ops).dir ≤ (if cfg.hasSuffix then m else 0) := by
  obtain ⟨t, hcfg, hi⟩ := inv_run hS.cfgC ops hp
  generalize runOps (init cfg []) ops = s at hcfg hi
  cases hact : s.act with
  | none =>
    rw [hact] at hi
    rw [hi.1]
    simp [plainRotCount, gzCount]
  | some act =>
    rw [hact] at hi
    obtain ⟨f, C, hd, -⟩ := hi.1.dir
    obtain ⟨h1, h2⟩ := bounds_of_cdir hd
    refine ⟨?_, h2⟩
    rw [kk_eq]
    cases hw : r.naming.writesDirect with
    | true =>
      rw [kkOf_direct hw]
      rw [hw] at h1
      cases hs : cfg.hasSuffix <;> simp [hs] at h1 ⊢ <;> omega
    | false =>
      rw [kkOf_indirect hw]
      rw [hw] at h1
      cases hs : cfg.hasSuffix <;> simp [hs] at h1 ⊢ <;> omega

theorem gz_older_of_cdir {hs : Bool} {kc m : Nat} {nm : Naming} {idx stamp : Nat} {d : Dir}
    {h : FName} {f : File} {C : List E} {closed : List (List Nat)}
    (hd : CDir hs kc m nm idx stamp d h f C closed) (e1 e2 : FName × File)
    (h1 : e1 ∈ ents d) (h2 : e2 ∈ ents d) (hg1 : e1.1.gz = true) (hg2 : e2.1.gz = false)
    (hr2 : isRot e2 = true) : FV.Flw.keyLt (nkey e1.1) (nkey e2.1) = true := by
  have m1 := hd.perm.subset h1
  have m2 := hd.perm.subset h2
  -- `e1` is a closed file, in the compressed part
  have c1 : e1 ∈ C := by
    rcases List.mem_cons.1 m1 with rfl | hc
    · rw [hd.handle.gz] at hg1; cases hg1
    · exact hc
  have hsT : hs = true := by
    cases hs with
    | true => rfl
    | false => rw [hd.pat.all_plain e1 c1] at hg1; cases hg1
  subst hsT
  have d1 : e1 ∈ C.drop kc := by
    rw [← List.take_append_drop kc C] at c1
    rcases List.mem_append.1 c1 with hc | hc
    · rw [hd.pat.1 e1 hc] at hg1; cases hg1
    · exact hc
  rcases List.mem_cons.1 m2 with rfl | c2
  · -- the current file of a direct naming
    cases hw : nm.writesDirect with
    | false =>
      have := hd.handle.cur hw
      subst this
      simp [isRot, Infix.rotated] at hr2
    | true =>
      obtain ⟨i, hi, hb⟩ := hd.below e1 c1
      have := hb.key_lt hw hd.handle
      simpa [nkey, hi] using this
  · have t2 : e2 ∈ C.take kc := by
      rw [← List.take_append_drop kc C] at c2
      rcases List.mem_append.1 c2 with hc | hc
      · exact hc
      · rw [hd.pat.2 e2 hc] at hg2; cases hg2
    have hpw := hd.sorted.1
    rw [← List.take_append_drop kc C, List.pairwise_append] at hpw
    exact hpw.2.2 e2 t2 e1 d1

/-- **C07.3 — which ones are compressed: exactly the oldest survivors.** Every compressed file
    is older (smaller key) than every plain rotated-style file. -/
theorem gz_older_than_plain (cfg : Cfg) (r : RotCfg) (k m : Nat) (hS : Setting cfg r k m)
    (ops : List (Op × Nat × Faults)) (hp : PlainHistory ops) (e1 e2 : FName × File)
    (h1 : e1 ∈ ents (runOps (init cfg []) ops).dir) (h2 : e2 ∈ ents (runOps (init cfg []) ops).dir)
    (hg1 : e1.1.gz = true) (hg2 : e2.1.gz = false) (hr2 : isRot e2 = true) :
    FV.Flw.keyLt (nkey e1.1) (nkey e2.1) = true := by
  obtain ⟨t, hcfg, hi⟩ := inv_run hS.cfgC ops hp
  generalize runOps (init cfg []) ops = s at hcfg hi h1 h2
  cases hact : s.act with
  | none =>
    rw [hact] at hi
    rw [hi.1] at h1
    cases h1
  | some act =>
    rw [hact] at hi
    obtain ⟨f, C, hd, -⟩ := hi.1.dir
    exact gz_older_of_cdir hd e1 e2 h1 h2 hg1 hg2 hr2

/-! ### 4. lossless compression -/

/-- **C07.4 — lossless compression** (for every fault assignment). A plain file that is in the
    directory before `cleanup` and gone afterwards was either beyond the delete limit `kk + m` of
    the listing, or its compressed copy `⟨i, gz := true⟩` with the same data is in the directory
    afterwards: the original is erased only after the copy exists. Premise: no infix occurs
    twice in the directory (`reachable_ifxDistinct`: true in every reachable state). -/
theorem compress_lossless (now : Nat) (cfg : Cfg) (r : RotCfg) (fl : Faults) (d : Dir) (k m : Nat)
    (hc : r.cleanup = some (k, m)) (hd : FV.FlwL.IfxDistinct d) (i : Infix) (f : File)
    (hin : d.get ⟨some i, false⟩ = some f)
    (hout : (cleanup now cfg r fl d).1.get ⟨some i, false⟩ = none) :
    (∃ j, (listing d)[j]? = some (⟨some i, false⟩, f) ∧ kk r k + m ≤ j) ∨
    (∃ g, (cleanup now cfg r fl d).1.get ⟨some i, true⟩ = some g ∧ g.data = f.data) :=
  FV.FlwL.cleanup_lossless now cfg r fl d k m hc hd i f hin hout

theorem ifxDistinct_of_cdir {hs : Bool} {kc m : Nat} {nm : Naming} {idx stamp : Nat} {d : Dir}
    {h : FName} {f : File} {C : List E} {closed : List (List Nat)}
    (hd : CDir hs kc m nm idx stamp d h f C closed) : FV.FlwL.IfxDistinct d := by
  unfold FV.FlwL.IfxDistinct
  rw [List.Perm.pairwise_iff (fun hxy => Ne.symm hxy) hd.perm, List.pairwise_cons]
  constructor
  · intro e he heq
    obtain ⟨i, hi, hb⟩ := hd.below e he
    cases hw : nm.writesDirect with
    | false =>
      have := hd.handle.cur hw
      subst this
      rw [hi] at heq
      cases heq
      have := hb.rotated
      simp [Infix.rotated] at this
    | true =>
      have := hb.key_lt hw hd.handle
      simp only [nkey] at this
      simp only at heq
      rw [heq, hi, FV.FlwB.keyLt_irrefl] at this
      cases this
  · have := hd.sorted.ifxs_nodup
    unfold ifxs at this
    rw [List.nodup_iff_pairwise_ne, List.pairwise_map] at this
    exact this

/-- the premise of `compress_lossless` holds in every reachable state -/
theorem reachable_ifxDistinct (cfg : Cfg) (r : RotCfg) (k m : Nat) (hS : Setting cfg r k m)
    (ops : List (Op × Nat × Faults)) (hp : PlainHistory ops) :
    FV.FlwL.IfxDistinct (runOps (init cfg []) ops).dir := by
  obtain ⟨t, hcfg, hi⟩ := inv_run hS.cfgC ops hp
  generalize runOps (init cfg []) ops = s at hcfg hi
  cases hact : s.act with
  | none =>
    rw [hact] at hi
    rw [hi.1]
    exact List.Pairwise.nil
  | some act =>
    rw [hact] at hi
    obtain ⟨f, C, hd, -⟩ := hi.1.dir
    exact ifxDistinct_of_cdir hd

/-- **C07.4 at the rotations of a reachable state.** When a rotation is due in a reachable state
    (clock not behind the writer's stamp), `mountNext` renames/opens/flushes and then runs
    `cleanup` on a directory `d0` in which no infix occurs twice; hence every plain file of `d0`
    that is gone after the rotation was beyond the delete limit of the listing, or its
    compressed copy with the same data exists afterwards. (The only other call of `cleanup`,
    in `initState`, sees a directory with a single file.) -/
theorem rotation_lossless (cfg : Cfg) (r : RotCfg) (k m : Nat) (hS : Setting cfg r k m)
    (ops : List (Op × Nat × Faults)) (hp : PlainHistory ops) (act : Active)
    (hact : (runOps (init cfg []) ops).act = some act) (force : Bool) (now : Nat)
    (hst : act.stamp ≤ now) (h : (force || rotationNecessary r act now) = true) :
    ∃ d0 : Dir, ∃ c0 : Cfg, FV.FlwL.IfxDistinct d0 ∧
      (mountNext (runOps (init cfg []) ops) act r force now noFaults).1.dir =
        (cleanup now c0 r noFaults d0).1 ∧
      ∀ (i : Infix) (f : File), d0.get ⟨some i, false⟩ = some f →
        (mountNext (runOps (init cfg []) ops) act r force now noFaults).1.dir.get
          ⟨some i, false⟩ = none →
        (∃ j, (listing d0)[j]? = some (⟨some i, false⟩, f) ∧ kk r k + m ≤ j) ∨
        (∃ g, (mountNext (runOps (init cfg []) ops) act r force now noFaults).1.dir.get
          ⟨some i, true⟩ = some g ∧ g.data = f.data) := by
  obtain ⟨t, hcfg, hi⟩ := inv_run hS.cfgC ops hp
  generalize runOps (init cfg []) ops = s at hcfg hi hact
  rw [hact] at hi
  obtain ⟨-, s0, act0, ti, hm, hdist⟩ := mountNext_rot hS.cfgC s act _ force now hcfg hi.1 hst h
  have hdir : (mountNext s act r force now noFaults).1.dir =
      (cleanup now (openFile s0 ⟨some ti, false⟩ now noFaults 0).1.cfg r noFaults
        (preCleanupDir s0 act0 ti now)).1 := by
    rw [hm]; exact rotTailC_cleanup s0 act0 ti r now
  refine ⟨_, _, hdist, hdir, ?_⟩
  intro i f hin hout
  rw [hdir] at hout ⊢
  exact compress_lossless now _ r noFaults _ k m hS.cleanup hdist i f hin hout

/-! ### 6. non-vacuity -/

def exCfg (nm : Naming) (k m : Nat) (hs : Bool) : Cfg :=
  { rot := some ⟨none, none, nm, some (k, m)⟩, append := false, cap := some 2, symlink := false,
    hasSuffix := hs }

/-- seven files, six rotations (two of them within the same second) -/
def exOps : List (Op × Nat × Faults) :=
  [(.write [1], 10, noFaults), (.rotate, 10, noFaults), (.write [2], 10, noFaults),
   (.rotate, 10, noFaults), (.write [3], 11, noFaults), (.rotate, 11, noFaults),
   (.write [4], 12, noFaults), (.rotate, 12, noFaults), (.write [5], 12, noFaults),
   (.rotate, 12, noFaults), (.write [6, 6, 6], 13, noFaults), (.rotate, 13, noFaults),
   (.write [7], 14, noFaults)]

theorem exSetting (nm : Naming) (k m : Nat) (hs : Bool) :
    Setting (exCfg nm k m hs) ⟨none, none, nm, some (k, m)⟩ k m := ⟨rfl, rfl, rfl⟩

theorem exPlain : PlainHistory exOps := by
  unfold PlainHistory Monotone; decide

/-- the log without cleanup -/
example : (Abs.run (exCfg .numbers 1 1 true).rot Abs.init exOps).files =
    [[1], [2], [3], [4], [5], [6, 6, 6], [7]] := by decide

/-- `numbers`, k = 1, m = 1: the survivors are `r00004.gz`, `r00005`, `rCURRENT` -/
example : (listing (runOps (init (exCfg .numbers 1 1 true) []) exOps).dir).map
      (fun e => (e.1, e.2.data)) =
    [(⟨some (.num 5), false⟩, [6, 6, 6]), (⟨some (.num 4), true⟩, [5])] ∧
    (runOps (init (exCfg .numbers 1 1 true) []) exOps).dir.get ⟨some .cur, false⟩ = some ⟨[], 13⟩ ∧
    viewFiles (runOps (init (exCfg .numbers 1 1 true) []) exOps) = [[5], [6, 6, 6], [7]] := by
  decide

/-- … as the theorem says -/
example : viewFiles (runOps (init (exCfg .numbers 1 1 true) []) exOps) =
    lastN 3 (Abs.run (exCfg .numbers 1 1 true).rot Abs.init exOps).files :=
  cleanup_keeps_newest _ _ 1 1 (exSetting .numbers 1 1 true) exOps exPlain

/-- `numbersDirect`, k = 0 (treated as 1), m = 1: `r00005.gz` and the current file `r00006` -/
example : (listing (runOps (init (exCfg .numbersDirect 0 1 true) []) exOps).dir).map
      (fun e => (e.1, e.2.data)) =
    [(⟨some (.num 6), false⟩, []), (⟨some (.num 5), true⟩, [6, 6, 6])] ∧
    viewFiles (runOps (init (exCfg .numbersDirect 0 1 true) []) exOps) = [[6, 6, 6], [7]] := by
  decide

/-- `timestamps`, k = 1, m = 2, with a `.restart-0000` sibling -/
example : (listing (runOps (init (exCfg .timestamps 1 2 true) []) exOps).dir).map
      (fun e => (e.1, e.2.data)) =
    [(⟨some (.ts 12 (some 0)), false⟩, [6, 6, 6]), (⟨some (.ts 12 none), true⟩, [5]),
     (⟨some (.ts 11 none), true⟩, [4])] ∧
    viewFiles (runOps (init (exCfg .timestamps 1 2 true) []) exOps) = [[4], [5], [6, 6, 6], [7]] := by
  decide

/-- … without suffix nothing is compressed, but the same files survive -/
example : (listing (runOps (init (exCfg .timestamps 1 2 false) []) exOps).dir).map
      (fun e => (e.1, e.2.data)) =
    [(⟨some (.ts 12 (some 0)), false⟩, [6, 6, 6]), (⟨some (.ts 12 none), false⟩, [5]),
     (⟨some (.ts 11 none), false⟩, [4])] ∧
    viewFiles (runOps (init (exCfg .timestamps 1 2 false) []) exOps) = [[4], [5], [6, 6, 6], [7]] := by
  decide

/-- `timestampsDirect`, k = 2, m = 1 -/
example : (listing (runOps (init (exCfg .timestampsDirect 2 1 true) []) exOps).dir).map
      (fun e => (e.1, e.2.data)) =
    [(⟨some (.ts 13 none), false⟩, []), (⟨some (.ts 12 (some 0)), false⟩, [6, 6, 6]),
     (⟨some (.ts 12 none), true⟩, [5])] ∧
    viewFiles (runOps (init (exCfg .timestampsDirect 2 1 true) []) exOps) = [[5], [6, 6, 6], [7]] := by
  decide

/-- k = 0, m = 0 with `rCURRENT`: every rotated file is deleted at once -/
example : viewFiles (runOps (init (exCfg .numbers 0 0 true) []) exOps) = [[7]] := by decide

/-- the bounds and the spared current file on the first example -/
example : plainRotCount (runOps (init (exCfg .numbers 1 1 true) []) exOps).dir = 1 ∧
    gzCount (runOps (init (exCfg .numbers 1 1 true) []) exOps).dir = 1 := by decide

/-- **why the code bumps `k = 0` to `1` for the direct namings**: with the limits `0, 0` taken
    literally the loop deletes the file that is being written; `cleanup` (which bumps) keeps it -/
example :
    let d : Dir := [(⟨some (.num 3), false⟩, ⟨[1, 2], 5⟩)]
    let r : RotCfg := ⟨none, none, .numbersDirect, some (0, 0)⟩
    (cleanupLoop 9 true 0 0 noFaults (listing d) 0 d 0 0).1.get ⟨some (.num 3), false⟩ = none ∧
    (cleanup 9 (exCfg .numbersDirect 0 0 true) r noFaults d).1.get ⟨some (.num 3), false⟩ =
      some ⟨[1, 2], 5⟩ := by decide

end FV.C07
