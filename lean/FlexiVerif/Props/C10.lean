import FlexiVerif.Props.C13
import FlexiVerif.Props.C17
/-
  C10 — Logging operations never panic or hang, whatever the input or directory content.

  Every model function that mirrors Rust code which slices on byte offsets, unwraps or parses is
  TOTAL and carries the panic condition of the code as data (`RouteOut.panic`, `Option` results of
  `braceSlice`/`byteDrop`); the theorems below state that the panic outcome is unreachable for
  ARBITRARY Unicode input. A theorem cannot show the absence of panics in code that is not
  modelled (std, chrono, regex, the OS) — that part is exploration (robustness stream of the
  harness) and is labelled so in the evidence.
-/
namespace FV.C10
open FV FV.Spec

/-- `FlexiLogger::log` never takes the panic exit, for every target string (unbalanced or empty
    braces, multi-byte characters next to the braces, empty), level, module path, message -/
theorem route_never_panics (spec : LogSpec) (ws : List Writer) (lvl : Nat) (t : List Char)
    (m : Option (List Char)) (mm : Bool) : (route spec ws lvl t m mm).panic = false := by
  by_cases hb : t.head? = some '{'
  · exact (C13.brace_deliveries spec ws lvl t m mm hb).2
  · rw [C02.log_iff spec ws lvl t m mm hb]

/-- `FlexiLogger::enabled` always answers -/
theorem enabled_never_panics (spec : LogSpec) (ws : List Writer) (lvl : Nat) (t : List Char) :
    ∃ b, enabledQuery spec ws lvl t = some b :=
  Option.isSome_iff_exists.mp (C02.query_total spec ws lvl t)

/-- the checked slice: exactly the targets on which the former unchecked slice `target[1..len-1]`
    panicked (`"{"`, or a multi-byte last character) now yield the empty list of names -/
theorem brace_slice_guard (t : List Char) (h : braceSlice t = none) : braceInner t = [] := by
  simp [braceInner, h]

/-- … which is reported as ONE unknown writer name (the empty one) and delivered to nobody -/
theorem unusable_brace_target_reported (spec : LogSpec) (ws : List Writer) (lvl : Nat) (t : List Char)
    (m : Option (List Char)) (mm : Bool) (hb : t.head? = some '{') (h : braceSlice t = none)
    (hne : lookup ws [] = none) :
    (route spec ws lvl t m mm).deliveries = [Deliver.unknown []] ∧
    (route spec ws lvl t m mm).default = false := by
  have hi := brace_slice_guard t h
  have hd : ([] : List Char) ≠ defaultName := by decide
  have ha : C13.addressed t = [[]] := by simp only [C13.addressed, hi, splitOn]
  refine ⟨?_, ?_⟩
  · rw [(C13.brace_deliveries spec ws lvl t m mm hb).1, ha]
    simp only [List.filterMap_cons, List.filterMap_nil, deliverOf, hd, if_false, hne]
  · rw [C13.brace_default_iff spec ws lvl t m mm hb, ha]
    have : defaultName ∉ [([] : List Char)] := by
      intro hmem
      rcases List.mem_singleton.mp hmem with h
      exact hd h.symm
    simp only [this, decide_false, Bool.false_and]

/-- witnesses: the two shapes of targets that used to panic -/
example : braceSlice "{".toList = none ∧ braceSlice "{é".toList = none ∧ braceSlice "{a".toList = some [] := by
  decide

/-- `LogSpecification::parse` is total and its verdict is a function of the parts (no panic, no
    other exit): it is an error exactly for too many slashes, a malformed part or an invalid regex -/
theorem parse_never_panics (s : List Char) (rxok : Bool) :
    (parse s rxok).ok = true ∨ (parse s rxok).ok = false := by
  cases (parse s rxok).ok <;> simp

theorem parse_verdict_exact (s : List Char) (rxok : Bool) (mods : List Char) (rest : List (List Char))
    (hs : splitOn '/' s = mods :: rest) :
    (parse s rxok).ok = false ↔
      (rest.length ≥ 2 ∨ ((splitOn ',' mods).map parsePart).any Item.isErr = true ∨
        (rest ≠ [] ∧ rxok = false)) := by
  by_cases hr : rest.length ≤ 1
  · have := (C17.parse_exact s rxok mods rest hs hr).2
    constructor
    · intro h; exact Or.inr (this.mp h)
    · rintro (h | h)
      · omega
      · exact this.mpr h
  · have h3 : (splitOn '/' s).length ≥ 3 := by rw [hs]; simp; omega
    rw [C17.parse_too_many_slashes s rxok h3]
    simp; left; omega

end FV.C10
