import FlexiVerif.Lemmas.FlwCrashA
import FlexiVerif.Lemmas.FlwCrashB
/-
  C11 — A killed process loses no acknowledged direct-mode record and restarts cleanly.

  `Model/FlwTrace.lean` records, for every operation, each named point of the code between two
  file-system effects with the directory on disk at that point; a process killed at a point
  leaves exactly that directory (validated by killing real child processes at every
  (point, occurrence)). Proofs: `Lemmas/FlwCrashA.lean` (non-rotating writer, Numbers,
  Timestamps), `Lemmas/FlwCrashB.lean` (NumbersDirect, TimestampsDirect). No cleanup.
-/
namespace FV.C11
open FV FV.Flw

/-- the instrumented functions are the model functions (first projection) — every naming,
    with or without cleanup -/
theorem trace_projection (s : St) (op : Op) (now : Nat) :
    (stepT s op now).1 = (step s op now noFaults).1 :=
  FV.FlwA.stepT_fst s op now

/-- **Direct mode, rCURRENT namings and the non-rotating writer.** At EVERY point at which the
    process can be killed during a write, the files hold every acknowledged record and at most
    the in-flight one in addition, in order; the log call returns only after the point at which
    the record is on disk; during a forced rotation nothing is lost. -/
theorem crash_safe_rcurrent (cfg : Cfg) (hc : FV.FlwA.CfgC cfg) (ops : List (Op × Nat × Faults))
    (hp : PlainHistory ops) (b : List Nat) (now : Nat)
    (hnow : ∀ o ∈ ops, o.1.usesClock = true → o.2.1 ≤ now) :
    (∀ p ∈ (stepT (runOps (init cfg []) ops) (.write b) now).2,
      readAll p.dir = written ops ∨ readAll p.dir = written ops ++ b) ∧
    (∃ pre p, (stepT (runOps (init cfg []) ops) (.write b) now).2 = pre ++ [p] ∧
      p.name = "write.after" ∧ readAll p.dir = written ops ++ b) ∧
    (∀ p ∈ (stepT (runOps (init cfg []) ops) .rotate now).2, readAll p.dir = written ops) :=
  FV.FlwA.crash_safe_A cfg hc ops hp b now hnow

/-- … and a new logger on the directory left behind at ANY of these points (renamed but no
    current file, new empty current file, dangling or missing symlink …) works and continues the
    stream, append on or off -/
theorem restart_from_crash_rcurrent (cfg : Cfg) (hc : FV.FlwA.CfgC cfg)
    (ops : List (Op × Nat × Faults)) (hp : PlainHistory ops) (now : Nat)
    (hnow : ∀ o ∈ ops, o.1.usesClock = true → o.2.1 ≤ now)
    (op : Op) (hop : (∃ b, op = .write b) ∨ op = .rotate) (p : Pt)
    (hpm : p ∈ (stepT (runOps (init cfg []) ops) op now).2)
    (c : Cfg) (hcr : c.rot = cfg.rot) (hk : cfg.rot.isSome = true ∨ c.append = true)
    (ops2 : List (Op × Nat × Faults)) (hp2 : PlainHistory ops2)
    (hclk2 : ∀ o ∈ ops2, o.1.usesClock = true → now ≤ o.2.1) :
    (viewFiles (runOps { (init c p.dir) with link := p.link } ops2)).flatten =
      readAll p.dir ++ written ops2 :=
  FV.FlwA.restart_from_crash_keeps_A cfg hc ops hp now hnow op hop p hpm c hcr hk ops2 hp2 hclk2

/-- **Direct mode, direct namings.** -/
theorem crash_safe_direct (cfg : Cfg) (hc : FV.FlwB.CfgMB cfg) (hcap : cfg.cap = none)
    (ops : List (Op × Nat × Faults)) (b : List Nat) (now : Nat)
    (hp : PlainHistory (ops ++ [(.write b, now, noFaults)])) :
    (∀ p ∈ (stepT (runOps (init cfg []) ops) (.write b) now).2,
      readAll p.dir = written ops ∨ readAll p.dir = written ops ++ b) ∧
    ∃ tr0 p1 p2, (stepT (runOps (init cfg []) ops) (.write b) now).2 = tr0 ++ [p1, p2] ∧
      (∀ p ∈ tr0, readAll p.dir = written ops) ∧
      p1.name = "write.before" ∧ readAll p1.dir = written ops ∧
      p2.name = "write.after" ∧ readAll p2.dir = written ops ++ b :=
  FV.FlwB.crash_safe_B cfg hc hcap ops b now hp

theorem crash_safe_direct_rotate (cfg : Cfg) (hc : FV.FlwB.CfgMB cfg) (hcap : cfg.cap = none)
    (ops : List (Op × Nat × Faults)) (now : Nat)
    (hp : PlainHistory (ops ++ [(.rotate, now, noFaults)])) :
    ∀ p ∈ (stepT (runOps (init cfg []) ops) .rotate now).2, readAll p.dir = written ops :=
  FV.FlwB.crash_safe_B_rotate cfg hc hcap ops now hp

/-- restart from any crash directory of the direct namings, append on or off, no guard (since the
    `fix:` of C06's finding `C06-tsd-append-after-restart-files` an appending TimestampsDirect
    logger continues the newest file of the newest stamp, `.restart` siblings included) -/
theorem restart_from_crash_direct_unguarded (cfg : Cfg) (hc : FV.FlwB.CfgMB cfg)
    (hcap : cfg.cap = none)
    (r : RotCfg) (hrot : cfg.rot = some r) (ops : List (Op × Nat × Faults)) (op : Op) (now : Nat)
    (hop : (∃ b, op = .write b) ∨ op = .rotate)
    (hp : PlainHistory (ops ++ [(op, now, noFaults)]))
    (p : Pt) (hpm : p ∈ (stepT (runOps (init cfg []) ops) op now).2)
    (c : Cfg) (hcrot : c.rot = cfg.rot)
    (ops2 : List (Op × Nat × Faults)) (hp2 : PlainHistory ops2)
    (hclk : ∀ o ∈ ops2, o.1.usesClock = true → now ≤ o.2.1) :
    (viewFiles (runOps (init c p.dir) ops2)).flatten = readAll p.dir ++ written ops2 :=
  FV.FlwB.restart_from_crash_B cfg hc hcap r hrot ops op now hop hp p hpm c hcrot ops2 hp2 hclk

/-- the guarded form that was provable before the repair (TimestampsDirect + append under the
    guard of C06's former finding: the newest stamp must not have `.restart` siblings); the guard
    is no longer used, see `restart_from_crash_direct_unguarded` -/
theorem restart_from_crash_direct (cfg : Cfg) (hc : FV.FlwB.CfgMB cfg) (hcap : cfg.cap = none)
    (r : RotCfg) (hrot : cfg.rot = some r) (ops : List (Op × Nat × Faults)) (op : Op) (now : Nat)
    (hop : (∃ b, op = .write b) ∨ op = .rotate)
    (hp : PlainHistory (ops ++ [(op, now, noFaults)]))
    (p : Pt) (hpm : p ∈ (stepT (runOps (init cfg []) ops) op now).2)
    (c : Cfg) (hcrot : c.rot = cfg.rot)
    (_hg : r.naming = .timestampsDirect → c.append = true → FV.FlwB.NewestIsBase p.dir)
    (ops2 : List (Op × Nat × Faults)) (hp2 : PlainHistory ops2)
    (hclk : ∀ o ∈ ops2, o.1.usesClock = true → now ≤ o.2.1) :
    (viewFiles (runOps (init c p.dir) ops2)).flatten = readAll p.dir ++ written ops2 :=
  restart_from_crash_direct_unguarded cfg hc hcap r hrot ops op now hop hp p hpm c hcrot ops2 hp2
    hclk

end FV.C11
