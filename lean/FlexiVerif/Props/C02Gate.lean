import FlexiVerif.Lemmas.Spec
/-
  C02 / C12 — the level dimension of the specification's decision and the *tightness* of the
  global gate (`log::max_level()` as set by `WritersHandle::set_new_spec`).

  `Props/C02.lean` proves that the gate admits everything the specification enables and everything
  an additional writer accepts (`gate_admits_spec`, `gate_admits_writers`). Here:

  * `enabled_downward`: the decision is downward closed in the level number — a target that is
    enabled at a level is enabled at every more severe level (error = 1 … trace = 5);
  * `enabled_threshold`: for a fixed target the decision IS a threshold test `lv ≤ k`;
  * `gate_tight`: the gate is never higher than needed — it is 0 (off), the level of one of the
    specification's filters, or the ceiling of one of the additional writers; together with the
    two `gate_admits_*` theorems the gate is exactly the maximum of these numbers;
  * `gate_off_iff`: the gate is off exactly when every filter is off and every ceiling is off —
    the situation in which the `log` macros skip even the call of `Log::enabled`.
  Tie to the code: the `gate=` field of the spec histories (C02, C05, C12) compares
  `log::max_level()` with `Handle.gate` after every reconfiguration.
-/
namespace FV.C02Gate
open FV FV.Spec

/-- **Downward closed in the level**: enabled at `lv` ⇒ enabled at every more severe level. -/
theorem enabled_downward (l : List MF) (lv lv' : Nat) (t : List Char) (hle : lv' ≤ lv)
    (h : enabled l lv t = true) : enabled l lv' t = true := by
  induction l with
  | nil => simp [enabled] at h
  | cons m ms ih =>
    simp only [enabled] at h ⊢
    split at h
    · rename_i hm
      simp only [hm, if_true]
      have : lv ≤ m.lvl := by simpa using h
      simp; omega
    · rename_i hm
      simp only [hm]
      exact ih h

/-- **Threshold form**: for every target there is one number `k` such that the decision at
    every level is `lv ≤ k` — provided some filter matches the target at all. -/
theorem enabled_threshold (l : List MF) (t : List Char) (hex : ∃ m ∈ l, matchesT m t = true) :
    ∃ m ∈ l, ∀ lv, enabled l lv t = decide (lv ≤ m.lvl) := by
  induction l with
  | nil => obtain ⟨m, hm, _⟩ := hex; simp at hm
  | cons x xs ih =>
    by_cases hx : matchesT x t = true
    · exact ⟨x, by simp, fun lv => by simp [enabled, hx]⟩
    · have hex' : ∃ m ∈ xs, matchesT m t = true := by
        obtain ⟨m, hm, hmt⟩ := hex
        rcases List.mem_cons.mp hm with rfl | hm'
        · exact absurd hmt hx
        · exact ⟨m, hm', hmt⟩
      obtain ⟨m, hm, hall⟩ := ih hex'
      exact ⟨m, List.mem_cons_of_mem _ hm, fun lv => by simp [enabled, hx, hall lv]⟩

theorem foldl_max_cases (l : List Nat) (a : Nat) : l.foldl max a = a ∨ l.foldl max a ∈ l := by
  induction l generalizing a with
  | nil => simp
  | cons x xs ih =>
    simp only [List.foldl]
    rcases ih (max a x) with h | h
    · rcases Nat.le_total a x with hax | hax
      · right; rw [h, Nat.max_eq_right hax]; simp
      · left; rw [h, Nat.max_eq_left hax]
    · right; exact List.mem_cons_of_mem _ h

theorem maxLevel_foldl_cases (fs : List MF) (a : Nat) :
    fs.foldl (fun a m => max a m.lvl) a = a ∨ ∃ m ∈ fs, fs.foldl (fun a m => max a m.lvl) a = m.lvl := by
  induction fs generalizing a with
  | nil => simp
  | cons x xs ih =>
    simp only [List.foldl]
    rcases ih (max a x.lvl) with h | ⟨m, hm, h⟩
    · rcases Nat.le_total a x.lvl with hax | hax
      · right; exact ⟨x, by simp, by rw [h, Nat.max_eq_right hax]⟩
      · left; rw [h, Nat.max_eq_left hax]
    · right; exact ⟨m, List.mem_cons_of_mem _ hm, h⟩

/-- **The gate is tight**: off, or the level of a filter of the new specification, or the ceiling
    of an additional writer — never a number nobody asked for. -/
theorem gate_tight (h : Handle) (s : LogSpec) :
    (h.setNew s).gate = 0 ∨ (∃ m ∈ s.filters, (h.setNew s).gate = m.lvl) ∨
      (h.setNew s).gate ∈ h.ceilings := by
  simp only [Handle.setNew, gateFor]
  rcases foldl_max_cases h.ceilings (maxLevel s.filters) with hc | hc
  · rw [hc]
    rcases maxLevel_foldl_cases s.filters 0 with h0 | ⟨m, hm, h1⟩
    · left; exact h0
    · right; left; exact ⟨m, hm, h1⟩
  · right; right; exact hc

/-- **Off exactly when everybody is off.** -/
theorem gate_off_iff (h : Handle) (s : LogSpec) :
    (h.setNew s).gate = 0 ↔ (∀ m ∈ s.filters, m.lvl = 0) ∧ (∀ c ∈ h.ceilings, c = 0) := by
  constructor
  · intro hg
    refine ⟨fun m hm => ?_, fun c hc => ?_⟩
    · have h2 := le_maxLevel s.filters m hm
      have h3 := foldl_max_ge h.ceilings (maxLevel s.filters)
      simp only [Handle.setNew, gateFor] at hg
      omega
    · have := foldl_max_mem h.ceilings (maxLevel s.filters) c hc
      simp only [Handle.setNew, gateFor] at hg
      omega
  · intro ⟨hf, hc⟩
    rcases gate_tight h s with h0 | ⟨m, hm, h1⟩ | h2
    · exact h0
    · rw [h1]; exact hf m hm
    · exact hc _ h2

/-- the premises are satisfiable and the statements are not trivial: a specification
    `info, a::b = trace` with one additional writer whose ceiling is `warn` -/
example :
    let s : LogSpec := ⟨[⟨some "a::b".toList, 5⟩, ⟨none, 3⟩], none⟩
    let h : Handle := ⟨s, [], 0, [2]⟩
    (h.setNew s).gate = 5 ∧ enabled s.filters 4 "a::b::c".toList = true ∧
      enabled s.filters 4 "x".toList = false ∧ enabled s.filters 3 "x".toList = true := by
  decide

end FV.C02Gate
