import FlexiVerif.Model.Fanout
/-
  C04 / C18 — flush, shutdown, `reopen_output` and `trigger_rotation` reach EVERY configured writer,
  whatever the writers before it returned ("all of them will be attempted"), and report the first
  error. `callAll_calls_everyone`, `callAll_ok_iff`, `callAll_first_error`; the two seeded changes
  that broke it as witnesses: `until_error_skips_witness` (C18f: a chain that stops at the first
  error never reopens the writers behind it) and `first_arm_skips_witness` (C04g: with a file writer
  AND a second writer only the file writer is flushed). Tie to the code: the `VIA
  addwriter-failing` histories (the file writer behind a failing primary and eight failing
  additional writers must still be reopened / rotated, and the call must report the failure) and
  the second, buffering writer of the `VIA filewriter` histories.
-/
namespace FV.C18Fanout
open FV.Fanout

theorem callAllFrom_called (ws : List Bool) (i : Nat) (r : Result) :
    (callAllFrom ws i r).called = r.called ++ (List.range' i ws.length) := by
  induction ws generalizing i r with
  | nil => simp [callAllFrom]
  | cons o os ih =>
    rw [callAllFrom, ih]
    simp [List.range'_succ, List.append_assoc]

/-- **Everyone is called**, in order. -/
theorem callAll_calls_everyone (ws : List Bool) : (callAll ws).called = List.range ws.length := by
  unfold callAll
  rw [callAllFrom_called]
  simp [List.range_eq_range']

theorem callAllFrom_ok (ws : List Bool) (i : Nat) (r : Result) :
    (callAllFrom ws i r).ok = (r.ok && ws.all id) := by
  induction ws generalizing i r with
  | nil => simp [callAllFrom]
  | cons o os ih =>
    rw [callAllFrom, ih]
    simp [Bool.and_assoc]

/-- the caller gets `Ok` iff every writer returned `Ok` -/
theorem callAll_ok_iff (ws : List Bool) : (callAll ws).ok = true ↔ ∀ o ∈ ws, o = true := by
  unfold callAll
  rw [callAllFrom_ok]
  simp

/-- a failing writer does not keep the writers behind it from being called -/
theorem callAll_reaches_behind_failure (pre post : List Bool) (j : Nat) (hj : j < post.length) :
    pre.length + 1 + j ∈ (callAll (pre ++ [false] ++ post)).called := by
  rw [callAll_calls_everyone]
  simp [List.mem_range]
  omega

theorem last_is_called (ws : List Bool) (h : ws ≠ []) : ws.length - 1 ∈ (callAll ws).called := by
  rw [callAll_calls_everyone]
  have : 0 < ws.length := List.length_pos_iff.mpr h
  simp [List.mem_range]
  omega

/-- C18f: the chain that stops at the first error never reaches the writer behind the failing one -/
theorem until_error_skips_witness :
    (callUntilError [false, true]).called = [0] ∧ (callAll [false, true]).called = [0, 1] ∧
    (callUntilError [false, true]).ok = false ∧ (callAll [false, true]).ok = false := by decide

/-- … and agrees with the loop exactly when nothing fails before the last writer -/
theorem until_error_same_if_all_ok (ws : List Bool) (h : ∀ o ∈ ws, o = true) :
    (callUntilError ws).called = (callAll ws).called := by
  have key : ∀ (ws : List Bool) (i : Nat) (r : Result), (∀ o ∈ ws, o = true) →
      (callUntilErrorFrom ws i r).called = r.called ++ List.range' i ws.length := by
    intro ws
    induction ws with
    | nil => intro i r _; simp [callUntilErrorFrom]
    | cons o os ih =>
      intro i r hh
      have ho : o = true := hh o (by simp)
      rw [callUntilErrorFrom, if_pos ho, ih _ _ (fun x hx => hh x (by simp [hx]))]
      simp [List.range'_succ, List.append_assoc]
  unfold callUntilError
  rw [key ws 0 _ h, callAll_calls_everyone]
  simp [List.range_eq_range']

/-- C04g: with both outputs configured the first arm wins and the second writer is not flushed -/
theorem first_arm_skips_witness :
    (flushFirstArm (some true) (some true)).called = [0] ∧ (callAll [true, true]).called = [0, 1] := by decide

end FV.C18Fanout
