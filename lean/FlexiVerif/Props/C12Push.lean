import FlexiVerif.Props.C12
/-
  C12, push/pop: `push_temp_spec` / `pop_temp_spec` calls of handle clones, concurrent with each
  other and with `set_new_spec` calls (`Model/Spec.lean`, `PState`). Every run of the push/pop
  layer is a run of the lock protocol (`prun_projects`), so the consistency theorem of `C12.lean`
  carries over to every interleaving of set / push / pop calls (`push_pop_consistent`); the
  specification that is active in the end is the initial one or one that a set or push call
  submitted — a pop re-submits a specification that was active before (`push_pop_from_submitted`).
-/
namespace FV.C12
open FV FV.Spec

def prun (p : PState) (acts : List PAct) : PState := acts.foldl (fun p a => (p.step a).1) p

/-- the steps of the lock protocol taken along a run of the push/pop layer -/
def pacts (p : PState) : List PAct → List CAct
  | [] => []
  | a :: as => (p.step a).2.2 ++ pacts (p.step a).1 as

/-- all calls have returned -/
def PQuiescent (p : PState) : Prop := Quiescent p.c ∧ p.readers = []

/-- the specifications named by the set and push calls of a run -/
def submittedSpecs : List PAct → List LogSpec
  | [] => []
  | .set _ s :: as => s :: submittedSpecs as
  | .push _ s :: as => s :: submittedSpecs as
  | _ :: as => submittedSpecs as

theorem crun_append (c : CState) (l1 l2 : List CAct) : crun c (l1 ++ l2) = crun (crun c l1) l2 := by
  simp [crun, List.foldl_append]

theorem admitReader_projects (p : PState) : p.admitReader.1.c = crun p.c p.admitReader.2 := by
  unfold PState.admitReader
  split <;> simp [crun]

theorem pstep_projects (p : PState) (a : PAct) : (p.step a).1.c = crun p.c (p.step a).2.2 := by
  cases a with
  | set t s => simp [PState.step, crun]
  | push t s =>
    cases hl : p.c.lock with
    | none => simp [PState.step, hl, crun]
    | some t' => simp [PState.step, hl, crun]
  | pop t =>
    cases hp : popStack t p.stacks with
    | none => simp [PState.step, hp, crun]
    | some r =>
      obtain ⟨s, rest⟩ := r
      simp [PState.step, hp, crun]
  | finish t =>
    simp only [PState.step]
    rw [admitReader_projects]
    simp [crun]

theorem prun_projects (p : PState) (acts : List PAct) : (prun p acts).c = crun p.c (pacts p acts) := by
  induction acts generalizing p with
  | nil => simp [prun, pacts, crun]
  | cons a as ih =>
    have h := ih (p.step a).1
    simp only [pacts, crun_append, ← pstep_projects]
    simpa [prun] using h

/-- **C12 with push and pop.** For every interleaving of the steps of any number of concurrent
    `set_new_spec`, `push_temp_spec` and `pop_temp_spec` calls on any number of handle clones:
    once all calls have returned, the global max level is the one of the specification that is
    active, hence it admits every record that specification enables. -/
theorem push_pop_consistent (h0 : Handle) (hi : C05.GateInv h0) (acts : List PAct)
    (hq : PQuiescent (prun ⟨⟨h0, none, [], []⟩, [], []⟩ acts)) :
    let c := (prun ⟨⟨h0, none, [], []⟩, [], []⟩ acts).c
    c.handle.gate = gateFor c.handle.ceilings c.handle.active ∧
    ∀ lvl t, enabled c.handle.active.filters lvl t = true → lvl ≤ c.handle.gate := by
  intro c
  have hc : c = crun ⟨h0, none, [], []⟩ (pacts ⟨⟨h0, none, [], []⟩, [], []⟩ acts) :=
    prun_projects _ acts
  have hinv : CInv c := by
    rw [hc]; exact crun_inv _ _ ⟨fun _ => hi, by simp⟩
  have hg := hinv.1 hq.1.1
  refine ⟨hg, ?_⟩
  intro lvl t he
  have := C02.gate_admits_spec c.handle c.handle.active lvl t he
  simp only [Handle.setNew] at this
  rw [hg]; exact this

theorem popStack_mem (t : Nat) (l : List (Nat × LogSpec)) (s : LogSpec) (rest : List (Nat × LogSpec))
    (h : popStack t l = some (s, rest)) : (t, s) ∈ l ∧ ∀ x ∈ rest, x ∈ l := by
  induction l generalizing s rest with
  | nil => simp [popStack] at h
  | cons y ys ih =>
    obtain ⟨t', s'⟩ := y
    by_cases ht : t' = t
    · simp [popStack, ht] at h
      obtain ⟨h1, h2⟩ := h
      subst h1 h2 ht
      exact ⟨by simp, fun x hx => List.mem_cons_of_mem _ hx⟩
    · cases hp : popStack t ys with
      | none => simp [popStack, ht, hp] at h
      | some r =>
        obtain ⟨s'', r'⟩ := r
        simp [popStack, ht, hp] at h
        obtain ⟨h1, h2⟩ := h
        subst h1 h2
        have := ih s'' r' hp
        refine ⟨List.mem_cons_of_mem _ this.1, ?_⟩
        intro x hx
        rcases List.mem_cons.1 hx with hx | hx
        · subst hx; simp
        · exact List.mem_cons_of_mem _ (this.2 x hx)

/-- every specification that is active, saved, or waiting to be set belongs to `S` -/
def PInv (S : List LogSpec) (p : PState) : Prop :=
  p.c.handle.active ∈ S ∧ (∀ x ∈ p.stacks, x.2 ∈ S) ∧ (∀ x ∈ p.readers, x.2 ∈ S) ∧
  (∀ x ∈ p.c.waiting, x.2 ∈ S)

theorem cstep_start_pinv (S : List LogSpec) (c : CState) (t : Nat) (s : LogSpec)
    (ha : c.handle.active ∈ S) (hw : ∀ x ∈ c.waiting, x.2 ∈ S) (hs : s ∈ S) :
    (c.step (.start t s)).1.handle.active ∈ S ∧ ∀ x ∈ (c.step (.start t s)).1.waiting, x.2 ∈ S := by
  constructor
  · rcases step_active c (.start t s) with h | ⟨t', h⟩ | ⟨t', h⟩
    · rw [h]; exact ha
    · injection h with h1 h2; rw [← h2]; exact hs
    · exact hw _ h
  · intro x hx
    rcases step_waiting c (.start t s) x hx with h | h
    · exact hw x h
    · injection h with h1 h2; rw [← h2]; exact hs

theorem cstep_finish_pinv (S : List LogSpec) (c : CState) (t : Nat)
    (ha : c.handle.active ∈ S) (hw : ∀ x ∈ c.waiting, x.2 ∈ S) :
    (c.step (.finish t)).1.handle.active ∈ S ∧ ∀ x ∈ (c.step (.finish t)).1.waiting, x.2 ∈ S := by
  constructor
  · rcases step_active c (.finish t) with h | ⟨t', h⟩ | ⟨t', h⟩
    · rw [h]; exact ha
    · cases h
    · exact hw _ h
  · intro x hx
    rcases step_waiting c (.finish t) x hx with h | h
    · exact hw x h
    · cases h

theorem admitReader_pinv (S : List LogSpec) (p : PState) (hi : PInv S p) : PInv S p.admitReader.1 := by
  obtain ⟨ha, hst, hr, hw⟩ := hi
  unfold PState.admitReader
  split
  · rename_i t s rest hl hrd
    have hs : s ∈ S := hr (t, s) (by simp [hrd])
    have := cstep_start_pinv S p.c t s ha hw hs
    refine ⟨this.1, ?_, ?_, this.2⟩
    · intro x hx
      rcases List.mem_cons.1 hx with hx | hx
      · subst hx; exact ha
      · exact hst x hx
    · intro x hx
      exact hr x (by simp [hrd, hx])
  · exact ⟨ha, hst, hr, hw⟩

theorem pstep_pinv (S : List LogSpec) (p : PState) (a : PAct) (hi : PInv S p)
    (hs : ∀ s ∈ submittedSpecs [a], s ∈ S) : PInv S (p.step a).1 := by
  obtain ⟨ha, hst, hr, hw⟩ := hi
  cases a with
  | set t s =>
    have hs' : s ∈ S := hs s (by simp [submittedSpecs])
    have := cstep_start_pinv S p.c t s ha hw hs'
    exact ⟨this.1, hst, hr, this.2⟩
  | push t s =>
    have hs' : s ∈ S := hs s (by simp [submittedSpecs])
    cases hl : p.c.lock with
    | none =>
      have := cstep_start_pinv S p.c t s ha hw hs'
      simp only [PState.step, hl]
      refine ⟨this.1, ?_, hr, this.2⟩
      intro x hx
      rcases List.mem_cons.1 hx with hx | hx
      · subst hx; exact ha
      · exact hst x hx
    | some t' =>
      simp only [PState.step, hl]
      refine ⟨ha, hst, ?_, hw⟩
      intro x hx
      rcases List.mem_append.1 hx with hx | hx
      · exact hr x hx
      · simp at hx; subst hx; exact hs'
  | pop t =>
    cases hp : popStack t p.stacks with
    | none => simp only [PState.step, hp]; exact ⟨ha, hst, hr, hw⟩
    | some r =>
      obtain ⟨s, rest⟩ := r
      have hm := popStack_mem t p.stacks s rest hp
      have hs' : s ∈ S := hst _ hm.1
      have := cstep_start_pinv S p.c t s ha hw hs'
      simp only [PState.step, hp]
      exact ⟨this.1, fun x hx => hst x (hm.2 x hx), hr, this.2⟩
  | finish t =>
    have := cstep_finish_pinv S p.c t ha hw
    simp only [PState.step]
    exact admitReader_pinv S _ ⟨this.1, hst, hr, this.2⟩

theorem submittedSpecs_cons_mem (a : PAct) (as : List PAct) (s : LogSpec) :
    s ∈ submittedSpecs (a :: as) ↔ s ∈ submittedSpecs [a] ∨ s ∈ submittedSpecs as := by
  cases a <;> simp [submittedSpecs]

theorem prun_pinv (S : List LogSpec) (p : PState) (acts : List PAct) (hi : PInv S p)
    (hs : ∀ s ∈ submittedSpecs acts, s ∈ S) : PInv S (prun p acts) := by
  induction acts generalizing p with
  | nil => exact hi
  | cons a as ih =>
    have h1 : PInv S (p.step a).1 :=
      pstep_pinv S p a hi (fun s h => hs s ((submittedSpecs_cons_mem a as s).2 (Or.inl h)))
    have := ih (p.step a).1 h1 (fun s h => hs s ((submittedSpecs_cons_mem a as s).2 (Or.inr h)))
    simpa [prun] using this

/-- … and that specification is, as a whole, the initial one or one named by a set or push call
    (what a pop re-activates was active before). -/
theorem push_pop_from_submitted (h0 : Handle) (acts : List PAct) :
    (prun ⟨⟨h0, none, [], []⟩, [], []⟩ acts).c.handle.active ∈ h0.active :: submittedSpecs acts := by
  have := prun_pinv (h0.active :: submittedSpecs acts) ⟨⟨h0, none, [], []⟩, [], []⟩ acts
    ⟨by simp, by simp, by simp, by simp⟩ (fun s h => List.mem_cons_of_mem _ h)
  exact this.1

/-- A push that has to wait for a change in progress saves the specification of THAT change
    (not the one that was active when the push was called), and the matching pop re-activates it
    with its own max level: set(s1) ‖ push(s2), then pop. -/
theorem push_waits_for_change (h0 : Handle) (s1 s2 : LogSpec) :
    let p := prun ⟨⟨h0, none, [], []⟩, [], []⟩ [.set 0 s1, .push 1 s2, .finish 0, .finish 1, .pop 1, .finish 1]
    p.c.handle.active = s1 ∧ p.c.handle.gate = gateFor h0.ceilings s1 ∧ PQuiescent p ∧ p.stacks = [] := by
  simp [prun, PState.step, PState.admitReader, CState.step, CState.acquire, popStack, PQuiescent, Quiescent]

/-- sequentially, push then pop is the identity on the active specification and the max level -/
theorem push_pop_sequential (h0 : Handle) (hi : C05.GateInv h0) (s : LogSpec) :
    let p := prun ⟨⟨h0, none, [], []⟩, [], []⟩ [.push 1 s, .finish 1, .pop 1, .finish 1]
    p.c.handle.active = h0.active ∧ p.c.handle.gate = h0.gate ∧ PQuiescent p := by
  simp [prun, PState.step, PState.admitReader, CState.step, CState.acquire, popStack, PQuiescent, Quiescent]
  exact hi.symm

/-- non-vacuity: a concrete interleaving with a waiting push meets the premises -/
example :
    let s0 : LogSpec := ⟨[⟨none, 2⟩], none⟩
    let s1 : LogSpec := ⟨[⟨none, 5⟩], none⟩
    let s2 : LogSpec := ⟨[⟨none, 3⟩], none⟩
    let p := prun ⟨⟨⟨s0, [], 2, []⟩, none, [], []⟩, [], []⟩ [.set 0 s1, .push 1 s2, .finish 0, .finish 1, .pop 1, .finish 1]
    PQuiescent p ∧ p.c.handle.active = s1 ∧ p.c.handle.gate = 5 := by
  simp only [PQuiescent, Quiescent]; decide

end FV.C12
