import FlexiVerif.Lemmas.FlwRestartCleanup
import FlexiVerif.Props.C07
/-
  C06 × C07 — Multi-run histories WITH cleanup: across restarts nothing but the configured
  cleanup limits removes records.

  A multi-run history (`FV.FlwA.MultiRun`) is a plain history (writes, forced rotations, flushes,
  shutdowns; no faults; monotone clock) that may contain `.restart c` operations (a new logger =
  a new process on the same directory; `append`, buffer capacity, symlink and suffix setting free
  per run, same rotation configuration), each directly after a flush/shutdown/restart.
  Rotation configuration `r` with `r.cleanup = some (k, m)`; every criterion (size, age, both,
  none); all four namings, no guard. (`timestampsDirect` with appending restarts needed a guard
  before the `fix:` of finding D22, `C06-tsd-append-after-restart-files`: an appending run
  re-opened the BASE file of the newest second even if `.restart-N` siblings were newer, and
  with cleanup the newest records were lost. Now such a run continues the newest file;
  `tsd_append_cleanup_former_witness` is the history that refuted the statements then.)

  The reference is the abstract multi-run log WITHOUT cleanup of C06 (`FV.FlwA.MAbs`: a run
  without `append` closes the current file it finds — exactly a rotation —, a run with `append`
  continues it). It is literally the view of the same history run with cleanup switched off
  (`multi_run_files_uncleaned`, `restart_cleanup_vs_uncleaned`; this also lifts C06 from streams to
  files for the direct namings).
  Proofs: `Lemmas/FlwRestartCleanup.lean`.
-/
namespace FV.C06Cleanup
open FV FV.Flw FV.FlwRC
open FV.C07 (lastN kk keep)
open FV.FlwA (MAbs MultiRun ents)

/-- the abstract log of a multi-run history without cleanup (C06) -/
def fullLog (cfg : Cfg) (ops : List (Op × Nat × Faults)) : List (List Nat) :=
  (MAbs.run cfg.rot ⟨Abs.init, false, cfg.append⟩ ops).abs.files

/-- the limit of the invariant (closed files kept, plus the current one) in the terms of C07 -/
theorem keep_lim {r : RotCfg} {k m : Nat} (hc : r.cleanup = some (k, m)) :
    succL (limOf r) = some (kk r k + m + (if r.naming.writesDirect then 0 else 1)) := by
  rw [limOf_some hc]
  have : kk r k + m + (if r.naming.writesDirect then 0 else 1) = FV.FlwC.kcOf r k + m + 1 :=
    FV.C07.keep_eq
  rw [this]
  rfl

/-- **2 — exactly the newest files survive, across restarts.** After every multi-run history the
    files on disk, read oldest to newest (compressed ones decompressed, pending buffer included),
    are exactly the newest `kk + m (+ 1)` files of the multi-run log without cleanup: the tail is
    on file (hence record) boundaries and as long as the limits allow. In particular the
    initialisation of a new run (which renames a left-over `rCURRENT` and runs cleanup) removes
    exactly what a rotation at that point would have removed. -/
theorem restart_cleanup_keeps_newest (cfg : Cfg) (r : RotCfg) (k m : Nat) (hr : cfg.rot = some r)
    (hc : r.cleanup = some (k, m)) (ops : List (Op × Nat × Faults)) (hm : MultiRun cfg.rot ops) :
    viewFiles (runOps (init cfg []) ops) =
      lastN (kk r k + m + (if r.naming.writesDirect then 0 else 1)) (fullLog cfg ops) := by
  obtain ⟨t, hi⟩ := multi_run_inv cfg r hr ops hm
  rw [hi.view, keep_lim hc]
  rfl

/-- **C06 at the level of files — every naming.** WITHOUT cleanup the files on disk are exactly
    the files of the abstract multi-run log: nothing is lost, merged or reordered by restarts.
    (C06 proved this for `numbers`/`timestamps`, and only the stream for the direct namings.) -/
theorem multi_run_files_uncleaned (cfg : Cfg) (r : RotCfg) (hr : cfg.rot = some r)
    (hc : r.cleanup = none) (ops : List (Op × Nat × Faults)) (hm : MultiRun cfg.rot ops) :
    viewFiles (runOps (init cfg []) ops) = fullLog cfg ops := by
  obtain ⟨t, hi⟩ := multi_run_inv cfg r hr ops hm
  rw [hi.view, limOf_none hc]
  rfl

/-- **2, in terms of the directory — every naming.** The surviving files are exactly the newest
    files of THE SAME HISTORY RUN WITH CLEANUP SWITCHED OFF (every run, the first one and every
    restarted one, with `Cleanup::Never`; by C06 that run keeps every record). -/
theorem restart_cleanup_vs_uncleaned (cfg : Cfg) (r : RotCfg) (k m : Nat)
    (hr : cfg.rot = some r) (hc : r.cleanup = some (k, m))
    (ops : List (Op × Nat × Faults)) (hm : MultiRun cfg.rot ops) :
    viewFiles (runOps (init cfg []) ops) =
      lastN (kk r k + m + (if r.naming.writesDirect then 0 else 1))
        (viewFiles (runOps (init (offCfg cfg) []) (offOps ops))) := by
  rw [restart_cleanup_keeps_newest cfg r k m hr hc ops hm]
  have hr' : (offCfg cfg).rot = some (offRot r) := by simp [offCfg, hr]
  have hm' : MultiRun (offCfg cfg).rot (offOps ops) := offOps_multiRun cfg.rot ops hm
  rw [multi_run_files_uncleaned (offCfg cfg) (offRot r) hr' rfl (offOps ops) hm']
  have : fullLog (offCfg cfg) (offOps ops) = fullLog cfg ops := by
    unfold fullLog
    have := mabs_run_off cfg.rot ops ⟨Abs.init, false, cfg.append⟩
    exact congrArg (fun x => x.abs.files) this
  rw [this]

/-- … the instance for `numbers`, `numbersDirect`, `timestamps` (the namings for which no guard
    was needed before the `fix:` of finding D22; now a special case) -/
theorem restart_cleanup_vs_uncleaned_unguarded (cfg : Cfg) (r : RotCfg) (k m : Nat)
    (hr : cfg.rot = some r) (hc : r.cleanup = some (k, m))
    (_hnm : r.naming ≠ .timestampsDirect)
    (ops : List (Op × Nat × Faults)) (hm : MultiRun cfg.rot ops) :
    viewFiles (runOps (init cfg []) ops) =
      lastN (kk r k + m + (if r.naming.writesDirect then 0 else 1))
        (viewFiles (runOps (init (offCfg cfg) []) (offOps ops))) :=
  restart_cleanup_vs_uncleaned cfg r k m hr hc ops hm

/-- the abstract multi-run log contains every record of every run exactly once, in order -/
theorem fullLog_flatten (cfg : Cfg) (r : RotCfg) (hr : cfg.rot = some r)
    (ops : List (Op × Nat × Faults)) (hm : MultiRun cfg.rot ops) :
    (fullLog cfg ops).flatten = written ops := by
  obtain ⟨t, hi⟩ := multi_run_inv cfg r hr ops hm
  unfold fullLog
  rw [hi.files_flat, FV.FlwA.MAbs.run_flat cfg.rot ops (Or.inl (by simp [hr])) _
    (Or.inl (by simp [hr]))]
  rfl

/-- **1 — nothing but the cleanup limit removes records across restarts.** What is on disk (read
    oldest → newest, compressed files decompressed, buffer included) is a contiguous TAIL of
    everything logged by all runs. -/
theorem restart_cleanup_tail (cfg : Cfg) (r : RotCfg) (k m : Nat) (hr : cfg.rot = some r)
    (hc : r.cleanup = some (k, m)) (ops : List (Op × Nat × Faults)) (hm : MultiRun cfg.rot ops) :
    ∃ pre, written ops = pre ++ (viewFiles (runOps (init cfg []) ops)).flatten := by
  rw [restart_cleanup_keeps_newest cfg r k m hr hc ops hm,
    ← fullLog_flatten cfg r hr ops hm]
  generalize fullLog cfg ops = fs
  refine ⟨(fs.take (fs.length - (kk r k + m + (if r.naming.writesDirect then 0 else 1)))).flatten, ?_⟩
  rw [← List.flatten_append, FV.C07.take_append_lastN]

/-- **2 — record boundaries.** The surviving files are the last groups of a grouping of the
    records written by all runs (each record exactly once, in order, never split). -/
theorem restart_cleanup_tail_groups (cfg : Cfg) (r : RotCfg) (k m : Nat) (hr : cfg.rot = some r)
    (hc : r.cleanup = some (k, m)) (ops : List (Op × Nat × Faults)) (hm : MultiRun cfg.rot ops) :
    ∃ groups : List (List (List Nat)), groups.flatten = records ops ∧
      viewFiles (runOps (init cfg []) ops) =
        (lastN (kk r k + m + (if r.naming.writesDirect then 0 else 1)) groups).map
          List.flatten := by
  obtain ⟨groups, h1, h2⟩ := mabs_files_groups r cfg.append ops
  refine ⟨groups, h1, ?_⟩
  rw [restart_cleanup_keeps_newest cfg r k m hr hc ops hm, ← FV.C07.lastN_map, ← h2]
  unfold fullLog
  rw [hr]

/-! ### 3. names: no name is reused while a file of that name exists -/

/-- the number of files closed so far by all runs of the history (rotations, and current files
    closed by runs without `append`) -/
def closedCount (cfg : Cfg) (ops : List (Op × Nat × Faults)) : Nat :=
  (MAbs.run cfg.rot ⟨Abs.init, false, cfg.append⟩ ops).abs.closed.length

/-- **3a — a new run never picks an existing index** (`numbers`, `numbersDirect`; ANY directory,
    hence whatever earlier runs removed): `get_highest_index + 1` is above every index present,
    plain or compressed. -/
theorem restart_index_fresh (d : Dir) (e : FName × File) (he : e ∈ ents d) (n : Nat)
    (hn : e.1.ifx = some (.num n)) : n < FV.FlwA.idx0 d :=
  FV.FlwA.idx0_gt d e he n hn

/-- **3a — a new run never picks an existing timestamp name** (`timestamps`,
    `timestampsDirect` without `append`; ANY directory): the collision-free infix is the infix
    of no file present, plain or compressed. -/
theorem restart_stamp_fresh (d : Dir) (k : Nat) (e : FName × File) (he : e ∈ ents d) :
    e.1.ifx ≠ some (collisionFree d k) :=
  FV.FlwA.collisionFree_fresh d k e he

/-- **3b — `numbers`: the index of a running writer stays above the directory.** After every
    multi-run history, every index on disk (plain or compressed) is below the index the writer
    will give to the file it closes next — in particular right after a restart, when that index
    was computed from what earlier removals left. -/
theorem index_above_disk (cfg : Cfg) (r : RotCfg) (hr : cfg.rot = some r)
    (hnm : r.naming = .numbers)
    (ops : List (Op × Nat × Faults)) (hm : MultiRun cfg.rot ops) (act : Active)
    (hact : (runOps (init cfg []) ops).act = some act) :
    ∀ e ∈ ents (runOps (init cfg []) ops).dir, ∀ n, e.1.ifx = some (.num n) → n < act.idx := by
  obtain ⟨t, hi⟩ := multi_run_inv cfg r hr ops hm
  rcases hi.rinv with ⟨hd, -⟩ | ⟨act', hI, hsame, -⟩
  · rw [hd]
    intro e he
    cases he
  · rw [hsame act hact]
    exact hI.index_above hnm

/-- **3b — `numbersDirect`**: the file being written carries the highest index; every other
    index on disk is strictly below. -/
theorem index_above_disk_direct (cfg : Cfg) (r : RotCfg) (hr : cfg.rot = some r)
    (hnm : r.naming = .numbersDirect)
    (ops : List (Op × Nat × Faults)) (hm : MultiRun cfg.rot ops) (act : Active)
    (hact : (runOps (init cfg []) ops).act = some act) :
    act.handle = ⟨some (.num act.idx), false⟩ ∧
    ∀ e ∈ ents (runOps (init cfg []) ops).dir, ∀ n, e.1.ifx = some (.num n) →
      n < act.idx ∨ e.1 = act.handle := by
  obtain ⟨t, hi⟩ := multi_run_inv cfg r hr ops hm
  obtain ⟨-, -, hl⟩ := hi
  rcases hl with ⟨-, a2, ha2, hI2, -, -⟩ | ⟨-, hnone, -⟩
  · rw [ha2] at hact
    cases hact
    exact hI2.index_above_direct hnm
  · rw [hnone] at hact
    cases hact

/-- **3c — indexes are never reset while a rotated file is kept.** `numbersDirect` always,
    `numbers` if the limits keep at least one rotated file (`k + m ≥ 1`): the writer's index is
    the number of files closed so far by ALL runs — every index is used exactly once in the whole
    history. (`numbers` with `(k, m) = (0, 0)`: every rotated file is removed at once and a new
    run starts again at index 0 — see the example below; by 3b no existing file is hit.) -/
theorem index_counts_all_runs (cfg : Cfg) (r : RotCfg) (k m : Nat) (hr : cfg.rot = some r)
    (hc : r.cleanup = some (k, m))
    (hex : r.naming = .numbersDirect ∨ (r.naming = .numbers ∧ 1 ≤ k + m))
    (ops : List (Op × Nat × Faults)) (hm : MultiRun cfg.rot ops) (act : Active)
    (hact : (runOps (init cfg []) ops).act = some act) :
    act.idx = closedCount cfg ops := by
  have hex' : IdxExact r := by
    rcases hex with h | ⟨h, hk⟩
    · exact Or.inl h
    · refine Or.inr ⟨h, ?_⟩
      have : FV.FlwC.kcOf r k = k := by simp [FV.FlwC.kcOf, FV.FlwC.kkOf, h, Naming.writesDirect]
      rw [limOf_some hc, this]
      intro h0
      have : k + m = 0 := Option.some.inj h0
      omega
  obtain ⟨t, hi⟩ := multi_run_inv cfg r hr ops hm
  obtain ⟨-, -, hl⟩ := hi
  rcases hl with ⟨-, a2, ha2, hI2, -, -⟩ | ⟨-, hnone, -⟩
  · rw [ha2] at hact
    cases hact
    exact hI2.idxc hex'
  · rw [hnone] at hact
    cases hact

/-- **3d — which file carries which name (`numbers`).** After every multi-run history the
    rotated files on disk, oldest first, are named exactly `r{n-K} … r{n-1}`, `n` the number of
    files closed so far by all runs, `K = k + m`: file number `i` of the whole multi-run log, as
    long as it exists, is `r{i}` (plain or `.gz`) and nothing else ever is. -/
theorem rotated_names_numbers (cfg : Cfg) (r : RotCfg) (k m : Nat) (hr : cfg.rot = some r)
    (hc : r.cleanup = some (k, m)) (hnm : r.naming = .numbers)
    (ops : List (Op × Nat × Faults)) (hm : MultiRun cfg.rot ops) :
    (rotatedAsc (runOps (init cfg []) ops).dir).map (·.1.ifx) =
      (lastN (k + m) (List.range (closedCount cfg ops))).map (fun i => some (Infix.num i)) := by
  have hkc : FV.FlwC.kcOf r k = k := by simp [FV.FlwC.kcOf, FV.FlwC.kkOf, hnm, Naming.writesDirect]
  obtain ⟨t, hi⟩ := multi_run_inv cfg r hr ops hm
  rcases hi.rinv with ⟨hd, ha⟩ | ⟨act', hI, -⟩
  · unfold closedCount
    rw [hd, ha]
    simp [lastN, Abs.init, rotatedAsc]
  · rw [hI.rotated_names hnm, limOf_some hc, hkc]
    rfl

/-- **3d — `numbersDirect`**: the files on disk (current one included), oldest first, are named
    exactly `r{n-K} … r{n}`, `n` the number of files closed so far by all runs, `K = kk + m - 1`. -/
theorem rotated_names_numbersDirect (cfg : Cfg) (r : RotCfg) (k m : Nat) (hr : cfg.rot = some r)
    (hc : r.cleanup = some (k, m)) (hnm : r.naming = .numbersDirect)
    (ops : List (Op × Nat × Faults)) (hm : MultiRun cfg.rot ops)
    (hst : (fullLog cfg ops) ≠ []) :
    (rotatedAsc (runOps (init cfg []) ops).dir).map (·.1.ifx) =
      (lastN (kk r k + m) (List.range (closedCount cfg ops + 1))).map
        (fun i => some (Infix.num i)) := by
  have hkk : succL (limOf r) = some (kk r k + m) := by
    have hw : r.naming.writesDirect = true := by rw [hnm]; rfl
    rw [keep_lim hc, hw]
    rfl
  obtain ⟨t, hi⟩ := multi_run_inv cfg r hr ops hm
  rcases hi.rinv with ⟨-, ha⟩ | ⟨act', hI, -⟩
  · exfalso
    apply hst
    unfold fullLog
    rw [ha]
    rfl
  · rw [hI.rotated_names_direct hnm, hkk]
    rfl

/-- **3e — name ↔ content (`numbers`, `numbersDirect`).** Every file on disk named `r{i}`
    (plain or `.gz`) holds file `i` of the multi-run log without cleanup — exactly, except for
    the file being written by a `numbersDirect` writer whose buffer is not empty (a prefix: the
    rest is still buffered). So no name is ever taken by a second file while the first one
    exists, and no surviving file was ever overwritten, truncated or mixed up — across rotations,
    removals, compressions and restarts. -/
theorem name_content_numbers (cfg : Cfg) (r : RotCfg) (hr : cfg.rot = some r)
    (hnm : r.naming = .numbers ∨ r.naming = .numbersDirect)
    (ops : List (Op × Nat × Faults)) (hm : MultiRun cfg.rot ops) :
    ∀ e ∈ ents (runOps (init cfg []) ops).dir, ∀ i, e.1.ifx = some (.num i) →
      ∃ x, (fullLog cfg ops)[i]? = some x ∧ e.2.data <+: x ∧
        ((∀ act, (runOps (init cfg []) ops).act = some act →
            e.1 ≠ act.handle ∨ act.pending = []) → e.2.data = x) := by
  obtain ⟨t, hi⟩ := multi_run_inv cfg r hr ops hm
  intro e he i hei
  rcases hi.rinv with ⟨hd, -⟩ | ⟨act', hI, hsame, hnone⟩
  · rw [hd] at he
    cases he
  · obtain ⟨x, h1, h2, h3⟩ := hI.name_content hnm e he i hei
    refine ⟨x, h1, h2, ?_⟩
    intro hne
    apply h3
    cases hact : (runOps (init cfg []) ops).act with
    | none => exact Or.inr (hnone hact)
    | some act =>
      rw [← hsame act hact]
      exact hne act hact

/-- **3f — a plain file and its compressed twin never coexist** (every naming): in every
    reachable state of a multi-run history no infix occurs twice in the directory. This is the
    premise of `C07.compress_lossless` and `C11Cleanup.cleanup_pass_crash_safe`: compression
    never overwrites an existing `.gz`. -/
theorem reachable_ifxDistinct (cfg : Cfg) (r : RotCfg) (hr : cfg.rot = some r)
    (ops : List (Op × Nat × Faults)) (hm : MultiRun cfg.rot ops) :
    FV.FlwL.IfxDistinct (runOps (init cfg []) ops).dir := by
  obtain ⟨t, hi⟩ := multi_run_inv cfg r hr ops hm
  rcases hi.rinv with ⟨hd, -⟩ | ⟨act', hI, -⟩
  · rw [hd]
    exact List.Pairwise.nil
  · obtain ⟨f, C, hd, -, -⟩ := hI.dir
    exact hd.ifxDistinct

/-! ### non-vacuity -/

def exRot (nm : Naming) (k m : Nat) : RotCfg := ⟨none, none, nm, some (k, m)⟩

def exCfg (nm : Naming) (k m : Nat) (app : Bool) (cap : Option Nat) : Cfg :=
  { rot := some (exRot nm k m), append := app, cap := cap, symlink := false }

/-- four runs: rotations in the first run; a run WITH `append` (continues `[3]`, buffer of 4
    bytes); a run WITHOUT `append` (unbuffered; closes the `rCURRENT` it finds); a run without
    `append` right after a rotation (finds an empty `rCURRENT`) -/
def exOps (nm : Naming) (k m : Nat) : List (Op × Nat × Faults) :=
  [(.write [1], 10, noFaults), (.rotate, 10, noFaults), (.write [2], 10, noFaults),
   (.rotate, 11, noFaults), (.write [3], 11, noFaults), (.flush, 0, noFaults),
   (.restart (exCfg nm k m true (some 4)), 0, noFaults),
   (.write [4], 12, noFaults), (.rotate, 12, noFaults), (.write [5], 13, noFaults),
   (.shutdown, 0, noFaults),
   (.restart (exCfg nm k m false none), 0, noFaults),
   (.write [6], 14, noFaults), (.rotate, 14, noFaults), (.flush, 0, noFaults),
   (.restart (exCfg nm k m false (some 2)), 0, noFaults),
   (.write [7], 14, noFaults)]

/-- the example is a multi-run history (for every first configuration) -/
theorem exOps_multiRun (nm : Naming) (k m : Nat) (app : Bool) (cap : Option Nat) :
    MultiRun (exCfg nm k m app cap).rot (exOps nm k m) := by
  refine ⟨?_, ?_, ?_⟩
  · intro o ho
    simp only [exOps, List.mem_cons, List.mem_nil_iff, or_false] at ho
    rcases ho with rfl | rfl | rfl | rfl | rfl | rfl | rfl | rfl | rfl | rfl | rfl | rfl | rfl |
        rfl | rfl | rfl | rfl <;>
      first
        | exact ⟨Or.inl rfl, rfl⟩
        | exact ⟨Or.inr ⟨_, rfl, rfl⟩, rfl⟩
  · unfold Monotone exOps
    simp [Op.usesClock]
  · simp [exOps, FV.FlwA.FlushedBeforeRestart, FV.FlwA.isRestart, FV.FlwA.endsRun]

/-- the multi-run log without cleanup: seven files (the run with `append` continued `[3]`, the
    last run closed the empty `rCURRENT` left by the rotation before it) -/
example : fullLog (exCfg .numbers 1 1 false (some 2)) (exOps .numbers 1 1) =
    [[1], [2], [3, 4], [5], [6], [], [7]] := by decide

/-- … which is what the same history writes with cleanup switched off -/
example : viewFiles (runOps (init (offCfg (exCfg .numbers 1 1 false (some 2))) [])
      (offOps (exOps .numbers 1 1))) = [[1], [2], [3, 4], [5], [6], [], [7]] := by decide

/-- `numbers`, `k = 1`, `m = 1`. After the first run: `r00000.gz` (compressed), `r00001`,
    `rCURRENT = [3]`. The appending run rotates once more: `r00000.gz` is REMOVED, `r00001`
    compressed. -/
example :
    (listing (runOps (init (exCfg .numbers 1 1 false (some 2)) [])
        ((exOps .numbers 1 1).take 6)).dir).map (fun e => (e.1, e.2.data)) =
      [(⟨some (.num 1), false⟩, [2]), (⟨some (.num 0), true⟩, [1])] ∧
    (listing (runOps (init (exCfg .numbers 1 1 false (some 2)) [])
        ((exOps .numbers 1 1).take 9)).dir).map (fun e => (e.1, e.2.data)) =
      [(⟨some (.num 2), false⟩, [3, 4]), (⟨some (.num 1), true⟩, [2])] := by decide

/-- … at the end: `r00004.gz`, `r00005` (the empty file found by the last run), `rCURRENT` -/
example :
    (listing (runOps (init (exCfg .numbers 1 1 false (some 2)) []) (exOps .numbers 1 1)).dir).map
        (fun e => (e.1, e.2.data)) =
      [(⟨some (.num 5), false⟩, []), (⟨some (.num 4), true⟩, [6])] ∧
    viewFiles (runOps (init (exCfg .numbers 1 1 false (some 2)) []) (exOps .numbers 1 1)) =
      [[6], [], [7]] := by decide

/-- … as the theorems say -/
example : viewFiles (runOps (init (exCfg .numbers 1 1 false (some 2)) []) (exOps .numbers 1 1)) =
    lastN 3 (fullLog (exCfg .numbers 1 1 false (some 2)) (exOps .numbers 1 1)) :=
  restart_cleanup_keeps_newest _ (exRot .numbers 1 1) 1 1 rfl rfl _ (exOps_multiRun ..)

example : ∃ pre, written (exOps .numbers 1 1) = pre ++
    (viewFiles (runOps (init (exCfg .numbers 1 1 false (some 2)) []) (exOps .numbers 1 1))).flatten :=
  restart_cleanup_tail _ (exRot .numbers 1 1) 1 1 rfl rfl _ (exOps_multiRun ..)

/-- the state right after the non-appending restart + first write (`take 13`): the `rCURRENT`
    found (`[5]`) became `r00003`, `r00001.gz` was removed by the cleanup of `initState` -/
example :
    (listing (runOps (init (exCfg .numbers 1 1 false (some 2)) [])
        ((exOps .numbers 1 1).take 13)).dir).map (fun e => (e.1, e.2.data)) =
      [(⟨some (.num 3), false⟩, [5]), (⟨some (.num 2), true⟩, [3, 4])] ∧
    viewFiles (runOps (init (exCfg .numbers 1 1 false (some 2)) []) ((exOps .numbers 1 1).take 13)) =
      [[3, 4], [5], [6]] := by decide

/-- `numbersDirect`, `k = 0` (treated as 1), `m = 1`: `r00005.gz` and the current file `r00006` -/
example :
    (listing (runOps (init (exCfg .numbersDirect 0 1 false (some 2)) [])
        (exOps .numbersDirect 0 1)).dir).map (fun e => (e.1, e.2.data)) =
      [(⟨some (.num 6), false⟩, []), (⟨some (.num 5), true⟩, [])] ∧
    viewFiles (runOps (init (exCfg .numbersDirect 0 1 false (some 2)) [])
        (exOps .numbersDirect 0 1)) = [[], [7]] := by decide

/-- `timestamps`, `k = 1`, `m = 2`: the empty file closed by the last run within second 14 got
    the collision-free name `r…14.restart-0000` -/
example :
    (listing (runOps (init (exCfg .timestamps 1 2 false (some 2)) [])
        (exOps .timestamps 1 2)).dir).map (fun e => (e.1, e.2.data)) =
      [(⟨some (.ts 14 (some 0)), false⟩, []), (⟨some (.ts 14 none), true⟩, [6]),
       (⟨some (.ts 12 none), true⟩, [5])] ∧
    viewFiles (runOps (init (exCfg .timestamps 1 2 false (some 2)) []) (exOps .timestamps 1 2)) =
      [[5], [6], [], [7]] := by decide

/-- boundaries `k = 0` (every rotated file is compressed at once: `r00005.gz`) and `m = 0`
    (nothing is compressed: `r00004`, `r00005`), `numbers` -/
example :
    (listing (runOps (init (exCfg .numbers 0 1 false (some 2)) []) (exOps .numbers 0 1)).dir).map
        (fun e => (e.1, e.2.data)) = [(⟨some (.num 5), true⟩, [])] ∧
    viewFiles (runOps (init (exCfg .numbers 0 1 false (some 2)) []) (exOps .numbers 0 1)) =
      [[], [7]] ∧
    (listing (runOps (init (exCfg .numbers 2 0 false (some 2)) []) (exOps .numbers 2 0)).dir).map
        (fun e => (e.1, e.2.data)) =
      [(⟨some (.num 5), false⟩, []), (⟨some (.num 4), false⟩, [6])] ∧
    viewFiles (runOps (init (exCfg .numbers 2 0 false (some 2)) []) (exOps .numbers 2 0)) =
      [[6], [], [7]] := by decide

/-- **boundary `(k, m) = (0, 0)`, `numbers`: indexes DO restart.** Every rotated file is removed
    at once; the run started by the second restart finds no rotated file and starts again at
    index 0: the `rCURRENT` it finds is closed as `r00000` — a name used before (by the first
    run), for a file that no longer exists — and removed by the cleanup of `initState`. Nothing
    within the limits (the current file only) is lost. -/
example :
    (runOps (init (exCfg .numbers 0 0 false (some 2)) []) ((exOps .numbers 0 0).take 12)).dir.get
        ⟨some .cur, false⟩ = some ⟨[5], 12⟩ ∧
    rotatedAsc (runOps (init (exCfg .numbers 0 0 false (some 2)) [])
        ((exOps .numbers 0 0).take 12)).dir = [] ∧
    ((runOps (init (exCfg .numbers 0 0 false (some 2)) []) ((exOps .numbers 0 0).take 13)).act.map
        (·.idx)) = some 1 ∧
    viewFiles (runOps (init (exCfg .numbers 0 0 false (some 2)) []) ((exOps .numbers 0 0).take 13)) =
      [[6]] ∧
    viewFiles (runOps (init (exCfg .numbers 0 0 false (some 2)) []) (exOps .numbers 0 0)) =
      [[7]] := by decide

/-- … whereas with `k + m ≥ 1` the index counts the files closed by all runs (3c) -/
example :
    ((runOps (init (exCfg .numbers 1 1 false (some 2)) []) (exOps .numbers 1 1)).act.map (·.idx)) =
      some 6 ∧ closedCount (exCfg .numbers 1 1 false (some 2)) (exOps .numbers 1 1) = 6 := by
  decide

/-- the same history with cleanup switched off keeps everything; the survivors are its newest
    files (`numbersDirect`: via the new files-level C06 for the direct namings) -/
example :
    viewFiles (runOps (init (offCfg (exCfg .numbersDirect 0 1 false (some 2))) [])
      (offOps (exOps .numbersDirect 0 1))) = [[1], [2], [3, 4], [5], [6], [], [7]] ∧
    viewFiles (runOps (init (exCfg .numbersDirect 0 1 false (some 2)) [])
      (exOps .numbersDirect 0 1)) =
      lastN 2 (viewFiles (runOps (init (offCfg (exCfg .numbersDirect 0 1 false (some 2))) [])
        (offOps (exOps .numbersDirect 0 1)))) :=
  ⟨by decide, restart_cleanup_vs_uncleaned_unguarded _ (exRot .numbersDirect 0 1) 0 1 rfl rfl
    (by intro h; cases h) _ (exOps_multiRun ..)⟩

/-- names (3d, 3e) on the `numbers` example: six files were closed by the four runs; the
    survivors are `r00004` (file 4 of the log, `[6]`) and `r00005` (file 5, `[]`) -/
example :
    closedCount (exCfg .numbers 1 1 false (some 2)) (exOps .numbers 1 1) = 6 ∧
    (rotatedAsc (runOps (init (exCfg .numbers 1 1 false (some 2)) []) (exOps .numbers 1 1)).dir).map
      (fun e => (e.1.ifx, e.2.data)) = [(some (.num 4), [6]), (some (.num 5), [])] := by decide

example :
    (rotatedAsc (runOps (init (exCfg .numbers 1 1 false (some 2)) []) (exOps .numbers 1 1)).dir).map
      (·.1.ifx) = (lastN 2 (List.range 6)).map (fun i => some (Infix.num i)) :=
  rotated_names_numbers _ (exRot .numbers 1 1) 1 1 rfl rfl rfl _ (exOps_multiRun ..)

/-! #### `timestampsDirect` with appending restarts -/

/-- runs WITH `append` that find the newest file under the base name of its second (seconds 12
    and 13), and a run without `append` within second 12 (collision-free name
    `r…12.restart-0001`) -/
def tOps : List (Op × Nat × Faults) :=
  [(.write [1], 10, noFaults), (.rotate, 11, noFaults), (.write [2], 11, noFaults),
   (.rotate, 12, noFaults), (.write [3], 12, noFaults), (.flush, 0, noFaults),
   (.restart (exCfg .timestampsDirect 1 1 true (some 4)), 0, noFaults),
   (.write [4], 12, noFaults), (.rotate, 12, noFaults), (.write [5], 12, noFaults),
   (.shutdown, 0, noFaults),
   (.restart (exCfg .timestampsDirect 1 1 false none), 0, noFaults),
   (.write [6], 12, noFaults), (.rotate, 13, noFaults), (.flush, 0, noFaults),
   (.restart (exCfg .timestampsDirect 1 1 true (some 2)), 0, noFaults),
   (.write [7], 14, noFaults)]

/-- the example is a multi-run history -/
theorem tOps_multiRun : MultiRun (exCfg .timestampsDirect 1 1 false (some 2)).rot tOps := by
  refine ⟨?_, ?_, ?_⟩
  · intro o ho
    simp only [tOps, List.mem_cons, List.mem_nil_iff, or_false] at ho
    rcases ho with rfl | rfl | rfl | rfl | rfl | rfl | rfl | rfl | rfl | rfl | rfl | rfl | rfl |
        rfl | rfl | rfl | rfl <;>
      first
        | exact ⟨Or.inl rfl, rfl⟩
        | exact ⟨Or.inr ⟨_, rfl, rfl⟩, rfl⟩
  · unfold Monotone tOps
    simp [Op.usesClock]
  · simp [tOps, FV.FlwA.FlushedBeforeRestart, FV.FlwA.isRestart, FV.FlwA.endsRun]

example :
    fullLog (exCfg .timestampsDirect 1 1 false (some 2)) tOps =
      [[1], [2], [3, 4], [5], [6], [7]] ∧
    (listing (runOps (init (exCfg .timestampsDirect 1 1 false (some 2)) []) tOps).dir).map
        (fun e => (e.1, e.2.data)) =
      [(⟨some (.ts 13 none), false⟩, []), (⟨some (.ts 12 (some 1)), true⟩, [6])] ∧
    viewFiles (runOps (init (exCfg .timestampsDirect 1 1 false (some 2)) []) tOps) =
      [[6], [7]] := by decide

example : viewFiles (runOps (init (exCfg .timestampsDirect 1 1 false (some 2)) []) tOps) =
    lastN 2 (fullLog (exCfg .timestampsDirect 1 1 false (some 2)) tOps) :=
  restart_cleanup_keeps_newest _ (exRot .timestampsDirect 1 1) 1 1 rfl rfl _ tOps_multiRun

/-- runs WITH `append` that find the newest file under a `.restart-N` name (three files within
    second 10; the appending runs continue `r…10.restart-0001` and `r…10.restart-0002`, the
    latter next to a COMPRESSED sibling) — no guard -/
def uOps : List (Op × Nat × Faults) :=
  [(.write [1], 10, noFaults), (.rotate, 10, noFaults), (.write [2], 10, noFaults),
   (.rotate, 10, noFaults), (.write [3], 10, noFaults), (.shutdown, 0, noFaults),
   (.restart (exCfg .timestampsDirect 1 1 true (some 4)), 0, noFaults),
   (.write [4], 10, noFaults), (.rotate, 10, noFaults), (.write [5], 11, noFaults),
   (.flush, 0, noFaults),
   (.restart (exCfg .timestampsDirect 1 1 true none), 0, noFaults),
   (.write [6], 11, noFaults)]

theorem uOps_multiRun : MultiRun (exCfg .timestampsDirect 1 1 false none).rot uOps := by
  refine ⟨?_, ?_, ?_⟩
  · intro o ho
    simp only [uOps, List.mem_cons, List.mem_nil_iff, or_false] at ho
    rcases ho with rfl | rfl | rfl | rfl | rfl | rfl | rfl | rfl | rfl | rfl | rfl | rfl | rfl <;>
      first
        | exact ⟨Or.inl rfl, rfl⟩
        | exact ⟨Or.inr ⟨_, rfl, rfl⟩, rfl⟩
  · unfold Monotone uOps
    simp [Op.usesClock]
  · simp [uOps, FV.FlwA.FlushedBeforeRestart, FV.FlwA.isRestart, FV.FlwA.endsRun]

example :
    fullLog (exCfg .timestampsDirect 1 1 false none) uOps = [[1], [2], [3, 4], [5, 6]] ∧
    (listing (runOps (init (exCfg .timestampsDirect 1 1 false none) []) (uOps.take 8)).dir).map
        (fun e => (e.1, e.2.data)) =
      [(⟨some (.ts 10 (some 1)), false⟩, [3]), (⟨some (.ts 10 (some 0)), true⟩, [2])] ∧
    viewFiles (runOps (init (exCfg .timestampsDirect 1 1 false none) []) (uOps.take 8)) =
      [[2], [3, 4]] ∧
    (listing (runOps (init (exCfg .timestampsDirect 1 1 false none) []) uOps).dir).map
        (fun e => (e.1, e.2.data)) =
      [(⟨some (.ts 10 (some 2)), false⟩, [5, 6]), (⟨some (.ts 10 (some 1)), true⟩, [3, 4])] ∧
    viewFiles (runOps (init (exCfg .timestampsDirect 1 1 false none) []) uOps) =
      [[3, 4], [5, 6]] := by decide

example : viewFiles (runOps (init (exCfg .timestampsDirect 1 1 false none) []) uOps) =
    lastN 2 (fullLog (exCfg .timestampsDirect 1 1 false none) uOps) :=
  restart_cleanup_keeps_newest _ (exRot .timestampsDirect 1 1) 1 1 rfl rfl _ uOps_multiRun

/-! ### the former finding: `timestampsDirect` WITH `append` and cleanup (repaired) -/

def wCfg : Cfg := exCfg .timestampsDirect 1 1 false none

/-- two files within one second (`r…10` closed and compressed, `r…10.restart-0000` current), then
    a run WITH `append` -/
def wOps : List (Op × Nat × Faults) :=
  [(.write [1], 10, noFaults), (.rotate, 10, noFaults), (.write [2], 10, noFaults),
   (.flush, 0, noFaults), (.restart (exCfg .timestampsDirect 1 1 true none), 0, noFaults),
   (.write [3], 10, noFaults)]

/-- the history is a multi-run history -/
theorem wOps_multiRun : MultiRun wCfg.rot wOps := by
  refine ⟨?_, ?_, ?_⟩
  · intro o ho
    simp only [wOps, List.mem_cons, List.mem_nil_iff, or_false] at ho
    rcases ho with rfl | rfl | rfl | rfl | rfl | rfl <;>
      first
        | exact ⟨Or.inl rfl, rfl⟩
        | exact ⟨Or.inr ⟨_, rfl, rfl⟩, rfl⟩
  · unfold Monotone wOps
    simp [Op.usesClock]
  · simp [wOps, FV.FlwA.FlushedBeforeRestart, FV.FlwA.isRestart, FV.FlwA.endsRun]

/-- **This history was the witness of the defect repaired by the `fix:` commit** (finding D22,
    `C06-tsd-append-after-restart-files`, aggravated by cleanup). Limits `k = 1`, `m = 1` (two
    files are to be kept). Before the restart the directory holds `r…10.gz = [1]` and the current
    file `r…10.restart-0000 = [2]`. Before the repair the appending run computed the BASE name
    `r…10` of the newest second, created it, and the cleanup of `initState` compressed this
    brand-new current file over `r…10.gz` and removed it: records `3` and `1` were lost, only
    `[2]` remained. Now the appending run continues the newest file `r…10.restart-0000`: nothing
    is lost, the view is the whole log `[[1], [2, 3]]` (two files, within the limits). -/
theorem tsd_append_cleanup_former_witness :
    (runOps (init wCfg []) (wOps.take 4)).dir.map (fun e => (e.1, e.2.data)) =
      [(⟨some (.ts 10 (some 0)), false⟩, [2]), (⟨some (.ts 10 none), true⟩, [1])] ∧
    (runOps (init wCfg []) wOps).dir.map (fun e => (e.1, e.2.data)) =
      [(⟨some (.ts 10 (some 0)), false⟩, [2, 3]), (⟨some (.ts 10 none), true⟩, [1])] ∧
    viewFiles (runOps (init wCfg []) wOps) = [[1], [2, 3]] ∧ written wOps = [1, 2, 3] ∧
    fullLog wCfg wOps = [[1], [2, 3]] ∧
    (viewFiles (runOps (init wCfg []) wOps)).flatten = written wOps := by
  refine ⟨by decide, by decide, by decide, by decide, by decide, by decide⟩

/-- … as the theorems say -/
example : viewFiles (runOps (init wCfg []) wOps) = lastN 2 (fullLog wCfg wOps) :=
  restart_cleanup_keeps_newest _ (exRot .timestampsDirect 1 1) 1 1 rfl rfl _ wOps_multiRun

example : ∃ pre, written wOps = pre ++ (viewFiles (runOps (init wCfg []) wOps)).flatten :=
  restart_cleanup_tail _ (exRot .timestampsDirect 1 1) 1 1 rfl rfl _ wOps_multiRun

/-- the guard that was needed before the repair (the newest stamp has no `.restart-N` sibling
    when an appending run is started) does not hold on this history: at the appending restart
    the newest file is the `.restart-0000` sibling of second 10 -/
example : FV.FlwB.newestIsBaseB (runOps (init wCfg []) (wOps.take 4)).dir = false := by decide

end FV.C06Cleanup
