/-
  C07 (background thread) — All interleavings of the cleanup thread's steps with further
  rotations.

  Setting: `FlexiVerif/Model/Bg.lean`. The logging thread rotates (`rotate`: a new newest rotated
  file, an `Act` message) or just sends a message (`kick`); the cleanup thread takes a message and
  lists the directory (`take`) and then works through the plan it derived from THAT listing, one
  file operation at a time (`exec`), while the logging thread goes on rotating. `k` plain and `m`
  compressed files are to be kept.
-/
import FlexiVerif.Lemmas.Bg
namespace FV.C07Bg
open FV.Bg

/-- **Confluence.** Whatever the interleaving of rotations with the thread's steps was: once the
    thread has worked off its queue (shutdown), the directory is exactly what the synchronous
    cleanup would have left after the same number of rotations. (Holds for every schedule; without
    any rotation both sides are `[]`.) -/
theorem bg_final_eq_sync (k m : Nat) (sched : List Step) :
    (drainAll k m (run k m {} sched)).d = syncDir k m (rotations sched) := by
  have h := (Inv.init k m).run sched
  rw [(drainAll_spec h).1, run_next, syncDir_eq_explicit]
  show explicit k m (0 + rotations sched) = _
  rw [Nat.zero_add]

/-- **Safety at every moment** (not only at the end): in every reachable state the `k + m` newest
    rotated files all exist, and the `k` newest ones are uncompressed — a lagging pass never
    removes or compresses a file that an up-to-date pass would keep. -/
theorem bg_newest_untouched (k m : Nat) (sched : List Step) :
    let s := run k m {} sched
    (∀ id, id < s.next → s.next ≤ id + (k + m) → ∃ f ∈ s.d, f.id = id) ∧
    (∀ f ∈ s.d, s.next ≤ f.id + k → f.gz = false) :=
  have h := (Inv.init k m).run sched
  ⟨h.good.ex, h.good.plain⟩

/-- **Explicit form of the synchronous result**: after `n` rotations the directory holds exactly
    the ranks `n - (k+m) .. n - 1` (clamped at 0), oldest first, the `k` newest uncompressed, the
    others compressed. -/
theorem syncDir_explicit (k m n : Nat) :
    syncDir k m n = (List.range n).filterMap (fun id =>
      if n ≤ id + (k + m) then some ⟨id, decide (id + k < n)⟩ else none) :=
  syncDir_eq_explicit k m n

/-- the queue is empty and the thread idle after `drainAll` -/
theorem drainAll_quiescent (k m : Nat) (sched : List Step) :
    (drainAll k m (run k m {} sched)).queue = 0 ∧ (drainAll k m (run k m {} sched)).cur = [] :=
  (drainAll_spec ((Inv.init k m).run sched)).2

/-! ### non-vacuity: a schedule on which the thread lags (`k = 1`, `m = 2`) -/

/-- three rotations; the thread takes the message and compresses one file; two more rotations; the
    thread compresses the next file of its (by now outdated) plan; one more rotation -/
def lagging : List Step :=
  [.rotate, .rotate, .rotate, .take, .exec, .rotate, .rotate, .exec, .rotate]

/-- the thread is behind: rank 2 is still plain, ranks 0..2 still exist, two messages wait -/
example : (run 1 2 {} lagging).d =
    [⟨0, true⟩, ⟨1, true⟩, ⟨2, false⟩, ⟨3, false⟩, ⟨4, false⟩, ⟨5, false⟩] := by decide
example : (run 1 2 {} lagging).queue = 5 ∧ (run 1 2 {} lagging).cur = [] := by decide
/-- the synchronous cleanup would have left this -/
example : syncDir 1 2 (rotations lagging) = [⟨3, true⟩, ⟨4, true⟩, ⟨5, false⟩] := by decide
example : (run 1 2 {} lagging).d ≠ syncDir 1 2 (rotations lagging) := by decide
/-- after shutdown the two agree -/
example : (drainAll 1 2 (run 1 2 {} lagging)).d = [⟨3, true⟩, ⟨4, true⟩, ⟨5, false⟩] := by decide
example : (drainAll 1 2 (run 1 2 {} lagging)).d = syncDir 1 2 (rotations lagging) := by decide

/-- in the middle of an outdated pass the compressed files are not all older than the plain ones
    (rank 1 is compressed, rank 0 is not yet): the listing of such a directory would not be
    "newest first", but the thread only lists when it is idle -/
example : (run 1 2 {} [.rotate, .rotate, .rotate, .take, .exec]).d =
    [⟨0, false⟩, ⟨1, true⟩, ⟨2, false⟩] := by decide

/-- boundary cases: nothing is kept (`k = m = 0`), only plain files (`m = 0`), only compressed
    files (`k = 0`) -/
example : (drainAll 0 0 (run 0 0 {} lagging)).d = [] := by decide
example : (drainAll 2 0 (run 2 0 {} lagging)).d = [⟨4, false⟩, ⟨5, false⟩] := by decide
example : (drainAll 0 2 (run 0 2 {} lagging)).d = [⟨4, true⟩, ⟨5, true⟩] := by decide

/-- **Why `shutdown()` must wait for the thread** (the seeded change C07f: the asynchronous writer
    thread only flushes on shutdown, the cleanup thread is neither told to stop nor joined). A
    `shutdown()` that does not drain leaves the directory as the lagging thread last left it: the
    limits `k = 1`, `m = 2` are exceeded (four plain files), whereas the drained directory obeys
    them. -/
theorem no_drain_violation_witness :
    ((run 1 2 {} lagging).d.filter (fun f => !f.gz)).length = 4 ∧
    ((drainAll 1 2 (run 1 2 {} lagging)).d.filter (fun f => !f.gz)).length = 1 ∧
    ((drainAll 1 2 (run 1 2 {} lagging)).d.filter (fun f => f.gz)).length = 2 := by decide

end FV.C07Bg
