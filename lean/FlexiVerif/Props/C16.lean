import FlexiVerif.Props.C14
/-
  C16 — Files are named as documented; `FileSpec::try_from` denotes the given path; the listing
  (`existing_log_files`) is exact; the structural order used by the file-writer proofs
  (`Flw.Infix.key`/`keyLt`) is the order of the rendered names.

  Findings recorded here as witnesses:
  * `numbers_order_violation_witness`: beyond index 99999 the newest file sorts first;
  * `restart_order_txt_witness`: with a suffix sorting after `restart` (`txt`, `trc`) the base
    file sorts AFTER its `.restart-NNNN` siblings;
  * `empty_discriminant_witness`: an empty discriminant still contributes its separator
    (`app__r00001.log`).
-/
namespace FV.C16
open FV FV.Flw FV.Names

/-! ### 1. the documented name pattern -/

/-- `fixed_name_part`: basename and discriminant joined by `_`; no leading underscore for an
    empty basename -/
theorem fixedPart_cases (b : List Char) (sfx : Option (List Char)) (ct : List Char) (fm : Nat) :
    fixedPart ⟨b, none, sfx, ct, fm⟩ = b ∧
    (∀ d, fixedPart ⟨[], some d, sfx, ct, fm⟩ = d) ∧
    (∀ d, b ≠ [] → fixedPart ⟨b, some d, sfx, ct, fm⟩ = b ++ "_".toList ++ d) := by
  refine ⟨rfl, fun d => by simp [fixedPart, appendUnderscore], fun d hb => ?_⟩
  simp [fixedPart, appendUnderscore, hb]

/-- no infix (non-rotating writer): `fixed[.suffix][.gz]` -/
theorem name_without_infix (sp : Spec) (gz : Bool) :
    render sp ⟨none, gz⟩ = fixedPart sp ++ suffixText sp ++ gzText gz := render_none sp gz

/-- non-empty infix: `[fixed_]infix[.suffix][.gz]`; the separator is omitted iff the fixed part
    is empty -/
theorem name_with_infix (sp : Spec) (i : Infix) (gz : Bool) (hne : ∀ k, i ≠ .ext k)
    (hr : renderInfix sp i ≠ []) :
    render sp ⟨some i, gz⟩ =
      (if fixedPart sp = [] then [] else fixedPart sp ++ "_".toList) ++ renderInfix sp i ++
        suffixText sp ++ gzText gz := by
  rw [render_some sp i gz hne hr, sepPrefix]
  simp

/-- empty infix (an empty custom current token): no trailing underscore -/
theorem name_with_empty_infix (sp : Spec) (i : Infix) (gz : Bool) (hne : ∀ k, i ≠ .ext k)
    (hr : renderInfix sp i = []) :
    render sp ⟨some i, gz⟩ = render sp ⟨none, gz⟩ := by
  rw [render_some_empty sp i gz hne hr, render_none]

/-- the fully explicit instance of the pattern -/
theorem name_b_d_i_s (b d s ct : List Char) (fm : Nat) (i : Infix) (hb : b ≠ [])
    (hne : ∀ k, i ≠ .ext k) (hr : renderInfix ⟨b, some d, some s, ct, fm⟩ i ≠ []) :
    render ⟨b, some d, some s, ct, fm⟩ ⟨some i, false⟩ =
      b ++ "_".toList ++ d ++ "_".toList ++ renderInfix ⟨b, some d, some s, ct, fm⟩ i ++ ".".toList ++ s := by
  rw [render_some _ i false hne hr]
  simp [sepPrefix, fixedPart, appendUnderscore, hb, suffixText, gzText]

theorem name_d_i_s (d s ct : List Char) (fm : Nat) (i : Infix) (hd : d ≠ [])
    (hne : ∀ k, i ≠ .ext k) (hr : renderInfix ⟨[], some d, some s, ct, fm⟩ i ≠ []) :
    render ⟨[], some d, some s, ct, fm⟩ ⟨some i, true⟩ =
      d ++ "_".toList ++ renderInfix ⟨[], some d, some s, ct, fm⟩ i ++ ".".toList ++ s ++ ".gz".toList := by
  rw [render_some _ i true hne hr]
  simp [sepPrefix, fixedPart, appendUnderscore, hd, suffixText, gzText]

theorem name_b_i (b ct : List Char) (fm : Nat) (i : Infix) (hb : b ≠ [])
    (hne : ∀ k, i ≠ .ext k) (hr : renderInfix ⟨b, none, none, ct, fm⟩ i ≠ []) :
    render ⟨b, none, none, ct, fm⟩ ⟨some i, false⟩ =
      b ++ "_".toList ++ renderInfix ⟨b, none, none, ct, fm⟩ i := by
  rw [render_some _ i false hne hr]
  simp [sepPrefix, fixedPart, hb, suffixText, gzText]

theorem name_i_s (s ct : List Char) (fm : Nat) (i : Infix)
    (hne : ∀ k, i ≠ .ext k) (hr : renderInfix ⟨[], none, some s, ct, fm⟩ i ≠ []) :
    render ⟨[], none, some s, ct, fm⟩ ⟨some i, false⟩ =
      renderInfix ⟨[], none, some s, ct, fm⟩ i ++ ".".toList ++ s := by
  rw [render_some _ i false hne hr]
  simp [sepPrefix, fixedPart, suffixText, gzText]

/-- the non-empty ones of basename, discriminant, rendered infix -/
def nameParts (sp : Spec) (ifx : Option Infix) : List (List Char) :=
  [sp.basename, sp.discr.getD [], match ifx with | some i => renderInfix sp i | none => []].filter
    (fun p => !p.isEmpty)

/-- C16.1: `render = intercalate "_" (non-empty parts) ++ [.suffix] ++ [.gz]`, provided the
    discriminant is not the empty text (see `empty_discriminant_witness`) -/
theorem name_pattern (sp : Spec) (ifx : Option Infix) (gz : Bool)
    (hne : ∀ k, ifx ≠ some (.ext k)) (hd : sp.discr ≠ some []) :
    render sp ⟨ifx, gz⟩ =
      List.intercalate "_".toList (nameParts sp ifx) ++ suffixText sp ++ gzText gz := by
  obtain ⟨b, d, sfx, ct, fm⟩ := sp
  have hfix : fixedPart ⟨b, d, sfx, ct, fm⟩ =
      List.intercalate "_".toList ([b, d.getD []].filter (fun p => !p.isEmpty)) := by
    cases b <;> cases d with
    | none => simp [fixedPart, List.intercalate]
    | some d =>
      cases d with
      | nil => simp at hd
      | cons _ _ => simp [fixedPart, appendUnderscore, List.intercalate, List.intersperse]
  have h3 : ∀ a c : List Char, List.filter (fun p => !p.isEmpty) [a, c, []] =
      List.filter (fun p => !p.isEmpty) [a, c] := by
    intro a c; simp [List.filter_cons]
  cases ifx with
  | none =>
    rw [render_none, hfix]
    simp [nameParts, h3]
  | some i =>
    have hne' : ∀ k, i ≠ .ext k := fun k e => hne k (by rw [e])
    by_cases hr : renderInfix ⟨b, d, sfx, ct, fm⟩ i = []
    · rw [render_some_empty _ i gz hne' hr, hfix]
      simp [nameParts, hr, h3]
    · rw [render_some _ i gz hne' hr, sepPrefix, hfix]
      congr 2
      cases hri : renderInfix ⟨b, d, sfx, ct, fm⟩ i with
      | nil => exact absurd hri hr
      | cons c cs =>
        cases b <;> cases d with
        | none => simp [nameParts, hri, List.intercalate, List.intersperse]
        | some d =>
          cases d with
          | nil => simp at hd
          | cons _ _ => simp [nameParts, hri, List.intercalate, List.intersperse]

/-- NOTE: an empty discriminant is not omitted: it still contributes its separator -/
theorem empty_discriminant_witness :
    render ⟨"app".toList, some [], some "log".toList, "rCURRENT".toList, 0⟩ ⟨some (.num 1), false⟩
      = "app__r00001.log".toList := by decide

example : render ⟨"app".toList, some "d".toList, some "log".toList, "rCURRENT".toList, 0⟩
    ⟨some (.num 7), true⟩ = "app_d_r00007.log.gz".toList := by decide
example : render ⟨[], some "d".toList, some "log".toList, "rCURRENT".toList, 0⟩
    ⟨some .cur, false⟩ = "d_rCURRENT.log".toList := by decide
example : render ⟨"äpp".toList, none, none, [], 0⟩ ⟨some .cur, false⟩ = "äpp".toList := by decide
example : nameParts ⟨[], some "d".toList, some "log".toList, "rCURRENT".toList, 0⟩ (some .cur)
    = ["d".toList, "rCURRENT".toList] := by decide

/-! ### 2. the number infix -/

/-- C16.2: `r` followed by at least five digits, exactly five below 100000; the digits parse
    back to the index -/
theorem number_infix_shape (n : Nat) :
    ∃ ds, numberInfix n = 'r' :: ds ∧ ds.length ≥ 5 ∧ (∀ c ∈ ds, isDigit c = true) ∧
      (ds.length = 5 ↔ n < 100000) ∧ parseNatDigits ds 0 = some n :=
  ⟨pad 5 n, rfl, pad_length_ge 5 n, pad_digits 5 n, pad_length_eq_iff 4 n, parseNatDigits_pad 5 n⟩

theorem numberInfix_injective {n m : Nat} (h : numberInfix n = numberInfix m) : n = m := by
  simp only [numberInfix, List.cons.injEq, true_and] at h
  exact pad_injective 5 h

example : numberInfix 12 = "r00012".toList ∧ numberInfix 123456 = "r123456".toList := by decide

/-! ### 3. `FileSpec::try_from` -/

/-- C16.3, for EVERY text: the spec derived from a file name denotes exactly that name -/
theorem tryFrom_roundtrip_all (f : List Char) : tryFromName f = f := by
  unfold tryFromName
  simp only []
  rw [render_none]
  simp only [fixedPart, suffixText, gzText, Bool.false_eq_true, if_false, List.append_nil]
  exact splitExt_reassemble f

/-- C16.3 as stated (the hypotheses delimit where the model speaks for `Path`: a single normal
    path component): name, directory and the (stem, extension) pair -/
theorem tryFrom_roundtrip (f : List Char) (_h1 : f ≠ []) (_h2 : f ≠ "..".toList) (_h3 : '/' ∉ f) :
    tryFromName f = f ∧
    (tryFrom none f).1 = ".".toList ∧
    (∀ d, d ≠ [] → (tryFrom (some d) f).1 = d) ∧
    (∀ dir, (tryFrom dir f).2 = splitExt f) ∧
    (splitExt f).1 ++ (match (splitExt f).2 with | some e => '.' :: e | none => []) = f := by
  refine ⟨tryFrom_roundtrip_all f, rfl, ?_, fun _ => rfl, splitExt_reassemble f⟩
  intro d hd
  simp [tryFrom, hd]

example : tryFrom none ".bashrc".toList = (".".toList, ".bashrc".toList, none) := by decide
example : tryFrom none "a.b.c".toList = (".".toList, "a.b".toList, some "c".toList) := by decide
example : tryFrom (some "logs".toList) "noext".toList = ("logs".toList, "noext".toList, none) := by decide
example : tryFrom none "x.".toList = (".".toList, "x".toList, some []) := by decide
example : tryFromName "x.".toList = "x.".toList ∧ tryFromName ".bashrc".toList = ".bashrc".toList ∧
    tryFromName "a.b.c".toList = "a.b.c".toList := by decide

/-! ### 4. order of the rendered names = structural order `keyLt` on `Infix.key` -/

/-- lifting: same prefix, infixes of equal length, arbitrary rests -/
theorem ltText_lift (p a b s t : List Char) (hl : a.length = b.length) (h : ltText a b = true) :
    ltText (p ++ a ++ s) (p ++ b ++ t) = true := by
  rw [List.append_assoc, List.append_assoc, ltText_append_left]
  exact ltText_append_of_lt s t hl h

theorem numberInfix_length (n : Nat) (h : n < 100000) : (numberInfix n).length = 6 := by
  simp [numberInfix, pad_length_of_lt 4 n h]

/-- C16.4 numbers, infix level -/
theorem numberInfix_lt (n m : Nat) (h : n < m) (hm : m < 100000) :
    ltText (numberInfix n) (numberInfix m) = true := by
  simp only [numberInfix, ltText_cons_same]
  exact ltText_pad 4 n m h hm

/-- C16.4 numbers, full names (any compression flags) -/
theorem numbers_order (sp : Spec) (n m : Nat) (g1 g2 : Bool) (h : n < m) (hm : m < 100000) :
    ltText (render sp ⟨some (.num n), g1⟩) (render sp ⟨some (.num m), g2⟩) = true := by
  rw [render_some sp (.num n) g1 (by simp) (numberInfix_ne_nil n),
    render_some sp (.num m) g2 (by simp) (numberInfix_ne_nil m)]
  simp only [renderInfix, List.append_assoc]
  rw [← List.append_assoc, ← List.append_assoc (sepPrefix sp) (numberInfix m)]
  exact ltText_lift _ _ _ _ _
    (by rw [numberInfix_length n (by omega), numberInfix_length m hm]) (numberInfix_lt n m h hm)

/-- … as an equation with the structural order (same compression flag) -/
theorem numbers_order_key (sp : Spec) (n m : Nat) (g : Bool) (hn : n < 100000) (hm : m < 100000) :
    ltText (render sp ⟨some (.num n), g⟩) (render sp ⟨some (.num m), g⟩) =
      keyLt (Infix.num n).key (Infix.num m).key := by
  rcases Nat.lt_trichotomy n m with h | h | h
  · rw [numbers_order sp n m g g h hm]; simp [keyLt, Infix.key, h]
  · subst h; rw [ltText_irrefl]; simp [keyLt, Infix.key]
  · rw [ltText_asymm (numbers_order sp m n g g h hn)]
    have : ¬ n < m := by omega
    simp [keyLt, Infix.key, this]

/-- KNOWN FINDING: beyond 99999 the newest file sorts first -/
theorem numbers_order_violation_witness : ltText (numberInfix 100000) (numberInfix 99999) = true := by
  decide

/-- … for the full names of every spec -/
theorem numbers_order_violation_names (sp : Spec) (g1 g2 : Bool) :
    ltText (render sp ⟨some (.num 100000), g1⟩) (render sp ⟨some (.num 99999), g2⟩) = true := by
  rw [render_some sp (.num 100000) g1 (by simp) (numberInfix_ne_nil _),
    render_some sp (.num 99999) g2 (by simp) (numberInfix_ne_nil _)]
  simp only [renderInfix, List.append_assoc]
  rw [ltText_append_left, show numberInfix 100000 = "r100000".toList by decide,
    show numberInfix 99999 = "r99999".toList by decide]
  simp [ltText]

/-! #### timestamps -/

/-- the common skeleton of the three timestamp formats: six fixed-width fields and constant
    separators -/
def stampText (s0 s1 s2 s3 s4 s5 s6 : List Char) (y mo d h mi s : Nat) : List Char :=
  s0 ++ (pad 4 y ++ (s1 ++ (pad 2 mo ++ (s2 ++ (pad 2 d ++ (s3 ++ (pad 2 h ++ (s4 ++ (pad 2 mi ++
    (s5 ++ (pad 2 s ++ s6)))))))))))

theorem ltText_stampText (s0 s1 s2 s3 s4 s5 s6 : List Char) (y mo d h mi s y' mo' d' h' mi' s' : Nat)
    (hy : y < 10 ^ 4) (hy' : y' < 10 ^ 4) (hmo : mo < 10 ^ 2) (hmo' : mo' < 10 ^ 2)
    (hd : d < 10 ^ 2) (hd' : d' < 10 ^ 2) (hh : h < 10 ^ 2) (hh' : h' < 10 ^ 2)
    (hmi : mi < 10 ^ 2) (hmi' : mi' < 10 ^ 2) (hs : s < 10 ^ 2) (hs' : s' < 10 ^ 2)
    (hlex : y < y' ∨ (y = y' ∧ (mo < mo' ∨ (mo = mo' ∧ (d < d' ∨ (d = d' ∧ (h < h' ∨ (h = h' ∧
      (mi < mi' ∨ (mi = mi' ∧ s < s')))))))))) :
    ltText (stampText s0 s1 s2 s3 s4 s5 s6 y mo d h mi s)
      (stampText s0 s1 s2 s3 s4 s5 s6 y' mo' d' h' mi' s') = true := by
  unfold stampText
  rw [ltText_append_left]
  apply ltText_field 3 y y' _ _ hy hy'
  rcases hlex with h1 | ⟨rfl, hlex⟩
  · exact Or.inl h1
  refine Or.inr ⟨rfl, ?_⟩
  rw [ltText_append_left]
  apply ltText_field 1 mo mo' _ _ hmo hmo'
  rcases hlex with h1 | ⟨rfl, hlex⟩
  · exact Or.inl h1
  refine Or.inr ⟨rfl, ?_⟩
  rw [ltText_append_left]
  apply ltText_field 1 d d' _ _ hd hd'
  rcases hlex with h1 | ⟨rfl, hlex⟩
  · exact Or.inl h1
  refine Or.inr ⟨rfl, ?_⟩
  rw [ltText_append_left]
  apply ltText_field 1 h h' _ _ hh hh'
  rcases hlex with h1 | ⟨rfl, hlex⟩
  · exact Or.inl h1
  refine Or.inr ⟨rfl, ?_⟩
  rw [ltText_append_left]
  apply ltText_field 1 mi mi' _ _ hmi hmi'
  rcases hlex with h1 | ⟨rfl, hlex⟩
  · exact Or.inl h1
  refine Or.inr ⟨rfl, ?_⟩
  rw [ltText_append_left]
  exact ltText_field 1 s s' _ _ hs hs' (Or.inl hlex)

theorem stampText_length (s0 s1 s2 s3 s4 s5 s6 : List Char) (y mo d h mi s : Nat)
    (hy : y < 10 ^ 4) (hmo : mo < 10 ^ 2) (hd : d < 10 ^ 2) (hh : h < 10 ^ 2)
    (hmi : mi < 10 ^ 2) (hs : s < 10 ^ 2) :
    (stampText s0 s1 s2 s3 s4 s5 s6 y mo d h mi s).length =
      s0.length + s1.length + s2.length + s3.length + s4.length + s5.length + s6.length + 14 := by
  simp only [stampText, List.length_append, pad_length_of_lt 3 y hy, pad_length_of_lt 1 mo hmo,
    pad_length_of_lt 1 d hd, pad_length_of_lt 1 h hh, pad_length_of_lt 1 mi hmi,
    pad_length_of_lt 1 s hs]
  omega

/-- the year-first formats with all six fields (every format but the day-first fmt 3 and the
    date-only fmt 4) are instances of the skeleton -/
theorem renderStamp_eq (fmt : Nat) (hf : fmt ≠ 3 ∧ fmt ≠ 4) :
    ∃ s0 s1 s2 s3 s4 s5 s6, ∀ k, renderStamp fmt k =
      stampText s0 s1 s2 s3 s4 s5 s6 (k / 10000000000) (k / 100000000 % 100) (k / 1000000 % 100)
        (k / 10000 % 100) (k / 100 % 100) (k % 100) := by
  by_cases h1 : fmt = 1
  · subst h1
    exact ⟨['r'], [], [], ['-'], [], [], [], fun k => by simp [renderStamp, stampText]⟩
  by_cases h2 : fmt = 2
  · subst h2
    exact ⟨['r'], ['-'], ['-'], ['_'], ['-'], ['-'], "_x".toList, fun k => by
      simp [renderStamp, stampText]⟩
  · refine ⟨['r'], ['-'], ['-'], ['_'], ['-'], ['-'], [], fun k => ?_⟩
    unfold renderStamp
    split
    · exact absurd rfl h1
    · exact absurd rfl h2
    · exact absurd rfl hf.1
    · exact absurd rfl hf.2
    · simp [stampText]

theorem stamp_decomp (k : Nat) :
    k = (k / 10000000000) * 10000000000 + (k / 100000000 % 100) * 100000000 +
        (k / 1000000 % 100) * 1000000 + (k / 10000 % 100) * 10000 + (k / 100 % 100) * 100 + k % 100 := by
  omega

/-- the packed number orders like the tuple of its fields -/
theorem lex6 (y mo d h mi s y' mo' d' h' mi' s' : Nat)
    (hmo : mo < 100) (hmo' : mo' < 100) (hd : d < 100) (hd' : d' < 100) (hh : h < 100) (hh' : h' < 100)
    (hmi : mi < 100) (hmi' : mi' < 100) (hs : s < 100) (hs' : s' < 100)
    (hlt : y * 10000000000 + mo * 100000000 + d * 1000000 + h * 10000 + mi * 100 + s <
      y' * 10000000000 + mo' * 100000000 + d' * 1000000 + h' * 10000 + mi' * 100 + s') :
    y < y' ∨ (y = y' ∧ (mo < mo' ∨ (mo = mo' ∧ (d < d' ∨ (d = d' ∧ (h < h' ∨ (h = h' ∧
      (mi < mi' ∨ (mi = mi' ∧ s < s'))))))))) := by
  omega

theorem year_lt (k : Nat) (hk : k < 10 ^ 14) : k / 10000000000 < 10 ^ 4 := by
  have h14 : (10 : Nat) ^ 14 = 100000000000000 := by decide
  have h4 : (10 : Nat) ^ 4 = 10000 := by decide
  rw [h14] at hk; rw [h4]; omega

theorem mod100_lt (x : Nat) : x % 100 < 10 ^ 2 := Nat.mod_lt _ (by decide)

/-- C16.4 timestamps, infix level (every year-first format; 4-digit years): the packed stamp
    order is the text order. The field ranges need no hypothesis (`% 100`), and `10^13 ≤ k` is
    not needed. -/
theorem stamps_order (fmt k k' : Nat) (hf : fmt ≠ 3 ∧ fmt ≠ 4) (h : k < k') (hk' : k' < 10 ^ 14) :
    ltText (renderStamp fmt k) (renderStamp fmt k') = true := by
  obtain ⟨s0, s1, s2, s3, s4, s5, s6, he⟩ := renderStamp_eq fmt hf
  rw [he k, he k']
  have hm' : ∀ x : Nat, x % 100 < 100 := fun x => Nat.mod_lt _ (by decide)
  refine ltText_stampText _ _ _ _ _ _ _ _ _ _ _ _ _ _ _ _ _ _ _ (year_lt k (by omega)) (year_lt k' hk')
    (mod100_lt _) (mod100_lt _) (mod100_lt _) (mod100_lt _) (mod100_lt _) (mod100_lt _)
    (mod100_lt _) (mod100_lt _) (mod100_lt _) (mod100_lt _) ?_
  apply lex6 _ _ _ _ _ _ _ _ _ _ _ _ (hm' _) (hm' _) (hm' _) (hm' _) (hm' _) (hm' _) (hm' _) (hm' _)
    (hm' _) (hm' _)
  rw [← stamp_decomp k, ← stamp_decomp k']
  exact h

theorem renderStamp_length_eq (fmt k k' : Nat) (hf : fmt ≠ 3 ∧ fmt ≠ 4) (hk : k < 10 ^ 14) (hk' : k' < 10 ^ 14) :
    (renderStamp fmt k).length = (renderStamp fmt k').length := by
  obtain ⟨s0, s1, s2, s3, s4, s5, s6, he⟩ := renderStamp_eq fmt hf
  rw [he k, he k',
    stampText_length _ _ _ _ _ _ _ _ _ _ _ _ _ (year_lt k hk) (mod100_lt _) (mod100_lt _)
      (mod100_lt _) (mod100_lt _) (mod100_lt _),
    stampText_length _ _ _ _ _ _ _ _ _ _ _ _ _ (year_lt k' hk') (mod100_lt _) (mod100_lt _)
      (mod100_lt _) (mod100_lt _) (mod100_lt _)]

example : renderStamp 0 20240131100000 = "r2024-01-31_10-00-00".toList ∧
    renderStamp 1 20240131100000 = "r20240131-100000".toList ∧
    renderStamp 2 20240131100000 = "r2024-01-31_10-00-00_x".toList ∧
    renderStamp 3 20240131100000 = "r31-01-2024_10-00-00".toList ∧
    renderStamp 4 20240131000000 = "r2024-01-31".toList := by decide

/-- full statement of the order lemma for EVERY format -/
def stamps_order_full_statement : Prop :=
  ∀ fmt k k', k < k' → k' < 10 ^ 14 → ltText (renderStamp fmt k) (renderStamp fmt k') = true

/-- FALSE for the day-first format (a legal `TimestampsCustomFormat`): the 31st of January sorts
    after the 1st of February. Everything that relies on the text order of the names (listing
    order, which files the cleanup keeps) is therefore stated for the year-first formats only;
    the C07 consequence for the real code is the known finding `C07-day-first-format`. -/
theorem stamps_order_dayfirst_violation_witness : ¬ stamps_order_full_statement := by
  intro h
  have := h 3 20240131100000 20240201100000 (by decide) (by decide)
  revert this
  decide

theorem renderInfix_ts (sp : Spec) (k : Nat) (r : Option Nat) :
    ∃ t, renderInfix sp (.ts k r) = renderStamp sp.fmt k ++ t := by
  cases r with
  | none => exact ⟨[], by simp [renderInfix]⟩
  | some r => exact ⟨".restart-".toList ++ pad 4 r, by simp [renderInfix]⟩

theorem renderInfix_ts_ne_nil (sp : Spec) (k : Nat) (r : Option Nat) :
    renderInfix sp (.ts k r) ≠ [] := by
  cases r <;> simp [renderInfix, renderStamp_ne_nil]

/-- full names: different stamps (any restart numbers, any compression flags) -/
theorem stamps_order_names (sp : Spec) (k k' : Nat) (r r' : Option Nat) (g g' : Bool)
    (hf : sp.fmt ≠ 3 ∧ sp.fmt ≠ 4) (h : k < k') (hk' : k' < 10 ^ 14) :
    ltText (render sp ⟨some (.ts k r), g⟩) (render sp ⟨some (.ts k' r'), g'⟩) = true := by
  rw [render_some sp _ g (by simp) (renderInfix_ts_ne_nil sp k r),
    render_some sp _ g' (by simp) (renderInfix_ts_ne_nil sp k' r')]
  obtain ⟨t, ht⟩ := renderInfix_ts sp k r
  obtain ⟨t', ht'⟩ := renderInfix_ts sp k' r'
  rw [ht, ht']
  simp only [List.append_assoc]
  rw [← List.append_assoc, ← List.append_assoc (sepPrefix sp) (renderStamp sp.fmt k')]
  exact ltText_lift _ _ _ _ _ (renderStamp_length_eq _ _ _ hf (by omega) hk')
    (stamps_order _ _ _ hf h hk')

/-! #### restart siblings -/

/-- `pad 4 r` order -/
theorem restart_number_order (r r' : Nat) (h : r < r') (hr' : r' < 10000) :
    ltText (pad 4 r) (pad 4 r') = true := ltText_pad 3 r r' h hr'

/-- the exact condition: the base file sorts before its restart sibling iff the suffix sorts
    before `restart-NNNN.suffix` -/
theorem restart_order_iff (base s : List Char) (r : Nat) :
    ltText (base ++ ".".toList ++ s) (base ++ ".restart-".toList ++ pad 4 r ++ ".".toList ++ s) =
      ltText s ("restart-".toList ++ pad 4 r ++ ".".toList ++ s) := by
  simp only [List.append_assoc]
  rw [ltText_append_left]
  simp

/-- … hence in general under that hypothesis -/
theorem restart_order (base s : List Char) (r : Nat)
    (h : ltText s ("restart-".toList ++ pad 4 r ++ ".".toList ++ s) = true) :
    ltText (base ++ ".".toList ++ s) (base ++ ".restart-".toList ++ pad 4 r ++ ".".toList ++ s) = true := by
  rw [restart_order_iff]; exact h

/-- a sufficient condition: the suffix starts with a character below `r` -/
def SortsBeforeRestart (s : List Char) : Prop := ∃ c cs, s = c :: cs ∧ c.toNat < 114

theorem restart_order_of_head (s x y : List Char) (h : SortsBeforeRestart s) :
    ltText (s ++ x) ("restart-".toList ++ y) = true := by
  obtain ⟨c, cs, rfl, hc⟩ := h
  simp [ltText, hc]

theorem restart_order_log (base : List Char) (r : Nat) :
    ltText (base ++ ".log".toList) (base ++ ".restart-".toList ++ pad 4 r ++ ".log".toList) = true := by
  have := restart_order base "log".toList r (by simp [ltText])
  simpa using this

/-- KNOWN FINDING: suffixes sorting after `restart` (`txt`, `trc`, …): the base file sorts AFTER
    its restart siblings -/
theorem restart_order_txt_witness (base : List Char) (r : Nat) :
    ltText (base ++ ".restart-".toList ++ pad 4 r ++ ".txt".toList) (base ++ ".txt".toList) = true ∧
    ltText (base ++ ".txt".toList) (base ++ ".restart-".toList ++ pad 4 r ++ ".txt".toList) = false := by
  have h : ltText (base ++ ".restart-".toList ++ pad 4 r ++ ".txt".toList) (base ++ ".txt".toList) = true := by
    simp only [List.append_assoc]
    rw [ltText_append_left]
    simp [ltText]
  exact ⟨h, ltText_asymm h⟩

example : ltText "app_r2024-01-31_10-00-00.restart-0000.trc".toList "app_r2024-01-31_10-00-00.trc".toList
    = true := by decide

/-- the side condition on the spec for the restart order of full names -/
def RestartSafe (sp : Spec) : Prop := ∀ s, sp.suffix = some s → SortsBeforeRestart s

/-- full names, same stamp: base file before every restart sibling (any compression flags) -/
theorem restart_order_names (sp : Spec) (k r : Nat) (g g' : Bool) (hs : RestartSafe sp) :
    ltText (render sp ⟨some (.ts k none), g⟩) (render sp ⟨some (.ts k (some r)), g'⟩) = true := by
  rw [render_some sp _ g (by simp) (renderInfix_ts_ne_nil sp k none),
    render_some sp _ g' (by simp) (renderInfix_ts_ne_nil sp k (some r))]
  simp only [renderInfix, List.append_assoc]
  rw [ltText_append_left, ltText_append_left]
  cases hsfx : sp.suffix with
  | none =>
    cases g <;> cases g' <;> simp [suffixText, hsfx, gzText, ltText]
  | some s =>
    have := restart_order_of_head s (gzText g) (pad 4 r ++ (suffixText sp ++ gzText g')) (hs s hsfx)
    simpa [suffixText, hsfx] using this

/-- full names, same stamp: restart siblings by number -/
theorem restart_siblings_order_names (sp : Spec) (k r r' : Nat) (g g' : Bool)
    (h : r < r') (hr' : r' < 10000) :
    ltText (render sp ⟨some (.ts k (some r)), g⟩) (render sp ⟨some (.ts k (some r')), g'⟩) = true := by
  rw [render_some sp _ g (by simp) (renderInfix_ts_ne_nil sp k (some r)),
    render_some sp _ g' (by simp) (renderInfix_ts_ne_nil sp k (some r'))]
  simp only [renderInfix, List.append_assoc]
  rw [ltText_append_left, ltText_append_left, ltText_append_left]
  exact ltText_append_of_lt _ _
    (by rw [pad_length_of_lt 3 r (by omega), pad_length_of_lt 3 r' hr'])
    (restart_number_order r r' h hr')

/-- C16.4 assembled for the timestamp schemes: the structural order of the file-writer proofs
    implies the order of the rendered names (4-digit years, restart numbers below 10000, suffix
    sorting before `restart`) -/
theorem keyLt_iff (a b c d : Nat) : keyLt (a, b) (c, d) = true ↔ a < c ∨ (a = c ∧ b < d) := by
  simp only [keyLt, Bool.or_eq_true, Bool.and_eq_true, decide_eq_true_eq]

theorem ts_order_key (sp : Spec) (k k' : Nat) (r r' : Option Nat) (g g' : Bool)
    (hf : sp.fmt ≠ 3 ∧ sp.fmt ≠ 4) (hk' : k' < 10 ^ 14) (hr' : ∀ x, r' = some x → x < 10000)
    (hs : RestartSafe sp)
    (h : keyLt (Infix.ts k r).key (Infix.ts k' r').key = true) :
    ltText (render sp ⟨some (.ts k r), g⟩) (render sp ⟨some (.ts k' r'), g'⟩) = true := by
  by_cases hlt : k < k'
  · exact stamps_order_names sp k k' r r' g g' hf hlt hk'
  · cases r with
    | none =>
      cases r' with
      | none => simp only [Infix.key, keyLt_iff] at h; omega
      | some x =>
        have : k = k' := by simp only [Infix.key, keyLt_iff] at h; omega
        subst this
        exact restart_order_names sp k x g g' hs
    | some y =>
      cases r' with
      | none => simp only [Infix.key, keyLt_iff] at h; omega
      | some x =>
        have : k = k' ∧ y < x := by simp only [Infix.key, keyLt_iff] at h; omega
        obtain ⟨rfl, hyx⟩ := this
        exact restart_siblings_order_names sp k y x g g' hyx (hr' x rfl)

/-- … and as an equation (same compression flag, both sides bounded): the structural order of
    the timestamp infixes IS the order of the rendered names -/
theorem ts_order_key_eq (sp : Spec) (k k' : Nat) (r r' : Option Nat) (g : Bool)
    (hf : sp.fmt ≠ 3 ∧ sp.fmt ≠ 4) (hk : k < 10 ^ 14) (hk' : k' < 10 ^ 14) (hr : ∀ x, r = some x → x < 10000)
    (hr' : ∀ x, r' = some x → x < 10000) (hs : RestartSafe sp) :
    ltText (render sp ⟨some (.ts k r), g⟩) (render sp ⟨some (.ts k' r'), g⟩) =
      keyLt (Infix.ts k r).key (Infix.ts k' r').key := by
  have htri : keyLt (Infix.ts k r).key (Infix.ts k' r').key = true ∨
      (k = k' ∧ r = r') ∨ keyLt (Infix.ts k' r').key (Infix.ts k r).key = true := by
    cases r <;> cases r' <;>
      simp only [Infix.key, keyLt_iff, Option.some.injEq, reduceCtorEq, and_true, and_false] <;> omega
  rcases htri with h | ⟨rfl, rfl⟩ | h
  · rw [ts_order_key sp k k' r r' g g hf hk' hr' hs h, h]
  · rw [ltText_irrefl]
    cases r <;> simp [keyLt, Infix.key]
  · rw [ltText_asymm (ts_order_key sp k' k r' r g g hf hk hr hs h)]
    cases hlt : keyLt (Infix.ts k r).key (Infix.ts k' r').key with
    | false => rfl
    | true =>
      exfalso
      revert h hlt
      cases r <;> cases r' <;> simp only [Infix.key, keyLt_iff] <;> omega

example : RestartSafe ⟨"app".toList, none, some "log".toList, "rCURRENT".toList, 0⟩ := by
  intro s hs
  have : s = "log".toList := by simpa using hs.symm
  subst this
  exact ⟨'l', "og".toList, rfl, by decide⟩

example : ltText (renderStamp 0 20231231235959) (renderStamp 0 20240101000000) = true :=
  stamps_order 0 _ _ (by decide) (by decide) (by decide)

example : ltText "äö_r2024-01-31_10-00-00.log".toList "äö_r2024-01-31_10-00-00.restart-0000.log.gz".toList
    = true := by decide

/-! ### 5. the listing is exact -/

/-- C16.5, membership characterisation of `existing_log_files` (rotation in use) -/
theorem mem_existingLogFiles (sp : Spec) (tsOk : List Char → Bool) (f : IFilter) (sel : Selector)
    (names : List (List Char)) (n : List Char) :
    n ∈ existingLogFiles sp tsOk true f sel names ↔
      n ∈ names ∧ (fixedPart sp).isPrefixOf n = true ∧
      ((sel.plain = true ∧ acceptFile sp tsOk f sp.suffix n = true) ∨
       (sel.compressed = true ∧ acceptFile sp tsOk f (some "gz".toList) n = true) ∨
       (sel.rCurrent = true ∧ acceptFile sp tsOk (.equls "rCURRENT".toList) sp.suffix n = true) ∨
       (∃ c, sel.custom = some c ∧ acceptFile sp tsOk (.equls c) sp.suffix n = true)) := by
  simp only [existingLogFiles, if_true, List.mem_append]
  have hrel := mem_relatedFiles sp names n
  constructor
  · rintro (((h | h) | h) | h)
    · split at h
      · rename_i hp
        rw [mem_filterFiles, hrel] at h
        exact ⟨h.1.1, h.1.2, Or.inl ⟨hp, h.2⟩⟩
      · simp at h
    · split at h
      · rename_i hp
        rw [mem_filterFiles, hrel] at h
        exact ⟨h.1.1, h.1.2, Or.inr (Or.inl ⟨hp, h.2⟩)⟩
      · simp at h
    · split at h
      · rename_i hp
        rw [mem_filterFiles, hrel] at h
        exact ⟨h.1.1, h.1.2, Or.inr (Or.inr (Or.inl ⟨hp, h.2⟩))⟩
      · simp at h
    · split at h
      · rename_i c hc
        rw [mem_filterFiles, hrel] at h
        exact ⟨h.1.1, h.1.2, Or.inr (Or.inr (Or.inr ⟨c, hc, h.2⟩))⟩
      · simp at h
  · rintro ⟨h1, h2, h | h | h | ⟨c, hc, h⟩⟩
    · left; left; left
      rw [if_pos h.1, mem_filterFiles, hrel]; exact ⟨⟨h1, h2⟩, h.2⟩
    · left; left; right
      rw [if_pos h.1, mem_filterFiles, hrel]; exact ⟨⟨h1, h2⟩, h.2⟩
    · left; right
      rw [if_pos h.1, mem_filterFiles, hrel]; exact ⟨⟨h1, h2⟩, h.2⟩
    · right
      rw [hc]; simp only []
      rw [mem_filterFiles, hrel]; exact ⟨⟨h1, h2⟩, h⟩

/-- without rotation: the single file -/
theorem existingLogFiles_no_rotation (sp : Spec) (tsOk : List Char → Bool) (f : IFilter)
    (sel : Selector) (names : List (List Char)) :
    existingLogFiles sp tsOk false f sel names = [fixedPart sp ++ suffixText sp] := by
  simp [existingLogFiles, render_none, gzText]

/-- every listed name has the shape of `C14.accept_shape` (nothing outside the pattern is ever
    listed, hence — the writer works on this list — touched) -/
theorem listed_shape (sp : Spec) (tsOk : List Char → Bool) (f : IFilter) (sel : Selector)
    (names : List (List Char)) (n : List Char)
    (h : n ∈ existingLogFiles sp tsOk true f sel names) :
    n ∈ names ∧ ∃ mi, (splitExt n).1 = sepPrefix sp ++ mi ∧ mi ≠ [] := by
  rw [mem_existingLogFiles] at h
  obtain ⟨h1, h2, h3⟩ := h
  have hp := List.isPrefixOf_iff_prefix.mp h2
  refine ⟨h1, ?_⟩
  rcases h3 with h | h | h | ⟨c, _, h⟩
  · obtain ⟨mi, a, b, _⟩ := accept_decomp hp h.2; exact ⟨mi, a, b⟩
  · obtain ⟨mi, a, b, _⟩ := accept_decomp hp h.2; exact ⟨mi, a, b⟩
  · obtain ⟨mi, a, b, _⟩ := accept_decomp hp h.2; exact ⟨mi, a, b⟩
  · obtain ⟨mi, a, b, _⟩ := accept_decomp hp h; exact ⟨mi, a, b⟩

/-! #### exactness on well-formed directories -/

open FV.C14 in
/-- a name of the documented shape `fixed_<i><t>.<e>` -/
def Shaped (sp : Spec) (name i e : List Char) : Prop :=
  ∃ t, i ≠ [] ∧ '.' ∉ i ∧ '.' ∉ e ∧ DotTail t ∧ name = sepPrefix sp ++ i ++ t ++ '.' :: e

theorem ne_dot_singleton (p i t : List Char) (hi : i ≠ []) (hdi : '.' ∉ i) : p ++ i ++ t ≠ ['.'] := by
  intro h
  cases i with
  | nil => exact hi rfl
  | cons c cs =>
    have hc : c ≠ '.' := fun e => hdi (by simp [e])
    have hm : c ∈ p ++ c :: cs ++ t := by simp
    rw [h] at hm
    simp at hm; exact hc hm

/-- the verdict on a shaped name: extension test and filter on the infix -/
theorem accept_shaped (sp : Spec) (tsOk : List Char → Bool) (f : IFilter) (name i e e' : List Char)
    (h : Shaped sp name i e) :
    acceptFile sp tsOk f (some e') name = (decide (e = e') && filterInfix tsOk f i) := by
  obtain ⟨t, hi, hdi, he, ht, rfl⟩ := h
  by_cases hee : e = e'
  · subst hee
    rw [acceptFile_of_ext sp tsOk f (some e) i t e hi hdi he ht (Or.inr rfl)]; simp
  · rw [acceptFile_ext_mismatch sp tsOk f (sepPrefix sp ++ i ++ t) e e' (by simp [hi]) he
      (fun h => ne_dot_singleton _ i t hi hdi h.1) hee]
    simp [hee]

theorem accept_shaped_ne (sp : Spec) (tsOk : List Char → Bool) (f : IFilter) (name i e e' : List Char)
    (h : Shaped sp name i e) (hne : e ≠ e') : acceptFile sp tsOk f (some e') name = false := by
  rw [accept_shaped sp tsOk f name i e e' h]; simp [hne]

theorem accept_shaped_eq (sp : Spec) (tsOk : List Char → Bool) (f : IFilter) (name i e : List Char)
    (h : Shaped sp name i e) : acceptFile sp tsOk f (some e) name = filterInfix tsOk f i := by
  rw [accept_shaped sp tsOk f name i e e h]; simp

theorem equls_iff (tsOk : List Char → Bool) (c i : List Char) :
    filterInfix tsOk (.equls c) i = true ↔ i = c := by
  simp [filterInfix]

theorem shaped_prefix {sp : Spec} {name i e : List Char} (h : Shaped sp name i e) :
    (fixedPart sp).isPrefixOf name = true := by
  obtain ⟨t, _, _, _, _, rfl⟩ := h
  rw [List.isPrefixOf_iff_prefix]
  simp only [List.append_assoc]
  exact List.IsPrefix.trans (fixed_prefix_sepPrefix sp) (List.prefix_append _ _)

/-- name of the current file with token `c` -/
def curName (sp : Spec) (c : List Char) : List Char := sepPrefix sp ++ c ++ suffixText sp

/-- the logger's own files -/
def Own (sp : Spec) (tsOk : List Char → Bool) (numbers : Bool) (custom : Option (List Char))
    (n : List Char) : Prop :=
  C14.IsFamilyNameG sp tsOk numbers false n ∨ C14.IsFamilyNameG sp tsOk numbers true n ∨
  n = curName sp "rCURRENT".toList ∨ ∃ c, custom = some c ∧ n = curName sp c

/-- names no filter in use selects (e.g. the non-rotated `app.log`, `appXr00007.log`, `app-old.log`) -/
def Rejected (sp : Spec) (tsOk : List Char → Bool) (numbers : Bool) (custom : Option (List Char))
    (n : List Char) : Prop :=
  ∀ osfx, acceptFile sp tsOk (C14.schemeFilter numbers) osfx n = false ∧
    acceptFile sp tsOk (.equls "rCURRENT".toList) osfx n = false ∧
    ∀ c, custom = some c → acceptFile sp tsOk (.equls c) osfx n = false

/-- what the selector asks for -/
def Wanted (sp : Spec) (tsOk : List Char → Bool) (numbers : Bool) (sel : Selector) (n : List Char) : Prop :=
  (sel.plain = true ∧ C14.IsFamilyNameG sp tsOk numbers false n) ∨
  (sel.compressed = true ∧ C14.IsFamilyNameG sp tsOk numbers true n) ∨
  (sel.rCurrent = true ∧ n = curName sp "rCURRENT".toList) ∨
  (∃ c, sel.custom = some c ∧ n = curName sp c)

theorem rotated_ne_nil {tsOk : List Char → Bool} {numbers : Bool} {i : List Char}
    (hts : tsOk [] = false) (h : IsRotatedInfix tsOk numbers i) : i ≠ [] := by
  rintro rfl
  cases numbers with
  | true => simp [IsRotatedInfix] at h
  | false => simp [IsRotatedInfix, hts] at h

theorem shaped_family_plain {sp : Spec} {tsOk : List Char → Bool} {numbers : Bool} {s n : List Char}
    (hs : sp.suffix = some s) (hdot : '.' ∉ s) (hts : tsOk [] = false)
    (h : C14.IsFamilyNameG sp tsOk numbers false n) :
    ∃ i, Shaped sp n i s ∧ filterInfix tsOk (C14.schemeFilter numbers) i = true := by
  obtain ⟨i, restart, h1, h2, h3, rfl⟩ := h
  refine ⟨i, ⟨restart, rotated_ne_nil hts h1, h2, hdot, C14.dotTail_of_restOk h3, ?_⟩,
    (C14.filter_iff_rotated tsOk numbers i).mpr h1⟩
  simp [suffixText, hs, gzText]

theorem shaped_family_gz {sp : Spec} {tsOk : List Char → Bool} {numbers : Bool} {n : List Char}
    (hts : tsOk [] = false) (h : C14.IsFamilyNameG sp tsOk numbers true n) :
    ∃ i, Shaped sp n i "gz".toList ∧ filterInfix tsOk (C14.schemeFilter numbers) i = true := by
  obtain ⟨i, restart, h1, h2, h3, rfl⟩ := h
  refine ⟨i, ⟨restart ++ suffixText sp, rotated_ne_nil hts h1, h2, by decide,
    dotTail_append (C14.dotTail_of_restOk h3) (dotTail_suffixText sp), ?_⟩,
    (C14.filter_iff_rotated tsOk numbers i).mpr h1⟩
  simp [gzText]

theorem shaped_cur {sp : Spec} {s c : List Char} (hs : sp.suffix = some s) (hdot : '.' ∉ s)
    (hc : c ≠ []) (hcd : '.' ∉ c) : Shaped sp (curName sp c) c s :=
  ⟨[], hc, hcd, hdot, dotTail_nil, by simp [curName, suffixText, hs]⟩

theorem schemeFilter_rcur (tsOk : List Char → Bool) (numbers : Bool)
    (hcur : tsOk "rCURRENT".toList = false) :
    filterInfix tsOk (C14.schemeFilter numbers) "rCURRENT".toList = false := by
  cases numbers with
  | true => simp [C14.schemeFilter, filterInfix]; decide
  | false => exact hcur

/-- C16.5 `existing_exact`: on a directory in which every name starting with the fixed part is
    one of the logger's own files or is rejected by the filters in use, `existing_log_files`
    returns exactly the names of the families the selector asks for.

    Side conditions: a dot-free suffix different from `gz` (with `gz` as suffix plain and
    compressed files cannot be told apart; without suffix `foo.gz` passes as plain file too);
    chrono rejects the empty text and `rCURRENT` (only relevant for timestamps); a custom current
    token is non-empty, dot-free and not itself a rotated infix. -/
theorem existing_exact (sp : Spec) (tsOk : List Char → Bool) (numbers : Bool) (sel : Selector)
    (names : List (List Char)) (s n : List Char)
    (hs : sp.suffix = some s) (hdot : '.' ∉ s) (hgz : s ≠ "gz".toList)
    (hts : tsOk [] = false) (hcur : tsOk "rCURRENT".toList = false)
    (hcust : ∀ c, sel.custom = some c →
      c ≠ [] ∧ '.' ∉ c ∧ filterInfix tsOk (C14.schemeFilter numbers) c = false)
    (hwf : ∀ m ∈ names, (fixedPart sp).isPrefixOf m = true →
      Own sp tsOk numbers sel.custom m ∨ Rejected sp tsOk numbers sel.custom m) :
    n ∈ existingLogFiles sp tsOk true (C14.schemeFilter numbers) sel names ↔
      n ∈ names ∧ Wanted sp tsOk numbers sel n := by
  have hrc := schemeFilter_rcur tsOk numbers hcur
  have hgz' : "gz".toList ≠ s := fun e => hgz e.symm
  have hrcs : Shaped sp (curName sp "rCURRENT".toList) "rCURRENT".toList s :=
    shaped_cur hs hdot (by decide) (by decide)
  rw [mem_existingLogFiles, hs]
  constructor
  · rintro ⟨h1, h2, hD⟩
    refine ⟨h1, ?_⟩
    rcases hwf n h1 h2 with hown | hrej
    · rcases hown with hf | hf | hf | ⟨c0, hc0, hf⟩
      · -- plain family name
        obtain ⟨i, hsh, hfi⟩ := shaped_family_plain hs hdot hts hf
        rcases hD with h | h | h | ⟨c, hc, h⟩
        · exact Or.inl ⟨h.1, hf⟩
        · have := h.2; rw [accept_shaped_ne _ _ _ _ _ _ _ hsh hgz] at this; cases this
        · have := h.2
          rw [accept_shaped_eq _ _ _ _ _ _ hsh, equls_iff] at this
          rw [this, hrc] at hfi; cases hfi
        · rw [accept_shaped_eq _ _ _ _ _ _ hsh, equls_iff] at h
          rw [h, (hcust c hc).2.2] at hfi; cases hfi
      · -- compressed family name
        obtain ⟨i, hsh, hfi⟩ := shaped_family_gz hts hf
        rcases hD with h | h | h | ⟨c, hc, h⟩
        · have := h.2; rw [accept_shaped_ne _ _ _ _ _ _ _ hsh hgz'] at this; cases this
        · exact Or.inr (Or.inl ⟨h.1, hf⟩)
        · have := h.2; rw [accept_shaped_ne _ _ _ _ _ _ _ hsh hgz'] at this; cases this
        · rw [accept_shaped_ne _ _ _ _ _ _ _ hsh hgz'] at h; cases h
      · -- rCURRENT
        subst hf
        rcases hD with h | h | h | ⟨c, hc, h⟩
        · have := h.2; rw [accept_shaped_eq _ _ _ _ _ _ hrcs, hrc] at this; cases this
        · have := h.2; rw [accept_shaped_ne _ _ _ _ _ _ _ hrcs hgz] at this; cases this
        · exact Or.inr (Or.inr (Or.inl ⟨h.1, rfl⟩))
        · rw [accept_shaped_eq _ _ _ _ _ _ hrcs, equls_iff] at h
          exact Or.inr (Or.inr (Or.inr ⟨c, hc, by rw [h]⟩))
      · -- custom current file
        subst hf
        obtain ⟨hc1, hc2, hc3⟩ := hcust c0 hc0
        have hsh := shaped_cur (sp := sp) hs hdot hc1 hc2
        rcases hD with h | h | h | ⟨c, hc, h⟩
        · have := h.2; rw [accept_shaped_eq _ _ _ _ _ _ hsh, hc3] at this; cases this
        · have := h.2; rw [accept_shaped_ne _ _ _ _ _ _ _ hsh hgz] at this; cases this
        · have := h.2
          rw [accept_shaped_eq _ _ _ _ _ _ hsh, equls_iff] at this
          exact Or.inr (Or.inr (Or.inl ⟨h.1, by rw [this]⟩))
        · exact Or.inr (Or.inr (Or.inr ⟨c0, hc0, rfl⟩))
    · rcases hD with h | h | h | ⟨c, hc, h⟩
      · have := h.2; rw [(hrej (some s)).1] at this; cases this
      · have := h.2; rw [(hrej (some "gz".toList)).1] at this; cases this
      · have := h.2; rw [(hrej (some s)).2.1] at this; cases this
      · rw [(hrej (some s)).2.2 c hc] at h; cases h
  · rintro ⟨h1, hW⟩
    rcases hW with ⟨hp, hf⟩ | ⟨hp, hf⟩ | ⟨hp, hf⟩ | ⟨c, hc, hf⟩
    · obtain ⟨i, hsh, hfi⟩ := shaped_family_plain hs hdot hts hf
      refine ⟨h1, shaped_prefix hsh, Or.inl ⟨hp, ?_⟩⟩
      rw [accept_shaped_eq _ _ _ _ _ _ hsh, hfi]
    · obtain ⟨i, hsh, hfi⟩ := shaped_family_gz hts hf
      refine ⟨h1, shaped_prefix hsh, Or.inr (Or.inl ⟨hp, ?_⟩)⟩
      rw [accept_shaped_eq _ _ _ _ _ _ hsh, hfi]
    · subst hf
      refine ⟨h1, shaped_prefix hrcs, Or.inr (Or.inr (Or.inl ⟨hp, ?_⟩))⟩
      rw [accept_shaped_eq _ _ _ _ _ _ hrcs, equls_iff]
    · subst hf
      obtain ⟨hc1, hc2, _⟩ := hcust c hc
      have hsh := shaped_cur (sp := sp) hs hdot hc1 hc2
      refine ⟨h1, shaped_prefix hsh, Or.inr (Or.inr (Or.inr ⟨c, hc, ?_⟩))⟩
      rw [accept_shaped_eq _ _ _ _ _ _ hsh, equls_iff]

-- non-vacuity: a concrete directory with foreign files
example :
    existingLogFiles ⟨"app".toList, none, some "log".toList, "rCURRENT".toList, 0⟩ (fun _ => false) true
      .numbrs ⟨true, true, true, none⟩
      ["app.log".toList, "app_r00001.log".toList, "app_r00000.log.gz".toList, "app_rCURRENT.log".toList,
       "appXr00007.log".toList, "other_r00001.log".toList, "app_r00002.log".toList, "appé.log".toList]
    = ["app_r00002.log".toList, "app_r00001.log".toList, "app_r00000.log.gz".toList,
       "app_rCURRENT.log".toList] := by decide

-- non-vacuity of the well-formedness hypothesis of `existing_exact`
example :
    let sp : Spec := ⟨"app".toList, none, some "log".toList, "rCURRENT".toList, 0⟩
    ∀ m ∈ ["app_r00001.log".toList, "app.log".toList], (fixedPart sp).isPrefixOf m = true →
      Own sp (fun _ => false) true none m ∨ Rejected sp (fun _ => false) true none m := by
  intro sp m hm _
  simp only [List.mem_cons, List.not_mem_nil, or_false] at hm
  rcases hm with rfl | rfl
  · left; left
    refine ⟨"r00001".toList, [], ?_, by decide, Or.inl rfl, by decide⟩
    unfold IsRotatedInfix
    rw [if_pos rfl]
    exact ⟨"00001".toList, rfl, by decide, by decide⟩
  · right
    intro osfx
    refine ⟨C14.accept_false_of_short _ _ _ _ _ (by decide),
      C14.accept_false_of_short _ _ _ _ _ (by decide), ?_⟩
    intro c hc; cases hc

end FV.C16
