import FlexiVerif.Model.Buf
/-
  C10 for the in-memory log target (`log_to_buffer`): no log call hangs in the eviction loop,
  whatever the lengths of the records (empty, longer than the whole budget, …), because the
  counter `size` always equals the sum of the queued lengths; and the budget is respected
  except for a single line that alone exceeds it.
-/
namespace FV.C10
open FV.Buf

def total (ls : List (Nat × Nat)) : Nat := (ls.map (·.2)).sum

/-- the invariant the loop relies on -/
def Inv (s : St) : Prop := s.size = total s.lines

theorem evict_terminates (max len : Nat) (hl : len ≤ max) (ls : List (Nat × Nat)) :
    ∃ ls' , evict max len ls (total ls) = some (ls', total ls') ∧ total ls' + len ≤ max ∧
      ∃ dropped, ls = dropped ++ ls' := by
  induction ls with
  | nil => exact ⟨[], by simp [evict, total, hl], by simp [total, hl], [], rfl⟩
  | cons l rest ih =>
    by_cases h : total (l :: rest) + len ≤ max
    · exact ⟨l :: rest, by simp [evict, h], h, [], rfl⟩
    · obtain ⟨ls', h1, h2, d, h3⟩ := ih
      refine ⟨ls', ?_, h2, l :: d, by simp [h3]⟩
      have : total (l :: rest) - l.2 = total rest := by simp [total]
      simp [evict, h, this, h1]

/-- **no log call hangs**: from a state that meets the invariant every write returns, and the
    invariant holds again -/
theorem write_returns (s : St) (h : Inv s) (i len : Nat) :
    ∃ s', write s i len = some s' ∧ Inv s' ∧ s'.max = s.max := by
  unfold write
  by_cases h0 : len = 0
  · exact ⟨s, by simp [h0], h, rfl⟩
  · by_cases h1 : len > s.max
    · exact ⟨{ s with lines := [(i, len)], size := len }, by simp [h0, h1], by simp [Inv, total], rfl⟩
    · have hl : len ≤ s.max := Nat.le_of_not_gt h1
      obtain ⟨ls', e, _, _⟩ := evict_terminates s.max len hl s.lines
      rw [h] ; simp only [h0, h1, if_false, e]
      exact ⟨_, rfl, by simp [Inv, total], rfl⟩

/-- … for every sequence of record lengths, starting from the empty buffer -/
theorem run_returns (s : St) (h : Inv s) (lens : List Nat) (i : Nat) :
    ∃ s', run s lens i = some s' ∧ Inv s' := by
  induction lens generalizing s i with
  | nil => exact ⟨s, rfl, h⟩
  | cons len rest ih =>
    obtain ⟨s1, e, h1, _⟩ := write_returns s h i len
    obtain ⟨s2, e2, h2⟩ := ih s1 h1 (i + 1)
    exact ⟨s2, by simp [run, e, e2], h2⟩

theorem log_to_buffer_never_hangs (max : Nat) (lens : List Nat) :
    ∃ s', run (init max) lens 0 = some s' ∧ Inv s' :=
  run_returns (init max) (by simp [Inv, init, total]) lens 0

/-- the budget: after a write the queue holds at most `max` bytes, or exactly the one line that
    alone exceeds the budget -/
theorem write_bounded (s : St) (h : Inv s) (hb : s.size ≤ s.max ∨ s.lines.length ≤ 1) (i len : Nat) (s' : St)
    (e : write s i len = some s') : s'.size ≤ s'.max ∨ s'.lines.length ≤ 1 := by
  unfold write at e
  by_cases h0 : len = 0
  · simp [h0] at e; subst e; exact hb
  · by_cases h1 : len > s.max
    · simp [h0, h1] at e; subst e; right; simp
    · have hl : len ≤ s.max := Nat.le_of_not_gt h1
      obtain ⟨ls', e1, e2, _⟩ := evict_terminates s.max len hl s.lines
      rw [h] at e; simp only [h0, h1, if_false, e1] at e
      injection e with e; subst e; left; simpa using e2

/-- what the invariant is for: with a stale counter (the sum is 0, the counter is not) the loop of
    the code does not end — the model answers `none` -/
theorem stale_counter_hangs : write ⟨10, [], 7⟩ 0 5 = none := by decide

/-- non-vacuity: a long line between ordinary ones -/
example : (run (init 10) [4, 4, 25, 4, 7, 0, 3] 0).map (·.lines) = some [(4, 7), (6, 3)] := by decide

end FV.C10
