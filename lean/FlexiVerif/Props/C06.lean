import FlexiVerif.Lemmas.FlwRestartA
import FlexiVerif.Lemmas.FlwRestartB
/-
  C06 — Restarting a logger never destroys or reorders earlier runs' records.

  A multi-run history is a plain history that may contain `.restart c` operations (a new logger
  on the same directory, `append`/buffer capacity chosen per run, same rotation configuration),
  each directly after a flush/shutdown/restart. Proofs: `Lemmas/FlwRestartA.lean` (rCURRENT
  namings, non-rotating writer) and `Lemmas/FlwRestartB.lean` (direct namings).
-/
namespace FV.C06
open FV FV.Flw

/-- **Numbers / Timestamps** (files rotate out of `rCURRENT`): every record of every run is on
    disk exactly once, in logging order, whatever the sequence of runs, append on or off per run. -/
theorem restart_preserves_rcurrent (cfg : Cfg) (r : RotCfg) (hr : cfg.rot = some r)
    (hcl : r.cleanup = none) (hnm : r.naming = .numbers ∨ r.naming = .timestamps)
    (ops : List (Op × Nat × Faults)) (hm : FV.FlwA.MultiRun cfg.rot ops) :
    (viewFiles (runOps (init cfg []) ops)).flatten = written ops :=
  FV.FlwA.multi_run_stream_A cfg r hr hcl hnm ops hm

/-- … without append the earlier current file is preserved as the newest rotated file, under a
    name that did not exist before; the new current file starts empty -/
theorem restart_without_append_keeps_current (rot : Option RotCfg) (hra : FV.FlwA.RotA rot)
    (s : St) (m : FV.FlwA.MAbs) (t : Nat) (c : Cfg) (now0 now : Nat)
    (hi : FV.FlwA.MInv rot t s m) (hfl : FV.FlwA.Flushed s) (hc : c.rot = rot)
    (ha : c.append = false) (r : RotCfg) (hr : rot = some r) (hs : m.abs.started = true)
    (ht : t ≤ now) :
    ∃ f, s.dir.get FV.FlwA.curN = some f ∧ f.data = m.abs.cur ∧
      s.dir.get ⟨some (FV.FlwA.restartTarget r s.dir f), false⟩ = none ∧
      (initState (step s (.restart c) now0 noFaults).1 now noFaults).1.dir.get
          ⟨some (FV.FlwA.restartTarget r s.dir f), false⟩ = some f ∧
      (initState (step s (.restart c) now0 noFaults).1 now noFaults).1.dir.get FV.FlwA.curN =
          some ⟨[], now⟩ :=
  FV.FlwA.restart_noappend_names rot hra s m t c now0 now hi hfl hc ha r hr hs ht

/-- … no existing name is ever reused: across every step each file keeps its name and its
    bytes (prefix-extended), or — the current file only — moves to a name that was absent -/
theorem fresh_names_rcurrent (cfg : Cfg) (r : RotCfg) (hr : cfg.rot = some r) (hcl : r.cleanup = none)
    (hnm : r.naming = .numbers ∨ r.naming = .timestamps)
    (pre : List (Op × Nat × Faults)) (o : Op × Nat × Faults) (post : List (Op × Nat × Faults))
    (hm : FV.FlwA.MultiRun cfg.rot (pre ++ o :: post)) :
    FV.FlwA.Moved (runOps (init cfg []) pre).dir (runOps (init cfg []) (pre ++ [o])).dir :=
  FV.FlwA.fresh_names_A cfg r hr hcl hnm pre o post hm

/-- **Non-rotating writer with append**: new records follow the earlier ones in the same file -/
theorem restart_plain_append (cfg : Cfg) (hr : cfg.rot = none) (ops : List (Op × Nat × Faults))
    (hm : FV.FlwA.MultiRun cfg.rot ops)
    (ha : ∀ o ∈ ops, ∀ c, o.1 = .restart c → c.append = true) :
    (viewFiles (runOps (init cfg []) ops)).flatten = written ops :=
  FV.FlwA.multi_run_stream_plain_append cfg hr ops hm ha

/-- **NumbersDirect**: full statement, no guard -/
theorem restart_preserves_numbersDirect (cfg : Cfg) (hn : NoCleanup cfg) (r : RotCfg)
    (hrot : cfg.rot = some r) (hnm : r.naming = .numbersDirect)
    (ops : List (Op × Nat × Faults)) (hm : FV.FlwB.MultiRun cfg.rot ops) :
    (viewFiles (runOps (init cfg []) ops)).flatten = written ops :=
  FV.FlwB.multi_run_stream_B_numbersDirect cfg hn r hrot hnm ops hm

/-- **TimestampsDirect**: full statement, no guard, `append` on or off per run. Without append
    the start within the same second gets a collision-free name; with append the run continues
    the NEWEST file of the newest stamp, `.restart-N` siblings included (both the repaired
    behaviour; the latter since the `fix:` of finding `C06-tsd-append-after-restart-files`) -/
theorem restart_preserves_timestampsDirect (cfg : Cfg) (hn : NoCleanup cfg) (r : RotCfg)
    (hrot : cfg.rot = some r) (hnm : r.naming = .timestampsDirect)
    (ops : List (Op × Nat × Faults)) (hm : FV.FlwB.MultiRun cfg.rot ops) :
    (viewFiles (runOps (init cfg []) ops)).flatten = written ops :=
  FV.FlwB.multi_run_stream_B_timestampsDirect cfg hn r hrot hnm ops hm

/-- … both direct namings in one statement -/
theorem restart_preserves_direct (cfg : Cfg) (hc : FV.FlwB.CfgMB cfg)
    (ops : List (Op × Nat × Faults)) (hm : FV.FlwB.MultiRun cfg.rot ops) :
    (viewFiles (runOps (init cfg []) ops)).flatten = written ops :=
  FV.FlwB.multi_run_stream_B cfg hc ops hm

/-- the guarded form that was provable before the repair (`AppendGuard`: an appending run finds
    the newest stamp without `.restart-N` siblings); the guard is no longer used, see
    `restart_preserves_direct` -/
theorem restart_preserves_timestampsDirect_partial (cfg : Cfg) (hc : FV.FlwB.CfgMB cfg)
    (ops : List (Op × Nat × Faults)) (hm : FV.FlwB.MultiRun cfg.rot ops)
    (_hg : (∃ r, cfg.rot = some r ∧ r.naming = .timestampsDirect) → FV.FlwB.AppendGuard cfg ops) :
    (viewFiles (runOps (init cfg []) ops)).flatten = written ops :=
  restart_preserves_direct cfg hc ops hm

/-- This history (several files within one second — two forced rotations —, shutdown, an
    appending restart, one write) was the witness of the defect repaired by the `fix:` commit
    (finding `C06-tsd-append-after-restart-files`): the appending restart re-opened the BASE file
    of that second, so the new record landed before newer ones (`[1, 4, 2, 3]`). Now the run
    continues the newest file: the stream is complete and in order. -/
theorem tsd_append_former_witness :
    FV.FlwB.CfgMB FV.FlwB.wCfg ∧ FV.FlwB.MultiRun FV.FlwB.wCfg.rot FV.FlwB.wOps ∧
    viewFiles (runOps (init FV.FlwB.wCfg []) FV.FlwB.wOps) = [[1], [2], [3, 4]] ∧
    written FV.FlwB.wOps = [1, 2, 3, 4] ∧
    (viewFiles (runOps (init FV.FlwB.wCfg []) FV.FlwB.wOps)).flatten = written FV.FlwB.wOps :=
  FV.FlwB.tsd_append_restart_former_witness

/-- no file of the direct namings is ever overwritten or truncated -/
theorem fresh_names_direct (cfg : Cfg) (hc : FV.FlwB.CfgMB cfg) (ops : List (Op × Nat × Faults))
    (hm : FV.FlwB.MultiRun cfg.rot ops) :
    ∀ pre o post, ops = pre ++ o :: post →
      FV.FlwB.DirExt (runOps (init cfg []) pre).dir (runOps (init cfg []) (pre ++ [o])).dir :=
  FV.FlwB.fresh_names_B cfg hc ops hm

end FV.C06
