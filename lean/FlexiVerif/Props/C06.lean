import FlexiVerif.Lemmas.FlwRestartA
import FlexiVerif.Lemmas.FlwRestartB
/-
  C06 — Restarting a logger never destroys or reorders earlier runs' records.

  A multi-run history is a plain history that may contain `.restart c` operations (a new logger
  on the same directory, `append`/buffer capacity chosen per run, same rotation configuration),
  each directly after a flush/shutdown/restart. Proofs: `Lemmas/FlwRestartA.lean` (rCURRENT
  namings, non-rotating writer) and `Lemmas/FlwRestartB.lean` (direct namings).
-/
namespace FV.C06
open FV FV.Flw

/-- **Numbers / Timestamps** (files rotate out of `rCURRENT`): every record of every run is on
    disk exactly once, in logging order, whatever the sequence of runs, append on or off per run. -/
theorem restart_preserves_rcurrent (cfg : Cfg) (r : RotCfg) (hr : cfg.rot = some r)
    (hcl : r.cleanup = none) (hnm : r.naming = .numbers ∨ r.naming = .timestamps)
    (ops : List (Op × Nat × Faults)) (hm : FV.FlwA.MultiRun cfg.rot ops) :
    (viewFiles (runOps (init cfg []) ops)).flatten = written ops :=
  FV.FlwA.multi_run_stream_A cfg r hr hcl hnm ops hm

/-- … without append the earlier current file is preserved as the newest rotated file, under a
    name that did not exist before; the new current file starts empty -/
theorem restart_without_append_keeps_current (rot : Option RotCfg) (hra : FV.FlwA.RotA rot)
    (s : St) (m : FV.FlwA.MAbs) (t : Nat) (c : Cfg) (now0 now : Nat)
    (hi : FV.FlwA.MInv rot t s m) (hfl : FV.FlwA.Flushed s) (hc : c.rot = rot)
    (ha : c.append = false) (r : RotCfg) (hr : rot = some r) (hs : m.abs.started = true)
    (ht : t ≤ now) :
    ∃ f, s.dir.get FV.FlwA.curN = some f ∧ f.data = m.abs.cur ∧
      s.dir.get ⟨some (FV.FlwA.restartTarget r s.dir f), false⟩ = none ∧
      (initState (step s (.restart c) now0 noFaults).1 now noFaults).1.dir.get
          ⟨some (FV.FlwA.restartTarget r s.dir f), false⟩ = some f ∧
      (initState (step s (.restart c) now0 noFaults).1 now noFaults).1.dir.get FV.FlwA.curN =
          some ⟨[], now⟩ :=
  FV.FlwA.restart_noappend_names rot hra s m t c now0 now hi hfl hc ha r hr hs ht

/-- … no existing name is ever reused: across every step each file keeps its name and its
    bytes (prefix-extended), or — the current file only — moves to a name that was absent -/
theorem fresh_names_rcurrent (cfg : Cfg) (r : RotCfg) (hr : cfg.rot = some r) (hcl : r.cleanup = none)
    (hnm : r.naming = .numbers ∨ r.naming = .timestamps)
    (pre : List (Op × Nat × Faults)) (o : Op × Nat × Faults) (post : List (Op × Nat × Faults))
    (hm : FV.FlwA.MultiRun cfg.rot (pre ++ o :: post)) :
    FV.FlwA.Moved (runOps (init cfg []) pre).dir (runOps (init cfg []) (pre ++ [o])).dir :=
  FV.FlwA.fresh_names_A cfg r hr hcl hnm pre o post hm

/-- **Non-rotating writer with append**: new records follow the earlier ones in the same file -/
theorem restart_plain_append (cfg : Cfg) (hr : cfg.rot = none) (ops : List (Op × Nat × Faults))
    (hm : FV.FlwA.MultiRun cfg.rot ops)
    (ha : ∀ o ∈ ops, ∀ c, o.1 = .restart c → c.append = true) :
    (viewFiles (runOps (init cfg []) ops)).flatten = written ops :=
  FV.FlwA.multi_run_stream_plain_append cfg hr ops hm ha

/-- **NumbersDirect**: full statement, no guard -/
theorem restart_preserves_numbersDirect (cfg : Cfg) (hn : NoCleanup cfg) (r : RotCfg)
    (hrot : cfg.rot = some r) (hnm : r.naming = .numbersDirect)
    (ops : List (Op × Nat × Faults)) (hm : FV.FlwB.MultiRun cfg.rot ops) :
    (viewFiles (runOps (init cfg []) ops)).flatten = written ops :=
  FV.FlwB.multi_run_stream_B_numbersDirect cfg hn r hrot hnm ops hm

/-- **TimestampsDirect**: under the guard that an appending run finds the newest stamp without
    `.restart-N` siblings (`AppendGuard`); without append no guard is needed (the start within the
    same second gets a collision-free name — the repaired behaviour) -/
theorem restart_preserves_timestampsDirect_partial (cfg : Cfg) (hc : FV.FlwB.CfgMB cfg)
    (ops : List (Op × Nat × Faults)) (hm : FV.FlwB.MultiRun cfg.rot ops)
    (hg : (∃ r, cfg.rot = some r ∧ r.naming = .timestampsDirect) → FV.FlwB.AppendGuard cfg ops) :
    (viewFiles (runOps (init cfg []) ops)).flatten = written ops :=
  FV.FlwB.multi_run_stream_B_partial cfg hc ops hm hg

/-- The unguarded statement for the direct namings is FALSE of the model and of the code
    (known finding `C06-tsd-append-after-restart-files`): after several files within one second,
    an appending restart re-opens the BASE file of that second, so new records land before
    newer ones (`[1,4,2,3]` instead of `[1,2,3,4]`). -/
theorem tsd_append_violation_witness : ¬ FV.FlwB.multi_run_stream_B_full_statement :=
  FV.FlwB.multi_run_stream_B_full_statement_false

/-- no file of the direct namings is ever overwritten or truncated (holds even in the finding's scenario) -/
theorem fresh_names_direct (cfg : Cfg) (hc : FV.FlwB.CfgMB cfg) (ops : List (Op × Nat × Faults))
    (hm : FV.FlwB.MultiRun cfg.rot ops) :
    ∀ pre o post, ops = pre ++ o :: post →
      FV.FlwB.DirExt (runOps (init cfg []) pre).dir (runOps (init cfg []) (pre ++ [o])).dir :=
  FV.FlwB.fresh_names_B cfg hc ops hm

end FV.C06
