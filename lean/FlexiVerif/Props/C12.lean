import FlexiVerif.Props.C05
/-
  C12 — Concurrent specification changes end in one consistent specification and gate.
-/
namespace FV.C12
open FV FV.Spec

def crun (c : CState) (acts : List CAct) : CState := acts.foldl (fun c a => (c.step a).1) c

/-- all calls have returned -/
def Quiescent (c : CState) : Prop := c.lock = none ∧ c.waiting = []

/-- invariant of the locked protocol: outside the critical section the gate belongs to the
    active spec; inside, the value the holder is going to set belongs to the active spec -/
def CInv (c : CState) : Prop :=
  (c.lock = none → c.handle.gate = gateFor c.handle.ceilings c.handle.active) ∧
  (∀ t, c.lock = some t →
      c.gateOf.find? (·.1 = t) = some (t, gateFor c.handle.ceilings c.handle.active))

theorem acquire_inv (c : CState) (t : Nat) (s : LogSpec) : CInv (c.acquire t s) := by
  refine ⟨by simp [CState.acquire], ?_⟩
  intro t' ht'
  simp [CState.acquire] at ht'
  subst ht'
  simp [CState.acquire]

theorem step_inv (c : CState) (a : CAct) (hi : CInv c) : CInv (c.step a).1 := by
  cases a with
  | start t s =>
    cases hl : c.lock with
    | none => simp only [CState.step, hl]; exact acquire_inv c t s
    | some t' =>
      simp only [CState.step, hl]
      refine ⟨by simp [hl], ?_⟩
      intro t'' ht''
      have := hi.2 t'' (by simpa [hl] using ht'')
      simpa using this
  | finish t =>
    by_cases hl : c.lock = some t
    · simp only [CState.step, hl, if_true]
      have hg := hi.2 t hl
      cases hw : c.waiting with
      | nil =>
        simp only [hg]
        exact ⟨by simp, by simp⟩
      | cons p rest =>
        obtain ⟨t', s'⟩ := p
        simp only []
        exact acquire_inv _ t' s'
    · simp only [CState.step, hl, if_false]; exact hi

theorem crun_inv (c : CState) (acts : List CAct) (hi : CInv c) : CInv (crun c acts) := by
  induction acts generalizing c with
  | nil => exact hi
  | cons a as ih => exact ih _ (step_inv c a hi)

/-- the active specification is always one submitted specification as a whole (or the initial one) -/
def FromSubmitted (init : LogSpec) (acts : List CAct) (s : LogSpec) : Prop :=
  s = init ∨ ∃ t, CAct.start t s ∈ acts

/-- specs that can become active: the current one, those waiting, those submitted later -/
theorem step_active (c : CState) (a : CAct) :
    (c.step a).1.handle.active = c.handle.active ∨
    (∃ t, a = .start t (c.step a).1.handle.active) ∨
    (∃ t, (t, (c.step a).1.handle.active) ∈ c.waiting) := by
  cases a with
  | start t s =>
    cases hl : c.lock with
    | none => right; left; exact ⟨t, by simp [CState.step, hl, CState.acquire]⟩
    | some t' => left; simp [CState.step, hl]
  | finish t =>
    by_cases hl : c.lock = some t
    · simp only [CState.step, hl, if_true]
      cases hw : c.waiting with
      | nil => left; rfl
      | cons p rest =>
        obtain ⟨t', s'⟩ := p
        right; right; exact ⟨t', by simp [CState.acquire]⟩
    · left; simp [CState.step, hl]

theorem step_waiting (c : CState) (a : CAct) (p : Nat × LogSpec) (hp : p ∈ (c.step a).1.waiting) :
    p ∈ c.waiting ∨ a = .start p.1 p.2 := by
  cases a with
  | start t s =>
    cases hl : c.lock with
    | none => left; simpa [CState.step, hl, CState.acquire] using hp
    | some t' =>
      simp [CState.step, hl] at hp
      rcases hp with h | h
      · left; exact h
      · right; rw [h]
  | finish t =>
    by_cases hl : c.lock = some t
    · simp only [CState.step, hl, if_true] at hp
      cases hw : c.waiting with
      | nil => simp [hw] at hp
      | cons q rest =>
        obtain ⟨t', s'⟩ := q
        simp [hw, CState.acquire] at hp
        left; exact List.mem_cons_of_mem _ hp
    · left; simpa [CState.step, hl] using hp

theorem crun_from_submitted (c : CState) (acts : List CAct) (init : LogSpec)
    (pre : List CAct)
    (ha : FromSubmitted init pre c.handle.active)
    (hw : ∀ p ∈ c.waiting, CAct.start p.1 p.2 ∈ pre) :
    FromSubmitted init (pre ++ acts) (crun c acts).handle.active ∧
    ∀ p ∈ (crun c acts).waiting, CAct.start p.1 p.2 ∈ pre ++ acts := by
  induction acts generalizing c pre with
  | nil => exact ⟨by simpa [crun] using ha, by simpa [crun] using hw⟩
  | cons a as ih =>
    have h1 : FromSubmitted init (pre ++ [a]) (c.step a).1.handle.active := by
      rcases step_active c a with h | ⟨t, h⟩ | ⟨t, h⟩
      · rw [h]
        rcases ha with h0 | ⟨t, ht⟩
        · exact Or.inl h0
        · exact Or.inr ⟨t, by simp [ht]⟩
      · exact Or.inr ⟨t, by simp [← h]⟩
      · exact Or.inr ⟨t, by simpa using Or.inl (hw _ h)⟩
    have h2 : ∀ p ∈ (c.step a).1.waiting, CAct.start p.1 p.2 ∈ pre ++ [a] := by
      intro p hp
      rcases step_waiting c a p hp with h | h
      · simpa using Or.inl (hw p h)
      · simp [h]
    have := ih (c.step a).1 (pre ++ [a]) h1 h2
    simpa [crun, List.append_assoc] using this

/-- **C12 for the repaired code.** For every interleaving of the steps of any number of
    concurrent `set_new_spec` calls: once all calls have returned, the active specification is
    one of the submitted specifications as a whole (or still the initial one if none was
    submitted), and the global max level is the one of exactly that specification — hence it
    admits every record that specification enables. -/
theorem atomic_update_consistent (h0 : Handle) (hi : C05.GateInv h0) (acts : List CAct)
    (hq : Quiescent (crun ⟨h0, none, [], []⟩ acts)) :
    let c := crun ⟨h0, none, [], []⟩ acts
    FromSubmitted h0.active acts c.handle.active ∧
    c.handle.gate = gateFor c.handle.ceilings c.handle.active ∧
    ∀ lvl t, enabled c.handle.active.filters lvl t = true → lvl ≤ c.handle.gate := by
  intro c
  have hinv : CInv c := crun_inv _ acts ⟨fun _ => hi, by simp⟩
  have hsub := (crun_from_submitted ⟨h0, none, [], []⟩ acts h0.active [] (Or.inl rfl) (by simp)).1
  have hg := hinv.1 hq.1
  refine ⟨by simpa using hsub, hg, ?_⟩
  intro lvl t he
  have := C02.gate_admits_spec c.handle c.handle.active lvl t he
  simp only [Handle.setNew] at this
  rw [hg]; exact this

/-- Regression statement for the repaired defect: with the lock released before the max level
    is set, the schedule `A1 A2 B2 B1` of two calls leaves specification 2 active with the max
    level of specification 1 — a record that the active specification enables is cut off. -/
theorem race_witness :
    let s1 : LogSpec := ⟨[⟨none, 1⟩], none⟩
    let s2 : LogSpec := ⟨[⟨none, 5⟩], none⟩
    let c0 : CState := ⟨⟨s1, [], 1, []⟩, none, [], []⟩
    let c := [CAct.start 1 s1, .start 2 s2, .finish 2, .finish 1].foldl CState.stepUnlocked c0
    c.handle.active = s2 ∧ c.handle.gate = 1 ∧ enabled c.handle.active.filters 5 [] = true := by
  decide

/-! ### non-vacuity: the same four steps under the lock -/
example :
    let s1 : LogSpec := ⟨[⟨none, 1⟩], none⟩
    let s2 : LogSpec := ⟨[⟨none, 5⟩], none⟩
    let c := crun ⟨⟨s1, [], 1, []⟩, none, [], []⟩ [.start 1 s1, .start 2 s2, .finish 2, .finish 1, .finish 2]
    Quiescent c ∧ c.handle.active = s2 ∧ c.handle.gate = 5 := by
  simp only [Quiescent]; decide

end FV.C12
