import FlexiVerif.Lemmas.FlwReopen
import FlexiVerif.Props.C01
/-
  C18 / C15 / C08 — `reset_flw` onto the SAME family (the new builder names the file specification
  that is in use). `StateHandle::reset` replaces the state: the old state is dropped — its
  `BufWriter` flushes into the file it has open — and a fresh `Initial` state takes over the same
  directory. The driver runs exactly this composition of model steps (`resetSame`: a flush, then a
  restart of the writer), and these theorems say what it means:

  * `resetSame_state`: the new state is `Initial`, has the new configuration, and starts on the
    directory in which the buffered tail has reached its file;
  * `resetSame_keeps_everything`: that directory, read the way the property reads it, is what
    `viewFiles` showed before the reset — every byte logged so far, the tail that was still
    buffered at the end of the file it belongs to. In particular the size a new appending state
    finds "at start" INCLUDES the buffered tail (what the seeded changes C15f / C08f broke: they
    let the new state look at the file before the old buffer had been flushed);
  * `resetSame_stream`: … which is the logged stream.
-/
namespace FV.C18ResetSame
open FV.Flw FV.FlwA FV.Reopen

/-- `reset_flw` onto the same family -/
def resetSame (s : St) (c : Cfg) (now : Nat) : St :=
  (step (step s .flush now noFaults).1 (.restart c) now noFaults).1

theorem resetSame_state (s : St) (c : Cfg) (now : Nat) :
    (resetSame s c now).act = none ∧ (resetSame s c now).cfg = c ∧
    (resetSame s c now).dir = withPending s := by
  unfold resetSame
  refine ⟨by simp [step], by simp [step], ?_⟩
  rw [withPending_eq_flush s now noFaults]
  simp [step]

/-- the directory the new state starts on holds everything, the buffered tail included -/
theorem resetSame_keeps_everything (cfg : Cfg) (hg : GoodCfg cfg) (seg : List (Op × Nat × Faults))
    (hp : PlainHistory seg) (c : Cfg) (now : Nat) :
    parts (resetSame (runOps (init cfg []) seg) c now).dir = viewFiles (runOps (init cfg []) seg) := by
  rw [(resetSame_state _ c now).2.2]
  exact family_flush (init cfg []) hg rfl rfl seg hp

/-- … and that is the logged stream (`C01.stream_complete`) -/
theorem resetSame_stream (cfg : Cfg) (hg : GoodCfg cfg) (seg : List (Op × Nat × Faults))
    (hp : PlainHistory seg) (c : Cfg) (now : Nat) :
    readAll (resetSame (runOps (init cfg []) seg) c now).dir =
      (viewFiles (runOps (init cfg []) seg)).flatten := by
  rw [← parts_flatten, resetSame_keeps_everything cfg hg seg hp c now]

/-! ### non-vacuity: two records still in an 8 KiB buffer when the reset comes -/

def cfgBuf : Cfg := { rot := some ⟨some 100, none, .numbers, none⟩, append := false, cap := some 8192, symlink := false }
def cfgApp : Cfg := { cfgBuf with append := true }
def seg : List (Op × Nat × Faults) := [(.write [1, 2, 3], 10, noFaults), (.write [4, 5], 11, noFaults)]

example : readAll (runOps (init cfgBuf []) seg).dir = [] := by decide          -- nothing on disk yet
example : readAll (resetSame (runOps (init cfgBuf []) seg) cfgApp 12).dir = [1, 2, 3, 4, 5] := by decide
example : (resetSame (runOps (init cfgBuf []) seg) cfgApp 12).act = none := by decide

end FV.C18ResetSame
