import FlexiVerif.Lemmas.FlwFaults
import FlexiVerif.Lemmas.FlwAbs
/-
  C19 — I/O failures are reported, lose only the failing write, and logging recovers.

  Setting: `cfg.append = false`, `NoCleanup cfg`; every naming scheme, criterion, buffer capacity,
  symlink/suffix setting; histories of `write`/`rotate`/`flush`/`shutdown` with a monotone clock
  and ARBITRARY `Faults` on every operation (`FaultyHistory`), started on the empty directory.

  Everything is a corollary of the refinement-with-faults of `Lemmas/FlwFaults.lean`
  (`faults_refine`): under every fault schedule the concrete writer refines the abstract
  rotating log with faults `FlwF.fstep`, in which a failed initialisation, a failed or only
  partially performed rotation and a failed write are no-ops.
-/
namespace FV.C19
open FV.Flw FV.FlwF

variable {cfg : Cfg}

/-! ### the refinement with faults -/

theorem monotone_append_left {xs ys : List (Op × Nat × Faults)} (h : Monotone (xs ++ ys)) :
    Monotone xs := by
  unfold Monotone at *
  rw [List.filter_append, List.map_append, List.pairwise_append] at h
  exact h.1

theorem faulty_left {xs ys : List (Op × Nat × Faults)} (h : FaultyHistory (xs ++ ys)) :
    FaultyHistory xs :=
  ⟨fun o ho => h.1 o (by simp [ho]), monotone_append_left h.2⟩

/-- the last clock reading of a prefix is a lower bound for the rest of a monotone history -/
theorem lastClock_le :
    ∀ (xs ys : List (Op × Nat × Faults)) (lo : Nat), Monotone (xs ++ ys) →
      (∀ o ∈ xs ++ ys, o.1.usesClock = true → lo ≤ o.2.1) →
      (∀ o ∈ ys, o.1.usesClock = true → lastClock lo xs ≤ o.2.1) ∧ Monotone ys := by
  intro xs
  induction xs with
  | nil => intro ys lo hm hlo; exact ⟨fun o ho hu => hlo o (by simpa using ho) hu, by simpa using hm⟩
  | cons x xs ih =>
    intro ys lo hm hlo
    obtain ⟨hm1, hm2⟩ := FlwB.monotone_tail (o := x) (ops := xs ++ ys) hm
    have e : lastClock lo (x :: xs) = lastClock (if x.1.usesClock then x.2.1 else lo) xs := rfl
    rw [e]
    apply ih ys _ hm1
    intro o ho hu
    by_cases hx : x.1.usesClock = true
    · rw [if_pos hx]; exact hm2 hx o ho hu
    · rw [if_neg hx]; exact hlo o (by simp at ho ⊢; exact Or.inr ho) hu

/-- **Refinement with faults** (the central theorem): after any prefix `ops` of a faulty history
    the state is related (`FRel`) to the abstract state reached by the abstract machine with
    faults; `lo`, the last clock reading, bounds the clock of the remaining operations. -/
theorem reach (ha : cfg.append = false) (hn : NoCleanup cfg) (ops more : List (Op × Nat × Faults))
    (hp : FaultyHistory (ops ++ more)) :
    FRel cfg (lastClock 0 ops) (runOps (init cfg []) ops) (frun cfg.rot Abs.init ops) ∧
    stream (frun cfg.rot Abs.init ops) = (accepted (init cfg []) ops).flatten ∧
    (∀ o ∈ more, o.1.usesClock = true → lastClock 0 ops ≤ o.2.1) ∧ FaultyHistory more := by
  obtain ⟨r1, r2⟩ := run_frel ⟨ha, hn⟩ ops 0 (init cfg []) Abs.init (frel_init cfg) (faulty_left hp).1
    (fun _ _ _ => Nat.zero_le _) (faulty_left hp).2
  obtain ⟨l1, l2⟩ := lastClock_le ops more 0 hp.2 (fun _ _ _ => Nat.zero_le _)
  refine ⟨r1, ?_, l1, fun o ho => hp.1 o (by simp [ho]), l2⟩
  rw [r2]
  simp [stream, Abs.init]

theorem faults_refine (ha : cfg.append = false) (hn : NoCleanup cfg)
    (ops : List (Op × Nat × Faults)) (hp : FaultyHistory ops) :
    let s := runOps (init cfg []) ops
    let a := frun cfg.rot Abs.init ops
    viewFiles s = a.files ∧
    (∀ act, s.act = some act → a.started = true ∧
      (cfg.rot.isSome → act.size = a.size ∧ act.created = a.created)) ∧
    (s.act = none → a.started = false) := by
  obtain ⟨r1, -⟩ := reach ha hn ops [] (by simpa using hp)
  exact r1.view

/-! ### 1. only the failing write is lost -/

/-- **Only the failing write is lost, nothing else; order kept.** Whatever fails (rename; open of
    the new file after the rename has happened; initialisation, retried at the next write; forced
    rotation; the write itself), what is on disk plus what is in the buffer is exactly the
    concatenation, in order, of the records whose own write was performed. -/
theorem faults_stream (ha : cfg.append = false) (hn : NoCleanup cfg)
    (ops : List (Op × Nat × Faults)) (hp : FaultyHistory ops) :
    (viewFiles (runOps (init cfg []) ops)).flatten = (accepted (init cfg []) ops).flatten := by
  obtain ⟨r1, r2, -⟩ := reach ha hn ops [] (by simpa using hp)
  rw [r1.view.1, files_stream r1.wf, r2]

/-- **No record, once written, is ever lost by a later failure.** -/
theorem no_loss_monotone (ha : cfg.append = false) (hn : NoCleanup cfg)
    (ops : List (Op × Nat × Faults)) (hp : FaultyHistory ops) :
    ∀ pre suf, ops = pre ++ suf →
      (viewFiles (runOps (init cfg []) pre)).flatten <+:
        (viewFiles (runOps (init cfg []) ops)).flatten := by
  intro pre suf e
  subst e
  rw [faults_stream ha hn _ hp, faults_stream ha hn _ (faulty_left hp), accepted_append,
    List.flatten_append]
  exact List.prefix_append _ _

/-! ### 2. every failure is reported -/

/-- a rotation is due at this operation: the criterion holds at a write, or it is forced -/
def rotDue (s : St) (op : Op) (now : Nat) : Bool :=
  match s.act, s.cfg.rot, op with
  | some a, some r, .write _ => rotationNecessary r a now
  | some _, some _, .rotate => true
  | _, _, _ => false

/-- the rotation completed: a reader sees one file more -/
def rotCompleted (s s' : St) : Prop := (viewFiles s').length = (viewFiles s).length + 1

/-- **Every failure is reported.** In a state reached by any faulty history:
    (a) if the write of `write b` is not performed, the call reports an error and the last event
        of the error channel is `.write`;
    (b) if a rotation was due (or forced) and did not complete, the call reports an error, and
        for a rotation inside a write the event `.logfile` is appended to the error channel. -/
theorem failures_reported (ha : cfg.append = false) (hn : NoCleanup cfg)
    (ops : List (Op × Nat × Faults)) (op : Op) (now : Nat) (fl : Faults)
    (hp : FaultyHistory (ops ++ [(op, now, fl)])) :
    let s := runOps (init cfg []) ops
    (∀ b, op = .write b → wrote s b now fl = false →
      (step s op now fl).2 = .err ∧
      ∃ mid, (step s op now fl).1.errs = s.errs ++ mid ++ [ErrKind.write]) ∧
    (rotDue s op now = true → ¬ rotCompleted s (step s op now fl).1 →
      (step s op now fl).2 = .err ∧
      (∀ b, op = .write b → ∃ tl, (step s op now fl).1.errs = s.errs ++ ErrKind.logfile :: tl)) := by
  obtain ⟨r1, -, r3, r4⟩ := reach ha hn ops _ hp
  obtain ⟨s1, s2, s3⟩ := step_frel ⟨ha, hn⟩ _ _ _ op now fl r1 (r4.1 (op, now, fl) (by simp))
    (r3 (op, now, fl) (by simp))
  simp only
  generalize runOps (init cfg []) ops = s at *
  generalize frun cfg.rot Abs.init ops = a at *
  refine ⟨?_, ?_⟩
  · intro b hb hw
    subst hb
    rw [wrote_eq ⟨ha, hn⟩ r1] at hw
    rw [s2, s3]
    unfold fwrote at hw
    cases hs : a.started <;> cases hio : ioOk cfg.rot fl <;> cases hwf : hit fl.writeF 0 <;>
      simp [hs, hio, hwf] at hw
    · exact ⟨by simp [fres, ferrs, hs, hio], [], by simp [ferrs, hs, hio]⟩
    · exact ⟨by simp [fres, ferrs, hs, hio], [], by simp [ferrs, hs, hio]⟩
    · exact ⟨by simp [fres, ferrs, hs, hio, hwf], _, by simp only [ferrs, hs, hio, hwf]; simp; rfl⟩
    · exact ⟨by simp [fres, ferrs, hs, hio, hwf], _, by simp only [ferrs, hs, hio, hwf]; simp; rfl⟩
    · exact ⟨by simp [fres, ferrs, hs, hio, hwf], _, by simp only [ferrs, hs, hio, hwf]; simp; rfl⟩
  · intro hdue hnc
    obtain ⟨hcfg, hI⟩ := r1
    have hv := s1.view.1
    cases hact : s.act with
    | none => simp [rotDue, hact] at hdue
    | some act =>
      rw [hact] at hI
      have hst := hI.started
      have hv0 : viewFiles s = a.files := hI.view hact
      cases hr : cfg.rot with
      | none => simp [rotDue, hact, hcfg, hr] at hdue
      | some r =>
        obtain ⟨hsz, hcr⟩ := hI.size (by simp [hr])
        have hnec := FlwB.rotationNecessary_eq r act a now hsz hcr
        unfold rotCompleted at hnc
        rw [hv, hv0, hr] at hnc
        rw [s2, s3, hr]
        cases op with
        | write b =>
          have hd : absNecessary r a now = true := by
            simpa [rotDue, hact, hcfg, hr, hnec] using hdue
          cases hio : ioOk (some r) fl with
          | true =>
            exfalso
            apply hnc
            cases hwf : hit fl.writeF 0 <;> simp [fstep, hst, hd, hio, hwf, Abs.files, Abs.rotate]
          | false =>
            refine ⟨by simp [fres, ferrs, hst, hd, hio], ?_⟩
            intro b' _
            exact ⟨if hit fl.writeF 0 then [ErrKind.write] else [], by simp [ferrs, hst, hd, hio]⟩
        | rotate =>
          cases hio : ioOk (some r) fl with
          | true =>
            exfalso
            apply hnc
            simp [fstep, hst, hio, Abs.files, Abs.rotate]
          | false =>
            exact ⟨by simp [fres, hst, hio], fun b' h => by cases h⟩
        | flush => simp [rotDue, hact, hcfg, hr] at hdue
        | shutdown => simp [rotDue, hact, hcfg, hr] at hdue
        | restart _ => simp [rotDue, hact, hcfg, hr] at hdue
        | reset _ => simp [rotDue, hact, hcfg, hr] at hdue
        | extRename => simp [rotDue, hact, hcfg, hr] at hdue
        | extRemove => simp [rotDue, hact, hcfg, hr] at hdue
        | reopen => simp [rotDue, hact, hcfg, hr] at hdue

/-- **Conversely**, an operation without faults — after whatever faulty history — returns `.ok`
    and leaves the error channel unchanged. -/
theorem no_faults_no_errors (ha : cfg.append = false) (hn : NoCleanup cfg)
    (ops : List (Op × Nat × Faults)) (op : Op) (now : Nat)
    (hp : FaultyHistory (ops ++ [(op, now, noFaults)])) :
    let s := runOps (init cfg []) ops
    (step s op now noFaults).2 = .ok ∧ (step s op now noFaults).1.errs = s.errs := by
  obtain ⟨r1, -, r3, r4⟩ := reach ha hn ops _ hp
  obtain ⟨-, s2, s3⟩ := step_frel ⟨ha, hn⟩ _ _ _ op now noFaults r1
    (r4.1 (op, now, noFaults) (by simp)) (r3 (op, now, noFaults) (by simp))
  simp only
  rw [s2, s3, ferrs_noFaults, fres_noFaults]
  simp

/-! ### 3. the call returns; the writer stays usable -/

/-- **The call returns**: the model functions are total, `step` yields a state and a result for
    every state, operation, clock reading and fault schedule. -/
theorem step_total (s : St) (op : Op) (now : Nat) (fl : Faults) :
    ∃ s' res, step s op now fl = (s', res) := ⟨_, _, rfl⟩

/-- **The invariant** (a generalisation of the refinement invariants `FlwA.Inv`/`FlwB.Inv`, see
    `FlwF.FAct`): the state is related to SOME abstract state. `lo` is the last clock reading. -/
def FInv (cfg : Cfg) (lo : Nat) (s : St) : Prop := ∃ a, FRel cfg lo s a

/-- `FInv` is preserved by every further operation, faulty or not -/
theorem finv_step (ha : cfg.append = false) (hn : NoCleanup cfg) (s : St) (lo : Nat) (op : Op)
    (now : Nat) (fl : Faults) (h : FInv cfg lo s) (hp : op.plain = true)
    (hlo : op.usesClock = true → lo ≤ now) :
    FInv cfg (if op.usesClock then now else lo) (step s op now fl).1 := by
  obtain ⟨a, hI⟩ := h
  exact ⟨_, (step_frel ⟨ha, hn⟩ s a lo op now fl hI hp hlo).1⟩

/-- what `FInv` says about the directory: before the first successful initialisation it is empty;
    afterwards the descriptor's file exists, it is the LAST file in reading order, the writer is
    buffered as configured, and the rotated files have strictly ascending keys (the listing order
    is unambiguous). Freshness of the next name is part of `FlwF.NameInv`. -/
theorem finv_usable {lo : Nat} {s : St} (h : FInv cfg lo s) :
    s.cfg = cfg ∧
    match s.act with
    | none => s.dir = []
    | some act =>
      ∃ f, s.dir.get act.handle = some f ∧ (parts s.dir).getLast? = some f.data ∧
        act.unbuffered = false ∧
        ((rotatedAsc s.dir).map (fun e => FlwB.nkey e.1)).Pairwise (fun x y => keyLt x y = true) := by
  obtain ⟨a, hcfg, hI⟩ := h
  refine ⟨hcfg, ?_⟩
  cases hact : s.act with
  | none => rw [hact] at hI; exact hI.1
  | some act => rw [hact] at hI; exact hI.usable

/-- **Recovery**: after ANY faulty history the state satisfies `FInv`, and `FInv` is preserved by
    every further operation (whose clock does not go backwards), whatever its faults. -/
theorem recovers (ha : cfg.append = false) (hn : NoCleanup cfg) (ops : List (Op × Nat × Faults))
    (hp : FaultyHistory ops) :
    FInv cfg (lastClock 0 ops) (runOps (init cfg []) ops) ∧
    ∀ (op : Op) (now : Nat) (fl : Faults), op.plain = true →
      (op.usesClock = true → lastClock 0 ops ≤ now) →
      FInv cfg (if op.usesClock then now else lastClock 0 ops)
        (step (runOps (init cfg []) ops) op now fl).1 := by
  obtain ⟨r1, -⟩ := reach ha hn ops [] (by simpa using hp)
  exact ⟨⟨_, r1⟩, fun op now fl h1 h2 => finv_step ha hn _ _ op now fl ⟨_, r1⟩ h1 h2⟩

/-! ### 4. logging and rotation resume -/

/-- **Logging and rotation resume.** For `faulty ++ clean` with a fault-free `clean`: the suffix
    behaves exactly as the abstract machine (`Abs.run`, the specification used for
    C01/C08/C09) continued from an abstract state `a₀` that summarises the faulty prefix — its
    files are what a reader saw after the prefix, i.e. the accepted records. -/
theorem resumes_after_faults (ha : cfg.append = false) (hn : NoCleanup cfg)
    (faulty clean : List (Op × Nat × Faults)) (hp : FaultyHistory (faulty ++ clean))
    (hclean : ∀ o ∈ clean, o.2.2 = noFaults) :
    ∃ a₀ : Abs,
      a₀.files = viewFiles (runOps (init cfg []) faulty) ∧
      a₀.files.flatten = (accepted (init cfg []) faulty).flatten ∧
      let s := runOps (init cfg []) (faulty ++ clean)
      let a := Abs.run cfg.rot a₀ clean
      viewFiles s = a.files ∧
      (∀ act, s.act = some act → a.started = true ∧
        (cfg.rot.isSome → act.size = a.size ∧ act.created = a.created)) ∧
      (s.act = none → a.started = false) := by
  obtain ⟨r1, r2, -⟩ := reach ha hn faulty clean hp
  obtain ⟨q1, -⟩ := reach ha hn (faulty ++ clean) [] (by simpa using hp)
  refine ⟨frun cfg.rot Abs.init faulty, r1.view.1.symm, ?_, ?_⟩
  · rw [files_stream r1.wf, r2]
  · rw [frun_append, frun_noFaults _ _ _ hclean] at q1
    exact q1.view

theorem flatten_map_singleton (l : List (List Nat)) : (l.map (fun x => [x])).flatten = l := by
  induction l with
  | nil => rfl
  | cons x xs ih => simp [ih]

/-- the abstract machine continued from any well-formed state: the old files (as units) followed
    by the new records, grouped contiguously -/
theorem abs_run_groups_from (rot : Option RotCfg) (a₀ : Abs) (hwf : AbsWF a₀)
    (clean : List (Op × Nat × Faults)) :
    ∃ groups : List (List (List Nat)),
      (Abs.run rot a₀ clean).files = groups.map List.flatten ∧
      groups.flatten = a₀.files ++ records clean := by
  cases hs : a₀.started with
  | true =>
    obtain ⟨g, hm, he⟩ := Abs.run_matches rot a₀ ⟨a₀.closed.map (fun x => [x]), [a₀.cur]⟩ clean
      ⟨by simp [Function.comp_def], by simp⟩
    have hst := Abs.run_started rot a₀ clean hs
    refine ⟨g.closed ++ [g.cur], ?_, ?_⟩
    · simp [Abs.files, hst, hm.1, hm.2]
    · simp only [flatten_map_singleton] at he
      simp [he, Abs.files, hs]
  | false =>
    obtain ⟨h1, h2⟩ := hwf hs
    obtain ⟨g, hm, he⟩ := Abs.run_matches rot a₀ ⟨[], []⟩ clean ⟨by simp [h1], by simp [h2]⟩
    simp only [List.flatten_nil, List.nil_append] at he
    cases hst : (Abs.run rot a₀ clean).started with
    | true =>
      refine ⟨g.closed ++ [g.cur], ?_, ?_⟩
      · simp [Abs.files, hst, hm.1, hm.2]
      · simp [he, Abs.files, hs]
    | false =>
      have := Abs.run_not_started rot a₀ clean hst hs
      exact ⟨[], by simp [Abs.files, hst], by simp [this, Abs.files, hs]⟩

/-- … hence the guarantees of the stream/partition properties hold for the records logged from
    then on: the files after the suffix are the files seen after the faulty prefix (each as one
    unit) followed by the records of the suffix, each exactly once, in order, grouped
    contiguously — only the last old file can be continued. -/
theorem resumes_groups (ha : cfg.append = false) (hn : NoCleanup cfg)
    (faulty clean : List (Op × Nat × Faults)) (hp : FaultyHistory (faulty ++ clean))
    (hclean : ∀ o ∈ clean, o.2.2 = noFaults) :
    ∃ groups : List (List (List Nat)),
      viewFiles (runOps (init cfg []) (faulty ++ clean)) = groups.map List.flatten ∧
      groups.flatten = viewFiles (runOps (init cfg []) faulty) ++ records clean := by
  obtain ⟨r1, -⟩ := reach ha hn faulty clean hp
  obtain ⟨q1, -⟩ := reach ha hn (faulty ++ clean) [] (by simpa using hp)
  rw [frun_append, frun_noFaults _ _ _ hclean] at q1
  rw [q1.view.1, r1.view.1]
  exact abs_run_groups_from cfg.rot _ r1.wf clean

/-- in particular the stream: everything accepted before, then everything logged afterwards -/
theorem resumes_stream (ha : cfg.append = false) (hn : NoCleanup cfg)
    (faulty clean : List (Op × Nat × Faults)) (hp : FaultyHistory (faulty ++ clean))
    (hclean : ∀ o ∈ clean, o.2.2 = noFaults) :
    (viewFiles (runOps (init cfg []) (faulty ++ clean))).flatten =
      (accepted (init cfg []) faulty).flatten ++ written clean := by
  obtain ⟨groups, h1, h2⟩ := resumes_groups ha hn faulty clean hp hclean
  rw [h1, flatten_map_flatten, h2, List.flatten_append, faults_stream ha hn faulty (faulty_left hp)]
  rfl

/-! ### 5. cleanup faults -/

/-- the compressed twin of a name -/
def gzTwin (n : FName) : FName := { n with gz := true }

/-- a pass of `cleanupLoop`, aborted or not, keeps every file that is neither in the list nor
    the compressed twin of a plain file of the list -/
theorem cleanupLoop_keeps (now : Nat) (hs : Bool) (k m : Nat) (fl : Faults) :
    ∀ (l : List (FName × File)) (i : Nat) (d : Dir) (rm gzc : Nat) (x : FName) (v : File),
      d.get x = some v → (∀ e ∈ l, e.1 ≠ x) → (∀ e ∈ l, e.1.gz = false → gzTwin e.1 ≠ x) →
      (cleanupLoop now hs k m fl l i d rm gzc).1.get x = some v := by
  intro l
  induction l with
  | nil => intro i d rm gzc x v h _ _; simpa [cleanupLoop] using h
  | cons e rest ih =>
    intro i d rm gzc x v h h1 h2
    obtain ⟨n, f⟩ := e
    have hn : n ≠ x := h1 (n, f) (by simp)
    have h1' : ∀ e ∈ rest, e.1 ≠ x := fun e he => h1 e (by simp [he])
    have h2' : ∀ e ∈ rest, e.1.gz = false → gzTwin e.1 ≠ x := fun e he => h2 e (by simp [he])
    simp only [cleanupLoop]
    by_cases c1 : i ≥ k + m
    · rw [if_pos c1]
      by_cases c2 : hit fl.removeF rm = true
      · rw [if_pos c2]; exact h
      · rw [if_neg c2]
        exact ih _ _ _ _ x v (by rw [FlwA.get_erase_ne _ _ _ (Ne.symm hn)]; exact h) h1' h2'
    · rw [if_neg c1]
      by_cases c3 : i ≥ k
      · rw [if_pos c3]
        by_cases c4 : (n.gz || !hs) = true
        · rw [if_pos c4]; exact ih _ _ _ _ x v h h1' h2'
        · rw [if_neg c4]
          have hgz : n.gz = false := by
            cases hg : n.gz <;> simp [hg] at c4 ⊢
          have hne : gzTwin n ≠ x := h2 (n, f) (by simp) hgz
          have hset : ∀ w : File, (d.set { n with gz := true } w).get x = some v := by
            intro w
            rw [show ({ n with gz := true } : FName) = gzTwin n from rfl,
              FlwA.get_set_ne _ _ _ _ (Ne.symm hne)]
            exact h
          by_cases c5 : hit fl.gzF gzc = true
          · rw [if_pos c5]; exact h
          · rw [if_neg c5]
            by_cases c5a : hit fl.gzCopyF gzc = true
            · rw [if_pos c5a]; exact hset _
            · rw [if_neg c5a]
              by_cases c5b : hit fl.gzFinishF gzc = true
              · rw [if_pos c5b]; exact hset _
              · rw [if_neg c5b]
                by_cases c6 : hit fl.removeF rm = true
                · rw [if_pos c6]; exact hset _
                · rw [if_neg c6]
                  exact ih _ _ _ _ x v
                    (by rw [FlwA.get_erase_ne _ _ _ (Ne.symm hn)]; exact hset _) h1' h2'
      · rw [if_neg c3]; exact ih _ _ _ _ x v h h1' h2'

/-- no plain file of the list has its compressed twin in the list, and the names are distinct
    (true for the listing of a directory in which every file is either plain or compressed) -/
def NoTwins (l : List (FName × File)) : Prop :=
  (l.map (·.1)).Nodup ∧ ∀ e ∈ l, e.1.gz = false → ∀ e' ∈ l, e'.1 ≠ gzTwin e.1

/-- the statement as given: it is FALSE without `NoTwins` (see the counterexample below) -/
def CleanupFaultRemovesOnlyOld : Prop :=
  ∀ (now : Nat) (hs : Bool) (k m : Nat) (fl : Faults) (l : List (FName × File)) (d : Dir) (n : FName),
    d.get n ≠ none → (cleanupLoop now hs k m fl l 0 d 0 0).1.get n = none →
    ∃ j f, l[j]? = some (n, f) ∧ k ≤ j ∧
      (j < k + m → (cleanupLoop now hs k m fl l 0 d 0 0).1.get (gzTwin n) = some ⟨f.data, now⟩)

/-- **Cleanup under faults removes only old files.** Every name erased by a pass of
    `cleanupLoop` — complete, or aborted at any `remove`/`gz` call — is an entry of the listing
    with index `≥ k` (the `k` newest plain files are never touched), and if its index is below
    `k + m` its data is now in its compressed twin. -/
theorem cleanup_fault_removes_only_old (now : Nat) (hs : Bool) (k m : Nat) (fl : Faults) :
    ∀ (l : List (FName × File)) (i : Nat) (d : Dir) (rm gzc : Nat), NoTwins l →
      ∀ n, d.get n ≠ none → (cleanupLoop now hs k m fl l i d rm gzc).1.get n = none →
      ∃ j f, l[j]? = some (n, f) ∧ k ≤ i + j ∧
        (i + j < k + m →
          (cleanupLoop now hs k m fl l i d rm gzc).1.get (gzTwin n) = some ⟨f.data, now⟩) := by
  intro l
  induction l with
  | nil =>
    intro i d rm gzc _ n h1 h2
    simp only [cleanupLoop] at h2
    exact absurd h2 h1
  | cons e rest ih =>
    intro i d rm gzc hnt n h1 h2
    obtain ⟨n0, f0⟩ := e
    have hnt' : NoTwins rest := by
      refine ⟨(List.nodup_cons.1 hnt.1).2, fun e he hg e' he' => ?_⟩
      exact hnt.2 e (by simp [he]) hg e' (by simp [he'])
    -- shifting the index
    have shift : ∀ r : Dir × Bool,
        (∃ j f, rest[j]? = some (n, f) ∧ k ≤ (i + 1) + j ∧
          ((i + 1) + j < k + m → r.1.get (gzTwin n) = some ⟨f.data, now⟩)) →
        ∃ j f, ((n0, f0) :: rest)[j]? = some (n, f) ∧ k ≤ i + j ∧
          (i + j < k + m → r.1.get (gzTwin n) = some ⟨f.data, now⟩) := by
      rintro r ⟨j, f, e1, e2, e3⟩
      exact ⟨j + 1, f, by simpa using e1, by omega, fun h => e3 (by omega)⟩
    simp only [cleanupLoop] at h2 ⊢
    by_cases c1 : i ≥ k + m
    · rw [if_pos c1] at h2 ⊢
      by_cases c2 : hit fl.removeF rm = true
      · rw [if_pos c2] at h2; exact absurd h2 h1
      · rw [if_neg c2] at h2 ⊢
        by_cases hn : n = n0
        · subst hn
          exact ⟨0, f0, by simp, by omega, fun h => by omega⟩
        · exact shift _ (ih _ _ _ _ hnt' n (by rw [FlwA.get_erase_ne _ _ _ hn]; exact h1) h2)
    · rw [if_neg c1] at h2 ⊢
      by_cases c3 : i ≥ k
      · rw [if_pos c3] at h2 ⊢
        by_cases c4 : (n0.gz || !hs) = true
        · rw [if_pos c4] at h2 ⊢
          exact shift _ (ih _ _ _ _ hnt' n h1 h2)
        · rw [if_neg c4] at h2 ⊢
          have hgz : n0.gz = false := by
            cases hg : n0.gz <;> simp [hg] at c4 ⊢
          have htw : gzTwin n0 ≠ n0 := by
            intro e
            have := congrArg FName.gz e
            simp [gzTwin, hgz] at this
          have tw : ({ n0 with gz := true } : FName) = gzTwin n0 := rfl
          rw [tw] at h2 ⊢
          -- an aborting step that only `set`s the twin cannot make a name disappear
          have abort : ∀ w : File, (d.set (gzTwin n0) w).get n = none → False := by
            intro w h2
            by_cases hx : n = gzTwin n0
            · rw [hx, FlwA.get_set_self] at h2
              cases h2
            · rw [FlwA.get_set_ne _ _ _ _ hx] at h2
              exact h1 h2
          by_cases c5 : hit fl.gzF gzc = true
          · rw [if_pos c5] at h2; exact absurd h2 h1
          · rw [if_neg c5] at h2 ⊢
            by_cases c5a : hit fl.gzCopyF gzc = true
            · rw [if_pos c5a] at h2; exact (abort _ h2).elim
            · rw [if_neg c5a] at h2 ⊢
              by_cases c5b : hit fl.gzFinishF gzc = true
              · rw [if_pos c5b] at h2; exact (abort _ h2).elim
              · rw [if_neg c5b] at h2 ⊢
                by_cases c6 : hit fl.removeF rm = true
                · rw [if_pos c6] at h2; exact (abort _ h2).elim
                · rw [if_neg c6] at h2 ⊢
                  by_cases hn : n = n0
                  · subst hn
                    refine ⟨0, f0, by simp, by omega, fun _ => ?_⟩
                    apply cleanupLoop_keeps
                    · rw [FlwA.get_erase_ne _ _ _ htw]
                      exact FlwA.get_set_self _ _ _
                    · intro e he
                      exact hnt.2 (n, f0) (by simp) hgz e (by simp [he])
                    · intro e he hg heq
                      -- two plain files with the same twin are equal
                      have : e.1 = n := by
                        obtain ⟨⟨ei, eg⟩, ef⟩ := e
                        obtain ⟨ni, ng⟩ := n
                        simp only [gzTwin, FName.mk.injEq, and_true] at heq hg hgz ⊢
                        exact ⟨heq, by rw [hg, hgz]⟩
                      have hnd := (List.nodup_cons.1 hnt.1).1
                      apply hnd
                      rw [← this]
                      exact List.mem_map.2 ⟨e, he, rfl⟩
                  · refine shift _ (ih _ _ _ _ hnt' n ?_ h2)
                    rw [FlwA.get_erase_ne _ _ _ hn]
                    by_cases hx : n = gzTwin n0
                    · rw [hx, FlwA.get_set_self]
                      simp
                    · rw [FlwA.get_set_ne _ _ _ _ hx]
                      exact h1
      · rw [if_neg c3] at h2 ⊢
        exact shift _ (ih _ _ _ _ hnt' n h1 h2)

/-- `NoTwins` is necessary: if a plain file and a stale compressed twin are both listed, the twin
    is first overwritten and then removed as "too old" -/
example : ¬ CleanupFaultRemovesOnlyOld := by
  intro h
  have := h 9 true 0 1 noFaults
    [(⟨some (.num 1), false⟩, ⟨[1], 0⟩), (⟨some (.num 1), true⟩, ⟨[2], 0⟩)]
    [(⟨some (.num 1), false⟩, ⟨[1], 0⟩), (⟨some (.num 1), true⟩, ⟨[2], 0⟩)]
    ⟨some (.num 1), false⟩ (by decide) (by decide)
  obtain ⟨j, f, h1, -, h3⟩ := this
  match j, h1, h3 with
  | 0, h1, h3 =>
    simp at h1
    subst h1
    have := h3 (by decide)
    revert this
    decide
  | 1, h1, _ => simp at h1
  | j + 2, h1, _ => simp at h1

/-- a failing `remove` aborts the pass with the error flag set … -/
theorem cleanupLoop_abort_remove (now : Nat) (hs : Bool) (k m : Nat) (fl : Faults) (n : FName)
    (f : File) (rest : List (FName × File)) (i : Nat) (d : Dir) (rm gzc : Nat)
    (hi : i ≥ k + m) (hf : hit fl.removeF rm = true) :
    cleanupLoop now hs k m fl ((n, f) :: rest) i d rm gzc = (d, true) := by
  simp [cleanupLoop, hi, hf]

/-- … and so does a failing compression -/
theorem cleanupLoop_abort_gz (now : Nat) (hs : Bool) (k m : Nat) (fl : Faults) (n : FName)
    (f : File) (rest : List (FName × File)) (i : Nat) (d : Dir) (rm gzc : Nat)
    (h1 : ¬ i ≥ k + m) (h2 : i ≥ k) (h3 : (n.gz || !hs) = false) (hf : hit fl.gzF gzc = true) :
    cleanupLoop now hs k m fl ((n, f) :: rest) i d rm gzc = (d, true) := by
  simp only [cleanupLoop, if_neg h1, if_pos h2, h3, hf, if_true, Bool.false_eq_true, if_false]

/-- `mountNext` passes the error of the cleanup pass on as its error flag, AFTER the writer has
    switched to the new file (the old buffer has been flushed into the old file) -/
theorem mountTail_switches_before_cleanup (s : St) (a : Active) (ifx : Infix) (r : RotCfg)
    (now : Nat) (fl : Faults) (hf : hit fl.openF 0 = false) :
    (mountTail s a ifx r now fl).2.1.handle = ⟨some ifx, false⟩ ∧
    (mountTail s a ifx r now fl).2.1.pending = [] ∧
    (mountTail s a ifx r now fl).2.2 =
      (cleanup now (openFile s ⟨some ifx, false⟩ now fl 0).1.cfg r fl
        ((openFile s ⟨some ifx, false⟩ now fl 0).1.dir.append a.handle a.pending)).2 := by
  obtain ⟨-, -, -, h4, -, -⟩ := openFile_spec s ⟨some ifx, false⟩ now fl
  unfold mountTail
  simp only [h4, hf, Bool.not_false, Bool.not_true, Bool.false_eq_true, if_false, flushAct]
  exact ⟨trivial, trivial, trivial⟩

/-- … and the write proceeds although the rotation reported an error -/
theorem writeTail_proceeds (s : St) (a : Active) (rerr : Bool) (b : List Nat) (fl : Faults)
    (hw : hit fl.writeF 0 = false) :
    (writeTail s a rerr b fl).2 = (if rerr then .err else .ok) ∧
    (writeTail s a rerr b fl).1.dir = (writeRaw s a b).1.dir ∧
    (writeTail s a rerr b fl).1.act =
      some { (writeRaw s a b).2 with size := (writeRaw s a b).2.size + b.length } := by
  have key : ∀ s' : St, s'.dir = s.dir → s'.cfg = s.cfg →
      (writeRaw s' a b).1.dir = (writeRaw s a b).1.dir ∧ (writeRaw s' a b).2 = (writeRaw s a b).2 := by
    intro s' h1 h2
    unfold writeRaw
    rw [h2]
    split
    · simp [h1]
    · simp only [flushAct, h1]
      split <;> split <;> simp [h1]
  cases rerr
  · simp [writeTail, hw]
  · obtain ⟨k1, k2⟩ := key { s with errs := s.errs ++ [ErrKind.logfile] } rfl rfl
    simp [writeTail, hw, k1, k2]

/-! ### non-vacuity: concrete fault schedules -/

/-- `numbers`, rotation when the file exceeds 3 bytes, unbuffered -/
def exCfgN : Cfg := ⟨some ⟨some 3, none, .numbers, none⟩, false, none, false, true⟩
/-- `timestamps`, rotation every second, `BufWriter` of 4 bytes, symlink -/
def exCfgT : Cfg := ⟨some ⟨none, some .second, .timestamps, none⟩, false, some 4, true, true⟩
/-- `numbersDirect`, size criterion, `BufWriter` of 2 bytes -/
def exCfgND : Cfg := ⟨some ⟨some 3, none, .numbersDirect, none⟩, false, some 2, false, true⟩
/-- `timestampsDirect`, rotation every second, unbuffered, symlink -/
def exCfgTD : Cfg := ⟨some ⟨none, some .second, .timestampsDirect, none⟩, false, none, true, true⟩

/-- a history with a fault of every kind -/
def exOps : List (Op × Nat × Faults) :=
  [(.write [0], 1, { renameF := some 0 }),   -- initialisation fails at the rename (where there is one)
   (.write [1, 2, 3, 4], 1, noFaults),       -- initialisation is retried
   (.write [5], 2, { openF := some 0 }),     -- rotation due: (renamed, then) the open fails; the write proceeds
   (.write [6], 3, { writeF := some 0 }),    -- the rotation is retried and completes; the write fails
   (.rotate, 3, { renameF := some 0 }),      -- a forced rotation fails at the rename (where there is one)
   (.write [7], 4, noFaults),
   (.flush, 0, noFaults)]

example : FaultyHistory exOps := by unfold FaultyHistory Monotone; decide

example : exCfgN.append = false ∧ NoCleanup exCfgN := ⟨rfl, fun r h => by cases h; rfl⟩
example : exCfgT.append = false ∧ NoCleanup exCfgT := ⟨rfl, fun r h => by cases h; rfl⟩
example : exCfgND.append = false ∧ NoCleanup exCfgND := ⟨rfl, fun r h => by cases h; rfl⟩
example : exCfgTD.append = false ∧ NoCleanup exCfgTD := ⟨rfl, fun r h => by cases h; rfl⟩

/-- `numbers`: `[0]` (initialisation failed) and `[6]` (write failed) are lost, nothing else; `[5]`
    went into the renamed file `r00000` because `rCURRENT` could not be opened -/
example : viewFiles (runOps (init exCfgN []) exOps) = [[1, 2, 3, 4, 5], [7]] ∧
    accepted (init exCfgN []) exOps = [[1, 2, 3, 4], [5], [7]] ∧
    (runOps (init exCfgN []) exOps).errs = [.write, .logfile, .write] := by decide

/-- the state that only a fault produces: the writer is on the renamed file, there is no
    `rCURRENT`, `idx` is already advanced, `size` unchanged so that the rotation is retried -/
example : (runOps (init exCfgN []) (exOps.take 3)).dir.map (·.1) = [⟨some (.num 0), false⟩] ∧
    (runOps (init exCfgN []) (exOps.take 3)).act.map (fun a => (a.handle, a.idx, a.size)) =
      some (⟨some (.num 0), false⟩, 1, 5) := by decide

example : viewFiles (runOps (init exCfgT []) exOps) = [[1, 2, 3, 4, 5], [], [7]] ∧
    accepted (init exCfgT []) exOps = [[1, 2, 3, 4], [5], [7]] := by decide

/-- `numbersDirect`: no rename, so the first write succeeds; the failed open leaves a gap in the
    numbering (`r00000`, `r00002`, `r00003`) -/
example : viewFiles (runOps (init exCfgND []) exOps) = [[0, 1, 2, 3, 4, 5], [], [7]] ∧
    accepted (init exCfgND []) exOps = [[0], [1, 2, 3, 4], [5], [7]] ∧
    ((runOps (init exCfgND []) exOps).dir.map (·.1)) =
      [⟨some (.num 3), false⟩, ⟨some (.num 2), false⟩, ⟨some (.num 0), false⟩] := by decide

example : viewFiles (runOps (init exCfgTD []) exOps) = [[0, 1, 2, 3, 4, 5], [], [], [7]] ∧
    accepted (init exCfgTD []) exOps = [[0], [1, 2, 3, 4], [5], [7]] := by decide

/-- the theorems applied -/
example : (viewFiles (runOps (init exCfgN []) exOps)).flatten =
    (accepted (init exCfgN []) exOps).flatten :=
  faults_stream rfl (fun r h => by cases h; rfl) exOps (by unfold FaultyHistory Monotone; decide)

/-- `rotDue`/`rotCompleted`/`wrote` are not vacuous: in the third operation the rotation is due and
    does not complete (reported), in the fourth the write is not performed (reported) -/
example : rotDue (runOps (init exCfgN []) (exOps.take 2)) (.write [5]) 2 = true ∧
    ¬ rotCompleted (runOps (init exCfgN []) (exOps.take 2)) (runOps (init exCfgN []) (exOps.take 3)) ∧
    wrote (runOps (init exCfgN []) (exOps.take 3)) [6] 3 { writeF := some 0 } = false := by
  unfold rotCompleted; decide

/-- `resumes_after_faults`/`resumes_groups` are not vacuous: the last two operations of `exOps`
    form a fault-free suffix -/
example : FaultyHistory (exOps.take 5 ++ exOps.drop 5) ∧ (∀ o ∈ exOps.drop 5, o.2.2 = noFaults) ∧
    viewFiles (runOps (init exCfgN []) (exOps.take 5)) = [[1, 2, 3, 4, 5], []] ∧
    records (exOps.drop 5) = [[7]] := by
  refine ⟨by unfold FaultyHistory Monotone; decide, by decide, by decide, by decide⟩

/-- cleanup with a fault: keep 1 plain and 1 compressed file; the second `remove` fails. The pass
    is aborted (`true`); `r00002` was compressed and removed, `r00001` and the old `r00000.gz` are
    still there; `r00003` (index `< k`) is untouched. -/
def exDir : Dir :=
  [(⟨some (.num 3), false⟩, ⟨[3], 0⟩), (⟨some (.num 2), false⟩, ⟨[2], 0⟩),
   (⟨some (.num 1), false⟩, ⟨[1], 0⟩), (⟨some (.num 0), true⟩, ⟨[0], 0⟩)]

example : NoTwins (listing exDir) ∧
    (cleanupLoop 9 true 1 1 { removeF := some 1 } (listing exDir) 0 exDir 0 0).2 = true ∧
    (cleanupLoop 9 true 1 1 { removeF := some 1 } (listing exDir) 0 exDir 0 0).1.get
      ⟨some (.num 3), false⟩ = some ⟨[3], 0⟩ ∧
    (cleanupLoop 9 true 1 1 { removeF := some 1 } (listing exDir) 0 exDir 0 0).1.get
      ⟨some (.num 2), false⟩ = none ∧
    (cleanupLoop 9 true 1 1 { removeF := some 1 } (listing exDir) 0 exDir 0 0).1.get
      ⟨some (.num 2), true⟩ = some ⟨[2], 9⟩ ∧
    (cleanupLoop 9 true 1 1 { removeF := some 1 } (listing exDir) 0 exDir 0 0).1.get
      ⟨some (.num 1), false⟩ = some ⟨[1], 0⟩ ∧
    (cleanupLoop 9 true 1 1 { removeF := some 1 } (listing exDir) 0 exDir 0 0).1.get
      ⟨some (.num 0), true⟩ = some ⟨[0], 0⟩ := by
  unfold NoTwins; decide

/-! ### 6. failed compression: `gzCopyF` (copy into the encoder fails) and `gzFinishF` (`finish()` fails) -/

/-- a plain name is not its own compressed twin -/
theorem ne_gzTwin_of_plain {x : FName} (hx : x.gz = false) (n : FName) : x ≠ gzTwin n := by
  intro e
  have := congrArg FName.gz e
  rw [hx] at this
  cases this

/-- **The failing step** (one step of the pass, at the head `(n, f)` of the list): if the head is a
    plain file inside the compress window (`k ≤ i < k + m`, files have a suffix), the creation of
    the `.gz` does not fail (`gzF`) but the copy into the encoder (`gzCopyF`) or its `finish()`
    (`gzFinishF`) does, then
    * the pass aborts with the error flag set,
    * the original `n` is still in the directory, with its data and birth time unchanged,
    * the only name that changed is the twin `n.gz`: it exists, stamped `now`, and holds either
      nothing (copy failed) or exactly the bytes of the original (finish failed) — never a
      proper, non-empty part of them,
    * every other name is untouched; in particular NOTHING is erased by this step. -/
theorem failed_compression_step (now : Nat) (hs : Bool) (k m : Nat) (fl : Faults) (n : FName)
    (f : File) (rest : List (FName × File)) (i : Nat) (d : Dir) (rm gzc : Nat)
    (h1 : ¬ i ≥ k + m) (h2 : i ≥ k) (hgz : n.gz = false) (hsuf : hs = true)
    (hc : hit fl.gzF gzc = false)
    (hf : hit fl.gzCopyF gzc = true ∨ hit fl.gzFinishF gzc = true)
    (hin : d.get n = some f) :
    let r := cleanupLoop now hs k m fl ((n, f) :: rest) i d rm gzc
    r.2 = true ∧
    r.1.get n = some f ∧
    (r.1.get (gzTwin n) = some ⟨[], now⟩ ∨ r.1.get (gzTwin n) = some ⟨f.data, now⟩) ∧
    (hit fl.gzCopyF gzc = true → r.1.get (gzTwin n) = some ⟨[], now⟩) ∧
    (hit fl.gzCopyF gzc = false → r.1.get (gzTwin n) = some ⟨f.data, now⟩) ∧
    ∀ x, x ≠ gzTwin n → r.1.get x = d.get x := by
  have hne : n ≠ gzTwin n := ne_gzTwin_of_plain hgz n
  have h3 : (n.gz || !hs) = false := by rw [hgz, hsuf]; rfl
  have tw : ({ n with gz := true } : FName) = gzTwin n := rfl
  -- the result of the step is `(d.set (gzTwin n) w, true)` for one of the two contents `w`
  have key : ∃ w : File,
      cleanupLoop now hs k m fl ((n, f) :: rest) i d rm gzc = (d.set (gzTwin n) w, true) ∧
      (hit fl.gzCopyF gzc = true → w = ⟨[], now⟩) ∧
      (hit fl.gzCopyF gzc = false → w = ⟨f.data, now⟩) := by
    simp only [cleanupLoop]
    rw [if_neg h1, if_pos h2, h3, hc, tw]
    simp only [Bool.false_eq_true, if_false]
    by_cases c1 : hit fl.gzCopyF gzc = true
    · rw [if_pos c1]
      exact ⟨_, rfl, fun _ => rfl, fun h => by rw [c1] at h; cases h⟩
    · rw [if_neg c1]
      have c2 : hit fl.gzFinishF gzc = true := hf.resolve_left c1
      rw [if_pos c2]
      exact ⟨_, rfl, fun h => absurd h c1, fun _ => rfl⟩
  obtain ⟨w, hr, hw1, hw2⟩ := key
  simp only
  rw [hr]
  refine ⟨rfl, ?_, ?_, ?_, ?_, ?_⟩
  · show (d.set (gzTwin n) w).get n = some f
    rw [FlwA.get_set_ne _ _ _ _ hne]
    exact hin
  · show (d.set (gzTwin n) w).get (gzTwin n) = _ ∨ (d.set (gzTwin n) w).get (gzTwin n) = _
    rw [FlwA.get_set_self]
    cases hcp : hit fl.gzCopyF gzc
    · exact Or.inr (by rw [hw2 hcp])
    · exact Or.inl (by rw [hw1 hcp])
  · intro hcp
    show (d.set (gzTwin n) w).get (gzTwin n) = _
    rw [FlwA.get_set_self, hw1 hcp]
  · intro hcp
    show (d.set (gzTwin n) w).get (gzTwin n) = _
    rw [FlwA.get_set_self, hw2 hcp]
  · intro x hx
    show (d.set (gzTwin n) w).get x = d.get x
    exact FlwA.get_set_ne _ _ _ _ hx

/-- a pass, aborted or not and whatever fails, never changes the CONTENT of a plain file: a plain
    name that is in the directory afterwards was there before, with the same data and birth time
    (the pass only ever writes to `.gz` names) -/
theorem cleanupLoop_plain_stable (now : Nat) (hs : Bool) (k m : Nat) (fl : Faults) :
    ∀ (l : List (FName × File)) (i : Nat) (d : Dir) (rm gzc : Nat) (x : FName) (w : File),
      x.gz = false → (cleanupLoop now hs k m fl l i d rm gzc).1.get x = some w →
      d.get x = some w := by
  intro l
  induction l with
  | nil => intro i d rm gzc x w _ h; simpa [cleanupLoop] using h
  | cons e rest ih =>
    intro i d rm gzc x w hx h
    obtain ⟨n, f⟩ := e
    have herase : ∀ (d' : Dir) (y : FName), (d'.erase y).get x = some w → d'.get x = some w := by
      intro d' y hy
      by_cases e : x = y
      · rw [e, FlwA.get_erase_self] at hy
        cases hy
      · rw [FlwA.get_erase_ne _ _ _ e] at hy
        exact hy
    have hset : ∀ u : File, (d.set { n with gz := true } u).get x = some w → d.get x = some w := by
      intro u hu
      rw [show ({ n with gz := true } : FName) = gzTwin n from rfl,
        FlwA.get_set_ne _ _ _ _ (ne_gzTwin_of_plain hx n)] at hu
      exact hu
    simp only [cleanupLoop] at h
    by_cases c1 : i ≥ k + m
    · rw [if_pos c1] at h
      by_cases c2 : hit fl.removeF rm = true
      · rw [if_pos c2] at h; exact h
      · rw [if_neg c2] at h
        exact herase _ _ (ih _ _ _ _ x w hx h)
    · rw [if_neg c1] at h
      by_cases c3 : i ≥ k
      · rw [if_pos c3] at h
        by_cases c4 : (n.gz || !hs) = true
        · rw [if_pos c4] at h; exact ih _ _ _ _ x w hx h
        · rw [if_neg c4] at h
          by_cases c5 : hit fl.gzF gzc = true
          · rw [if_pos c5] at h; exact h
          · rw [if_neg c5] at h
            by_cases c5a : hit fl.gzCopyF gzc = true
            · rw [if_pos c5a] at h; exact hset _ h
            · rw [if_neg c5a] at h
              by_cases c5b : hit fl.gzFinishF gzc = true
              · rw [if_pos c5b] at h; exact hset _ h
              · rw [if_neg c5b] at h
                by_cases c6 : hit fl.removeF rm = true
                · rw [if_pos c6] at h; exact hset _ h
                · rw [if_neg c6] at h
                  exact hset _ (herase _ _ (ih _ _ _ _ x w hx h))
      · rw [if_neg c3] at h; exact ih _ _ _ _ x w hx h

/-- **A failed compression never costs the original** (whole pass, EVERY fault assignment, in
    particular every `gzCopyF`/`gzFinishF`): for every plain file `x` that is in the directory
    before a pass of `cleanupLoop`, afterwards
    * either `x` is still there, with the same data and birth time — this is what happens to the
      file whose compression failed (`failed_compression_step`) and to everything after it —,
    * or `x` was handled by a SUCCESSFUL step: it is an entry of the listing with index `≥ k`,
      and if its index is below `k + m` (compress window) its twin holds exactly its bytes.
    So the state "original gone, `.gz` empty or partial" — the only way a failed compression
    could lose data — is unreachable. -/
theorem failed_compression_keeps_original (now : Nat) (hs : Bool) (k m : Nat) (fl : Faults)
    (l : List (FName × File)) (i : Nat) (d : Dir) (rm gzc : Nat) (hnt : NoTwins l)
    (x : FName) (v : File) (hx : x.gz = false) (hin : d.get x = some v) :
    (cleanupLoop now hs k m fl l i d rm gzc).1.get x = some v ∨
    ((cleanupLoop now hs k m fl l i d rm gzc).1.get x = none ∧
      ∃ j f, l[j]? = some (x, f) ∧ k ≤ i + j ∧
        (i + j < k + m →
          (cleanupLoop now hs k m fl l i d rm gzc).1.get (gzTwin x) = some ⟨f.data, now⟩)) := by
  cases hout : (cleanupLoop now hs k m fl l i d rm gzc).1.get x with
  | some w =>
    left
    have := cleanupLoop_plain_stable now hs k m fl l i d rm gzc x w hx hout
    rw [hin] at this
    exact this.symm
  | none =>
    right
    refine ⟨rfl, ?_⟩
    exact cleanup_fault_removes_only_old now hs k m fl l i d rm gzc hnt x
      (by rw [hin]; exact fun h => nomatch h) hout

/-- keep 1 plain and 1 compressed file; two plain files `r00001`, `r00000` -/
def exDir2 : Dir :=
  [(⟨some (.num 1), false⟩, ⟨[1, 1], 0⟩), (⟨some (.num 0), false⟩, ⟨[5, 6, 7], 0⟩)]

/-- non-vacuity, `gzCopyF`: the listing is `[r00001, r00000]`; `r00000` (index 1) is to be
    compressed, the copy into the encoder fails: the pass is aborted with the error flag, the
    original `r00000` is still there with its bytes, an EMPTY `r00000.gz` is left behind, and
    `r00001` is untouched. The hypotheses of `failed_compression_step` hold at that step. -/
example : NoTwins (listing exDir2) ∧
    listing exDir2 = [(⟨some (.num 1), false⟩, ⟨[1, 1], 0⟩), (⟨some (.num 0), false⟩, ⟨[5, 6, 7], 0⟩)] ∧
    hit ({ gzCopyF := some 0 } : Faults).gzF 0 = false ∧
    hit ({ gzCopyF := some 0 } : Faults).gzCopyF 0 = true ∧
    (cleanupLoop 9 true 1 1 { gzCopyF := some 0 } (listing exDir2) 0 exDir2 0 0).2 = true ∧
    (cleanupLoop 9 true 1 1 { gzCopyF := some 0 } (listing exDir2) 0 exDir2 0 0).1.map (·.1) =
      [⟨some (.num 0), true⟩, ⟨some (.num 1), false⟩, ⟨some (.num 0), false⟩] ∧
    (cleanupLoop 9 true 1 1 { gzCopyF := some 0 } (listing exDir2) 0 exDir2 0 0).1.get
      ⟨some (.num 0), false⟩ = some ⟨[5, 6, 7], 0⟩ ∧
    (cleanupLoop 9 true 1 1 { gzCopyF := some 0 } (listing exDir2) 0 exDir2 0 0).1.get
      ⟨some (.num 0), true⟩ = some ⟨[], 9⟩ ∧
    (cleanupLoop 9 true 1 1 { gzCopyF := some 0 } (listing exDir2) 0 exDir2 0 0).1.get
      ⟨some (.num 1), false⟩ = some ⟨[1, 1], 0⟩ := by
  unfold NoTwins; decide

/-- non-vacuity, `gzFinishF`: the same pass with a failing `finish()`: aborted, the original is
    still there, next to a COMPLETE `r00000.gz` -/
example :
    (cleanupLoop 9 true 1 1 { gzFinishF := some 0 } (listing exDir2) 0 exDir2 0 0).2 = true ∧
    (cleanupLoop 9 true 1 1 { gzFinishF := some 0 } (listing exDir2) 0 exDir2 0 0).1.get
      ⟨some (.num 0), false⟩ = some ⟨[5, 6, 7], 0⟩ ∧
    (cleanupLoop 9 true 1 1 { gzFinishF := some 0 } (listing exDir2) 0 exDir2 0 0).1.get
      ⟨some (.num 0), true⟩ = some ⟨[5, 6, 7], 9⟩ ∧
    -- without the fault the same pass compresses and removes `r00000`
    (cleanupLoop 9 true 1 1 noFaults (listing exDir2) 0 exDir2 0 0).2 = false ∧
    (cleanupLoop 9 true 1 1 noFaults (listing exDir2) 0 exDir2 0 0).1.get
      ⟨some (.num 0), false⟩ = none ∧
    (cleanupLoop 9 true 1 1 noFaults (listing exDir2) 0 exDir2 0 0).1.get
      ⟨some (.num 0), true⟩ = some ⟨[5, 6, 7], 9⟩ ∧
    -- `gzF` (the creation of the `.gz` fails) is tested first: nothing is left behind
    (cleanupLoop 9 true 1 1 { gzF := some 0, gzCopyF := some 0 } (listing exDir2) 0 exDir2 0 0).2 =
      true ∧
    (cleanupLoop 9 true 1 1 { gzF := some 0, gzCopyF := some 0 } (listing exDir2) 0 exDir2 0 0).1.get
      ⟨some (.num 0), true⟩ = none := by
  decide

/-- the same through `cleanup` (the entry point used by the writer) -/
example :
    (cleanup 9 ⟨none, false, none, false, true⟩ ⟨none, none, .numbers, some (1, 1)⟩
      { gzCopyF := some 0 } exDir2).2 = true ∧
    (cleanup 9 ⟨none, false, none, false, true⟩ ⟨none, none, .numbers, some (1, 1)⟩
      { gzCopyF := some 0 } exDir2).1.get ⟨some (.num 0), false⟩ = some ⟨[5, 6, 7], 0⟩ ∧
    (cleanup 9 ⟨none, false, none, false, true⟩ ⟨none, none, .numbers, some (1, 1)⟩
      { gzCopyF := some 0 } exDir2).1.get ⟨some (.num 0), true⟩ = some ⟨[], 9⟩ := by
  decide

/-- `failed_compression_step` applied to the second step of that pass -/
example :
    (cleanupLoop 9 true 1 1 { gzCopyF := some 0 }
      [(⟨some (.num 0), false⟩, ⟨[5, 6, 7], 0⟩)] 1 exDir2 0 0).1.get ⟨some (.num 0), false⟩ =
      some ⟨[5, 6, 7], 0⟩ :=
  (failed_compression_step 9 true 1 1 { gzCopyF := some 0 } ⟨some (.num 0), false⟩ ⟨[5, 6, 7], 0⟩
    [] 1 exDir2 0 0 (by decide) (by decide) rfl rfl (by decide) (Or.inl (by decide))
    (by decide)).2.1

end FV.C19
