import FlexiVerif.Lemmas.FlwRules
import FlexiVerif.Lemmas.FlwRefine
/-
  C15 — The partition of the stream into files does not depend on the write mode.

  Two configurations with the same rotation configuration (criterion, naming, cleanup) but
  arbitrary buffer capacity (`cap`: direct, or `BufWriter` of any size), symlink and suffix
  settings produce the same files from the same history. The refinement `Refines` of both
  configurations is a hypothesis (proved per naming scheme in `Lemmas/FlwRefine*.lean`).
-/
namespace FV.C15
open FV FV.Flw

/-- **Mode independence.** The files (pending buffer counted to the last file) are the same. -/
theorem mode_independent (cfg cfg' : Cfg) (h : cfg'.rot = cfg.rot)
    (ops : List (Op × Nat × Faults)) (href : Refines cfg ops) (href' : Refines cfg' ops) :
    viewFiles (runOps (init cfg' []) ops) = viewFiles (runOps (init cfg []) ops) := by
  rw [href.1, href'.1, h]

/-- the rotation bookkeeping (`current_size`, `created_at`) agrees as well -/
theorem mode_independent_bookkeeping (cfg cfg' : Cfg) (h : cfg'.rot = cfg.rot)
    (hrot : cfg.rot.isSome) (ops : List (Op × Nat × Faults))
    (href : Refines cfg ops) (href' : Refines cfg' ops) :
    ∀ act act', (runOps (init cfg []) ops).act = some act →
      (runOps (init cfg' []) ops).act = some act' →
      act'.size = act.size ∧ act'.created = act.created := by
  intro act act' ha ha'
  have h1 := (href.2.1 act ha).2 hrot
  have h2 := (href'.2.1 act' ha').2 (by rw [h]; exact hrot)
  rw [h] at h2
  exact ⟨h2.1.trans h1.1.symm, h2.2.trans h1.2.symm⟩

/-- both writers are past `Initial` at the same time -/
theorem mode_independent_started (cfg cfg' : Cfg) (h : cfg'.rot = cfg.rot)
    (ops : List (Op × Nat × Faults)) (href : Refines cfg ops) (href' : Refines cfg' ops) :
    (runOps (init cfg' []) ops).act.isSome = (runOps (init cfg []) ops).act.isSome := by
  cases ha : (runOps (init cfg []) ops).act with
  | none =>
    cases ha' : (runOps (init cfg' []) ops).act with
    | none => rfl
    | some act' =>
      have h1 := href.2.2 ha
      have h2 := (href'.2.1 act' ha').1
      rw [h, h1] at h2; exact absurd h2 (by simp)
  | some act =>
    cases ha' : (runOps (init cfg' []) ops).act with
    | some act' => rfl
    | none =>
      have h1 := (href.2.1 act ha).1
      have h2 := href'.2.2 ha'
      rw [h, h1] at h2; exact absurd h2 (by simp)

/-- **After shutdown the directories hold the same files**: once the history ends with
    `shutdown` (or `flush`), what a reader finds on disk is the same partition in both modes. -/
theorem mode_independent_after_shutdown (cfg cfg' : Cfg) (h : cfg'.rot = cfg.rot)
    (ops ops' : List (Op × Nat × Faults)) (op : Op) (now : Nat) (fl : Faults)
    (hops : ops = ops' ++ [(op, now, fl)]) (hop : op = .flush ∨ op = .shutdown)
    (href : Refines cfg ops) (href' : Refines cfg' ops) :
    parts (runOps (init cfg' []) ops).dir = parts (runOps (init cfg []) ops).dir := by
  have hp : ∀ c : Cfg, ∀ a', (runOps (init c []) ops).act = some a' → a'.pending = [] := by
    intro c
    subst hops
    rw [runOps_concat]
    exact step_flush_pending _ op now fl hop
  rw [← viewFiles_no_pending _ (hp cfg), ← viewFiles_no_pending _ (hp cfg')]
  exact mode_independent cfg cfg' h ops href href'

/-- … and the same bytes. -/
theorem mode_independent_readAll_after_shutdown (cfg cfg' : Cfg) (h : cfg'.rot = cfg.rot)
    (ops ops' : List (Op × Nat × Faults)) (op : Op) (now : Nat) (fl : Faults)
    (hops : ops = ops' ++ [(op, now, fl)]) (hop : op = .flush ∨ op = .shutdown)
    (href : Refines cfg ops) (href' : Refines cfg' ops) :
    readAll (runOps (init cfg' []) ops).dir = readAll (runOps (init cfg []) ops).dir := by
  rw [← parts_flatten, ← parts_flatten,
    mode_independent_after_shutdown cfg cfg' h ops ops' op now fl hops hop href href']

/-! ### non-vacuity: direct vs. buffered (capacity 4) vs. buffered (capacity 100) with symlink -/

def rot : RotCfg := ⟨some 3, none, .numbers, none⟩
def cfgDirect : Cfg := { rot := some rot, append := false, cap := none, symlink := false }
def cfgBuf4 : Cfg := { rot := some rot, append := false, cap := some 4, symlink := false }
def cfgBuf100 : Cfg := { rot := some rot, append := false, cap := some 100, symlink := true }
def exOps : List (Op × Nat × Faults) :=
  [(.write [1, 2], 10, noFaults), (.write [3, 4], 11, noFaults), (.write [5], 12, noFaults),
   (.rotate, 13, noFaults), (.write [6], 14, noFaults), (.shutdown, 15, noFaults)]

example : Refines cfgDirect exOps := Refines.of_check _ _ (by decide)
example : Refines cfgBuf4 exOps := Refines.of_check _ _ (by decide)
example : Refines cfgBuf100 exOps := Refines.of_check _ _ (by decide)
example : parts (runOps (init cfgDirect []) exOps).dir = [[1, 2, 3, 4], [5], [6]] ∧
    parts (runOps (init cfgBuf4 []) exOps).dir = [[1, 2, 3, 4], [5], [6]] ∧
    parts (runOps (init cfgBuf100 []) exOps).dir = [[1, 2, 3, 4], [5], [6]] := by decide
/-- before the shutdown the directories differ (the buffer of the third writer holds bytes),
    the views do not -/
example : parts (runOps (init cfgBuf100 []) (exOps.take 5)).dir ≠
      parts (runOps (init cfgDirect []) (exOps.take 5)).dir ∧
    viewFiles (runOps (init cfgBuf100 []) (exOps.take 5)) =
      viewFiles (runOps (init cfgDirect []) (exOps.take 5)) := by decide


/-! ### The property, unconditionally (refinement proved for every naming scheme: `refines_all`) -/

/-- **C15 (sync modes).** The same history under any two buffer capacities (direct, 1 byte,
    8 KiB, …), symlink on or off, yields the same files once the writer has flushed/shut down. -/
theorem contents_independent_of_write_mode (cfg cfg' : Cfg) (h : cfg'.rot = cfg.rot)
    (ha : cfg.append = false) (ha' : cfg'.append = false) (hn : NoCleanup cfg)
    (ops ops' : List (Op × Nat × Faults)) (op : Op) (now : Nat) (fl : Faults)
    (hops : ops = ops' ++ [(op, now, fl)]) (hop : op = .flush ∨ op = .shutdown)
    (hp : PlainHistory ops) :
    parts (runOps (init cfg' []) ops).dir = parts (runOps (init cfg []) ops).dir :=
  mode_independent_after_shutdown cfg cfg' h ops ops' op now fl hops hop
    (refines_all cfg ha hn ops hp)
    (refines_all cfg' ha' (by intro r hr; rw [h] at hr; exact hn r hr) ops hp)


/-! ### The in-band control messages of the asynchronous channel -/

/-- `start_async_fs_writer`: the writer thread dispatches on the CONTENT of a message:
    `b"F"` = flush, `b"S"` = shutdown, anything else = data -/
inductive Dispatch where
  | flush | shutdown | data
deriving DecidableEq, Repr

def asyncDispatch (msg : List Nat) : Dispatch :=
  if msg = [70] then .flush else if msg = [83] then .shutdown else .data

/-- a RECORD message always ends with the line ending (LF or CRLF), so it can never be taken
    for a control message — whatever the format output is (also the empty one) -/
theorem record_never_control (out le : List Nat) (hle : le = [10] ∨ le = [13, 10]) :
    asyncDispatch (out ++ le) = .data := by
  have h1 : out ++ le ≠ [70] := by
    intro h
    have := congrArg List.getLast? h
    rcases hle with rfl | rfl <;> simp at this
  have h2 : out ++ le ≠ [83] := by
    intro h
    have := congrArg List.getLast? h
    rcases hle with rfl | rfl <;> simp at this
  simp [asyncDispatch, h1, h2]

/-- full statement for raw chunks written through `io::Write`: every chunk is data -/
def raw_chunks_are_data_full_statement : Prop := ∀ chunk : List Nat, asyncDispatch chunk = .data

/-- FALSE for the code as it is (known finding `C15-async-control-chunks`) -/
theorem raw_chunk_violation_witness : ¬ raw_chunks_are_data_full_statement := by
  intro h; have := h [70]; revert this; decide

/-- every other chunk is data (proved part) -/
theorem raw_chunks_are_data_partial (chunk : List Nat) (h1 : chunk ≠ [70]) (h2 : chunk ≠ [83]) :
    asyncDispatch chunk = .data := by
  simp [asyncDispatch, h1, h2]

end FV.C15
