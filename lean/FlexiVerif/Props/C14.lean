import FlexiVerif.Lemmas.Names
/-
  C14 — Files outside the naming pattern are never selected (hence never renamed, compressed,
  deleted or listed).

  The file writer only touches files that `filterFiles`/`acceptFile` select (by construction of
  the `Flw` model, validated by the differential test with foreign files present).  The content
  of C14 at the string level is that this selection is sound (`accept_shape`,
  `foreign_not_selected_partial`), total (`accept_total`) and complete for the logger's own
  files (`family_selected_*`).

  Findings recorded here as witnesses:
  * `extra_dots_violation_witness`: arbitrary dot-separated parts between infix and suffix are
    accepted (`app_r00001.foo.log`);
  * `dotted_basename_no_suffix_witness`: without suffix and with a dot in the fixed name part the
    logger's OWN rotated files are not selected (`my.app_r00001`);
  * `accept_needs_prefix_witness`: `acceptFile` alone does not compare the fixed part (only its
    byte length) — the `starts_with` test of `read_dir_related_files` is load-bearing.
-/
namespace FV.C14
open FV FV.Flw FV.Names

/-! ### 1. shape of a selected name -/

/-- C14.1: a selected name decomposes as `fixed _ mi [.ext]`, the demanded suffix is the
    extension, and the first dot-free piece of `mi` passes the infix filter.  The byte-offset
    arithmetic of the code (`blen fixed + 1`, `byteIsUnderscore`, `byteDrop`) is exactly this
    character-level statement (`Names.byteDrop_blen_append`,
    `Names.byteIsUnderscore_blen_append`). -/
theorem accept_shape (sp : Spec) (tsOk : List Char → Bool) (f : IFilter)
    (osfx : Option (List Char)) (name : List Char)
    (hpre : (fixedPart sp).isPrefixOf name = true)
    (hacc : acceptFile sp tsOk f osfx name = true) :
    ∃ stem ext mi, splitExt name = (stem, ext) ∧ (∀ s, osfx = some s → ext = some s) ∧
      stem = (if (fixedPart sp).isEmpty then [] else fixedPart sp ++ ['_']) ++ mi ∧ mi ≠ [] ∧
      filterInfix tsOk f (mi.takeWhile (· ≠ '.')) = true := by
  obtain ⟨mi, h1, h2, h3, h4⟩ := accept_decomp (List.isPrefixOf_iff_prefix.mp hpre) hacc
  exact ⟨(splitExt name).1, (splitExt name).2, mi, rfl, h3, h1, h2, h4⟩

/-- the two byte-level facts behind `accept_shape`, restated -/
theorem byte_offsets_are_char_offsets (p r : List Char) (c : Char) :
    byteDrop (blen p) (p ++ r) = some r ∧
    byteIsUnderscore (blen p) (p ++ c :: r) = decide (c = '_') ∧
    byteIsUnderscore (blen p) p = false :=
  ⟨byteDrop_blen_append p r, byteIsUnderscore_blen_append p c r, byteIsUnderscore_blen_self p⟩

example : ∃ stem ext mi, splitExt "äß_2_r00012.log".toList = (stem, ext) ∧
    stem = "äß_2_".toList ++ mi ∧ mi ≠ [] :=
  let sp : Spec := ⟨"äß".toList, some "2".toList, some "log".toList, "rCURRENT".toList, 0⟩
  let ⟨stem, ext, mi, h1, _, h3, h4, _⟩ := accept_shape sp (fun _ => false) .numbrs (some "log".toList)
    "äß_2_r00012.log".toList (by decide) (by decide)
  ⟨stem, ext, mi, h1, h3, h4⟩

/-- C14 at the level of the lists the writer works on: whatever `filter_files` returns from the
    related files of a directory is a name of that directory of the shape of `accept_shape` -/
theorem filterFiles_sound (sp : Spec) (tsOk : List Char → Bool) (f : IFilter)
    (osfx : Option (List Char)) (names : List (List Char)) (n : List Char)
    (h : n ∈ filterFiles sp tsOk f osfx (relatedFiles sp names)) :
    n ∈ names ∧ ∃ mi, (splitExt n).1 = sepPrefix sp ++ mi ∧ mi ≠ [] ∧
      (∀ s, osfx = some s → (splitExt n).2 = some s) ∧
      filterInfix tsOk f (mi.takeWhile (· ≠ '.')) = true := by
  rw [mem_filterFiles, mem_relatedFiles] at h
  exact ⟨h.1.1, accept_decomp (List.isPrefixOf_iff_prefix.mp h.1.2) h.2⟩

/-! ### 2. totality: `false`, never a panic -/

/-- C14.2: a name whose stem is not `fixed _ …` is rejected (the answer is `false`; the model
    functions are total, a byte offset inside a multi-byte character gives `none`/`false`). -/
theorem accept_total (sp : Spec) (tsOk : List Char → Bool) (f : IFilter)
    (osfx : Option (List Char)) (name : List Char)
    (hpre : (fixedPart sp).isPrefixOf name = true) (hne : fixedPart sp ≠ [])
    (h : ¬ ∃ r, (splitExt name).1 = fixedPart sp ++ '_' :: r) :
    acceptFile sp tsOk f osfx name = false := by
  cases hacc : acceptFile sp tsOk f osfx name with
  | false => rfl
  | true =>
    obtain ⟨mi, h1, _, _, _⟩ := accept_decomp (List.isPrefixOf_iff_prefix.mp hpre) hacc
    exact absurd ⟨mi, by rw [h1, sepPrefix_of_ne hne]; simp⟩ h

/-- without the `starts_with` pre-check: the stem must still carry an underscore at the BYTE
    offset `blen fixed`, at a character boundary -/
theorem accept_total_raw (sp : Spec) (tsOk : List Char → Bool) (f : IFilter)
    (osfx : Option (List Char)) (name : List Char) (hne : fixedPart sp ≠ [])
    (h : ¬ ∃ p r, (splitExt name).1 = p ++ '_' :: r ∧ blen p = blen (fixedPart sp)) :
    acceptFile sp tsOk f osfx name = false := by
  cases hacc : acceptFile sp tsOk f osfx name with
  | false => rfl
  | true =>
    rw [acceptFile_eq, Bool.and_eq_true] at hacc
    obtain ⟨p, mi, h1, h2, _, _⟩ := acceptStem_true_raw hne hacc.2
    exact absurd ⟨p, mi, h1, h2⟩ h

/-- the three early exits of the code -/
theorem accept_false_of_short (sp : Spec) (tsOk : List Char → Bool) (f : IFilter)
    (osfx : Option (List Char)) (name : List Char)
    (h : blen (splitExt name).1 ≤ (if (fixedPart sp).isEmpty then 0 else blen (fixedPart sp) + 1)) :
    acceptFile sp tsOk f osfx name = false := by
  rw [acceptFile_eq]; simp only [acceptStem]; rw [if_pos h]; simp

theorem accept_false_of_no_underscore (sp : Spec) (tsOk : List Char → Bool) (f : IFilter)
    (osfx : Option (List Char)) (name : List Char) (hne : fixedPart sp ≠ [])
    (h : byteIsUnderscore (blen (fixedPart sp)) (splitExt name).1 = false) :
    acceptFile sp tsOk f osfx name = false := by
  rw [acceptFile_eq]; simp [acceptStem, hne, h]

theorem accept_false_of_byteDrop_none (sp : Spec) (tsOk : List Char → Bool) (f : IFilter)
    (osfx : Option (List Char)) (name : List Char)
    (h : byteDrop (if (fixedPart sp).isEmpty then 0 else blen (fixedPart sp) + 1) (splitExt name).1 = none) :
    acceptFile sp tsOk f osfx name = false := by
  rw [acceptFile_eq]; simp only [acceptStem, h]; simp

/-- a byte offset inside a multi-byte character is `none` for `byteDrop` … -/
theorem byteDrop_inside (p : List Char) (c : Char) (r : List Char) (k : Nat)
    (h0 : 0 < k) (h1 : k < utf8Len c) : byteDrop (blen p + k) (p ++ c :: r) = none :=
  byteDrop_inside_char p c r k h0 h1

/-- … but after a successful underscore test the `None` branch of `stem.get(start..)` is dead -/
theorem byteDrop_some_of_underscore (n : Nat) (s : List Char) (h : byteIsUnderscore n s = true) :
    (byteDrop (n + 1) s).isSome = true := by
  obtain ⟨p, r, rfl, hb⟩ := byteIsUnderscore_eq_true h
  have := byteDrop_blen_append (p ++ ['_']) r
  simp only [blen_append, blen_cons, blen_nil, utf8Len_underscore, hb, List.append_assoc,
    List.cons_append, List.nil_append] at this
  rw [this]; rfl

-- foreign names with multi-byte characters around the offset: `false`
example : acceptFile ⟨"app".toList, none, some "log".toList, "rCURRENT".toList, 0⟩ (fun _ => true)
    .timstmps (some "log".toList) "appé.log".toList = false := by decide
example : acceptFile ⟨"app".toList, none, some "log".toList, "rCURRENT".toList, 0⟩ (fun _ => true)
    .timstmps (some "log".toList) "apé_r00001.log".toList = false := by decide
example : acceptFile ⟨"app".toList, none, some "log".toList, "rCURRENT".toList, 0⟩ (fun _ => true)
    .timstmps (some "log".toList) "app€r00001.log".toList = false := by decide
example : ¬ ∃ r, (splitExt "appXr00007.log".toList).1 = "app".toList ++ '_' :: r := by
  rintro ⟨r, h⟩; revert h; simp [splitExt, splitExt.findLastDot]

/-- `acceptFile` alone compares only the byte LENGTH of the fixed part: the `starts_with` test
    of `read_dir_related_files` is what makes `accept_shape` true -/
theorem accept_needs_prefix_witness :
    acceptFile ⟨"app".toList, none, some "log".toList, "rCURRENT".toList, 0⟩ (fun _ => false)
      .numbrs (some "log".toList) "xyz_r00001.log".toList = true := by decide

/-! ### 3. soundness w.r.t. the family grammar -/

/-- the rotated-file filter of a naming scheme -/
def schemeFilter (numbers : Bool) : IFilter := if numbers then .numbrs else .timstmps

/-- well-formed restart part (as in `IsFamilyName`) -/
def RestOk (numbers : Bool) (rest : List Char) : Prop :=
  rest = [] ∨ (¬ numbers ∧ ∃ n : Nat, n < 10000 ∧ rest = ".restart-".toList ++ pad 4 n)

theorem dotTail_of_restOk {numbers : Bool} {rest : List Char} (h : RestOk numbers rest) :
    DotTail rest := by
  rcases h with rfl | ⟨_, n, _, rfl⟩
  · exact dotTail_nil
  · exact Or.inr ⟨_, rfl⟩

/-- the scheme's filter accepts exactly the rotated infixes of the grammar -/
theorem filter_iff_rotated (tsOk : List Char → Bool) (numbers : Bool) (i : List Char) :
    filterInfix tsOk (schemeFilter numbers) i = true ↔ IsRotatedInfix tsOk numbers i := by
  cases numbers with
  | false => simp [schemeFilter, filterInfix, IsRotatedInfix]
  | true =>
    simp only [schemeFilter, if_true, IsRotatedInfix]
    constructor
    · intro h
      simp only [filterInfix] at h
      split at h
      · rename_i ds
        simp only [Bool.and_eq_true, decide_eq_true_eq, List.all_eq_true] at h
        exact ⟨ds, rfl, h.1, h.2⟩
      · simp at h
    · rintro ⟨ds, rfl, h1, h2⟩
      simp only [filterInfix, Bool.and_eq_true, decide_eq_true_eq, List.all_eq_true]
      exact ⟨h1, h2⟩

/-- the grammar with the compression flag fixed -/
def IsFamilyNameG (sp : Spec) (tsOk : List Char → Bool) (numbers gz : Bool) (name : List Char) : Prop :=
  ∃ (i restart : List Char), IsRotatedInfix tsOk numbers i ∧ '.' ∉ i ∧ RestOk numbers restart ∧
    name = sepPrefix sp ++ i ++ restart ++ suffixText sp ++ gzText gz

theorem isFamilyName_iff (sp : Spec) (tsOk : List Char → Bool) (numbers : Bool) (name : List Char) :
    IsFamilyName sp tsOk numbers name ↔ ∃ gz, IsFamilyNameG sp tsOk numbers gz name := by
  constructor
  · rintro ⟨i, restart, gz, h1, h2, h3, h4⟩
    exact ⟨gz, i, restart, h1, h2, h3, h4⟩
  · rintro ⟨gz, i, restart, h1, h2, h3, h4⟩
    exact ⟨i, restart, gz, h1, h2, h3, h4⟩

/-- the tail (from the first dot after the separator) of a family name is well-formed -/
theorem family_tail {sp : Spec} {tsOk : List Char → Bool} {numbers gz : Bool} {name : List Char}
    (h : IsFamilyNameG sp tsOk numbers gz name) :
    ∃ restart, RestOk numbers restart ∧ nameTail sp name = restart ++ suffixText sp ++ gzText gz := by
  obtain ⟨i, restart, _, h2, h3, rfl⟩ := h
  refine ⟨restart, h3, ?_⟩
  have ht : DotTail (restart ++ suffixText sp ++ gzText gz) :=
    dotTail_append (dotTail_append (dotTail_of_restOk h3) (dotTail_suffixText sp)) (dotTail_gzText gz)
  have := nameTail_shape sp i _ h2 ht
  simpa [List.append_assoc] using this

/-- C14.3, general form (any demanded suffix, with or without suffix in the spec): a selected
    name whose tail is `[.restart-NNNN][.suffix][.gz]` is a family name. -/
theorem selected_is_family (sp : Spec) (tsOk : List Char → Bool) (numbers : Bool)
    (osfx : Option (List Char)) (name : List Char)
    (hpre : (fixedPart sp).isPrefixOf name = true)
    (hacc : acceptFile sp tsOk (schemeFilter numbers) osfx name = true)
    (restart : List Char) (gz : Bool) (hr : RestOk numbers restart)
    (ht : nameTail sp name = restart ++ suffixText sp ++ gzText gz) :
    IsFamilyNameG sp tsOk numbers gz name := by
  obtain ⟨h1, h2, _, _⟩ := accept_infix (List.isPrefixOf_iff_prefix.mp hpre) hacc
  refine ⟨nameInfix sp name, restart, (filter_iff_rotated tsOk numbers _).mp h2,
    not_mem_takeWhile_dot _, hr, ?_⟩
  rw [ht] at h1
  simpa [List.append_assoc] using h1

/-- for selected names: family name ⇔ well-formed tail -/
theorem selected_family_iff (sp : Spec) (tsOk : List Char → Bool) (numbers : Bool)
    (osfx : Option (List Char)) (name : List Char)
    (hpre : (fixedPart sp).isPrefixOf name = true)
    (hacc : acceptFile sp tsOk (schemeFilter numbers) osfx name = true) :
    IsFamilyName sp tsOk numbers name ↔
      ∃ restart gz, RestOk numbers restart ∧
        nameTail sp name = restart ++ suffixText sp ++ gzText gz := by
  rw [isFamilyName_iff]
  constructor
  · rintro ⟨gz, h⟩
    obtain ⟨restart, h1, h2⟩ := family_tail h
    exact ⟨restart, gz, h1, h2⟩
  · rintro ⟨restart, gz, h1, h2⟩
    exact ⟨gz, selected_is_family sp tsOk numbers osfx name hpre hacc restart gz h1 h2⟩

/-- C14.3 (plain files): selected with the spec's suffix, and what the stem carries after the
    infix is nothing or `.restart-NNNN` (timestamps): a family name (uncompressed).

    PARTIAL w.r.t. `foreign_not_selected_full_statement`: the hypothesis `hrest` on the remainder
    of the stem is necessary, see `extra_dots_violation_witness`. (`Clean sp` is not needed.) -/
theorem foreign_not_selected_partial (sp : Spec) (tsOk : List Char → Bool) (numbers : Bool)
    (s name : List Char) (hs : sp.suffix = some s)
    (hpre : (fixedPart sp).isPrefixOf name = true)
    (hacc : acceptFile sp tsOk (schemeFilter numbers) sp.suffix name = true)
    (hrest : RestOk numbers (stemTail sp name)) :
    IsFamilyName sp tsOk numbers name := by
  rw [isFamilyName_iff]
  refine ⟨false, selected_is_family sp tsOk numbers _ name hpre hacc (stemTail sp name) false hrest ?_⟩
  obtain ⟨_, _, h3, _⟩ := accept_infix (List.isPrefixOf_iff_prefix.mp hpre) hacc
  obtain ⟨_, _, _, h⟩ := h3 s hs
  simp [h, suffixText, hs, gzText]

/-- C14.3 (compressed files): selected with suffix `gz`; the stem still carries the spec's
    suffix: remainder `[.restart-NNNN][.suffix]`. -/
theorem foreign_not_selected_gz_partial (sp : Spec) (tsOk : List Char → Bool) (numbers : Bool)
    (name : List Char)
    (hpre : (fixedPart sp).isPrefixOf name = true)
    (hacc : acceptFile sp tsOk (schemeFilter numbers) (some "gz".toList) name = true)
    (hrest : ∃ restart, RestOk numbers restart ∧ stemTail sp name = restart ++ suffixText sp) :
    IsFamilyName sp tsOk numbers name := by
  obtain ⟨restart, hr, hst⟩ := hrest
  rw [isFamilyName_iff]
  refine ⟨true, selected_is_family sp tsOk numbers _ name hpre hacc restart true hr ?_⟩
  obtain ⟨_, _, h3, _⟩ := accept_infix (List.isPrefixOf_iff_prefix.mp hpre) hacc
  obtain ⟨_, _, _, h⟩ := h3 _ rfl
  simp [h, hst, gzText]

/-- C14.3 (no suffix in the spec): the name has no extension and nothing after the infix, or its
    "extension" is the restart part. -/
theorem foreign_not_selected_nosuffix_partial (sp : Spec) (tsOk : List Char → Bool) (numbers : Bool)
    (name : List Char) (hs : sp.suffix = none)
    (hpre : (fixedPart sp).isPrefixOf name = true)
    (hacc : acceptFile sp tsOk (schemeFilter numbers) none name = true)
    (hrest : RestOk numbers (nameTail sp name)) :
    IsFamilyName sp tsOk numbers name := by
  rw [isFamilyName_iff]
  refine ⟨false, selected_is_family sp tsOk numbers _ name hpre hacc _ false hrest ?_⟩
  simp [suffixText, hs, gzText]

/-- the unguarded statement of C14.3 -/
def foreign_not_selected_full_statement : Prop :=
  ∀ (sp : Spec) (tsOk : List Char → Bool) (numbers : Bool) (name : List Char),
    Clean sp → (fixedPart sp).isPrefixOf name = true →
    acceptFile sp tsOk (schemeFilter numbers) sp.suffix name = true →
    IsFamilyName sp tsOk numbers name

/-- KNOWN FINDING: the code accepts arbitrary dot-separated parts between infix and suffix;
    `app_r00001.foo.log` is selected (and so renamed/compressed/deleted) as a rotated file. -/
theorem extra_dots_violation_witness : ¬ foreign_not_selected_full_statement := by
  intro h
  let sp : Spec := ⟨"app".toList, none, some "log".toList, "rCURRENT".toList, 0⟩
  have hc : Clean sp := by
    intro s hs
    have : s = "log".toList := by simpa [sp] using hs.symm
    subst this; decide
  have hf := h sp (fun _ => false) true "app_r00001.foo.log".toList hc (by decide) (by decide)
  obtain ⟨gz, hg⟩ := (isFamilyName_iff _ _ _ _).mp hf
  obtain ⟨restart, hr, ht⟩ := family_tail hg
  have hr' : restart = [] := by
    rcases hr with h | ⟨h, _⟩
    · exact h
    · exact absurd rfl h
  subst hr'
  cases gz <;> revert ht <;> decide

-- non-vacuity of the partial theorems
example : IsFamilyName ⟨"app".toList, none, some "log".toList, "rCURRENT".toList, 0⟩ (fun _ => false)
    true "app_r00001.log".toList :=
  foreign_not_selected_partial _ _ true "log".toList _ rfl (by decide) (by decide) (Or.inl (by decide))

example : IsFamilyName ⟨[], some "d".toList, some "log".toList, "rCURRENT".toList, 0⟩
    (fun i => i == "r2024-01-31_10-00-00".toList) false "d_r2024-01-31_10-00-00.restart-0003.log".toList :=
  foreign_not_selected_partial _ _ false "log".toList _ rfl (by decide) (by decide)
    (Or.inr ⟨by decide, 3, by decide, by decide⟩)

example : IsFamilyName ⟨"äpp".toList, none, some "log".toList, "rCURRENT".toList, 0⟩ (fun _ => false)
    true "äpp_r00001.log.gz".toList :=
  foreign_not_selected_gz_partial _ _ true _ (by decide) (by decide) ⟨[], Or.inl rfl, by decide⟩

example : IsFamilyName ⟨"app".toList, none, none, "rCURRENT".toList, 0⟩ (fun _ => false)
    true "app_r00001".toList :=
  foreign_not_selected_nosuffix_partial _ _ true _ rfl (by decide) (by decide) (Or.inl (by decide))

/-! ### 4. completeness: the logger's own files are selected -/

/-- grammar level: every family name is selected by its scheme's filter (plain) -/
theorem family_accepted_plain (sp : Spec) (tsOk : List Char → Bool) (numbers : Bool) (name : List Char)
    (hs : SuffixNoDot sp) (hd : DotSafe sp) (hts : tsOk [] = false)
    (h : IsFamilyNameG sp tsOk numbers false name) :
    acceptFile sp tsOk (schemeFilter numbers) sp.suffix name = true := by
  obtain ⟨i, restart, h1, h2, h3, rfl⟩ := h
  have hne : i ≠ [] := by
    rintro rfl
    cases numbers with
    | true => simp [IsRotatedInfix] at h1
    | false => simp [IsRotatedInfix, hts] at h1
  have := accept_shaped_plain sp tsOk (schemeFilter numbers) i restart hne h2 (dotTail_of_restOk h3) hs
    (fun h _ => hd h) (by
      intro _ t' ht'
      rcases h3 with rfl | ⟨_, n, _, rfl⟩
      · simp at ht'
      · have : t' = "restart-".toList ++ pad 4 n := by simpa using ht'.symm
        subst this
        simp only [List.mem_append, not_or]
        exact ⟨by decide, dot_not_mem_pad 4 n⟩)
  simp only [gzText, Bool.false_eq_true, if_false, List.append_nil]
  rw [this]; exact (filter_iff_rotated tsOk numbers i).mpr h1

/-- grammar level: every compressed family name is selected with suffix `gz`; no condition on
    the spec -/
theorem family_accepted_gz (sp : Spec) (tsOk : List Char → Bool) (numbers : Bool) (name : List Char)
    (hts : tsOk [] = false) (h : IsFamilyNameG sp tsOk numbers true name) :
    acceptFile sp tsOk (schemeFilter numbers) (some "gz".toList) name = true := by
  obtain ⟨i, restart, h1, h2, h3, rfl⟩ := h
  have hne : i ≠ [] := by
    rintro rfl
    cases numbers with
    | true => simp [IsRotatedInfix] at h1
    | false => simp [IsRotatedInfix, hts] at h1
  rw [accept_shaped_gz sp tsOk _ i restart hne h2 (dotTail_of_restOk h3)]
  exact (filter_iff_rotated tsOk numbers i).mpr h1

theorem numbrs_numberInfix (tsOk : List Char → Bool) (n : Nat) :
    filterInfix tsOk .numbrs (numberInfix n) = true := by
  simp only [numberInfix, filterInfix, Bool.and_eq_true, decide_eq_true_eq, List.all_eq_true]
  exact ⟨pad_length_ge 5 n, pad_digits 5 n⟩

/-- C14.4 numbers, plain: `r00007`, `r123456`, … are all selected -/
theorem family_selected_num (sp : Spec) (tsOk : List Char → Bool) (n : Nat)
    (hs : SuffixNoDot sp) (hd : DotSafe sp) :
    acceptFile sp tsOk .numbrs sp.suffix (render sp ⟨some (.num n), false⟩) = true := by
  rw [render_some sp (.num n) false (by simp) (numberInfix_ne_nil n)]
  have := accept_shaped_plain sp tsOk .numbrs (numberInfix n) [] (numberInfix_ne_nil n)
    (dot_not_mem_numberInfix n) dotTail_nil hs (fun h _ => hd h) (by simp)
  simp only [List.append_nil] at this
  simp only [renderInfix, gzText, Bool.false_eq_true, if_false, List.append_nil]
  rw [this]; exact numbrs_numberInfix tsOk n

/-- C14.4 numbers, compressed (holds for every spec, with or without suffix) -/
theorem family_selected_num_gz (sp : Spec) (tsOk : List Char → Bool) (n : Nat) :
    acceptFile sp tsOk .numbrs (some "gz".toList) (render sp ⟨some (.num n), true⟩) = true := by
  rw [render_some sp (.num n) true (by simp) (numberInfix_ne_nil n)]
  have := accept_shaped_gz sp tsOk .numbrs (numberInfix n) [] (numberInfix_ne_nil n)
    (dot_not_mem_numberInfix n) dotTail_nil
  simp only [List.append_nil] at this
  simp only [renderInfix]
  rw [this]; exact numbrs_numberInfix tsOk n

/-- C14.4 timestamps, plain, base file -/
theorem family_selected_ts (sp : Spec) (tsOk : List Char → Bool) (k : Nat)
    (hk : tsOk (renderStamp sp.fmt k) = true) (hs : SuffixNoDot sp) (hd : DotSafe sp) :
    acceptFile sp tsOk .timstmps sp.suffix (render sp ⟨some (.ts k none), false⟩) = true := by
  rw [render_some sp (.ts k none) false (by simp) (renderStamp_ne_nil _ _)]
  have := accept_shaped_plain sp tsOk .timstmps (renderStamp sp.fmt k) [] (renderStamp_ne_nil _ _)
    (dot_not_mem_renderStamp _ _) dotTail_nil hs (fun h _ => hd h) (by simp)
  simp only [List.append_nil] at this
  simp only [renderInfix, gzText, Bool.false_eq_true, if_false, List.append_nil]
  rw [this]; exact hk

theorem restart_text (r : Nat) :
    DotTail (".restart-".toList ++ pad 4 r) ∧
    ∀ t', ".restart-".toList ++ pad 4 r = '.' :: t' → '.' ∉ t' := by
  refine ⟨Or.inr ⟨_, rfl⟩, ?_⟩
  intro t' ht'
  have : t' = "restart-".toList ++ pad 4 r := by simpa using ht'.symm
  subst this
  simp only [List.mem_append, not_or]
  exact ⟨by decide, dot_not_mem_pad 4 r⟩

/-- C14.4 timestamps, plain, restart sibling (`DotSafe` not needed; any `r`) -/
theorem family_selected_ts_restart (sp : Spec) (tsOk : List Char → Bool) (k r : Nat)
    (hk : tsOk (renderStamp sp.fmt k) = true) (hs : SuffixNoDot sp) :
    acceptFile sp tsOk .timstmps sp.suffix (render sp ⟨some (.ts k (some r)), false⟩) = true := by
  rw [render_some sp (.ts k (some r)) false (by simp) (by simp [renderInfix, renderStamp_ne_nil])]
  have := accept_shaped_plain sp tsOk .timstmps (renderStamp sp.fmt k) (".restart-".toList ++ pad 4 r)
    (renderStamp_ne_nil _ _) (dot_not_mem_renderStamp _ _) (restart_text r).1 hs
    (by intro _ h; simp at h) (fun _ => (restart_text r).2)
  simp only [renderInfix, gzText, Bool.false_eq_true, if_false, List.append_nil]
  simp only [List.append_assoc] at this ⊢
  rw [this]; exact hk

/-- C14.4 timestamps, compressed, base file and restart sibling (every spec) -/
theorem family_selected_ts_gz (sp : Spec) (tsOk : List Char → Bool) (k : Nat) (r : Option Nat)
    (hk : tsOk (renderStamp sp.fmt k) = true) :
    acceptFile sp tsOk .timstmps (some "gz".toList) (render sp ⟨some (.ts k r), true⟩) = true := by
  cases r with
  | none =>
    rw [render_some sp (.ts k none) true (by simp) (renderStamp_ne_nil _ _)]
    have := accept_shaped_gz sp tsOk .timstmps (renderStamp sp.fmt k) [] (renderStamp_ne_nil _ _)
      (dot_not_mem_renderStamp _ _) dotTail_nil
    simp only [List.append_nil] at this
    simp only [renderInfix]
    rw [this]; exact hk
  | some r =>
    rw [render_some sp (.ts k (some r)) true (by simp) (by simp [renderInfix, renderStamp_ne_nil])]
    have := accept_shaped_gz sp tsOk .timstmps (renderStamp sp.fmt k) (".restart-".toList ++ pad 4 r)
      (renderStamp_ne_nil _ _) (dot_not_mem_renderStamp _ _) (restart_text r).1
    simp only [renderInfix]
    simp only [List.append_assoc] at this ⊢
    rw [this]; exact hk

/-- the grammar `IsFamilyName` covers the names the logger produces (numbers) -/
theorem render_num_isFamily (sp : Spec) (tsOk : List Char → Bool) (n : Nat) (gz : Bool) :
    IsFamilyNameG sp tsOk true gz (render sp ⟨some (.num n), gz⟩) := by
  refine ⟨numberInfix n, [], ?_, dot_not_mem_numberInfix n, Or.inl rfl, ?_⟩
  · unfold IsRotatedInfix
    rw [if_pos rfl]
    exact ⟨pad 5 n, rfl, pad_length_ge 5 n, pad_digits 5 n⟩
  · rw [render_some sp (.num n) gz (by simp) (numberInfix_ne_nil n)]
    simp [renderInfix]

/-- the grammar `IsFamilyName` covers the names the logger produces (timestamps) -/
theorem render_ts_isFamily (sp : Spec) (tsOk : List Char → Bool) (k : Nat) (r : Option Nat) (gz : Bool)
    (hk : tsOk (renderStamp sp.fmt k) = true) (hr : ∀ x, r = some x → x < 10000) :
    IsFamilyNameG sp tsOk false gz (render sp ⟨some (.ts k r), gz⟩) := by
  cases r with
  | none =>
    refine ⟨renderStamp sp.fmt k, [], ?_, dot_not_mem_renderStamp _ _, Or.inl rfl, ?_⟩
    · simpa [IsRotatedInfix] using hk
    · rw [render_some sp (.ts k none) gz (by simp) (renderStamp_ne_nil _ _)]
      simp [renderInfix]
  | some x =>
    refine ⟨renderStamp sp.fmt k, ".restart-".toList ++ pad 4 x, ?_, dot_not_mem_renderStamp _ _,
      Or.inr ⟨by simp, x, hr x rfl, rfl⟩, ?_⟩
    · simpa [IsRotatedInfix] using hk
    · rw [render_some sp (.ts k (some x)) gz (by simp) (by simp [renderInfix, renderStamp_ne_nil])]
      simp [renderInfix]

/-- the current file is selected by the `Equals(current infix)` filter -/
theorem current_selected (sp : Spec) (tsOk : List Char → Bool)
    (hc : sp.curToken ≠ []) (hcd : '.' ∉ sp.curToken) (hs : SuffixNoDot sp) (hd : DotSafe sp) :
    acceptFile sp tsOk (.equls sp.curToken) sp.suffix (render sp ⟨some .cur, false⟩) = true := by
  rw [render_some sp .cur false (by simp) (by simpa [renderInfix] using hc)]
  have := accept_shaped_plain sp tsOk (.equls sp.curToken) sp.curToken [] hc hcd dotTail_nil hs
    (fun h _ => hd h) (by simp)
  simp only [List.append_nil] at this
  simp only [renderInfix, gzText, Bool.false_eq_true, if_false, List.append_nil]
  rw [this]; simp [filterInfix]

/-- "the InfixFilter selects rotated files only, never the rCURRENT infix": for EVERY spec with
    the standard current token, whatever suffix is demanded, the current file is rejected by the
    scheme's rotated-file filter (for timestamps: given that chrono rejects `rCURRENT`) -/
theorem current_not_rotated (sp : Spec) (tsOk : List Char → Bool) (numbers : Bool)
    (osfx : Option (List Char)) (hc : sp.curToken = "rCURRENT".toList)
    (hts : tsOk "rCURRENT".toList = false) :
    acceptFile sp tsOk (schemeFilter numbers) osfx (render sp ⟨some .cur, false⟩) = false := by
  cases hacc : acceptFile sp tsOk (schemeFilter numbers) osfx (render sp ⟨some .cur, false⟩) with
  | false => rfl
  | true =>
    have hr : render sp ⟨some .cur, false⟩ = sepPrefix sp ++ "rCURRENT".toList ++ suffixText sp := by
      rw [render_some sp .cur false (by simp) (by simp [renderInfix, hc])]
      simp [renderInfix, hc, gzText]
    have hpre : fixedPart sp <+: render sp ⟨some .cur, false⟩ := by
      rw [hr, List.append_assoc]
      exact List.IsPrefix.trans (fixed_prefix_sepPrefix sp) (List.prefix_append _ _)
    obtain ⟨_, h2, _, _⟩ := accept_infix hpre hacc
    rw [hr, nameInfix_shape sp _ _ (by decide) (dotTail_suffixText sp)] at h2
    cases numbers with
    | true => revert h2; simp [schemeFilter, filterInfix]; decide
    | false =>
      have h3 : tsOk "rCURRENT".toList = true := h2
      rw [hts] at h3; cases h3

theorem current_not_rotated_numbers (sp : Spec) (tsOk : List Char → Bool)
    (osfx : Option (List Char)) (hc : sp.curToken = "rCURRENT".toList) :
    acceptFile sp tsOk .numbrs osfx (render sp ⟨some .cur, false⟩) = false := by
  cases hacc : acceptFile sp tsOk .numbrs osfx (render sp ⟨some .cur, false⟩) with
  | false => rfl
  | true =>
    -- the verdict of `.numbrs` does not depend on `tsOk`
    have : acceptFile sp (fun _ => false) .numbrs osfx (render sp ⟨some .cur, false⟩) = true := by
      simpa [acceptFile, filterInfix] using hacc
    have h := current_not_rotated sp (fun _ => false) true osfx hc rfl
    simp only [schemeFilter, if_true] at h
    rw [h] at this; exact absurd this (by simp)

/-- FINDING: without suffix and with a dot in the fixed name part, the logger's own rotated files
    are NOT selected (never listed, cleaned up or compressed): `Path::file_stem` cuts inside the
    fixed part. `DotSafe` in `family_selected_num`/`_ts` is necessary. -/
theorem dotted_basename_no_suffix_witness :
    let sp : Spec := ⟨"my.app".toList, none, none, "rCURRENT".toList, 0⟩
    ¬ DotSafe sp ∧ render sp ⟨some (.num 1), false⟩ = "my.app_r00001".toList ∧
    acceptFile sp (fun _ => true) .numbrs sp.suffix (render sp ⟨some (.num 1), false⟩) = false := by
  refine ⟨?_, by decide, by decide⟩
  intro h
  exact absurd (h rfl) (by decide)

/-- … in general -/
theorem dotted_basename_no_suffix (sp : Spec) (tsOk : List Char → Bool) (f : IFilter) (i : List Char)
    (hd : '.' ∈ (fixedPart sp).tail) (hi : '.' ∉ i) :
    acceptFile sp tsOk f none (sepPrefix sp ++ i) = false := by
  cases hfp : fixedPart sp with
  | nil => rw [hfp] at hd; simp at hd
  | cons c cs =>
    rw [hfp] at hd
    simp only [List.tail_cons] at hd
    obtain ⟨a, s, hcs, hs⟩ := exists_last_dot hd
    have hne : fixedPart sp ≠ [] := by rw [hfp]; simp
    have hname : sepPrefix sp ++ i = (c :: a) ++ '.' :: (s ++ '_' :: i) := by
      rw [sepPrefix_of_ne hne, hfp, hcs]; simp
    have hsplit : splitExt (sepPrefix sp ++ i) = (c :: a, some (s ++ '_' :: i)) := by
      rw [hname]
      apply splitExt_append
      · simp
      · simp only [List.mem_append, List.mem_cons, not_or]
        exact ⟨hs, by decide, hi⟩
      · rintro ⟨_, h⟩; simp at h
    apply accept_false_of_short
    rw [hsplit]
    simp only [List.isEmpty_iff, hfp, hcs]
    simp; omega

-- non-vacuity: concrete specs (empty basename with discriminant, multi-byte basename, no suffix)
example : acceptFile ⟨[], some "d1".toList, some "log".toList, "rCURRENT".toList, 0⟩ (fun _ => false)
    .numbrs (some "log".toList) "d1_r123456.log".toList = true := by decide
example : render ⟨[], some "d1".toList, some "log".toList, "rCURRENT".toList, 0⟩ ⟨some (.num 123456), false⟩
    = "d1_r123456.log".toList := by decide
example : SuffixNoDot ⟨"äö".toList, none, none, "rCURRENT".toList, 0⟩ ∧
    DotSafe ⟨"äö".toList, none, none, "rCURRENT".toList, 0⟩ :=
  ⟨by intro s hs; simp at hs, by intro _; decide⟩
example : render ⟨"äö".toList, none, none, "rCURRENT".toList, 0⟩ ⟨some (.ts 20240131100000 (some 3)), true⟩
    = "äö_r2024-01-31_10-00-00.restart-0003.gz".toList := by decide

-- the hypotheses of the selection theorems are satisfiable: empty basename with discriminant …
example : acceptFile ⟨[], some "d1".toList, some "log".toList, "rCURRENT".toList, 0⟩ (fun _ => false)
    .numbrs (some "log".toList)
    (render ⟨[], some "d1".toList, some "log".toList, "rCURRENT".toList, 0⟩ ⟨some (.num 123456), false⟩)
    = true :=
  family_selected_num _ _ _
    (by intro s hs; have : s = "log".toList := by simpa using hs.symm
        subst this; decide)
    (by intro h; simp at h)

-- … and multi-byte basename without suffix, timestamps
example : acceptFile ⟨"äö".toList, none, none, "rCURRENT".toList, 0⟩
    (fun i => i == "r2024-01-31_10-00-00".toList) .timstmps none
    (render ⟨"äö".toList, none, none, "rCURRENT".toList, 0⟩ ⟨some (.ts 20240131100000 none), false⟩)
    = true :=
  family_selected_ts _ _ _ (by decide) (by intro s hs; simp at hs) (by intro _; decide)

end FV.C14
