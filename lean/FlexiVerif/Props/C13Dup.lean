import FlexiVerif.Model.Spec
/-
  C13 — duplication to stderr/stdout (`MultiWriter::write`, `Duplicate::{None, Error, …, Trace, All}`
  = 0 … 6) for ALL numbers, not only the table of `C13.dup_rule`: the decision is a threshold
  (`dup_threshold`), downward closed in the level (`dup_downward`: whatever is duplicated, every
  more severe record is too) and monotone in the setting (`dup_monotone_setting`: adapting the
  duplication level upwards never stops a record from being duplicated).
  Tie to the code: the `DUPINIT` / `DUPADAPT` / `DUPLOG` runs of the C13 histories.
-/
namespace FV.C13Dup
open FV.Spec

/-- **Threshold**: for a proper level (`1 ≤ lvl`) the record is duplicated iff the setting is at
    least Trace (5, 6 = All) or the level is at most the setting. -/
theorem dup_threshold (d lvl : Nat) (h1 : 1 ≤ lvl) :
    dupDecision d lvl = (decide (5 ≤ d) || decide (lvl ≤ d)) := by
  rcases d with _|_|_|_|_|d <;> simp [dupDecision] <;> omega

/-- **Downward closed in the level.** -/
theorem dup_downward (d lvl lvl' : Nat) (h1 : 1 ≤ lvl') (hle : lvl' ≤ lvl)
    (h : dupDecision d lvl = true) : dupDecision d lvl' = true := by
  rw [dup_threshold d lvl (by omega)] at h
  rw [dup_threshold d lvl' h1]
  simp at h ⊢
  omega

/-- **Monotone in the setting.** -/
theorem dup_monotone_setting (d d' lvl : Nat) (h1 : 1 ≤ lvl) (hle : d ≤ d')
    (h : dupDecision d lvl = true) : dupDecision d' lvl = true := by
  rw [dup_threshold d lvl h1] at h
  rw [dup_threshold d' lvl h1]
  simp at h ⊢
  omega

/-- `Duplicate::None` duplicates nothing, `Trace` and `All` everything -/
theorem dup_extremes (lvl : Nat) :
    dupDecision 0 lvl = false ∧ dupDecision 5 lvl = true ∧ dupDecision 6 lvl = true := by
  simp [dupDecision]

example : dupDecision 2 2 = true ∧ dupDecision 2 3 = false ∧ dupDecision 1 1 = true := by decide

end FV.C13Dup
