import FlexiVerif.Lemmas.FlwRules
import FlexiVerif.Lemmas.FlwRefine
/-
  C08 — Size criterion: the writer rotates exactly when the current file already exceeds the
  limit.

  `a := Abs.run cfg.rot Abs.init ops` is the abstract machine after the history,
  `s := runOps (init cfg []) ops` the concrete writer. Statements about `Abs` and about the
  independent specification `greedy` are proved outright; statements about the concrete writer
  take the refinement `Refines cfg ops` as a hypothesis.
-/
namespace FV.C08
open FV FV.Flw

/-- pure size criterion `Criterion::Size N` -/
def SizeOnly (cfg : Cfg) (N : Nat) : Prop :=
  ∃ r, cfg.rot = some r ∧ r.maxSize = some N ∧ r.age = none

/-! ### 1. accounting -/

/-- **Accounting.** After every history the accounted size is the real size of the current file
    (bytes still in the buffer included), for every criterion. -/
theorem accounting (rot : Option RotCfg) (ops : List (Op × Nat × Faults)) :
    (Abs.run rot Abs.init ops).size = (Abs.run rot Abs.init ops).cur.length :=
  Abs.run_size rot Abs.init ops rfl

/-- … hence for the concrete rotating writer: `current_size` is the length of the last file,
    content of the `BufWriter` included. -/
theorem accounting_concrete (cfg : Cfg) (ops : List (Op × Nat × Faults)) (href : Refines cfg ops)
    (hrot : cfg.rot.isSome) :
    ∀ act, (runOps (init cfg []) ops).act = some act →
      ∃ front last, viewFiles (runOps (init cfg []) ops) = front ++ [last] ∧
        act.size = last.length := by
  intro act hact
  obtain ⟨hv, h2, _⟩ := href
  obtain ⟨hst, hsz⟩ := h2 act hact
  refine ⟨(Abs.run cfg.rot Abs.init ops).closed, (Abs.run cfg.rot Abs.init ops).cur, ?_, ?_⟩
  · rw [hv]; simp [Abs.files, hst]
  · rw [(hsz hrot).1]; exact accounting cfg.rot ops

/-! ### 2. the rule of a single step -/

/-- **Size rule.** With a pure size criterion a write closes the current file iff that file
    already holds more than `N` bytes; then the record starts the new file. Otherwise nothing is
    closed and the record is appended to the current file. -/
theorem size_rule (r : RotCfg) (N : Nat) (hr : r.maxSize = some N ∧ r.age = none) (a : Abs)
    (hinv : a.size = a.cur.length) (b : List Nat) (now : Nat) (hst : a.started = true) :
    ((a.step (some r) (.write b) now).closed = a.closed ++ [a.cur] ↔ a.cur.length > N) ∧
    (a.cur.length > N →
      (a.step (some r) (.write b) now).closed = a.closed ++ [a.cur] ∧
      (a.step (some r) (.write b) now).cur = b) ∧
    (¬ a.cur.length > N →
      (a.step (some r) (.write b) now).closed = a.closed ∧
      (a.step (some r) (.write b) now).cur = a.cur ++ b) := by
  rw [Abs.step_write_some, absNecessary_size r N hr, Abs.start_of_started a now hst, hinv]
  by_cases hgt : a.cur.length > N
  · simp [hgt]
  · simp only [hgt, decide_false, Bool.false_eq_true, ↓reduceIte, not_false_eq_true,
      forall_const, and_self, and_true, iff_false, false_imp_iff]
    intro h
    have := congrArg List.length h
    simp at this

/-! ### 3. the greedy partition as an independent specification -/

/-- greedy: a record starts a new file iff the current file already holds more than N bytes -/
def greedy (N : Nat) : List (List Nat) → List (List (List Nat)) × List (List Nat) :=
  List.foldl (fun (acc : List (List (List Nat)) × List (List Nat)) b =>
    if acc.2.flatten.length > N then (acc.1 ++ [acc.2], [b]) else (acc.1, acc.2 ++ [b])) ([], [])

theorem greedy_eq (N : Nat) (recs : List (List Nat)) :
    greedy N recs = List.foldl (greedyStep N) ([], []) recs := rfl

/-- **Size partition.** For a history of writes (and flushes) under a pure size criterion the
    abstract files are exactly the greedy partition of the records. -/
theorem size_partition (cfg : Cfg) (N : Nat) (hs : SizeOnly cfg N)
    (ops : List (Op × Nat × Faults)) (hw : WritesOnly ops) (hne : records ops ≠ []) :
    (Abs.run cfg.rot Abs.init ops).files =
      (greedy N (records ops)).1.map List.flatten ++ [(greedy N (records ops)).2.flatten] := by
  obtain ⟨r, hrot, hr⟩ := hs
  rw [Abs.files_of_records_ne cfg.rot ops hne, hrot, greedy_eq]
  obtain ⟨h1, h2, _⟩ := SizeInv.run r N hr ops hw Abs.init ([], []) ⟨rfl, rfl, rfl⟩
  rw [h1, h2]

/-- … and so are the files of the concrete writer, for every naming scheme and write mode. -/
theorem size_partition_concrete (cfg : Cfg) (N : Nat) (hs : SizeOnly cfg N)
    (ops : List (Op × Nat × Faults)) (hw : WritesOnly ops) (hne : records ops ≠ [])
    (href : Refines cfg ops) :
    viewFiles (runOps (init cfg []) ops) =
      (greedy N (records ops)).1.map List.flatten ++ [(greedy N (records ops)).2.flatten] := by
  rw [href.1]; exact size_partition cfg N hs ops hw hne

/-! ### 4. what the greedy partition guarantees -/

/-- the greedy partition is a partition of the records: contiguous, complete, in order -/
theorem greedy_partition (N : Nat) (recs : List (List Nat)) :
    (greedy N recs).1.flatten ++ (greedy N recs).2 = recs := by
  rw [greedy_eq]; simpa using greedy_foldl_flatten N recs ([], [])

/-- the current group holds at least one record -/
theorem greedy_cur_nonempty (N : Nat) (recs : List (List Nat)) (hne : recs ≠ []) :
    (greedy N recs).2 ≠ [] :=
  greedy_foldl_cur_ne N recs ([], []) (Or.inl hne)

/-- **No file is closed early**: every closed file holds more than `N` bytes. -/
theorem greedy_closed_exceeds (N : Nat) (recs : List (List Nat)) :
    ∀ g ∈ (greedy N recs).1, g.flatten.length > N :=
  fun g hg => ((GreedyOK.foldl N recs _ (GreedyOK.init N)).1 g hg).1

theorem greedy_closed_nonempty (N : Nat) (recs : List (List Nat)) :
    ∀ g ∈ (greedy N recs).1, g ≠ [] := by
  intro g hg h
  have := greedy_closed_exceeds N recs g hg
  simp [h] at this

/-- **No record is ever appended to a file that already exceeds the limit**: every proper prefix
    (by records) of every file — closed or current — holds at most `N` bytes. -/
theorem greedy_no_append_beyond_limit (N : Nat) (recs : List (List Nat)) :
    ∀ g ∈ (greedy N recs).1 ++ [(greedy N recs).2],
      ∀ p, p <+: g → p ≠ g → p.flatten.length ≤ N := by
  intro g hg
  have hok := GreedyOK.foldl N recs _ (GreedyOK.init N)
  rcases List.mem_append.mp hg with hg | hg
  · exact (hok.1 g hg).2
  · have : g = (greedy N recs).2 := by simpa using hg
    subst this; exact hok.2

/-- **A closed file exceeds the limit only by its final record.** -/
theorem greedy_closed_minimal (N : Nat) (recs : List (List Nat)) :
    ∀ g ∈ (greedy N recs).1, g.dropLast.flatten.length ≤ N := by
  intro g hg
  refine greedy_no_append_beyond_limit N recs g (List.mem_append_left _ hg) g.dropLast
    (List.dropLast_prefix g) ?_
  intro h
  have hne := greedy_closed_nonempty N recs g hg
  have := congrArg List.length h
  have hpos : 0 < g.length := List.length_pos_iff.mpr hne
  simp at this
  omega

/-- **The specification is tight**: the greedy partition is the *only* contiguous grouping of
    the records in which no file is closed early and no record is appended to a file that already
    exceeds the limit. -/
theorem greedy_unique (N : Nat) (recs : List (List Nat))
    (closed : List (List (List Nat))) (cur : List (List Nat))
    (hpart : closed.flatten ++ cur = recs) (hcur : recs ≠ [] → cur ≠ [])
    (hclosed : ∀ g ∈ closed, g.flatten.length > N)
    (hprefix : ∀ g ∈ closed ++ [cur], ∀ p, p <+: g → p ≠ g → p.flatten.length ≤ N) :
    (closed, cur) = greedy N recs :=
  greedy_unique_aux N recs.length recs (closed, cur) rfl ⟨hpart, hcur, hclosed, hprefix⟩

/-- File-level reading for the concrete writer: every file but the last one holds more than `N`
    bytes. -/
theorem closed_files_exceed_limit (cfg : Cfg) (N : Nat) (hs : SizeOnly cfg N)
    (ops : List (Op × Nat × Faults)) (hw : WritesOnly ops) (hne : records ops ≠ [])
    (href : Refines cfg ops) :
    ∀ f ∈ (viewFiles (runOps (init cfg []) ops)).dropLast, f.length > N := by
  rw [size_partition_concrete cfg N hs ops hw hne href, List.dropLast_concat]
  intro f hf
  obtain ⟨g, hg, rfl⟩ := List.mem_map.mp hf
  exact greedy_closed_exceeds N _ g hg

/-! ### non-vacuity -/

def exCfg : Cfg := { rot := some ⟨some 3, none, .numbers, none⟩, append := false, cap := some 4,
                     symlink := false }
def exOps : List (Op × Nat × Faults) :=
  [(.write [1, 2], 10, noFaults), (.write [3, 4], 11, noFaults), (.write [5], 12, noFaults),
   (.flush, 13, noFaults), (.write [6, 7, 8, 9], 14, noFaults), (.write [10], 15, noFaults)]

example : SizeOnly exCfg 3 := ⟨_, rfl, rfl, rfl⟩
example : WritesOnly exOps := WritesOnly.of_check _ (by decide)
example : records exOps ≠ [] := by decide
example : Refines exCfg exOps := Refines.of_check _ _ (by decide)
/-- the partition: `[1,2]` (2 ≤ 3, append) `[3,4]` (4 > 3: close before the next record),
    `[5]`, `[6,7,8,9]` (5 > 3: close), `[10]` -/
example : greedy 3 (records exOps) = ([[[1, 2], [3, 4]], [[5], [6, 7, 8, 9]]], [[10]]) := by decide
example : viewFiles (runOps (init exCfg []) exOps) = [[1, 2, 3, 4], [5, 6, 7, 8, 9], [10]] := by
  decide
/-- `size_rule` is not vacuous: a started state with consistent accounting, above the limit -/
example : (Abs.run exCfg.rot Abs.init (exOps.take 2)).started = true ∧
    (Abs.run exCfg.rot Abs.init (exOps.take 2)).size =
      (Abs.run exCfg.rot Abs.init (exOps.take 2)).cur.length ∧
    (Abs.run exCfg.rot Abs.init (exOps.take 2)).cur.length > 3 := by decide


/-! ### The property, unconditionally (refinement proved for every naming scheme: `refines_all`) -/

/-- **C08.** With a size criterion of `N` bytes, for every naming scheme and buffer capacity, the
    files on disk (pending buffer included) are exactly the greedy partition of the records:
    a record starts a new file iff the current file already holds more than `N` bytes. -/
theorem size_rule_partition (cfg : Cfg) (N : Nat) (hs : SizeOnly cfg N) (ha : cfg.append = false)
    (hn : NoCleanup cfg) (ops : List (Op × Nat × Faults)) (hw : WritesOnly ops)
    (hp : PlainHistory ops) (hne : records ops ≠ []) :
    viewFiles (runOps (init cfg []) ops) =
      (greedy N (records ops)).1.map List.flatten ++ [(greedy N (records ops)).2.flatten] :=
  size_partition_concrete cfg N hs ops hw hne (refines_all cfg ha hn ops hp)

/-- no file is closed early -/
theorem no_file_closed_early (cfg : Cfg) (N : Nat) (hs : SizeOnly cfg N) (ha : cfg.append = false)
    (hn : NoCleanup cfg) (ops : List (Op × Nat × Faults)) (hw : WritesOnly ops)
    (hp : PlainHistory ops) (hne : records ops ≠ []) :
    ∀ f ∈ (viewFiles (runOps (init cfg []) ops)).dropLast, f.length > N :=
  closed_files_exceed_limit cfg N hs ops hw hne (refines_all cfg ha hn ops hp)

/-- the accounted size is the real size of the current file (buffered bytes included) -/
theorem size_accounting (cfg : Cfg) (ha : cfg.append = false) (hn : NoCleanup cfg)
    (hrot : cfg.rot.isSome) (ops : List (Op × Nat × Faults)) (hp : PlainHistory ops) :
    ∀ act, (runOps (init cfg []) ops).act = some act →
      ∃ front last, viewFiles (runOps (init cfg []) ops) = front ++ [last] ∧ act.size = last.length :=
  accounting_concrete cfg ops (refines_all cfg ha hn ops hp) hrot

end FV.C08
