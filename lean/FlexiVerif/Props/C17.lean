import FlexiVerif.Lemmas.SpecParse
import FlexiVerif.Props.C02
/-
  C17 — Specification texts: `Display` and the TOML form parse back to the same specification;
  errors of `parse` are reported exactly.

  Property theorems only; helper lemmas live in `Lemmas/Text.lean` and `Lemmas/SpecParse.lean`.
-/
namespace FV.C17
open FV FV.Spec

/-- The property's quantifier: specifications buildable from Rust-path-like module names.
    `fs` = named filters (sorted by descending byte length, as `level_sort` leaves them) followed
    by at most one default. Names need not be distinct, may be level words, prefixes of each
    other, non-ASCII. (`cleanChar`, `CleanName`: `Lemmas/SpecParse.lean`.) -/
def WFSpec (fs : List MF) : Prop :=
  ∃ named dflt, fs = named ++ dflt ∧
    (∀ m ∈ named, ∃ n, m.name = some n ∧ CleanName n) ∧
    (dflt = [] ∨ ∃ l, dflt = [⟨none, l⟩]) ∧
    Sorted fs ∧ (∀ m ∈ fs, m.lvl ≤ 5)

/-- **Display round trip.** Parsing the `Display` text of a specification gives back exactly the
    same filter list, verdict Ok, no regex. -/
theorem display_roundtrip (fs : List MF) (h : WFSpec fs) (rxok : Bool) :
    parse (display fs) rxok = ⟨true, fs, none⟩ := by
  obtain ⟨named, dflt, rfl, hnamed, hd, hs, hl⟩ := h
  have hall : AllNamed named := fun m hm => ⟨hnamed m hm, hl m (by simp [hm])⟩
  have hsn : Sorted named := Sorted.left hs
  rcases hd with rfl | ⟨l, rfl⟩
  · -- no default
    rw [List.append_nil] at hs hl ⊢
    cases named with
    | nil => cases rxok <;> decide
    | cons m ms =>
      obtain ⟨n, hn, hc⟩ := hnamed m (by simp)
      have hdisp : display (m :: ms) = displayNamed false (m :: ms) := by
        unfold display
        split
        · rename_i l hlast
          have hmem := List.mem_of_getLast? hlast
          obtain ⟨n', hn', -⟩ := hnamed _ hmem
          simp at hn'
        · rfl
      rw [hdisp]
      have hslash := slash_not_mem_displayNamed false (m :: ms) hall
      rw [displayNamed_false_cons m ms n hn] at hslash ⊢
      rw [parse_of_items _ rxok (m :: ms) hslash, levelSort_of_sorted _ hs]
      rw [items_displayNamed _ (comma_not_mem_partText n m.lvl hc) ms hall.tail,
        parsePart_partText n m.lvl hc (hl m (by simp))]
      have : m = ⟨some n, m.lvl⟩ := by cases m; simp_all
      rw [← this]; rfl
  · -- with default
    have hl5 : l ≤ 5 := hl ⟨none, l⟩ (by simp)
    have hdisp : display (named ++ [⟨none, l⟩]) = levelWord l ++ displayNamed true named := by
      unfold display
      simp [displayNamed_append_default]
    rw [hdisp]
    have hslash : '/' ∉ levelWord l ++ displayNamed true named := by
      have h1 := slash_not_mem_levelWord l
      have h2 := slash_not_mem_displayNamed true named hall
      simp [h1, h2]
    rw [parse_of_items _ rxok (⟨none, l⟩ :: named) hslash]
    · rw [levelSort_default_cons l named hsn]
      intro m hm
      obtain ⟨n, hn, hc⟩ := hnamed m hm
      exact nlen_pos_of_named m n hn hc.1
    · rw [items_displayNamed _ (comma_not_mem_levelWord l) named hall, parsePart_levelWord l hl5]
      rfl

/-- … hence identical decisions -/
theorem display_roundtrip_decides (fs : List MF) (h : WFSpec fs) (rxok : Bool) (lvl : Nat)
    (t : List Char) :
    (parse (display fs) rxok).ok = true ∧
      enabled (parse (display fs) rxok).filters lvl t = enabled fs lvl t := by
  rw [display_roundtrip fs h rxok]
  exact ⟨rfl, rfl⟩

/-- **TOML round trip.** Reading back the written document gives a sorted enumeration of the same
    filter set, hence identical decisions. (`C02.WF`: every module named at most once, at most one
    default.) -/
theorem toml_roundtrip (fs : List MF) (h : WFSpec fs) (hd : C02.WF fs) :
    ∃ fs', fromToml (toToml fs) = some fs' ∧ fs'.Perm fs ∧ Sorted fs' ∧
      ∀ lvl t, enabled fs' lvl t = enabled fs lvl t := by
  obtain ⟨named, dflt, rfl, hnamed, hdf, hs, hl⟩ := h
  have hall : AllNamed named := fun m hm => ⟨hnamed m hm, hl m (by simp [hm])⟩
  -- the document and its reading, uniformly in the optional default `g`
  have key : ∃ g : Option Nat, dflt = (g.map (fun l => (⟨none, l⟩ : MF))).toList ∧
      (∀ l, g = some l → l ≤ 5) ∧ toToml (named ++ dflt) = ⟨g.map levelWord, named.map encKV⟩ := by
    rcases hdf with rfl | ⟨l, rfl⟩
    · exact ⟨none, rfl, by simp, by rw [List.append_nil]; exact toToml_no_default named hall⟩
    · refine ⟨some l, rfl, ?_, toToml_default named l hall⟩
      intro l' hl'
      cases hl'
      exact hl ⟨none, l⟩ (by simp)
  obtain ⟨g, rfl, hg, hdoc⟩ := key
  obtain ⟨X, hX, hfrom⟩ := fromToml_named named hall g hg
  refine ⟨_, by rw [hdoc]; exact hfrom, ?_, levelSort_sorted _, ?_⟩
  · exact (levelSort_perm _).trans ((List.Perm.append_left _ hX).trans List.perm_append_comm)
  · intro lvl t
    have hp : (levelSort ((g.map (fun l => (⟨none, l⟩ : MF))).toList ++ X)).Perm
        (named ++ (g.map (fun l => (⟨none, l⟩ : MF))).toList) :=
      (levelSort_perm _).trans ((List.Perm.append_left _ hX).trans List.perm_append_comm)
    rw [Bool.eq_iff_iff,
      C02.enabled_longest_prefix _ hd _ hp (levelSort_sorted _) lvl t,
      C02.enabled_longest_prefix _ hd _ (List.Perm.refl _) hs lvl t]

/-! ### Error reporting is exact -/

/-- more than one `/`: error, and nothing at all is salvaged -/
theorem parse_too_many_slashes (s : List Char) (rxok : Bool) (h : (splitOn '/' s).length ≥ 3) :
    parse s rxok = ⟨false, [], none⟩ := by
  unfold parse
  split
  · rename_i heq
    exact absurd heq (splitOn_ne_nil _ _)
  · rename_i mods rest heq
    rw [heq] at h
    have : rest.length ≥ 2 := by simp at h; omega
    simp [this]

/-- at most one `/`: verdict and salvaged specification are exactly determined by the parts -/
theorem parse_exact (s : List Char) (rxok : Bool) (mods : List Char) (rest : List (List Char))
    (hs : splitOn '/' s = mods :: rest) (hr : rest.length ≤ 1) :
    let items := (splitOn ',' mods).map parsePart
    (parse s rxok).filters = levelSort (items.filterMap Item.filter?) ∧
    ((parse s rxok).ok = false ↔ (items.any Item.isErr = true ∨ (rest ≠ [] ∧ rxok = false))) := by
  intro items
  have hlen : ¬ rest.length ≥ 2 := by omega
  unfold parse
  rw [hs]
  simp only [hlen, if_false]
  cases rest with
  | nil => simp [items]
  | cons r rs =>
    cases rxok <;> simp [items]

/-- the regex part is attached exactly when it is present and compiles -/
theorem parse_regex (s : List Char) (rxok : Bool) (mods : List Char) (rest : List (List Char))
    (hs : splitOn '/' s = mods :: rest) (hr : rest.length ≤ 1) :
    (parse s rxok).regex = if rxok then rest.head? else none := by
  have hlen : ¬ rest.length ≥ 2 := by omega
  unfold parse
  rw [hs]
  simp only [hlen, if_false]
  cases rest with
  | nil => simp
  | cons r rs => cases rxok <;> simp

/-! ### Grammar of one comma-separated part -/

/-- Declarative grammar of one comma-separated part of the module section, on the trimmed text:
    which texts are accepted, and as what. (`AllWs a`: `a` consists of whitespace only.) -/
inductive PartSpec : List Char → Item → Prop
  /-- nothing: skipped -/
  | empty : PartSpec [] .skip
  /-- a level word alone: the default -/
  | level (w : List Char) (l : Nat) :
      hasWs w = false → parseLevel w = some l → '=' ∉ w → w ≠ [] →
      PartSpec w (.filter ⟨none, l⟩)
  /-- any other word alone: that module at `trace` -/
  | name (n : List Char) :
      hasWs n = false → parseLevel n = none → '=' ∉ n → n ≠ [] →
      PartSpec n (.filter ⟨some n, 5⟩)
  /-- `name =` with optional whitespace around `=` (the name may be empty): `trace` -/
  | nameEq (n a b : List Char) :
      hasWs n = false → '=' ∉ n → AllWs a → AllWs b →
      PartSpec (n ++ a ++ '=' :: b) (.filter ⟨some n, 5⟩)
  /-- `name = level` with optional whitespace around `=` (the name may be empty) -/
  | nameLevel (n a b w : List Char) (l : Nat) :
      hasWs n = false → '=' ∉ n → AllWs a → AllWs b → '=' ∉ w → parseLevel w = some l →
      PartSpec (n ++ a ++ '=' :: (b ++ w)) (.filter ⟨some n, l⟩)

/-- whatever the grammar accepts, `parsePart` reads as the grammar says -/
theorem parsePart_sound (s : List Char) (it : Item) (h : PartSpec (trim s) it) :
    parsePart s = it := by
  generalize ht : trim s = t at h
  cases h with
  | empty => unfold parsePart; simp [ht]
  | level w l hws hpl heq hne =>
    have hemp : t.isEmpty = false := by simpa using hne
    unfold parsePart
    simp only [ht, hemp, splitOn_of_not_mem _ _ heq, trim_of_hasWs _ hws, hws, hpl]
    simp
  | name n hws hpl heq hne =>
    have hemp : t.isEmpty = false := by simpa using hne
    unfold parsePart
    simp only [ht, hemp, splitOn_of_not_mem _ _ heq, trim_of_hasWs _ hws, hws, hpl]
    simp
  | nameEq n a b hws heq ha hb =>
    have hna : '=' ∉ n ++ a := by
      have := allWs_not_mem a ha '=' isWs_eq_sign
      simp [heq, this]
    have hsplit : splitOn '=' (n ++ a ++ '=' :: b) = [n ++ a, b] := by
      rw [splitOn_append_sep _ _ _ hna,
        splitOn_of_not_mem _ _ (allWs_not_mem b hb '=' isWs_eq_sign)]
    have h0 : trim (n ++ a) = n := trim_pad_right n a ha (noEdgeWs_of_hasWs n hws)
    unfold parsePart
    simp only [ht, hsplit, h0, trim_allWs b hb, hws]
    simp
  | nameLevel n a b w l hws heq ha hb heqw hpl =>
    have hna : '=' ∉ n ++ a := by
      have := allWs_not_mem a ha '=' isWs_eq_sign
      simp [heq, this]
    have hbw : '=' ∉ b ++ w := by
      have := allWs_not_mem b hb '=' isWs_eq_sign
      simp [heqw, this]
    have hsplit : splitOn '=' (n ++ a ++ '=' :: (b ++ w)) = [n ++ a, b ++ w] := by
      rw [splitOn_append_sep _ _ _ hna, splitOn_of_not_mem _ _ hbw]
    have hwws := hasWs_of_parseLevel w l hpl
    have h0 : trim (n ++ a) = n := trim_pad_right n a ha (noEdgeWs_of_hasWs n hws)
    have h1 : trim (b ++ w) = w := trim_pad_left b w hb (noEdgeWs_of_hasWs w hwws)
    have hemp : w.isEmpty = false := by simpa using parseLevel_ne_nil w l hpl
    unfold parsePart
    simp only [ht, hsplit, h0, h1, hemp, hws, trim_of_hasWs _ hwws, trim_of_hasWs _ hws, hpl]
    simp

/-- conversely: whatever `parsePart` accepts (does not report as error) is in the grammar -/
theorem parsePart_complete (s : List Char) (it : Item) (h : parsePart s = it) (hne : it ≠ .err) :
    PartSpec (trim s) it := by
  have hedge := noEdgeWs_trim s
  unfold parsePart at h
  simp only at h
  generalize trim s = t at hedge h ⊢
  split at h
  · -- empty
    rename_i hemp
    have : t = [] := by simpa using hemp
    subst this; subst h; exact .empty
  · rename_i hemp
    have htne : t ≠ [] := by simpa using hemp
    split at h
    · -- no `=`
      rename_i p0 hsp
      obtain ⟨rfl, heq⟩ := splitOn_eq_singleton _ _ _ hsp
      simp only [trim_of_noEdgeWs _ hedge] at h
      split at h
      · exact absurd h.symm hne
      · rename_i hws
        have hws' : hasWs p0 = false := by simpa using hws
        split at h
        · rename_i l hpl
          subst h; exact .level _ _ hws' hpl heq htne
        · rename_i hpl
          subst h; exact .name _ hws' hpl heq htne
    · -- one `=`
      rename_i p0 p1 hsp
      obtain ⟨t', rfl, heq0, hsp'⟩ := splitOn_eq_cons_cons _ _ _ _ _ hsp
      obtain ⟨rfl, heq1⟩ := splitOn_eq_singleton _ _ _ hsp'
      obtain ⟨a0, b0, hp0, ha0, hb0, he0⟩ := trim_decomp p0
      obtain ⟨a1, b1, hp1, ha1, hb1, he1⟩ := trim_decomp p1
      generalize trim p0 = c0 at *
      generalize trim p1 = c1 at *
      subst hp0 hp1
      -- no whitespace in front of the name: the text is trimmed
      have ha0nil : a0 = [] := by
        cases a0 with
        | nil => rfl
        | cons c cs =>
          have h1 := hedge.1 c (by simp)
          rw [ha0 c (by simp)] at h1
          exact absurd h1 (by simp)
      subst ha0nil
      have heqc0 : '=' ∉ c0 := fun hc => heq0 (by simp [hc])
      have hrw : [] ++ c0 ++ b0 ++ '=' :: (a1 ++ c1 ++ b1) = c0 ++ b0 ++ '=' :: (a1 ++ c1 ++ b1) := by
        simp
      rw [hrw] at hedge ⊢
      split at h
      · -- nothing after `=`
        rename_i hc1
        have : c1 = [] := by simpa using hc1
        subst this
        split at h
        · exact absurd h.symm hne
        · rename_i hws
          have hws' : hasWs c0 = false := by simpa using hws
          subst h
          refine .nameEq c0 b0 _ hws' heqc0 hb0 ?_
          intro c hc
          simp only [List.append_nil, List.mem_append] at hc
          rcases hc with hc | hc
          · exact ha1 c hc
          · exact hb1 c hc
      · rename_i hc1
        have hc1ne : c1 ≠ [] := by simpa using hc1
        -- no whitespace behind the level: the text is trimmed
        have hb1nil : b1 = [] := by
          cases hlast : b1.getLast? with
          | none => simpa using hlast
          | some x =>
            have hx : isWs x = true := hb1 x (List.mem_of_getLast? hlast)
            have hb1ne : b1 ≠ [] := by rintro rfl; simp at hlast
            have h2 : (c0 ++ b0 ++ '=' :: (a1 ++ c1 ++ b1)).getLast? = some x := by
              have : c0 ++ b0 ++ '=' :: (a1 ++ c1 ++ b1) = (c0 ++ b0 ++ '=' :: (a1 ++ c1)) ++ b1 := by
                simp
              rw [this, List.getLast?_append, hlast]; rfl
            have h1 := hedge.2 x h2
            rw [hx] at h1
            exact absurd h1 (by simp)
        subst hb1nil
        split at h
        · exact absurd h.symm hne
        · rename_i hws
          have hws' : hasWs c0 = false := by simpa using hws
          simp only [trim_of_noEdgeWs _ he1, trim_of_noEdgeWs _ he0] at h
          split at h
          · rename_i l hpl
            subst h
            have heqc1 : '=' ∉ c1 := fun hc => heq1 (by simp [hc])
            rw [List.append_nil]
            exact .nameLevel c0 b0 a1 c1 l hws' heqc0 hb0 ha1 heqc1 hpl
          · exact absurd h.symm hne
    · exact absurd h.symm hne

/-- the grammar never produces the error item -/
theorem partSpec_ne_err (t : List Char) (it : Item) (h : PartSpec t it) : it ≠ .err := by
  cases h <;> simp

/-- the error verdict of one part, declaratively: the trimmed text is not in the grammar -/
theorem parsePart_err_iff (s : List Char) :
    parsePart s = .err ↔ ¬ ∃ it, PartSpec (trim s) it := by
  constructor
  · rintro h ⟨it, hp⟩
    rw [parsePart_sound s it hp] at h
    exact partSpec_ne_err _ _ hp h
  · intro h
    cases hp : parsePart s with
    | err => rfl
    | filter m => exact absurd ⟨_, parsePart_complete s _ hp (by simp)⟩ h
    | skip => exact absurd ⟨_, parsePart_complete s _ hp (by simp)⟩ h

/-- on trimmed texts the grammar is functional -/
theorem partSpec_functional (s : List Char) (it it' : Item)
    (h : PartSpec (trim s) it) (h' : PartSpec (trim s) it') : it = it' := by
  rw [← parsePart_sound s it h, ← parsePart_sound s it' h']

/-! ### non-vacuity -/

/-- a name that is a level word, a non-ASCII name (10 bytes, 8 characters), `off`, a default -/
example : WFSpec [⟨some "größe::x".toList, 4⟩, ⟨some "info".toList, 0⟩, ⟨none, 3⟩] := by
  refine ⟨[⟨some "größe::x".toList, 4⟩, ⟨some "info".toList, 0⟩], [⟨none, 3⟩], rfl, ?_, ?_, ?_, ?_⟩
  · intro m hm
    simp only [List.mem_cons, List.not_mem_nil, or_false] at hm
    rcases hm with rfl | rfl
    · exact ⟨_, rfl, by decide⟩
    · exact ⟨_, rfl, by decide⟩
  · exact Or.inr ⟨3, rfl⟩
  · unfold Sorted; decide
  · decide

example : display [⟨some "größe::x".toList, 4⟩, ⟨some "info".toList, 0⟩, ⟨none, 3⟩] =
    "info, größe::x = debug, info = off".toList := by decide

example : parse (display [⟨some "größe::x".toList, 4⟩, ⟨some "info".toList, 0⟩, ⟨none, 3⟩]) true =
    ⟨true, [⟨some "größe::x".toList, 4⟩, ⟨some "info".toList, 0⟩, ⟨none, 3⟩], none⟩ := by decide

/-- names that are prefixes of each other, no default -/
example : parse (display [⟨some "a::b".toList, 1⟩, ⟨some "a".toList, 5⟩]) false =
    ⟨true, [⟨some "a::b".toList, 1⟩, ⟨some "a".toList, 5⟩], none⟩ := by decide

example : fromToml (toToml [⟨some "größe::x".toList, 4⟩, ⟨some "info".toList, 0⟩, ⟨none, 3⟩]) =
    some [⟨some "größe::x".toList, 4⟩, ⟨some "info".toList, 0⟩, ⟨none, 3⟩] := by decide

/-- errors are reported and the rest is salvaged -/
example : parse "info, a b, c = debug, d = e = f".toList true =
    ⟨false, [⟨some "c".toList, 4⟩, ⟨none, 3⟩], none⟩ := by decide
example : parse "info/a/b".toList true = ⟨false, [], none⟩ := by decide

/-- the grammar accepts upper-case levels and blanks around `=` -/
example : PartSpec (trim "  a::b =  Debug ".toList) (.filter ⟨some "a::b".toList, 4⟩) := by
  have : trim "  a::b =  Debug ".toList =
      "a::b".toList ++ " ".toList ++ '=' :: ("  ".toList ++ "Debug".toList) := by decide
  rw [this]
  exact .nameLevel _ _ _ _ 4 (by decide) (by decide) (by decide) (by decide) (by decide) (by decide)
example : parsePart "a b".toList = .err := by decide
example : parsePart "a = b = c".toList = .err := by decide
example : parsePart "a = nolevel".toList = .err := by decide

end FV.C17
