import FlexiVerif.Lemmas.Spec
/-
  C17 — Specification text forms round-trip; parsing reports exactly the malformed parts.
  (interim file: the round-trip theorems are being added)
-/
namespace FV.C17
open FV FV.Spec

/-- more than one '/' : error, and nothing at all is salvaged -/
theorem parse_too_many_slashes (s : List Char) (rxok : Bool) (h : (splitOn '/' s).length ≥ 3) :
    parse s rxok = ⟨false, [], none⟩ := by
  unfold parse
  split
  · rename_i he; simp [he] at h
  · rename_i mods rest he
    have : rest.length ≥ 2 := by simp [he] at h; omega
    simp [this]

/-- at most one '/' : verdict and salvaged spec are exactly determined by the parts -/
theorem parse_exact (s : List Char) (rxok : Bool) (mods : List Char) (rest : List (List Char))
    (hs : splitOn '/' s = mods :: rest) (hr : rest.length ≤ 1) :
    (parse s rxok).filters = levelSort (((splitOn ',' mods).map parsePart).filterMap Item.filter?) ∧
    ((parse s rxok).ok = false ↔
      (((splitOn ',' mods).map parsePart).any Item.isErr = true ∨ (rest ≠ [] ∧ rxok = false))) := by
  unfold parse
  rw [hs]
  have : ¬ rest.length ≥ 2 := by omega
  simp only [this, if_false]
  cases rest with
  | nil => simp
  | cons r rs =>
    cases rxok <;> simp

end FV.C17
