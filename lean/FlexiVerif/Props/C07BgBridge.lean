/-
  C07 (bridge) — The concrete cleanup pass IS the abstract pass of the background-thread model.

  Two models of `remove_or_compress_too_old_logfiles_impl` exist:
  * the concrete one (`Model/Flw.lean`): `cleanup now cfg r fl d` on a directory `d : Dir`
    (association list of names and files), used by C07 (`Props/C07.lean`);
  * the abstract one (`Model/Bg.lean`): `Bg.pass k m D` on `D : List RF`, the rotated files
    oldest first, each with its rank of creation and a "compressed" flag, used by the theorems on
    the background thread (`Props/C07Bg.lean`).
  Here: a concrete directory abstracts to the chronological list of its rotated files
  (`absDir`), and one concrete pass without faults is one abstract pass on the abstraction
  (`cleanup_is_passList`, `passList_is_bg_pass`, `cleanup_abs`, `cleanup_abs_renumber`).

  Premises on the directory (all three hold in every reachable state, `reachable_premises`):
  * `IfxDistinct d`      no infix occurs twice (in particular not both plain and compressed);
  * `RotKeysDistinct d`  no two rotated files have the same sort key;
  * `GzOlder d`          every compressed rotated file is older than every plain one.
-/
import FlexiVerif.Props.C07
import FlexiVerif.Lemmas.FlwBgBridge
namespace FV.C07BgBridge
open FV FV.Flw
open FV.FlwA (ents isRot)
open FV.FlwB (nkey)
open FV.FlwL (IfxDistinct)
open FV.FlwBr (RotKeysDistinct GzOlder GzFirst)
open FV.C07 (kk Setting)

/-! ### the abstraction -/

/-- the abstraction: the rotated files of a concrete directory (plain and compressed, the
    current file of a direct naming included), oldest first, each with its position as rank -/
def absDir (d : Dir) : Bg.Dir := (rotatedAsc d).zipIdx.map (fun x => ⟨x.2, x.1.1.gz⟩)

/-- the rotated files as a list of `(infix, compressed?)`, oldest first -/
def rotList (d : Dir) : List (Option Infix × Bool) :=
  (rotatedAsc d).map (fun e => (e.1.ifx, e.1.gz))

/-- the abstract pass on such a list: with `n` entries, the entry at position `p` has rank
    `n - 1 - p` (`0` = newest); rank `≥ k + m` ⇒ dropped; `k ≤` rank `< k + m` ⇒ compressed;
    else unchanged -/
def passList (k m : Nat) (l : List (Option Infix × Bool)) : List (Option Infix × Bool) :=
  l.zipIdx.filterMap (fun x =>
    let rank := l.length - 1 - x.2
    if k + m ≤ rank then none else if k ≤ rank then some (x.1.1, true) else some x.1)

/-- ranks are replaced by positions (the order is kept) -/
def renumber (D : Bg.Dir) : Bg.Dir := D.zipIdx.map (fun x => ⟨x.2, x.1.gz⟩)

theorem passList_eq (k m : Nat) (l : List (Option Infix × Bool)) :
    passList k m l = FV.FlwBr.passListS true k m l := by
  unfold passList FV.FlwBr.passListS
  apply FV.Bg.filterMap_congr'
  intro x _
  simp only [FV.FlwBr.rankAct, Bool.or_true]

/-- the same pass, newest first: keep the first `k`, compress the next `m`, drop the rest -/
theorem passList_reverse (k m : Nat) (l : List (Option Infix × Bool)) :
    (passList k m l).reverse =
      l.reverse.zipIdx.filterMap (fun x =>
        if k + m ≤ x.2 then none else if k ≤ x.2 then some (x.1.1, true) else some x.1) := by
  rw [passList_eq, FV.FlwBr.passListS_eq_reverse, List.reverse_reverse]
  apply FV.Bg.filterMap_congr'
  intro x _
  simp only [FV.FlwBr.rankAct, Bool.or_true]

theorem rotList_eq (d : Dir) : rotList d = (rotatedAsc d).map FV.FlwBr.tag := rfl

theorem absDir_eq (d : Dir) : absDir d = FV.FlwBr.ofFlags ((rotList d).map (·.2)) := by
  unfold absDir rotList FV.FlwBr.ofFlags
  rw [List.map_map, List.zipIdx_map, List.map_map]
  rfl

theorem absDir_flags (d : Dir) : (absDir d).map (·.gz) = (rotList d).map (·.2) := by
  rw [absDir_eq]
  unfold FV.FlwBr.ofFlags
  rw [List.map_map]
  exact List.zipIdx_map_fst 0 _

theorem renumber_eq (D : Bg.Dir) : renumber D = FV.FlwBr.ofFlags (D.map (·.gz)) := by
  unfold renumber FV.FlwBr.ofFlags
  rw [List.zipIdx_map, List.map_map]
  rfl

/-! ### one concrete pass is one abstract pass -/

/-- The pass in terms of `FlwBr.passListS`, for either suffix setting. -/
theorem cleanup_is_passListS (now : Nat) (cfg : Cfg) (r : RotCfg) (k m : Nat)
    (hc : r.cleanup = some (k, m)) (d : Dir) (hd : IfxDistinct d) (hk : RotKeysDistinct d)
    (hsep : GzOlder d) :
    rotList (cleanup now cfg r noFaults d).1 =
      FV.FlwBr.passListS cfg.hasSuffix (kk r k) m (rotList d) := by
  obtain ⟨-, h1, h2, -⟩ := FV.FlwBr.cleanup_rotatedAsc now cfg r k m hc d hd hk hsep
  rw [rotList_eq, rotList_eq, h1, h2]
  exact FV.FlwBr.cl_reverse_map cfg.hasSuffix now (kk r k) m (listing d)

/-- Without faults the pass runs to its end. -/
theorem cleanup_completes (now : Nat) (cfg : Cfg) (r : RotCfg) (k m : Nat)
    (hc : r.cleanup = some (k, m)) (d : Dir) (hd : IfxDistinct d) (hk : RotKeysDistinct d)
    (hsep : GzOlder d) : (cleanup now cfg r noFaults d).2 = false :=
  (FV.FlwBr.cleanup_rotatedAsc now cfg r k m hc d hd hk hsep).1

/-- **One concrete pass is one abstract pass.** For a directory in which no infix occurs twice,
    no two rotated files have the same key and every compressed rotated file is older than
    every plain one, files with a suffix, no faults: the rotated files after `cleanup` (oldest
    first, as `(infix, compressed?)`) are `passList` of those before: the file of rank
    `≥ kk + m` is gone, the file of rank `kk ≤ · < kk + m` is there compressed under the same
    infix, the newest `kk` are as they were (`kk r k`: `k`, bumped to 1 for the direct namings
    when 0). -/
theorem cleanup_is_passList (now : Nat) (cfg : Cfg) (r : RotCfg) (k m : Nat)
    (hc : r.cleanup = some (k, m)) (hs : cfg.hasSuffix = true) (d : Dir) (hd : IfxDistinct d)
    (hk : RotKeysDistinct d) (hsep : GzOlder d) :
    rotList (cleanup now cfg r noFaults d).1 = passList (kk r k) m (rotList d) := by
  rw [cleanup_is_passListS now cfg r k m hc d hd hk hsep, hs, passList_eq]

/-- … **without a suffix** nothing is ever compressed: the files at the compress positions stay
    plain, so the pass is the abstract pass that keeps `kk + m` plain files and no compressed
    ones. -/
theorem cleanup_is_passList_noSuffix (now : Nat) (cfg : Cfg) (r : RotCfg) (k m : Nat)
    (hc : r.cleanup = some (k, m)) (hs : cfg.hasSuffix = false) (d : Dir) (hd : IfxDistinct d)
    (hk : RotKeysDistinct d) (hsep : GzOlder d) :
    rotList (cleanup now cfg r noFaults d).1 = passList (kk r k + m) 0 (rotList d) := by
  rw [cleanup_is_passListS now cfg r k m hc d hd hk hsep, hs, passList_eq,
    FV.FlwBr.passListS_false]

/-- **`passList` is `Bg.pass`** up to the renumbering of ranks, on every list in which all
    compressed entries precede all plain ones: the flags agree (hence so do the numbers of
    files). The `Bg` directory numbers the entries by position. -/
theorem passList_is_bg_pass (k m : Nat) (l : List (Option Infix × Bool))
    (hsep : GzFirst (l.map (·.2))) :
    (passList k m l).map (·.2) =
      (Bg.pass k m (l.zipIdx.map (fun x => ⟨x.2, x.1.2⟩))).map (·.gz) := by
  rw [passList_eq, FV.FlwBr.passListS_is_bg_pass k m l hsep]
  unfold FV.FlwBr.ofFlags
  rw [List.zipIdx_map, List.map_map]
  rfl

/-- in a directory satisfying the premises the compressed rotated files come first -/
theorem rotList_gzFirst (d : Dir) (hk : RotKeysDistinct d) (hsep : GzOlder d) :
    GzFirst ((rotList d).map (·.2)) := by
  have h1 : rotatedAsc d = (listing d).reverse :=
    FV.FlwC.rotatedAsc_of_perm (FV.FlwBr.perm_others_listing d) (FV.FlwBr.others_not_rot d)
      (FV.FlwBr.listing_sorted d hk hsep)
  rw [rotList_eq, h1]
  exact FV.FlwBr.gzFirst_reverse_listing d hk hsep

/-- **The concrete pass and `Bg.pass` on the abstraction leave the same flags** (and hence the
    same number of files): compressed/plain, oldest first. -/
theorem cleanup_abs (now : Nat) (cfg : Cfg) (r : RotCfg) (k m : Nat)
    (hc : r.cleanup = some (k, m)) (hs : cfg.hasSuffix = true) (d : Dir) (hd : IfxDistinct d)
    (hk : RotKeysDistinct d) (hsep : GzOlder d) :
    (absDir (cleanup now cfg r noFaults d).1).map (·.gz) =
      (Bg.pass (kk r k) m (absDir d)).map (·.gz) := by
  rw [absDir_flags, cleanup_is_passList now cfg r k m hc hs d hd hk hsep, passList_eq,
    FV.FlwBr.passListS_is_bg_pass _ _ _ (rotList_gzFirst d hk hsep), absDir_eq]

/-- … without a suffix: `Bg.pass` with `kk + m` plain and no compressed files -/
theorem cleanup_abs_noSuffix (now : Nat) (cfg : Cfg) (r : RotCfg) (k m : Nat)
    (hc : r.cleanup = some (k, m)) (hs : cfg.hasSuffix = false) (d : Dir) (hd : IfxDistinct d)
    (hk : RotKeysDistinct d) (hsep : GzOlder d) :
    (absDir (cleanup now cfg r noFaults d).1).map (·.gz) =
      (Bg.pass (kk r k + m) 0 (absDir d)).map (·.gz) := by
  rw [absDir_flags, cleanup_is_passList_noSuffix now cfg r k m hc hs d hd hk hsep, passList_eq,
    FV.FlwBr.passListS_is_bg_pass _ _ _ (rotList_gzFirst d hk hsep), absDir_eq]

/-- **The abstraction commutes with the pass**: the abstraction of the directory after the
    concrete pass is the abstract pass on the abstraction of the directory before, ranks
    replaced by positions. -/
theorem cleanup_abs_renumber (now : Nat) (cfg : Cfg) (r : RotCfg) (k m : Nat)
    (hc : r.cleanup = some (k, m)) (hs : cfg.hasSuffix = true) (d : Dir) (hd : IfxDistinct d)
    (hk : RotKeysDistinct d) (hsep : GzOlder d) :
    absDir (cleanup now cfg r noFaults d).1 = renumber (Bg.pass (kk r k) m (absDir d)) := by
  rw [renumber_eq, ← cleanup_abs now cfg r k m hc hs d hd hk hsep, absDir_flags, absDir_eq]

/-! ### what the pass does not touch; the contents -/

/-- **Files that are not rotated files are untouched**, for EVERY fault assignment: a name whose
    infix is not a rotated-file infix has the same `get` before and after the pass. -/
theorem cleanup_others_untouched (now : Nat) (cfg : Cfg) (r : RotCfg) (fl : Faults) (d : Dir)
    (x : FName) (hx : ∀ i, x.ifx = some i → i.rotated = false) :
    (cleanup now cfg r fl d).1.get x = d.get x := by
  unfold cleanup
  split
  · rfl
  · apply FV.FlwL.cleanupLoop_get_frame
    intro e he heq
    obtain ⟨i, hi1, hi2⟩ := (FV.FlwL.isRot_iff e).1 ((FV.FlwL.mem_listing d e).1 he).2
    rw [hx i (by rw [← heq, hi1])] at hi2
    cases hi2

/-- … the `rCURRENT` file, the plain file of a non-rotating writer, files moved away -/
theorem cleanup_current_untouched (now : Nat) (cfg : Cfg) (r : RotCfg) (fl : Faults) (d : Dir)
    (gz : Bool) :
    (cleanup now cfg r fl d).1.get ⟨some .cur, gz⟩ = d.get ⟨some .cur, gz⟩ ∧
    (cleanup now cfg r fl d).1.get ⟨none, gz⟩ = d.get ⟨none, gz⟩ ∧
    ∀ n, (cleanup now cfg r fl d).1.get ⟨some (.ext n), gz⟩ = d.get ⟨some (.ext n), gz⟩ := by
  refine ⟨?_, ?_, fun n => ?_⟩ <;> apply cleanup_others_untouched <;> intro i hi <;> cases hi <;> rfl

/-- **The contents** (which the abstraction forgets): the data of the rotated files after the
    pass, oldest first, are the data of the newest `kk + m` rotated files before — compression
    is the identity on the (uncompressed) data; either suffix setting. -/
theorem cleanup_data (now : Nat) (cfg : Cfg) (r : RotCfg) (k m : Nat)
    (hc : r.cleanup = some (k, m)) (d : Dir) (hd : IfxDistinct d) (hk : RotKeysDistinct d)
    (hsep : GzOlder d) :
    (rotatedAsc (cleanup now cfg r noFaults d).1).map (·.2.data) =
      FV.C07.lastN (kk r k + m) ((rotatedAsc d).map (·.2.data)) := by
  obtain ⟨-, h1, h2, -⟩ := FV.FlwBr.cleanup_rotatedAsc now cfg r k m hc d hd hk hsep
  rw [h1, h2, FV.FlwC.cl_zero, List.map_reverse, List.map_reverse, FV.FlwC.T_data,
    ← FV.C07.reverse_take_reverse, List.reverse_reverse]
  rfl

/-! ### the premises hold in every reachable state -/

theorem rotKeysDistinct_of_cdir {hs : Bool} {kc m : Nat} {nm : Naming} {idx stamp : Nat}
    {d : Dir} {h : FName} {f : File} {C : List FV.FlwC.E} {closed : List (List Nat)}
    (hd : FV.FlwC.CDir hs kc m nm idx stamp d h f C closed) : RotKeysDistinct d := by
  have hC : C.Pairwise (fun x y : FV.FlwC.E => isRot x = true → isRot y = true →
      nkey x.1 ≠ nkey y.1) := by
    refine hd.sorted.1.imp ?_
    intro a b hab _ _ heq
    have hab' : FV.Flw.keyLt (nkey b.1) (nkey a.1) = true := hab
    rw [heq, FV.FlwB.keyLt_irrefl] at hab'
    cases hab'
  unfold RotKeysDistinct
  rw [List.Perm.pairwise_iff (fun hxy h1 h2 => Ne.symm (hxy h2 h1)) hd.perm, List.pairwise_cons]
  refine ⟨?_, hC⟩
  intro e he hrh _ heq
  obtain ⟨i, hi, hb⟩ := hd.below e he
  cases hw : nm.writesDirect with
  | false =>
    have := hd.handle.cur hw
    subst this
    cases hrh
  | true =>
    have := hb.key_lt hw hd.handle
    simp only at heq
    rw [show i.key = nkey e.1 by simp only [nkey, hi], ← heq, FV.FlwB.keyLt_irrefl] at this
    cases this

/-- **The premises of the bridge hold in every reachable state** (setting of C07: no append,
    start on an empty directory, plain histories). -/
theorem reachable_premises (cfg : Cfg) (r : RotCfg) (k m : Nat) (hS : Setting cfg r k m)
    (ops : List (Op × Nat × Faults)) (hp : PlainHistory ops) :
    IfxDistinct (runOps (init cfg []) ops).dir ∧
    RotKeysDistinct (runOps (init cfg []) ops).dir ∧
    GzOlder (runOps (init cfg []) ops).dir := by
  refine ⟨FV.C07.reachable_ifxDistinct cfg r k m hS ops hp, ?_, ?_⟩
  · obtain ⟨t, hcfg, hi⟩ := FV.FlwC.inv_run hS.cfgC ops hp
    generalize runOps (init cfg []) ops = s at hcfg hi
    cases hact : s.act with
    | none =>
      rw [hact] at hi
      rw [hi.1]
      exact List.Pairwise.nil
    | some act =>
      rw [hact] at hi
      obtain ⟨f, C, hd, -⟩ := hi.1.dir
      exact rotKeysDistinct_of_cdir hd
  · intro e1 h1 e2 h2 _ hg1 hr2 hg2
    exact FV.C07.gz_older_than_plain cfg r k m hS ops hp e1 e2 h1 h2 hg1 hg2 hr2

/-- … hence: a cleanup pass started on the directory of a reachable state is the abstract pass
    on its abstraction. -/
theorem reachable_cleanup_abs (cfg : Cfg) (r : RotCfg) (k m : Nat) (hS : Setting cfg r k m)
    (ops : List (Op × Nat × Faults)) (hp : PlainHistory ops) (hs : cfg.hasSuffix = true)
    (now : Nat) :
    let d := (runOps (init cfg []) ops).dir
    absDir (cleanup now cfg r noFaults d).1 = renumber (Bg.pass (kk r k) m (absDir d)) := by
  obtain ⟨h1, h2, h3⟩ := reachable_premises cfg r k m hS ops hp
  exact cleanup_abs_renumber now cfg r k m hS.cleanup hs _ h1 h2 h3

/-! ### every rotation of a reachable state: the abstract `rotate`, then one abstract pass -/

/-- **The directory a rotation hands to `cleanup`.** `cleanup` is not called on the directory of
    a reachable state but in the middle of a rotation, after the current file has been renamed
    (`rCURRENT` namings) resp. the next file has been opened (direct namings) and the old writer
    has flushed. When a rotation is due in a reachable state (clock not behind the writer's
    stamp), that directory `d0` satisfies the three premises, and its rotated files are those of
    the state plus ONE newest plain file — the abstract `rotate` step
    (`d ++ [⟨next, false⟩]`). -/
theorem rotation_premises (cfg : Cfg) (r : RotCfg) (k m : Nat) (hS : Setting cfg r k m)
    (ops : List (Op × Nat × Faults)) (hp : PlainHistory ops) (act : Active)
    (hact : (runOps (init cfg []) ops).act = some act) (force : Bool) (now : Nat)
    (hst : act.stamp ≤ now) (h : (force || rotationNecessary r act now) = true) :
    ∃ d0 : Dir, ∃ c0 : Cfg, c0.hasSuffix = cfg.hasSuffix ∧
      (mountNext (runOps (init cfg []) ops) act r force now noFaults).1.dir =
        (cleanup now c0 r noFaults d0).1 ∧
      IfxDistinct d0 ∧ RotKeysDistinct d0 ∧ GzOlder d0 ∧
      absDir d0 = absDir (runOps (init cfg []) ops).dir ++
        [⟨(absDir (runOps (init cfg []) ops).dir).length, false⟩] := by
  obtain ⟨t, hcfg, hi⟩ := FV.FlwC.inv_run hS.cfgC ops hp
  generalize runOps (init cfg []) ops = s at hcfg hi hact
  rw [hact] at hi
  obtain ⟨s0, act0, ti, hm, hc0, h1, h2, h3, i, h4⟩ :=
    FV.FlwBr.mountNext_preCleanup s act _ force now hcfg hi.1 hst h
  refine ⟨FV.FlwC.preCleanupDir s0 act0 ti now,
    (openFile s0 ⟨some ti, false⟩ now noFaults 0).1.cfg, ?_, ?_, h1, h2, h3, ?_⟩
  · rw [FV.FlwC.openFile_cfg, hc0]
  · rw [hm]
    exact FV.FlwC.rotTailC_cleanup s0 act0 ti r now
  · rw [absDir_eq, absDir_eq, rotList_eq, rotList_eq, h4, List.map_append]
    exact FV.FlwBr.ofFlags_append _ false

/-- **Every rotation of a reachable state is the abstract `rotate` followed by one abstract
    pass** (files with a suffix): the abstraction of the directory after the rotation is
    `Bg.pass` on the abstraction of the directory before, extended by one newest plain file —
    the recursion of `Bg.syncDir` — ranks replaced by positions. -/
theorem rotation_is_bg_rotate_pass (cfg : Cfg) (r : RotCfg) (k m : Nat) (hS : Setting cfg r k m)
    (ops : List (Op × Nat × Faults)) (hp : PlainHistory ops) (act : Active)
    (hact : (runOps (init cfg []) ops).act = some act) (force : Bool) (now : Nat)
    (hst : act.stamp ≤ now) (h : (force || rotationNecessary r act now) = true)
    (hs : cfg.hasSuffix = true) :
    absDir (mountNext (runOps (init cfg []) ops) act r force now noFaults).1.dir =
      renumber (Bg.pass (kk r k) m (absDir (runOps (init cfg []) ops).dir ++
        [⟨(absDir (runOps (init cfg []) ops).dir).length, false⟩])) := by
  obtain ⟨d0, c0, hc, hdir, h1, h2, h3, h4⟩ :=
    rotation_premises cfg r k m hS ops hp act hact force now hst h
  rw [hdir, cleanup_abs_renumber now c0 r k m hS.cleanup (hc.trans hs) d0 h1 h2 h3, h4]

/-- … without a suffix (nothing is compressed): the flags are those of `Bg.pass (kk + m) 0` -/
theorem rotation_is_bg_rotate_pass_noSuffix (cfg : Cfg) (r : RotCfg) (k m : Nat)
    (hS : Setting cfg r k m) (ops : List (Op × Nat × Faults)) (hp : PlainHistory ops)
    (act : Active) (hact : (runOps (init cfg []) ops).act = some act) (force : Bool) (now : Nat)
    (hst : act.stamp ≤ now) (h : (force || rotationNecessary r act now) = true)
    (hs : cfg.hasSuffix = false) :
    (absDir (mountNext (runOps (init cfg []) ops) act r force now noFaults).1.dir).map (·.gz) =
      (Bg.pass (kk r k + m) 0 (absDir (runOps (init cfg []) ops).dir ++
        [⟨(absDir (runOps (init cfg []) ops).dir).length, false⟩])).map (·.gz) := by
  obtain ⟨d0, c0, hc, hdir, h1, h2, h3, h4⟩ :=
    rotation_premises cfg r k m hS ops hp act hact force now hst h
  rw [hdir, cleanup_abs_noSuffix now c0 r k m hS.cleanup (hc.trans hs) d0 h1 h2 h3, h4]


/-- … for the operation `rotate` (`FileLogWriter::rotate`) in a reachable state with an active
    writer -/
theorem rotate_op_is_bg_rotate_pass (cfg : Cfg) (r : RotCfg) (k m : Nat) (hS : Setting cfg r k m)
    (ops : List (Op × Nat × Faults)) (hp : PlainHistory ops) (act : Active)
    (hact : (runOps (init cfg []) ops).act = some act) (now : Nat) (hst : act.stamp ≤ now)
    (hs : cfg.hasSuffix = true) :
    absDir (step (runOps (init cfg []) ops) .rotate now noFaults).1.dir =
      renumber (Bg.pass (kk r k) m (absDir (runOps (init cfg []) ops).dir ++
        [⟨(absDir (runOps (init cfg []) ops).dir).length, false⟩])) := by
  have h := rotation_is_bg_rotate_pass cfg r k m hS ops hp act hact true now hst rfl hs
  obtain ⟨t, hcfg, -⟩ := FV.FlwC.inv_run hS.cfgC ops hp
  generalize runOps (init cfg []) ops = s at hcfg hact h ⊢
  have hd : (step s .rotate now noFaults).1.dir = (mountNext s act r true now noFaults).1.dir := by
    simp [step, hact, hcfg, hS.rot]
  rw [hd]
  exact h

/-! ### non-vacuity, boundary cases, and why each premise is needed -/

/-- a directory from a list of `(infix, compressed?)` -/
def exMk (l : List (Infix × Bool)) : Dir := l.map (fun x => (⟨some x.1, x.2⟩, ⟨[x.1.key.1], 0⟩))

/-- `r00000.gz r00001.gz r00002 r00003 r00004` and `rCURRENT`, in the order in which `read_dir`
    happens to deliver them -/
def exDir : Dir := exMk [(.num 3, false), (.num 0, true), (.num 4, false), (.num 1, true),
  (.num 2, false), (.cur, false)]

def exCfg (hs : Bool) : Cfg := ⟨none, false, none, false, hs⟩
def exRot (nm : Naming) (k m : Nat) : RotCfg := ⟨none, none, nm, some (k, m)⟩

/-- the premises hold; the abstraction is the chronological list -/
example : IfxDistinct exDir ∧ RotKeysDistinct exDir ∧ GzOlder exDir := by decide
example : absDir exDir = [⟨0, true⟩, ⟨1, true⟩, ⟨2, false⟩, ⟨3, false⟩, ⟨4, false⟩] := by decide
example : rotList exDir = [(some (.num 0), true), (some (.num 1), true), (some (.num 2), false),
    (some (.num 3), false), (some (.num 4), false)] := by decide

/-- `k = 1`, `m = 2`: `r00000.gz`, `r00001.gz` are dropped, `r00002`, `r00003` compressed -/
example : rotList (cleanup 7 (exCfg true) (exRot .numbers 1 2) noFaults exDir).1 =
    [(some (.num 2), true), (some (.num 3), true), (some (.num 4), false)] ∧
    passList 1 2 (rotList exDir) =
      [(some (.num 2), true), (some (.num 3), true), (some (.num 4), false)] ∧
    Bg.pass 1 2 (absDir exDir) = [⟨2, true⟩, ⟨3, true⟩, ⟨4, false⟩] ∧
    absDir (cleanup 7 (exCfg true) (exRot .numbers 1 2) noFaults exDir).1 =
      [⟨0, true⟩, ⟨1, true⟩, ⟨2, false⟩] ∧
    renumber (Bg.pass 1 2 (absDir exDir)) = [⟨0, true⟩, ⟨1, true⟩, ⟨2, false⟩] := by decide

/-- … as the theorems say -/
example : absDir (cleanup 7 (exCfg true) (exRot .numbers 1 2) noFaults exDir).1 =
    renumber (Bg.pass 1 2 (absDir exDir)) :=
  cleanup_abs_renumber 7 _ _ 1 2 rfl rfl exDir (by decide) (by decide) (by decide)

/-- the data travel with the files; `rCURRENT` is untouched -/
example : (rotatedAsc (cleanup 7 (exCfg true) (exRot .numbers 1 2) noFaults exDir).1).map
      (·.2.data) = [[2], [3], [4]] ∧
    (cleanup 7 (exCfg true) (exRot .numbers 1 2) noFaults exDir).1.get ⟨some .cur, false⟩ =
      exDir.get ⟨some .cur, false⟩ := by decide

/-- boundary cases: `k = 0, m = 0` (everything goes), `m = 0` (nothing is compressed, the
    compressed files go first), `k = 0` (everything that stays is compressed) -/
example : rotList (cleanup 7 (exCfg true) (exRot .numbers 0 0) noFaults exDir).1 = [] ∧
    passList 0 0 (rotList exDir) = [] ∧ Bg.pass 0 0 (absDir exDir) = [] := by decide
example : rotList (cleanup 7 (exCfg true) (exRot .numbers 4 0) noFaults exDir).1 =
    [(some (.num 1), true), (some (.num 2), false), (some (.num 3), false),
     (some (.num 4), false)] ∧
    passList 4 0 (rotList exDir) = [(some (.num 1), true), (some (.num 2), false),
      (some (.num 3), false), (some (.num 4), false)] ∧
    Bg.pass 4 0 (absDir exDir) = [⟨1, true⟩, ⟨2, false⟩, ⟨3, false⟩, ⟨4, false⟩] := by decide
example : rotList (cleanup 7 (exCfg true) (exRot .numbers 0 2) noFaults exDir).1 =
    [(some (.num 3), true), (some (.num 4), true)] ∧
    passList 0 2 (rotList exDir) = [(some (.num 3), true), (some (.num 4), true)] ∧
    Bg.pass 0 2 (absDir exDir) = [⟨3, true⟩, ⟨4, true⟩] := by decide

/-- a direct naming (the current file `r00004` is the newest entry of the listing): `k = 0` is
    bumped to 1, so the abstract pass is `Bg.pass 1 m`, and the current file stays plain -/
example : kk (exRot .numbersDirect 0 1) 0 = 1 ∧
    rotList (cleanup 7 (exCfg true) (exRot .numbersDirect 0 1) noFaults exDir).1 =
      [(some (.num 3), true), (some (.num 4), false)] ∧
    passList 1 1 (rotList exDir) = [(some (.num 3), true), (some (.num 4), false)] ∧
    Bg.pass 1 1 (absDir exDir) = [⟨3, true⟩, ⟨4, false⟩] ∧
    Bg.pass 0 1 (absDir exDir) = [⟨4, true⟩] := by decide

/-- a directory that holds only compressed files, `k = 1`: the newest one is kept AS IT IS
    (position `< k`: the code does not look at it, neither does `Bg.plan`) -/
example :
    let d := exMk [(.ts 5 none, true), (.ts 5 (some 0), true), (.ts 3 none, true)]
    (IfxDistinct d ∧ RotKeysDistinct d ∧ GzOlder d) ∧
    rotList (cleanup 7 (exCfg true) (exRot .timestamps 1 1) noFaults d).1 =
      [(some (.ts 5 none), true), (some (.ts 5 (some 0)), true)] ∧
    passList 1 1 (rotList d) = [(some (.ts 5 none), true), (some (.ts 5 (some 0)), true)] ∧
    Bg.pass 1 1 (absDir d) = [⟨1, true⟩, ⟨2, true⟩] := by decide

/-- without a suffix the files at the compress positions stay plain: `Bg.pass (k + m) 0` -/
example : rotList (cleanup 7 (exCfg false) (exRot .numbers 1 2) noFaults exDir).1 =
    [(some (.num 2), false), (some (.num 3), false), (some (.num 4), false)] ∧
    passList 3 0 (rotList exDir) =
      [(some (.num 2), false), (some (.num 3), false), (some (.num 4), false)] ∧
    Bg.pass 3 0 (absDir exDir) = [⟨2, false⟩, ⟨3, false⟩, ⟨4, false⟩] ∧
    Bg.pass 1 2 (absDir exDir) ≠ [⟨2, false⟩, ⟨3, false⟩, ⟨4, false⟩] := by decide

/-- **`RotKeysDistinct` is needed** (`IfxDistinct` is not enough): `r00003` and a timestamp
    file with stamp 3 are different infixes with the same key; the descending sort of the listing
    and the ascending sort of `rotatedAsc` then break the tie the same way instead of opposite
    ways, and the pass compresses the file that reads as the NEWEST. -/
example :
    let d := exMk [(.num 3, false), (.ts 3 none, false), (.num 1, false)]
    IfxDistinct d ∧ GzOlder d ∧ ¬ RotKeysDistinct d ∧
    rotList d = [(some (.num 1), false), (some (.ts 3 none), false), (some (.num 3), false)] ∧
    rotList (cleanup 7 (exCfg true) (exRot .timestamps 1 1) noFaults d).1 =
      [(some (.ts 3 none), false), (some (.num 3), true)] ∧
    passList 1 1 (rotList d) = [(some (.ts 3 none), true), (some (.num 3), false)] := by decide

/-- **`GzOlder` is needed**: the listing is "plain files newest first, THEN compressed files", so
    a compressed file that is newer than a plain one is listed after it, i.e. treated as older:
    with `k = 1, m = 0` the code keeps the plain `r00000` and removes the newer `r00001.gz`.
    (`Bg.listing` has the same order, so `Bg.pass` on the abstraction does the same; what fails
    is the reading "rank = position from the end".) -/
example :
    let d := exMk [(.num 0, false), (.num 1, true)]
    IfxDistinct d ∧ RotKeysDistinct d ∧ ¬ GzOlder d ∧
    rotList (cleanup 7 (exCfg true) (exRot .numbers 1 0) noFaults d).1 =
      [(some (.num 0), false)] ∧
    passList 1 0 (rotList d) = [(some (.num 1), true)] ∧
    Bg.pass 1 0 (absDir d) = [⟨0, false⟩] := by decide

/-- a rotation at the end of the example history of C07 (`numbers`, `k = 1`, `m = 1`, files
    `r00004.gz r00005 rCURRENT`): abstractly `[gz, plain]`, `rotate` gives `[gz, plain, plain]`,
    the pass drops the oldest and compresses the next -/
example :
    let s := runOps (init (FV.C07.exCfg .numbers 1 1 true) []) FV.C07.exOps
    absDir s.dir = [⟨0, true⟩, ⟨1, false⟩] ∧
    Bg.pass 1 1 (absDir s.dir ++ [⟨2, false⟩]) = [⟨1, true⟩, ⟨2, false⟩] ∧
    absDir (step s .rotate 15 noFaults).1.dir = [⟨0, true⟩, ⟨1, false⟩] ∧
    rotList (step s .rotate 15 noFaults).1.dir =
      [(some (.num 5), true), (some (.num 6), false)] := by decide

/-- … the same with a direct naming (`timestampsDirect`, `k = 2`, `m = 1`; the current file is
    the newest rotated-style file) -/
example :
    let s := runOps (init (FV.C07.exCfg .timestampsDirect 2 1 true) []) FV.C07.exOps
    absDir s.dir = [⟨0, true⟩, ⟨1, false⟩, ⟨2, false⟩] ∧
    Bg.pass 2 1 (absDir s.dir ++ [⟨3, false⟩]) = [⟨1, true⟩, ⟨2, false⟩, ⟨3, false⟩] ∧
    absDir (step s .rotate 15 noFaults).1.dir = [⟨0, true⟩, ⟨1, false⟩, ⟨2, false⟩] := by decide

end FV.C07BgBridge
