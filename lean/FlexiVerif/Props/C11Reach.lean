/-
  C11, cleanup part, for REACHABLE states — the cleanup pass that a rotation starts within a run
  is crash-safe.

  `Props/C11Cleanup.lean::cleanupT_crash_safe` says: a process killed at ANY recorded point of a
  cleanup pass loses no rotated file within the keep limits — PROVIDED no infix occurs twice in
  the directory `d0` the pass starts on (`IfxDistinct d0`). Here that premise is discharged for
  every pass a rotation starts in a state reached by a plain history (setting of C07 /
  `C07BgBridge`: `Setting cfg r k m`, start on the empty directory, no restart, no faults):

  * the points of the operation (`stepT`, `Model/FlwTrace.lean`) are `pre ++ [rot.mounted] ++
    pass (++ [write.before, write.after])`, where `pass` are literally the points of
    `cleanupT now cfg r link d0` and `d0`, `link` are what the point `rot.mounted` records;
  * `d0` — the directory of `mountedSt`, the state of the rotation with its cleanup switched
    off (`Lemmas/FlwReachCrash.lean`) — satisfies `IfxDistinct`;
  * hence at EVERY point of `pass` every file the completed pass keeps (listing index
    `< kk + m`) is completely on disk (`Held`), and — in the words of the property — so is every
    rotated file that is in the directory after the completed rotation (`…_final`: what the
    completed pass keeps are exactly such files, `FlwRC.kept_of_mem_cleanup`).

  `rotation_cleanup_crash_safe_inv`: for every state of the C07 invariant (`FlwC.CInv`).
  `reachable_rotation_cleanup_crash_safe`: for `runOps (init cfg []) ops`, clock reading given
  by the hypothesis `act.stamp ≤ now`. `reachable_write_cleanup_crash_safe`,
  `reachable_rotate_cleanup_crash_safe`: for the operations `.write b` / `.rotate` at the end of
  a plain history — `act.stamp ≤ now` follows from the monotone clock of the history
  (`FlwRC.state_before`), no extra hypothesis.
-/
import FlexiVerif.Props.C11Cleanup
import FlexiVerif.Props.C07BgBridge
import FlexiVerif.Lemmas.FlwReachCrash
namespace FV.C11
open FV FV.Flw
open FV.C07 (Setting kk)
open FV.C11Cleanup (Held cleanupT_crash_safe)
open FV.FlwL (IfxDistinct)
open FV.FlwC (CInv)
open FV.FlwRC (mountedSt noCleanup)
open FV.FlwA (ents)

/-! ### a due rotation in a state of the invariant -/

/-- **The cleanup pass of a due rotation in a state of the C07 invariant is crash-safe.**
    `M` is the state at the point `rot.mounted` (the rotation with its cleanup switched off),
    `pass` the points of the cleanup pass on `M`. Then
    1. no infix occurs twice in `M.dir`;
    2. the points of the rotation are `pre ++ [rot.mounted M] ++ pass`;
    3. the directory after the rotation is what the (un-instrumented) pass returns on `M.dir`;
    4. at every point of `pass` every file of the listing of `M.dir` within the keep limits is
       completely on disk;
    5. at every point of `pass` every rotated file of the directory AFTER the rotation is
       completely on disk. -/
theorem rotation_cleanup_crash_safe_inv {cfg : Cfg} {r : RotCfg} {k m : Nat}
    (hS : Setting cfg r k m) (s : St) (act : Active) (a : Abs) (hcfg : s.cfg = cfg)
    (hi : CInv cfg r k m s.dir act a) (force : Bool) (now : Nat) (hst : act.stamp ≤ now)
    (h : (force || rotationNecessary r act now) = true) :
    let M := mountedSt s act r force now
    let pass := (cleanupT now cfg r M.link M.dir).2
    IfxDistinct M.dir ∧
    (∃ pre, (mountNextT s act r force now).2.2 = pre ++ [pt "rot.mounted" M] ++ pass) ∧
    (mountNext s act r force now noFaults).1.dir = (cleanup now cfg r noFaults M.dir).1 ∧
    (∀ p ∈ pass, ∀ (j : Nat) (n : FName) (f : File) (i : Infix),
      (listing M.dir)[j]? = some (n, f) → n.ifx = some i → j < kk r k + m →
        Held p.dir i f.data) ∧
    (∀ p ∈ pass, ∀ (n : FName) (f : File) (i : Infix),
      (mountNext s act r force now noFaults).1.dir.get n = some f → n.ifx = some i →
        i.rotated = true → Held p.dir i f.data) := by
  intro M pass
  obtain ⟨hc, h1, h2, h3, -⟩ := FV.FlwRC.mounted_premises s act a force now hcfg hi hst h
  have hsplit := FV.FlwRC.mountNextT_split s act r force now h
  obtain ⟨pre, hpre⟩ := FV.FlwRC.mountNextT_mounted_last s act r force now h
  have hdir := FV.FlwRC.mountNext_dir_split s act r force now h
  rw [hc] at hsplit hdir
  have hsafe := cleanupT_crash_safe now cfg r M.link k m hS.cleanup M.dir h1
  refine ⟨h1, ⟨pre, by rw [hsplit, hpre]⟩, hdir, hsafe, ?_⟩
  intro p hp n f i hg hi' hr
  rw [hdir] at hg
  obtain ⟨j, n0, f0, hj, hlt, hn0, hdat⟩ :=
    FV.FlwRC.kept_of_mem_cleanup now cfg r k m hS.cleanup M.dir h1 h2 h3 n f i hg hi' hr
  rw [← hdat]
  exact hsafe p hp j n0 f0 i hj hn0 hlt

/-! ### reachable states -/

/-- **Main theorem: the cleanup pass that a rotation starts in a REACHABLE state is
    crash-safe.** In the state after any plain history from the empty directory, for a writer
    `act` whose stamp the clock is not behind and a rotation that is due (`force`d or
    necessary): the points of the rotation end with `rot.mounted` followed by the points of the
    cleanup pass on the directory `M.dir` that `rot.mounted` records; no infix occurs twice in
    `M.dir`; and at EVERY point of the pass every file that the completed pass keeps (index
    `< kk + m` of the listing of `M.dir`), and every rotated file of the directory after the
    completed rotation, is completely on disk, plain or compressed. -/
theorem reachable_rotation_cleanup_crash_safe (cfg : Cfg) (r : RotCfg) (k m : Nat)
    (hS : Setting cfg r k m) (ops : List (Op × Nat × Faults)) (hp : PlainHistory ops)
    (act : Active) (hact : (runOps (init cfg []) ops).act = some act) (force : Bool) (now : Nat)
    (hst : act.stamp ≤ now) (h : (force || rotationNecessary r act now) = true) :
    let s := runOps (init cfg []) ops
    let M := mountedSt s act r force now
    let pass := (cleanupT now cfg r M.link M.dir).2
    IfxDistinct M.dir ∧
    (∃ pre, (mountNextT s act r force now).2.2 = pre ++ [pt "rot.mounted" M] ++ pass) ∧
    (mountNext s act r force now noFaults).1.dir = (cleanup now cfg r noFaults M.dir).1 ∧
    (∀ p ∈ pass, ∀ (j : Nat) (n : FName) (f : File) (i : Infix),
      (listing M.dir)[j]? = some (n, f) → n.ifx = some i → j < kk r k + m →
        Held p.dir i f.data) ∧
    (∀ p ∈ pass, ∀ (n : FName) (f : File) (i : Infix),
      (mountNext s act r force now noFaults).1.dir.get n = some f → n.ifx = some i →
        i.rotated = true → Held p.dir i f.data) := by
  obtain ⟨t, hcfg, hi⟩ := FV.FlwC.inv_run hS.cfgC ops hp
  generalize runOps (init cfg []) ops = s at hcfg hi hact
  rw [hact] at hi
  exact rotation_cleanup_crash_safe_inv hS s act _ hcfg hi.1 force now hst h

/-- … in the existential form: there is a directory `d0` without duplicate infixes such that the
    trace of the rotation ends with the points of the pass over `d0`, and at every one of them
    the files the pass keeps are completely on disk. -/
theorem reachable_rotation_cleanup_crash_safe_ex (cfg : Cfg) (r : RotCfg) (k m : Nat)
    (hS : Setting cfg r k m) (ops : List (Op × Nat × Faults)) (hp : PlainHistory ops)
    (act : Active) (hact : (runOps (init cfg []) ops).act = some act) (force : Bool) (now : Nat)
    (hst : act.stamp ≤ now) (h : (force || rotationNecessary r act now) = true) :
    ∃ d0 : Dir, ∃ c0 : Cfg, ∃ link : Option FName, IfxDistinct d0 ∧
      (∃ pre, (mountNextT (runOps (init cfg []) ops) act r force now).2.2 =
        pre ++ (cleanupT now c0 r link d0).2) ∧
      (mountNext (runOps (init cfg []) ops) act r force now noFaults).1.dir =
        (cleanup now c0 r noFaults d0).1 ∧
      (let kk := if r.naming.writesDirect && k = 0 then 1 else k
       ∀ p ∈ (cleanupT now c0 r link d0).2, ∀ (j : Nat) (n : FName) (f : File) (i : Infix),
         (listing d0)[j]? = some (n, f) → n.ifx = some i → j < kk + m → Held p.dir i f.data) := by
  obtain ⟨h1, ⟨pre, h2⟩, h3, h4, -⟩ :=
    reachable_rotation_cleanup_crash_safe cfg r k m hS ops hp act hact force now hst h
  exact ⟨_, cfg, _, h1, ⟨_, h2⟩, h3, h4⟩

/-! ### the operations at the end of a plain history -/

theorem writeRaw_handle (s : St) (a : Active) (b : List Nat) :
    (writeRaw s a b).2.handle = a.handle := by
  unfold writeRaw
  split
  · rfl
  · rename_i c _
    by_cases hfl : a.pending.length + b.length > c <;> by_cases hb : b.length ≥ c <;>
      simp [hfl, hb, flushAct]

theorem get_append_ne (d : Dir) (n x : FName) (b : List Nat) (h : x ≠ n) :
    (d.append n b).get x = d.get x := by
  unfold Dir.append
  cases hg : d.get n with
  | none => rfl
  | some f => exact FV.FlwA.get_set_ne d n x _ h

/-- a write changes no file but the one the writer is mounted on -/
theorem writeRaw_get_ne (s : St) (a : Active) (b : List Nat) (x : FName) (h : x ≠ a.handle) :
    (writeRaw s a b).1.dir.get x = s.dir.get x := by
  unfold writeRaw
  split
  · exact get_append_ne _ _ _ _ h
  · rename_i c _
    by_cases hfl : a.pending.length + b.length > c <;> by_cases hb : b.length ≥ c <;>
      simp [hfl, hb, flushAct, get_append_ne _ _ _ _ h]

/-- **A write that rotates, at the end of a plain history.** (`act.stamp ≤ now` follows from the
    monotone clock of the history.) The points of the write are
    `pre ++ [rot.mounted M] ++ pass ++ [write.before, write.after]`; no infix occurs twice in
    `M.dir`; at every point of `pass` every file the completed pass keeps is completely on
    disk; and so is every rotated file of the directory after the completed write — except the
    file the writer is mounted on after the rotation, which receives `b` only after the pass
    (for the direct namings it carries a rotated-style name). -/
theorem reachable_write_cleanup_crash_safe (cfg : Cfg) (r : RotCfg) (k m : Nat)
    (hS : Setting cfg r k m) (ops : List (Op × Nat × Faults)) (b : List Nat) (now : Nat)
    (hp : PlainHistory (ops ++ [(.write b, now, noFaults)])) (act : Active)
    (hact : (runOps (init cfg []) ops).act = some act)
    (h : rotationNecessary r act now = true) :
    let s := runOps (init cfg []) ops
    let M := mountedSt s act r false now
    let pass := (cleanupT now cfg r M.link M.dir).2
    IfxDistinct M.dir ∧
    (∃ pre p1 p2, (stepT s (.write b) now).2 = pre ++ [pt "rot.mounted" M] ++ pass ++ [p1, p2] ∧
      p1.name = "write.before" ∧ p2.name = "write.after") ∧
    (∀ p ∈ pass, ∀ (j : Nat) (n : FName) (f : File) (i : Infix),
      (listing M.dir)[j]? = some (n, f) → n.ifx = some i → j < kk r k + m →
        Held p.dir i f.data) ∧
    (∀ p ∈ pass, ∀ act', (step s (.write b) now noFaults).1.act = some act' →
      ∀ (n : FName) (f : File) (i : Infix), n ≠ act'.handle →
        (step s (.write b) now noFaults).1.dir.get n = some f → n.ifx = some i →
          i.rotated = true → Held p.dir i f.data) := by
  obtain ⟨hcfg, hst, a, hi⟩ :=
    FV.FlwRC.state_before_active hS.cfgC ops (.write b) now hp rfl act hact
  generalize runOps (init cfg []) ops = s at hcfg hi hact
  intro M pass
  have hdue : (false || rotationNecessary r act now) = true := by simp [h]
  obtain ⟨h1, ⟨pre, h2⟩, -, h4, h5⟩ :=
    rotation_cleanup_crash_safe_inv hS s act a hcfg hi false now hst hdue
  have hrot : s.cfg.rot = some r := by rw [hcfg]; exact hS.rot
  refine ⟨h1, ?_, h4, ?_⟩
  · refine ⟨pre, pt "write.before" (mountNextT s act r false now).1,
      pt "write.after" (writeBufferT s b now).1, ?_, rfl, rfl⟩
    show (writeBufferT s b now).2 = _
    rw [FV.FlwA.writeBufferT_mounted s act b now hact]
    simp only [hrot]
    rw [h2]
  · intro p hp' act' hact' n f i hne hg hi' hr
    obtain ⟨⟨s2, act2, hm, -, -, -⟩, -⟩ :=
      FV.FlwC.mountNext_rot hS.cfgC s act a false now hcfg hi hst hdue
    have hstep : (step s (.write b) now noFaults).1 = FV.FlwC.wrote s2 act2 b := by
      show (writeBuffer s b now noFaults).1 = _
      rw [FV.FlwC.writeBuffer_some_rot s act b now r s2 act2 hact hrot hm]
    rw [hstep] at hact' hg
    have ha' : act'.handle = act2.handle := by
      have : some act' = some { (writeRaw s2 act2 b).2 with
          size := (writeRaw s2 act2 b).2.size + b.length } := hact'.symm.trans rfl
      cases this
      exact writeRaw_handle s2 act2 b
    have hg2 : s2.dir.get n = some f := by
      rw [← writeRaw_get_ne s2 act2 b n (by rw [← ha']; exact hne)]
      exact hg
    apply h5 p hp' n f i _ hi' hr
    rw [hm]
    exact hg2

/-- **A forced rotation (`FileLogWriter::rotate`) at the end of a plain history.** The points
    of the operation are `pre ++ [rot.mounted M] ++ pass`; no infix occurs twice in `M.dir`; at
    every point of `pass` every file the completed pass keeps, and every rotated file of the
    directory after the completed operation, is completely on disk. -/
theorem reachable_rotate_cleanup_crash_safe (cfg : Cfg) (r : RotCfg) (k m : Nat)
    (hS : Setting cfg r k m) (ops : List (Op × Nat × Faults)) (now : Nat)
    (hp : PlainHistory (ops ++ [(.rotate, now, noFaults)])) (act : Active)
    (hact : (runOps (init cfg []) ops).act = some act) :
    let s := runOps (init cfg []) ops
    let M := mountedSt s act r true now
    let pass := (cleanupT now cfg r M.link M.dir).2
    IfxDistinct M.dir ∧
    (∃ pre, (stepT s .rotate now).2 = pre ++ [pt "rot.mounted" M] ++ pass) ∧
    (step s .rotate now noFaults).1.dir = (cleanup now cfg r noFaults M.dir).1 ∧
    (∀ p ∈ pass, ∀ (j : Nat) (n : FName) (f : File) (i : Infix),
      (listing M.dir)[j]? = some (n, f) → n.ifx = some i → j < kk r k + m →
        Held p.dir i f.data) ∧
    (∀ p ∈ pass, ∀ (n : FName) (f : File) (i : Infix),
      (step s .rotate now noFaults).1.dir.get n = some f → n.ifx = some i →
        i.rotated = true → Held p.dir i f.data) := by
  obtain ⟨hcfg, hst, a, hi⟩ :=
    FV.FlwRC.state_before_active hS.cfgC ops .rotate now hp rfl act hact
  generalize runOps (init cfg []) ops = s at hcfg hi hact
  intro M pass
  have hrot : s.cfg.rot = some r := by rw [hcfg]; exact hS.rot
  have hT : (stepT s .rotate now).2 = (mountNextT s act r true now).2.2 := by
    simp [stepT, hact, hrot]
  have hD : (step s .rotate now noFaults).1.dir = (mountNext s act r true now noFaults).1.dir := by
    simp [step, hact, hrot]
  rw [hT, hD]
  exact rotation_cleanup_crash_safe_inv hS s act a hcfg hi true now hst rfl

/-! ### non-vacuity: a write that rotates, compresses and removes -/

/-- `numbers` naming, rotate above 2 bytes, keep 1 plain and 1 compressed file -/
def exReachRot : RotCfg := ⟨some 2, none, .numbers, some (1, 1)⟩

/-- files with a suffix, direct write mode (no `BufWriter`), no symlink -/
def exReachCfg : Cfg :=
  { rot := some exReachRot, append := false, cap := none, symlink := false, hasSuffix := true }

/-- three writes; the second and the third rotate. Afterwards the directory holds `rCURRENT`
    (`[3, 3, 3]`), `r00001` (`[2, 2, 2]`) and `r00000.gz` (`[1, 1, 1]`). -/
def exReachOps : List (Op × Nat × Faults) :=
  [(.write [1, 1, 1], 10, noFaults), (.write [2, 2, 2], 11, noFaults),
   (.write [3, 3, 3], 12, noFaults)]

def exReachSt : St := runOps (init exReachCfg []) exReachOps

def exReachAct : Active := ⟨⟨some .cur, false⟩, ⟨some .cur, false⟩, [], false, 2, 0, 3, 12⟩

theorem exReachSetting : Setting exReachCfg exReachRot 1 1 := ⟨rfl, rfl, rfl⟩

/-- the history with the victim write `[4]` at time 13 is plain -/
theorem exReachPlain : PlainHistory (exReachOps ++ [(.write [4], 13, noFaults)]) := by
  unfold PlainHistory Monotone; decide

theorem exReachActive : (runOps (init exReachCfg []) exReachOps).act = some exReachAct := by decide

/-- the victim write rotates (3 bytes > 2) -/
theorem exReachDue : rotationNecessary exReachRot exReachAct 13 = true := by decide

/-- the state reached, and the directory at `rot.mounted` of the victim write: `rCURRENT` has
    become `r00002`, the new `rCURRENT` is empty; the listing is `[r00002, r00001, r00000.gz]` -/
example :
    ents exReachSt.dir = [(⟨some .cur, false⟩, ⟨[3, 3, 3], 12⟩), (⟨some (.num 0), true⟩, ⟨[1, 1, 1], 12⟩),
      (⟨some (.num 1), false⟩, ⟨[2, 2, 2], 11⟩)] ∧
    ents (mountedSt exReachSt exReachAct exReachRot false 13).dir =
      [(⟨some (.num 2), false⟩, ⟨[3, 3, 3], 12⟩), (⟨some .cur, false⟩, ⟨[], 13⟩),
       (⟨some (.num 0), true⟩, ⟨[1, 1, 1], 12⟩), (⟨some (.num 1), false⟩, ⟨[2, 2, 2], 11⟩)] ∧
    listing (mountedSt exReachSt exReachAct exReachRot false 13).dir =
      [(⟨some (.num 2), false⟩, ⟨[3, 3, 3], 12⟩), (⟨some (.num 1), false⟩, ⟨[2, 2, 2], 11⟩),
       (⟨some (.num 0), true⟩, ⟨[1, 1, 1], 12⟩)] := by decide

/-- the theorem on the victim write -/
example := reachable_write_cleanup_crash_safe exReachCfg exReachRot 1 1 exReachSetting exReachOps
  [4] 13 exReachPlain exReachAct exReachActive exReachDue

/-- the points of the victim write: the rename, the open, `rot.mounted`, then the pass —
    `r00001` (index 1) is compressed, `r00000.gz` (index 2 = k + m) is removed — then the write -/
example : (stepT exReachSt (.write [4]) 13).2.map (·.name) =
    ["rename.before", "rename.after", "rot.infix_chosen", "open.before", "open.after",
     "rot.opened", "rot.mounted",
     "compress.create.before", "compress.created", "compress.copied", "compress.finished",
     "compress.removed", "cleanup.remove.before", "cleanup.remove.after",
     "write.before", "write.after"] := by decide

/-- the pass of the theorem has these seven points, one of them `compress.created` -/
example :
    let M := mountedSt exReachSt exReachAct exReachRot false 13
    (cleanupT 13 exReachCfg exReachRot M.link M.dir).2.map (·.name) =
      ["compress.create.before", "compress.created", "compress.copied", "compress.finished",
       "compress.removed", "cleanup.remove.before", "cleanup.remove.after"] ∧
    ((cleanupT 13 exReachCfg exReachRot M.link M.dir).2.filter
      (·.name = "compress.created")).length = 1 := by decide

/-- what the theorem gives at EVERY one of these points: `r00002` (index 0) and `r00001`
    (index 1) are completely on disk -/
example :
    let M := mountedSt exReachSt exReachAct exReachRot false 13
    ∀ p ∈ (cleanupT 13 exReachCfg exReachRot M.link M.dir).2,
      Held p.dir (.num 2) [3, 3, 3] ∧ Held p.dir (.num 1) [2, 2, 2] := by
  intro M p hp
  obtain ⟨-, -, h3, -⟩ := reachable_write_cleanup_crash_safe exReachCfg exReachRot 1 1
    exReachSetting exReachOps [4] 13 exReachPlain exReachAct exReachActive exReachDue
  exact ⟨h3 p hp 0 ⟨some (.num 2), false⟩ ⟨[3, 3, 3], 12⟩ (.num 2) (by decide) rfl (by decide),
    h3 p hp 1 ⟨some (.num 1), false⟩ ⟨[2, 2, 2], 11⟩ (.num 1) (by decide) rfl (by decide)⟩

/-- at `compress.created` (point 1) `r00001` is there plain, its compressed twin exists but is
    empty; at `compress.removed` (point 4) it is there only compressed -/
example :
    let M := mountedSt exReachSt exReachAct exReachRot false 13
    (cleanupT 13 exReachCfg exReachRot M.link M.dir).2.map (fun p =>
      (p.dir.get ⟨some (.num 1), false⟩, p.dir.get ⟨some (.num 1), true⟩)) =
    [(some ⟨[2, 2, 2], 11⟩, none), (some ⟨[2, 2, 2], 11⟩, some ⟨[], 13⟩),
     (some ⟨[2, 2, 2], 11⟩, some ⟨[], 13⟩), (some ⟨[2, 2, 2], 11⟩, some ⟨[2, 2, 2], 13⟩),
     (none, some ⟨[2, 2, 2], 13⟩), (none, some ⟨[2, 2, 2], 13⟩),
     (none, some ⟨[2, 2, 2], 13⟩)] := by decide

/-- the bound `kk + m` is sharp in a reachable run: `r00000` (index 2) is gone at the last
    point of the pass, plain and compressed -/
example :
    let M := mountedSt exReachSt exReachAct exReachRot false 13
    ((cleanupT 13 exReachCfg exReachRot M.link M.dir).2.map (fun p =>
      (p.name, p.dir.get ⟨some (.num 0), false⟩, p.dir.get ⟨some (.num 0), true⟩))).getLast? =
    some ("cleanup.remove.after", none, none) := by decide

/-- the directory after the completed write: its rotated files `r00001.gz`, `r00002` are the
    files the last conjunct speaks about; `rCURRENT` has received the record -/
example : ents (step exReachSt (.write [4]) 13 noFaults).1.dir =
    [(⟨some .cur, false⟩, ⟨[4], 13⟩), (⟨some (.num 1), true⟩, ⟨[2, 2, 2], 13⟩),
     (⟨some (.num 2), false⟩, ⟨[3, 3, 3], 12⟩)] := by decide

/-- the forced rotation instead of the write: same pass -/
example := reachable_rotate_cleanup_crash_safe exReachCfg exReachRot 1 1 exReachSetting exReachOps
  13 (by unfold PlainHistory Monotone; decide) exReachAct exReachActive

example : (stepT exReachSt .rotate 13).2.map (·.name) =
    ["rename.before", "rename.after", "rot.infix_chosen", "open.before", "open.after",
     "rot.opened", "rot.mounted",
     "compress.create.before", "compress.created", "compress.copied", "compress.finished",
     "compress.removed", "cleanup.remove.before", "cleanup.remove.after"] := by decide

/-- **Why the last conjunct of the write theorem excludes the file the writer is mounted on**:
    with a direct naming that file (`r00003`) carries a rotated-style name; it is empty during
    the pass and holds the record `[4]` only in the directory after the completed write. -/
example :
    let rD : RotCfg := ⟨some 2, none, .numbersDirect, some (1, 1)⟩
    let cD : Cfg := { exReachCfg with rot := some rD }
    let s := runOps (init cD []) exReachOps
    ∀ act, s.act = some act →
      (step s (.write [4]) 13 noFaults).1.dir.get ⟨some (.num 3), false⟩ = some ⟨[4], 13⟩ ∧
      (cleanupT 13 cD rD (mountedSt s act rD false 13).link
        (mountedSt s act rD false 13).dir).2.map (fun p => p.dir.get ⟨some (.num 3), false⟩) =
        [some ⟨[], 13⟩, some ⟨[], 13⟩, some ⟨[], 13⟩, some ⟨[], 13⟩, some ⟨[], 13⟩,
         some ⟨[], 13⟩, some ⟨[], 13⟩] := by
  intro rD cD s act hact
  have : s.act = some ⟨⟨some (.num 2), false⟩, ⟨some (.num 2), false⟩, [], false, 2, 0, 3, 12⟩ := by
    decide
  rw [this] at hact
  cases hact
  decide

end FV.C11
