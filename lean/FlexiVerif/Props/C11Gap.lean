import FlexiVerif.Props.C11
import FlexiVerif.Lemmas.FlwGap
/-
  C11, "no gap" — the points recorded by `Model/FlwTrace.lean` leave no gap: between two
  consecutive recorded on-disk states of a write or of a forced rotation (the state before the
  operation and the state after it included) at most ONE atomic file-system effect takes place.
  This is what justifies treating a process kill at an arbitrary instant as a kill at one of the
  recorded points.

  * `OneEffect`: one system call (or nothing) on a (directory, symlink) pair.
  * `points_leave_no_gap`: the claim, direct write mode (`cap = none`), for EVERY state.
  * `OneEffectTight` / `points_leave_no_gap_partial`: the same without the one disjunct of
    `OneEffect` in which the model is coarser than the system call (`File::create` over an
    existing `.gz` file: the model also re-stamps the file), under the premise that no infix
    occurs twice in the directory when a cleanup pass starts (`IfxDistinct`, the premise of
    `Props/C11Cleanup.lean` and of `Props/C07.lean::compress_lossless`).
  Generic lemmas (one per instrumented function): `Lemmas/FlwGap.lean`.
-/
namespace FV.C11
open FV FV.Flw FV.Gap
open FV.FlwA (openS openPts cleanupS cleanupPts)
open FV.FlwL (IfxNe IfxDistinct)
open FV.FlwCC (gzOf)

/-- one atomic file-system effect (or none) between two on-disk states -/
def OneEffect (x y : Dir × Option FName) : Prop :=
  -- nothing
  y = x ∨
  -- open(O_CREAT) creates an empty file
  (y.2 = x.2 ∧ ∃ n f, x.1.get n = none ∧ f.data = [] ∧ y.1 = x.1.set n f) ∨
  -- open(O_TRUNC) of an existing file (open without append)
  (y.2 = x.2 ∧ ∃ n f0, x.1.get n = some f0 ∧ y.1 = x.1.set n { f0 with data := [] }) ∨
  -- `File::create` of a `.gz` name that exists already (left behind by a killed or failed
  -- compression): one open(O_CREAT|O_TRUNC); the model also stamps the file with the current time
  (y.2 = x.2 ∧ ∃ n f0 c, n.gz = true ∧ x.1.get n = some f0 ∧ y.1 = x.1.set n ⟨[], c⟩) ∨
  -- one write(2) appending bytes to one file
  (y.2 = x.2 ∧ ∃ n b, y.1 = x.1.append n b) ∨
  -- rename(2) (a missing source changes nothing)
  (y.2 = x.2 ∧ ∃ a b, y.1 = (x.1.rename a b).1) ∨
  -- unlink(2)
  (y.2 = x.2 ∧ ∃ n, y.1 = x.1.erase n) ∨
  -- a `.gz` file becomes readable: the encoder is finished (before that its content is not
  -- readable and is represented as empty)
  (y.2 = x.2 ∧ ∃ n f0 data, x.1.get n = some f0 ∧ f0.data = [] ∧ n.gz = true ∧
    y.1 = x.1.set n { f0 with data := data }) ∨
  -- the symlink is removed
  (y.1 = x.1 ∧ y.2 = none) ∨
  -- the symlink is created
  (y.1 = x.1 ∧ x.2 = none ∧ ∃ n, y.2 = some n)

/-- `OneEffect` without the disjunct for `File::create` over an existing `.gz` file -/
def OneEffectTight (x y : Dir × Option FName) : Prop :=
  y = x ∨
  (y.2 = x.2 ∧ ∃ n f, x.1.get n = none ∧ f.data = [] ∧ y.1 = x.1.set n f) ∨
  (y.2 = x.2 ∧ ∃ n f0, x.1.get n = some f0 ∧ y.1 = x.1.set n { f0 with data := [] }) ∨
  (y.2 = x.2 ∧ ∃ n b, y.1 = x.1.append n b) ∨
  (y.2 = x.2 ∧ ∃ a b, y.1 = (x.1.rename a b).1) ∨
  (y.2 = x.2 ∧ ∃ n, y.1 = x.1.erase n) ∨
  (y.2 = x.2 ∧ ∃ n f0 data, x.1.get n = some f0 ∧ f0.data = [] ∧ n.gz = true ∧
    y.1 = x.1.set n { f0 with data := data }) ∨
  (y.1 = x.1 ∧ y.2 = none) ∨
  (y.1 = x.1 ∧ x.2 = none ∧ ∃ n, y.2 = some n)

/-- the tight relation is the relation minus one disjunct -/
theorem OneEffectTight.oneEffect {x y : Dir × Option FName} (h : OneEffectTight x y) :
    OneEffect x y := by
  rcases h with h | h | h | h | h | h | h | h | h
  · exact Or.inl h
  · exact Or.inr (Or.inl h)
  · exact Or.inr (Or.inr (Or.inl h))
  · exact Or.inr (Or.inr (Or.inr (Or.inr (Or.inl h))))
  · exact Or.inr (Or.inr (Or.inr (Or.inr (Or.inr (Or.inl h)))))
  · exact Or.inr (Or.inr (Or.inr (Or.inr (Or.inr (Or.inr (Or.inl h))))))
  · exact Or.inr (Or.inr (Or.inr (Or.inr (Or.inr (Or.inr (Or.inr (Or.inl h)))))))
  · exact Or.inr (Or.inr (Or.inr (Or.inr (Or.inr (Or.inr (Or.inr (Or.inr (Or.inl h))))))))
  · exact Or.inr (Or.inr (Or.inr (Or.inr (Or.inr (Or.inr (Or.inr (Or.inr (Or.inr h))))))))

/-! ### the effects, tight -/

theorem OneEffect.refl (x : Dir × Option FName) : OneEffect x x := Or.inl rfl
theorem OneEffectTight.refl (x : Dir × Option FName) : OneEffectTight x x := Or.inl rfl

theorem oet_create (d : Dir) (l : Option FName) (n : FName) (f : File) (h : d.get n = none)
    (hf : f.data = []) : OneEffectTight (d, l) (d.set n f, l) :=
  Or.inr (Or.inl ⟨rfl, n, f, h, hf, rfl⟩)

theorem oet_trunc (d : Dir) (l : Option FName) (n : FName) (f0 : File) (h : d.get n = some f0) :
    OneEffectTight (d, l) (d.set n { f0 with data := [] }, l) :=
  Or.inr (Or.inr (Or.inl ⟨rfl, n, f0, h, rfl⟩))

theorem oet_append (d : Dir) (l : Option FName) (n : FName) (b : List Nat) :
    OneEffectTight (d, l) (d.append n b, l) :=
  Or.inr (Or.inr (Or.inr (Or.inl ⟨rfl, n, b, rfl⟩)))

theorem oet_rename (d : Dir) (l : Option FName) (a b : FName) :
    OneEffectTight (d, l) ((d.rename a b).1, l) :=
  Or.inr (Or.inr (Or.inr (Or.inr (Or.inl ⟨rfl, a, b, rfl⟩))))

theorem oet_erase (d : Dir) (l : Option FName) (n : FName) :
    OneEffectTight (d, l) (d.erase n, l) :=
  Or.inr (Or.inr (Or.inr (Or.inr (Or.inr (Or.inl ⟨rfl, n, rfl⟩)))))

theorem oet_gzFinish (d : Dir) (l : Option FName) (n : FName) (c : Nat) (data : List Nat)
    (hg : n.gz = true) : OneEffectTight (d.set n ⟨[], c⟩, l) (d.set n ⟨data, c⟩, l) :=
  Or.inr (Or.inr (Or.inr (Or.inr (Or.inr (Or.inr (Or.inl
    ⟨rfl, n, ⟨[], c⟩, data, FV.FlwA.get_set_self d n _, rfl, hg, (set_set d n _ _).symm⟩))))))

theorem oet_linkRemove (d : Dir) (l : Option FName) : OneEffectTight (d, l) (d, none) :=
  Or.inr (Or.inr (Or.inr (Or.inr (Or.inr (Or.inr (Or.inr (Or.inl ⟨rfl, rfl⟩)))))))

theorem oet_linkCreate (d : Dir) (n : FName) : OneEffectTight (d, none) (d, some n) :=
  Or.inr (Or.inr (Or.inr (Or.inr (Or.inr (Or.inr (Or.inr (Or.inr ⟨rfl, rfl, n, rfl⟩)))))))

/-- … and the one effect that is not tight -/
theorem oe_gzRecreate (d : Dir) (l : Option FName) (n : FName) (f0 : File) (c : Nat)
    (hg : n.gz = true) (h : d.get n = some f0) : OneEffect (d, l) (d.set n ⟨[], c⟩, l) :=
  Or.inr (Or.inr (Or.inr (Or.inl ⟨rfl, n, f0, c, hg, h, rfl⟩)))

/-! ### the cleanup pass -/

/-- The pass on ANY list and directory: per removed file the points `cleanup.remove.before/after`
    with one unlink in between; per compressed file the five `compress.*` points with, in this
    order, the creation of the (empty) twin, nothing, the twin becoming readable, the unlink of
    the original. If the twin exists already, its creation is the one step that is not tight. -/
theorem cleanupLoopT_chain (now : Nat) (hs : Bool) (k m : Nat) (link : Option FName)
    (l : List (FName × File)) : ∀ (i : Nat) (d : Dir) (acc : List Pt),
    ∃ pts, (cleanupLoopT now hs k m link l i d acc).2 = acc ++ pts ∧
      Tr OneEffect (d, link) (pts.map pst) ((cleanupLoopT now hs k m link l i d acc).1, link) := by
  induction l with
  | nil => intro i d acc; exact ⟨[], by simp [cleanupLoopT], by simp [cleanupLoopT]⟩
  | cons x rest ih =>
    intro i d acc
    obtain ⟨n, f⟩ := x
    rw [cleanupLoopT]
    by_cases h1 : i ≥ k + m
    · simp only [h1, if_true]
      obtain ⟨pts, e, t⟩ := ih (i + 1) (d.erase n)
        (acc ++ [⟨"cleanup.remove.before", d, link⟩, ⟨"cleanup.remove.after", d.erase n, link⟩])
      refine ⟨[⟨"cleanup.remove.before", d, link⟩, ⟨"cleanup.remove.after", d.erase n, link⟩] ++ pts,
        by rw [e]; simp, ?_⟩
      rw [List.map_append]
      refine Tr.append (y := (d.erase n, link)) ?_ t
      simp only [List.map_cons, List.map_nil, pst_mk, tr_cons, tr_nil, and_true]
      exact ⟨OneEffect.refl _, (oet_erase _ _ _).oneEffect⟩
    · simp only [h1, if_false]
      by_cases h2 : i ≥ k
      · simp only [h2, if_true]
        by_cases h3 : (n.gz || !hs) = true
        · simp only [h3, if_true]
          exact ih _ _ _
        · simp only [h3, if_false, Bool.false_eq_true]
          obtain ⟨pts, e, t⟩ := ih (i + 1) ((d.set (gzOf n) ⟨f.data, now⟩).erase n)
            (acc ++ [⟨"compress.create.before", d, link⟩,
              ⟨"compress.created", d.set (gzOf n) ⟨[], now⟩, link⟩,
              ⟨"compress.copied", d.set (gzOf n) ⟨[], now⟩, link⟩,
              ⟨"compress.finished", d.set (gzOf n) ⟨f.data, now⟩, link⟩,
              ⟨"compress.removed", (d.set (gzOf n) ⟨f.data, now⟩).erase n, link⟩])
          refine ⟨[⟨"compress.create.before", d, link⟩,
              ⟨"compress.created", d.set (gzOf n) ⟨[], now⟩, link⟩,
              ⟨"compress.copied", d.set (gzOf n) ⟨[], now⟩, link⟩,
              ⟨"compress.finished", d.set (gzOf n) ⟨f.data, now⟩, link⟩,
              ⟨"compress.removed", (d.set (gzOf n) ⟨f.data, now⟩).erase n, link⟩] ++ pts,
            by rw [e]; simp, ?_⟩
          rw [List.map_append]
          refine Tr.append (y := ((d.set (gzOf n) ⟨f.data, now⟩).erase n, link)) ?_ t
          simp only [List.map_cons, List.map_nil, pst_mk, tr_cons, tr_nil, and_true]
          refine ⟨OneEffect.refl _, ?_, OneEffect.refl _, (oet_gzFinish _ _ _ _ _ rfl).oneEffect,
            (oet_erase _ _ _).oneEffect⟩
          cases hg : d.get (gzOf n) with
          | none => exact (oet_create _ _ _ _ hg rfl).oneEffect
          | some f0 => exact oe_gzRecreate _ _ _ f0 _ rfl hg
      · simp only [h2, if_false]
        exact ih _ _ _

theorem cleanupT_chain (now : Nat) (cfg : Cfg) (r : RotCfg) (link : Option FName) (d : Dir) :
    Tr OneEffect (d, link) ((cleanupPts now cfg r link d).map pst) (cleanupS now cfg r d, link) := by
  rw [← cleanupS_eq now cfg r link d]
  unfold cleanupPts cleanupT
  cases r.cleanup with
  | none => simp
  | some km =>
    obtain ⟨k, m⟩ := km
    obtain ⟨pts, e, t⟩ := cleanupLoopT_chain now cfg.hasSuffix
      (if r.naming.writesDirect && k = 0 then 1 else k) m link (listing d) 0 d []
    simp only [List.nil_append] at e
    simp only [e]
    exact t

/-- The pass on a list without duplicate infixes whose entries are in the directory and whose
    plain entries have no compressed twin there: every step is tight. -/
theorem cleanupLoopT_chain_tight (now : Nat) (hs : Bool) (k m : Nat) (link : Option FName)
    (l : List (FName × File)) (hp : l.Pairwise IfxNe) : ∀ (i : Nat) (d : Dir) (acc : List Pt),
    (∀ e ∈ l, d.get e.1 = some e.2) → (∀ e ∈ l, e.1.gz = false → d.get (gzOf e.1) = none) →
    ∃ pts, (cleanupLoopT now hs k m link l i d acc).2 = acc ++ pts ∧
      Tr OneEffectTight (d, link) (pts.map pst)
        ((cleanupLoopT now hs k m link l i d acc).1, link) := by
  induction l with
  | nil => intro i d acc _ _; exact ⟨[], by simp [cleanupLoopT], by simp [cleanupLoopT]⟩
  | cons x rest ih =>
    intro i d acc hget hfresh
    obtain ⟨n, f⟩ := x
    obtain ⟨hhead, hrest⟩ := List.pairwise_cons.1 hp
    have hr : ∀ e ∈ rest, d.get e.1 = some e.2 := fun e he => hget e (List.mem_cons_of_mem _ he)
    -- a step that is `Ok` (touches only `n` and its twin) keeps both premises for the rest
    have keep : ∀ dX : Dir, FV.FlwCC.Ok k m n f i d dX →
        (∀ e ∈ rest, dX.get e.1 = some e.2) ∧
        (∀ e ∈ rest, e.1.gz = false → dX.get (gzOf e.1) = none) := by
      intro dX hok
      refine ⟨FV.FlwCC.ok_rest k m n f rest i d dX hhead hr hok, ?_⟩
      intro e he hgz
      rw [hok.1 (gzOf e.1) (fun h => hhead e he (congrArg FName.ifx h).symm)
        (fun h => hhead e he (congrArg FName.ifx h).symm)]
      exact hfresh e (List.mem_cons_of_mem _ he) hgz
    rw [cleanupLoopT]
    by_cases h1 : i ≥ k + m
    · simp only [h1, if_true]
      obtain ⟨hg1, hg2⟩ := keep _ (FV.FlwCC.ok_erase k m n f i d h1)
      obtain ⟨pts, e, t⟩ := ih hrest (i + 1) (d.erase n)
        (acc ++ [⟨"cleanup.remove.before", d, link⟩, ⟨"cleanup.remove.after", d.erase n, link⟩])
        hg1 hg2
      refine ⟨[⟨"cleanup.remove.before", d, link⟩, ⟨"cleanup.remove.after", d.erase n, link⟩] ++ pts,
        by rw [e]; simp, ?_⟩
      rw [List.map_append]
      refine Tr.append (y := (d.erase n, link)) ?_ t
      simp only [List.map_cons, List.map_nil, pst_mk, tr_cons, tr_nil, and_true]
      exact ⟨OneEffectTight.refl _, oet_erase _ _ _⟩
    · simp only [h1, if_false]
      have hself := keep d (FV.FlwCC.ok_self k m n f i d (hget (n, f) List.mem_cons_self))
      by_cases h2 : i ≥ k
      · simp only [h2, if_true]
        by_cases h3 : (n.gz || !hs) = true
        · simp only [h3, if_true]
          exact ih hrest _ _ _ hself.1 hself.2
        · have hgz : n.gz = false := by
            cases hgz : n.gz
            · rfl
            · rw [hgz] at h3
              exact absurd rfl h3
          simp only [h3, if_false, Bool.false_eq_true]
          obtain ⟨hg1, hg2⟩ := keep _ (FV.FlwCC.ok_removed k m n f i d now hgz)
          obtain ⟨pts, e, t⟩ := ih hrest (i + 1) ((d.set (gzOf n) ⟨f.data, now⟩).erase n)
            (acc ++ [⟨"compress.create.before", d, link⟩,
              ⟨"compress.created", d.set (gzOf n) ⟨[], now⟩, link⟩,
              ⟨"compress.copied", d.set (gzOf n) ⟨[], now⟩, link⟩,
              ⟨"compress.finished", d.set (gzOf n) ⟨f.data, now⟩, link⟩,
              ⟨"compress.removed", (d.set (gzOf n) ⟨f.data, now⟩).erase n, link⟩]) hg1 hg2
          refine ⟨[⟨"compress.create.before", d, link⟩,
              ⟨"compress.created", d.set (gzOf n) ⟨[], now⟩, link⟩,
              ⟨"compress.copied", d.set (gzOf n) ⟨[], now⟩, link⟩,
              ⟨"compress.finished", d.set (gzOf n) ⟨f.data, now⟩, link⟩,
              ⟨"compress.removed", (d.set (gzOf n) ⟨f.data, now⟩).erase n, link⟩] ++ pts,
            by rw [e]; simp, ?_⟩
          rw [List.map_append]
          refine Tr.append (y := ((d.set (gzOf n) ⟨f.data, now⟩).erase n, link)) ?_ t
          simp only [List.map_cons, List.map_nil, pst_mk, tr_cons, tr_nil, and_true]
          exact ⟨OneEffectTight.refl _,
            oet_create _ _ _ _ (hfresh (n, f) List.mem_cons_self hgz) rfl,
            OneEffectTight.refl _, oet_gzFinish _ _ _ _ _ rfl, oet_erase _ _ _⟩
      · simp only [h2, if_false]
        exact ih hrest _ _ _ hself.1 hself.2

/-- in a directory without duplicate infixes no plain rotated file has a compressed twin -/
theorem no_twin_of_distinct (d0 : Dir) (hd : IfxDistinct d0) (e : FName × File)
    (he : e ∈ listing d0) (hgz : e.1.gz = false) : d0.get (gzOf e.1) = none := by
  cases hg : d0.get (gzOf e.1) with
  | none => rfl
  | some g =>
    exfalso
    have h1 := FV.FlwA.mem_of_get d0 _ g hg
    have h2 := ((FV.FlwL.mem_listing d0 e).1 he).1
    have hne : e ≠ (gzOf e.1, g) := by
      intro h
      have := congrArg (fun x : FName × File => x.1.gz) h
      simp only [hgz] at this
      cases this
    exact FV.FlwL.pairwise_rel_of_mem (R := IfxNe) (fun h => Ne.symm h) d0 hd e (gzOf e.1, g)
      h2 h1 hne rfl

/-- **the cleanup pass on a directory without duplicate infixes: every step is tight** -/
theorem cleanupT_chain_tight (now : Nat) (cfg : Cfg) (r : RotCfg) (link : Option FName) (d : Dir)
    (hd : IfxDistinct d) :
    Tr OneEffectTight (d, link) ((cleanupPts now cfg r link d).map pst)
      (cleanupS now cfg r d, link) := by
  rw [← cleanupS_eq now cfg r link d]
  unfold cleanupPts cleanupT
  cases r.cleanup with
  | none => simp
  | some km =>
    obtain ⟨k, m⟩ := km
    obtain ⟨pts, e, t⟩ := cleanupLoopT_chain_tight now cfg.hasSuffix
      (if r.naming.writesDirect && k = 0 then 1 else k) m link (listing d)
      (FV.FlwL.listing_pairwise d hd) 0 d [] (FV.FlwCC.listing_get d hd)
      (no_twin_of_distinct d hd)
    simp only [List.nil_append] at e
    simp only [e]
    exact t

/-! ### the two instances of the rules -/

theorem rules : Rules OneEffect (fun _ => True) where
  refl := OneEffect.refl
  create d l n f h hf := (oet_create d l n f h hf).oneEffect
  trunc d l n f0 h := (oet_trunc d l n f0 h).oneEffect
  append d l n b := (oet_append d l n b).oneEffect
  rename d l a b := (oet_rename d l a b).oneEffect
  linkRemove d l := (oet_linkRemove d l).oneEffect
  linkCreate d n := (oet_linkCreate d n).oneEffect
  cleanup now cfg r link d _ := cleanupT_chain now cfg r link d

theorem rulesTight : Rules OneEffectTight IfxDistinct where
  refl := OneEffectTight.refl
  create := oet_create
  trunc := oet_trunc
  append := oet_append
  rename := oet_rename
  linkRemove := oet_linkRemove
  linkCreate := oet_linkCreate
  cleanup := cleanupT_chain_tight

/-! ### the theorems -/

/-- **The recorded points leave no gap** (direct write mode). Between two consecutive recorded
    on-disk states of a write or a forced rotation — the state before the operation and the state
    after it included — at most one atomic file-system effect takes place. The only hypothesis is
    the configuration (`cap = none`: no `BufWriter`; it is needed for the step from `write.before`
    to `write.after` only). Nothing is assumed about the directory, the writer (`act`, in
    particular `pending`: a flush is one write(2) whatever it writes) or the symlink, so the
    statement holds for every state, reachable or left behind by a kill. -/
theorem points_leave_no_gap (s : St) (op : Op) (now : Nat)
    (hop : (∃ b, op = .write b) ∨ op = .rotate) (hcap : s.cfg.cap = none) :
    let r := stepT s op now
    Chain OneEffect
      (((s.dir, s.link) :: r.2.map (fun p => (p.dir, p.link))) ++ [(r.1.dir, r.1.link)]) :=
  Tr.chain OneEffect.refl (stepT_chain rules s op now hop hcap (fun _ _ _ => trivial))

/-- … and the state the operation returns is the last recorded state (nothing happens behind the
    last point), the form in which the traces of the parts compose -/
theorem points_end_in_result (s : St) (op : Op) (now : Nat)
    (hop : (∃ b, op = .write b) ∨ op = .rotate) (hcap : s.cfg.cap = none) :
    Tr OneEffect (s.dir, s.link) ((stepT s op now).2.map (fun p => (p.dir, p.link)))
      ((stepT s op now).1.dir, (stepT s op now).1.link) :=
  stepT_chain rules s op now hop hcap (fun _ _ _ => trivial)

/-- **The same with the tight relation**, under the premise that no infix occurs twice in the
    directory at the points at which a cleanup pass starts (`open.after` for the pass of the
    initialisation, `rot.mounted` for the pass of a rotation). What the premise excludes: a plain
    rotated file that is compressed although its `.gz` twin exists already — the directory a
    compression killed between `compress.created` and `compress.removed` (or failing at the
    unlink) leaves behind. There the step `compress.create.before → compress.created` is still
    ONE system call (`File::create` truncates the twin), but the model re-stamps the file, which
    no disjunct of `OneEffectTight` describes. -/
theorem points_leave_no_gap_partial (s : St) (op : Op) (now : Nat)
    (hop : (∃ b, op = .write b) ∨ op = .rotate) (hcap : s.cfg.cap = none)
    (hstart : ∀ p ∈ (stepT s op now).2, (p.name = "open.after" ∨ p.name = "rot.mounted") →
      IfxDistinct p.dir) :
    let r := stepT s op now
    Chain OneEffectTight
      (((s.dir, s.link) :: r.2.map (fun p => (p.dir, p.link))) ++ [(r.1.dir, r.1.link)]) :=
  Tr.chain OneEffectTight.refl (stepT_chain rulesTight s op now hop hcap hstart)

/-! ### non-vacuity: a write that rotates, compresses one file and removes two -/

/-- Numbers naming, rotate above 5 bytes, keep 1 plain and 1 compressed file, symlink on, direct
    mode. The writer is on `rCURRENT` (6 bytes: a rotation is due); `r00000.gz`, `r00001`,
    `r00002` exist. -/
def exS : St :=
  { dir := [(⟨some .cur, false⟩, ⟨[1, 2, 3, 4, 5, 6], 5⟩), (⟨some (.num 0), true⟩, ⟨[10], 0⟩),
            (⟨some (.num 1), false⟩, ⟨[11], 1⟩), (⟨some (.num 2), false⟩, ⟨[12, 12], 2⟩)],
    cfg := ⟨some ⟨some 5, none, .numbers, some (1, 1)⟩, false, none, true, true⟩,
    act := some ⟨⟨some .cur, false⟩, ⟨some .cur, false⟩, [], false, 3, 0, 6, 5⟩,
    link := some ⟨some .cur, false⟩, errs := [] }

/-- the hypotheses of both theorems hold; the write `[7]` at time 9 goes through 19 points:
    `rCURRENT → r00003`, new `rCURRENT` (symlink replaced), `r00002` compressed, `r00001` and
    `r00000.gz` removed, the write -/
example :
    exS.cfg.cap = none ∧
    (∀ p ∈ (stepT exS (.write [7]) 9).2, (p.name = "open.after" ∨ p.name = "rot.mounted") →
      IfxDistinct p.dir) ∧
    (stepT exS (.write [7]) 9).2.map (·.name) =
      ["rename.before", "rename.after", "rot.infix_chosen", "symlink.removed", "open.before",
       "open.after", "rot.opened", "rot.mounted",
       "compress.create.before", "compress.created", "compress.copied", "compress.finished",
       "compress.removed",
       "cleanup.remove.before", "cleanup.remove.after", "cleanup.remove.before",
       "cleanup.remove.after",
       "write.before", "write.after"] ∧
    (((exS.dir, exS.link) :: (stepT exS (.write [7]) 9).2.map (fun p => (p.dir, p.link))) ++
      [((stepT exS (.write [7]) 9).1.dir, (stepT exS (.write [7]) 9).1.link)]).length = 21 := by
  decide

/-- the theorems on this write: a chain of 21 on-disk states -/
example := points_leave_no_gap exS (.write [7]) 9 (Or.inl ⟨_, rfl⟩) rfl
example := points_leave_no_gap_partial exS (.write [7]) 9 (Or.inl ⟨_, rfl⟩) rfl (by decide)

/-! ### the premise of the tight form is needed -/

/-- A tight effect never re-stamps a file in place: if a name holds files with different birth
    times before and after, the file after was moved there (it existed before under another
    name, which is gone afterwards). -/
theorem tight_stamp {x y : Dir × Option FName} (h : OneEffectTight x y) (g : FName) (f0 f1 : File)
    (hx : x.1.get g = some f0) (hy : y.1.get g = some f1) (hc : f0.created ≠ f1.created) :
    ∃ a, x.1.get a = some f1 ∧ y.1.get a = none := by
  -- `same`: the name holds the same file before and after — impossible
  have same : y.1.get g = x.1.get g → False := by
    intro h
    rw [hx, hy] at h
    cases h
    exact hc rfl
  -- `setg`: the file before with some other content — impossible as well
  have setOther : ∀ (n : FName) (v : File), n ≠ g → y.1 = x.1.set n v → False := by
    intro n v hn hy1
    exact same (by rw [hy1, FV.FlwA.get_set_ne _ _ _ _ (Ne.symm hn)])
  have setSelf : ∀ (v : File), v.created = f0.created → y.1 = x.1.set g v → False := by
    intro v hv hy1
    rw [hy1, FV.FlwA.get_set_self] at hy
    cases hy
    exact hc hv.symm
  rcases h with h | ⟨-, n, f, hn, -, hy1⟩ | ⟨-, n, f, hn, hy1⟩ | ⟨-, n, b, hy1⟩ | ⟨-, a, b, hy1⟩ |
    ⟨-, n, hy1⟩ | ⟨-, n, f, data, hn, -, -, hy1⟩ | ⟨hy1, -⟩ | ⟨hy1, -⟩
  · exact (same (by rw [h])).elim
  · by_cases hng : n = g
    · subst hng; rw [hn] at hx; cases hx
    · exact (setOther n f hng hy1).elim
  · by_cases hng : n = g
    · subst hng; rw [hn] at hx; cases hx
      exact (setSelf { f0 with data := [] } rfl hy1).elim
    · exact (setOther n _ hng hy1).elim
  · unfold Dir.append at hy1
    cases hn : x.1.get n with
    | none => simp only [hn] at hy1; exact (same (by rw [hy1])).elim
    | some f =>
      simp only [hn] at hy1
      by_cases hng : n = g
      · subst hng; rw [hn] at hx; cases hx
        exact (setSelf { f0 with data := f0.data ++ b } rfl hy1).elim
      · exact (setOther n _ hng hy1).elim
  · unfold Dir.rename at hy1
    cases ha : x.1.get a with
    | none => simp only [ha] at hy1; exact (same (by rw [hy1])).elim
    | some v =>
      simp only [ha] at hy1
      by_cases hbg : b = g
      · subst hbg
        have hy' := hy
        rw [hy1, FV.FlwA.get_set_self] at hy'
        cases hy'
        have hab : a ≠ b := by
          intro hab
          subst hab
          rw [ha] at hx
          cases hx
          exact hc rfl
        refine ⟨a, ha, ?_⟩
        rw [hy1, FV.FlwA.get_set_ne _ _ _ _ hab, FV.FlwA.get_erase_self]
      · exfalso
        rw [hy1, FV.FlwA.get_set_ne _ _ _ _ (Ne.symm hbg)] at hy
        by_cases hag : a = g
        · subst hag; rw [FV.FlwA.get_erase_self] at hy; cases hy
        · rw [FV.FlwA.get_erase_ne _ _ _ (Ne.symm hag)] at hy
          rw [hx] at hy; cases hy
          exact hc rfl
  · exfalso
    by_cases hng : n = g
    · subst hng; rw [hy1, FV.FlwA.get_erase_self] at hy; cases hy
    · exact same (by rw [hy1, FV.FlwA.get_erase_ne _ _ _ (Ne.symm hng)])
  · by_cases hng : n = g
    · subst hng; rw [hn] at hx; cases hx
      exact (setSelf { f0 with data := data } rfl hy1).elim
    · exact (setOther n _ hng hy1).elim
  · exact (same (by rw [hy1])).elim
  · exact (same (by rw [hy1])).elim

/-- `exS` with a left-over twin `r00002.gz` (stamp 3) next to `r00002` — what a compression
    killed at `compress.finished` leaves behind -/
def exTwin : St :=
  { exS with dir :=
      [(⟨some .cur, false⟩, ⟨[1, 2, 3, 4, 5, 6], 5⟩), (⟨some (.num 0), true⟩, ⟨[10], 0⟩),
       (⟨some (.num 1), false⟩, ⟨[11], 1⟩), (⟨some (.num 2), false⟩, ⟨[12, 12], 2⟩),
       (⟨some (.num 2), true⟩, ⟨[12, 12], 3⟩)] }

/-- On `exTwin` the same write compresses `r00002` over its twin: from point 8
    (`compress.create.before`) to point 9 (`compress.created`) the twin `⟨[12, 12], 3⟩` becomes
    `⟨[], 9⟩` — truncated AND re-stamped. The premise of `points_leave_no_gap_partial` fails at
    `rot.mounted`, and this step is no tight effect (it is the fourth disjunct of `OneEffect`). -/
example :
    let tr := (stepT exTwin (.write [7]) 9).2
    (tr.map (·.name))[8]? = some "compress.create.before" ∧
    (tr.map (·.name))[9]? = some "compress.created" ∧
    (tr[8]?.bind (·.dir.get ⟨some (.num 2), true⟩)) = some ⟨[12, 12], 3⟩ ∧
    (tr[9]?.bind (·.dir.get ⟨some (.num 2), true⟩)) = some ⟨[], 9⟩ ∧
    (∃ p ∈ tr, p.name = "rot.mounted" ∧ ¬ IfxDistinct p.dir) ∧
    (∀ p8 p9, tr[8]? = some p8 → tr[9]? = some p9 →
      ¬ OneEffectTight (p8.dir, p8.link) (p9.dir, p9.link)) := by
  refine ⟨by decide, by decide, by decide, by decide, by decide, ?_⟩
  intro p8 p9 h8 h9 ht
  have hx : p8.dir.get ⟨some (.num 2), true⟩ = some ⟨[12, 12], 3⟩ := by
    have : ((stepT exTwin (.write [7]) 9).2[8]?.bind (·.dir.get ⟨some (.num 2), true⟩)) =
        some ⟨[12, 12], 3⟩ := by decide
    rw [h8] at this; exact this
  have hy : p9.dir.get ⟨some (.num 2), true⟩ = some ⟨[], 9⟩ := by
    have : ((stepT exTwin (.write [7]) 9).2[9]?.bind (·.dir.get ⟨some (.num 2), true⟩)) =
        some ⟨[], 9⟩ := by decide
    rw [h9] at this; exact this
  obtain ⟨a, ha, hgone⟩ := tight_stamp ht _ _ _ hx hy (by decide)
  -- the only file `⟨[], 9⟩` at point 8 is the new `rCURRENT`, and that is still there at point 9
  have honly : ∀ e ∈ FV.FlwA.ents p8.dir, e.2 = ⟨[], 9⟩ → e.1 = ⟨some .cur, false⟩ := by
    have : ((stepT exTwin (.write [7]) 9).2[8]?.map (fun p => (FV.FlwA.ents p.dir).all
        (fun e => decide (e.2 = ⟨[], 9⟩ → e.1 = ⟨some .cur, false⟩)))) = some true := by
      decide
    rw [h8] at this
    have h' : ∀ (a : FName) (b : File), (a, b) ∈ FV.FlwA.ents p8.dir →
        ¬ b = ⟨[], 9⟩ ∨ a = ⟨some .cur, false⟩ := by simpa using this
    intro e he h
    exact (h' e.1 e.2 he).resolve_left (fun hn => hn h)
  have hcur : p9.dir.get ⟨some .cur, false⟩ = some ⟨[], 9⟩ := by
    have : ((stepT exTwin (.write [7]) 9).2[9]?.bind (·.dir.get ⟨some .cur, false⟩)) =
        some ⟨[], 9⟩ := by decide
    rw [h9] at this; exact this
  have hacur := honly _ (FV.FlwA.mem_of_get _ _ _ ha) rfl
  simp only at hacur
  rw [hacur, hcur] at hgone
  cases hgone

end FV.C11
