import FlexiVerif.Lemmas.Spec
/-
  C02 — A record is written iff the active specification (and text filter) enables it.

  Property theorems only; helper lemmas live in `Lemmas/Spec.lean`.
-/
namespace FV.C02
open FV FV.Spec

/-- The property's quantifier: every module is named at most once (and at most one default);
    module names are non-empty. -/
def WF (fs : List MF) : Prop :=
  (∀ m ∈ fs, ∀ n, m.name = some n → n ≠ []) ∧
  (∀ m ∈ fs, ∀ m' ∈ fs, m.name = m'.name → m = m')

/-- Declarative reading of "the level filter of the longest specified module name that is a
    prefix of the target, else the default": `m` matches the target and no matching filter has a
    longer name (the default has length 0, every name has positive length). -/
def IsBest (fs : List MF) (t : List Char) (m : MF) : Prop :=
  m ∈ fs ∧ matchesT m t = true ∧ ∀ m' ∈ fs, matchesT m' t = true → nlen m' ≤ nlen m

theorem best_unique (fs : List MF) (hwf : WF fs) (t : List Char) (m m' : MF)
    (h : IsBest fs t m) (h' : IsBest fs t m') : m = m' := by
  obtain ⟨hm, hmt, hmax⟩ := h
  obtain ⟨hm', hmt', hmax'⟩ := h'
  have hl : nlen m = nlen m' := Nat.le_antisymm (hmax' m hm hmt) (hmax m' hm' hmt')
  apply hwf.2 m hm m' hm'
  cases hn : m.name with
  | none =>
    cases hn' : m'.name with
    | none => rfl
    | some n' =>
      have := hwf.1 m' hm' n' hn'
      have h0 : blen n' = 0 := by simp [nlen, hn, hn'] at hl; omega
      exact absurd (blen_eq_zero h0) this
  | some n =>
    cases hn' : m'.name with
    | none =>
      have := hwf.1 m hm n hn
      have h0 : blen n = 0 := by simp [nlen, hn, hn'] at hl; omega
      exact absurd (blen_eq_zero h0) this
    | some n' =>
      simp [nlen, hn, hn'] at hl
      simp [matchesT, hn] at hmt
      simp [matchesT, hn'] at hmt'
      rw [prefix_same_blen hmt hmt' hl]

/-- the first match in a list sorted by descending length is a best match -/
theorem find_sorted_best (l : List MF) (hs : Sorted l) (t : List Char)
    (m : MF) (h : l.find? (matchesT · t) = some m) : IsBest l t m := by
  unfold Sorted at hs
  induction l with
  | nil => simp at h
  | cons x xs ih =>
    rw [List.pairwise_cons] at hs
    simp only [List.find?] at h
    split at h
    · rename_i hx
      cases h
      refine ⟨by simp, hx, ?_⟩
      intro m' hm' _
      rcases List.mem_cons.mp hm' with rfl | hm'
      · exact Nat.le_refl _
      · exact hs.1 m' hm'
    · rename_i hx
      obtain ⟨h1, h2, h3⟩ := ih hs.2 h
      refine ⟨List.mem_cons_of_mem _ h1, h2, ?_⟩
      intro m' hm' hmt'
      rcases List.mem_cons.mp hm' with rfl | hm'
      · simp [hmt'] at hx
      · exact h3 m' hm' hmt'

theorem isBest_perm {l fs : List MF} (hp : l.Perm fs) (t : List Char) (m : MF)
    (h : IsBest l t m) : IsBest fs t m := by
  obtain ⟨h1, h2, h3⟩ := h
  exact ⟨hp.mem_iff.mp h1, h2, fun m' hm' => h3 m' (hp.mem_iff.mpr hm')⟩

/-- **C02 core.** For ANY enumeration order `l` of a well-formed filter set that is sorted by
    descending name length, `LogSpecification::enabled` answers exactly
    "level ≤ level of THE best (longest-prefix, else default) filter", and `false` if there is none. -/
theorem enabled_longest_prefix (fs : List MF) (hwf : WF fs) (l : List MF) (hp : l.Perm fs)
    (hs : Sorted l) (lv : Nat) (t : List Char) :
    (enabled l lv t = true) ↔ ∃ m, IsBest fs t m ∧ lv ≤ m.lvl := by
  rw [enabled_first]
  constructor
  · intro h
    split at h
    · simp at h
    · rename_i m hm
      exact ⟨m, isBest_perm hp t m (find_sorted_best l hs t m hm), by simpa using h⟩
  · rintro ⟨m, hb, hlv⟩
    split
    · rename_i hnone
      have := List.find?_eq_none.mp hnone m (hp.mem_iff.mpr hb.1)
      simp [hb.2.1] at this
    · rename_i m' hm'
      have hb' := isBest_perm hp t m' (find_sorted_best l hs t m' hm')
      rw [best_unique fs hwf t m' m hb' hb]
      simpa using hlv

/-- What `parse` and the builder actually store: `level_sort` of *any* enumeration of the set
    (hash order of the builder's map, textual order of a parsed string). -/
theorem enabled_levelSort (fs l : List MF) (hwf : WF fs) (hp : l.Perm fs) (lv : Nat) (t : List Char) :
    (enabled (levelSort l) lv t = true) ↔ ∃ m, IsBest fs t m ∧ lv ≤ m.lvl :=
  enabled_longest_prefix fs hwf (levelSort l) ((levelSort_perm l).trans hp) (levelSort_sorted l) lv t

/-- a matching named filter beats the default -/
theorem named_beats_default (fs : List MF) (hwf : WF fs) (t : List Char) (m : MF) (n : List Char)
    (hb : IsBest fs t m) (hm : m.name = none) :
    ∀ m' ∈ fs, m'.name = some n → matchesT m' t = false := by
  intro m' hm' hn'
  cases hmt : matchesT m' t with
  | false => rfl
  | true =>
    have h1 := hb.2.2 m' hm' hmt
    have h2 : blen n = 0 := by simp [nlen, hm, hn'] at h1; omega
    exact absurd (blen_eq_zero h2) (hwf.1 m' hm' n hn')

/-- no filter matches (no prefix name, no default) ⇒ off -/
theorem off_when_no_match (l : List MF) (lv : Nat) (t : List Char)
    (h : ∀ m ∈ l, matchesT m t = false) : enabled l lv t = false := by
  induction l with
  | nil => rfl
  | cons m ms ih =>
    simp only [enabled, h m (by simp)]
    exact ih (fun m' hm' => h m' (List.mem_cons_of_mem _ hm'))

/-- **Plain targets**: the record is passed on to the default channel (output or line filter)
    iff the spec enables it and, if a text filter is set, the message matches; nothing else
    receives it; no panic. -/
theorem log_iff (spec : LogSpec) (ws : List Writer) (lvl : Nat) (t : List Char)
    (m : Option (List Char)) (mm : Bool) (h : t.head? ≠ some '{') :
    route spec ws lvl t m mm =
      ⟨false, [], enabled spec.filters lvl t && (spec.regex.isNone || mm)⟩ := by
  simp [route, h]

/-- the global max level admits every record the specification enables … -/
theorem gate_admits_spec (h : Handle) (s : LogSpec) (lvl : Nat) (t : List Char)
    (he : enabled s.filters lvl t = true) : lvl ≤ (h.setNew s).gate := by
  rw [enabled_first] at he
  split at he
  · simp at he
  · rename_i m hm
    have hmem : m ∈ s.filters := List.mem_of_find?_eq_some hm
    have h1 : lvl ≤ m.lvl := by simpa using he
    have h2 := le_maxLevel s.filters m hmem
    have h3 := foldl_max_ge h.ceilings (maxLevel s.filters)
    simp only [Handle.setNew, gateFor]
    omega

/-- … and every record an additional writer accepts (level ≤ its ceiling) -/
theorem gate_admits_writers (h : Handle) (s : LogSpec) (c : Nat) (hc : c ∈ h.ceilings) :
    c ≤ (h.setNew s).gate := by
  simp only [Handle.setNew, gateFor]
  exact foldl_max_mem h.ceilings _ c hc

/-- `enabled()` on a plain target is exactly the specification's decision -/
theorem query_plain (spec : LogSpec) (ws : List Writer) (lvl : Nat) (t : List Char)
    (h : t.head? ≠ some '{') : enabledQuery spec ws lvl t = some (enabled spec.filters lvl t) := by
  simp [enabledQuery, h]

/-- `enabled()` never panics -/
theorem query_total (spec : LogSpec) (ws : List Writer) (lvl : Nat) (t : List Char) :
    (enabledQuery spec ws lvl t).isSome = true := by
  unfold enabledQuery
  split
  · simp only []; split <;> rfl
  · rfl

/-- Full statement of the last sentence of C02 for brace targets: if `enabled()` answers false,
    no addressed writer accepts the record (level ≤ ceiling) and it does not reach the default
    channel. -/
def enabled_query_full_statement : Prop :=
  ∀ (spec : LogSpec) (ws : List Writer) (lvl : Nat) (t : List Char) (m : Option (List Char)) (mm : Bool),
    enabledQuery spec ws lvl t = some false →
      (route spec ws lvl t m mm).default = false ∧
      ∀ n w, Deliver.writer n ∈ (route spec ws lvl t m mm).deliveries → lookup ws n = some w → ¬ lvl ≤ w.ceiling

/-- Proved part: for every addressed *writer* the answer is sound (after the `fix:` of the strict
    comparison), whatever else is in the list. -/
theorem enabled_query_sound_writers_partial (spec : LogSpec) (ws : List Writer) (lvl : Nat)
    (t : List Char) (m : Option (List Char)) (mm : Bool)
    (hq : enabledQuery spec ws lvl t = some false) :
    ∀ n w, Deliver.writer n ∈ (route spec ws lvl t m mm).deliveries → lookup ws n = some w → ¬ lvl ≤ w.ceiling := by
  intro n w hdel hlk hle
  by_cases hb : t.head? = some '{'
  · by_cases hws : ws.isEmpty = true
    · have : ws = [] := by simpa using hws
      simp [this, lookup] at hlk
    · simp only [enabledQuery, hws, hb] at hq
      simp only [Bool.not_false, Bool.true_and, decide_true, ite_true] at hq
      split at hq
      · simp at hq
      · rename_i hany
        apply hany
        simp only [route, hb, ite_true] at hdel
        have hn : n ∈ splitOn ',' (braceInner t) ∧ n ≠ defaultName := by
          split at hdel <;> simp only [List.mem_filterMap] at hdel <;>
          · obtain ⟨a, ha, hEq⟩ := hdel
            unfold deliverOf at hEq
            by_cases hd : a = defaultName
            · simp [hd] at hEq
            · simp only [hd, ite_false] at hEq
              split at hEq <;> simp at hEq
              subst hEq; exact ⟨ha, hd⟩
        rw [List.any_eq_true]
        exact ⟨n, hn.1, by simp [hn.2, hlk, hle]⟩
  · simp [route, hb] at hdel

/-- and for plain targets the whole statement holds -/
theorem enabled_query_sound_plain_partial (spec : LogSpec) (ws : List Writer) (lvl : Nat)
    (t : List Char) (m : Option (List Char)) (mm : Bool) (hp : t.head? ≠ some '{')
    (hq : enabledQuery spec ws lvl t = some false) :
    (route spec ws lvl t m mm).default = false := by
  rw [query_plain spec ws lvl t hp] at hq
  rw [log_iff spec ws lvl t m mm hp]
  simp at hq
  simp [hq]

/-- The full statement is FALSE of the model (and of the code, replayed by the harness as the
    known finding `C02-default-in-braces`): `enabled()` has no module path and judges
    `{_Default}` targets on the target string. -/
theorem enabled_query_violation_witness : ¬ enabled_query_full_statement := by
  intro h
  have := (h ⟨[⟨some "m".toList, 5⟩, ⟨none, 0⟩], none⟩ [] 5 "{_Default}".toList (some "m".toList) true
    (by decide)).1
  revert this
  decide

/-! ### non-vacuity -/

example : WF [⟨some "a::b".toList, 4⟩, ⟨some "a".toList, 2⟩, ⟨none, 3⟩] := by
  refine ⟨?_, ?_⟩ <;> simp
example : enabled (levelSort [⟨none, 3⟩, ⟨some "a".toList, 2⟩, ⟨some "a::b".toList, 4⟩]) 4 "a::b::c".toList = true := by decide
example : enabled (levelSort [⟨none, 3⟩, ⟨some "a".toList, 2⟩, ⟨some "a::b".toList, 4⟩]) 3 "a::x".toList = false := by decide

end FV.C02
