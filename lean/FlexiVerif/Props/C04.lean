import FlexiVerif.Props.C01
import FlexiVerif.Props.C03
/-
  C04 — Flush, shutdown and handle drop leave no accepted record behind.

  Synchronous modes: the file-writer model (`Flw`); `LoggerHandle::shutdown`, the drop of a
  handle (`Drop for WritersHandle` calls `shutdown` on every writer) and `flush` all end in
  `State::flush` of the `BufWriter` — the model operations `.shutdown`/`.flush`.
  Asynchronous mode: the channel protocol model (`Conc`): `shutdown` enqueues the control message
  behind all earlier messages and joins the writer thread.
-/
namespace FV.C04
open FV FV.Flw

/-- **Synchronous modes.** Once `flush`, `shutdown` or the drop of a handle has returned, every
    record whose log call had completed before is physically in the files — for every naming
    scheme, criterion, buffer capacity, with or without rotation — and the files are a grouping
    of exactly these records. -/
theorem sync_flush_shutdown_complete (cfg : Cfg) (ha : cfg.append = false) (hn : NoCleanup cfg)
    (ops ops' : List (Op × Nat × Faults)) (op : Op) (now : Nat) (fl : Faults)
    (hops : ops = ops' ++ [(op, now, fl)]) (h : op = .flush ∨ op = .shutdown)
    (hp : PlainHistory ops) :
    readAll (runOps (init cfg []) ops).dir = written ops ∧
    (∀ a', (runOps (init cfg []) ops).act = some a' → a'.pending = []) :=
  ⟨(C01.rotated_read_after_flush cfg ha hn ops ops' op now fl hops h hp).1,
   C01.flushed_after_final_flush (init cfg []) ops ops' op now fl hops h⟩

/-- **Dropping one clone while another is alive (synchronous modes).** The drop is a `shutdown`
    of the writers, i.e. a flush: a `.shutdown` in the middle of a history is a plain operation,
    so everything logged afterwards is written as usual — the stream theorem holds for the whole
    history, whatever the positions of the drops. -/
theorem clone_drop_harmless_sync (cfg : Cfg) (ha : cfg.append = false) (hn : NoCleanup cfg)
    (before after : List (Op × Nat × Faults)) (now : Nat)
    (hp : PlainHistory (before ++ (Op.shutdown, now, noFaults) :: after)) :
    (viewFiles (runOps (init cfg []) (before ++ (Op.shutdown, now, noFaults) :: after))).flatten =
      written before ++ written after := by
  rw [C01.rotated_stream_complete cfg ha hn _ hp]
  simp [written, records_append, records]

/-- the buffer is empty right after the call -/
theorem flush_empties (s : St) (op : Op) (now : Nat) (fl : Faults) (h : op = .flush ∨ op = .shutdown) :
    ∀ a', (step s op now fl).1.act = some a' → a'.pending = [] :=
  C01.flush_empties_buffer s op now fl h

open FV.Conc in
/-- **Asynchronous mode.** `shutdown()` = enqueue the control message behind everything sent so
    far, then join the writer thread: when the join returns, every record handed over before is
    in the stream, once, in per-thread order (for every schedule, pool and message capacity). -/
theorem async_shutdown_complete (cfg : Conc.Cfg) (prog : List (List (List Nat))) (hc : cfg.clear = true)
    (sched₁ sched₂ : List Act)
    (hal : (run .async cfg prog sched₁).writerAlive = true)
    (hns : Msg.shutdown ∉ (run .async cfg prog sched₁).chan)
    (hdone : ∀ t (h : t < (run .async cfg prog sched₁).ths.length),
      (run .async cfg prog sched₁).ths[t].pend = false ∧
      (run .async cfg prog sched₁).ths[t].sent = (prog.getD t []).length)
    (hfin : (run .async cfg prog (sched₁ ++ Act.shutdownTick :: sched₂)).writerAlive = false) :
    (∀ t : Nat, ((run .async cfg prog (sched₁ ++ Act.shutdownTick :: sched₂)).outLines.filter
        (·.1 = t)).map (·.2.2) = prog.getD t []) ∧
    (run .async cfg prog (sched₁ ++ Act.shutdownTick :: sched₂)).out =
      ((run .async cfg prog (sched₁ ++ Act.shutdownTick :: sched₂)).outLines.map (·.2.2)).flatten := by
  have := C03.shutdown_join_complete cfg prog hc sched₁ sched₂ hal hns hdone hfin
  exact ⟨this.1, this.2.2⟩

/-- Full statement of the last sentence of C04 in the asynchronous mode: a record sent while some
    handle is still alive is written. -/
def clone_drop_harmless_async_full_statement : Prop :=
  ∀ (cfg : Conc.Cfg) (line : List Nat),
    -- one thread; a clone of the handle is dropped (the code sends the shutdown message and joins),
    -- afterwards the thread logs `line` and the surviving handle is shut down properly
    (Conc.run .async cfg [[line]] [.shutdownTick, .recv, .fmt 0, .send 0, .shutdownTick, .recv, .recv]).out = line

/-- FALSE for the code as it is (known finding `C04-async-clone-drop`): every clone's `Drop`
    shuts the writer thread down; what is sent afterwards stays in the channel. -/
theorem clone_drop_async_violation_witness : ¬ clone_drop_harmless_async_full_statement := by
  intro h
  have := h ⟨2, 10, true⟩ [65, 10]
  revert this
  decide

/-! ### non-vacuity -/
example : PlainHistory ([(Op.write [1, 2], 5, noFaults), (Op.shutdown, 0, noFaults), (Op.write [3], 6, noFaults)]) := by
  refine ⟨?_, ?_⟩
  · intro o ho; simp at ho; rcases ho with rfl | rfl | rfl <;> simp [Op.plain]
  · simp [Monotone, Op.usesClock]

end FV.C04
