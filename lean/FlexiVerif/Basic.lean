def hello := "world"
