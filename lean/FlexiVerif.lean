import FlexiVerif.Model.Text
import FlexiVerif.Model.Spec
import FlexiVerif.Model.Flw
import FlexiVerif.Model.Names
import FlexiVerif.Model.FlwAbs
import FlexiVerif.Model.Conc
import FlexiVerif.Model.Fmt
import FlexiVerif.Model.FlwTrace
