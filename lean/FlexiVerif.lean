import FlexiVerif.Model.Text
import FlexiVerif.Model.Spec
