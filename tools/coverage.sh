#!/bin/bash
# Measures which lines of /repo/src the correspondence check executes (not a registered check;
# a development aid: code the harness never reaches is code the model is not tied to).
# usage: tools/coverage.sh [tier] [props...]   -> /var/tmp/fvcov/report/{summary.txt,uncovered.txt}
set -e
TIER=${1:-quick}; shift || true
PROPS=${@:-C01 C02 C03 C04 C05 C06 C07 C08 C09 C10 C11 C12 C13 C14 C15 C16 C17 C18 C19 C20}
ROOT=$(cd "$(dirname "$0")/.." && pwd)
T=/var/tmp/fvcov; BIN=$T/debug/fvh
LLVM=/root/.rustup/toolchains/nightly-x86_64-unknown-linux-gnu/lib/rustlib/x86_64-unknown-linux-gnu/bin
export CARGO_NET_OFFLINE=true
(cd $ROOT/harness && LLVM_PROFILE_FILE=$T/build-%p.profraw RUSTFLAGS="--cfg flexi_logger_verif -C instrument-coverage" CARGO_TARGET_DIR=$T cargo +nightly build --offline 2>&1 | tail -1)
rm -rf $T/prof $T/run $T/report; mkdir -p $T/prof $T/run $T/report
for p in $PROPS; do
  (
  d=$T/run/$p; mkdir -p $d
  cat $ROOT/corpus/$p/*.case 2>/dev/null | grep -v "^#" | grep -v "^$" > $d/corpus.txt || true
  LLVM_PROFILE_FILE=$T/prof/gen-%p.profraw $BIN gen $p --tier $TIER --seed 1 --out $d > /dev/null 2>&1 || echo "gen $p failed"
  cat $d/corpus.txt $d/cases.txt > $d/all.txt
  LLVM_PROFILE_FILE=$T/prof/$p-%p-%m.profraw timeout 1500 $BIN exec --cases $d/all.txt --out $d/out --work $d/w > $d/log 2>&1 || echo "exec $p rc=$?"
  $LLVM/llvm-profdata merge -sparse $T/prof/$p-*.profraw -o $T/prof/$p.profdata 2>/dev/null
  rm -f $T/prof/$p-*.profraw; rm -rf $d/w
  ) &
done
wait
$LLVM/llvm-profdata merge -sparse $T/prof/C*.profdata -o $T/all.profdata
$LLVM/llvm-cov report $BIN -instr-profile=$T/all.profdata --ignore-filename-regex='(registry|rustc|harness)' > $T/report/summary.txt 2>/dev/null
$LLVM/llvm-cov show $BIN -instr-profile=$T/all.profdata --ignore-filename-regex='(registry|rustc|harness)' --show-line-counts-or-regions > $T/report/show.txt 2>/dev/null
cat $T/report/summary.txt
