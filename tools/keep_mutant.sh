#!/bin/bash
# usage: keep_mutant.sh <ID> "<caught-by text>"
ID=$1; CAUGHT=$2; DEST=${3:-$1}
D=/verif/seeded/$DEST; mkdir -p $D
cp /tmp/mut/$ID/out/patch.diff $D/
cp /tmp/mut/$ID/out/demo* $D/ 2>/dev/null
python3 - "$ID" "$CAUGHT" "$DEST" <<'PY'
import json,sys
ID,caught,dest=sys.argv[1],sys.argv[2],sys.argv[3]
m=json.load(open(f'/tmp/mut/{ID}/out/meta.json'))
m['confirmed_by_builder']={'worktree':f'/tmp/mut/{ID}','ran':'cargo build --offline; cargo test --workspace --no-fail-fast --offline (all passed, 0 failed) with the patch; demonstration with the patch (exit != 0); demonstration without the patch (exit 0)'}
m['caught_by']=caught
json.dump(m,open(f'/verif/seeded/{dest}/meta.json','w'),indent=1)
PY
ls $D
