#!/bin/bash
# usage: try_mutant.sh <ID> <prop> [more props]  -- applies the seeded change to /repo, runs the quick checks, undoes it
ID=$1; shift
cd /repo && git status --short | grep -q . && { echo "REPO NOT CLEAN"; exit 2; }
git -C /repo apply /tmp/mut/$ID/out/patch.diff || exit 1
cd /verif
for p in "$@"; do
  echo "--- ./check $p (with seeded change $ID)"
  VERIF_NO_SHRINK=1 timeout 600 ./check $p --tier quick 2>&1 | grep -E "^VIOLATION|^KNOWN|OK \(|LEAN PROBLEM|harness build FAILED" | cut -c1-200 | head -8
  for f in $(VERIF_NO_SHRINK=1 timeout 600 ./check $p --tier quick 2>&1 | grep -oE "replay=[^ ]+" | head -1 | cut -d= -f2); do head -4 $f | cut -c1-300; done
done
git -C /repo checkout -- .
cd /verif/harness && cargo build --offline 2>&1 | tail -1
