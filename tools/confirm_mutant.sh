#!/bin/bash
# usage: confirm_mutant.sh <ID> [features]   -- confirms a seeded change in its scratch worktree
ID=$1; FEAT="${2:-}"
W=/tmp/mut/$ID
cd $W || exit 2
export CARGO_NET_OFFLINE=true
git checkout -q -- . 2>/dev/null
git apply --check out/patch.diff || { echo "PATCH DOES NOT APPLY"; exit 1; }
git apply out/patch.diff
echo "== build with patch"; cargo build --offline 2>&1 | tail -1
echo "== suite with patch"; cargo test --workspace --no-fail-fast --offline 2>&1 | grep -E "^test result" | awk '{p+=$4; f+=$6} END {print "passed="p" failed="f}'
DEMO=$(ls out | grep -E '^demo' | head -1)
if [[ $DEMO == *test* ]]; then cp out/$DEMO tests/$DEMO; RUN="cargo test --offline $FEAT --test ${DEMO%.rs}"; else cp out/$DEMO examples/$DEMO; RUN="cargo run --offline $FEAT --example ${DEMO%.rs}"; fi
echo "== demo with patch (must fail): $RUN"; $RUN > /tmp/mut/$ID.demo_with.log 2>&1; echo "exit=$?"
git apply -R out/patch.diff
echo "== demo without patch (must pass)"; $RUN > /tmp/mut/$ID.demo_without.log 2>&1; echo "exit=$?"
rm -f tests/$DEMO examples/$DEMO
git checkout -q -- .
