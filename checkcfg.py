"""Per-property configuration of ./check."""

SPEC_TRUST = [
    "regex crate: validity/match bits are computed by the harness with the same crate and handed to the model",
    "Unicode lower-casing: only U+212A lower-cases into an ASCII letter (modelled); fuzzed in the correspondence check",
    "log crate: Level/LevelFilter ordering",
]

PROPS = {
    "C02": {
        "level_text": "Kernel-checked Lean theorems: for every well-formed filter set in ANY enumeration order, level_sort + first-match "
                      "equals the declarative longest-prefix/default/off rule (enabled_longest_prefix, enabled_levelSort); plain targets are "
                      "passed on iff enabled and regex-matched (log_iff); the max-level gate admits everything the spec or a writer accepts "
                      "(gate_admits_*) and is tight — off, a filter's level or a writer's ceiling, off iff everybody is off (companion Props/C02Gate: gate_tight, gate_off_iff); the decision is downward closed in the level and a threshold test per target (enabled_downward, enabled_threshold); enabled() is sound for plain targets and addressed writers; the {_Default} case is proved FALSE "
                      "(witness) and is a known finding. The model is tied to the code by a differential check on seeded specs/targets/messages "
                      "plus a declarative oracle evaluated on the real logger.",
        "level_note": "Trusted: Lean kernel; regex and log crates; the hand-written Spec model is validated against the code only on the generated "
                      "cases (bounded, seeded). Quantifier restricted to specs naming each module at most once (as the property states).",
        "correspondence": "Spec model (parse/level_sort/enabled/route/enabledQuery/gate) vs LogSpecification + boxed FlexiLogger from Logger::build()",
        "rule": "specifications built through every public construction route (LogSpecBuilder::new / from_module_filters / insert_modules_from, From<LevelFilter>, build* / finalize*); `{_Default}` targets of loggers WITHOUT additional writers (judged on the module path, oracle brace-default-iff-enabled); run-time change to a specification differing only in the text filter, and back (1/3 of the cases); seeded structured specs (builder and parsed strings; names that are prefixes/equal length/level words/non-ASCII) x "
                "grid of derived targets x 5 levels x messages vs regexes; a case is non-trivial if at least one decision was "
                "checked against the declarative longest-prefix oracle; distinct = distinct op sequences",
        "trusted": SPEC_TRUST,
        "assumptions": ["specifications name each module at most once (the property's quantifier)"],
    },
    "C05": {
        "level_text": "Kernel-checked refinement: for every finite sequence of the five reconfiguration operations the handle model equals the "
                      "abstract stack of specifications (run_refines), a rejected string changes nothing (malformed_leaves_state), pop on an "
                      "empty stack is a no-op, and the max-level gate always belongs to the active spec (run_gate, gate_admits_after_run). "
                      "Differential check on seeded op sequences (grid of enabled(), log::max_level(), Ok/Err after every op) against the real LoggerHandle.",
        "level_note": "Trusted: Lean kernel; the Handle model is validated against the code on generated sequences only; the hidden stack is observed "
                      "through depth+2 trailing pops. One genuine defect was repaired (fix: 6264abc).",
        "correspondence": "Spec.Handle model vs LoggerHandle::{set_new_spec,parse_new_spec,push_temp_spec,parse_and_push_temp_spec,pop_temp_spec}",
        "rule": "40 (thorough: 340 per seed) of C12's schedules (parked calls, push/pop on clones, free-running races) run under C05 as well: the methods take effect as a whole also when two clones call them at the same time; additional writers with ceilings 0..5 in a third of the cases (the gate is the maximum over the active specification and them); seeded op sequences of the five reconfiguration methods with well-formed and malformed strings, nested pushes, "
                "pops beyond the stack; after every op the enabled grid and log::max_level() are compared; each sequence ends "
                "with depth+2 pops; non-trivial = contains a rejected string or a pop",
        "trusted": SPEC_TRUST,
    },
    "C17": {
        "level_text": "Kernel-checked theorems on the parse/Display/TOML model: exact error/salvage characterisation (parse_exact, "
                      "parse_too_many_slashes) and the Display/TOML round trips for all well-formed specs; differential check of parse on structured, "
                      "single-fault and arbitrary Unicode strings (verdict, salvaged filters, decisions) and of the real to_toml/from_toml and Display round trips. Companion Props/C17Env: the specification taken from RUST_LOG (LogSpecification::env / env_or_parse behind Logger::try_with_env*): unset = off, set = parse of the value, the variable is used iff set and well-formed, an error carries the salvage of the GIVEN string, nothing is mixed, RUST_LOG = Display text restores the specification (env_unset_is_off, envOrParse_env_wins, envOrParse_fallback, envOrParse_err_is_given, envOrParse_one_of_two, envOrParse_ok_iff, env_display_roundtrip); ENVPARSE op: the real functions with RUST_LOG set/removed for the call.",
        "level_note": "Trusted: Lean kernel; regex validity bit and the toml crate's lexical layer are outside the model (validated, not proved); "
                      "Unicode lower-casing argument (only U+212A folds into ASCII).",
        "correspondence": "Spec.parse/display/toToml/fromToml/envParse/envOrParse vs LogSpecification::parse/Display/to_toml/from_toml/env/env_or_parse (and the verdict of Logger::try_with_env / try_with_env_or_str)",
        "rule": "structured specs (Display/TOML round trip), single-fault strings with known salvage, too many slashes, strings over "
                "the spec alphabet incl. Unicode whitespace and case-folding confusables; in a third of the cases the specification from the environment (RUST_LOG unset / well-formed / malformed / bad regex, with and without fallback string) and its decisions on a grid; non-trivial = decision grid or salvage oracle evaluated",
        "trusted": SPEC_TRUST + ["toml crate lexical layer (validated by the real to_toml -> from_toml round trip, not proved)"],
    },
    "C03": {
        "level_text": "Kernel-checked theorems on the thread/channel protocol model (Conc): for EVERY schedule of any number of threads, both the "
                      "mutex path (format, then one critical section per line) and the async path (pooled buffers, FIFO channel, single consumer, "
                      "control messages), every complete run emits each thread's lines exactly once, intact, in per-thread order (all_schedules_sync/async), "
                      "with the pool invariant 'pooled buffers are empty' (and a witness that dropping the clear breaks it); shutdown drains the channel. "
                      "Validation: real threads (2..8) log through the real FileLogWriter under seeded scheduling noise at hook points; the observed global "
                      "order must be accepted by the Conc model AND, replayed as a sequential history, reproduce the real directory in the Flw model (linearizability).",
        "level_note": "Records whose whole text is one letter (among them `F` and `S`, the in-band control messages of the asynchronous writers: only the line ending tells such a record from them) are part of the thread programs. PARTIAL: a theorem cannot exhibit real preemption inside a critical section or OS tearing of a write(2); those are sampled by the "
                      "real-thread runs, not proved. Assumes mutex critical section = atomic step, crossbeam channel FIFO per producer, one write_all per line.",
        "correspondence": "observed order of real concurrent runs vs Conc.ObsOk, and vs the sequential Flw model (directory snapshot)",
        "rule": "asynchronous file output: records whose format function FAILS after producing part of the line (nothing of them may show up, neither as a line nor inside a later record); seeded programs (2..8 threads x 3..25 lines of sizes 8..130, now and then 9-40 kB; nested logging from a Display argument in a third of the threads) x modes sync direct/buffered/async(pool,msg) x all namings x size limits; "
                "non-trivial = the run produced more than one file",
        "trusted": ["std::sync::Mutex, crossbeam-channel FIFO, crossbeam ArrayQueue", "OS: a single write(2) of a line is not torn"],
        "shards": 4,
    },
    "C12": {
        "level_text": "Kernel-checked: in the locked protocol (spec replaced and max level set under one write lock) EVERY interleaving of any number of "
                      "concurrent set_new_spec calls ends, once all have returned, with one submitted specification as a whole and the max level of exactly "
                      "that specification (atomic_update_consistent); the unlocked protocol of the original code is proved to violate this on the schedule "
                      "A1 A2 B2 B1 (race_witness; the defect was repaired, fix 2bbaa7c). Validation: all interleavings of 2 calls and all one-waiter "
                      "interleavings of 3 calls are executed on the real LoggerHandle by parking threads at the hook point between the two steps.",
        "level_note": "Trusted: RwLock semantics; thread parking via the cfg-guarded hook points 'spec.enter' (before the lock is asked for) and 'spec.updated' (inside); 'blocked' is observed with a 60 ms timeout. "
                      "push/pop are modelled as a layer over the lock protocol (Model/Spec PState: a push READS the active specification under the read lock, so it waits for a change in progress, saves it on the stack of its handle clone and is then an ordinary change; a pop is an ordinary change to the specification saved last). Props/C12Push: every run of that layer is a run of the lock protocol (prun_projects), hence the consistency theorem holds for every interleaving of set/push/pop calls (push_pop_consistent), and the specification active in the end is the initial one or one named by a set or push (push_pop_from_submitted). Schedules with a waiting writer AND a waiting reader at the same release are not generated (which of them the RwLock serves first is not specified).",
        "correspondence": "Spec.CState/PState (lock model, push/pop layer) vs real threads parked inside WritersHandle::set_new_spec, incl. push_temp_spec/pop_temp_spec on kept handle clones",
        "rule": "parked schedules with text filters on either call (the specification in force at the end applies as a whole, text filter included); enumeration of interleavings (start_i before finish_i) of 2 and 3 calls with specs of different maximum levels, plus calls parked before the lock while another runs from start to end with coinciding maximum levels; plus 30 (thorough: 300 per seed) push/pop histories on handle clones (push arriving during a change, change arriving during a push, two clones popping in either order); plus free-running races; non-trivial = all cases (quiescence oracle evaluated)",
        "shrink_secs": 25,
        "trusted": SPEC_TRUST,
        "shards": 2,
    },
    "C20": {
        "level_text": "Kernel-checked theorems on the format model (Fmt): jsonUnescape(jsonEscape s) = s for ALL strings, escaped text has no raw control "
                      "character or bare quote, the JSON object's members decode to the record's values (json_fields_decode), the four text formats and "
                      "their coloured variants have the stated layout with the message verbatim, framing is format output ++ one line ending (also on the "
                      "recursive path: emit_lines), and all outputs of one record carry the first clock reading (one_timestamp). Validation: byte-exact "
                      "comparison of the real format functions through a real FileLogWriter (LF/CRLF) and of file + additional writer under a clock that "
                      "advances on every read; serde_json parses the JSON lines back (oracle).",
        "level_note": "Trusted: chrono's rendering of the timestamp text (passed to the model as data), serde_json/nu_ansi_term escaping rules as modelled "
                      "(validated byte-exactly), kv Debug rendering restricted to printable ASCII + common escapes.",
        "correspondence": "Fmt model vs flexi_logger::{default,opt,detailed,with_thread,colored_*,json}_format through FileLogWriter/Logger",
        "rule": "12 BUFFRAME runs (the in-memory log target as an output: messages ending in line breaks keep their framing line ending); seeded records (all present/absent field combinations, messages with quotes/backslashes/control/non-ASCII/multi-line, kv pairs) x 9 formats x LF/CRLF x worker processes in UTC / non-UTC zones / with DeferredNow::force_utc(); same-format output pairs through the primary writer's fan-out (OUTS) and through an additional writer plus the default channel (OUTSW, target {Sec,_Default}); recursive logging with CRLF; "
                "non-trivial = at least one formatted line compared",
        "trusted": ["chrono strftime", "serde_json string escaping", "nu_ansi_term Style::paint"],
        "shards": 4,
    },
    "C13": {
        "level_text": "Companion Props/C13Dup: the duplication decision is a threshold for ALL numbers, downward closed in the level, monotone in the setting (dup_threshold, dup_downward, dup_monotone_setting). Companion Props/C13Syslog over Model/Syslog: pri_decodes (PRI = facility*8 + severity), severity_monotone, severity_not_injective, ceiling_on_levels vs ceiling_on_severities_violation_witness, the header layouts end with the message verbatim. Kernel-checked theorems on the routing model: for a brace list of distinct names every registered writer named receives the record "
                      "exactly once and no other writer anything, independent of the specification (named_writer_exactly_once, unnamed_writer_nothing, "
                      "deliveries_independent_of_spec); the default channel iff _Default is listed and the spec enables the MODULE (brace_default_iff); unknown "
                      "names are reported and do not disturb the others; provided writers emit iff level <= ceiling (ceiling_rule); the complete 7x5 duplication "
                      "table (dup_rule, decide). Validation against the real logger with recording writers, a FileLogWriter with max_level, a SyslogWriter over "
                      "loopback UDP, and a child process whose stderr/stdout are captured for all Duplicate values incl. adapt_duplication_to_*.",
        "level_note": "A name repeated inside one brace list is delivered once per occurrence (documented reading: the statement quantifies over lists of distinct "
                      "names). One genuine defect repaired (fix 5bf7827: SyslogWriter ignored max_log_level). Custom LogWriters decide themselves what they emit.",
        "correspondence": "Spec.route/emitted/dupDecision vs FlexiLogger::log with additional writers (recording, FileLogWriter, SyslogWriter/UDP) and MultiWriter duplication (child process)",
        "rule": "a third of the SYSLOGLINE runs with TWO syslog writers of different header layouts behind one logger and one record addressed to both; duplication tables also under WriteMode::SupportCapture; 48 SYSLOGLINE runs (a real SyslogWriter over UDP loopback: every facility x level x RFC 5424 / RFC 3164, messages containing the header's separators; PRI and message compared with Model/Syslog); seeded brace lists over registered/unknown/_Default/empty names (mostly distinct) x 5 levels x specs x writer kinds and ceilings (also: no additional writer at all) x optional forwarding LogLineFilter; duplication cases: "
                "all 7 Duplicate values for stderr and stdout with run-time adaptation; non-trivial = a delivery or duplication decision was checked by the oracle",
        "trusted": SPEC_TRUST + ["loopback UDP delivers a datagram before the next recv"],
        "shards": 8,
    },
    "C01": {
        "level_text": "Kernel-checked refinement: the file-writer model (abstract file system; Numbers, NumbersDirect, Timestamps, TimestampsDirect incl. "
                      ".restart-NNNN collision handling; Size/Age/AgeOrSize/no criterion; BufWriter rule for every capacity incl. direct; forced rotations) "
                      "refines the abstract rotating log for EVERY history of writes/rotations/flushes under a monotone clock (refines_all). Hence "
                      "rotated_stream_complete: files read oldest->newest + current (+ buffer) = exactly the written bytes; file boundaries are record "
                      "boundaries; after flush/shutdown everything is in the files. The model is tied to the real FileLogWriter by a differential check "
                      "(virtual clock hook; READ/PARTS/SNAP/LINK after flush points and in direct mode after writes) plus a stream oracle on the real files.",
        "level_note": "Trusted: Lean kernel; OS file semantics, std BufWriter, chrono rendering of stamps (modelled); the model is validated against the code on "
                      "generated histories only (bounded). Custom timestamp formats are covered by the correspondence (year-first formats, and a date-only format `r%Y-%m-%d` with many rotations per name period, for which the driver hands the model the clock truncated to the day), proofs use the structural "
                      "order of names (rendering order-preserving for 4-digit years, index < 100000, suffix sorting before 'restart'). No cleanup (as the property says).",
        "correspondence": "Flw model (step/readAll/parts/render) vs real FileLogWriter on real files with the virtual clock",
        "rule": "40 histories (family x, judged by the stream oracle alone) in which a due rotation CANNOT succeed although nothing is wrong with the file system: index space exhausted (a file with index 4294967294 exists), rotated name longer than 255 bytes — logging must continue in the open file, nothing lost (this family found the defect repaired by dd89690); seeded histories: record lengths {1,2,N-1,N,N+1,3N+7,cap+1,random} x N in {0,1,5,16,40,64} x namings x Size/Age/AgeOrSize x cap {none,1,4,8,N,8192} x "
                "name-part combinations x custom formats; clock mostly frozen/+1s with minute/hour/day/month jumps; plus 40 (thorough: 600 per seed) histories of appending runs across a month end with every timestamp format incl. the day-first one; plus 9 runs with records logged from within Display (nesting depth 1..3, direct/buffered/async file output, CRLF); non-trivial = at least one rotation happened",
        "trusted": ["OS file system semantics (rename, append, truncate)", "std::io::BufWriter", "chrono formatting of the infix"],
        "assumptions": ["monotone clock", "4-digit years, rotation index < 100000, < 10000 restarts per second, suffix sorts before 'restart'"],
    },
    "C08": {
        "level_text": "Kernel-checked: with a size criterion N the files on disk are exactly the GREEDY partition of the records (a record starts a new file iff the "
                      "current file already holds more than N bytes) for every naming scheme and buffer capacity (size_rule_partition via refines_all); "
                      "consequences proved about the greedy partition: no file closed early (> N), a closed file exceeds N only by its last record, no record "
                      "appended to a file already above N, uniqueness; accounted size = real size incl. buffer. Differential check incl. append-start and async mode; "
                      "independent greedy oracle on the real files.",
        "level_note": "Single runs: the partition theorems above. Across restarts (Props/C08Restart, all four namings, append on/off per run, no cleanup): in every reachable state the counter equals the length of the file the writer writes to, buffer included (size_is_file_length); a run that appends starts its counter at the size of the file it finds, a run that does not append at 0 (restart_counter); at every write the writer rotates first iff that file already holds more than N bytes, whichever run wrote them (size_rule_multi_run; size_rule_files in the reader's view for the rCURRENT namings). For the non-rotating writer the counter is not maintained (plain_counter_is_not_file_length) and never read.",
        "correspondence": "Flw model vs real FileLogWriter (PARTS = sizes in reading order)",
        "rule": "size-only criteria, N from 0, boundary lengths, LF records, all namings, modes direct/buffered/bufflush/async, append restarts; plus 150 (thorough: 2000 per seed) histories with a cleanup strategy in the rotating thread whose steps fail (injected remove/compress faults); plus 150 (thorough: 2000 per seed) histories with reopen_outputfile() between the records (file in place, renamed or removed); non-trivial = rotation or restart happened",
        "trusted": ["OS file system semantics", "std::io::BufWriter"],
    },
    "C09": {
        "level_text": "Kernel-checked: with an age criterion the files on disk are the records grouped by period: every file holds records of one period, consecutive files "
                      "are in strictly later periods (no rotation inside a period), created_at = instant of the first record of the current file (age_rule_history, all "
                      "namings/capacities via refines_all); Age.trunc on the packed civil stamp is exactly the year/month/day[/hour/minute/second] comparison of the code "
                      "(trunc_iff_fields); age-or-size = disjunction. Differential check under a virtual clock with second/minute/hour/day/month jumps, leap day, year end.",
        "level_note": "Across restarts (Props/C09Restart, all four namings, no cleanup): the writer's start time always equals the recorded creation time of the file it writes to (created_is_birth_time); an appending restart rotates at its first write iff the file it found was started in another (for a monotone clock: earlier) period, and otherwise continues it; a non-appending restart starts a file whose start time is the time of its first write (appending_restart_age, nonappending_restart_created, age_rule_multi_run). Trusted: chrono's civil-time arithmetic (the harness converts stamps); worker processes run in UTC and in fixed-offset zones +05:30, -03:30, +05:45, +08:45, -09:30, +14, -12 (the virtual clock is local civil time, the model is zone-independent); non-monotone local time at DST fall-back is outside "
                      "(stated assumption); file birth times are replaced by the creation-time table hook under virtual time — except in the real-clock cases (`NOTE realclock`, harness realclock.rs): there "
                      "nothing is virtual, the executor sleeps into the intended seconds, the file system supplies birth and modification times, the names are compared as second offsets (STAMPS), "
                      "and an oracle independent of the model demands that a current file rotated out at start carries the second of its birth (stat), not of its last write.",
        "correspondence": "Flw model vs real FileLogWriter under the virtual clock hook; 8 (thorough: 16 per seed) cases under the real clock with the real file-system times",
        "rule": "200 histories (family f) with forced rotations between the records, also after several period boundaries without a write: the number of files is determined by the clock readings of records and forced rotations (oracle age-rule); age-only and age-or-size(inactive) criteria x 4 ages x namings x caps, append restarts in the same/a later period; plus 200 (thorough: 3000 per seed) histories with age-or-size and BOTH parts active; real-clock shapes: restart rotates out a file written over two seconds, buffered append restart in the second of the last flush, size rotation after an append restart, age rotation under every naming; non-trivial = rotation or restart happened",
        "trusted": ["chrono civil time", "virtual clock + creation-time table hooks (add-only, cfg-guarded)"],
        "assumptions": ["monotone local clock"],
    },
    "C15": {
        "level_text": "public_modes_same_files (any two public WriteMode variants, flusher ticks anywhere), logger_split_same_cfg; Kernel-checked: the files after flush/shutdown do not depend on the buffer capacity (contents_independent_of_write_mode, all namings/criteria via "
                      "refines_all); Conc.shutdown_drains gives FIFO replay for the async channel. Differential check of the same histories under direct, "
                      "BufferDontFlush(cap), BufferAndFlush(cap) and Async{pool,msg} against the one model; raw byte chunks through io::Write. "
                      "Companion Props/C15Flusher over Model/WMode (src/write_mode.rs: public variants, effective mode, without_flushing, buffer size, flush interval): "
                      "one flusher per mode whether the mode is given to a FileLogWriter or to a Logger (one_flusher), what the Logger hands to its file writer keeps capacity and "
                      "sync/async character (withoutFlushing_buffersize/_isAsync), and flusher_ticks_irrelevant(_on_disk): two histories that differ only in where flushes fall — "
                      "the schedule of a flusher thread — leave the same files, also across capacities. The MODE line of a case names the PUBLIC WriteMode variant; the driver derives the capacity from the model.",
        "level_note": "PARTIAL for async: trigger_rotation is not ordered with queued records in async mode (not in the random stream; see DESIGN) and raw chunks equal to the "
                      "in-band control messages b\"F\"/b\"S\" are swallowed (known finding). Async is validated, the capacity-independence is proved.",
        "correspondence": "one Flw model run vs the real writer in 4 write modes",
        "rule": "size criteria x namings x public write modes {Direct, SupportCapture, BufferDontFlush (default 8 KiB), BufferDontFlushWith 1/7/64/8192, BufferAndFlush (default), BufferAndFlushWith with a sleeping and with a flusher that really ticks every 2..7 ms, Async (defaults), AsyncWith small pools/messages with and without a ticking flusher}; 120 histories with reset_flw onto the SAME family in the synchronous modes (driver: flush + restart of the writer); oracle mode-dependent: every generated history is executed once more in WriteMode::Direct and the files after the final shutdown must be equal; flush calls inside the histories in every mode (async: unobserved, a message in the channel between the records); 18 runs with records logged from within Display (depth 1..3, direct/buffered/async, LF and CRLF); non-trivial = rotation happened",
        "trusted": ["crossbeam channel FIFO"],
    },
    "C04": {
        "level_text": "Kernel-checked: (sync) after flush/shutdown/drop the buffer is empty and the files hold exactly the written bytes, for every naming/criterion/"
                      "capacity (sync_flush_shutdown_complete via refines_all); a drop of a clone in the middle is a flush and does not disturb later output "
                      "(clone_drop_harmless_sync); (async) shutdown = control message behind all earlier messages + join: every record handed over before is in the "
                      "stream, once, in per-thread order, for every schedule (async_shutdown_complete, from Conc). The async clone-drop sentence is proved FALSE of the "
                      "code (witness) and is a known finding. Validation through a real Logger/LoggerHandle: records via Log::log, flush/shutdown/clone/drop at seeded "
                      "positions, file bytes read immediately after the call returns; stdout/stderr via child processes that exit right after shutdown/drop/flush.",
        "level_note": "PARTIAL for timing: the real flusher and writer threads are represented only at the granularity of the protocol steps; the delivery guarantee of "
                      "flush() is claimed for the synchronous modes only (as the property says). Known finding C04-async-clone-drop (not repaired, see known_findings.json).",
        "correspondence": "Flw model vs Logger::build() + LoggerHandle::{flush,shutdown,clone,drop}; child process stdout/stderr vs the lines logged",
        "rule": "a quarter of the histories through log_to_file_and_writer with a second, BUFFERING file writer whose file must be complete after flush()/shutdown() (oracle second-writer-incomplete); public write modes incl. the defaults, SupportCapture and flushers that really tick; flush alternately via LoggerHandle::flush and Log::flush; the file writer as primary output or (1/4) as an additional writer `{flw}` of a logger without primary output x modes direct/buf/bufflush/async x with/without rotation x record volumes above and below the buffer x clone/drop/flush at seeded positions, ending by shutdown(), by drop of the last handle, or (sync modes, 1/4) by shutdown() + more records + drop of the last handle, "
                "two overlapping shutdown() calls with a slowed writer thread, or drop of the last handle; 40 child-process runs to stdout/stderr; non-trivial = more than one record reached the observation point",
        "trusted": ["std::io::BufWriter", "crossbeam channel FIFO", "process exit does not lose data already handed to write(2)"],
        "shards": 8,
    },
    "C06": {
        "level_text": "Kernel-checked multi-run stream theorems: for histories with any number of restarts (append on/off and buffer capacity per run, same rotation "
                      "config, monotone clock across runs), every record of every run is on disk exactly once in logging order — Numbers and Timestamps "
                      "(restart_preserves_rcurrent: without append the old rCURRENT is preserved as the newest rotated file under a fresh name, highest index+1 resp. "
                      "collision-free stamp), NumbersDirect and TimestampsDirect (restart_preserves_numbersDirect, restart_preserves_timestampsDirect: unguarded since the repair of the code - an "
                      "appending run continues the newest file of the newest stamp, appendTarget), non-rotating writer with append; no existing name is ever reused (fresh_names_*). "
                      "Differential check on multi-run histories incl. same-second restarts; stream oracle across runs incl. the documented truncation.",
        "level_note": "Without cleanup: the stream theorems above. WITH cleanup (Props/C06Cleanup, all four namings, append/capacity/suffix per run, same rotation configuration): what is on disk is exactly the newest kk+m(+1) files of the un-cleaned multi-run log, hence a contiguous tail of everything logged by all runs, on file boundaries (restart_cleanup_keeps_newest, restart_cleanup_tail, restart_cleanup_vs_uncleaned); indexes and stamps chosen at a restart are fresh with respect to every file on disk, plain or compressed; for Numbers/NumbersDirect the names on disk and their contents are characterised exactly (rotated_names_*, name_content_numbers; with (k,m)=(0,0) under Numbers the index restarts at 0 after everything was removed - no existing file is overwritten). These proofs first needed a guard for TimestampsDirect with an appending restart, and their counterexample (records LOST, not only reordered, once a cleanup strategy is configured) was confirmed on the real code: repaired by fix 3b381bc; the model follows, the guards are gone, the former counterexamples are regression examples (tsd_append_former_witness, tsd_append_cleanup_former_witness) and corpus cases. "
                      "Formats: the standard one, two more year-first ones, and a day-first custom format whose text order is not the time order (without cleanup; directed histories across month ends). "
                      "Three genuine defects repaired (fix 1fbd892 gz index, fix bec99bb same-second truncation, fix 3b381bc TimestampsDirect+append).",
        "correspondence": "Flw model (initState from the directory as it is) vs new FileLogWriter instances on the same directory",
        "rule": "200 histories (family f) with failing file-system operations incl. the start of a run (rename of the earlier current file, first open); 1..4 restarts per history x append on/off per run x namings x criteria x forced rotations x restarts in the same second or 1s..1d later; "
                "non-trivial = a restart or rotation happened",
        "trusted": ["OS file system semantics", "virtual clock + creation-time table hooks"],
        "assumptions": ["monotone clock across runs", "every process that ends has flushed (drop = shutdown)"],
    },
    "C10": {
        "level_text": "Kernel-checked panic-freedom of every MODELLED function that slices, unwraps or parses, for arbitrary Unicode input: FlexiLogger::log/enabled "
                      "(route_never_panics, enabled_never_panics: the checked brace slice; the formerly panicking targets are exactly characterised and are now reported as "
                      "an unknown writer), LogSpecification::parse (total, verdict exact); the listing/naming functions are total in the Names model (byte-offset slicing "
                      "returns Option; see C14). Exploration part (labelled as such): a robustness stream against the real crate — nasty targets/messages/spec strings, "
                      "file-name part combinations (empty basename, no suffix, multi-byte, dots), all namings, 3 custom formats with append on/off and restarts, "
                      "directories pre-populated with arbitrary near-miss names — every call under catch_unwind, a later record must still be accepted; recursive logging "
                      "from Display in a child process under a watchdog.",
        "level_note": "The in-memory log target has its own small model (Model/Buf) and theorems (Props/C10Buf): the eviction loop of BufferWriter::write has no exit of its own when the queue is empty; it ends because the counter equals the sum of the queued lengths (evict_terminates, write_returns, log_to_buffer_never_hangs for every sequence of record lengths; stale_counter_hangs is the witness that the invariant is needed). PARTIAL: a theorem cannot show the absence of panics in unmodelled code (std, chrono, regex, OS); that part is exploration. Five panics found and "
                      "repaired (fix commits 9620a31, 0f937be, 9c1a91c, 6ba14c4, index overflow); one hang repaired, too (fix 54ef5cd: recursion + buffered stdout); a sixth panic found in the fourth seeded round and repaired (fix 6e6ba35: the log directory vanishes while the logger runs). "
                      "Out of the random domain (documented): suffix 'gz', exhausted index space (>= 2^32-1).",
        "correspondence": "Spec.route/enabledQuery/parse vs the real logger on nasty inputs; robustness histories: only 'the call returns' is predicted",
        "rule": "a logger started with a not-yet-existing specfile for parsed specifications incl. the empty ones (STARTSPECFILE, under catch_unwind); half records/spec strings (22 nasty targets incl. 5000-char and 100 KB messages, arbitrary Unicode spec strings), half file-name configurations x "
                "directory contents (24 nasty name fragments) x histories with rotations and restarts, in a quarter of which the log directory itself vanishes for a while (RMDIR … MKDIR); 40 (thorough: 400 per seed) runs of the in-memory log target (log_to_buffer) with record lengths around and above its budget, in a child under a watchdog, compared with Model/Buf; 32 recursion runs (nesting depth 1, 2, 3, 5; file, stdout and stderr, direct, buffered and async); non-trivial = all executed cases",
        "trusted": ["catch_unwind observes every panic of the calling thread", "watchdog 4 s + 8 s re-run for hang detection"],
        "shards": 8,
    },
    "C18": {
        "level_text": "Companion Props/C18Fanout over Model/Fanout: every configured writer is called whatever the earlier ones returned, the first error is reported (callAll_calls_everyone, callAll_ok_iff, callAll_reaches_behind_failure). Companion Props/C18ResetSame: reset_flw onto the SAME family = flush + fresh Initial state on the same directory (resetSame_state), the directory the new state starts on holds every byte logged so far, the buffered tail included (resetSame_keeps_everything, resetSame_stream). Kernel-checked: (reopen, non-rotating writer, every buffer capacity) for every history of writes/flushes/external renames/reopen_output the files "
                      "— moved files in the order they were moved, then the file at the original path — hold exactly the written bytes, grouped on record boundaries; the "
                      "not-yet-flushed tail lands in the OLD file (reopen_flushes_into_old_file); after an external delete exactly the deleted file and what was written "
                      "before reopen_output are lost (remove_then_reopen). (reset_flw, all namings before and after) everything logged before a reset remains in the old "
                      "family incl. the buffered tail, everything after is in the new one (reset_stream, reset_separates). (rotation + rename) every file holds a contiguous "
                      "run of records, every record is in exactly one file — for all four naming schemes and any clock (rotation_rename_files, rotation_rename_files_all; "
                      "direct_path_free: with the direct namings no file exists at the stored path while the descriptor refers to a moved file). Differential check on histories mixing writes, rotation, external "
                      "rename/remove + reopen_output and reset_flw to other families, direct and buffered.",
        "level_note": "Rotation + external rename is proved in the order-free form (the reading order of moved files is not chronological then), for every naming scheme. "
                      "Asynchronous mode is outside the property.",
        "correspondence": "Flw model (extRename/extRemove/reopen/reset, archived families) vs FileLogWriter::reopen_outputfile/reset and LoggerHandle::reopen_output/trigger_rotation/reset_flw/existing_log_files (log_to_file, log_to_file_and_writer, the file writer as an additional writer, also next to a primary and eight further writers whose reopen_output()/rotate() fail) on real files renamed/removed by the harness",
        "rule": "100 histories through the LoggerHandle in every public write mode (reset_flw with the builder in the mode the Logger hands to its file writer, trigger_rotation, flush via handle and via Log::flush, listings; asynchronous modes: listings only after shutdown); a third of the logger-driven reopen histories run the file writer as an additional writer next to writers that FAIL on reopen/rotate; oracle reopen-not-at-original-path (records logged after reopen_output() returned must end the file at the original path); histories with EXTREN/EXTRM+REOPEN and RESET to another discriminant x no rotation / all four namings x caps incl. tails below the capacity; plus 120 (thorough: 2000 per seed) histories through a real Logger (file only / file and a second writer); in a third of the reopens the external tool has put a fresh, empty file at the path first (EXTTOUCH); "
                "non-trivial = rotation happened or a reopen/reset was executed",
        "trusted": ["OS: an open descriptor follows a renamed file; bytes written to an unlinked file are gone"],
    },
    "C19": {
        "level_text": "Companion Props/C19ErrChan over Model/ErrChan: reported_on_configured_channel, only_devNull_drops, fallback_keeps_reports; failed compressions: failed_compression_step, failed_compression_keeps_original (the state 'original gone, .gz empty or partial' is unreachable for every fault assignment). Kernel-checked refinement WITH faults: for every naming scheme/criterion/capacity and every history in which ANY open, rename or write may fail "
                      "(the Faults argument of every operation is universally quantified), the files hold exactly the records whose own write was performed, in order "
                      "(faults_stream; no_loss_monotone: nothing written earlier is ever lost); a write that was not performed and a due rotation that did not complete "
                      "are reported (result err + error event write/logfile; failures_reported), no faults = no errors; the state stays usable under an invariant preserved "
                      "by every further step (recovers), and a fault-free suffix behaves as the abstract log continued from what the faulty prefix left "
                      "(resumes_after_faults/resumes_stream). Cleanup faults: only files beyond the limits are removed and a compressed twin holds the data "
                      "(cleanup_fault_removes_only_old, under NoTwins). Validation: every fault kind injected through cfg-guarded fault points at seeded operations; "
                      "exact comparison of directory, error-channel event kinds and call results with the model.",
        "level_note": "Fault points emulate 'the call returned Err(e)' in front of the real call (PermissionDenied); partial effects of a failing OS call itself (short write, "
                      "half-created gz) are not modelled. Items 1-4 are proved without cleanup; with cleanup the loop-level facts + differential check.",
        "correspondence": "Flw model with the Faults argument vs the real writer with the fault hook (open/rename/write/remove/gz_create at the n-th call of an operation)",
        "rule": "fault kinds gzcopy / gzfinish (a compression that fails after the .gz was created: an empty resp. complete .gz next to the original); 15 ERRCHAN child runs: every ErrorChannel variant (StdErr, StdOut, File, an unopenable File, DevNull) x failing write/rename/open, reference = the same run with an openable error file; seeded histories with a fault on ~20% of the writes and 25% of forced rotations, kinds open/rename/write/remove(0,1)/gz, all namings, cleanup variants; "
                "ERRS after every write; non-trivial = rotation happened",
        "trusted": ["fault hook placement (add-only, in front of the fallible call)"],
    },
    "C07": {
        "level_text": "Kernel-checked, uniformly for all four namings, every criterion/capacity/suffix setting and every plain history with Cleanup (k,m): the survivors, read "
                      "oldest->newest after decompression and followed by the current file, are EXACTLY the newest kk+m(+1) files of the uncleaned abstract log "
                      "(cleanup_keeps_newest), hence a contiguous tail of the stream on record boundaries (cleanup_tail); at most kk plain and m compressed files, compressed ones "
                      "older than every plain one (cleanup_bounds, gz_older_than_plain); compression is lossless: an original disappears only beyond the delete limit or with its "
                      ".gz twin holding the same data (compress_lossless, rotation_lossless); the file being written is never removed or compressed (current_spared_every_step; "
                      "witness that the k=0 bump for direct namings is necessary). Differential check with synchronous cleanup after every op incl. restarts and real gzip round trip, "
                      "and with the cleanup thread under four schedules: lock-step (the model's schedule, full comparison), free-running, and two adversarial ones that make the "
                      "thread work off its backlog exactly inside the next rotation (stream and partition compared, tail/bounds oracles after shutdown). "
                      "The cleanup thread itself: for the abstract protocol (Model/Bg: rotate / take a message and list the directory / one file operation of the plan derived "
                      "from THAT listing) and EVERY interleaving, the directory after the thread has drained its queue equals the synchronous result (bg_final_eq_sync), and at "
                      "every moment the k+m newest rotated files exist and the k newest are uncompressed (bg_newest_untouched); under the adversarial schedules the thread's "
                      "steps are observed one by one and replayed on that model (file operations in order, files left).",
        "level_note": "Proved for synchronous cleanup in a single run from an empty directory; the background cleanup thread is covered by the same final-state argument only "
                      "by the confluence theorem of the abstract protocol Bg (all interleavings, kernel-checked; it abstracts rotated files to their rank and assumes what the repaired "
                      "code guarantees: a rotated file is immutable once it has its final name, names are fresh) and by the scheduled runs (lock-step, free-running, two "
                      "adversarial windows) that tie it to the code. The refinement Flw-directory -> Bg-ranks is proved for the pass and for a whole rotation (Props/C07BgBridge: cleanup_abs_renumber - one concrete pass without faults is Bg.pass on the abstraction of the directory; rotation_is_bg_rotate_pass - a rotation in a reachable state is Bg's rotate followed by a pass; premises IfxDistinct, RotKeysDistinct, GzOlder hold in every reachable state and in the directory the pass is called on; without them the statement is false, examples included); the global induction over the whole history is proved, too (Props/C07BgGlobal: history_flags_eq_syncDir_all - after ANY plain history from the empty directory, for all four namings, the compressed/plain flags and the number of the rotated files on disk are those of Bg.syncDir after as many rotations as the history performed, plus one for the file a direct naming opens first; pass_flags_congr - a pass depends on the flags and positions only, ranks are mere identifiers; hence thread_final_eq_concrete_sync_all: under EVERY schedule of the cleanup thread with that many rotations, the drained final directory of the abstract protocol has the flags and the length of the CONCRETE model's synchronous result); what remains unproved is the thread's interleavings on the concrete model itself (the tie is the abstraction + the scheduled runs), and files without a suffix in the global statement; restarts + cleanup: Props/C06Cleanup (the newest files survive a restart's cleanup, the survivors are a tail, indices stay above what is on disk) + differential check. gz = tagged identity in the model, "
                      "byte-exactness checked by decompression. One genuine defect found by these schedules and repaired (fix dfc7273: buffered tail of the rotated file lost when "
                      "the cleanup thread overtakes a rotation). Four known findings (index >= 100000, suffix sorting after 'restart', suffix-less files never compressed, "
                      "day-first custom format).",
        "correspondence": "Flw model (listing/cleanupLoop) vs real cleanup incl. flate2 compression, SNAP after every write in direct mode",
        "rule": "60 histories (family s) with a SLOWED cleanup thread in every public write mode incl. WriteMode::Async built with FileLogWriter::builder (keeps the cleanup thread): limits and tail must hold the moment shutdown() has returned; k,m in 0..3 x all namings x suffix present/absent x criteria x forced rotations x 0..2 restarts x cleanup inline / thread lock-step / free-running / adversarial; non-trivial = rotation or restart happened",
        "trusted": ["flate2 gzip round trip (checked by decompression)", "OS remove/create", "hook points cleanup.thread.send/act/done used to schedule the cleanup thread"],
    },
    "C11": {
        "level_text": "Kernel-checked on the instrumented model (FlwTrace, first projection = the model: trace_projection): in direct mode, at EVERY named point between two "
                      "file-system effects of a write — initialisation, rename, symlink replacement, open, mount, write — the directory holds every acknowledged record and "
                      "at most the in-flight one, in order; the call returns only after 'write.after' (crash_safe_rcurrent, crash_safe_direct, *_rotate); a new logger on ANY "
                      "such crash directory (renamed-but-no-current, new empty current file, …; append on/off) continues the stream exactly (restart_from_crash_*). "
                      "Validation: real child processes are ABORTED at every (point, occurrence) of a victim write and of a forced rotation (hook handler), the directory and "
                      "symlink are compared with the model's crashDir, a new logger is started on it and the run continued and compared; the sequence of point names of "
                      "an operation is compared with the model's trace.",
        "level_note": "History theorems: no cleanup; with cleanup, Props/C11Reach closes the link between histories and the pass for rotations within a run (reachable_write_cleanup_crash_safe, reachable_rotate_cleanup_crash_safe: in every state reachable by a plain history, at every recorded point of the cleanup pass that a due rotation starts, every rotated file that is in the directory after the completed operation is completely on disk). The cleanup pass itself is proved crash-safe on its own (Props/C11Cleanup: at EVERY recorded point of a pass over a "
                      "directory in which no infix occurs twice, every file within the keep limits is completely on disk, plain or compressed, and nothing outside the listing "
                      "is touched; the premise is C07's reachable_ifxDistinct; without it the statement is false - example exDup); how a history reaches such a pass and what "
                      "the restarted logger does with an original next to an unfinished .gz is covered by the kill runs + correspondence (the model's crashDir includes those "
                      "points; cleanup-backlog histories kill the pass between two compressions). Trusted: data handed to write(2) survives process death; rename is atomic; abort() at a hook point = kill "
                      "at that point. Kills at ARBITRARY instants are exercised as well (family k: the child announces a burst of 20..120 writes, the parent sends SIGKILL a random number of microseconds later): "
                      "the directory found afterwards must be EQUAL to one the model passes through during the write in flight - before it, at one of its recorded points, or after it (driver op KOBS over "
                      "FlwTrace.stepT); the model continues from the matching directory, a new logger is started and compared as usual; creation times travel by inode, a file that the dead process had not yet "
                      "registered was created by the operation in flight. That every real kill state is a modelled crash state is an observation (60 kills per quick run); what IS a theorem (Props/C11Gap, points_leave_no_gap): in direct mode the recorded states of a write or forced rotation - the state before, every point, the state after - form a chain in which consecutive states differ by at most ONE atomic file-system effect (nothing, create empty, truncate, re-create an existing .gz, one append, rename, unlink, a .gz becoming readable, symlink removed, symlink created), for EVERY state; so the model has no gap between its points, and with buffering it has one (a flush and a write between write.before and write.after), which is why the claim is for direct mode.",
        "correspondence": "FlwTrace.crashDir/stepT vs child processes killed at hook points and by SIGKILL at arbitrary instants, then restart on the same directory",
        "rule": "both direct write modes (Direct and SupportCapture) in the kill histories; 6 histories (quick) x {victim write, forced rotation} x 17 points x occurrences 0..2 (cleanup/compress points) x restart append on/off; direct mode, all namings, "
                "cleanup never/(1,1)/random; plus 60 (thorough: 1500 per seed) SIGKILLs at arbitrary instants during bursts of same-second writes; non-trivial = all (each case kills or proves the point unreachable)",
        "trusted": ["OS: written data survives process death; rename atomic", "hook points (add-only) mark the gaps between file-system effects"],
        "shards": 8,
    },
    "C14": {
        "level_text": "Kernel-checked on the string-level model of the listing code (after the repairs): a selected name has the fixed name part, the separating underscore and an "
                      "infix accepted by the scheme's filter — the byte-offset arithmetic of the code is exactly this char-level statement, slicing inside a multi-byte "
                      "character or a missing separator yields 'not selected', never a panic (accept_shape, accept_total, byte_offsets_are_char_offsets); with a well-formed "
                      "remainder the name IS a family name (foreign_not_selected_partial, *_gz_*, *_nosuffix_*); the unguarded statement is proved FALSE (extra dots: known "
                      "finding); every file the logger produces is selected, rCURRENT by no rotated-file filter (family_selected_*, current_not_rotated). The file writer "
                      "touches only selected names (model by construction + differential check with near-miss foreign files present: bytes/names unchanged, family "
                      "behaviour identical to the run without them).",
        "level_note": "chrono's verdict on a timestamp infix is a parameter (tsOk) supplied by the harness. Two defects repaired (0f937be, 65723b0), one known finding (C14-extra-dots).",
        "correspondence": "Names.existingLogFiles/acceptFile vs FileLogWriter::existing_log_files on directories with near-miss names; Flw model (which ignores foreign files) vs the real writer with foreign files present",
        "rule": "sibling discriminants / basenames of EQUAL length among the near misses (another family whose fixed name part differs only in its text); near-miss generator (43 mutations of family names, those the code's own suffix test accepts excluded as known finding: longer/shorter basename, missing separator, other discriminant incl. infix-like, other suffix, trailing extension, "
                "infix garbage, too few digits, multi-byte, impossible dates, restart markers without number, sub-directory, what lenient number/date parsers accept (sign, blank, non-ASCII digits, unpadded fields), extensions that merely end with the suffix letters) x namings x cleanup x restarts; non-trivial = rotation/restart or listing compared",
        "trusted": ["chrono parse_from_str (tsOk)"],
    },
    "C16": {
        "level_text": "Kernel-checked: render = non-empty parts joined by '_' + .suffix (+ .gz) with absent parts and separators omitted (name_pattern, explicit layouts); "
                      "number infix = 'r' + >= 5 digits, injective; FileSpec::try_from round trip for EVERY file name incl. dot files, several dots, no extension, bare names "
                      "(tryFrom_roundtrip_all); the structural order used by the writer proofs IS the order of the rendered names (numbers_order_key, stamps_order for all formats, "
                      "restart siblings under RestartSafe — with witnesses for index >= 100000 and suffix 'txt'); existing_log_files = exactly the wanted family files "
                      "(mem_existingLogFiles, existing_exact). Differential check: exact names (SNAP), symlink target after every observation, existing_log_files for all "
                      "selectors incl. before the first write of a new logger, try_from paths with a writer built from them.",
        "level_note": "Three defects repaired (763ea2b bare file name, c5fbd22 start time recomputed, bcb4371 listing before first write). The start-time part is pinned "
                      "(suppress_timestamp) in the differential histories; custom timestamp formats: 3 year-first formats; the order lemmas carry the hypothesis 'year-first format' (stamps_order_dayfirst_violation_witness shows the full statement false for a day-first format).",
        "correspondence": "Names.render/existingLogFiles/tryFromName + Flw model (names, symlink) vs the real writer and FileSpec",
        "rule": "100 histories through LoggerHandle::existing_log_files / reset_flw of a real Logger in every public write mode; all name-part combinations incl. empty basename, dotted/underscore names, names containing '_r' x namings (indices of five, six and seven digits) x selectors (incl. rCURRENT and a custom current file side by side) x histories with rotation, cleanup, compression, restarts; "
                "10 try_from paths incl. sub-directories; non-trivial = all",
        "trusted": ["std::path::Path::file_stem/extension (modelled as splitExt, validated)"],
    },
}
