"""Per-property configuration of ./check."""

SPEC_TRUST = [
    "regex crate: validity/match bits are computed by the harness with the same crate and handed to the model",
    "Unicode lower-casing: only U+212A lower-cases into an ASCII letter (modelled); fuzzed in the correspondence check",
    "log crate: Level/LevelFilter ordering",
]

PROPS = {
    "C02": {
        "level_text": "Kernel-checked Lean theorems: for every well-formed filter set in ANY enumeration order, level_sort + first-match "
                      "equals the declarative longest-prefix/default/off rule (enabled_longest_prefix, enabled_levelSort); plain targets are "
                      "passed on iff enabled and regex-matched (log_iff); the max-level gate admits everything the spec or a writer accepts "
                      "(gate_admits_*); enabled() is sound for plain targets and addressed writers; the {_Default} case is proved FALSE "
                      "(witness) and is a known finding. The model is tied to the code by a differential check on seeded specs/targets/messages "
                      "plus a declarative oracle evaluated on the real logger.",
        "level_note": "Trusted: Lean kernel; regex and log crates; the hand-written Spec model is validated against the code only on the generated "
                      "cases (bounded, seeded). Quantifier restricted to specs naming each module at most once (as the property states).",
        "correspondence": "Spec model (parse/level_sort/enabled/route/enabledQuery/gate) vs LogSpecification + boxed FlexiLogger from Logger::build()",
        "rule": "seeded structured specs (builder and parsed strings; names that are prefixes/equal length/level words/non-ASCII) x "
                "grid of derived targets x 5 levels x messages vs regexes; a case is non-trivial if at least one decision was "
                "checked against the declarative longest-prefix oracle; distinct = distinct op sequences",
        "trusted": SPEC_TRUST,
        "assumptions": ["specifications name each module at most once (the property's quantifier)"],
    },
    "C05": {
        "level_text": "Kernel-checked refinement: for every finite sequence of the five reconfiguration operations the handle model equals the "
                      "abstract stack of specifications (run_refines), a rejected string changes nothing (malformed_leaves_state), pop on an "
                      "empty stack is a no-op, and the max-level gate always belongs to the active spec (run_gate, gate_admits_after_run). "
                      "Differential check on seeded op sequences (grid of enabled(), log::max_level(), Ok/Err after every op) against the real LoggerHandle.",
        "level_note": "Trusted: Lean kernel; the Handle model is validated against the code on generated sequences only; the hidden stack is observed "
                      "through depth+2 trailing pops. One genuine defect was repaired (fix: 6264abc).",
        "correspondence": "Spec.Handle model vs LoggerHandle::{set_new_spec,parse_new_spec,push_temp_spec,parse_and_push_temp_spec,pop_temp_spec}",
        "rule": "seeded op sequences of the five reconfiguration methods with well-formed and malformed strings, nested pushes, "
                "pops beyond the stack; after every op the enabled grid and log::max_level() are compared; each sequence ends "
                "with depth+2 pops; non-trivial = contains a rejected string or a pop",
        "trusted": SPEC_TRUST,
    },
    "C17": {
        "level_text": "Kernel-checked theorems on the parse/Display/TOML model: exact error/salvage characterisation (parse_exact, "
                      "parse_too_many_slashes) and the Display/TOML round trips for all well-formed specs; differential check of parse on structured, "
                      "single-fault and arbitrary Unicode strings (verdict, salvaged filters, decisions) and of the real to_toml/from_toml and Display round trips.",
        "level_note": "Trusted: Lean kernel; regex validity bit and the toml crate's lexical layer are outside the model (validated, not proved); "
                      "Unicode lower-casing argument (only U+212A folds into ASCII).",
        "correspondence": "Spec.parse/display/toToml/fromToml vs LogSpecification::parse/Display/to_toml/from_toml",
        "rule": "structured specs (Display/TOML round trip), single-fault strings with known salvage, too many slashes, strings over "
                "the spec alphabet incl. Unicode whitespace and case-folding confusables; non-trivial = decision grid or salvage oracle evaluated",
        "trusted": SPEC_TRUST + ["toml crate lexical layer (validated by the real to_toml -> from_toml round trip, not proved)"],
    },
    "C03": {
        "level_text": "Kernel-checked theorems on the thread/channel protocol model (Conc): for EVERY schedule of any number of threads, both the "
                      "mutex path (format, then one critical section per line) and the async path (pooled buffers, FIFO channel, single consumer, "
                      "control messages), every complete run emits each thread's lines exactly once, intact, in per-thread order (all_schedules_sync/async), "
                      "with the pool invariant 'pooled buffers are empty' (and a witness that dropping the clear breaks it); shutdown drains the channel. "
                      "Validation: real threads (2..8) log through the real FileLogWriter under seeded scheduling noise at hook points; the observed global "
                      "order must be accepted by the Conc model AND, replayed as a sequential history, reproduce the real directory in the Flw model (linearizability).",
        "level_note": "PARTIAL: a theorem cannot exhibit real preemption inside a critical section or OS tearing of a write(2); those are sampled by the "
                      "real-thread runs, not proved. Assumes mutex critical section = atomic step, crossbeam channel FIFO per producer, one write_all per line.",
        "correspondence": "observed order of real concurrent runs vs Conc.ObsOk, and vs the sequential Flw model (directory snapshot)",
        "rule": "seeded programs (2..8 threads x 3..25 lines of sizes 8..130) x modes sync direct/buffered/async(pool,msg) x all namings x size limits; "
                "non-trivial = the run produced more than one file",
        "trusted": ["std::sync::Mutex, crossbeam-channel FIFO, crossbeam ArrayQueue", "OS: a single write(2) of a line is not torn"],
        "shards": 4,
    },
    "C12": {
        "level_text": "Kernel-checked: in the locked protocol (spec replaced and max level set under one write lock) EVERY interleaving of any number of "
                      "concurrent set_new_spec calls ends, once all have returned, with one submitted specification as a whole and the max level of exactly "
                      "that specification (atomic_update_consistent); the unlocked protocol of the original code is proved to violate this on the schedule "
                      "A1 A2 B2 B1 (race_witness; the defect was repaired, fix 2bbaa7c). Validation: all interleavings of 2 calls and all one-waiter "
                      "interleavings of 3 calls are executed on the real LoggerHandle by parking threads at the hook point between the two steps.",
        "level_note": "Trusted: RwLock semantics; thread parking via the cfg-guarded hook point 'spec.updated'; 'blocked' is observed with a 60 ms timeout. "
                      "push/pop run through the same set_new_spec path (their stack part is per handle clone, C05).",
        "correspondence": "Spec.CState (lock model) vs real threads parked inside WritersHandle::set_new_spec",
        "rule": "enumeration of interleavings (start_i before finish_i) of 2 and 3 calls with specs of different maximum levels; non-trivial = all cases (quiescence oracle evaluated)",
        "trusted": SPEC_TRUST,
        "shards": 2,
    },
    "C20": {
        "level_text": "Kernel-checked theorems on the format model (Fmt): jsonUnescape(jsonEscape s) = s for ALL strings, escaped text has no raw control "
                      "character or bare quote, the JSON object's members decode to the record's values (json_fields_decode), the four text formats and "
                      "their coloured variants have the stated layout with the message verbatim, framing is format output ++ one line ending (also on the "
                      "recursive path: emit_lines), and all outputs of one record carry the first clock reading (one_timestamp). Validation: byte-exact "
                      "comparison of the real format functions through a real FileLogWriter (LF/CRLF) and of file + additional writer under a clock that "
                      "advances on every read; serde_json parses the JSON lines back (oracle).",
        "level_note": "Trusted: chrono's rendering of the timestamp text (passed to the model as data), serde_json/nu_ansi_term escaping rules as modelled "
                      "(validated byte-exactly), kv Debug rendering restricted to printable ASCII + common escapes.",
        "correspondence": "Fmt model vs flexi_logger::{default,opt,detailed,with_thread,colored_*,json}_format through FileLogWriter/Logger",
        "rule": "seeded records (all present/absent field combinations, messages with quotes/backslashes/control/non-ASCII/multi-line, kv pairs) x 9 formats x LF/CRLF; "
                "non-trivial = at least one formatted line compared",
        "trusted": ["chrono strftime", "serde_json string escaping", "nu_ansi_term Style::paint"],
        "shards": 4,
    },
    "C13": {
        "level_text": "Kernel-checked theorems on the routing model: for a brace list of distinct names every registered writer named receives the record "
                      "exactly once and no other writer anything, independent of the specification (named_writer_exactly_once, unnamed_writer_nothing, "
                      "deliveries_independent_of_spec); the default channel iff _Default is listed and the spec enables the MODULE (brace_default_iff); unknown "
                      "names are reported and do not disturb the others; provided writers emit iff level <= ceiling (ceiling_rule); the complete 7x5 duplication "
                      "table (dup_rule, decide). Validation against the real logger with recording writers, a FileLogWriter with max_level, a SyslogWriter over "
                      "loopback UDP, and a child process whose stderr/stdout are captured for all Duplicate values incl. adapt_duplication_to_*.",
        "level_note": "A name repeated inside one brace list is delivered once per occurrence (documented reading: the statement quantifies over lists of distinct "
                      "names). One genuine defect repaired (fix 5bf7827: SyslogWriter ignored max_log_level). Custom LogWriters decide themselves what they emit.",
        "correspondence": "Spec.route/emitted/dupDecision vs FlexiLogger::log with additional writers (recording, FileLogWriter, SyslogWriter/UDP) and MultiWriter duplication (child process)",
        "rule": "seeded brace lists over registered/unknown/_Default/empty names (mostly distinct) x 5 levels x specs x writer kinds and ceilings; duplication cases: "
                "all 7 Duplicate values for stderr and stdout with run-time adaptation; non-trivial = a delivery or duplication decision was checked by the oracle",
        "trusted": SPEC_TRUST + ["loopback UDP delivers a datagram before the next recv"],
        "shards": 8,
    },
}
