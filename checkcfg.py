"""Per-property configuration of ./check."""

SPEC_TRUST = [
    "regex crate: validity/match bits are computed by the harness with the same crate and handed to the model",
    "Unicode lower-casing: only U+212A lower-cases into an ASCII letter (modelled); fuzzed in the correspondence check",
    "log crate: Level/LevelFilter ordering",
]

PROPS = {
    "C02": {
        "level_text": "Kernel-checked Lean theorems: for every well-formed filter set in ANY enumeration order, level_sort + first-match "
                      "equals the declarative longest-prefix/default/off rule (enabled_longest_prefix, enabled_levelSort); plain targets are "
                      "passed on iff enabled and regex-matched (log_iff); the max-level gate admits everything the spec or a writer accepts "
                      "(gate_admits_*); enabled() is sound for plain targets and addressed writers; the {_Default} case is proved FALSE "
                      "(witness) and is a known finding. The model is tied to the code by a differential check on seeded specs/targets/messages "
                      "plus a declarative oracle evaluated on the real logger.",
        "level_note": "Trusted: Lean kernel; regex and log crates; the hand-written Spec model is validated against the code only on the generated "
                      "cases (bounded, seeded). Quantifier restricted to specs naming each module at most once (as the property states).",
        "correspondence": "Spec model (parse/level_sort/enabled/route/enabledQuery/gate) vs LogSpecification + boxed FlexiLogger from Logger::build()",
        "rule": "seeded structured specs (builder and parsed strings; names that are prefixes/equal length/level words/non-ASCII) x "
                "grid of derived targets x 5 levels x messages vs regexes; a case is non-trivial if at least one decision was "
                "checked against the declarative longest-prefix oracle; distinct = distinct op sequences",
        "trusted": SPEC_TRUST,
        "assumptions": ["specifications name each module at most once (the property's quantifier)"],
    },
    "C05": {
        "level_text": "Kernel-checked refinement: for every finite sequence of the five reconfiguration operations the handle model equals the "
                      "abstract stack of specifications (run_refines), a rejected string changes nothing (malformed_leaves_state), pop on an "
                      "empty stack is a no-op, and the max-level gate always belongs to the active spec (run_gate, gate_admits_after_run). "
                      "Differential check on seeded op sequences (grid of enabled(), log::max_level(), Ok/Err after every op) against the real LoggerHandle.",
        "level_note": "Trusted: Lean kernel; the Handle model is validated against the code on generated sequences only; the hidden stack is observed "
                      "through depth+2 trailing pops. One genuine defect was repaired (fix: 6264abc).",
        "correspondence": "Spec.Handle model vs LoggerHandle::{set_new_spec,parse_new_spec,push_temp_spec,parse_and_push_temp_spec,pop_temp_spec}",
        "rule": "seeded op sequences of the five reconfiguration methods with well-formed and malformed strings, nested pushes, "
                "pops beyond the stack; after every op the enabled grid and log::max_level() are compared; each sequence ends "
                "with depth+2 pops; non-trivial = contains a rejected string or a pop",
        "trusted": SPEC_TRUST,
    },
    "C17": {
        "level_text": "Kernel-checked theorems on the parse/Display/TOML model: exact error/salvage characterisation (parse_exact, "
                      "parse_too_many_slashes) and the Display/TOML round trips for all well-formed specs; differential check of parse on structured, "
                      "single-fault and arbitrary Unicode strings (verdict, salvaged filters, decisions) and of the real to_toml/from_toml and Display round trips.",
        "level_note": "Trusted: Lean kernel; regex validity bit and the toml crate's lexical layer are outside the model (validated, not proved); "
                      "Unicode lower-casing argument (only U+212A folds into ASCII).",
        "correspondence": "Spec.parse/display/toToml/fromToml vs LogSpecification::parse/Display/to_toml/from_toml",
        "rule": "structured specs (Display/TOML round trip), single-fault strings with known salvage, too many slashes, strings over "
                "the spec alphabet incl. Unicode whitespace and case-folding confusables; non-trivial = decision grid or salvage oracle evaluated",
        "trusted": SPEC_TRUST + ["toml crate lexical layer (validated by the real to_toml -> from_toml round trip, not proved)"],
    },
}
