//! Small shared helpers: PRNG, hex codec, JSON string escaping, report accumulation.
use std::collections::BTreeMap;
use std::fmt::Write as _;

/// xorshift64* — every random choice of the harness derives from one of these.
#[derive(Clone)]
pub struct Rng(pub u64);
impl Rng {
    pub fn new(seed: u64) -> Self {
        let mut r = Rng(seed ^ 0x9E37_79B9_7F4A_7C15);
        if r.0 == 0 {
            r.0 = 0x1234_5678_9ABC_DEF1;
        }
        for _ in 0..4 {
            r.next();
        }
        r
    }
    pub fn next(&mut self) -> u64 {
        let mut x = self.0;
        x ^= x >> 12;
        x ^= x << 25;
        x ^= x >> 27;
        self.0 = x;
        x.wrapping_mul(0x2545_F491_4F6C_DD1D)
    }
    /// uniform in 0..n (n > 0)
    pub fn below(&mut self, n: u64) -> u64 {
        self.next() % n
    }
    pub fn range(&mut self, lo: u64, hi_incl: u64) -> u64 {
        lo + self.below(hi_incl - lo + 1)
    }
    pub fn chance(&mut self, num: u64, den: u64) -> bool {
        self.below(den) < num
    }
    pub fn pick<'a, T>(&mut self, xs: &'a [T]) -> &'a T {
        &xs[self.below(xs.len() as u64) as usize]
    }
    pub fn pick_s<'a>(&mut self, xs: &[&'a str]) -> &'a str {
        xs[self.below(xs.len() as u64) as usize]
    }
    pub fn fork(&mut self) -> Rng {
        Rng::new(self.next())
    }
}

pub fn hex(b: &[u8]) -> String {
    if b.is_empty() {
        return "-".to_string();
    }
    let mut s = String::with_capacity(b.len() * 2);
    for x in b {
        write!(s, "{x:02x}").unwrap();
    }
    s
}
pub fn hexs(s: &str) -> String {
    hex(s.as_bytes())
}
pub fn unhex(s: &str) -> Option<Vec<u8>> {
    if s == "-" {
        return Some(Vec::new());
    }
    if s.len() % 2 != 0 {
        return None;
    }
    let b = s.as_bytes();
    let v = |c: u8| -> Option<u8> {
        match c {
            b'0'..=b'9' => Some(c - b'0'),
            b'a'..=b'f' => Some(c - b'a' + 10),
            b'A'..=b'F' => Some(c - b'A' + 10),
            _ => None,
        }
    };
    let mut out = Vec::with_capacity(b.len() / 2);
    for i in (0..b.len()).step_by(2) {
        out.push(v(b[i])? * 16 + v(b[i + 1])?);
    }
    Some(out)
}
pub fn unhexs(s: &str) -> Option<String> {
    String::from_utf8(unhex(s)?).ok()
}

pub fn json_str(s: &str) -> String {
    serde_json::to_string(s).unwrap()
}

/// What one run of the harness reports back to `check`.
#[derive(Default)]
pub struct Report {
    pub evaluations: u64,
    pub nontrivial: std::collections::BTreeSet<u64>, // hashes of distinct non-trivial cases
    pub distribution: BTreeMap<String, u64>,
    pub samples: Vec<String>,
    /// oracle failures on the implementation: (case id, signature, detail)
    pub oracle_failures: Vec<(String, String, String)>,
    /// inconclusive cases (watchdog etc.)
    pub inconclusive: Vec<(String, String)>,
    pub rule: String,
}
impl Report {
    pub fn count(&mut self, key: &str) {
        *self.distribution.entry(key.to_string()).or_insert(0) += 1;
    }
    pub fn add(&mut self, key: &str, n: u64) {
        *self.distribution.entry(key.to_string()).or_insert(0) += n;
    }
    pub fn nontrivial_case(&mut self, lines: &[String]) {
        use std::hash::{Hash, Hasher};
        let mut h = std::collections::hash_map::DefaultHasher::new();
        // skip the header (it carries the case number)
        for l in lines.iter().skip(1) {
            l.hash(&mut h);
        }
        self.nontrivial.insert(h.finish());
    }
    pub fn fail(&mut self, case: &str, sig: &str, detail: &str) {
        self.oracle_failures
            .push((case.to_string(), sig.to_string(), detail.to_string()));
    }
    pub fn to_json(&self) -> String {
        let mut s = String::new();
        s.push('{');
        write!(s, "\"evaluations\":{},", self.evaluations).unwrap();
        write!(s, "\"distinct_nontrivial\":{},", self.nontrivial.len()).unwrap();
        write!(s, "\"rule\":{},", json_str(&self.rule)).unwrap();
        s.push_str("\"distribution\":{");
        let mut first = true;
        for (k, v) in &self.distribution {
            if !first {
                s.push(',');
            }
            first = false;
            write!(s, "{}:{}", json_str(k), v).unwrap();
        }
        s.push_str("},\"samples\":[");
        for (i, x) in self.samples.iter().enumerate() {
            if i > 0 {
                s.push(',');
            }
            s.push_str(&json_str(x));
        }
        s.push_str("],\"oracle_failures\":[");
        for (i, (c, sig, d)) in self.oracle_failures.iter().enumerate() {
            if i > 0 {
                s.push(',');
            }
            write!(
                s,
                "{{\"case\":{},\"signature\":{},\"detail\":{}}}",
                json_str(c),
                json_str(sig),
                json_str(d)
            )
            .unwrap();
        }
        s.push_str("],\"inconclusive\":[");
        for (i, (c, d)) in self.inconclusive.iter().enumerate() {
            if i > 0 {
                s.push(',');
            }
            write!(s, "{{\"case\":{},\"detail\":{}}}", json_str(c), json_str(d)).unwrap();
        }
        s.push_str("]}");
        s
    }
}

pub fn tokens(line: &str) -> Vec<&str> {
    line.split(' ').filter(|t| !t.is_empty()).collect()
}
