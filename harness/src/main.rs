//! fvh — correspondence harness: generates structured cases, executes them against the real
//! flexi_logger (built from /repo's working tree with the verification hooks on), evaluates
//! the property oracles, and writes the protocol lines for the Lean model driver.
//!
//!   fvh gen  <PROP> --tier quick|thorough --seed N --out DIR [--shard i/n]
//!        -> DIR/cases.txt                       (protocol lines, generated only)
//!   fvh exec --cases FILE --out DIR --work W
//!        -> DIR/impl.txt DIR/report.json        (implementation answers + oracle verdicts)
mod props;
mod util;

use std::io::Write;
use util::Report;

pub struct Ctx {
    pub work: std::path::PathBuf,
    pub report: Report,
    pub case_no: u64,
}

fn arg<'a>(args: &'a [String], name: &str) -> Option<&'a str> {
    args.iter()
        .position(|a| a == name)
        .and_then(|i| args.get(i + 1))
        .map(String::as_str)
}

fn main() {
    // the harness does not depend on the zone of the host. chrono caches the zone per thread, so
    // the zone is fixed per process: the check groups the cases by the zone they ask for
    // (`NOTE tz`) and passes it in FVH_TZ
    std::env::set_var("TZ", std::env::var("FVH_TZ").unwrap_or_else(|_| "UTC".to_string()));
    // `DeferredNow::force_utc()` is a one-way switch of the process, too
    if std::env::var("FVH_FORCE_UTC").as_deref() == Ok("1") {
        flexi_logger::DeferredNow::force_utc();
    }
    let args: Vec<String> = std::env::args().collect();
    if args.len() < 2 {
        eprintln!("usage: fvh gen|exec|child ...");
        std::process::exit(2);
    }
    match args[1].as_str() {
        "gen" => {
            let prop = args[2].clone();
            let tier = arg(&args, "--tier").unwrap_or("quick").to_string();
            let seed: u64 = arg(&args, "--seed").and_then(|s| s.parse().ok()).unwrap_or(1);
            let out = std::path::PathBuf::from(arg(&args, "--out").expect("--out"));
            std::fs::create_dir_all(&out).unwrap();
            let cases = props::generate(&prop, &tier, seed);
            let mut f = std::io::BufWriter::new(std::fs::File::create(out.join("cases.txt")).unwrap());
            for c in &cases {
                for l in c {
                    writeln!(f, "{l}").unwrap();
                }
            }
            f.flush().unwrap();
            println!("generated {} cases", cases.len());
        }
        "exec" => {
            let cases_file = arg(&args, "--cases").expect("--cases");
            let out = std::path::PathBuf::from(arg(&args, "--out").expect("--out"));
            let work = std::path::PathBuf::from(arg(&args, "--work").expect("--work"));
            let shard: (u64, u64) = arg(&args, "--shard")
                .and_then(|s| {
                    let (a, b) = s.split_once('/')?;
                    Some((a.parse().ok()?, b.parse().ok()?))
                })
                .unwrap_or((0, 1));
            std::fs::create_dir_all(&out).unwrap();
            std::fs::create_dir_all(&work).unwrap();
            let text = std::fs::read_to_string(cases_file).unwrap();
            let mut cases: Vec<Vec<String>> = Vec::new();
            let mut cur: Vec<String> = Vec::new();
            for l in text.lines() {
                if l.trim().is_empty() {
                    continue;
                }
                cur.push(l.to_string());
                if l.trim() == "END" {
                    cases.push(std::mem::take(&mut cur));
                }
            }
            let mut ctx = Ctx {
                work,
                report: Report::default(),
                case_no: 0,
            };
            props::init_process(&mut ctx);
            let suffix = if shard.1 > 1 {
                format!(".{}", shard.0)
            } else {
                String::new()
            };
            let mut f = std::io::BufWriter::new(
                std::fs::File::create(out.join(format!("impl{suffix}.txt"))).unwrap(),
            );
            let mut fe = std::io::BufWriter::new(
                std::fs::File::create(out.join(format!("eff{suffix}.txt"))).unwrap(),
            );
            for (i, c) in cases.iter().enumerate() {
                if (i as u64) % shard.1 != shard.0 {
                    continue;
                }
                ctx.case_no = i as u64;
                for (eff, answers) in props::execute(&mut ctx, c) {
                    assert_eq!(answers.len(), eff.len(), "one answer per line");
                    for l in eff {
                        writeln!(fe, "{l}").unwrap();
                    }
                    for a in answers {
                        writeln!(f, "{a}").unwrap();
                    }
                }
            }
            f.flush().unwrap();
            fe.flush().unwrap();
            std::fs::write(out.join(format!("report{suffix}.json")), ctx.report.to_json()).unwrap();
        }
        "child" => {
            props::child_main(&args[2..]);
        }
        _ => {
            eprintln!("unknown command");
            std::process::exit(2);
        }
    }
}
